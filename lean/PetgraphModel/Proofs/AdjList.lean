import PetgraphModel.Model.AdjList
import PetgraphModel.Spec.AppendOnly
import Mathlib.Tactic.ByContra
set_option linter.style.nameCheck false
namespace PetgraphModel.AdjProofs
open PetgraphModel.AdjM PetgraphModel.AppendSpec

/-- abstract effect and answer of one mutating call on the insertion log; `m` = number of values of the node
index type (`0`: unbounded): `add_node*` on a `full` list is the documented panic and changes nothing -/
def specStep (m : Nat) (g : ML) : Op → ML × Out
  | .addNode =>
    match g.addNodeCap m with
    | some (g', i) => (g', .ix i)
    | none => (g, .panic)
  | .addNodeFromEdges es =>
    match g.addNodeFromCap m es with
    | some (g', i) => (g', .ix i)
    | none => (g, .panic)
  | .addEdge a b w =>
    match g.addEdge a b w with
    | some (g', e) => (g', .eix e)
    | none => (g, .panic)
  | .updateEdge a b w =>
    match g.updateEdge a b w with
    | some (g', e) => (g', .eix e)
    | none => (g, .panic)
  | .setEdgeWeight e w =>
    match g.get e with
    | some _ => (g.setW e w, .found true)
    | none => (g, .found false)
  | .clear => (g.clear, .unit)

def specRun (m : Nat) (g : ML) : List Op → ML × List Out
  | [] => (g, [])
  | op :: ops =>
    let (g1, o) := specStep m g op
    let (g2, os) := specRun m g1 ops
    (g2, o :: os)

theorem full_iff (m n : Nat) : full m n = true ↔ ¬ (m = 0 ∨ n < m) := by
  simp [full]

theorem fitsIx_iff (m i : Nat) : fitsIx m i = true ↔ (m = 0 ∨ i < m) := by
  simp [fitsIx]

theorem addNodeCap_fit (m : Nat) (g : ML) (h : m = 0 ∨ g.n < m) : g.addNodeCap m = some g.addNode := by
  have : full m g.n = false := by rw [← Bool.not_eq_true, full_iff]; exact fun hh => hh h
  simp [ML.addNodeCap, this]

theorem addNodeCap_full (m : Nat) (g : ML) (h : ¬ (m = 0 ∨ g.n < m)) : g.addNodeCap m = none := by
  have : full m g.n = true := (full_iff m g.n).mpr h
  simp [ML.addNodeCap, this]

theorem addNodeFromCap_fit (m : Nat) (g : ML) (es : Row) (h : m = 0 ∨ g.n < m) :
    g.addNodeFromCap m es = some (g.addNodeFrom es) := by
  have : full m g.n = false := by rw [← Bool.not_eq_true, full_iff]; exact fun hh => hh h
  simp [ML.addNodeFromCap, this]

theorem addNodeFromCap_full (m : Nat) (g : ML) (es : Row) (h : ¬ (m = 0 ∨ g.n < m)) :
    g.addNodeFromCap m es = none := by
  have : full m g.n = true := (full_iff m g.n).mpr h
  simp [ML.addNodeFromCap, this]

/-- `next_node_index()` below the capacity of the index type -/
theorem nextNodeIndex_fit (s : State) (h : s.modulus = 0 ∨ s.suc.length < s.modulus) :
    nextNodeIndex s = some s.suc.length := by
  simp [nextNodeIndex, (fitsIx_iff _ _).mpr h]

/-- `next_node_index()` at the capacity of the index type: the `assert!` fires -/
theorem nextNodeIndex_full (s : State) (h : ¬ (s.modulus = 0 ∨ s.suc.length < s.modulus)) :
    nextNodeIndex s = none := by
  have : fitsIx s.modulus s.suc.length = false := by rw [← Bool.not_eq_true, fitsIx_iff]; exact h
  simp [nextNodeIndex, this]

def rowOf (g : ML) (a : Nat) : Row := (g.outOf a).map fun e => (e.tgt, e.w)

/-- the rows of the model are the per-source subsequences of the log; the `k`-th edge out of `a`
carries the index `(a, k)` -/
structure LAbs (s : State) (g : ML) : Prop where
  n : g.n = s.suc.length
  rows : ∀ a, a < g.n → s.suc[a]? = some (rowOf g a)
  ids : ∀ a, (g.outOf a).map (·.id) = (List.range (g.outOf a).length).map fun k => (a, k)
  src : ∀ e ∈ g.edges, e.src < g.n

theorem outOf_push (g : ML) (a b : Nat) (w : Int) (x : Nat) :
    (g.push a b w).1.outOf x =
      if x = a then g.outOf a ++ [⟨(a, (g.outOf a).length), a, b, w⟩] else g.outOf x := by
  unfold ML.push ML.outOf
  simp only [List.filter_append, List.filter_cons, List.filter_nil]
  by_cases h : x = a
  · subst h; simp
  · have : ¬ a = x := fun e => h e.symm
    simp [h, this]

theorem rowOf_push (g : ML) (a b : Nat) (w : Int) (x : Nat) :
    rowOf (g.push a b w).1 x = if x = a then rowOf g a ++ [(b, w)] else rowOf g x := by
  unfold rowOf
  rw [outOf_push]
  split <;> simp

theorem push_n (g : ML) (a b : Nat) (w : Int) : (g.push a b w).1.n = g.n := rfl

theorem push_id (g : ML) (a b : Nat) (w : Int) : (g.push a b w).2 = (a, (g.outOf a).length) := rfl

theorem rowOf_length (g : ML) (a : Nat) : (rowOf g a).length = (g.outOf a).length := by simp [rowOf]

/-- pushing an in-range edge: the model appends to row `a`, the log appends an edge with index `(a, |row a|)` -/
theorem LAbs.push {s : State} {g : ML} (h : LAbs s g) (a b : Nat) (w : Int) (ha : a < g.n) (row : Row)
    (hrow : s.suc[a]? = some row) :
    LAbs { s with suc := s.suc.set a (row ++ [(b, w)]) } (g.push a b w).1 := by
  have hr : row = rowOf g a := by
    have := h.rows a ha; rw [hrow] at this; exact Option.some.inj this
  refine ⟨?_, ?_, ?_, ?_⟩
  · rw [push_n]; simp [h.n]
  · intro x hx
    rw [push_n] at hx
    rw [rowOf_push]
    show (s.suc.set a _)[x]? = _
    rw [List.getElem?_set]
    by_cases hxa : a = x
    · subst hxa
      have : a < s.suc.length := by rw [← h.n]; exact ha
      simp [this, hr]
    · have : ¬ x = a := fun e => hxa e.symm
      simp only [hxa, if_false, this]
      exact h.rows x hx
  · intro x
    rw [outOf_push]
    by_cases hxa : x = a
    · subst hxa
      simp only [if_true, List.map_append, List.length_append, List.length_cons, List.length_nil,
        List.range_succ, List.map_cons, List.map_nil, h.ids x]
    · simp only [hxa, if_false]; exact h.ids x
  · intro e he
    rw [push_n]
    unfold ML.push at he
    simp only [List.mem_append, List.mem_singleton] at he
    rcases he with he | he
    · exact h.src e he
    · subst he; exact ha

theorem LAbs.outOf_oob {s : State} {g : ML} (h : LAbs s g) (a : Nat) (ha : g.n ≤ a) : g.outOf a = [] := by
  unfold ML.outOf
  rw [List.filter_eq_nil_iff]
  intro e he
  have := h.src e he
  simp; omega

end PetgraphModel.AdjProofs

namespace PetgraphModel.AdjProofs
open PetgraphModel.AdjM PetgraphModel.AppendSpec

theorem LAbs.id_at {s : State} {g : ML} (h : LAbs s g) (a j : Nat) (hj : j < (g.outOf a).length) :
    (g.outOf a)[j].id = (a, j) := by
  have := congrArg (fun l => l[j]?) (h.ids a)
  simp only [List.getElem?_map, List.getElem?_eq_getElem hj, Option.map_some] at this
  rw [List.getElem?_range hj] at this
  simpa using this

theorem mem_outOf (g : ML) (a : Nat) (e : MEdge) : e ∈ g.outOf a ↔ e ∈ g.edges ∧ e.src = a := by
  simp [ML.outOf]

theorem outOf_setW (g : ML) (id : Nat × Nat) (w : Int) (x : Nat) :
    (g.setW id w).outOf x = (g.outOf x).map fun e => if e.id = id then { e with w := w } else e := by
  unfold ML.setW ML.outOf
  simp only [List.filter_map]
  congr 1
  apply List.filter_congr
  intro e _
  simp only [Function.comp]
  split <;> rfl

theorem map_set_of_ids (l : List MEdge) (a k : Nat) (w : Int)
    (hid : ∀ j (hj : j < l.length), l[j].id = (a, j)) (hk : k < l.length) :
    (l.map fun e => if e.id = (a, k) then { e with w := w } else e) = l.set k { l[k] with w := w } := by
  apply List.ext_getElem (by simp)
  intro j h1 h2
  simp only [List.getElem_map, List.getElem_set]
  have hj : j < l.length := by simpa using h1
  rw [hid j hj]
  by_cases hjk : k = j
  · subst hjk; simp [hid k hj]
  · have : ¬ (a, j) = (a, k) := by intro e; injection e with _ e2; exact hjk e2.symm
    simp [this, hjk]

theorem map_id_of_ids (l : List MEdge) (id : Nat × Nat) (w : Int) (hid : ∀ e ∈ l, e.id ≠ id) :
    (l.map fun e => if e.id = id then { e with w := w } else e) = l := by
  conv => rhs; rw [← List.map_id l]
  apply List.map_congr_left
  intro e he
  simp [hid e he]

/-- overwriting the weight of the live edge `(a, k)` -/
theorem LAbs.setW {s : State} {g : ML} (h : LAbs s g) (a k : Nat) (w : Int) (ha : a < g.n)
    (hk : k < (g.outOf a).length) (row : Row) (hrow : s.suc[a]? = some row) (t : Nat)
    (ht : (g.outOf a)[k].tgt = t) :
    LAbs { s with suc := s.suc.set a (row.set k (t, w)) } (g.setW (a, k) w) := by
  have hr : row = rowOf g a := by
    have := h.rows a ha; rw [hrow] at this; exact Option.some.inj this
  have hout : ∀ x, (g.setW (a, k) w).outOf x =
      if x = a then (g.outOf a).set k { (g.outOf a)[k] with w := w } else g.outOf x := by
    intro x
    rw [outOf_setW]
    by_cases hxa : x = a
    · subst hxa
      simp only [if_true]
      exact map_set_of_ids _ x k w (fun j hj => h.id_at x j hj) hk
    · simp only [hxa, if_false]
      apply map_id_of_ids
      intro e he
      obtain ⟨j, hj, rfl⟩ := List.getElem_of_mem he
      rw [h.id_at x j hj]
      intro e2; injection e2 with e3 _; exact hxa e3
  refine ⟨?_, ?_, ?_, ?_⟩
  · show g.n = (s.suc.set a _).length; simp [h.n]
  · intro x hx
    have hx' : x < g.n := hx
    show (s.suc.set a _)[x]? = some (rowOf (g.setW (a, k) w) x)
    unfold rowOf
    rw [hout x, List.getElem?_set]
    by_cases hxa : a = x
    · subst hxa
      have : a < s.suc.length := by rw [← h.n]; exact ha
      simp only [if_true, this]
      congr 1
      rw [hr]; unfold rowOf
      rw [List.map_set]; simp [ht]
    · have : ¬ x = a := fun e => hxa e.symm
      simp only [hxa, if_false, this]
      exact h.rows x hx'
  · intro x
    rw [hout x]
    by_cases hxa : x = a
    · subst hxa
      simp only [if_true, List.map_set, List.length_set]
      rw [← h.ids x]
      apply List.ext_getElem (by simp)
      intro j h1 h2
      simp only [List.getElem_set, List.getElem_map]
      split
      · rename_i hkj; subst hkj; rfl
      · rfl
    · simp only [hxa, if_false]; exact h.ids x
  · intro e he
    show e.src < g.n
    unfold ML.setW at he
    simp only [List.mem_map] at he
    obtain ⟨e0, he0, rfl⟩ := he
    have := h.src e0 he0
    split <;> exact this

end PetgraphModel.AdjProofs

namespace PetgraphModel.AdjProofs
open PetgraphModel.AdjM PetgraphModel.AppendSpec

theorem find_eq_outOf (g : ML) (a b : Nat) : g.find a b = (g.outOf a).find? fun e => e.tgt == b := by
  unfold ML.find ML.outOf
  rw [List.find?_filter]
  congr 1
  funext e
  simp only [beq_iff_eq, Bool.decide_and]
  cases h1 : (e.src == a) <;> cases h2 : (e.tgt == b) <;> simp_all

theorem findIn_map (L : List MEdge) (b i : Nat) :
    match L.find? (fun e => e.tgt == b) with
    | none => findIn b (L.map fun e => (e.tgt, e.w)) i = none
    | some e => ∃ k, ∃ hk : k < L.length, L[k] = e ∧ e.tgt = b ∧
        findIn b (L.map fun e => (e.tgt, e.w)) i = some (i + k) := by
  induction L generalizing i with
  | nil => simp [findIn]
  | cons x xs ih =>
    by_cases hx : x.tgt = b
    · simp only [List.find?_cons, hx, beq_self_eq_true, List.map_cons, findIn, if_true]
      exact ⟨0, by simp, rfl, by simp, rfl⟩
    · have hx' : (x.tgt == b) = false := by simp [hx]
      simp only [List.find?_cons, hx', List.map_cons, findIn, hx, if_false]
      have := ih (i + 1)
      split
      · rename_i h; rw [h] at this; exact this
      · rename_i e h; rw [h] at this
        obtain ⟨k, hk, h1, h2, h3⟩ := this
        refine ⟨k + 1, by simp; omega, by simpa using h1, h2, ?_⟩
        rw [h3]; congr 1; omega

theorem LAbs.get_some {s : State} {g : ML} (h : LAbs s g) (a k : Nat) (hk : k < (g.outOf a).length) :
    g.get (a, k) = some (g.outOf a)[k] := by
  unfold ML.get
  have hmem : (g.outOf a)[k] ∈ g.edges := ((mem_outOf g a _).mp (List.getElem_mem hk)).1
  cases hf : g.edges.find? (fun e => e.id == (a, k)) with
  | none =>
    have := List.find?_eq_none.mp hf _ hmem
    simp [h.id_at a k hk] at this
  | some e' =>
    have hid : e'.id = (a, k) := by simpa using List.find?_some hf
    have hm' : e' ∈ g.edges := List.mem_of_find?_eq_some hf
    have hm2 : e' ∈ g.outOf e'.src := (mem_outOf g _ _).mpr ⟨hm', rfl⟩
    obtain ⟨j, hj, hje⟩ := List.getElem_of_mem hm2
    have := h.id_at e'.src j hj
    rw [hje, hid] at this
    injection this with h1 h2
    subst h2
    congr 1
    rw [← hje]
    simp [h1]

theorem LAbs.get_none {s : State} {g : ML} (h : LAbs s g) (a k : Nat) (hk : (g.outOf a).length ≤ k) :
    g.get (a, k) = none := by
  unfold ML.get
  cases hf : g.edges.find? (fun e => e.id == (a, k)) with
  | none => rfl
  | some e' =>
    exfalso
    have hid : e'.id = (a, k) := by simpa using List.find?_some hf
    have hm' : e' ∈ g.edges := List.mem_of_find?_eq_some hf
    have hm2 : e' ∈ g.outOf e'.src := (mem_outOf g _ _).mpr ⟨hm', rfl⟩
    obtain ⟨j, hj, hje⟩ := List.getElem_of_mem hm2
    have := h.id_at e'.src j hj
    rw [hje, hid] at this
    injection this with h1 h2
    subst h2
    rw [← h1] at hj
    omega

end PetgraphModel.AdjProofs

namespace PetgraphModel.AdjProofs
open PetgraphModel.AdjM PetgraphModel.AppendSpec

theorem LAbs.addNode {s : State} {g : ML} (h : LAbs s g) :
    LAbs { s with suc := s.suc ++ [[]] } { g with n := g.n + 1 } := by
  refine ⟨by simp [h.n], ?_, h.ids, fun e he => Nat.lt_succ_of_lt (h.src e he)⟩
  intro x hx
  have hx' : x < g.n + 1 := hx
  show (s.suc ++ [[]])[x]? = some (rowOf g x)
  by_cases hxn : x < g.n
  · rw [List.getElem?_append_left (by rw [← h.n]; exact hxn)]; exact h.rows x hxn
  · have : x = s.suc.length := by rw [← h.n]; omega
    subst this
    have ho := h.outOf_oob s.suc.length (by rw [h.n]; exact Nat.le_refl _)
    simp [rowOf, ho]

theorem LAbs.pushMany {s : State} {g : ML} (h : LAbs s g) (i : Nat) (hi : i < g.n) (es row : Row)
    (hrow : s.suc[i]? = some row) :
    LAbs { s with suc := s.suc.set i (row ++ es) } (es.foldl (fun g e => (g.push i e.1 e.2).1) g) := by
  induction es generalizing s g row with
  | nil =>
    have : s.suc.set i (row ++ []) = s.suc := by
      obtain ⟨hi', rfl⟩ := List.getElem?_eq_some_iff.mp hrow
      simp
    rw [this]; exact h
  | cons e es ih =>
    have h1 := h.push i e.1 e.2 hi row hrow
    have hi1 : i < (g.push i e.1 e.2).1.n := hi
    have hil : i < s.suc.length := by rw [← h.n]; exact hi
    have hrow1 : ({ s with suc := s.suc.set i (row ++ [(e.1, e.2)]) } : State).suc[i]? = some (row ++ [(e.1, e.2)]) := by
      simp [hil]
    have := ih h1 hi1 (row ++ [(e.1, e.2)]) hrow1
    simpa [List.foldl_cons, List.append_assoc] using this

/-- no `add_node*` is issued while the list is `full`, i.e. the history never runs into the capacity panic.
(Before commit 8cab180 — finding D31 — the refinement theorems needed this hypothesis; now they hold for every
history and `Fits` only serves the callers that still state it.) -/
def Fits (m : Nat) : Nat → List Op → Prop
  | _, [] => True
  | n, op :: ops =>
    match op with
    | .addNode | .addNodeFromEdges _ => (m = 0 ∨ n < m) ∧ Fits m (n + 1) ops
    | .clear => Fits m 0 ops
    | _ => Fits m n ops

theorem mkIx_of_fits (m n : Nat) (h : m = 0 ∨ n < m) : mkIx m n = n := by
  unfold mkIx
  rcases h with h | h
  · simp [h]
  · have : ¬ m = 0 := by omega
    simp [this, Nat.mod_eq_of_lt h]

theorem new_abs (m : Nat) : LAbs (AdjM.new m) {} := by
  refine ⟨rfl, ?_, ?_, ?_⟩
  · intro a ha; exact absurd ha (Nat.not_lt_zero _)
  · intro a; rfl
  · intro e he; cases he

/-- **refinement of one call** — EVERY call, including `add_node*` at the capacity of the index type
(documented panic, unchanged) -/
theorem step_refines {s : State} {g : ML} (h : LAbs s g) (op : Op) :
    LAbs (step s op).1 (specStep s.modulus g op).1 ∧ (step s op).2 = (specStep s.modulus g op).2 ∧
      (step s op).1.modulus = s.modulus := by
  cases op with
  | addNode =>
    by_cases hfit : s.modulus = 0 ∨ g.n < s.modulus
    · have hm := nextNodeIndex_fit s (by rw [← h.n]; exact hfit)
      have hs := addNodeCap_fit s.modulus g hfit
      refine ⟨?_, ?_, ?_⟩
      all_goals simp only [step, AdjM.addNode, hm, specStep, hs, ML.addNode]
      · exact h.addNode
      · rw [← h.n, mkIx_of_fits _ _ hfit]
    · have hm := nextNodeIndex_full s (by rw [← h.n]; exact hfit)
      have hs := addNodeCap_full s.modulus g hfit
      simp only [step, AdjM.addNode, hm, specStep, hs]
      exact ⟨h, trivial, trivial⟩
  | addNodeFromEdges es =>
    by_cases hfit : s.modulus = 0 ∨ g.n < s.modulus
    · have hm := nextNodeIndex_fit s (by rw [← h.n]; exact hfit)
      have hs := addNodeFromCap_fit s.modulus g es hfit
      have h1 := h.addNode
      have hrow : ({ s with suc := s.suc ++ [[]] } : State).suc[g.n]? = some [] := by
        simp [h.n]
      have h2 := h1.pushMany g.n (Nat.lt_succ_self _) es [] hrow
      refine ⟨?_, ?_, ?_⟩
      all_goals simp only [step, addNodeFromEdges, hm, specStep, hs, ML.addNodeFrom]
      · have : (s.suc ++ [[]]).set g.n es = s.suc ++ [es] := by
          rw [h.n]; simp
        simp only [List.nil_append, this] at h2
        exact h2
      · rw [← h.n, mkIx_of_fits _ _ hfit]
    · have hm := nextNodeIndex_full s (by rw [← h.n]; exact hfit)
      have hs := addNodeFromCap_full s.modulus g es hfit
      simp only [step, addNodeFromEdges, hm, specStep, hs]
      exact ⟨h, trivial, trivial⟩
  | clear =>
    refine ⟨?_, rfl, rfl⟩
    exact new_abs s.modulus
  | addEdge a b w =>
    by_cases hr : a < g.n ∧ b < g.n
    · have hrow := h.rows a hr.1
      have hb : ¬ b ≥ s.suc.length := by rw [← h.n]; omega
      have hs : g.addEdge a b w = some (g.push a b w) := by simp [ML.addEdge, hr]
      refine ⟨?_, ?_, ?_⟩
      all_goals simp only [step, AdjM.addEdge, hb, if_false, hrow, specStep, hs]
      · exact h.push a b w hr.1 _ hrow
      · rw [push_id, rowOf_length]
    · have hs : g.addEdge a b w = none := by simp [ML.addEdge, hr]
      have hm : AdjM.addEdge s a b w = none := by
        unfold AdjM.addEdge
        by_cases hb : b ≥ s.suc.length
        · simp [hb]
        · have : s.suc[a]? = none := by
            apply List.getElem?_eq_none; rw [← h.n]; rw [← h.n] at hb; omega
          simp [hb, this]
      simp only [step, hm, specStep, hs]
      exact ⟨h, trivial, trivial⟩
  | updateEdge a b w =>
    by_cases hr : a < g.n ∧ b < g.n
    · have hrow := h.rows a hr.1
      have hb : ¬ b ≥ s.suc.length := by rw [← h.n]; omega
      have hfm := findIn_map (g.outOf a) b 0
      rw [← find_eq_outOf] at hfm
      cases hf : g.find a b with
      | none =>
        rw [hf] at hfm
        have hs : g.updateEdge a b w = some (g.push a b w) := by simp [ML.updateEdge, hr, hf]
        have hfi : findIn b (rowOf g a) 0 = none := hfm
        refine ⟨?_, ?_, ?_⟩
        all_goals simp only [step, AdjM.updateEdge, hb, if_false, hrow, hfi, specStep, hs]
        · exact h.push a b w hr.1 _ hrow
        · rw [push_id, rowOf_length]
      | some e =>
        rw [hf] at hfm
        obtain ⟨k, hk, hke, het, hfi⟩ := hfm
        have hfi' : findIn b (rowOf g a) 0 = some k := by simpa [rowOf] using hfi
        have hid : e.id = (a, k) := by rw [← hke]; exact h.id_at a k hk
        have hs : g.updateEdge a b w = some (g.setW (a, k) w, (a, k)) := by
          simp [ML.updateEdge, hr, hf, hid]
        refine ⟨?_, ?_, ?_⟩
        all_goals simp only [step, AdjM.updateEdge, hb, if_false, hrow, hfi', specStep, hs]
        · exact h.setW a k w hr.1 hk _ hrow b (by rw [hke]; exact het)
    · have hs : g.updateEdge a b w = none := by simp [ML.updateEdge, hr]
      have hm : AdjM.updateEdge s a b w = none := by
        unfold AdjM.updateEdge
        by_cases hb : b ≥ s.suc.length
        · simp [hb]
        · have : s.suc[a]? = none := by
            apply List.getElem?_eq_none; rw [← h.n]; rw [← h.n] at hb; omega
          simp [hb, this]
      simp only [step, hm, specStep, hs]
      exact ⟨h, trivial, trivial⟩
  | setEdgeWeight e w =>
    obtain ⟨a, k⟩ := e
    by_cases hr : a < g.n ∧ k < (g.outOf a).length
    · have hrow := h.rows a hr.1
      have hg := h.get_some a k hr.2
      have hk : k < (rowOf g a).length := by rw [rowOf_length]; exact hr.2
      have hrk : (rowOf g a)[k]? = some ((g.outOf a)[k].tgt, (g.outOf a)[k].w) := by
        simp [rowOf, List.getElem?_eq_getElem hr.2]
      refine ⟨?_, ?_, ?_⟩
      all_goals simp only [step, AdjM.setEdgeWeight, hrow, hrk, specStep, hg]
      · exact h.setW a k w hr.1 hr.2 _ hrow _ rfl
    · have hg : g.get (a, k) = none := by
        by_cases ha : a < g.n
        · exact h.get_none a k (by omega)
        · exact h.get_none a k (by rw [h.outOf_oob a (by omega)]; simp)
      have hm : AdjM.setEdgeWeight s (a, k) w = none := by
        unfold AdjM.setEdgeWeight
        by_cases ha : a < g.n
        · have hk : (rowOf g a).length ≤ k := by rw [rowOf_length]; omega
          simp [h.rows a ha, List.getElem?_eq_none hk]
        · have : s.suc[a]? = none := by apply List.getElem?_eq_none; rw [← h.n]; omega
          simp [this]
      simp only [step, hm, specStep, hg]
      exact ⟨h, trivial, trivial⟩

end PetgraphModel.AdjProofs

namespace PetgraphModel.AdjProofs
open PetgraphModel.AdjM PetgraphModel.AppendSpec

theorem foldl_push_n (i : Nat) (es : Row) (g : ML) :
    (es.foldl (fun g e => (g.push i e.1 e.2).1) g).n = g.n := by
  induction es generalizing g with
  | nil => rfl
  | cons e es ih => simp only [List.foldl_cons]; rw [ih]; rfl

/-- node count of the log after a call that does not panic -/
def nAfter (n : Nat) : Op → Nat
  | .addNode | .addNodeFromEdges _ => n + 1
  | .clear => 0
  | _ => n

/-- node count of the log after a call (`m` = capacity of the index type, `0` = unbounded): `add_node*` on a
full list panics and adds nothing -/
def nAfterC (m n : Nat) : Op → Nat
  | .addNode | .addNodeFromEdges _ => if m = 0 ∨ n < m then n + 1 else n
  | .clear => 0
  | _ => n

theorem specStep_n (m : Nat) (g : ML) (op : Op) : (specStep m g op).1.n = nAfterC m g.n op := by
  cases op with
  | addNode =>
    by_cases h : m = 0 ∨ g.n < m
    · simp [specStep, addNodeCap_fit m g h, ML.addNode, nAfterC, h]
    · simp [specStep, addNodeCap_full m g h, nAfterC, h]
  | addNodeFromEdges es =>
    by_cases h : m = 0 ∨ g.n < m
    · simp only [specStep, addNodeFromCap_fit m g es h, ML.addNodeFrom, nAfterC, h, if_true]; rw [foldl_push_n]
    · simp [specStep, addNodeFromCap_full m g es h, nAfterC, h]
  | clear => rfl
  | addEdge a b w =>
    simp only [specStep, ML.addEdge, nAfterC]
    split
    · rename_i h; split at h
      · injection h with h; injection h with h1 _; subst h1; rfl
      · cases h
    · rfl
  | updateEdge a b w =>
    simp only [specStep, ML.updateEdge, nAfterC]
    split
    · rename_i h; split at h
      · split at h
        · injection h with h; injection h with h1 _; subst h1; rfl
        · injection h with h; injection h with h1 _; subst h1; rfl
      · cases h
    · rfl
  | setEdgeWeight e w =>
    simp only [specStep, nAfterC]
    split <;> rfl

/-- while no call panics at the capacity, the two counts agree -/
theorem nAfterC_of_fit (m n : Nat) (op : Op)
    (h : (op = .addNode ∨ ∃ es, op = .addNodeFromEdges es) → m = 0 ∨ n < m) : nAfterC m n op = nAfter n op := by
  cases op with
  | addNode => simp [nAfterC, nAfter, h (Or.inl rfl)]
  | addNodeFromEdges es => simp [nAfterC, nAfter, h (Or.inr ⟨es, rfl⟩)]
  | _ => rfl

theorem fits_iff (m n : Nat) (op : Op) (ops : List Op) :
    Fits m n (op :: ops) ↔
      ((op = .addNode ∨ ∃ es, op = .addNodeFromEdges es) → m = 0 ∨ n < m) ∧ Fits m (nAfter n op) ops := by
  cases op <;> simp [Fits, nAfter]

/-- **refinement of every history** (no restriction on the history) -/
theorem run_refines {s : State} {g : ML} (h : LAbs s g) (ops : List Op) :
    LAbs (run s ops).1 (specRun s.modulus g ops).1 ∧ (run s ops).2 = (specRun s.modulus g ops).2 := by
  induction ops generalizing s g with
  | nil => exact ⟨h, rfl⟩
  | cons op ops ih =>
    obtain ⟨h1, hout, hm⟩ := step_refines h op
    obtain ⟨h2, houts⟩ := ih h1
    rw [hm] at h2 houts
    refine ⟨by simpa [run, specRun] using h2, ?_⟩
    simp only [run, specRun]; rw [hout, houts]

/-- the readers answer what the insertion log says -/
theorem readers {s : State} {g : ML} (h : LAbs s g) :
    s.nodeCount = g.n ∧
    (∀ a b, findEdge s a b = (g.find a b).map (·.id)) ∧
    (∀ a b, containsEdge s a b = (g.find a b).isSome) ∧
    (∀ e, edgeEndpoints s e = (g.get e).map fun x => (x.src, x.tgt)) ∧
    (∀ e, edgeWeight s e = (g.get e).map (·.w)) ∧
    (∀ a, neighbors s a = if a < g.n then some ((g.outOf a).map (·.tgt)) else none) ∧
    (∀ a, edgeIndicesFrom s a = if a < g.n then some ((g.outOf a).map (·.id)) else none) := by
  have hnone : ∀ a, ¬ a < g.n → s.suc[a]? = none := fun a ha => by
    apply List.getElem?_eq_none; rw [← h.n]; omega
  have hfind_none : ∀ a b, ¬ a < g.n → g.find a b = none := fun a b ha => by
    rw [find_eq_outOf, h.outOf_oob a (by omega)]; rfl
  refine ⟨h.n.symm, ?_, ?_, ?_, ?_, ?_, ?_⟩
  · intro a b
    by_cases ha : a < g.n
    · have hfm := findIn_map (g.outOf a) b 0
      rw [← find_eq_outOf] at hfm
      simp only [findEdge, h.rows a ha]
      cases hf : g.find a b with
      | none => rw [hf] at hfm; simp [rowOf, hfm]
      | some e =>
        rw [hf] at hfm
        obtain ⟨k, hk, hke, _, hfi⟩ := hfm
        have : e.id = (a, k) := by rw [← hke]; exact h.id_at a k hk
        simp [rowOf, hfi, this]
    · simp [findEdge, hnone a ha, hfind_none a b ha]
  · intro a b
    by_cases ha : a < g.n
    · simp only [containsEdge, h.rows a ha, find_eq_outOf, rowOf]
      rw [List.any_map]
      cases hf : (g.outOf a).find? (fun e => e.tgt == b) with
      | none =>
        have := List.find?_eq_none.mp hf
        simp only [Option.isSome_none, List.any_eq_false]
        intro x hx; simpa using this x hx
      | some e =>
        have h1 := List.find?_some hf
        have h2 := List.mem_of_find?_eq_some hf
        simp only [Option.isSome_some, List.any_eq_true]
        exact ⟨e, h2, by simpa using h1⟩
    · simp [containsEdge, hnone a ha, hfind_none a b ha]
  · intro e
    obtain ⟨a, k⟩ := e
    by_cases hr : a < g.n ∧ k < (g.outOf a).length
    · have hsrc : (g.outOf a)[k].src = a := ((mem_outOf g a _).mp (List.getElem_mem hr.2)).2
      simp [edgeEndpoints, getEdge, h.rows a hr.1, h.get_some a k hr.2, rowOf, List.getElem?_eq_getElem hr.2, hsrc]
    · have hg : g.get (a, k) = none := by
        by_cases ha : a < g.n
        · exact h.get_none a k (by omega)
        · exact h.get_none a k (by rw [h.outOf_oob a (by omega)]; simp)
      by_cases ha : a < g.n
      · have hk : (rowOf g a).length ≤ k := by rw [rowOf_length]; omega
        simp [edgeEndpoints, getEdge, h.rows a ha, hg, List.getElem?_eq_none hk]
      · simp [edgeEndpoints, getEdge, hnone a ha, hg]
  · intro e
    obtain ⟨a, k⟩ := e
    by_cases hr : a < g.n ∧ k < (g.outOf a).length
    · simp [edgeWeight, getEdge, h.rows a hr.1, h.get_some a k hr.2, rowOf, List.getElem?_eq_getElem hr.2]
    · have hg : g.get (a, k) = none := by
        by_cases ha : a < g.n
        · exact h.get_none a k (by omega)
        · exact h.get_none a k (by rw [h.outOf_oob a (by omega)]; simp)
      by_cases ha : a < g.n
      · have hk : (rowOf g a).length ≤ k := by rw [rowOf_length]; omega
        simp [edgeWeight, getEdge, h.rows a ha, hg, List.getElem?_eq_none hk]
      · simp [edgeWeight, getEdge, hnone a ha, hg]
  · intro a
    by_cases ha : a < g.n
    · simp [neighbors, h.rows a ha, ha, rowOf]
    · simp [neighbors, hnone a ha, ha]
  · intro a
    by_cases ha : a < g.n
    · simp [edgeIndicesFrom, h.rows a ha, ha, rowOf_length, h.ids a]
    · simp [edgeIndicesFrom, hnone a ha, ha]

/-! ### every returned edge index stays valid (a property of the specification itself) -/

theorem get_push {g : ML} {id : Nat × Nat} {e : MEdge} (a b : Nat) (w : Int) (h : g.get id = some e) :
    (g.push a b w).1.get id = some e := by
  unfold ML.get ML.push at *
  simp only [List.find?_append, h, Option.some_or]

theorem get_foldl_push {g : ML} {id : Nat × Nat} {e : MEdge} (i : Nat) (es : Row) (h : g.get id = some e) :
    (es.foldl (fun g e => (g.push i e.1 e.2).1) g).get id = some e := by
  induction es generalizing g with
  | nil => exact h
  | cons x xs ih => exact ih (get_push i x.1 x.2 h)

theorem get_setW {g : ML} {id : Nat × Nat} {e : MEdge} (id' : Nat × Nat) (w : Int) (h : g.get id = some e) :
    ∃ e', (g.setW id' w).get id = some e' ∧ e'.id = e.id ∧ e'.src = e.src ∧ e'.tgt = e.tgt := by
  unfold ML.get ML.setW at *
  simp only [List.find?_map]
  have : ((fun e : MEdge => e.id == id) ∘ fun e : MEdge => if e.id = id' then { e with w := w } else e) =
      fun e : MEdge => e.id == id := by
    funext x; simp only [Function.comp]; split <;> rfl
  rw [this, h]
  by_cases hc : e.id = id'
  · exact ⟨_, rfl, by simp [hc], by simp [hc], by simp [hc]⟩
  · exact ⟨_, rfl, by simp [hc], by simp [hc], by simp [hc]⟩

/-- until `clear`, an index that denotes an edge keeps denoting an edge with the same endpoints -/
theorem index_stable (m : Nat) (g : ML) (op : Op) (hop : op ≠ .clear) (id : Nat × Nat) (e : MEdge)
    (h : g.get id = some e) :
    ∃ e', (specStep m g op).1.get id = some e' ∧ e'.id = e.id ∧ e'.src = e.src ∧ e'.tgt = e.tgt := by
  cases op with
  | clear => exact absurd rfl hop
  | addNode =>
    refine ⟨e, ?_, rfl, rfl, rfl⟩
    by_cases hf : m = 0 ∨ g.n < m
    · simp only [specStep, addNodeCap_fit m g hf]; exact h
    · simp only [specStep, addNodeCap_full m g hf]; exact h
  | addNodeFromEdges es =>
    refine ⟨e, ?_, rfl, rfl, rfl⟩
    by_cases hf : m = 0 ∨ g.n < m
    · simp only [specStep, addNodeFromCap_fit m g es hf, ML.addNodeFrom]; exact get_foldl_push _ es h
    · simp only [specStep, addNodeFromCap_full m g es hf]; exact h
  | addEdge a b w =>
    simp only [specStep, ML.addEdge]
    split
    · rename_i h1; split at h1
      · injection h1 with h1; injection h1 with h1 _; rw [← h1]; exact ⟨e, get_push a b w h, rfl, rfl, rfl⟩
      · cases h1
    · exact ⟨e, h, rfl, rfl, rfl⟩
  | updateEdge a b w =>
    simp only [specStep, ML.updateEdge]
    split
    · rename_i h1; split at h1
      · split at h1
        · injection h1 with h1; injection h1 with h1 _; rw [← h1]; exact get_setW _ w h
        · injection h1 with h1; injection h1 with h1 _; rw [← h1]; exact ⟨e, get_push a b w h, rfl, rfl, rfl⟩
      · cases h1
    · exact ⟨e, h, rfl, rfl, rfl⟩
  | setEdgeWeight e0 w =>
    simp only [specStep]
    split
    · exact get_setW _ w h
    · exact ⟨e, h, rfl, rfl, rfl⟩

end PetgraphModel.AdjProofs
