import PetgraphModel.Proofs.C15W5Eff
/-
C15 wave 5 — two facts about `augment_path` that the maximality proof needs in addition to
`augment_valid`: no `mate` entry is ever cleared (so matched vertices stay matched), and after the
augmentation the start vertex of the search is matched.
-/
namespace PetgraphModel.C15W5
open PetgraphModel PetgraphModel.C15 PetgraphModel.C15M PetgraphModel.C15P PetgraphModel.C15W2

/-- every entry that is `Some` in `m` is `Some` in `m'` -/
def MLe (m m' : List (Option Nat)) : Prop :=
  ∀ i, (getM m i).isSome = true → (getM m' i).isSome = true

theorem MLe.refl (m : List (Option Nat)) : MLe m m := fun _ h => h

theorem MLe.trans {m1 m2 m3 : List (Option Nat)} (h1 : MLe m1 m2) (h2 : MLe m2 m3) : MLe m1 m3 :=
  fun i h => h2 i (h1 i h)

theorem mle_set (m : List (Option Nat)) (i y : Nat) : MLe m (m.set i (some y)) := by
  intro j hj
  by_cases hi : i < m.length
  · rw [getM_set _ _ _ _ hi]
    by_cases e : i = j
    · simp [e]
    · simp [e, hj]
  · rw [List.set_eq_of_length_le (by omega)]; exact hj

theorem mle_setMate (s : GS) (i y : Nat) : MLe s.mate (s.setMate i (some y)).mate := by
  unfold GS.setMate
  split
  · exact mle_set _ _ _
  · exact MLe.refl _

theorem flt_mate (s : GS) (b : Bool) : (s.flt b).mate = s.mate := by
  unfold GS.flt; split <;> rfl

/-- `augment_path` never clears an entry -/
theorem augmentPath_mle (v : View) : ∀ (f x w : Nat) (s : GS), MLe s.mate (augmentPath v f x w s).mate
  | 0, _, _, s => MLe.refl _
  | f + 1, x, w, s => by
    unfold augmentPath
    simp only []
    cases hg : s.getMate (v.toIndex x) with
    | mk temp b =>
      simp only []
      have h1 : MLe s.mate (((s.flt b).setMate (v.toIndex x) (some w))).mate := by
        have := mle_setMate (s.flt b) (v.toIndex x) w
        rw [flt_mate] at this
        exact this
      generalize ((s.flt b).setMate (v.toIndex x) (some w)) = s1 at h1 ⊢
      cases temp with
      | none =>
        simp only []
        have h2 : MLe s.mate ((s1.flt (s1.getMate v.nb).2)).mate := by rw [flt_mate]; exact h1
        generalize (s1.flt (s1.getMate v.nb).2) = s2 at h2 ⊢
        split
        · exact h2
        · split
          · exact h2.trans (mle_setMate _ _ _)
          · exact (h2.trans (augmentPath_mle v f _ _ _)).trans (augmentPath_mle v f _ _ _)
          · exact h2
      | some t =>
        simp only []
        have h2 : MLe s.mate ((s1.flt (s1.getMate (v.toIndex t)).2)).mate := by rw [flt_mate]; exact h1
        generalize (s1.flt (s1.getMate (v.toIndex t)).2) = s2 at h2 ⊢
        split
        · exact h2
        · split
          · exact (h2.trans (mle_setMate _ _ _)).trans (augmentPath_mle v f _ _ _)
          · exact (h2.trans (augmentPath_mle v f _ _ _)).trans (augmentPath_mle v f _ _ _)
          · exact h2

/-- **after the augmentation the start vertex is matched** (same hypotheses as `augment_valid`) -/
theorem augment_sv (c : Ctx) (hv : VHyp c.v c.mode) (A : AS) (hA : AInv c A) (n : Nat)
    (hm : MateInv c.v c.m0 n) (lab : List Label)
    (hL : ∀ a ∈ c.v.g.nodes, A.out a = true → labI lab (c.v.toIndex a) = A.L a)
    (x other : Nat) (hx : x ∈ c.v.g.nodes) (hox : A.out x = true) (ho : other ∈ c.v.g.nodes)
    (hfree : c.μ other = none) (hne : other ≠ c.sv)
    (s0 : GS) (hs : s0.mate = c.m0.set (c.v.toIndex other) (some x)) (hlab : s0.label = lab)
    (hfault : s0.fault = false) :
    (getM (augmentPath c.v (4 * (c.v.nb + 2)) x other s0).mate (c.v.toIndex c.sv)).isSome = true := by
  have hpx := hA.path x hx hox
  have hoi : c.v.toIndex other < c.m0.length := by rw [hm.len]; have := hv.ix.lt other ho; omega
  have hclosed := Alt_closed c.μ c.J (A.P x) c.sv hpx.alt
  have honp : other ∉ verts (A.P x) := by
    intro h
    obtain ⟨b, _, e⟩ := hclosed other h
    rw [hfree] at e; cases e
  have hsvn := hpx.svMem
  have hsvfree : c.μ c.sv = none := (hA.svFree hsvn).2
  have hcur0 : ∀ a ∈ c.v.g.nodes, cur c s0 a = if a = other then some x else c.μ a := by
    intro a ha
    show getM s0.mate (c.v.toIndex a) = _
    rw [hs, getM_set_node hv _ _ _ _ ho ha hoi]; rfl
  have hpre : AugPre c A s0 x other (A.P x) [] := by
    refine ⟨hfault, by simp [hs, hm.len], ?_, ?_, ?_, ?_, ?_⟩
    · rw [hs, getM_set _ _ _ _ hoi]
      simp [hv.idx_ne_nb ho, hm.dummy hv]
    · intro p q hpq
      have hv' := mem_verts_of_mem hpq
      have := Alt_mem c.μ c.J _ _ hpx.alt p q hpq
      rw [hcur0 p (hpx.mem p hv'.1), hcur0 q (hpx.mem q hv'.2)]
      have hp : p ≠ other := fun e => honp (e ▸ hv'.1)
      have hq : q ≠ other := fun e => honp (e ▸ hv'.2)
      simp only [hp, hq, if_false]
      exact this
    · intro _
      rw [hcur0 c.sv hsvn]
      simp [Ne.symm hne, hsvfree]
    · intro p q r h; cases h
    · intro p q r h e
      apply honp
      rw [h, e]; simp
  have hfuel : A.tau x < 4 * (c.v.nb + 2) := by have := tau_lt_nb hv hA hx hox; omega
  have post := augment_spec c hv A hA lab hL _ x other s0 (A.P x) [] hx hox (by simp) hfuel hlab hpre
  simp only [fstOr_nil] at post
  have := post.zval
  unfold cur at this
  rw [this]; rfl

end PetgraphModel.C15W5
