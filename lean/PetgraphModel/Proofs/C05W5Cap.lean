import PetgraphModel.Proofs.C05W3Csr
import PetgraphModel.Proofs.CsrFromSorted
/-
C05, wave 5 — the constructors and the capacity of the index type.

`Csr::with_nodes(n)` performs no capacity check (`add_node` does, since commit 8cab180): for an index type with `m`
values and `n > m` it builds a graph whose nodes `m..n-1` cannot be named.  `from_sorted_edges` takes its endpoints as
`NodeIndex<Ix>`, so its node count (largest endpoint + 1) is always within the capacity.
-/
set_option linter.style.nameCheck false
namespace PetgraphModel.CsrProofs
open PetgraphModel.CsrM PetgraphModel.AppendSpec

theorem mkIx_lt (m a : Nat) (hm : m ≠ 0) : mkIx m a < m := by
  unfold mkIx; rw [if_neg hm]; exact Nat.mod_lt _ (by omega)

theorem nodeCount_withNodes (d : Bool) (m c : Nat) (dbg : Bool) (n : Nat) : (withNodes d m c dbg n).nodeCount = n := by
  simp [withNodes, State.nodeCount]

/-- `with_nodes(n)` beyond the capacity: what the model builds -/
theorem withNodes_beyond (d : Bool) (m c : Nat) (dbg : Bool) (n : Nat) (hm : m ≠ 0) (hn : m < n) :
    (withNodes d m c dbg n).nodeCount = n ∧
    nodeIdentifiers (withNodes d m c dbg n) = (List.range n).map (· % m) ∧
    nodeReferences (withNodes d m c dbg n) = (List.range n).map (fun i => (i % m, (0 : Int))) ∧
    (∀ i, i + m < n →
      (nodeIdentifiers (withNodes d m c dbg n))[i + m]? = (nodeIdentifiers (withNodes d m c dbg n))[i]?) ∧
    ¬ (nodeIdentifiers (withNodes d m c dbg n)).Nodup := by
  have hid : nodeIdentifiers (withNodes d m c dbg n) = (List.range n).map (· % m) := by
    rw [nodeIdentifiers, nodeCount_withNodes]
    apply List.map_congr_left
    intro a _
    show mkIx m a = a % m
    simp [mkIx, hm]
  have hcoll : ∀ i, i + m < n →
      (nodeIdentifiers (withNodes d m c dbg n))[i + m]? = (nodeIdentifiers (withNodes d m c dbg n))[i]? := by
    intro i hi
    rw [hid]
    have h1 : i < n := by omega
    simp [List.getElem?_map, List.getElem?_range hi, List.getElem?_range h1]
  refine ⟨nodeCount_withNodes d m c dbg n, hid, ?_, hcoll, ?_⟩
  · unfold nodeReferences
    apply List.ext_getElem (by simp [withNodes])
    intro j h1 h2
    simp [withNodes, mkIx, hm]
  · intro hnd
    have h0 := hcoll 0 (by omega)
    have hl : (nodeIdentifiers (withNodes d m c dbg n)).length = n := by rw [hid]; simp
    rw [Nat.zero_add, List.getElem?_eq_getElem (by rw [hl]; omega), List.getElem?_eq_getElem (by rw [hl]; omega)] at h0
    have := (List.getElem_inj hnd).mp (Option.some.inj h0)
    omega

theorem specRun_n_full (m : Nat) (ops : List Op) (g : SG) (hm : m ≠ 0) (hn : m ≤ g.n) :
    (specRun m g ops).1.n = g.n := by
  induction ops generalizing g with
  | nil => rfl
  | cons op ops ih =>
    show (specRun m (specStep m g op).1 ops).1.n = g.n
    have h1 : (specStep m g op).1.n = g.n := by
      rw [specStep_n]
      cases op <;> simp only [nodesAfterC]
      rw [if_neg (by omega)]
    rw [ih _ (by omega), h1]

/-- a graph that is full for (or beyond) its index type never gets another node: in EVERY history from
`with_nodes(n)`, `m ≤ n`, the node count stays `n`, and the identifiers stay what they were -/
theorem run_full (d : Bool) (m c : Nat) (dbg : Bool) (n : Nat) (ops : List Op) (hm : m ≠ 0) (hn : m ≤ n) :
    (run (withNodes d m c dbg n) ops).1.nodeCount = n ∧
    nodeIdentifiers (run (withNodes d m c dbg n) ops).1 = nodeIdentifiers (withNodes d m c dbg n) := by
  have h0 : Abs (withNodes d m c dbg n) (List.replicate n []) { directed := d, nodes := List.replicate n 0, edges := [] } := by
    refine ⟨rfl, rfl, ?_, ?_⟩
    · intro a b; rw [look_replicate_nil]; rfl
    · unfold State.edgeCountQ withNodes SG.edgeCount; cases d <;> rfl
  obtain ⟨R, good, abs, _, sp⟩ := run_refines (good_withNodes d m c dbg n) h0 ops
  have hnc : (run (withNodes d m c dbg n) ops).1.nodeCount = n := by
    rw [good.rep.nodeCount, ← Abs.n good abs]
    have := specRun_n_full m ops { directed := d, nodes := List.replicate n 0, edges := [] } hm (by simp [SG.n]; exact hn)
    simpa [withNodes, SG.n] using this
  refine ⟨hnc, ?_⟩
  rw [nodeIdentifiers, nodeIdentifiers, hnc, nodeCount_withNodes, sp.2.1]

theorem maxNodeId_lt (es : List Edge) (m : Nat) (h : ∀ e ∈ es, e.1 < m ∧ e.2.1 < m) (mx : Nat)
    (hmx : maxNodeId es = some mx) : mx < m := by
  induction es generalizing mx with
  | nil => simp [maxNodeId] at hmx
  | cons e es ih =>
    obtain ⟨x, y, w⟩ := e
    have hxy := h (x, y, w) (List.mem_cons_self ..)
    simp only [maxNodeId] at hmx
    cases hm : maxNodeId es with
    | none => rw [hm] at hmx; injection hmx with hmx; simp at hxy; omega
    | some m' =>
      rw [hm] at hmx; injection hmx with hmx
      have := ih (fun e he => h e (List.mem_cons_of_mem _ he)) m' hm
      simp at hxy; omega

/-- `from_sorted_edges` cannot exceed the capacity: its endpoints are `NodeIndex<Ix>` values -/
theorem fromSorted_within_capacity (m c : Nat) (dbg : Bool) (es : List Edge) (s : State)
    (hrep : m = 0 ∨ ∀ e ∈ es, e.1 < m ∧ e.2.1 < m) (h : fromSortedEdges m c dbg es = .ok s) :
    s.nodeCount = fsNodes es ∧ (m = 0 ∨ s.nodeCount ≤ m) := by
  have hs : Sorted es := (strictlySorted_iff es).mp ((fromSorted_ok_iff m c dbg es).mp ⟨s, h⟩)
  obtain ⟨s', e', good, _, hnw⟩ := fromSorted_good m c dbg es hs
  rw [h] at e'; injection e' with e'; subst e'
  have hnc : s.nodeCount = fsNodes es := by
    rw [good.rep.nodeCount, ← good.rep.nw, hnw, List.length_replicate]
  refine ⟨hnc, ?_⟩
  rcases hrep with h0 | hrep
  · exact Or.inl h0
  · right
    rw [hnc]
    unfold fsNodes
    cases hm : maxNodeId es with
    | none => simp
    | some mx => have := maxNodeId_lt es m hrep mx hm; simp; omega

end PetgraphModel.CsrProofs
