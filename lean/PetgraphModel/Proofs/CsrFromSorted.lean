import PetgraphModel.Proofs.CsrCanon
set_option linter.style.nameCheck false
namespace PetgraphModel.CsrProofs
open PetgraphModel.CsrM PetgraphModel.AppendSpec

/-! ### `from_sorted_edges` -/

/-- lexicographic order on `(source, target)` -/
def lexLt (e1 e2 : Edge) : Prop := e1.1 < e2.1 ∨ (e1.1 = e2.1 ∧ e1.2.1 < e2.2.1)

theorem lexLt_trans {a b c : Edge} (h1 : lexLt a b) (h2 : lexLt b c) : lexLt a c := by
  unfold lexLt at *; omega

/-- strictly sorted = pairwise lexicographically ascending (hence duplicate-free) -/
def Sorted (es : List Edge) : Prop := es.Pairwise lexLt

theorem strictlySorted_iff (es : List Edge) : strictlySorted es = true ↔ Sorted es := by
  induction es with
  | nil => simp [strictlySorted, Sorted]
  | cons e es ih =>
    cases es with
    | nil => simp [strictlySorted, Sorted]
    | cons e2 rest =>
      obtain ⟨a, b, w⟩ := e
      obtain ⟨c, d, w'⟩ := e2
      simp only [strictlySorted, Bool.and_eq_true, Bool.or_eq_true, decide_eq_true_eq, beq_iff_eq, ih]
      unfold Sorted at *
      rw [List.pairwise_cons (l := (c, d, w') :: rest)]
      constructor
      · rintro ⟨h1, h2⟩
        refine ⟨?_, h2⟩
        have h12 : lexLt (a, b, w) (c, d, w') := by unfold lexLt; simpa using h1
        intro x hx
        rcases List.mem_cons.mp hx with rfl | hx
        · exact h12
        · exact lexLt_trans h12 ((List.pairwise_cons.mp h2).1 x hx)
      · rintro ⟨h1, h2⟩
        have := h1 (c, d, w') (List.mem_cons_self ..)
        exact ⟨by unfold lexLt at this; simpa using this, h2⟩

def srcIs (node : Nat) (e : Edge) : Bool := e.1 == node

/-- the targets accepted after `last` -/
def AscFrom (last : Option Nat) (l : List Nat) : Prop :=
  match last with
  | none => Asc l
  | some x => Asc (x :: l)

theorem fseInner_run (node : Nat) (pre rest : List Edge) (last : Option Nat) (col : List Nat) (ws : List Int) (rs : Nat)
    (hsrc : ∀ e ∈ pre, e.1 = node) (hasc : AscFrom last (pre.map (·.2.1)))
    (hrest : ∀ e ∈ rest.head?, node < e.1) :
    fseInner node last (pre ++ rest) col ws rs =
      .ok (rest, rest.isEmpty, col ++ pre.map (·.2.1), ws ++ pre.map (·.2.2), rs + pre.length) := by
  induction pre generalizing last col ws rs with
  | nil =>
    cases rest with
    | nil => simp [fseInner]
    | cons e r =>
      obtain ⟨n, m, w⟩ := e
      have hn : node < n := hrest (n, m, w) (by simp)
      have h1 : ¬ node > n := by omega
      have h2 : n ≠ node := by omega
      simp [fseInner, h1, h2]
  | cons e pre ih =>
    obtain ⟨n, m, w⟩ := e
    have hn : n = node := hsrc (n, m, w) (List.mem_cons_self ..)
    subst hn
    have hcond : okAfter last m = true := by
      cases last with
      | none => rfl
      | some x =>
        simp only [AscFrom, Asc, List.map_cons, List.pairwise_cons] at hasc
        have := hasc.1 m (List.mem_cons_self ..)
        simpa [okAfter] using this
    have hasc' : AscFrom (some m) (pre.map (·.2.1)) := by
      cases last with
      | none => simpa [AscFrom, Asc] using hasc
      | some x =>
        simp only [AscFrom, Asc, List.map_cons, List.pairwise_cons] at hasc ⊢
        exact hasc.2
    simp only [List.cons_append, fseInner, gt_iff_lt, Nat.lt_irrefl, if_false, ne_eq, not_true_eq_false, hcond, if_true]
    rw [ih (some m) _ _ _ (fun e he => hsrc e (List.mem_cons_of_mem _ he)) hasc']
    simp [Nat.add_assoc, Nat.add_comm 1]

theorem fseInner_ok (node : Nat) (es : List Edge) (last : Option Nat) (col : List Nat) (ws : List Int) (rs : Nat)
    (rest : List Edge) (ex : Bool) (col' : List Nat) (ws' : List Int) (rs' : Nat)
    (h : fseInner node last es col ws rs = .ok (rest, ex, col', ws', rs')) :
    ∃ pre, es = pre ++ rest ∧ (∀ e ∈ pre, e.1 = node) ∧ AscFrom last (pre.map (·.2.1)) ∧
      (ex = true → rest = []) ∧ (ex = false → ∃ e r, rest = e :: r ∧ node < e.1) := by
  induction es generalizing last col ws rs with
  | nil =>
    simp only [fseInner, Except.ok.injEq, Prod.mk.injEq] at h
    obtain ⟨h1, h2, _⟩ := h
    subst h1 h2
    exact ⟨[], rfl, by simp, by cases last <;> simp [AscFrom, Asc], fun _ => rfl, fun h => by cases h⟩
  | cons e es ih =>
    obtain ⟨n, m, w⟩ := e
    simp only [fseInner] at h
    by_cases h1 : node > n
    · simp [h1] at h
    · simp only [h1, if_false] at h
      by_cases h2 : n ≠ node
      · rw [if_pos h2] at h
        simp only [Except.ok.injEq, Prod.mk.injEq] at h
        obtain ⟨hr, hx, _⟩ := h
        subst hr hx
        refine ⟨[], rfl, by simp, by cases last <;> simp [AscFrom, Asc], (fun h => by cases h), fun _ => ⟨_, _, rfl, by simp at *; omega⟩⟩
      · have hn : n = node := by simpa using h2
        subst hn
        simp only [ne_eq, not_true_eq_false, if_false] at h
        by_cases h3 : okAfter last m = true
        · simp only [h3, if_true] at h
          obtain ⟨pre, hp1, hp2, hp3, hp4, hp5⟩ := ih _ _ _ _ h
          refine ⟨(n, m, w) :: pre, by simp [hp1], ?_, ?_, hp4, hp5⟩
          · intro e he
            rcases List.mem_cons.mp he with rfl | he
            · rfl
            · exact hp2 e he
          · cases last with
            | none => simpa [AscFrom, Asc] using hp3
            | some x =>
              have hx : x < m := by simpa [okAfter] using h3
              simp only [AscFrom, Asc, List.map_cons, List.pairwise_cons] at hp3 ⊢
              refine ⟨?_, hp3⟩
              intro y hy
              rcases List.mem_cons.mp hy with rfl | hy
              · exact hx
              · have := hp3.1 y hy; omega
        · simp [h3] at h


def toRow (es : List Edge) : Row := es.map fun e => (e.2.1, e.2.2)

/-- the rows `node, node+1, …, node+j-1` of a sorted edge list -/
def grp (node : Nat) : Nat → List Edge → List Row
  | 0, _ => []
  | j + 1, es => toRow (es.takeWhile (srcIs node)) :: grp (node + 1) j (es.dropWhile (srcIs node))

theorem grp_length (node j : Nat) (es : List Edge) : (grp node j es).length = j := by
  induction j generalizing node es with
  | zero => rfl
  | succ j ih => simp [grp, ih]

theorem grp_nil (node j : Nat) : grp node j [] = List.replicate j [] := by
  induction j generalizing node with
  | zero => rfl
  | succ j ih => simp [grp, toRow, ih, List.replicate_succ]

theorem Sorted.tail {e : Edge} {es : List Edge} (h : Sorted (e :: es)) : Sorted es :=
  (List.pairwise_cons.mp h).2

/-- a sorted list whose sources are `≥ node` splits into the `node`-edges and a rest with sources `> node` -/
theorem sorted_split (node : Nat) (es : List Edge) (hs : Sorted es) (hge : ∀ e ∈ es, node ≤ e.1) :
    (∀ e ∈ es.takeWhile (srcIs node), e.1 = node) ∧
    Asc ((es.takeWhile (srcIs node)).map (·.2.1)) ∧
    (∀ e ∈ es.dropWhile (srcIs node), node < e.1) ∧
    Sorted (es.dropWhile (srcIs node)) := by
  induction es with
  | nil => simp [Asc, Sorted]
  | cons e es ih =>
    have hs' := hs.tail
    have ih' := ih hs' (fun x hx => hge x (List.mem_cons_of_mem _ hx))
    have hp := (List.pairwise_cons.mp hs).1
    by_cases he : srcIs node e = true
    · have hen : e.1 = node := by simpa [srcIs] using he
      simp only [List.takeWhile_cons, he, if_true, List.dropWhile_cons]
      refine ⟨?_, ?_, ih'.2.2.1, ih'.2.2.2⟩
      · intro x hx
        rcases List.mem_cons.mp hx with rfl | hx
        · exact hen
        · exact ih'.1 x hx
      · simp only [Asc, List.map_cons, List.pairwise_cons]
        refine ⟨?_, ih'.2.1⟩
        intro t ht
        obtain ⟨x, hx, rfl⟩ := List.mem_map.mp ht
        have hxs : x.1 = node := ih'.1 x hx
        have := hp x ((List.takeWhile_sublist _).subset hx)
        unfold lexLt at this; omega
    · have hen : e.1 ≠ node := by simpa [srcIs] using he
      have hgt : node < e.1 := by have := hge e (List.mem_cons_self ..); omega
      simp only [List.takeWhile_cons, he, List.dropWhile_cons]
      refine ⟨by simp, by simp [Asc], ?_, hs⟩
      intro x hx
      rcases List.mem_cons.mp hx with rfl | hx
      · exact hgt
      · have := hp x hx; unfold lexLt at this; omega

theorem fseOuter_run (j node : Nat) (es : List Edge) (rowAcc col : List Nat) (ws : List Int) (rs : Nat)
    (hs : Sorted es) (hr : ∀ e ∈ es, node ≤ e.1 ∧ e.1 < node + j) :
    fseOuter (j + 1) node es rowAcc col ws rs =
      .ok (rowAcc ++ offsets rs (grp node j es), col ++ (grp node j es).flatten.map (·.1),
           ws ++ (grp node j es).flatten.map (·.2)) := by
  induction j generalizing node es rowAcc col ws rs with
  | zero =>
    have : es = [] := by
      cases es with
      | nil => rfl
      | cons e es => have := hr e (List.mem_cons_self ..); omega
    subst this
    simp [fseOuter, fseInner, grp, offsets]
  | succ j ih =>
    obtain ⟨h1, h2, h3, h4⟩ := sorted_split node es hs (fun e he => (hr e he).1)
    have hsplit : es = es.takeWhile (srcIs node) ++ es.dropWhile (srcIs node) := (List.takeWhile_append_dropWhile).symm
    have hhead : ∀ e ∈ (es.dropWhile (srcIs node)).head?, node < e.1 := by
      intro e he; exact h3 e (List.mem_of_mem_head? he)
    unfold fseOuter
    rw [hsplit, fseInner_run node _ _ none col ws rs h1 (by simpa [AscFrom] using h2) hhead, ← hsplit]
    simp only [grp]
    cases hd : es.dropWhile (srcIs node) with
    | nil =>
      simp only [List.isEmpty_nil, if_true, grp_nil, offsets, offsets_replicate_nil, toRow, List.length_map,
        List.flatten_cons, flatten_replicate_nil, List.append_nil, List.map_map, List.append_assoc,
        List.cons_append, List.nil_append]
      rfl
    | cons e r =>
      rw [← hd]
      have hne : (es.dropWhile (srcIs node)).isEmpty = false := by rw [hd]; rfl
      simp only [hne, Bool.false_eq_true, if_false]
      rw [ih (node + 1) _ _ _ _ _ h4 (fun x hx => by
        have := h3 x hx
        have := (hr x ((List.dropWhile_sublist _).subset hx)).2
        omega)]
      simp only [offsets, toRow, List.length_map, List.flatten_cons, List.map_append, List.map_map,
        List.append_assoc, List.cons_append, List.nil_append]
      rfl

theorem sorted_append {l1 l2 : List Edge} (h1 : Sorted l1) (h2 : Sorted l2)
    (h : ∀ a ∈ l1, ∀ b ∈ l2, lexLt a b) : Sorted (l1 ++ l2) := by
  unfold Sorted; rw [List.pairwise_append]; exact ⟨h1, h2, h⟩

theorem sorted_same_src (node : Nat) (pre : List Edge) (h1 : ∀ e ∈ pre, e.1 = node)
    (h2 : Asc (pre.map (·.2.1))) : Sorted pre := by
  induction pre with
  | nil => simp [Sorted]
  | cons e pre ih =>
    simp only [Asc, List.map_cons, List.pairwise_cons] at h2
    unfold Sorted
    rw [List.pairwise_cons]
    refine ⟨?_, ih (fun x hx => h1 x (List.mem_cons_of_mem _ hx)) h2.2⟩
    intro x hx
    have := h2.1 x.2.1 (List.mem_map.mpr ⟨x, hx, rfl⟩)
    have e1 := h1 e (List.mem_cons_self ..)
    have e2 := h1 x (List.mem_cons_of_mem _ hx)
    unfold lexLt; omega

theorem fseOuter_ok (k node : Nat) (es : List Edge) (rowAcc col : List Nat) (ws : List Int) (rs : Nat)
    (out : List Nat × List Nat × List Int)
    (h : fseOuter k node es rowAcc col ws rs = .ok out)
    (hA : ∀ e ∈ es, e.1 + 1 < node + k) (hB : ∀ e ∈ es.head?, node ≤ e.1) :
    Sorted es ∧ ∀ e ∈ es, node ≤ e.1 := by
  induction k generalizing node es rowAcc col ws rs with
  | zero =>
    cases es with
    | nil => simp [Sorted]
    | cons e es =>
      have := hA e (List.mem_cons_self ..)
      have := hB e (by simp)
      omega
  | succ k ih =>
    unfold fseOuter at h
    cases hi : fseInner node none es col ws rs with
    | error e => rw [hi] at h; cases h
    | ok r =>
      obtain ⟨rest, ex, col', ws', rs'⟩ := r
      rw [hi] at h
      obtain ⟨pre, hp1, hp2, hp3, hp4, hp5⟩ := fseInner_ok node es none col ws rs rest ex col' ws' rs' hi
      have hpre : Sorted pre := sorted_same_src node pre hp2 (by simpa [AscFrom] using hp3)
      cases ex with
      | true =>
        have := hp4 rfl
        subst this
        simp only [List.append_nil] at hp1
        subst hp1
        exact ⟨hpre, fun e he => by rw [hp2 e he]; exact Nat.le_refl _⟩
      | false =>
        simp only [Bool.false_eq_true, if_false] at h
        obtain ⟨e0, r0, hr0, hgt⟩ := hp5 rfl
        have hA' : ∀ e ∈ rest, e.1 + 1 < node + 1 + k := by
          intro e he
          have := hA e (by rw [hp1]; exact List.mem_append_right _ he)
          omega
        have hB' : ∀ e ∈ rest.head?, node + 1 ≤ e.1 := by
          intro e he; rw [hr0] at he; simp at he; subst he; omega
        obtain ⟨hs2, hge2⟩ := ih (node + 1) rest _ _ _ _ h hA' hB'
        subst hp1
        refine ⟨sorted_append hpre hs2 ?_, ?_⟩
        · intro a ha b hb
          have := hp2 a ha
          have := hge2 b hb
          unfold lexLt; omega
        · intro e he
          rcases List.mem_append.mp he with he | he
          · rw [hp2 e he]; exact Nat.le_refl _
          · have := hge2 e he; omega


/-- an edge as a key/value pair of the abstract (directed) edge map -/
def kv (e : Edge) : (Nat × Nat) × Int := ((e.1, e.2.1), e.2.2)

theorem lookupKey_app (k : Nat × Nat) (l1 l2 : List ((Nat × Nat) × Int)) :
    lookupKey k (l1 ++ l2) = match lookupKey k l1 with | some v => some v | none => lookupKey k l2 := by
  induction l1 with
  | nil => rfl
  | cons e es ih =>
    obtain ⟨k', w⟩ := e
    simp only [List.cons_append, lookupKey]
    split
    · rfl
    · exact ih

theorem lookupKey_none_of_src (a b : Nat) (es : List Edge) (h : ∀ e ∈ es, e.1 ≠ a) :
    lookupKey (a, b) (es.map kv) = none := by
  induction es with
  | nil => rfl
  | cons e es ih =>
    have h1 := h e (List.mem_cons_self ..)
    have : ¬ (e.1, e.2.1) = (a, b) := by intro hc; injection hc with hc _; exact h1 hc
    simp only [List.map_cons, kv, lookupKey, this, if_false]
    exact ih (fun x hx => h x (List.mem_cons_of_mem _ hx))

theorem lookupKey_same_src (node b : Nat) (pre : List Edge) (h : ∀ e ∈ pre, e.1 = node) :
    lookupKey (node, b) (pre.map kv) = lookupRow b (toRow pre) := by
  induction pre with
  | nil => rfl
  | cons e pre ih =>
    have h1 := h e (List.mem_cons_self ..)
    have ih' := ih (fun x hx => h x (List.mem_cons_of_mem _ hx))
    simp only [List.map_cons, kv, lookupKey, toRow, lookupRow]
    by_cases hb : e.2.1 = b
    · simp [h1, hb]
    · have : ¬ (e.1, e.2.1) = (node, b) := by intro hc; injection hc with _ hc; exact hb hc
      simp only [this, if_false, hb]
      exact ih'

/-- the rows `grp` builds answer like a lookup in the edge list -/
theorem look_grp (j node : Nat) (es : List Edge) (hs : Sorted es) (hr : ∀ e ∈ es, node ≤ e.1 ∧ e.1 < node + j)
    (a b : Nat) :
    (if node ≤ a then look (grp node j es) (a - node) b else none) = lookupKey (a, b) (es.map kv) := by
  induction j generalizing node es with
  | zero =>
    have : es = [] := by
      cases es with
      | nil => rfl
      | cons e es => have := hr e (List.mem_cons_self ..); omega
    subst this
    simp [grp, look, lookupKey]
  | succ j ih =>
    obtain ⟨h1, h2, h3, h4⟩ := sorted_split node es hs (fun e he => (hr e he).1)
    have hsplit : es = es.takeWhile (srcIs node) ++ es.dropWhile (srcIs node) := (List.takeWhile_append_dropWhile).symm
    have ih' := ih (node + 1) (es.dropWhile (srcIs node)) h4 (fun x hx => by
        have := h3 x hx
        have := (hr x ((List.dropWhile_sublist _).subset hx)).2
        omega)
    conv => rhs; rw [hsplit, List.map_append, lookupKey_app]
    simp only [grp]
    by_cases ha : node ≤ a
    · simp only [ha, if_true]
      by_cases hea : a = node
      · subst hea
        rw [lookupKey_same_src a b _ h1]
        have : lookupKey (a, b) ((es.dropWhile (srcIs a)).map kv) = none :=
          lookupKey_none_of_src a b _ (fun e he => by have := h3 e he; omega)
        rw [this]
        simp only [Nat.sub_self, look, List.getElem?_cons_zero]
        cases lookupRow b (toRow (List.takeWhile (srcIs a) es)) <;> rfl
      · have hgt : node + 1 ≤ a := by omega
        rw [lookupKey_none_of_src a b _ (fun e he => by have := h1 e he; omega)]
        simp only [hgt, if_true] at ih'
        rw [← ih']
        have : a - node = (a - (node + 1)) + 1 := by omega
        rw [this]
        simp [look]
    · simp only [ha, if_false]
      rw [lookupKey_none_of_src a b _ (fun e he => by have := h1 e he; omega),
        lookupKey_none_of_src a b _ (fun e he => by have := h3 e he; omega)]

theorem grp_flatten_length (j node : Nat) (es : List Edge) (hs : Sorted es)
    (hr : ∀ e ∈ es, node ≤ e.1 ∧ e.1 < node + j) : (grp node j es).flatten.length = es.length := by
  induction j generalizing node es with
  | zero =>
    have : es = [] := by
      cases es with
      | nil => rfl
      | cons e es => have := hr e (List.mem_cons_self ..); omega
    subst this; rfl
  | succ j ih =>
    obtain ⟨h1, h2, h3, h4⟩ := sorted_split node es hs (fun e he => (hr e he).1)
    have ih' := ih (node + 1) (es.dropWhile (srcIs node)) h4 (fun x hx => by
        have := h3 x hx
        have := (hr x ((List.dropWhile_sublist _).subset hx)).2
        omega)
    simp only [grp, List.flatten_cons, List.length_append, ih', toRow, List.length_map]
    have := congrArg List.length (List.takeWhile_append_dropWhile (p := srcIs node) (l := es))
    rw [List.length_append] at this
    exact this

theorem grp_rows (j node : Nat) (es : List Edge) (hs : Sorted es) (hr : ∀ e ∈ es, node ≤ e.1 ∧ e.1 < node + j) :
    ∀ r ∈ grp node j es, Asc (keys r) ∧ ∀ x ∈ keys r, ∃ e ∈ es, x = e.2.1 := by
  induction j generalizing node es with
  | zero => intro r hr; simp [grp] at hr
  | succ j ih =>
    obtain ⟨h1, h2, h3, h4⟩ := sorted_split node es hs (fun e he => (hr e he).1)
    have ih' := ih (node + 1) (es.dropWhile (srcIs node)) h4 (fun x hx => by
        have := h3 x hx
        have := (hr x ((List.dropWhile_sublist _).subset hx)).2
        omega)
    intro r hrm
    simp only [grp, List.mem_cons] at hrm
    rcases hrm with rfl | hrm
    · have hk : keys (toRow (es.takeWhile (srcIs node))) = (es.takeWhile (srcIs node)).map (·.2.1) := by
        simp [keys, toRow, Function.comp_def]
      rw [hk]
      refine ⟨h2, ?_⟩
      intro x hx
      obtain ⟨e, he, rfl⟩ := List.mem_map.mp hx
      exact ⟨e, (List.takeWhile_sublist _).subset he, rfl⟩
    · obtain ⟨hasc, hmem⟩ := ih' r hrm
      refine ⟨hasc, ?_⟩
      intro x hx
      obtain ⟨e, he, rfl⟩ := hmem x hx
      exact ⟨e, (List.dropWhile_sublist _).subset he, rfl⟩

theorem maxNodeId_none (es : List Edge) : maxNodeId es = none ↔ es = [] := by
  cases es with
  | nil => simp [maxNodeId]
  | cons e es =>
    obtain ⟨x, y, w⟩ := e
    simp only [maxNodeId]
    cases maxNodeId es <;> simp

theorem maxNodeId_bound (es : List Edge) (mx : Nat) (h : maxNodeId es = some mx) :
    ∀ e ∈ es, e.1 ≤ mx ∧ e.2.1 ≤ mx := by
  induction es generalizing mx with
  | nil => simp [maxNodeId] at h
  | cons e es ih =>
    obtain ⟨x, y, w⟩ := e
    simp only [maxNodeId] at h
    intro e he
    cases hm : maxNodeId es with
    | none =>
      rw [hm] at h
      have : es = [] := (maxNodeId_none es).mp hm
      subst this
      simp at he; subst he
      simp at h; subst h
      simp; omega
    | some m' =>
      rw [hm] at h
      simp at h; subst h
      rcases List.mem_cons.mp he with rfl | he
      · simp; omega
      · have := ih m' hm e he; omega

/-- number of nodes `from_sorted_edges` creates: largest endpoint + 1 -/
def fsNodes (es : List Edge) : Nat :=
  match maxNodeId es with
  | none => 0
  | some mx => mx + 1

/-- `from_sorted_edges` succeeds exactly on strictly sorted (hence duplicate-free) input -/
theorem fromSorted_ok_iff (m c : Nat) (dbg : Bool) (es : List Edge) :
    (∃ s, fromSortedEdges m c dbg es = .ok s) ↔ strictlySorted es = true := by
  rw [strictlySorted_iff]
  unfold fromSortedEdges
  cases hm : maxNodeId es with
  | none =>
    have : es = [] := (maxNodeId_none es).mp hm
    subst this
    simp [Sorted]
  | some mx =>
    have hb := maxNodeId_bound es mx hm
    have hlen : (withNodes true m c dbg (mx + 1)).row.length = (mx + 1) + 1 := by simp [withNodes]
    simp only [hlen]
    constructor
    · rintro ⟨s, hs⟩
      cases ho : fseOuter (mx + 1 + 1) 0 es [] [] [] 0 with
      | error e => rw [ho] at hs; cases hs
      | ok out =>
        exact (fseOuter_ok _ 0 es [] [] [] 0 out ho (fun e he => by have := hb e he; omega)
          (fun e _ => Nat.zero_le _)).1
    · intro hs
      rw [fseOuter_run (mx + 1) 0 es [] [] [] 0 hs (fun e he => by have := hb e he; omega)]
      exact ⟨_, rfl⟩

/-- on sorted input the result is the flat layout of the rows `grp 0 n es` -/
theorem fromSorted_good (m c : Nat) (dbg : Bool) (es : List Edge) (hs : Sorted es) :
    ∃ s, fromSortedEdges m c dbg es = .ok s ∧ Good s (grp 0 (fsNodes es) es) ∧
      SameParams s (withNodes true m c dbg (fsNodes es)) ∧ s.nodeWeights = List.replicate (fsNodes es) 0 := by
  unfold fromSortedEdges fsNodes
  cases hm : maxNodeId es with
  | none =>
    have : es = [] := (maxNodeId_none es).mp hm
    subst this
    exact ⟨_, rfl, by simpa [grp] using good_withNodes true m c dbg 0, SameParams.refl _, rfl⟩
  | some mx =>
    have hb := maxNodeId_bound es mx hm
    have hlen : (withNodes true m c dbg (mx + 1)).row.length = (mx + 1) + 1 := by simp [withNodes]
    have hr : ∀ e ∈ es, 0 ≤ e.1 ∧ e.1 < 0 + (mx + 1) := fun e he => by have := hb e he; omega
    simp only [hlen]
    rw [fseOuter_run (mx + 1) 0 es [] [] [] 0 hs hr]
    refine ⟨_, rfl, ⟨⟨?_, ?_, ?_, ?_⟩, ?_, ?_, ?_⟩, ⟨rfl, rfl, rfl, rfl⟩, rfl⟩
    · simp
    · simp
    · simp
    · simp [withNodes, grp_length]
    · intro r hrm
      obtain ⟨h1, h2⟩ := grp_rows (mx + 1) 0 es hs hr r hrm
      refine ⟨h1, ?_⟩
      intro x hx
      obtain ⟨e, he, rfl⟩ := h2 x hx
      rw [grp_length]
      have := hb e he; omega
    · intro hd; cases hd
    · intro _; rfl



/-- the graph built edge by edge -/
def foldAdd (g : SG) (es : List Edge) : SG := es.foldl (fun g e => (g.addEdge e.1 e.2.1 e.2.2).1) g

theorem foldAdd_cons (g : SG) (e : Edge) (es : List Edge) :
    foldAdd g (e :: es) = foldAdd (g.addEdge e.1 e.2.1 e.2.2).1 es := rfl

theorem addEdge_fst_nodes (g : SG) (a b : Nat) (w : Int) :
    (g.addEdge a b w).1.nodes = g.nodes ∧ (g.addEdge a b w).1.directed = g.directed := by
  unfold SG.addEdge
  split
  · split <;> exact ⟨rfl, rfl⟩
  · exact ⟨rfl, rfl⟩

theorem foldAdd_nodes (g : SG) (es : List Edge) : (foldAdd g es).nodes = g.nodes ∧ (foldAdd g es).directed = g.directed := by
  induction es generalizing g with
  | nil => exact ⟨rfl, rfl⟩
  | cons e es ih =>
    rw [foldAdd_cons]
    have h1 := ih (g.addEdge e.1 e.2.1 e.2.2).1
    have h2 := addEdge_fst_nodes g e.1 e.2.1 e.2.2
    exact ⟨h1.1.trans h2.1, h1.2.trans h2.2⟩

theorem foldAdd_lookup (g : SG) (es : List Edge) (hd : g.directed = true)
    (hr : ∀ e ∈ es, e.1 < g.n ∧ e.2.1 < g.n) (x y : Nat) :
    (foldAdd g es).lookup x y =
      match g.lookup x y with
      | some v => some v
      | none => lookupKey (x, y) (es.map kv) := by
  induction es generalizing g with
  | nil => simp only [foldAdd, List.foldl_nil, List.map_nil, lookupKey]; cases g.lookup x y <;> rfl
  | cons e es ih =>
    rw [foldAdd_cons]
    have hre := hr e (List.mem_cons_self ..)
    have hn' : (g.addEdge e.1 e.2.1 e.2.2).1.n = g.n := by
      unfold SG.n; rw [(addEdge_fst_nodes g _ _ _).1]
    have hd' : (g.addEdge e.1 e.2.1 e.2.2).1.directed = true := by
      rw [(addEdge_fst_nodes g _ _ _).2]; exact hd
    rw [ih _ hd' (fun e' he' => by rw [hn']; exact hr e' (List.mem_cons_of_mem _ he'))]
    simp only [List.map_cons, kv, lookupKey]
    by_cases hp : g.lookup e.1 e.2.1 = none
    · rw [SG.addEdge_absent g _ _ _ hre hp]
      simp only
      rw [SG.lookup_after_add g _ _ _ hp, hd]
      by_cases hk : x = e.1 ∧ y = e.2.1
      · obtain ⟨rfl, rfl⟩ := hk
        simp [hp]
      · have : ¬ (e.1, e.2.1) = (x, y) := by
          intro hc; injection hc with h1 h2; exact hk ⟨h1.symm, h2.symm⟩
        simp only [hk, false_or, Bool.true_eq_false, false_and, if_false, this]
    · rw [SG.addEdge_present g _ _ _ hre hp]
      simp only
      by_cases hk : (e.1, e.2.1) = (x, y)
      · injection hk with h1 h2
        subst h1 h2
        cases hl : g.lookup e.1 e.2.1 with
        | none => exact absurd hl hp
        | some v => rfl
      · simp only [hk, if_false]

theorem lexLt_key_ne {e1 e2 : Edge} (h : lexLt e1 e2) : ¬ (e2.1 = e1.1 ∧ e2.2.1 = e1.2.1) := by
  unfold lexLt at h; omega

theorem foldAdd_count (g : SG) (es : List Edge) (hd : g.directed = true) (hs : Sorted es)
    (hr : ∀ e ∈ es, e.1 < g.n ∧ e.2.1 < g.n) (hfresh : ∀ e ∈ es, g.lookup e.1 e.2.1 = none) :
    (foldAdd g es).edgeCount = g.edgeCount + es.length := by
  induction es generalizing g with
  | nil => rfl
  | cons e es ih =>
    rw [foldAdd_cons]
    have hre := hr e (List.mem_cons_self ..)
    have hp := hfresh e (List.mem_cons_self ..)
    have hpw := (List.pairwise_cons.mp hs).1
    rw [SG.addEdge_absent g _ _ _ hre hp]
    simp only
    have hd' : ({ g with edges := g.edges ++ [(key g.directed e.1 e.2.1, e.2.2)] } : SG).directed = true := hd
    rw [ih _ hd' hs.tail (fun e' he' => hr e' (List.mem_cons_of_mem _ he'))]
    · simp [SG.edgeCount]; omega
    · intro e' he'
      rw [SG.lookup_after_add g _ _ _ hp, hd]
      have := lexLt_key_ne (hpw e' he')
      simp only [this, false_or, Bool.true_eq_false, false_and, if_false]
      exact hfresh e' (List.mem_cons_of_mem _ he')

/-- the call history "add every edge of the list" -/
def addOps (es : List Edge) : List Op := es.map fun e => .addEdge e.1 e.2.1 e.2.2

theorem specRun_addOps (m : Nat) (g : SG) (es : List Edge) : (specRun m g (addOps es)).1 = foldAdd g es := by
  induction es generalizing g with
  | nil => rfl
  | cons e es ih =>
    simp only [addOps, List.map_cons, specRun, foldAdd_cons]
    have : (specStep m g (.addEdge e.1 e.2.1 e.2.2)).1 = (g.addEdge e.1 e.2.1 e.2.2).1 := by
      simp only [specStep]
      cases h : g.addEdge e.1 e.2.1 e.2.2 with
      | mk g' r => cases r <;> rfl
    rw [this]
    exact ih _

theorem fits_addOps (m n : Nat) (es : List Edge) : Fits m n (addOps es) := by
  induction es with
  | nil => trivial
  | cons e es ih =>
    refine ⟨?_, ?_⟩
    · intro w hw; cases hw
    · simpa [nodesAfter, addOps] using ih

/-- **`from_sorted_edges` equals the graph built edge by edge** -/
theorem fromSorted_eq_fold (m c : Nat) (dbg : Bool) (es : List Edge) (s : State)
    (h : fromSortedEdges m c dbg es = .ok s) :
    s = (run (withNodes true m c dbg (fsNodes es)) (addOps es)).1 ∧
    Abs s (grp 0 (fsNodes es) es) (SG.ofEdges true (fsNodes es) es) := by
  have hs : Sorted es := (strictlySorted_iff es).mp ((fromSorted_ok_iff m c dbg es).mp ⟨s, h⟩)
  obtain ⟨s', e', good, sp, hnw⟩ := fromSorted_good m c dbg es hs
  rw [h] at e'
  injection e' with e'
  subst e'
  let n := fsNodes es
  let g0 : SG := { directed := true, nodes := List.replicate n 0, edges := [] }
  have hg0n : g0.n = n := by simp [g0, SG.n]
  have hbound : ∀ e ∈ es, e.1 < n ∧ e.2.1 < n := by
    intro e he
    simp only [n, fsNodes]
    cases hm : maxNodeId es with
    | none => have := (maxNodeId_none es).mp hm; subst this; cases he
    | some mx => have := maxNodeId_bound es mx hm e he; simp; omega
  have hofe : SG.ofEdges true n es = foldAdd g0 es := rfl
  have hlook0 : ∀ x y, g0.lookup x y = none := fun x y => rfl
  -- abstraction of the from_sorted result
  have habs : Abs s (grp 0 n es) (foldAdd g0 es) := by
    refine ⟨?_, ?_, ?_, ?_⟩
    · rw [(foldAdd_nodes g0 es).2, sp.1]; rfl
    · rw [(foldAdd_nodes g0 es).1, hnw]
    · intro a b
      rw [foldAdd_lookup g0 es rfl (by rw [hg0n]; exact hbound) a b, hlook0]
      have := look_grp n 0 es hs (fun e he => ⟨Nat.zero_le _, by have := (hbound e he).1; omega⟩) a b
      simpa using this
    · rw [foldAdd_count g0 es rfl hs (by rw [hg0n]; exact hbound) (fun e _ => hlook0 _ _)]
      have hd : s.directed = true := by rw [sp.1]; rfl
      simp only [State.edgeCountQ, hd, if_true, SG.edgeCount, g0, List.length_nil, Nat.zero_add]
      rw [good.rep.column_length]
      exact grp_flatten_length n 0 es hs (fun e he => ⟨Nat.zero_le _, by have := (hbound e he).1; omega⟩)
  refine ⟨?_, by rw [hofe]; exact habs⟩
  -- the edge-by-edge history ends in a state representing the same abstract graph
  have h0 : Abs (withNodes true m c dbg n) (List.replicate n []) g0 := by
    refine ⟨rfl, rfl, ?_, rfl⟩
    intro a b; rw [look_replicate_nil]; rfl
  obtain ⟨R2, good2, abs2, _, sp2⟩ := run_refines (good_withNodes true m c dbg n) h0 (addOps es)
  rw [specRun_addOps] at abs2
  exact canonical good good2 habs abs2
    ⟨sp.1.trans sp2.1.symm, sp.2.1.trans sp2.2.1.symm, sp.2.2.1.trans sp2.2.2.1.symm, sp.2.2.2.trans sp2.2.2.2.symm⟩
    ⟨rfl, fun _ _ => rfl, rfl⟩


end PetgraphModel.CsrProofs
