import PetgraphModel.Proofs.C16W2ApBase
import PetgraphModel.Proofs.C16W2ApChildNew
import PetgraphModel.Proofs.C16W2ApChildOld
import PetgraphModel.Proofs.C16W2ApRoot
import PetgraphModel.Proofs.C16W2ApNoBack
import PetgraphModel.Proofs.C16W2ApFuel
/-
C16, second wave — articulation points, Part I (i): every step of the machine preserves the
invariant and lowers the potential; hence one `dfsLoop` terminates within the fuel in a state
satisfying the invariant with the whole tree finished.
-/
namespace PetgraphModel.C16P.W2Ap
open PetgraphModel MGraph C16M

set_option linter.unusedSimpArgs false

theorem pot_append (v : View) (A B : List RStep) (st : AP) :
    pot v (A ++ B) st = (A.map wt).sum + pot v B st := by
  simp only [pot, List.map_append, List.sum_append]; omega

theorem pot_cons (v : View) (a : RStep) (B : List RStep) (st : AP) :
    pot v (a :: B) st = wt a + pot v B st := by
  simp only [pot, List.map_cons, List.sum_cons]; omega

theorem pot_congr (v : View) (B : List RStep) (st st' : AP) (h : st'.visited = st.visited) :
    pot v B st' = pot v B st := by
  simp only [pot, unv, h]

/-- what one step achieves -/
structure StepRes (v : View) (r : Nat) (G : List (Nat × FS)) (st : AP)
    (G' : List (Nat × FS)) (cc' : List (Nat × Nat)) (st' : AP) : Prop where
  inv : Inv v G' st'
  bot : bot G' = some r
  cc : CcOk st' r ((cc'.lookup r).getD 0)
  pot : pot v (stackOf G') st' < pot v (stackOf G) st
  mono : ∀ i, i ∈ st.visited → i ∈ st'.visited

section
variable {v : View} {r : Nat} {cc : List (Nat × Nat)} {st : AP} {rest : List (Nat × FS)}

theorem step_pend (hwf : v.g.WellFormed) (hi : IndexOk v) {c : Nat}
    (I : Inv v ((c, .pend) :: rest) st) (hb : bot ((c, .pend) :: rest) = some r)
    (K : CcOk st r ((cc.lookup r).getD 0)) :
    ∃ G' cc' st', apStep v (.base c) (link c rest (stackOf rest)) cc st = .ok (stackOf G', cc', st') ∧
      StepRes v r ((c, .pend) :: rest) st G' cc' st' := by
  have hcv : Valid v c := I.core.gvalid c _ (List.mem_cons_self ..)
  obtain ⟨hnb, hdl, hll, hpl⟩ := I.core.lt_nb hi hcv
  obtain ⟨a, ha, hai, hfa⟩ := valid_fromIndex v hwf hi c hcv
  have hn : nbr v c = (v.succ a).map v.toIndex := by simp [nbr, hfa]
  have hcu : c ∉ st.visited := I.core.pend_unvis c (List.mem_cons_self ..)
  refine ⟨(c, .run [] (nbr v c).reverse) :: rest, cc, stBase st c, ?_, ?_⟩
  · rw [apStep_base v c a _ cc st hnb hdl hll hfa]
    simp [stackOf, frame, hn, List.map_reverse, List.map_map, Function.comp_def]
  · refine ⟨inv_base v hi c rest st I, (bot_head_state c _ _ rest).symm.trans hb,
      ccOk_congr (st := st) (st' := stBase st c) (fun _ => rfl) K, ?_, fun i h => List.mem_cons_of_mem _ h⟩
    have hu := unv_base v hwf hi st a ha (by rw [hai]; exact hcu)
    rw [hai] at hu
    simp only [stackOf, frame, pot_append, List.map_append, List.sum_append, wt_children, wt,
      List.map_cons, List.map_nil, List.sum_cons, List.sum_nil, List.length_reverse, hn, List.length_map]
    simp only [pot] at *
    omega

theorem step_rootCheck (hi : IndexOk v) {u : Nat} {P : List Nat}
    (I : Inv v ((u, .run P []) :: rest) st) (hb : bot ((u, .run P []) :: rest) = some r)
    (K : CcOk st r ((cc.lookup r).getD 0)) :
    ∃ G' cc' st', apStep v (.rootCheck u) (link u rest (stackOf rest)) cc st = .ok (stackOf G', cc', st') ∧
      StepRes v r ((u, .run P []) :: rest) st G' cc' st' := by
  have hmem : (u, FS.run P []) ∈ (u, FS.run P []) :: rest := List.mem_cons_self ..
  have huv : Valid v u := I.core.gvalid u _ hmem
  obtain ⟨hnb, hdl, hll, hpl⟩ := I.core.lt_nb hi huv
  have K' : pO st u = none → CcOk st u ((cc.lookup u).getD 0) := by
    intro hp
    have := chain_root st u _ rest I.core.chain hp
    subst this
    simp only [bot_single, Option.some.injEq] at hb
    subst hb; exact K
  have hA := aps_rootCheck I.core I.aps ((cc.lookup u).getD 0) K'
  refine ⟨(u, .fin) :: rest, cc,
    if (pO st u).isNone ∧ (cc.lookup u).getD 0 > 1 then stAps st u else st, ?_, ?_⟩
  · rw [apStep_rootCheck v u _ cc st hpl]
    simp [stackOf, frame]
  · have hpot : ∀ st' : AP, st'.visited = st.visited →
        pot v (stackOf ((u, .fin) :: rest)) st' < pot v (stackOf ((u, .run P []) :: rest)) st := by
      intro st' h
      rw [pot_congr v _ st st' h]
      simp only [stackOf, frame, link, pot_append, pot_cons, wt, List.map_nil, List.sum_nil, List.map_cons,
      List.sum_cons, List.map_append, List.sum_append, wt_children, List.length_cons, List.nil_append,
      List.cons_append]
      omega
    by_cases hc : (pO st u).isNone ∧ (cc.lookup u).getD 0 > 1
    · rw [if_pos hc] at hA ⊢
      exact ⟨⟨core_stAps (core_root I.core) u, low_stAps (low_root I.core I.low) u, hA⟩,
        (bot_head_state u _ _ rest).symm.trans hb,
        ccOk_congr (st := st) (st' := stAps st u) (fun _ => rfl) K, hpot _ rfl, fun i h => h⟩
    · rw [if_neg hc] at hA ⊢
      exact ⟨⟨core_root I.core, low_root I.core I.low, hA⟩,
        (bot_head_state u _ _ rest).symm.trans hb, K, hpot _ rfl, fun i h => h⟩

theorem step_child (hwf : v.g.WellFormed) (hi : IndexOk v) {u t : Nat} {P R : List Nat}
    (I : Inv v ((u, .run P (t :: R)) :: rest) st) (hb : bot ((u, .run P (t :: R)) :: rest) = some r)
    (K : CcOk st r ((cc.lookup r).getD 0)) :
    ∃ G' cc' st', apStep v (.child u t) (stackOf ((u, .run (P ++ [t]) R) :: rest)) cc st =
        .ok (stackOf G', cc', st') ∧
      StepRes v r ((u, .run P (t :: R)) :: rest) st G' cc' st' := by
  have hmem : (u, FS.run P (t :: R)) ∈ (u, FS.run P (t :: R)) :: rest := List.mem_cons_self ..
  have huv : Valid v u := I.core.gvalid u _ hmem
  obtain ⟨hnb, hdl, hll, hpl⟩ := I.core.lt_nb hi huv
  have hb' : bot ((u, FS.run (P ++ [t]) R) :: rest) = some r := (bot_head_state u _ _ rest).symm.trans hb
  have hpot : ∀ st' : AP, st'.visited = st.visited →
      pot v (stackOf ((u, .run (P ++ [t]) R) :: rest)) st' < pot v (stackOf ((u, .run P (t :: R)) :: rest)) st := by
    intro st' h
    rw [pot_congr v _ st st' h]
    simp only [stackOf, frame, link, pot_append, pot_cons, wt, List.map_nil, List.sum_nil, List.map_cons,
      List.sum_cons, List.map_append, List.sum_append, wt_children, List.length_cons, List.nil_append,
      List.cons_append]
    omega
  by_cases ht : t ∈ st.visited
  · have htn : t ∈ nbr v u := by
      rw [← List.mem_reverse, I.core.run_split u P (t :: R) hmem]; simp
    have htv : Valid v t := nbr_valid v hwf hi u t huv htn
    obtain ⟨_, htdl, _, _⟩ := I.core.lt_nb hi htv
    by_cases hp : pO st u = some t
    · refine ⟨(u, .run (P ++ [t]) R) :: rest, cc, st, apStep_child_par v u t _ cc st ht hpl hp, ?_⟩
      exact ⟨⟨core_adv I.core ht, low_adv_same I.low hp, aps_adv I.aps⟩, hb', K, hpot _ rfl, fun i h => h⟩
    · refine ⟨(u, .run (P ++ [t]) R) :: rest, cc, stLow st u (minU (lO st u) (dO st t)),
        apStep_child_back v u t _ cc st ht hpl hp hll htdl, ?_⟩
      exact ⟨⟨core_stLow (core_adv I.core ht) u _, low_adv_back hi I.core I.low ht,
          aps_stLow_head (aps_adv I.aps) _ hll⟩, hb',
        ccOk_congr (st := st) (st' := stLow st u _) (fun _ => rfl) K, hpot _ rfl, fun i h => h⟩
  · have F := newFacts hwf hi I.core ht
    refine ⟨(t, .pend) :: (u, .run (P ++ [t]) R) :: rest, bump cc u, stPar st t u,
      apStep_child_new v u t _ cc st ht F.hpl, ?_⟩
    refine ⟨inv_new hwf hi I ht, by rw [bot_cons_cons]; exact hb', ccOk_new F.hpl F.hpt K, ?_, fun i h => h⟩
    rw [pot_congr v _ st (stPar st t u) rfl]
    simp only [stackOf, frame, link, pot_append, pot_cons, wt, List.map_nil, List.sum_nil, List.map_cons,
      List.sum_cons, List.map_append, List.sum_append, wt_children, List.length_cons, List.nil_append,
      List.cons_append]
    omega

theorem step_noBack (hi : IndexOk v) {u p : Nat} {P R : List Nat}
    (I : Inv v ((u, .fin) :: (p, .run P R) :: rest) st)
    (hb : bot ((u, .fin) :: (p, .run P R) :: rest) = some r)
    (K : CcOk st r ((cc.lookup r).getD 0)) :
    ∃ G' cc' st', apStep v (.noBack p u) (stackOf ((p, .run P R) :: rest)) cc st = .ok (stackOf G', cc', st') ∧
      StepRes v r ((u, .fin) :: (p, .run P R) :: rest) st G' cc' st' := by
  have F := popFacts hi I.core
  have hmu : (u, FS.fin) ∈ (u, FS.fin) :: (p, FS.run P R) :: rest := List.mem_cons_self ..
  have hmp : (p, FS.run P R) ∈ (u, FS.fin) :: (p, FS.run P R) :: rest :=
    List.mem_cons_of_mem _ (List.mem_cons_self ..)
  obtain ⟨_, hpdl, hpll, hppl⟩ := I.core.lt_nb hi (I.core.gvalid p _ hmp)
  obtain ⟨_, _, hull, _⟩ := I.core.lt_nb hi (I.core.gvalid u _ hmu)
  have hA := aps_pop hi I.core I.low I.aps
  have hL := low_pop hi I.core I.low
  have hC := core_pop I.core
  have hb' : bot ((p, FS.run P R) :: rest) = some r := by rw [bot_cons_cons] at hb; exact hb
  refine ⟨(p, .run P R) :: rest, cc, _, apStep_noBack v p u _ cc st hpll hull hppl hpdl F.hne, ?_⟩
  have hpot : ∀ st' : AP, st'.visited = st.visited →
      pot v (stackOf ((p, .run P R) :: rest)) st' < pot v (stackOf ((u, .fin) :: (p, .run P R) :: rest)) st := by
    intro st' h
    rw [pot_congr v _ st st' h]
    simp only [stackOf, frame, link, pot_append, pot_cons, wt, List.map_nil, List.sum_nil, List.map_cons,
      List.sum_cons, List.map_append, List.sum_append, wt_children, List.length_cons, List.nil_append,
      List.cons_append]
    omega
  by_cases hc : (pO st p).isSome ∧ geU (lO st u) (dO st p) = true
  · rw [if_pos hc] at hA ⊢
    exact ⟨⟨core_stAps (core_stLow hC p _) p, low_stAps hL p, hA⟩, hb',
      ccOk_congr (st := st) (st' := stAps (stLow st p _) p) (fun _ => rfl) K, hpot _ rfl, fun i h => h⟩
  · rw [if_neg hc] at hA ⊢
    exact ⟨⟨core_stLow hC p _, hL, hA⟩, hb',
      ccOk_congr (st := st) (st' := stLow st p _) (fun _ => rfl) K, hpot _ rfl, fun i h => h⟩

/-- **one step**: from a configuration described by the gray path `G`, the machine makes a step to
a configuration described by some `G'`, preserving the invariant and lowering the potential -/
theorem step_all (hwf : v.g.WellFormed) (hi : IndexOk v) {G : List (Nat × FS)}
    (I : Inv v G st) (hb : bot G = some r) (K : CcOk st r ((cc.lookup r).getD 0))
    {s : RStep} {stk : List RStep} (hs : stackOf G = s :: stk) :
    ∃ G' cc' st', apStep v s stk cc st = .ok (stackOf G', cc', st') ∧ StepRes v r G st G' cc' st' := by
  match G, I, hb, hs with
  | [], _, _, hs => simp [stackOf] at hs
  | (u, .pend) :: rest, I, hb, hs =>
    simp only [stackOf, frame, List.singleton_append, List.cons.injEq] at hs
    obtain ⟨rfl, rfl⟩ := hs
    exact step_pend hwf hi I hb K
  | (u, .run P []) :: rest, I, hb, hs =>
    simp only [stackOf, frame, List.map_nil, List.nil_append, List.singleton_append, List.cons.injEq] at hs
    obtain ⟨rfl, rfl⟩ := hs
    exact step_rootCheck hi I hb K
  | (u, .run P (t :: R)) :: rest, I, hb, hs =>
    simp only [stackOf, frame, List.map_cons, List.cons_append, List.cons.injEq] at hs
    obtain ⟨rfl, rfl⟩ := hs
    exact step_child hwf hi I hb K
  | [(u, .fin)], _, _, hs => simp [stackOf, frame, link] at hs
  | (u, .fin) :: (p, sp) :: rest, I, hb, hs =>
    obtain ⟨P, R, rfl⟩ := I.core.chain.2.1
    simp only [stackOf, frame, link, List.nil_append, List.cons.injEq] at hs
    obtain ⟨rfl, rfl⟩ := hs
    exact step_noBack hi I hb K

theorem stackOf_nil {G : List (Nat × FS)} (h : stackOf G = []) (hb : bot G = some r) : G = [(r, .fin)] := by
  match G, h, hb with
  | [], _, hb => simp [bot] at hb
  | [(u, .fin)], _, hb => simp only [bot_single, Option.some.injEq] at hb; rw [hb]
  | (u, .fin) :: (p, sp) :: rest, h, _ => simp [stackOf, frame, link] at h
  | (u, .pend) :: rest, h, _ => simp [stackOf, frame] at h
  | (u, .run P R) :: rest, h, _ => simp [stackOf, frame] at h

/-- **one `dfsLoop`** terminates within any fuel above the potential, in a state where the whole tree
of the root is finished -/
theorem dfsLoop_run (hwf : v.g.WellFormed) (hi : IndexOk v) (r : Nat) :
    ∀ (f : Nat) (G : List (Nat × FS)) (cc : List (Nat × Nat)) (st : AP), Inv v G st → bot G = some r →
      CcOk st r ((cc.lookup r).getD 0) → pot v (stackOf G) st < f →
      ∃ st', dfsLoop v f (stackOf G) cc st = .ok st' ∧ Inv v [(r, .fin)] st' ∧
        ∀ i, i ∈ st.visited → i ∈ st'.visited := by
  intro f
  induction f with
  | zero => intro G cc st _ _ _ h; omega
  | succ f ih =>
    intro G cc st I hb K hpot
    cases hs : stackOf G with
    | nil =>
      have := stackOf_nil hs hb
      subst this
      exact ⟨st, by simp [dfsLoop], I, fun i h => h⟩
    | cons s stk =>
      obtain ⟨G', cc', st', hstep, R⟩ := step_all hwf hi I hb K hs
      obtain ⟨st'', h1, h2, h3⟩ := ih G' cc' st' R.inv R.bot R.cc (by have := R.pot; omega)
      refine ⟨st'', ?_, h2, fun i h => h3 i (R.mono i h)⟩
      simp only [dfsLoop, hstep]
      exact h1

end
end PetgraphModel.C16P.W2Ap
