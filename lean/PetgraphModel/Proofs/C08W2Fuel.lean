import PetgraphModel.Proofs.C08W2Reach
/-
C08 (wave 2): fuel sufficiency for the `depth_first_search` model.  With fuel at least
`dfsFuel v = 1 + Σ_{u ∈ nodes} (|succ u| + 1)` the model never reports `Res.fuel` (start nodes and
neighbour lists staying inside the node list), so the `r = .fuel` alternatives of the clause
theorems are vacuous for the fuel the driver uses.
-/
namespace PetgraphModel.TravProofs
open PetgraphModel PetgraphModel.Trav PetgraphModel.MGraph

/-- fuel still needed for the nodes of `us` not yet discovered -/
def wsum (v : View) (disc : List Nat) : List Nat → Nat
  | [] => 0
  | u :: us => (if u ∈ disc then 0 else (v.succ u).length + 1) + wsum v disc us

def dfsFuel (v : View) : Nat := wsum v [] v.g.nodes + 1

theorem wsum_mono (v : View) {d d' : List Nat} (h : ∀ x, x ∈ d → x ∈ d') :
    ∀ us, wsum v d' us ≤ wsum v d us := by
  intro us
  induction us with
  | nil => exact Nat.le_refl _
  | cons u us ih =>
    simp only [wsum]
    by_cases h1 : u ∈ d
    · simp only [h1, h u h1, ↓reduceIte]; omega
    · by_cases h2 : u ∈ d' <;> simp only [h1, h2, ↓reduceIte] <;> omega

theorem wsum_dec (v : View) {d : List Nat} {u : Nat} (hu : u ∉ d) :
    ∀ us, u ∈ us → wsum v (u :: d) us + (v.succ u).length + 1 ≤ wsum v d us := by
  intro us
  induction us with
  | nil => intro h; cases h
  | cons a us ih =>
    intro h
    simp only [wsum]
    by_cases hau : a = u
    · subst hau
      have := wsum_mono v (d := d) (d' := a :: d) (fun x hx => List.mem_cons_of_mem _ hx) us
      simp only [List.mem_cons, true_or, hu, ↓reduceIte]
      omega
    · have hmem : u ∈ us := by
        rcases List.mem_cons.mp h with h1 | h1
        · exact absurd h1.symm hau
        · exact h1
      have := ih hmem
      by_cases had : a ∈ d
      · simp only [List.mem_cons, hau, had, or_true, ↓reduceIte]; omega
      · simp only [List.mem_cons, hau, had, or_false, ↓reduceIte]; omega

theorem finishStep_ne_fuel (script : List Ctl) (u : Nat) (s : VS) : (finishStep script u s).2 ≠ .fuel := by
  unfold finishStep; split <;> simp

theorem thenRes_ne_fuel {p : VS × Res} {k : VS → VS × Res} (hp : p.2 ≠ .fuel)
    (hk : p.2 = .cont → (k p.1).2 ≠ .fuel) : (thenRes p k).2 ≠ .fuel := by
  obtain ⟨s, r⟩ := p
  cases r with
  | cont => exact hk rfl
  | brk => simp [thenRes]
  | panicPruneFinish => simp [thenRes]
  | fuel => exact absurd rfl hp

theorem dfsv_no_fuel (v : View) (script : List Ctl)
    (hcl : ∀ u, u ∈ v.g.nodes → ∀ w, w ∈ v.succ u → w ∈ v.g.nodes) :
    ∀ f : Nat,
      (∀ u s, u ∈ v.g.nodes → wsum v s.disc v.g.nodes + 1 ≤ f → (dfsVisitor v script f u s).2 ≠ .fuel) ∧
      (∀ u ws s, (∀ w, w ∈ ws → w ∈ v.g.nodes) → wsum v s.disc v.g.nodes + ws.length + 1 ≤ f →
        (neighLoop v script f u ws s).2 ≠ .fuel) := by
  intro f
  induction f with
  | zero =>
    exact ⟨fun u s _ h => by omega, fun u ws s _ h => by omega⟩
  | succ f ih =>
    obtain ⟨ihV, ihN⟩ := ih
    constructor
    · intro u s hu hf
      by_cases hud : u ∈ s.disc
      · rw [dfsVisitor_succ_old v script f u s hud]; simp
      · rw [dfsVisitor_succ_new v script f u s hud]
        have hdec := wsum_dec v hud v.g.nodes hu
        split
        · simp
        · exact finishStep_ne_fuel _ _ _
        · apply thenRes_ne_fuel
          · apply ihN u (v.succ u) _ (hcl u hu)
            show wsum v (u :: s.disc) v.g.nodes + (v.succ u).length + 1 ≤ f
            omega
          · intro _; exact finishStep_ne_fuel _ _ _
    · intro u ws s hws hf
      cases ws with
      | nil => rw [neighLoop_nil]; simp
      | cons w ws =>
        have hws' : ∀ x, x ∈ ws → x ∈ v.g.nodes := fun x hx => hws x (List.mem_cons_of_mem _ hx)
        simp only [List.length_cons] at hf
        by_cases hw : w ∈ s.disc
        · rw [neighLoop_cons_old v script f u w ws s hw]
          split
          · simp
          · apply ihN u ws _ hws'
            show wsum v s.disc v.g.nodes + ws.length + 1 ≤ f
            omega
        · rw [neighLoop_cons_new v script f u w ws s hw]
          split
          · simp
          · apply ihN u ws _ hws'
            show wsum v s.disc v.g.nodes + ws.length + 1 ≤ f
            omega
          · apply thenRes_ne_fuel
            · apply ihV w _ (hws w (List.mem_cons_self ..))
              show wsum v s.disc v.g.nodes + 1 ≤ f
              omega
            · intro _
              apply ihN u ws _ hws'
              have hm := wsum_mono v (d := s.disc)
                (d' := (dfsVisitor v script f w { s with evs := .tree u w :: s.evs }).1.disc)
                (fun x hx => (dfsv_mono v script f).1 w _ x hx) v.g.nodes
              omega

theorem dfsSearch_no_fuel (v : View) (script : List Ctl) (fuel : Nat)
    (hcl : ∀ u, u ∈ v.g.nodes → ∀ w, w ∈ v.succ u → w ∈ v.g.nodes) :
    ∀ (l : List Nat) (s : VS), (∀ x, x ∈ l → x ∈ v.g.nodes) → wsum v s.disc v.g.nodes + 1 ≤ fuel →
      (dfsSearch v script fuel l s).2 ≠ .fuel := by
  intro l
  induction l with
  | nil => intro s _ _; simp [dfsSearch]
  | cons st rest ih =>
    intro s hl hf
    rw [dfsSearch_cons]
    apply thenRes_ne_fuel
    · exact (dfsv_no_fuel v script hcl fuel).1 st s (hl st (List.mem_cons_self ..)) hf
    · intro _
      apply ih _ (fun x hx => hl x (List.mem_cons_of_mem _ hx))
      have hm := wsum_mono v (d := s.disc) (d' := (dfsVisitor v script fuel st s).1.disc)
        (fun x hx => (dfsv_mono v script fuel).1 st s x hx) v.g.nodes
      omega

/-- a consistent view of a well-formed graph keeps neighbour lists inside the node list -/
theorem succ_closed_of_wf {v : View} (hv : ViewOk v) (hwf : v.g.WellFormed) :
    ∀ u, u ∈ v.g.nodes → ∀ w, w ∈ v.succ u → w ∈ v.g.nodes := by
  intro u _ w hw
  obtain ⟨e, he, h⟩ := (hv u w).mp hw
  rcases h with ⟨_, h2⟩ | ⟨_, h1, _⟩
  · exact h2 ▸ (hwf.2 e he).2
  · exact h1 ▸ (hwf.2 e he).1

/-- **fuel sufficiency**: with `dfsFuel v` fuel the model never runs out -/
theorem dfsv_fuel {v : View} (hv : ViewOk v) (hwf : v.g.WellFormed) {script : List Ctl} {fuel : Nat}
    {starts : List Nat} (hst : ∀ x, x ∈ starts → x ∈ v.g.nodes) (hf : dfsFuel v ≤ fuel) :
    (dfsSearch v script fuel starts {}).2 ≠ .fuel :=
  dfsSearch_no_fuel v script fuel (succ_closed_of_wf hv hwf) starts {} hst hf

end PetgraphModel.TravProofs
