import PetgraphModel.Driver.C14Checks
import PetgraphModel.Proofs.C14W2Topo
/-
C14 (wave 4, G-A): the executable checks of `Driver/C14Checks.lean` imply the hypotheses of the
`C14_*` theorems — `ViewOk`, `Closed`, `Safe` (hence `Inv2`, `Inv`, `OMInv`, `Clear`, `OrderValid`),
`TopoFuelOk`'s inequality, `Call.InnerOk`, `EdgesOk`.
-/
namespace PetgraphModel.AcyW4
open PetgraphModel PetgraphModel.MGraph PetgraphModel.Oracle PetgraphModel.Dag PetgraphModel.Acy
open PetgraphModel.AcyProofs PetgraphModel.AcyPK PetgraphModel.AcyNP PetgraphModel.AcyTS PetgraphModel.AcyW2
open PetgraphModel.C14

/-! ### `sameSet` (equality of the insertion-sorted lists) gives a permutation -/

theorem span_loop_append (p : Nat → Bool) : ∀ (l acc : List Nat),
    (List.span.loop p l acc).1 ++ (List.span.loop p l acc).2 = acc.reverse ++ l := by
  intro l
  induction l with
  | nil => intro acc; simp [List.span.loop]
  | cons a t ih =>
    intro acc
    unfold List.span.loop
    split
    · rw [ih]; simp
    · simp

theorem span_append (p : Nat → Bool) (l : List Nat) : (l.span p).1 ++ (l.span p).2 = l := by
  have := span_loop_append p l []
  simpa [List.span] using this

theorem sortNats_foldl_perm : ∀ (l acc : List Nat),
    (l.foldl (fun acc x => let (a, b) := acc.span (· ≤ x); a ++ x :: b) acc).Perm (acc ++ l) := by
  intro l
  induction l with
  | nil => intro acc; simp
  | cons x t ih =>
    intro acc
    simp only [List.foldl_cons]
    refine (ih _).trans ?_
    have h1 : ((acc.span (· ≤ x)).1 ++ x :: (acc.span (· ≤ x)).2).Perm (acc ++ [x]) := by
      refine List.perm_middle.trans ?_
      rw [span_append]
      exact (List.perm_append_singleton x acc).symm
    have : (acc ++ x :: t) = (acc ++ [x]) ++ t := by simp
    rw [this]
    exact List.Perm.append_right t h1

theorem sortNats_perm (l : List Nat) : (sortNats l).Perm l := by
  have := sortNats_foldl_perm l []
  simpa [sortNats] using this

theorem sameSet_perm {a b : List Nat} (h : sameSet a b = true) : a.Perm b := by
  have : sortNats a = sortNats b := by simpa [sameSet] using h
  exact (sortNats_perm a).symm.trans (this ▸ sortNats_perm b)

theorem mem_gpred {g : MGraph} {a b : Nat} : b ∈ g.pred a ↔ g.Adj b a := by
  unfold MGraph.pred MGraph.Adj
  simp only [List.mem_filterMap]
  constructor
  · rintro ⟨e, he, h⟩
    refine ⟨e, he, ?_⟩
    split at h
    · rename_i h1; simp at h; exact Or.inl ⟨h, h1⟩
    · split at h
      · rename_i h1 h2; simp at h; exact Or.inr ⟨h2.1, h2.2, h⟩
      · simp at h
  · rintro ⟨e, he, h⟩
    refine ⟨e, he, ?_⟩
    rcases h with ⟨h1, h2⟩ | ⟨h0, h1, h2⟩
    · simp [h1, h2]
    · by_cases hs : e.tgt = a
      · simp [hs]; rw [← h2, hs, ← h1]
      · have hba : ¬ b = a := fun hba => hs (h2.trans hba)
        simp [h0, h2, h1, hba]

/-! ### the graph line -/

theorem lookup_none_of_keys {α : Type} {l : List (Nat × α)} {L : List Nat} {a : Nat}
    (h : ∀ r ∈ l, r.1 ∈ L) (ha : a ∉ L) : l.lookup a = none := by
  induction l with
  | nil => rfl
  | cons r t ih =>
    obtain ⟨k, x⟩ := r
    have hk : k ∈ L := h (k, x) (List.mem_cons_self ..)
    have hne : (a == k) = false := by
      apply beq_false_of_ne
      intro hak; exact ha (hak ▸ hk)
    simp only [List.lookup, hne]
    exact ih fun r hr => h r (List.mem_cons_of_mem _ hr)

/-- what `viewOkB` establishes, conjunct by conjunct -/
structure ViewChecked (v : View) : Prop where
  directed : v.g.directed = true
  nodup : v.g.nodes.Nodup
  edgesLive : ∀ e ∈ v.g.edges, e.src ∈ v.g.nodes ∧ e.tgt ∈ v.g.nodes
  succDead : ∀ a, a ∉ v.g.nodes → v.succ a = []
  predDead : ∀ a, a ∉ v.g.nodes → v.pred a = []
  index : ∀ a ∈ v.g.nodes, a < v.nb
  fuelS : (v.g.nodes.map fun a => 1 + (v.succ a).length).sum + 1 ≤ dfsFuel v
  fuelP : (v.g.nodes.map fun a => 1 + (v.pred a).length).sum + 1 ≤ dfsFuel v
  fuelT : (v.g.nodes.map fun a => 1 + (v.succ a).length).sum + 2 ≤ tsFuel v
  succPerm : ∀ a ∈ v.g.nodes, (v.succ a).Perm (v.g.succ a)
  predPerm : ∀ a ∈ v.g.nodes, (v.pred a).Perm (v.g.pred a)

theorem viewChecked_of_viewOkB {v : View} (h : viewOkB v = true) : ViewChecked v := by
  unfold viewOkB at h
  simp only [Bool.and_eq_true] at h
  obtain ⟨⟨⟨⟨⟨⟨⟨hd, hn⟩, he⟩, hr⟩, hi⟩, hf⟩, ht⟩, ha⟩ := h
  have hrows : (∀ r ∈ v.out, r.1 ∈ v.g.nodes) ∧ (∀ r ∈ v.inn, r.1 ∈ v.g.nodes) := by
    unfold vRowsLive at hr
    simp only [Bool.and_eq_true, List.all_eq_true, List.contains_iff_mem] at hr
    exact hr
  refine ⟨hd, nodupB_sound _ hn, ?_, ?_, ?_, ?_, ?_, ?_, ?_, ?_, ?_⟩
  · unfold vEdgesLive at he
    simp only [List.all_eq_true, Bool.and_eq_true, List.contains_iff_mem] at he
    exact he
  · intro a ha'
    simp [View.succ, View.outOf, lookup_none_of_keys hrows.1 ha']
  · intro a ha'
    simp [View.pred, View.innOf, lookup_none_of_keys hrows.2 ha']
  · unfold vIndexBound at hi
    simpa only [List.all_eq_true, decide_eq_true_eq] using hi
  · unfold vDfsFuel at hf
    simp only [Bool.and_eq_true, decide_eq_true_eq] at hf
    exact hf.1
  · unfold vDfsFuel at hf
    simp only [Bool.and_eq_true, decide_eq_true_eq] at hf
    exact hf.2
  · unfold vTopoFuel at ht
    simpa only [decide_eq_true_eq] using ht
  · intro a ha'
    unfold vAdjacency at ha
    have := (List.all_eq_true.mp ha) a ha'
    simp only [Bool.and_eq_true] at this
    exact sameSet_perm this.1
  · intro a ha'
    unfold vAdjacency at ha
    have := (List.all_eq_true.mp ha) a ha'
    simp only [Bool.and_eq_true] at this
    exact sameSet_perm this.2

namespace ViewChecked
variable {v : View}

theorem adj_live (c : ViewChecked v) {a b : Nat} (h : v.g.Adj a b) : a ∈ v.g.nodes ∧ b ∈ v.g.nodes := by
  obtain ⟨e, he, h | h⟩ := h
  · exact ⟨h.1 ▸ (c.edgesLive e he).1, h.2 ▸ (c.edgesLive e he).2⟩
  · rw [c.directed] at h; cases h.1

theorem viewOk (c : ViewChecked v) : ViewOk v := by
  constructor
  · intro x y
    by_cases hx : x ∈ v.g.nodes
    · exact ((c.succPerm x hx).mem_iff).trans MGraph.mem_succ
    · rw [c.succDead x hx]
      exact ⟨fun h => (by cases h), fun h => absurd (c.adj_live h).1 hx⟩
  · intro x y
    by_cases hx : x ∈ v.g.nodes
    · exact ((c.predPerm x hx).mem_iff).trans mem_gpred
    · rw [c.predDead x hx]
      exact ⟨fun h => (by cases h), fun h => absurd (c.adj_live h).2 hx⟩

theorem closed (c : ViewChecked v) : Closed v := by
  intro x _
  exact ⟨fun y hy => (c.adj_live ((c.viewOk.1 x y).mp hy)).2, fun y hy => (c.adj_live ((c.viewOk.2 x y).mp hy)).1⟩

theorem srcLive (c : ViewChecked v) : ∀ x y, y ∈ v.succ x → x ∈ v.g.nodes := by
  intro x y hy
  exact (c.adj_live ((c.viewOk.1 x y).mp hy)).1

theorem tgtLive (c : ViewChecked v) : ∀ x y, y ∈ v.succ x → y ∈ v.g.nodes := by
  intro x y hy
  exact (c.adj_live ((c.viewOk.1 x y).mp hy)).2

theorem sum_one_add (f : Nat → Nat) : ∀ (L : List Nat),
    (L.map fun a => 1 + f a).sum = L.length + (L.map f).sum := by
  intro L
  induction L with
  | nil => rfl
  | cons x xs ih => simp only [List.map_cons, List.sum_cons, List.length_cons, ih]; omega

theorem dfsFuelOk (c : ViewChecked v) :
    ∀ dir, needL (fun x => (nbrs dir v x).length) [] v.g.nodes + 1 ≤ dfsFuel v := by
  intro dir
  rw [needL_nil_eq]
  cases dir with
  | fut =>
    have := c.fuelS
    rw [sum_one_add] at this
    simpa only [nbrs] using this
  | past =>
    have := c.fuelP
    rw [sum_one_add] at this
    simpa only [nbrs] using this

theorem topoFuelOk (c : ViewChecked v) :
    needL (fun x => (v.succ x).length) [] v.g.nodes + 2 ≤ tsFuel v := by
  rw [needL_nil_eq]
  have := c.fuelT
  rw [sum_one_add] at this
  exact this

end ViewChecked

/-! ### the state of the mirror model -/

theorem sortedB_sound : ∀ (m : PMap), sortedB m = true → Sorted m := by
  intro m
  induction m with
  | nil => intro _; exact List.Pairwise.nil
  | cons a t ih =>
    intro h
    cases t with
    | nil => exact List.pairwise_singleton _ _
    | cons b r =>
      simp only [sortedB, Bool.and_eq_true, decide_eq_true_eq] at h
      have hs : Sorted (b :: r) := ih h.2
      unfold Sorted at hs ⊢
      have hs1 := (List.pairwise_cons.mp hs).1
      rw [List.pairwise_cons]
      refine ⟨?_, hs⟩
      intro y hy
      rcases List.mem_cons.mp hy with rfl | hy
      · exact h.1
      · exact Nat.lt_trans h.1 (hs1 y hy)

theorem omInvB_sound {L : List Nat} {om : OrderMap} (h : omInvB L om = true) : OMInv L om := by
  unfold omInvB at h
  simp only [Bool.and_eq_true, List.all_eq_true, List.contains_iff_mem, beq_iff_eq] at h
  obtain ⟨⟨hs, hp⟩, hl⟩ := h
  refine ⟨sortedB_sound _ hs, ?_, ?_⟩
  · intro p n hpn
    exact hp (p, n) hpn
  · intro n hn
    have := hl n hn
    split at this
    · rename_i p hp'
      exact ⟨p, hp', List.contains_iff_mem.mp this⟩
    · cases this

theorem clearB_sound {s : AState} (h : clearB s = true) : Clear s := by
  unfold clearB at h
  simp only [Bool.and_eq_true, List.isEmpty_iff] at h
  exact h

theorem orderValidB_sound {v : View} {om : OrderMap} (hsrc : ∀ x y, y ∈ v.succ x → x ∈ v.g.nodes)
    (h : orderValidB v om = true) : OrderValid v om := by
  intro a b hb pa pb hpa hpb
  unfold orderValidB at h
  have := (List.all_eq_true.mp ((List.all_eq_true.mp h) a (hsrc a b hb))) b hb
  rw [getPos_ok hpa, getPos_ok hpb] at this
  simpa using this

/-- **`safeB` is sound**: on a checked graph line, a model state accepted by `safeB` satisfies
`Safe` — the hypotheses of every step / history / no-panic theorem. -/
theorem safe_of_checks {v : View} {s : AState} (hv : viewOkB v = true) (h : safeB v s = true) : Safe v s := by
  have c := viewChecked_of_viewOkB hv
  unfold safeB at h
  simp only [Bool.and_eq_true] at h
  exact ⟨⟨⟨omInvB_sound h.1.1, clearB_sound h.1.2, c.closed⟩, orderValidB_sound c.srcLive h.2, c.viewOk, c.srcLive⟩,
    c.index, c.dfsFuelOk⟩

/-! ### the inner-graph contracts -/

theorem sameMembers_iff {a b : List Nat} (h : sameMembers a b = true) : ∀ x, x ∈ a ↔ x ∈ b := by
  unfold sameMembers at h
  simp only [Bool.and_eq_true, List.all_eq_true, List.contains_iff_mem] at h
  exact fun x => ⟨h.1 x, h.2 x⟩

theorem removeContractB_sound {v v' : View} {n : Nat} (h : removeContractB v v' n = true) :
    RemoveContract v v' n := by
  unfold removeContractB at h
  simp only [Bool.or_eq_true, Bool.and_eq_true, List.all_eq_true, List.contains_iff_mem, bne_iff_ne, ne_eq,
    Bool.not_eq_true', beq_iff_eq, Bool.not_eq_eq_eq_not, Bool.not_true] at h
  rcases h with ⟨⟨h1, h2⟩, h3⟩ | ⟨⟨⟨⟨h1, h2⟩, h3⟩, h4⟩, h5⟩
  · left
    refine ⟨by simpa using h1, fun x => ⟨fun hx => h2 x hx, fun hx => ?_⟩⟩
    rcases h3 x hx.1 with h | h
    · exact absurd h hx.2
    · exact h
  · right
    refine ⟨h1, h2, h3, fun x => ⟨fun hx => h4 x hx, fun hx => ?_⟩⟩
    rcases h5 x hx.1 with h | h
    · exact absurd h hx.2
    · exact h

theorem allSucc_sound {v' : View} {p : Nat → Nat → Bool} (hsrc : ∀ x y, y ∈ v'.succ x → x ∈ v'.g.nodes)
    (h : allSucc v' p = true) : ∀ x y, y ∈ v'.succ x → p x y = true := by
  intro x y hy
  unfold allSucc at h
  exact (List.all_eq_true.mp ((List.all_eq_true.mp h) x (hsrc x y hy))) y hy

theorem rhoB_eq (v v' : View) (n z : Nat) : rhoB v v' n z = rho v v' n z := by
  unfold rhoB rho
  by_cases h1 : z = n <;> by_cases h2 : n ∈ v'.g.nodes <;> simp [h1, h2]

/-- the Boolean form of `Call.InnerOk v c` (given that the graph after the call passed `viewOkB`) -/
def innerOkB (v : View) : Call → Bool
  | .addNode i v' => viewOkB v' && innerAddNodeB v i v'
  | .edge a b v' => viewOkB v' && innerEdgeB v a b v'
  | .removeNode n v' => viewOkB v' && innerRemoveNodeB v n v'
  | .removeEdge v' => viewOkB v' && innerRemoveEdgeB v v'
  | .isValid a b => v.g.nodes.contains a && v.g.nodes.contains b

/-- the Boolean form of `EdgesOk v c` -/
def edgesOkB (v : View) : Call → Bool
  | .addNode _ v' => viewOkB v' && edgesSubB v v'
  | .edge a b v' => viewOkB v' && edgesEdgeB v a b v'
  | .removeNode n v' => viewOkB v' && edgesRemoveNodeB v n v'
  | .removeEdge v' => viewOkB v' && edgesSubB v v'
  | .isValid _ _ => true

theorem innerOk_of_check {v : View} {c : Call} (h : innerOkB v c = true) : c.InnerOk v := by
  cases c with
  | addNode i v' =>
    simp only [innerOkB, Bool.and_eq_true] at h
    have c' := viewChecked_of_viewOkB h.1
    have h2 := h.2
    unfold innerAddNodeB at h2
    simp only [Bool.and_eq_true, Bool.not_eq_true'] at h2
    refine ⟨by simpa using h2.1, fun x => ?_, c'.closed⟩
    rw [sameMembers_iff h2.2 x, List.mem_cons]
  | edge a b v' =>
    simp only [innerOkB, Bool.and_eq_true] at h
    have c' := viewChecked_of_viewOkB h.1
    have h2 := h.2
    unfold innerEdgeB at h2
    simp only [Bool.and_eq_true, List.contains_iff_mem, beq_iff_eq] at h2
    exact ⟨h2.1.1, h2.1.2, h2.2, c'.closed⟩
  | removeNode n v' =>
    simp only [innerOkB, Bool.and_eq_true] at h
    have c' := viewChecked_of_viewOkB h.1
    have h2 := h.2
    unfold innerRemoveNodeB at h2
    simp only [Bool.or_eq_true, Bool.not_eq_true'] at h2
    refine ⟨fun hn => ?_, c'.closed⟩
    rcases h2 with h2 | h2
    · exact absurd hn (by simpa using h2)
    · exact removeContractB_sound h2
  | removeEdge v' =>
    simp only [innerOkB, Bool.and_eq_true] at h
    have c' := viewChecked_of_viewOkB h.1
    have h2 := h.2
    unfold innerRemoveEdgeB at h2
    exact ⟨by simpa using h2, c'.closed⟩
  | isValid a b =>
    simp only [innerOkB, Bool.and_eq_true, List.contains_iff_mem] at h
    exact h

theorem edgesOk_of_check {v : View} {c : Call} (h : edgesOkB v c = true) : EdgesOk v c := by
  cases c with
  | addNode i v' =>
    simp only [edgesOkB, Bool.and_eq_true] at h
    have c' := viewChecked_of_viewOkB h.1
    refine ⟨fun x y hy => ?_, c'.viewOk, c'.srcLive⟩
    have := allSucc_sound c'.srcLive h.2 x y hy
    exact List.contains_iff_mem.mp this
  | edge a b v' =>
    simp only [edgesOkB, Bool.and_eq_true] at h
    have c' := viewChecked_of_viewOkB h.1
    refine ⟨fun x y hy => ?_, c'.viewOk, c'.srcLive⟩
    have := allSucc_sound c'.srcLive h.2 x y hy
    simp only [Bool.or_eq_true, List.contains_iff_mem, Bool.and_eq_true, beq_iff_eq] at this
    exact this
  | removeNode n v' =>
    simp only [edgesOkB, Bool.and_eq_true] at h
    have c' := viewChecked_of_viewOkB h.1
    refine ⟨fun x y hy => ?_, c'.viewOk, c'.srcLive⟩
    have := allSucc_sound c'.srcLive h.2 x y hy
    rw [rhoB_eq, rhoB_eq] at this
    exact List.contains_iff_mem.mp this
  | removeEdge v' =>
    simp only [edgesOkB, Bool.and_eq_true] at h
    have c' := viewChecked_of_viewOkB h.1
    refine ⟨fun x y hy => ?_, c'.viewOk, c'.srcLive⟩
    have := allSucc_sound c'.srcLive h.2 x y hy
    exact List.contains_iff_mem.mp this
  | isValid a b => trivial

/-- the extra hypothesis of `C14_no_panic_step` follows from the checks -/
theorem addNode_index_of_check {v : View} {c : Call} (h : innerOkB v c = true) :
    ∀ i v', c = .addNode i v' → i < v'.nb := by
  intro i v' hc
  subst hc
  have hi := innerOk_of_check h
  simp only [innerOkB, Bool.and_eq_true] at h
  exact (viewChecked_of_viewOkB h.1).index i ((hi.2.1 i).mpr (Or.inl rfl))

end PetgraphModel.AcyW4
