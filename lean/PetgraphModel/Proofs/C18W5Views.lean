import PetgraphModel.Proofs.C18W5Built
import PetgraphModel.Proofs.C06W2Graph
import PetgraphModel.Proofs.C06W3Stable
import PetgraphModel.Proofs.C06W2GraphMap
import PetgraphModel.Proofs.C06W2Matrix
import PetgraphModel.Proofs.C06W2Csr
/-
C18 (wave 5) — `graph6_string()` of every storage type that implements `ToGraph6`, under the type's representation
invariant: the string is the format's encoding of the abstract graph `Visit.abs (table s)` (nodes = `node_identifiers`,
edges = `edge_references`) in node-iteration order.  Each theorem is `graph6OfTable_spec` applied to the `is_adjacent`
clause of C06 for that type (`g_adj`, `st_adj`, `gm_adj`, `MXProofs.adj_ok`, `CsrW2.csr_adjOk`), which in turn rest on the
extracted bit positions and widths of `Extracted/AdjWidth.lean`.
-/
namespace PetgraphModel.G6V
open PetgraphModel PetgraphModel.Visit PetgraphModel.G6P

/-- the right-hand side of all five theorems -/
def specString (t : Table) (n : Nat) : Option (List Char) :=
  if n ≤ 258047 then some ((Spec.Graph6.graph6 n (absAdj t)).map Char.ofNat) else none

theorem graph6Graph_spec (s : G.State) (h : GProofs.Inv s) :
    graph6Graph s = specString (graphTable s) s.nodes.length := by
  have := graph6OfTable_spec (graphTable s) (List.range s.nodes.length) _ _ rfl rfl rfl (g_adj s h)
  rw [List.length_range] at this
  exact this

theorem graph6Stable_spec (s : SG.State) (h : SGProofs.Inv s) :
    graph6Stable s = specString (stableTable s) (SG.nodeIndices s).length :=
  graph6OfTable_spec (stableTable s) (SG.nodeIndices s) _ _ rfl rfl rfl (SGW3.st_adj s h)

theorem graph6GraphMap_spec (s : GM.State) (h : GMProofs.Inv s) :
    graph6GraphMap s = specString (graphMapTable s) (GM.nodesOf s).length :=
  graph6OfTable_spec (graphMapTable s) (GM.nodesOf s) _ _ rfl rfl rfl (gm_adj s h)

/-- `MatrixGraph`: `is_adjacent` is `has_edge` on the stored matrix, no bitmap is built; no invariant is needed -/
theorem graph6Matrix_spec (s : Matrix.State) :
    graph6Matrix s = specString (matrixTable s) s.nodes.ids.length :=
  graph6OfTable_spec (matrixTable s) s.nodes.ids _ _ rfl rfl rfl MXProofs.adj_ok

theorem graph6Csr_spec (s : CsrM.State) (R : List CsrProofs.Row) (good : CsrProofs.Good s R) (hf : CsrW2.IxFits s) :
    graph6Csr s = specString (csrTable s) (CsrM.nodeIdentifiers s).length := by
  unfold graph6Csr
  rw [if_pos (CsrW2.csr_callsOk good hf).2.1]
  exact graph6OfTable_spec (csrTable s) (CsrM.nodeIdentifiers s) _ _ rfl rfl rfl (CsrW2.csr_adjOk good hf)

end PetgraphModel.G6V
