import PetgraphModel.Proofs.GraphRefine
import PetgraphModel.Proofs.GraphRemove
/-
C01, wave 2 — the stamp-carrying refinement relation.

Stage 1 (`GraphRefine.lean`) abstracts a model state with "stamp of an edge = its index", which is
only right while nothing has been removed (`swap_remove` renumbers).  Here the abstraction carries an
explicit ghost stamp per edge index (`st : Nat → Nat`) and the specification's clock:
`absG s st c`.  The order invariant `SD` says that every stored edge-to-edge link points to an edge
with a *smaller stamp*; together with `Inv` every adjacency chain is then the enumeration of the
incident edges in descending stamp order — exactly `CGS.select`, also after removals.
-/
namespace PetgraphModel.GProofs
open PetgraphModel PetgraphModel.G

/-! ### the abstraction with ghost stamps -/

def absEdgeG (st : Nat → Nat) (i : Nat) (e : Edge) : CGS.SEdge := ⟨e.src, e.tgt, e.weight, st i⟩

/-- abstraction: forget the links; the stamp of the edge at index `i` is `st i`, the clock is `ck` -/
def absG (s : State) (st : Nat → Nat) (ck : Nat) : CGS.Spec :=
  { cap := s.endv, directed := s.directed, nodes := s.nodes.map (·.weight),
    edges := List.zipWith (absEdgeG st) (List.range s.edges.length) s.edges,
    clock := ck }

theorem abs_eq_absG (s : State) : abs s = absG s id s.edges.length := rfl

theorem absG_edges_length (s : State) (st : Nat → Nat) (ck : Nat) : (absG s st ck).edges.length = s.edges.length := by
  simp [absG]

theorem absG_nodes_length (s : State) (st : Nat → Nat) (ck : Nat) : (absG s st ck).nodes.length = s.nodes.length := by
  simp [absG]

theorem absG_edges_get (s : State) (st : Nat → Nat) (ck : Nat) (i : Nat) :
    (absG s st ck).edges[i]? = (s.edges[i]?).map (absEdgeG st i) := by
  simp only [absG]
  exact zipWith_range_getElem? (absEdgeG st) s.edges i

theorem absG_nodes_get (s : State) (st : Nat → Nat) (ck : Nat) (i : Nat) :
    (absG s st ck).nodes[i]? = (s.nodes[i]?).map (·.weight) := by
  simp [absG]

theorem edgeAt_absG {s : State} {st : Nat → Nat} {ck : Nat} {e : Nat} {ed : Edge} (he : s.edges[e]? = some ed) :
    CGS.edgeAt (absG s st ck) e = absEdgeG st e ed := by
  simp [CGS.edgeAt, absG_edges_get, he]

theorem eq_absG_of {sp : CGS.Spec} {s : State} {st : Nat → Nat} {ck : Nat}
    (hc : sp.cap = s.endv) (hd : sp.directed = s.directed)
    (hn : sp.nodes = s.nodes.map (·.weight))
    (he : ∀ i, sp.edges[i]? = (s.edges[i]?).map (absEdgeG st i)) (hk : sp.clock = ck) : sp = absG s st ck := by
  have hedges : sp.edges = (absG s st ck).edges := by
    apply List.ext_getElem?
    intro i; rw [he, absG_edges_get]
  cases sp
  simp only [absG] at *
  subst hc hd hn hk
  simp [hedges]

/-- only the stamps of live indices matter -/
theorem absG_congr (s : State) {st st' : Nat → Nat} (ck : Nat) (h : ∀ i, i < s.edges.length → st i = st' i) :
    absG s st ck = absG s st' ck := by
  apply eq_absG_of rfl rfl rfl _ rfl
  intro i
  rw [absG_edges_get]
  cases hi : s.edges[i]? with
  | none => rfl
  | some ed =>
    have := h i (lt_of_getElem? hi)
    simp [absEdgeG, this]

/-- the (src, tgt, weight) content of the abstraction is the model's -/
theorem absG_content (s : State) (st : Nat → Nat) (ck : Nat) :
    (absG s st ck).edges.map (fun e => (e.src, e.tgt, e.weight)) = s.edges.map (fun e => (e.src, e.tgt, e.weight)) := by
  apply List.ext_getElem?
  intro i
  simp only [List.getElem?_map, absG_edges_get, Option.map_map]
  cases s.edges[i]? <;> simp [absEdgeG]

/-! ### the order invariant -/

/-- every stored edge-to-edge link that points to a live edge points to a smaller stamp -/
def SD (edges : List Edge) (st : Nat → Nat) : Prop :=
  ∀ (x : Nat) (xd : Edge) (k : Bool), edges[x]? = some xd → xd.next k < edges.length → st (xd.next k) < st x

/-- the refinement invariant: representation invariant, stamp order, stamps below the clock -/
structure RInv (s : State) (st : Nat → Nat) (ck : Nat) : Prop where
  inv : Inv s
  sd : SD s.edges st
  lt : ∀ i, i < s.edges.length → st i < ck

theorem sd_of_desc {s : State} (h : Inv s) (hd : Desc s) : SD s.edges id := by
  intro x xd k hx hlt
  rcases hd x xd hx k with h1 | h1
  · have := h.szE; omega
  · exact h1

/-- a state without removals in its past, with "stamp = index" -/
theorem rinv_of_inv1 {s : State} (h : Inv1 s) : RInv s id s.edges.length :=
  ⟨h.1, sd_of_desc h.1 h.2, fun _ hi => hi⟩

theorem RInv.congr {s : State} {st st' : Nat → Nat} {ck : Nat} (h : RInv s st ck)
    (hst : ∀ i, i < s.edges.length → st i = st' i) : RInv s st' ck := by
  refine ⟨h.inv, ?_, fun i hi => by rw [← hst i hi]; exact h.lt i hi⟩
  intro x xd k hx hlt
  rw [← hst _ hlt, ← hst _ (lt_of_getElem? hx)]
  exact h.sd x xd k hx hlt

theorem sd_of_sameLinks {s s' : State} {st : Nat → Nat} (h : SD s.edges st) (hs : SameLinks s s') : SD s'.edges st := by
  intro x xd' k hx hlt
  obtain ⟨xd, hxd, hf⟩ := map_eq_getElem? hs.edges x hx
  simp only [edgeLinks, Prod.mk.injEq] at hf
  have hk : xd'.next k = xd.next k := by cases k <;> simp [Edge.next, hf.1, hf.2.1]
  rw [hk]
  rw [hs.elen, hk] at hlt
  exact h x xd k hxd hlt

theorem rinv_of_sameLinks {s s' : State} {st : Nat → Nat} {ck : Nat} (h : RInv s st ck) (hs : SameLinks s s') :
    RInv s' st ck :=
  ⟨inv_of_sameLinks h.inv hs, sd_of_sameLinks h.sd hs, fun i hi => h.lt i (by rw [← hs.elen]; exact hi)⟩

theorem rinv_setDirected {s : State} {st : Nat → Nat} {ck : Nat} (h : RInv s st ck) (d : Bool) :
    RInv { s with directed := d } st ck :=
  ⟨inv_setDirected h.inv d, h.sd, h.lt⟩

/-- along a chain the stamps strictly decrease -/
theorem IsList.sorted_of_sd {edges : List Edge} {k endv h l} {st : Nat → Nat} (hsz : edges.length ≤ endv)
    (hd : SD edges st) (hl : IsList edges k endv h l) :
    l.Pairwise (fun a b => st a > st b) := by
  induction hl with
  | nil => exact List.Pairwise.nil
  | @cons e l ed he htl ih =>
    refine List.pairwise_cons.mpr ⟨?_, ih⟩
    -- every element of the tail has a stamp below the head of the tail, which is below `e`
    cases htl with
    | nil => intro x hx; cases hx
    | @cons _ t ed' he' htl' =>
      have hlt := lt_of_getElem? he'
      have h1 : st (ed.next k) < st e := hd e ed k he hlt
      intro x hx
      rcases List.mem_cons.mp hx with rfl | hx
      · exact h1
      · have := (List.pairwise_cons.mp ih).1 x hx
        omega

/-! ### the specification's selections on `absG s st ck` -/

/-- a total, transitive version of the comparison used by `CGS.select` -/
def stLE (st : Nat → Nat) (i j : Nat) : Bool := decide (st i ≥ st j)

theorem select_absG_perm (s : State) (st : Nat → Nat) (ck : Nat) (p : CGS.SEdge → Bool) :
    ∃ idx : List Nat, CGS.select (absG s st ck) p = idx.mergeSort (stLE st) ∧ idx.Nodup ∧
      ∀ e, e ∈ idx ↔ ∃ ed, s.edges[e]? = some ed ∧ p (absEdgeG st e ed) = true := by
  refine ⟨(List.range s.edges.length).reverse.filter (fun i =>
      match s.edges[i]? with
      | some e => p (absEdgeG st i e)
      | none => false), ?_, ?_, ?_⟩
  · unfold CGS.select
    simp only [absG_edges_length]
    have key : ∀ (A B : List Nat) (le1 : Nat → Nat → Bool), A = B →
        (∀ a ∈ B, ∀ b ∈ B, le1 a b = stLE st a b) → A.mergeSort le1 = B.mergeSort (stLE st) := by
      intro A B le1 hAB hle
      subst hAB
      have := List.map_mergeSort (f := id) hle
      simpa using this
    apply key
    · apply List.filter_congr
      intro i _
      rw [absG_edges_get]
      cases s.edges[i]? <;> rfl
    · intro a ha b hb
      have ha' : a < s.edges.length := by
        have := (List.mem_filter.mp ha).1; simpa using this
      have hb' : b < s.edges.length := by
        have := (List.mem_filter.mp hb).1; simpa using this
      rw [absG_edges_get, absG_edges_get, List.getElem?_eq_getElem ha', List.getElem?_eq_getElem hb']
      simp [absEdgeG, stLE]
  · apply List.Nodup.filter
    rw [List.nodup_reverse]
    exact List.nodup_range
  · intro e
    simp only [List.mem_filter, List.mem_reverse, List.mem_range]
    constructor
    · rintro ⟨_, h⟩
      split at h
      · rename_i ed hed; exact ⟨ed, hed, h⟩
      · cases h
    · rintro ⟨ed, hed, hp⟩
      exact ⟨lt_of_getElem? hed, by simp [hed, hp]⟩

theorem pairwise_mem_or {α : Type} {R : α → α → Prop} {l : List α} (h : l.Pairwise R) {a b : α}
    (ha : a ∈ l) (hb : b ∈ l) (hne : a ≠ b) : R a b ∨ R b a := by
  induction h with
  | nil => cases ha
  | @cons x t hx _ ih =>
    rcases List.mem_cons.mp ha with rfl | ha' <;> rcases List.mem_cons.mp hb with rfl | hb'
    · exact absurd rfl hne
    · exact Or.inl (hx b hb')
    · exact Or.inr (hx a ha')
    · exact ih ha' hb'

/-- a duplicate-free list of exactly the selected edges in strictly descending stamp order *is* the
specification's selection -/
theorem select_absG_eq {s : State} {st : Nat → Nat} {ck : Nat} {p : CGS.SEdge → Bool} {l : List Nat}
    (hnd : l.Nodup) (hmem : ∀ e, e ∈ l ↔ ∃ ed, s.edges[e]? = some ed ∧ p (absEdgeG st e ed) = true)
    (hsorted : l.Pairwise (fun a b => st a > st b)) : CGS.select (absG s st ck) p = l := by
  obtain ⟨idx, hsel, hidx, hmi⟩ := select_absG_perm s st ck p
  rw [hsel]
  have hperm : (idx.mergeSort (stLE st)).Perm l := by
    refine (List.mergeSort_perm idx _).trans ?_
    apply (List.perm_ext_iff_of_nodup hidx hnd).mpr
    intro e; rw [hmi e, hmem e]
  have hsort1 : (idx.mergeSort (stLE st)).Pairwise (fun a b => st a ≥ st b) := by
    have := List.pairwise_mergeSort (le := stLE st)
      (fun a b ck h1 h2 => by simp only [stLE, decide_eq_true_eq] at *; omega)
      (fun a b => by simp only [stLE, Bool.or_eq_true, decide_eq_true_eq]; omega) idx
    exact this.imp (fun h => by simpa [stLE] using h)
  have hsort2 : l.Pairwise (fun a b => st a ≥ st b) := hsorted.imp (fun h => Nat.le_of_lt h)
  -- distinct members of `l` have distinct stamps
  have hinj : ∀ a b, a ∈ l → b ∈ l → st a = st b → a = b := by
    intro a b ha hb hab
    by_contra hne
    rcases pairwise_mem_or hsorted ha hb hne with h | h <;> omega
  refine List.Perm.eq_of_pairwise (le := fun a b => st a ≥ st b) ?_ hsort1 hsort2 hperm
  intro a b ha hb h1 h2
  exact hinj a b (hperm.mem_iff.mp ha) hb (by omega)


/-- under `RInv` the walk from a node head is the specification's selection (descending stamps) -/
theorem RInv.chain_select {s : State} {st : Nat → Nat} {ck : Nat} (h : RInv s st ck) (k : Bool) (i : Nat) (nd : Node)
    (hnd : s.nodes[i]? = some nd) :
    ∃ c, chain s.edges k s.fuel (nd.next k) = .ok c ∧
      c.map Prod.fst = (if k then CGS.inEdges (absG s st ck) i else CGS.outEdges (absG s st ck) i) ∧
      (∀ p ∈ c, s.edges[p.1]? = some p.2 ∧ p.2.node k = i) ∧
      IsList s.edges k s.endv (nd.next k) (c.map Prod.fst) := by
  obtain ⟨adj, hl, hn, hm⟩ := h.inv.lists
  have hlen : (adj k i).length < s.fuel := by
    have : (adj k i).length ≤ s.edges.length :=
      nodup_length_le (hn k i) (fun e he => by
        obtain ⟨ed, hed, _⟩ := (hm k i e).mp he; exact lt_of_getElem? hed)
    simp [State.fuel]; omega
  obtain ⟨c, hc, hmap, hslots⟩ := chain_of_isList h.inv.szE s.fuel _ _ (hl k i nd hnd) hlen
  have hsorted := (hl k i nd hnd).sorted_of_sd h.inv.szE h.sd
  refine ⟨c, hc, ?_, ?_, by rw [hmap]; exact hl k i nd hnd⟩
  · rw [hmap]
    cases k with
    | true =>
      simp only [if_true]
      symm
      apply select_absG_eq (hn true i) _ hsorted
      intro e; rw [hm true i e]
      constructor
      · rintro ⟨ed, hed, hk⟩; exact ⟨ed, hed, by simpa [absEdgeG, Edge.node] using hk⟩
      · rintro ⟨ed, hed, hk⟩; exact ⟨ed, hed, by simpa [absEdgeG, Edge.node] using hk⟩
    | false =>
      simp only [Bool.false_eq_true, if_false]
      symm
      apply select_absG_eq (hn false i) _ hsorted
      intro e; rw [hm false i e]
      constructor
      · rintro ⟨ed, hed, hk⟩; exact ⟨ed, hed, by simpa [absEdgeG, Edge.node] using hk⟩
      · rintro ⟨ed, hed, hk⟩; exact ⟨ed, hed, by simpa [absEdgeG, Edge.node] using hk⟩
  · intro p hp
    refine ⟨hslots p hp, ?_⟩
    have : p.1 ∈ adj k i := by rw [← hmap]; exact List.mem_map_of_mem hp
    obtain ⟨ed, hed, hk⟩ := (hm k i p.1).mp this
    rw [hslots p hp] at hed; cases hed
    exact hk

/-- out- and in-chains of a live node, in the specification's vocabulary -/
theorem RInv.chains {s : State} {st : Nat → Nat} {ck : Nat} (h : RInv s st ck) {a : Nat} {nd : Node} (hnd : s.nodes[a]? = some nd) :
    ∃ c0 c1, chain s.edges false s.fuel nd.next0 = .ok c0 ∧ chain s.edges true s.fuel nd.next1 = .ok c1 ∧
      c0.map Prod.fst = CGS.outEdges (absG s st ck) a ∧ c1.map Prod.fst = CGS.inEdges (absG s st ck) a ∧
      (∀ p ∈ c0, s.edges[p.1]? = some p.2 ∧ p.2.src = a) ∧ (∀ p ∈ c1, s.edges[p.1]? = some p.2 ∧ p.2.tgt = a) := by
  obtain ⟨c0, hc0, hm0, hs0, _⟩ := h.chain_select false a nd hnd
  obtain ⟨c1, hc1, hm1, hs1, _⟩ := h.chain_select true a nd hnd
  simp only [Node.next, Bool.false_eq_true, if_false] at hc0 hm0
  simp only [Node.next, if_true] at hc1 hm1
  refine ⟨c0, c1, hc0, hc1, hm0, hm1, ?_, ?_⟩
  · intro p hp; have := hs0 p hp; simpa [Edge.node] using this
  · intro p hp; have := hs1 p hp; simpa [Edge.node] using this

theorem out_partG {s : State} {st : Nat → Nat} {ck : Nat} {c0 : List (Nat × Edge)} (hs0 : ∀ p ∈ c0, s.edges[p.1]? = some p.2) :
    c0.map (fun p => (p.1, p.2.tgt)) = (c0.map Prod.fst).map fun e => (e, (CGS.edgeAt (absG s st ck) e).tgt) :=
  map_slots hs0 _ _ (fun e ed he => by simp [edgeAt_absG he, absEdgeG])

theorem in_partG {s : State} {st : Nat → Nat} {ck : Nat} {c1 : List (Nat × Edge)} (hs1 : ∀ p ∈ c1, s.edges[p.1]? = some p.2) :
    c1.map (fun p => (p.1, p.2.src)) = (c1.map Prod.fst).map fun e => (e, (CGS.edgeAt (absG s st ck) e).src) :=
  map_slots hs1 _ _ (fun e ed he => by simp [edgeAt_absG he, absEdgeG])

theorem in_part_filterG {s : State} {st : Nat → Nat} {ck : Nat} {c1 : List (Nat × Edge)} (hs1 : ∀ p ∈ c1, s.edges[p.1]? = some p.2) (a : Nat) :
    (c1.filter (fun p => p.2.src != a)).map (fun p => (p.1, p.2.src)) =
      (((c1.map Prod.fst).map fun e => (e, (CGS.edgeAt (absG s st ck) e).src)).filter fun p => p.2 != a) := by
  rw [← in_partG (st := st) (ck := ck) hs1, List.filter_map]
  rfl

/-- `neighbors_directed` / `neighbors_undirected` (and the detached walkers started from them) list
exactly the specification's `nbr`, in the specification's order -/
theorem RInv.neighborsUndirected_eq {s : State} {st : Nat → Nat} {ck : Nat} (h : RInv s st ck) (a : Nat) :
    neighborsUndirected s a = .ok (CGS.nbr (absG s st ck) a 2) := by
  by_cases ha : s.nodes.length ≤ a
  · rw [h.inv.neighborsUndirected_absent ha]
    simp [CGS.nbr, absG_nodes_length, ha]
  · have ha' : a < s.nodes.length := by omega
    have hnd := List.getElem?_eq_getElem ha'
    obtain ⟨c0, c1, hc0, hc1, hm0, hm1, hs0', hs1'⟩ := h.chains hnd
    have hs0 : ∀ p ∈ c0, s.edges[p.1]? = some p.2 := fun p hp => (hs0' p hp).1
    have hs1 : ∀ p ∈ c1, s.edges[p.1]? = some p.2 := fun p hp => (hs1' p hp).1
    have hh : heads s a = (s.nodes[a].next0, s.nodes[a].next1) := by simp [heads, hnd]
    unfold neighborsUndirected nbrIter
    simp only [hh, hc0, hc1]
    have hge : ¬ a ≥ (absG s st ck).nodes.length := by rw [absG_nodes_length]; omega
    simp only [CGS.nbr, hge, if_false]
    rw [out_partG (st := st) (ck := ck) hs0, in_part_filterG (st := st) (ck := ck) hs1 a, hm0, hm1]
    split <;> simp

theorem RInv.neighborsDirected_eq {s : State} {st : Nat → Nat} {ck : Nat} (h : RInv s st ck) (a : Nat) (k : Bool) :
    neighborsDirected s a k = .ok (CGS.nbr (absG s st ck) a (if k then 1 else 0)) := by
  by_cases ha : s.nodes.length ≤ a
  · rw [h.inv.neighborsDirected_absent k ha]
    simp [CGS.nbr, absG_nodes_length, ha]
  · have ha' : a < s.nodes.length := by omega
    have hnd := List.getElem?_eq_getElem ha'
    obtain ⟨c0, c1, hc0, hc1, hm0, hm1, hs0', hs1'⟩ := h.chains hnd
    have hs0 : ∀ p ∈ c0, s.edges[p.1]? = some p.2 := fun p hp => (hs0' p hp).1
    have hs1 : ∀ p ∈ c1, s.edges[p.1]? = some p.2 := fun p hp => (hs1' p hp).1
    have hh : heads s a = (s.nodes[a].next0, s.nodes[a].next1) := by simp [heads, hnd]
    have hge : ¬ a ≥ (absG s st ck).nodes.length := by rw [absG_nodes_length]; omega
    have hend : ∀ k f, chain s.edges k (f + 1) s.endv = .ok [] := fun k f => h.inv.chain_end k f
    unfold neighborsDirected nbrIter
    simp only [hh, State.fuel, hend] 
    simp only [State.fuel] at hc0 hc1
    simp only [hc0, hc1]
    simp only [CGS.nbr, hge, if_false]
    have hdir : (absG s st ck).directed = s.directed := rfl
    rw [hdir]
    cases hd : s.directed with
    | false =>
      simp only [Bool.false_eq_true, if_false]
      rw [out_partG (st := st) (ck := ck) hs0, in_part_filterG (st := st) (ck := ck) hs1 a, hm0, hm1]
    | true =>
      simp only [if_true]
      cases k with
      | false =>
        simp only [Bool.false_eq_true, if_false, List.filter_nil, List.map_nil, List.append_nil]
        rw [out_partG (st := st) (ck := ck) hs0, hm0]
        simp
      | true =>
        simp only [if_true, List.map_nil, List.nil_append]
        have hfil : c1.filter (fun p => p.2.src != s.endv) = c1 := by
          apply List.filter_eq_self.mpr
          intro p hp
          have := (h.inv.src_ne_end (hs1 p hp)).1
          simpa using this
        rw [hfil, in_partG (st := st) (ck := ck) hs1, hm1]
        simp


theorem refs_plainG {s : State} {st : Nat → Nat} {ck : Nat} {c : List (Nat × Edge)} (hs : ∀ p ∈ c, s.edges[p.1]? = some p.2) :
    c.map (mkRef false) = (c.map Prod.fst).map fun e =>
      toERef (let ed := CGS.edgeAt (absG s st ck) e; ⟨e, ed.src, ed.tgt, ed.weight⟩) :=
  map_slots hs _ _ (fun e ed he => by simp [edgeAt_absG he, absEdgeG, mkRef, toERef])

/-- `edges_directed` lists exactly the specification's `refs` -/
theorem RInv.edgesDirected_eq {s : State} {st : Nat → Nat} {ck : Nat} (h : RInv s st ck) (a : Nat) (dir : Bool) :
    edgesDirected s a dir = .ok ((CGS.refs (absG s st ck) a dir).map toERef) := by
  by_cases ha : s.nodes.length ≤ a
  · rw [h.inv.edgesDirected_absent dir ha]
    simp [CGS.refs, absG_nodes_length, ha]
  · have ha' : a < s.nodes.length := by omega
    have hnd := List.getElem?_eq_getElem ha'
    obtain ⟨c0, c1, hc0, hc1, hm0, hm1, hs0', hs1'⟩ := h.chains hnd
    have hs0 : ∀ p ∈ c0, s.edges[p.1]? = some p.2 := fun p hp => (hs0' p hp).1
    have hs1 : ∀ p ∈ c1, s.edges[p.1]? = some p.2 := fun p hp => (hs1' p hp).1
    have hh : heads s a = (s.nodes[a].next0, s.nodes[a].next1) := by simp [heads, hnd]
    have hge : ¬ a ≥ (absG s st ck).nodes.length := by rw [absG_nodes_length]; omega
    have hdir : (absG s st ck).directed = s.directed := rfl
    unfold edgesDirected
    simp only [hh, hc0, hc1]
    simp only [CGS.refs, hge, if_false, hdir]
    cases hd : s.directed with
    | true =>
      simp only [if_true]
      cases dir with
      | false =>
        simp only [Bool.false_eq_true, if_false]
        rw [refs_plainG (st := st) (ck := ck) hs0, hm0, List.map_map]; rfl
      | true =>
        simp only [if_true]
        rw [refs_plainG (st := st) (ck := ck) hs1, hm1, List.map_map]; rfl
    | false =>
      simp only [Bool.false_eq_true, if_false]
      have hnbr : CGS.nbr (absG s st ck) a 2 =
          c0.map (fun p => (p.1, p.2.tgt)) ++ (c1.filter (fun p => p.2.src != a)).map (fun p => (p.1, p.2.src)) := by
        simp only [CGS.nbr, hge, if_false, hdir, hd]
        rw [out_partG (st := st) (ck := ck) hs0, in_part_filterG (st := st) (ck := ck) hs1 a, hm0, hm1]
        simp
      rw [hnbr]
      simp only [List.map_append, List.map_map]
      congr 2
      · apply List.map_congr_left
        intro p hp
        have he := hs0 p hp
        have ha0 := (hs0' p hp).2
        cases dir <;> simp [mkRef, toERef, edgeAt_absG he, absEdgeG, ha0]
      · apply List.map_congr_left
        intro p hp
        have hp' := List.mem_of_mem_filter hp
        have he := hs1 p hp'
        have ha1 := (hs1' p hp').2
        cases dir <;> simp [mkRef, toERef, edgeAt_absG he, absEdgeG, ha1]

theorem RInv.edgesConnecting_eq {s : State} {st : Nat → Nat} {ck : Nat} (h : RInv s st ck) (a b : Nat) :
    edgesConnecting s a b = .ok ((CGS.connecting (absG s st ck) a b).map toERef) := by
  unfold edgesConnecting CGS.connecting
  rw [h.edgesDirected_eq a false]
  simp only [List.filter_map]
  rfl

theorem absG_edges_all (s : State) (st : Nat → Nat) (ck : Nat) (p : CGS.SEdge → Bool) :
    (absG s st ck).edges.all p = true ↔ ∀ (e : Nat) (ed : Edge), s.edges[e]? = some ed → p (absEdgeG st e ed) = true := by
  rw [List.all_eq_true]
  constructor
  · intro hall e ed hed
    apply hall
    apply List.mem_iff_getElem?.mpr
    exact ⟨e, by rw [absG_edges_get, hed]; rfl⟩
  · intro hall x hx
    obtain ⟨e, he⟩ := List.mem_iff_getElem?.mp hx
    rw [absG_edges_get] at he
    cases hed : s.edges[e]? with
    | none => rw [hed] at he; cases he
    | some ed =>
      rw [hed] at he
      simp at he
      rw [← he]
      exact hall e ed hed

theorem absG_edges_any (s : State) (st : Nat → Nat) (ck : Nat) (p : CGS.SEdge → Bool) :
    (absG s st ck).edges.any p = true ↔ ∃ (e : Nat) (ed : Edge), s.edges[e]? = some ed ∧ p (absEdgeG st e ed) = true := by
  rw [List.any_eq_true]
  constructor
  · rintro ⟨x, hx, hp⟩
    obtain ⟨e, he⟩ := List.mem_iff_getElem?.mp hx
    rw [absG_edges_get] at he
    cases hed : s.edges[e]? with
    | none => rw [hed] at he; cases he
    | some ed =>
      rw [hed] at he
      simp at he
      exact ⟨e, ed, hed, by rw [he]; exact hp⟩
  · rintro ⟨e, ed, hed, hp⟩
    exact ⟨absEdgeG st e ed, List.mem_iff_getElem?.mpr ⟨e, by rw [absG_edges_get, hed]; rfl⟩, hp⟩

/-- `externals(dir)` is the specification's list of nodes without out- / in- / any edges -/
theorem Inv.externals_eqG {s : State} (h : Inv s) (st : Nat → Nat) (ck : Nat) (k : Bool) : externals s k = CGS.externals (absG s st ck) k := by
  unfold externals CGS.externals
  rw [absG_nodes_length]
  apply List.filter_congr
  intro i hi
  have hi' : i < s.nodes.length := List.mem_range.mp hi
  have hnd := List.getElem?_eq_getElem hi'
  rw [hnd]
  have hk := h.head_end_iff k hnd
  have hnk := h.head_end_iff (!k) hnd
  have hdir : (absG s st ck).directed = s.directed := rfl
  rw [Bool.eq_iff_iff]
  simp only [Bool.and_eq_true, Bool.or_eq_true, beq_iff_eq, hk, hnk, absG_edges_all, hdir]
  cases hd : s.directed with
  | true =>
    simp only [true_or, and_true, if_true]
    constructor
    · intro hno e ed hed
      have := hno e ed hed
      cases k <;> simpa [absEdgeG, Edge.node] using this
    · intro hno e ed hed
      have := hno e ed hed
      cases k <;> simpa [absEdgeG, Edge.node] using this
  | false =>
    simp only [Bool.false_eq_true, false_or, if_false]
    constructor
    · rintro ⟨h1, h2⟩ e ed hed
      have a1 := h1 e ed hed
      have a2 := h2 e ed hed
      cases k <;> simp [absEdgeG, Edge.node] at a1 a2 ⊢ <;> exact ⟨by assumption, by assumption⟩
    · intro hno
      constructor
      · intro e ed hed
        have := hno e ed hed
        cases k <;> simp [absEdgeG, Edge.node] at this ⊢ <;> simp [this]
      · intro e ed hed
        have := hno e ed hed
        cases k <;> simp [absEdgeG, Edge.node] at this ⊢ <;> simp [this]

theorem hasEdge_absG (s : State) (st : Nat → Nat) (ck : Nat) (a b : Nat) : CGS.hasEdge (absG s st ck) a b = true ↔ ∃ e, Connects s a b e := by
  unfold CGS.hasEdge
  rw [absG_edges_any]
  have hdir : (absG s st ck).directed = s.directed := rfl
  constructor
  · rintro ⟨e, ed, hed, hp⟩
    refine ⟨e, ed, hed, ?_⟩
    simp only [CGS.connects, absEdgeG, hdir, Bool.or_eq_true, Bool.and_eq_true, beq_iff_eq, Bool.not_eq_true'] at hp
    rcases hp with hp | hp
    · exact Or.inl hp
    · exact Or.inr ⟨hp.1.1, hp.1.2, hp.2⟩
  · rintro ⟨e, ed, hed, hc⟩
    refine ⟨e, ed, hed, ?_⟩
    simp only [CGS.connects, absEdgeG, hdir, Bool.or_eq_true, Bool.and_eq_true, beq_iff_eq, Bool.not_eq_true']
    rcases hc with hc | ⟨h1, h2, h3⟩
    · exact Or.inl hc
    · exact Or.inr ⟨⟨h1, h2⟩, h3⟩

/-! ### the specification relation for *all* calls

`normMode`, `spNext`, `SpecAccepts2` and `SpecRun2` are defined in `Spec/CompactGraphAccepts.lean`
(the trusted specification lives under `Spec/`); here are the lemmas about them. -/

theorem specAccepts2_of_core {sp sp' : CGS.Spec} {op : Op} {o : Out} (hc : isCore op = true)
    (h : SpecAccepts sp op o sp') : SpecAccepts2 sp op o sp' := by
  cases op <;> simp only [isCore] at hc <;> first | exact h | cases hc

/-- a stage-1 run is a run of the extended relation -/
theorem specRun2_of_specRun {sp sp' : CGS.Spec} {ops : List Op} {os : List Out}
    (hall : ∀ op ∈ ops, isCore op = true) (h : SpecRun sp ops os sp') : SpecRun2 sp ops os sp' := by
  induction h with
  | nil sp => exact SpecRun2.nil sp
  | cons hacc _ ih =>
    exact SpecRun2.cons (specAccepts2_of_core (hall _ (List.mem_cons_self ..)) hacc)
      (ih (fun o ho => hall o (List.mem_cons_of_mem _ ho)))

/-- what one call has to establish: an answer the specification accepts and a successor state that
again abstracts (with some stamps) to the specification's successor -/
def StepOK (s : State) (st : Nat → Nat) (ck : Nat) (op : Op) : Prop :=
  ∃ st' ck', SpecAccepts2 (absG s st ck) op (step s op).2 (absG (step s op).1 st' ck') ∧ RInv (step s op).1 st' ck'


end PetgraphModel.GProofs
