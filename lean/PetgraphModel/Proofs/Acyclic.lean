import PetgraphModel.Model.Acyclic
import PetgraphModel.Spec.Dag
/-
Helper definitions and lemmas for the C14 theorems (`Theorems/C14.lean`).

Part 1: graph theory of the specification (`Dag`) and soundness of the executable judges.
Part 2: the order map (`Acy.OrderMap`): invariant `OMInv` and its preservation.
Part 3: the cone searches and the reorder.
-/
namespace PetgraphModel.AcyProofs
open PetgraphModel PetgraphModel.MGraph PetgraphModel.Oracle PetgraphModel.Dag PetgraphModel.Acy

/-! ## Part 1 — specification side -/

theorem reach_trans {g : MGraph} {a b c : Nat} (h1 : Reach g a b) (h2 : Reach g b c) : Reach g a c := by
  induction h2 with
  | refl => exact h1
  | step _ hadj ih => exact Reach.step ih hadj

theorem reach1_reach {g : MGraph} {a b : Nat} (h : Reach1 g a b) : Reach g a b := by
  induction h with
  | single hadj => exact Reach.step (Reach.refl _) hadj
  | step _ hadj ih => exact Reach.step ih hadj

theorem reach1_of_reach_adj {g : MGraph} {a b c : Nat} (h : Reach g a b) (hadj : Adj g b c) : Reach1 g a c := by
  induction h generalizing c with
  | refl => exact Reach1.single hadj
  | step _ hadj' ih => exact Reach1.step (ih hadj') hadj

theorem reach1_of_adj_reach {g : MGraph} {a b c : Nat} (hadj : Adj g a b) (h : Reach g b c) : Reach1 g a c := by
  induction h with
  | refl => exact Reach1.single hadj
  | step _ hadj' ih => exact Reach1.step ih hadj'

/-- in a directed graph an adjacency is an edge -/
theorem adj_directed {g : MGraph} (hd : g.directed = true) {a b : Nat} (h : Adj g a b) :
    ∃ e ∈ g.edges, e.src = a ∧ e.tgt = b := by
  obtain ⟨e, he, h⟩ := h
  rcases h with h | ⟨h0, _⟩
  · exact ⟨e, he, h⟩
  · rw [hd] at h0; cases h0

/-- every walk goes forward in a topological order -/
theorem topo_reach1_lt {g : MGraph} (hd : g.directed = true) {order : List Nat} (ht : TopoOrder g order)
    {x y : Nat} (h : Reach1 g x y) : x ∈ order ∧ y ∈ order ∧ order.idxOf x < order.idxOf y := by
  induction h with
  | single hadj =>
    obtain ⟨e, he, h1, h2⟩ := adj_directed hd hadj
    have := ht.2.2 e he
    rw [h1, h2] at this; exact this
  | step _ hadj ih =>
    obtain ⟨e, he, h1, h2⟩ := adj_directed hd hadj
    have := ht.2.2 e he
    rw [h1, h2] at this
    exact ⟨ih.1, this.2.1, Nat.lt_trans ih.2.2 this.2.2⟩

/-- a graph with a topological order is acyclic -/
theorem topo_acyclic {g : MGraph} (hd : g.directed = true) {order : List Nat} (ht : TopoOrder g order) :
    Acyclic g := by
  intro x hx
  exact Nat.lt_irrefl _ (topo_reach1_lt hd ht hx).2.2

theorem nodupB_sound : ∀ (l : List Nat), nodupB l = true → l.Nodup
  | [], _ => List.nodup_nil
  | x :: xs, h => by
    simp only [nodupB, Bool.and_eq_true, Bool.not_eq_eq_eq_not, Bool.not_true] at h
    refine List.nodup_cons.mpr ⟨?_, nodupB_sound xs h.2⟩
    intro hx
    have := List.contains_iff_mem.mpr hx
    rw [h.1] at this; cases this

/-- **judge soundness**: an order the judge accepts is a topological order. -/
theorem judgeOrder_sound (g : MGraph) (order : List Nat) (h : judgeOrder g order = none) : TopoOrder g order := by
  unfold judgeOrder at h
  split at h
  · cases h
  rename_i h1
  split at h
  · cases h
  rename_i h2
  split at h
  · cases h
  rename_i h3
  split at h
  · cases h
  rename_i h4
  have h1' : nodupB order = true := by simpa using h1
  have h2' : (order.all fun x => g.nodes.contains x) = true := by simpa using h2
  have h3' : (g.nodes.all fun x => order.contains x) = true := by simpa using h3
  refine ⟨nodupB_sound _ h1', ?_, ?_⟩
  · intro x
    constructor
    · intro hx
      have := List.all_eq_true.mp h2' x hx
      simpa using this
    · intro hx
      have := List.all_eq_true.mp h3' x hx
      simpa using this
  · intro e he
    have := List.find?_eq_none.mp h4 e he
    have h5 : (e.src ∈ order ∧ e.tgt ∈ order) ∧ List.idxOf e.src order < List.idxOf e.tgt order := by simpa using this
    exact ⟨h5.1.1, h5.1.2, h5.2⟩

/-- the graph after an insertion has the old adjacencies plus `a → b` -/
theorem adj_addEdge {g : MGraph} (hd : g.directed = true) {id a b : Nat} {w : Int} {x y : Nat} :
    Adj (addEdge g id a b w) x y ↔ Adj g x y ∨ (x = a ∧ y = b) := by
  unfold Adj addEdge
  simp only [List.mem_append, List.mem_singleton, hd]
  constructor
  · rintro ⟨e, he | he, h⟩
    · exact Or.inl ⟨e, he, h⟩
    · subst he
      rcases h with ⟨h1, h2⟩ | ⟨h0, _⟩
      · exact Or.inr ⟨h1.symm, h2.symm⟩
      · cases h0
  · rintro (⟨e, he, h⟩ | ⟨h1, h2⟩)
    · exact ⟨e, Or.inl he, h⟩
    · exact ⟨⟨id, a, b, w⟩, Or.inr rfl, Or.inl ⟨h1.symm, h2.symm⟩⟩

theorem reach_addEdge_mono {g : MGraph} (hd : g.directed = true) {id a b : Nat} {w : Int} {x y : Nat}
    (h : Reach g x y) : Reach (addEdge g id a b w) x y := by
  induction h with
  | refl => exact Reach.refl _
  | step _ hadj ih => exact Reach.step ih ((adj_addEdge hd).mpr (Or.inl hadj))

/-- a walk of the new graph either avoids the new edge or passes through it -/
theorem reach1_addEdge_split {g : MGraph} (hd : g.directed = true) {id a b : Nat} {w : Int} {x y : Nat}
    (h : Reach1 (addEdge g id a b w) x y) : Reach1 g x y ∨ (Reach g x a ∧ Reach g b y) := by
  induction h with
  | single hadj =>
    rcases (adj_addEdge hd).mp hadj with h | ⟨h1, h2⟩
    · exact Or.inl (Reach1.single h)
    · subst h1; subst h2; exact Or.inr ⟨Reach.refl _, Reach.refl _⟩
  | step _ hadj ih =>
    rcases (adj_addEdge hd).mp hadj with h | ⟨h1, h2⟩
    · rcases ih with ih | ⟨ih1, ih2⟩
      · exact Or.inl (Reach1.step ih h)
      · exact Or.inr ⟨ih1, Reach.step ih2 h⟩
    · subst h1; subst h2
      rcases ih with ih | ⟨ih1, _⟩
      · exact Or.inr ⟨reach1_reach ih, Reach.refl _⟩
      · exact Or.inr ⟨ih1, Reach.refl _⟩

/-- **the dynamic clause**: inserting `a → b` into an acyclic graph creates a cycle exactly when it
is a self-loop or `b` already reaches `a`. -/
theorem reject_iff_cycle {g : MGraph} (hd : g.directed = true) (hac : Acyclic g) (id a b : Nat) (w : Int) :
    ¬ Acyclic (addEdge g id a b w) ↔ MustReject g a b := by
  constructor
  · intro h
    have : ∃ x, Reach1 (addEdge g id a b w) x x := by
      apply Classical.byContradiction
      intro hne
      exact h fun x hx => hne ⟨x, hx⟩
    obtain ⟨x, hx⟩ := this
    rcases reach1_addEdge_split hd hx with h1 | ⟨h1, h2⟩
    · exact absurd h1 (hac x)
    · exact Or.inr (reach_trans h2 h1)
  · intro h hac'
    have hba : Reach g b a := by
      rcases h with h | h
      · subst h; exact Reach.refl _
      · exact h
    have hadj : Adj (addEdge g id a b w) a b := (adj_addEdge hd).mpr (Or.inr ⟨rfl, rfl⟩)
    exact hac' a (reach1_of_adj_reach hadj (reach_addEdge_mono hd hba))

theorem mustRejectB_sound (g : MGraph) (a b : Nat) (r : Bool) (h : mustRejectB g a b = some r) :
    r = true ↔ MustReject g a b := by
  unfold mustRejectB at h
  unfold MustReject
  split at h
  · rename_i hab
    cases h
    simp [hab]
  · rename_i hab
    have := reachB_spec g b a r h
    rw [this]
    constructor
    · exact Or.inr
    · rintro (h | h)
      · exact absurd h hab
      · exact h

theorem cycleEdge_fold_some (g : MGraph) (l : List Edge) (e : Edge) :
    l.foldl (fun acc e =>
      match acc with
      | some none =>
        match reachB g e.tgt e.src with
        | some true => some (some e)
        | some false => some none
        | none => none
      | r => r) (some (some e)) = some (some e) := by
  induction l with
  | nil => rfl
  | cons x xs ih => simpa [List.foldl] using ih

theorem cycleEdge_fold_none (g : MGraph) (l : List Edge) :
    l.foldl (fun acc e =>
      match acc with
      | some none =>
        match reachB g e.tgt e.src with
        | some true => some (some e)
        | some false => some none
        | none => none
      | r => r) (none : Option (Option Edge)) = none := by
  induction l with
  | nil => rfl
  | cons x xs ih => simpa [List.foldl] using ih

theorem cycleEdge_fold (g : MGraph) (l : List Edge) :
    (l.foldl (fun acc e =>
      match acc with
      | some none =>
        match reachB g e.tgt e.src with
        | some true => some (some e)
        | some false => some none
        | none => none
      | r => r) (some none) = some none → ∀ e ∈ l, reachB g e.tgt e.src = some false) ∧
    (∀ e, l.foldl (fun acc e =>
      match acc with
      | some none =>
        match reachB g e.tgt e.src with
        | some true => some (some e)
        | some false => some none
        | none => none
      | r => r) (some none) = some (some e) → e ∈ l ∧ reachB g e.tgt e.src = some true) := by
  induction l with
  | nil => simp
  | cons x xs ih =>
    simp only [List.foldl]
    cases hx : reachB g x.tgt x.src with
    | none =>
      simp only [cycleEdge_fold_none]
      simp
    | some r =>
      cases r with
      | true =>
        simp only [cycleEdge_fold_some]
        constructor
        · intro h; cases h
        · intro e he
          simp only [Option.some.injEq] at he
          subst he
          exact ⟨List.mem_cons_self .., hx⟩
      | false =>
        constructor
        · intro h e he
          rcases List.mem_cons.mp he with rfl | he
          · exact hx
          · exact ih.1 h e he
        · intro e he
          have := ih.2 e he
          exact ⟨List.mem_cons_of_mem _ this.1, this.2⟩

/-- **judge soundness**: `cycleEdge` decides acyclicity (whenever the oracle answers). -/
theorem cycleEdge_sound (g : MGraph) (hd : g.directed = true) :
    (cycleEdge g = some none → Acyclic g) ∧
    (∀ e, cycleEdge g = some (some e) → e ∈ g.edges ∧ Reach1 g e.src e.src) := by
  constructor
  · intro h x hx
    have hall := (cycleEdge_fold g g.edges).1 h
    -- the last edge of a closed walk closes it
    have : ∃ y, Reach g x y ∧ Adj g y x := by
      cases hx with
      | single hadj => exact ⟨x, Reach.refl _, hadj⟩
      | step h1 hadj => exact ⟨_, reach1_reach h1, hadj⟩
    obtain ⟨y, hxy, hadj⟩ := this
    obtain ⟨e, he, h1, h2⟩ := adj_directed hd hadj
    have := hall e he
    have hf := (reachB_spec g e.tgt e.src false this)
    rw [h1, h2] at hf
    have := hf.mpr hxy
    cases this
  · intro e h
    have := (cycleEdge_fold g g.edges).2 e h
    refine ⟨this.1, ?_⟩
    have hr := (reachB_spec g e.tgt e.src true this.2).mp rfl
    exact reach1_of_adj_reach ⟨e, this.1, Or.inl ⟨rfl, rfl⟩⟩ hr

/-- **judge soundness**: accepted `is_valid_edge` answers are the specification's (whenever the
oracle answers). -/
theorem judgeValid_sound (g : MGraph) (l : List (Nat × Nat × Bool)) (h : judgeValid g l = none)
    (a b : Nat) (r x : Bool) (hm : (a, b, r) ∈ l) (ho : mustRejectB g a b = some x) :
    r = true ↔ ¬ MustReject g a b := by
  unfold judgeValid at h
  split at h
  · cases h
  rename_i hf
  have := List.find?_eq_none.mp hf (a, b, r) hm
  simp only [ho] at this
  have hx := mustRejectB_sound g a b x ho
  rw [← hx]
  cases r <;> cases x <;> simp_all

/-! ## Part 2 — the order map -/

/-- keys strictly increasing: the `BTreeMap` representation invariant -/
def Sorted (m : PMap) : Prop := m.Pairwise fun x y => x.1 < y.1

theorem sorted_nil : Sorted [] := List.Pairwise.nil

theorem mem_pmInsert {m : PMap} {k x q y : Nat} (hs : Sorted m) :
    (q, y) ∈ pmInsert m k x ↔ (q = k ∧ y = x) ∨ (q ≠ k ∧ (q, y) ∈ m) := by
  induction m with
  | nil => simp [pmInsert]
  | cons hd tl ih =>
    obtain ⟨k', x'⟩ := hd
    have hs' : Sorted tl := (List.pairwise_cons.mp hs).2
    have hlt : ∀ e ∈ tl, k' < e.1 := fun e he => (List.pairwise_cons.mp hs).1 e he
    simp only [pmInsert]
    split
    · rename_i h1
      simp only [List.mem_cons, Prod.mk.injEq]
      constructor
      · rintro (⟨rfl, rfl⟩ | ⟨rfl, rfl⟩ | h)
        · exact Or.inl ⟨rfl, rfl⟩
        · exact Or.inr ⟨by omega, Or.inl ⟨rfl, rfl⟩⟩
        · have := hlt _ h; simp at this
          exact Or.inr ⟨by omega, Or.inr h⟩
      · rintro (⟨rfl, rfl⟩ | ⟨_, ⟨rfl, rfl⟩ | h⟩)
        · exact Or.inl ⟨rfl, rfl⟩
        · exact Or.inr (Or.inl ⟨rfl, rfl⟩)
        · exact Or.inr (Or.inr h)
    · split
      · rename_i h1 h2
        subst h2
        simp only [List.mem_cons, Prod.mk.injEq]
        constructor
        · rintro (⟨rfl, rfl⟩ | h)
          · exact Or.inl ⟨rfl, rfl⟩
          · have := hlt _ h; simp at this
            exact Or.inr ⟨by omega, Or.inr h⟩
        · rintro (⟨rfl, rfl⟩ | ⟨hne, ⟨rfl, rfl⟩ | h⟩)
          · exact Or.inl ⟨rfl, rfl⟩
          · exact absurd rfl hne
          · exact Or.inr h
      · rename_i h1 h2
        simp only [List.mem_cons, Prod.mk.injEq, ih hs']
        constructor
        · rintro (⟨rfl, rfl⟩ | ⟨rfl, rfl⟩ | ⟨hne, h⟩)
          · exact Or.inr ⟨by omega, Or.inl ⟨rfl, rfl⟩⟩
          · exact Or.inl ⟨rfl, rfl⟩
          · exact Or.inr ⟨hne, Or.inr h⟩
        · rintro (⟨rfl, rfl⟩ | ⟨hne, ⟨rfl, rfl⟩ | h⟩)
          · exact Or.inr (Or.inl ⟨rfl, rfl⟩)
          · exact Or.inl ⟨rfl, rfl⟩
          · exact Or.inr (Or.inr ⟨hne, h⟩)

theorem sorted_pmInsert {m : PMap} {k x : Nat} (hs : Sorted m) : Sorted (pmInsert m k x) := by
  induction m with
  | nil => simp [pmInsert, Sorted]
  | cons hd tl ih =>
    obtain ⟨k', x'⟩ := hd
    have hs' : Sorted tl := (List.pairwise_cons.mp hs).2
    have hlt : ∀ e ∈ tl, k' < e.1 := fun e he => (List.pairwise_cons.mp hs).1 e he
    simp only [pmInsert]
    split
    · rename_i h1
      refine List.pairwise_cons.mpr ⟨?_, hs⟩
      intro e he
      rcases List.mem_cons.mp he with rfl | he
      · exact h1
      · have := hlt e he; simp only at this ⊢; omega
    · split
      · rename_i h1 h2
        subst h2
        exact List.pairwise_cons.mpr ⟨hlt, hs'⟩
      · rename_i h1 h2
        refine List.pairwise_cons.mpr ⟨?_, ih hs'⟩
        intro e he
        obtain ⟨q, y⟩ := e
        rcases (mem_pmInsert hs').mp he with ⟨rfl, _⟩ | ⟨_, h⟩
        · simp only; omega
        · exact hlt _ h

theorem mem_pmErase {m : PMap} {k q y : Nat} : (q, y) ∈ pmErase m k ↔ q ≠ k ∧ (q, y) ∈ m := by
  simp [pmErase, List.mem_filter, and_comm]

theorem sorted_pmErase {m : PMap} {k : Nat} (hs : Sorted m) : Sorted (pmErase m k) :=
  List.Pairwise.filter _ hs

/-- a sorted map is a partial function -/
theorem sorted_fun {m : PMap} (hs : Sorted m) {q x y : Nat} (h1 : (q, x) ∈ m) (h2 : (q, y) ∈ m) : x = y := by
  induction m with
  | nil => cases h1
  | cons hd tl ih =>
    have hs' : Sorted tl := (List.pairwise_cons.mp hs).2
    have hlt : ∀ e ∈ tl, hd.1 < e.1 := fun e he => (List.pairwise_cons.mp hs).1 e he
    rcases List.mem_cons.mp h1 with h1 | h1 <;> rcases List.mem_cons.mp h2 with h2 | h2
    · rw [← h1] at h2; cases h2; rfl
    · rw [← h1] at hlt; have := hlt _ h2; simp at this
    · rw [← h2] at hlt; have := hlt _ h1; simp at this
    · exact ih hs' h1 h2

theorem pmGet_iff {m : PMap} (hs : Sorted m) {q x : Nat} : pmGet m q = some x ↔ (q, x) ∈ m := by
  unfold pmGet
  induction m with
  | nil => simp
  | cons hd tl ih =>
    obtain ⟨k', x'⟩ := hd
    have hs' : Sorted tl := (List.pairwise_cons.mp hs).2
    have hlt : ∀ e ∈ tl, k' < e.1 := fun e he => (List.pairwise_cons.mp hs).1 e he
    simp only [List.lookup_cons, List.mem_cons, Prod.mk.injEq]
    by_cases hq : q = k'
    · subst hq
      simp only [BEq.rfl, Option.some.injEq, true_and]
      constructor
      · intro h; exact Or.inl h.symm
      · rintro (h | h)
        · exact h.symm
        · have := hlt _ h; simp at this
    · have : (q == k') = false := by simpa using hq
      simp only [this, ih hs']
      constructor
      · exact Or.inr
      · rintro (⟨h, _⟩ | h)
        · exact absurd h hq
        · exact h

/-- the last key of a sorted map is its largest -/
theorem lastKey_max {m : PMap} (hs : Sorted m) : ∀ q x, (q, x) ∈ m → ∃ k, pmLastKey m = some k ∧ q ≤ k := by
  induction m with
  | nil => intro q x h; cases h
  | cons hd tl ih =>
    intro q x h
    have hs' : Sorted tl := (List.pairwise_cons.mp hs).2
    have hlt : ∀ e ∈ tl, hd.1 < e.1 := fun e he => (List.pairwise_cons.mp hs).1 e he
    cases tl with
    | nil =>
      simp only [List.mem_singleton] at h
      subst h
      exact ⟨q, by simp [pmLastKey], Nat.le_refl _⟩
    | cons t ts =>
      have hl : pmLastKey (hd :: t :: ts) = pmLastKey (t :: ts) := by
        simp [pmLastKey, List.getLast?_cons_cons]
      rw [hl]
      rcases List.mem_cons.mp h with rfl | h
      · obtain ⟨k, hk, hle⟩ := ih hs' t.1 t.2 (List.mem_cons_self ..)
        have := hlt t (List.mem_cons_self ..)
        simp only at this
        exact ⟨k, hk, by omega⟩
      · exact ih hs' q x h

theorem lastKey_none {m : PMap} (h : pmLastKey m = none) : m = [] := by
  cases m with
  | nil => rfl
  | cons a as =>
    simp [pmLastKey] at h

/-- **the order-map invariant**: `pos_to_node` is a well-formed `BTreeMap`, and `pos_to_node` /
`node_to_pos` are mutually inverse on exactly the live nodes `L` (entries of `node_to_pos` at dead
indices are unconstrained: they are stale). -/
structure OMInv (L : List Nat) (om : OrderMap) : Prop where
  sorted : Sorted om.p2n
  p2n_live : ∀ p n, (p, n) ∈ om.p2n → n ∈ L ∧ om.n2p[n]? = some p
  live_p2n : ∀ n, n ∈ L → ∃ p, om.n2p[n]? = some p ∧ (p, n) ∈ om.p2n

theorem OMInv.getPos {L : List Nat} {om : OrderMap} (h : OMInv L om) {n : Nat} (hn : n ∈ L) :
    ∃ p, om.getPos n = .ok p ∧ (p, n) ∈ om.p2n := by
  obtain ⟨p, h1, h2⟩ := h.live_p2n n hn
  exact ⟨p, by simp [OrderMap.getPos, h1], h2⟩

/-- positions of distinct live nodes differ -/
theorem OMInv.pos_inj {L : List Nat} {om : OrderMap} (h : OMInv L om) {a b : Nat} (ha : a ∈ L) (hb : b ∈ L)
    (hab : a ≠ b) : om.getPos a ≠ om.getPos b := by
  obtain ⟨p, h1, h2⟩ := h.getPos ha
  obtain ⟨q, h3, h4⟩ := h.getPos hb
  rw [h1, h3]
  intro heq
  cases heq
  exact hab (sorted_fun h.sorted h2 h4)

/-- the order lists exactly the live nodes, each once -/
theorem OMInv.nodesIter {L : List Nat} {om : OrderMap} (h : OMInv L om) :
    om.nodesIter.Nodup ∧ ∀ x, x ∈ om.nodesIter ↔ x ∈ L := by
  constructor
  · unfold OrderMap.nodesIter pmVals
    have hs := h.sorted
    have hp := h.p2n_live
    generalize om.p2n = m at hs hp
    induction m with
    | nil => exact List.nodup_nil
    | cons hd tl ih =>
      have hs' : Sorted tl := (List.pairwise_cons.mp hs).2
      have hlt : ∀ e ∈ tl, hd.1 < e.1 := fun e he => (List.pairwise_cons.mp hs).1 e he
      simp only [List.map_cons]
      refine List.nodup_cons.mpr ⟨?_, ih hs' fun p n hm => hp p n (List.mem_cons_of_mem _ hm)⟩
      intro hmem
      obtain ⟨e, he, heq⟩ := List.mem_map.mp hmem
      have h1 := (hp hd.1 hd.2 (List.mem_cons_self ..)).2
      have h2 := (hp e.1 e.2 (List.mem_cons_of_mem _ he)).2
      rw [heq, h1] at h2
      have := hlt e he
      simp only [Option.some.injEq] at h2
      omega
  · intro x
    unfold OrderMap.nodesIter pmVals
    constructor
    · intro hx
      obtain ⟨e, he, rfl⟩ := List.mem_map.mp hx
      exact (h.p2n_live e.1 e.2 he).1
    · intro hx
      obtain ⟨p, _, hp⟩ := h.live_p2n x hx
      exact List.mem_map.mpr ⟨(p, x), hp, rfl⟩

theorem OMInv.atPos {L : List Nat} {om : OrderMap} (h : OMInv L om) (p n : Nat) :
    om.atPos p = some n ↔ n ∈ L ∧ om.getPos n = .ok p := by
  unfold OrderMap.atPos
  rw [pmGet_iff h.sorted]
  constructor
  · intro hm
    have := h.p2n_live p n hm
    exact ⟨this.1, by simp [OrderMap.getPos, this.2]⟩
  · rintro ⟨hn, hp⟩
    obtain ⟨q, h1, h2⟩ := h.getPos hn
    rw [h1] at hp; cases hp; exact h2

theorem inv_empty : OMInv [] {} where
  sorted := sorted_nil
  p2n_live := by intro p n h; cases h
  live_p2n := by intro n h; cases h

theorem resize0_getElem? (l : List Nat) (nb n : Nat) (hn : n < l.length) (hnb : l.length ≤ nb) :
    (resize0 l nb)[n]? = l[n]? := by
  unfold resize0
  rw [List.getElem?_take_of_lt (by omega), List.getElem?_append_left hn]

theorem resize0_length (l : List Nat) (nb : Nat) : (resize0 l nb).length = nb := by
  unfold resize0
  simp only [List.length_take, List.length_append, List.length_replicate]
  omega

/-- `add_node` preserves the invariant: the new index `i` (not live before) joins the live set -/
theorem inv_addNode {L L' : List Nat} {om om' : OrderMap} {i nb : Nat} (h : OMInv L om)
    (hi : i ∉ L) (hL : ∀ x, x ∈ L' ↔ x = i ∨ x ∈ L) (hr : om.addNode i nb = .ok om') : OMInv L' om' := by
  unfold OrderMap.addNode at hr
  simp only at hr
  generalize hnp : (match pmLastKey om.p2n with | some k => k + 1 | none => 0) = newPos at hr
  generalize hn1 : (if i ≥ om.n2p.length then resize0 om.n2p nb else om.n2p) = n2p1 at hr
  split at hr
  case isFalse => cases hr
  rename_i hlen
  cases hr
  -- the fresh position is above every key
  have hfresh : ∀ q x, (q, x) ∈ om.p2n → q < newPos := by
    intro q x hm
    obtain ⟨k, hk, hle⟩ := lastKey_max h.sorted q x hm
    rw [← hnp, hk]
    show q < k + 1
    omega
  -- old entries of node_to_pos survive the resize
  have hkeep : ∀ (n p : Nat), om.n2p[n]? = some p → n2p1[n]? = some p := by
    intro n p hp
    subst hn1
    split
    · rename_i hge
      have hn : n < om.n2p.length := by
        rcases Nat.lt_or_ge n om.n2p.length with h | h
        · exact h
        · rw [List.getElem?_eq_none h] at hp; cases hp
      rw [if_pos hge, resize0_length] at hlen
      rw [resize0_getElem? _ _ _ hn (by omega)]; exact hp
    · exact hp
  subst hnp
  refine ⟨sorted_pmInsert h.sorted, ?_, ?_⟩
  · intro q x hm
    rcases (mem_pmInsert h.sorted).mp hm with ⟨rfl, rfl⟩ | ⟨hne, hm⟩
    · exact ⟨(hL _).mpr (Or.inl rfl), by simp [hlen]⟩
    · have := h.p2n_live q x hm
      have hxi : x ≠ i := fun he => hi (he ▸ this.1)
      refine ⟨(hL _).mpr (Or.inr this.1), ?_⟩
      simp only
      rw [List.getElem?_set_ne (Ne.symm hxi)]
      exact hkeep _ _ this.2
  · intro x hx
    rcases (hL x).mp hx with rfl | hx
    · exact ⟨_, by simp [hlen], (mem_pmInsert h.sorted).mpr (Or.inl ⟨rfl, rfl⟩)⟩
    · obtain ⟨p, h1, h2⟩ := h.live_p2n x hx
      have hxi : x ≠ i := fun he => hi (he ▸ hx)
      refine ⟨p, ?_, (mem_pmInsert h.sorted).mpr (Or.inr ⟨Nat.ne_of_lt (hfresh p x h2), h2⟩)⟩
      simp only
      rw [List.getElem?_set_ne (Ne.symm hxi)]
      exact hkeep _ _ h1

/-- dropping a live node from both directions of the map -/
theorem inv_omRemove {L L' : List Nat} {om om1 : OrderMap} {n : Nat} (h : OMInv L om) (hn : n ∈ L)
    (hL : ∀ x, x ∈ L' ↔ x ∈ L ∧ x ≠ n) (hr : om.removeNode n = .ok om1) : OMInv L' om1 := by
  unfold OrderMap.removeNode at hr
  obtain ⟨p, hp, hpm⟩ := h.live_p2n n hn
  simp only [hp] at hr
  cases hr
  refine ⟨sorted_pmErase h.sorted, ?_, ?_⟩
  · intro q x hm
    obtain ⟨hne, hm⟩ := mem_pmErase.mp hm
    have := h.p2n_live q x hm
    have hxn : x ≠ n := by
      intro he; subst he
      rw [hp] at this; exact hne (Option.some.inj this.2).symm
    refine ⟨(hL x).mpr ⟨this.1, hxn⟩, ?_⟩
    simp only
    rw [List.getElem?_set_ne (Ne.symm hxn)]; exact this.2
  · intro x hx
    obtain ⟨hxl, hxn⟩ := (hL x).mp hx
    obtain ⟨q, h1, h2⟩ := h.live_p2n x hxl
    have hqp : q ≠ p := fun he => hxn (sorted_fun h.sorted (he ▸ h2) hpm)
    refine ⟨q, ?_, mem_pmErase.mpr ⟨hqp, h2⟩⟩
    simp only
    rw [List.getElem?_set_ne (Ne.symm hxn)]; exact h1

/-- what the inner `remove_node(n)` does to the set of live indices: either index `n` just dies
(`StableGraph`; the last node of a `Graph`), or the graph moves its last node `nb - 1` into the
freed index `n` (`Graph::remove_node` of a non-last node) -/
def RemoveContract (v v' : View) (n : Nat) : Prop :=
  (n ∉ v'.g.nodes ∧ ∀ x, x ∈ v'.g.nodes ↔ x ∈ v.g.nodes ∧ x ≠ n) ∨
  (n ∈ v'.g.nodes ∧ v.nb - 1 ∈ v.g.nodes ∧ v.nb - 1 ≠ n ∧ ∀ x, x ∈ v'.g.nodes ↔ x ∈ v.g.nodes ∧ x ≠ v.nb - 1)

theorem live_iff (v : View) (a : Nat) : live v a = true ↔ a ∈ v.g.nodes := by
  simp [live]

/-- `remove_node` of a live node preserves the invariant, for both behaviours of the inner graph -/
theorem inv_removeNode {v v' : View} {s s' : AState} {n : Nat} {r : Bool} (h : OMInv v.g.nodes s.om)
    (hn : n ∈ v.g.nodes) (hc : RemoveContract v v' n) (hr : Acy.removeNode v v' s n = .ok (s', r)) :
    OMInv v'.g.nodes s'.om ∧ r = true := by
  unfold Acy.removeNode at hr
  have hl : live v n = true := (live_iff v n).mpr hn
  simp only [hl, Bool.not_true, Bool.false_eq_true, ↓reduceIte] at hr
  cases h1 : s.om.removeNode n with
  | error e => simp [h1] at hr
  | ok om1 =>
    simp only [h1] at hr
    rcases hc with ⟨hdead, hL⟩ | ⟨halive, hlast, hne, hL⟩
    · have : live v' n = false := by
        cases hb : live v' n with
        | false => rfl
        | true => exact absurd ((live_iff v' n).mp hb) hdead
      simp only [this, Bool.false_eq_true, ↓reduceIte] at hr
      cases hr
      exact ⟨inv_omRemove h hn hL h1, rfl⟩
    · have : live v' n = true := (live_iff v' n).mpr halive
      simp only [this, ↓reduceIte] at hr
      -- intermediate: n removed from the map
      have hmid : OMInv (v.g.nodes.filter (· ≠ n)) om1 :=
        inv_omRemove h hn (by intro x; simp [List.mem_filter]) h1
      have hlast_mid : v.nb - 1 ∈ v.g.nodes.filter (· ≠ n) := by
        simp [List.mem_filter, hlast, hne]
      obtain ⟨p, hp1, hp2⟩ := hmid.getPos hlast_mid
      simp only [hp1] at hr
      cases h2 : om1.setPos n p with
      | error e => simp [h2] at hr
      | ok om2 =>
        simp only [h2] at hr
        cases hr
        refine ⟨?_, rfl⟩
        unfold OrderMap.setPos at h2
        split at h2
        case isFalse => cases h2
        rename_i hlen
        cases h2
        have hn2p_last : om1.n2p[v.nb - 1]? = some p := (hmid.p2n_live p _ hp2).2
        refine ⟨sorted_pmInsert hmid.sorted, ?_, ?_⟩
        · intro q x hm
          rcases (mem_pmInsert hmid.sorted).mp hm with ⟨rfl, rfl⟩ | ⟨hqp, hm⟩
          · exact ⟨halive, by simp [hlen]⟩
          · have := hmid.p2n_live q x hm
            have hx := List.mem_filter.mp this.1
            have hxn : x ≠ n := by simpa using hx.2
            have hxl : x ≠ v.nb - 1 := by
              intro he; subst he
              rw [hn2p_last] at this; exact hqp (Option.some.inj this.2).symm
            refine ⟨(hL x).mpr ⟨hx.1, hxl⟩, ?_⟩
            simp only
            rw [List.getElem?_set_ne (Ne.symm hxn)]; exact this.2
        · intro x hx
          obtain ⟨hxl, hxlast⟩ := (hL x).mp hx
          by_cases hxn : x = n
          · subst hxn
            exact ⟨p, by simp [hlen], (mem_pmInsert hmid.sorted).mpr (Or.inl ⟨rfl, rfl⟩)⟩
          · have hxm : x ∈ v.g.nodes.filter (· ≠ n) := by simp [List.mem_filter, hxl, hxn]
            obtain ⟨q, h3, h4⟩ := hmid.live_p2n x hxm
            have hqp : q ≠ p := fun he => hxlast (sorted_fun hmid.sorted (he ▸ h4) hp2)
            refine ⟨q, ?_, (mem_pmInsert hmid.sorted).mpr (Or.inr ⟨hqp, h4⟩)⟩
            simp only
            rw [List.getElem?_set_ne (Ne.symm hxn)]; exact h3

/-- `remove_node` of an absent index is a no-op -/
theorem removeNode_absent (v v' : View) (s : AState) (n : Nat) (hn : n ∉ v.g.nodes) :
    Acy.removeNode v v' s n = .ok (s, false) := by
  unfold Acy.removeNode
  have : live v n = false := by
    cases hb : live v n with
    | false => rfl
    | true => exact absurd ((live_iff v n).mp hb) hn
  simp [this]

/-! ## Part 3 — the reorder of `update_ordering` -/

def assignP (m : PMap) (l : List (Nat × Nat)) : PMap := l.foldl (fun m e => pmInsert m e.1 e.2) m
def assignN (a : List Nat) (l : List (Nat × Nat)) : List Nat := l.foldl (fun a e => a.set e.2 e.1) a

theorem assign_ok {l : List (Nat × Nat)} : ∀ {om om' : OrderMap}, assign om l = .ok om' →
    om'.p2n = assignP om.p2n l ∧ om'.n2p = assignN om.n2p l := by
  induction l with
  | nil => intro om om' h; simp [assign] at h; subst h; exact ⟨rfl, rfl⟩
  | cons e r ih =>
    intro om om' h
    obtain ⟨p, n⟩ := e
    simp only [assign] at h
    cases h1 : om.setPos n p with
    | error e => simp [h1] at h
    | ok om1 =>
      simp only [h1] at h
      have := ih h
      unfold OrderMap.setPos at h1
      split at h1
      case isFalse => cases h1
      cases h1
      simpa [assignP, assignN] using this

theorem sorted_assignP {l : List (Nat × Nat)} : ∀ {m : PMap}, Sorted m → Sorted (assignP m l) := by
  induction l with
  | nil => intro m h; exact h
  | cons e r ih => intro m h; exact ih (sorted_pmInsert h)

theorem mem_assignP {l : List (Nat × Nat)} : ∀ {m : PMap}, Sorted m → (l.map (·.1)).Nodup → ∀ q y,
    ((q, y) ∈ assignP m l ↔ (q, y) ∈ l ∨ (q ∉ l.map (·.1) ∧ (q, y) ∈ m)) := by
  induction l with
  | nil => intro m _ _ q y; simp [assignP]
  | cons e r ih =>
    intro m hs hn q y
    obtain ⟨p, n⟩ := e
    simp only [List.map_cons, List.nodup_cons] at hn
    have := ih (sorted_pmInsert (k := p) (x := n) hs) hn.2 q y
    simp only [assignP, List.foldl_cons] at this ⊢
    rw [this, mem_pmInsert hs]
    simp only [List.mem_cons, Prod.mk.injEq, List.map_cons, not_or]
    constructor
    · rintro (h | ⟨h1, ⟨rfl, rfl⟩ | ⟨h2, h3⟩⟩)
      · exact Or.inl (Or.inr h)
      · exact Or.inl (Or.inl ⟨rfl, rfl⟩)
      · exact Or.inr ⟨⟨h2, h1⟩, h3⟩
    · rintro ((⟨rfl, rfl⟩ | h) | ⟨⟨h1, h2⟩, h3⟩)
      · exact Or.inr ⟨hn.1, Or.inl ⟨rfl, rfl⟩⟩
      · exact Or.inl h
      · exact Or.inr ⟨h2, Or.inr ⟨h1, h3⟩⟩

theorem length_assignN {l : List (Nat × Nat)} : ∀ {a : List Nat}, (assignN a l).length = a.length := by
  induction l with
  | nil => intro a; rfl
  | cons e r ih => intro a; simp only [assignN, List.foldl_cons] at ih ⊢; rw [ih]; simp

theorem assignN_not_mem {l : List (Nat × Nat)} : ∀ {a : List Nat} {x : Nat}, x ∉ l.map (·.2) →
    (assignN a l)[x]? = a[x]? := by
  induction l with
  | nil => intro a x _; rfl
  | cons e r ih =>
    intro a x hx
    simp only [List.map_cons, List.mem_cons, not_or] at hx
    simp only [assignN, List.foldl_cons] at ih ⊢
    rw [ih hx.2, List.getElem?_set_ne (Ne.symm hx.1)]

theorem assignN_mem {l : List (Nat × Nat)} : ∀ {a : List Nat} {x p : Nat}, (l.map (·.2)).Nodup → (p, x) ∈ l →
    x < a.length → (assignN a l)[x]? = some p := by
  induction l with
  | nil => intro a x p _ h; cases h
  | cons e r ih =>
    intro a x p hn hm hx
    simp only [List.map_cons, List.nodup_cons] at hn
    simp only [assignN, List.foldl_cons] at ih ⊢
    rcases List.mem_cons.mp hm with rfl | hm
    · have : x ∉ r.map (·.2) := hn.1
      have h2 := assignN_not_mem (a := a.set x p) this
      simp only [assignN] at h2
      rw [h2]; simp [hx]
    · exact ih hn.2 hm (by simpa using hx)

/-- reassigning the positions `P` (currently held by exactly the nodes `N`) to the nodes `N` in any
order keeps the order-map invariant -/
theorem inv_reassign {L : List Nat} {om om' : OrderMap} {l : List (Nat × Nat)} (h : OMInv L om)
    (hf : (l.map (·.1)).Nodup) (hs : (l.map (·.2)).Nodup)
    (H2 : ∀ p ∈ l.map (·.1), ∃ n ∈ l.map (·.2), (p, n) ∈ om.p2n)
    (H3 : ∀ n ∈ l.map (·.2), ∃ p ∈ l.map (·.1), (p, n) ∈ om.p2n)
    (hr : assign om l = .ok om') : OMInv L om' := by
  obtain ⟨hp, hn⟩ := assign_ok hr
  have hlen : ∀ x ∈ l.map (·.2), x < om.n2p.length := by
    intro x hx
    obtain ⟨p, _, hm⟩ := H3 x hx
    have := (h.p2n_live p x hm).2
    rcases Nat.lt_or_ge x om.n2p.length with h' | h'
    · exact h'
    · rw [List.getElem?_eq_none h'] at this; cases this
  refine ⟨hp ▸ sorted_assignP h.sorted, ?_, ?_⟩
  · intro q y hm
    rw [hp, mem_assignP h.sorted hf] at hm
    rcases hm with hm | ⟨hq, hm⟩
    · have hy : y ∈ l.map (·.2) := List.mem_map.mpr ⟨(q, y), hm, rfl⟩
      obtain ⟨p, _, hpm⟩ := H3 y hy
      exact ⟨(h.p2n_live p y hpm).1, by rw [hn]; exact assignN_mem hs hm (hlen y hy)⟩
    · have hl := h.p2n_live q y hm
      refine ⟨hl.1, ?_⟩
      have hy : y ∉ l.map (·.2) := by
        intro hy
        obtain ⟨p, hpP, hpm⟩ := H3 y hy
        have := (h.p2n_live p y hpm).2
        rw [hl.2] at this
        exact hq ((Option.some.inj this) ▸ hpP)
      rw [hn, assignN_not_mem hy]; exact hl.2
  · intro x hx
    by_cases hxN : x ∈ l.map (·.2)
    · obtain ⟨e, he, rfl⟩ := List.mem_map.mp hxN
      obtain ⟨p, x⟩ := e
      refine ⟨p, by rw [hn]; exact assignN_mem hs he (hlen x hxN), ?_⟩
      rw [hp, mem_assignP h.sorted hf]; exact Or.inl he
    · obtain ⟨p, h1, h2⟩ := h.live_p2n x hx
      refine ⟨p, by rw [hn, assignN_not_mem hxN]; exact h1, ?_⟩
      rw [hp, mem_assignP h.sorted hf]
      refine Or.inr ⟨?_, h2⟩
      intro hpP
      obtain ⟨n, hnN, hnm⟩ := H2 p hpP
      exact hxN ((sorted_fun h.sorted h2 hnm) ▸ hnN)

/-! ### the cone searches only collect `(position, node)` pairs of live nodes -/

structure ConeOk (L : List Nat) (om : OrderMap) (res : PMap) : Prop where
  sorted : Sorted res
  sub : ∀ p n, (p, n) ∈ res → n ∈ L ∧ om.n2p[n]? = some p

theorem coneOk_nil (L : List Nat) (om : OrderMap) : ConeOk L om [] :=
  ⟨sorted_nil, by intro p n h; cases h⟩

/-- neighbours of live nodes are live (the inner graph is well formed) -/
def Closed (v : View) : Prop :=
  ∀ x, x ∈ v.g.nodes → (∀ y, y ∈ v.succ x → y ∈ v.g.nodes) ∧ (∀ y, y ∈ v.pred x → y ∈ v.g.nodes)

theorem closed_nbrs {v : View} (hc : Closed v) (dir : Dir) {x y : Nat} (hx : x ∈ v.g.nodes)
    (hy : y ∈ nbrs dir v x) : y ∈ v.g.nodes := by
  cases dir with
  | fut => exact (hc x hx).1 y hy
  | past => exact (hc x hx).2 y hy

theorem getPos_ok {om : OrderMap} {u p : Nat} (h : om.getPos u = .ok p) : om.n2p[u]? = some p := by
  unfold OrderMap.getPos at h
  split at h
  · rename_i q hq; cases h; exact hq
  · cases h

theorem dfs_cone (v : View) (hc : Closed v) (om : OrderMap) (cap : Nat) (dir : Dir) (minP maxP : Nat) :
    ∀ f,
      (∀ u s s' r, u ∈ v.g.nodes → ConeOk v.g.nodes om s.res →
        dfsV v om cap dir minP maxP f u s = (s', r) → ConeOk v.g.nodes om s'.res) ∧
      (∀ u ws s s' r, (∀ w ∈ ws, w ∈ v.g.nodes) → ConeOk v.g.nodes om s.res →
        dfsN v om cap dir minP maxP f u ws s = (s', r) → ConeOk v.g.nodes om s'.res) := by
  intro f
  induction f with
  | zero =>
    constructor
    · intro u s s' r _ hk h
      simp only [dfsV] at h
      cases h; exact hk
    · intro u ws s s' r _ hk h
      simp only [dfsN] at h
      cases h; exact hk
  | succ f ih =>
    obtain ⟨ihV, ihN⟩ := ih
    constructor
    · intro u s s' r hu hk h
      simp only [dfsV] at h
      split at h
      · cases h; exact hk
      split at h
      · cases h; exact hk
      split at h
      · cases h; exact hk
      rename_i p hp
      have hk1 : ConeOk v.g.nodes om (pmInsert s.res p u) := by
        refine ⟨sorted_pmInsert hk.sorted, ?_⟩
        intro q n hm
        rcases (mem_pmInsert hk.sorted).mp hm with ⟨rfl, rfl⟩ | ⟨_, hm⟩
        · exact ⟨hu, getPos_ok hp⟩
        · exact hk.sub q n hm
      split at h
      · rename_i s2 heq
        cases h
        exact ihN u _ _ s2 _ (fun w hw => closed_nbrs hc dir hu hw) hk1 heq
      · rename_i r' hne
        cases hr : dfsN v om cap dir minP maxP f u (nbrs dir v u)
            { disc := u :: s.disc, fin := s.fin, res := pmInsert s.res p u } with
        | mk s2 r2 =>
          rw [hr] at h
          cases h
          exact ihN u _ _ _ _ (fun w hw => closed_nbrs hc dir hu hw) hk1 hr
    · intro u ws s s' r hws hk h
      cases ws with
      | nil => simp only [dfsN] at h; cases h; exact hk
      | cons w ws =>
        have hw : w ∈ v.g.nodes := hws w (List.mem_cons_self ..)
        have hws' : ∀ x ∈ ws, x ∈ v.g.nodes := fun x hx => hws x (List.mem_cons_of_mem _ hx)
        simp only [dfsN] at h
        split at h
        · exact ihN u ws s s' r hws' hk h
        split at h
        · cases h; exact hk
        split at h
        · -- go
          split at h
          · rename_i s1 heq
            exact ihN u ws s1 s' r hws' (ihV w s s1 _ hw hk heq) h
          · rename_i r' hne
            cases hr : dfsV v om cap dir minP maxP f w s with
            | mk s1 r1 =>
              rw [hr] at h
              cases h
              exact ihV w s _ _ hw hk hr
        · exact ihN u ws s s' r hws' hk h
        · cases h; exact hk
        · cases h; exact hk

/-! ### `all_positions` (the `BTreeSet` of the keys of both cones) -/

def insKeys (m : PMap) (K : List Nat) : PMap := K.foldl (fun m k => pmInsert m k 0) m

theorem mem_pmKeys {m : PMap} {q : Nat} : q ∈ pmKeys m ↔ ∃ y, (q, y) ∈ m := by
  unfold pmKeys
  constructor
  · intro h; obtain ⟨e, he, rfl⟩ := List.mem_map.mp h; exact ⟨e.2, he⟩
  · rintro ⟨y, h⟩; exact List.mem_map.mpr ⟨(q, y), h, rfl⟩

theorem mem_pmVals {m : PMap} {y : Nat} : y ∈ pmVals m ↔ ∃ q, (q, y) ∈ m := by
  unfold pmVals
  constructor
  · intro h; obtain ⟨e, he, rfl⟩ := List.mem_map.mp h; exact ⟨e.1, he⟩
  · rintro ⟨q, h⟩; exact List.mem_map.mpr ⟨(q, y), h, rfl⟩

theorem sorted_insKeys {K : List Nat} : ∀ {m : PMap}, Sorted m → Sorted (insKeys m K) := by
  induction K with
  | nil => intro m h; exact h
  | cons k r ih => intro m h; exact ih (sorted_pmInsert h)

theorem mem_keys_pmInsert {m : PMap} {k x q : Nat} (hs : Sorted m) :
    q ∈ pmKeys (pmInsert m k x) ↔ q = k ∨ q ∈ pmKeys m := by
  rw [mem_pmKeys, mem_pmKeys]
  constructor
  · rintro ⟨y, h⟩
    rcases (mem_pmInsert hs).mp h with ⟨rfl, _⟩ | ⟨_, h⟩
    · exact Or.inl rfl
    · exact Or.inr ⟨y, h⟩
  · rintro (rfl | ⟨y, h⟩)
    · exact ⟨x, (mem_pmInsert hs).mpr (Or.inl ⟨rfl, rfl⟩)⟩
    · by_cases hq : q = k
      · exact ⟨x, (mem_pmInsert hs).mpr (Or.inl ⟨hq, rfl⟩)⟩
      · exact ⟨y, (mem_pmInsert hs).mpr (Or.inr ⟨hq, h⟩)⟩

theorem mem_keys_insKeys {K : List Nat} : ∀ {m : PMap}, Sorted m → ∀ q,
    (q ∈ pmKeys (insKeys m K) ↔ q ∈ pmKeys m ∨ q ∈ K) := by
  induction K with
  | nil => intro m _ q; simp [insKeys]
  | cons k r ih =>
    intro m hs q
    have := ih (sorted_pmInsert (k := k) (x := 0) hs) q
    simp only [insKeys, List.foldl_cons] at this ⊢
    rw [this, mem_keys_pmInsert hs]
    simp only [List.mem_cons]
    constructor
    · rintro ((h | h) | h)
      · exact Or.inr (Or.inl h)
      · exact Or.inl h
      · exact Or.inr (Or.inr h)
    · rintro (h | h | h)
      · exact Or.inl (Or.inr h)
      · exact Or.inl (Or.inl h)
      · exact Or.inr h

theorem length_pmInsert {m : PMap} {k x : Nat} (hs : Sorted m) :
    (pmInsert m k x).length = if k ∈ pmKeys m then m.length else m.length + 1 := by
  induction m with
  | nil => simp [pmInsert, pmKeys]
  | cons hd tl ih =>
    obtain ⟨k', x'⟩ := hd
    have hs' : Sorted tl := (List.pairwise_cons.mp hs).2
    have hlt : ∀ e ∈ tl, k' < e.1 := fun e he => (List.pairwise_cons.mp hs).1 e he
    simp only [pmInsert]
    split
    · rename_i h1
      have : k ∉ pmKeys ((k', x') :: tl) := by
        intro hk
        obtain ⟨y, hy⟩ := mem_pmKeys.mp hk
        rcases List.mem_cons.mp hy with h | h
        · cases h; omega
        · have := hlt _ h; simp only at this; omega
      simp [this]
    · split
      · rename_i h1 h2
        subst h2
        have : k ∈ pmKeys ((k, x') :: tl) := mem_pmKeys.mpr ⟨x', List.mem_cons_self ..⟩
        simp [this]
      · rename_i h1 h2
        simp only [List.length_cons, ih hs']
        have : k ∈ pmKeys ((k', x') :: tl) ↔ k ∈ pmKeys tl := by
          simp only [pmKeys, List.map_cons, List.mem_cons]
          constructor
          · rintro (h | h)
            · exact absurd h h2
            · exact h
          · exact Or.inr
        simp only [this]
        split <;> rfl

theorem length_insKeys_le {K : List Nat} : ∀ {m : PMap}, Sorted m → (insKeys m K).length ≤ m.length + K.length := by
  induction K with
  | nil => intro m _; simp [insKeys]
  | cons k r ih =>
    intro m hs
    have := ih (sorted_pmInsert (k := k) (x := 0) hs)
    simp only [insKeys, List.foldl_cons, List.length_cons] at this ⊢
    have h2 := length_pmInsert (k := k) (x := 0) hs
    split at h2 <;> omega

/-- if no key was merged, the inserted keys are pairwise distinct and new -/
theorem length_insKeys_eq {K : List Nat} : ∀ {m : PMap}, Sorted m → (insKeys m K).length = m.length + K.length →
    K.Nodup ∧ ∀ k ∈ K, k ∉ pmKeys m := by
  induction K with
  | nil => intro m _ _; exact ⟨List.nodup_nil, by intro k h; cases h⟩
  | cons k r ih =>
    intro m hs hlen
    have hs1 := sorted_pmInsert (k := k) (x := 0) hs
    have hle := length_insKeys_le (K := r) hs1
    have h2 := length_pmInsert (k := k) (x := 0) hs
    simp only [insKeys, List.foldl_cons, List.length_cons] at hlen hle
    split at h2
    · omega
    · rename_i hk
      have := ih hs1 (by simp only [insKeys]; omega)
      refine ⟨List.nodup_cons.mpr ⟨?_, this.1⟩, ?_⟩
      · intro hkr
        exact this.2 k hkr ((mem_keys_pmInsert hs).mpr (Or.inl rfl))
      · intro k' hk'
        rcases List.mem_cons.mp hk' with rfl | hk'
        · exact hk
        · intro hm
          exact this.2 k' hk' ((mem_keys_pmInsert hs).mpr (Or.inr hm))

theorem sorted_keys_nodup {m : PMap} (hs : Sorted m) : (pmKeys m).Nodup := by
  unfold pmKeys
  induction m with
  | nil => exact List.nodup_nil
  | cons hd tl ih =>
    have hs' : Sorted tl := (List.pairwise_cons.mp hs).2
    have hlt : ∀ e ∈ tl, hd.1 < e.1 := fun e he => (List.pairwise_cons.mp hs).1 e he
    simp only [List.map_cons]
    refine List.nodup_cons.mpr ⟨?_, ih hs'⟩
    intro hm
    obtain ⟨e, he, heq⟩ := List.mem_map.mp hm
    have := hlt e he
    omega

/-- the values of a sub-map of an injective map are pairwise distinct -/
theorem cone_vals_nodup {L : List Nat} {om : OrderMap} {res : PMap} (hk : ConeOk L om res) : (pmVals res).Nodup := by
  have hs := hk.sorted
  have hsub := hk.sub
  unfold pmVals
  clear hk
  induction res with
  | nil => exact List.nodup_nil
  | cons hd tl ih =>
    have hs' : Sorted tl := (List.pairwise_cons.mp hs).2
    have hlt : ∀ e ∈ tl, hd.1 < e.1 := fun e he => (List.pairwise_cons.mp hs).1 e he
    simp only [List.map_cons]
    refine List.nodup_cons.mpr ⟨?_, ih hs' fun p n hm => hsub p n (List.mem_cons_of_mem _ hm)⟩
    intro hm
    obtain ⟨e, he, heq⟩ := List.mem_map.mp hm
    have h1 := (hsub hd.1 hd.2 (List.mem_cons_self ..)).2
    have h2 := (hsub e.1 e.2 (List.mem_cons_of_mem _ he)).2
    rw [heq, h1] at h2
    have := hlt e he
    simp only [Option.some.injEq] at h2
    omega

theorem coneOk_mem_p2n {L : List Nat} {om : OrderMap} {res : PMap} (h : OMInv L om) (hk : ConeOk L om res)
    {p n : Nat} (hm : (p, n) ∈ res) : (p, n) ∈ om.p2n := by
  obtain ⟨hn, hp⟩ := hk.sub p n hm
  obtain ⟨q, h1, h2⟩ := h.live_p2n n hn
  rw [hp] at h1; cases h1; exact h2

/-- the reorder step of `update_ordering` keeps the invariant, for any two cones that are sub-maps
of the order map and pass the `debug_assert_eq!` on the number of distinct positions -/
theorem inv_reorder {L : List Nat} {om om' : OrderMap} {bfut apast : PMap} (h : OMInv L om)
    (hb : ConeOk L om bfut) (ha : ConeOk L om apast)
    (hlen : (allPositions bfut apast).length = bfut.length + apast.length)
    (hr : assign om ((allPositions bfut apast).zip (pmVals apast ++ pmVals bfut)) = .ok om') : OMInv L om' := by
  have hall : allPositions bfut apast = pmKeys (insKeys [] (pmKeys bfut ++ pmKeys apast)) := rfl
  have hsK : Sorted (insKeys [] (pmKeys bfut ++ pmKeys apast)) := sorted_insKeys sorted_nil
  have hlenK : (insKeys [] (pmKeys bfut ++ pmKeys apast)).length = ([] : PMap).length + (pmKeys bfut ++ pmKeys apast).length := by
    have : (pmKeys (insKeys [] (pmKeys bfut ++ pmKeys apast))).length = bfut.length + apast.length := by rw [← hall]; exact hlen
    simp only [pmKeys, List.length_map, List.length_append, List.length_nil] at this ⊢
    omega
  obtain ⟨hnodupK, _⟩ := length_insKeys_eq sorted_nil hlenK
  have hdisj : ∀ k, k ∈ pmKeys bfut → k ∈ pmKeys apast → False := by
    intro k h1 h2
    exact (List.nodup_append.mp hnodupK).2.2 k h1 k h2 rfl
  have hmemP : ∀ q, q ∈ allPositions bfut apast ↔ q ∈ pmKeys bfut ∨ q ∈ pmKeys apast := by
    intro q
    rw [hall, mem_keys_insKeys sorted_nil]
    simp [pmKeys]
  have hlenN : (pmVals apast ++ pmVals bfut).length = (allPositions bfut apast).length := by
    rw [hlen]; simp [pmVals]; omega
  have hfst : ((allPositions bfut apast).zip (pmVals apast ++ pmVals bfut)).map (·.1) = allPositions bfut apast :=
    List.map_fst_zip (by omega)
  have hsnd : ((allPositions bfut apast).zip (pmVals apast ++ pmVals bfut)).map (·.2) = pmVals apast ++ pmVals bfut :=
    List.map_snd_zip (by omega)
  apply inv_reassign h ?_ ?_ ?_ ?_ hr
  · rw [hfst, hall]; exact sorted_keys_nodup hsK
  · rw [hsnd]
    refine List.nodup_append.mpr ⟨cone_vals_nodup ha, cone_vals_nodup hb, ?_⟩
    intro x hx1 y hx2 hxy
    subst hxy
    obtain ⟨p, hp⟩ := mem_pmVals.mp hx1
    obtain ⟨q, hq⟩ := mem_pmVals.mp hx2
    have h1 := (ha.sub p x hp).2
    have h2 := (hb.sub q x hq).2
    rw [h1] at h2; cases h2
    exact hdisj p (mem_pmKeys.mpr ⟨x, hq⟩) (mem_pmKeys.mpr ⟨x, hp⟩)
  · intro p hp
    rw [hfst] at hp
    rw [hsnd]
    rcases (hmemP p).mp hp with hp | hp
    · obtain ⟨n, hn⟩ := mem_pmKeys.mp hp
      exact ⟨n, List.mem_append.mpr (Or.inr (mem_pmVals.mpr ⟨p, hn⟩)), coneOk_mem_p2n h hb hn⟩
    · obtain ⟨n, hn⟩ := mem_pmKeys.mp hp
      exact ⟨n, List.mem_append.mpr (Or.inl (mem_pmVals.mpr ⟨p, hn⟩)), coneOk_mem_p2n h ha hn⟩
  · intro n hn
    rw [hsnd] at hn
    rw [hfst]
    rcases List.mem_append.mp hn with hn | hn
    · obtain ⟨p, hp⟩ := mem_pmVals.mp hn
      exact ⟨p, (hmemP p).mpr (Or.inr (mem_pmKeys.mpr ⟨n, hp⟩)), coneOk_mem_p2n h ha hp⟩
    · obtain ⟨p, hp⟩ := mem_pmVals.mp hn
      exact ⟨p, (hmemP p).mpr (Or.inl (mem_pmKeys.mpr ⟨n, hp⟩)), coneOk_mem_p2n h hb hp⟩

/-! ### `causal_cones`, `update_ordering`, `try_add_edge`, `is_valid_edge` -/

/-- both scratch bit sets are clear (the state between two calls) -/
def Clear (s : AState) : Prop := s.disc = [] ∧ s.fin = []

theorem isEmpty_and {a b : List Nat} (h : (!(a.isEmpty && b.isEmpty)) = false) : a = [] ∧ b = [] := by
  simp only [Bool.not_eq_eq_eq_not, Bool.not_false, Bool.and_eq_true, List.isEmpty_iff] at h
  exact h

/-- what a returning `causal_cones` guarantees: order map untouched, scratch sets clear before and
after, capacity only grows, and both cones are sub-maps of the order map on live nodes -/
theorem causalCones_spec {v : View} (hc : Closed v) {s s' : AState} {minN maxN : Nat} {c : Cones}
    (hmin : minN ∈ v.g.nodes) (hmax : maxN ∈ v.g.nodes)
    (h : causalCones v s minN maxN = .ok (s', c)) :
    s'.om = s.om ∧ Clear s ∧ Clear s' ∧ s.cap ≤ s'.cap ∧
    ∀ bf ap, c = some (bf, ap) → ConeOk v.g.nodes s.om bf ∧ ConeOk v.g.nodes s.om ap := by
  unfold causalCones at h
  split at h
  · cases h
  rename_i hclr
  have hclear : Clear s := by
    have : (!(s.disc.isEmpty && s.fin.isEmpty)) = false := by simpa using hclr
    exact isEmpty_and this
  split at h
  · cases h
  rename_i minP hminP
  split at h
  · cases h
  rename_i maxP hmaxP
  simp only at h
  have hcap : s.cap ≤ (if s.cap < v.nb then v.nb else s.cap) := by split <;> omega
  generalize (if s.cap < v.nb then v.nb else s.cap) = cap at h hcap
  split at h
  · cases h
  · -- cycle found by the future cone
    rename_i d1 heq1
    split at h
    · cases h
    rename_i hc1
    cases h
    have := isEmpty_and (by simpa using hc1)
    refine ⟨rfl, hclear, this, hcap, ?_⟩
    intro bf ap hcon; cases hcon
  · rename_i d1 heq1
    have hk1 := (dfs_cone v hc s.om cap .fut minP maxP (dfsFuel v)).1 minN {} d1 _ hmin (coneOk_nil _ _) heq1
    split at h
    · cases h
    · cases h
    · rename_i d2 heq2
      have hk2 := (dfs_cone v hc s.om cap .past minP maxP (dfsFuel v)).1 maxN _ d2 _ hmax (coneOk_nil _ _) heq2
      split at h
      · cases h
      rename_i hc2
      cases h
      have := isEmpty_and (by simpa using hc2)
      refine ⟨rfl, hclear, this, hcap, ?_⟩
      intro bf ap hcon
      cases hcon
      exact ⟨hk1, hk2⟩

/-- `update_ordering` keeps the invariant; a detected cycle leaves the order map untouched -/
theorem updateOrdering_spec {v : View} (hc : Closed v) {s s' : AState} {a b : Nat} {okb : Bool}
    (hinv : OMInv v.g.nodes s.om) (hclr : Clear s) (ha : a ∈ v.g.nodes) (hb : b ∈ v.g.nodes)
    (h : updateOrdering v s a b = .ok (s', okb)) :
    OMInv v.g.nodes s'.om ∧ Clear s' ∧ s.cap ≤ s'.cap ∧ (okb = false → s'.om = s.om) := by
  unfold updateOrdering at h
  split at h
  · cases h
  rename_i minP hminP
  split at h
  · cases h
  rename_i maxP hmaxP
  split at h
  · cases h
    exact ⟨hinv, hclr, Nat.le_refl _, fun _ => rfl⟩
  split at h
  · cases h
  · rename_i s1 hcc
    cases h
    obtain ⟨hom, _, hclr1, hcap, _⟩ := causalCones_spec hc hb ha hcc
    exact ⟨hom ▸ hinv, hclr1, hcap, fun _ => hom⟩
  · rename_i s1 bfut apast hcc
    obtain ⟨hom, _, hclr1, hcap, hcones⟩ := causalCones_spec hc hb ha hcc
    obtain ⟨hkb, hka⟩ := hcones bfut apast rfl
    simp only at h
    split at h
    · cases h
    rename_i hlen
    split at h
    · cases h
    rename_i om2 hassign
    cases h
    have hlen' : (allPositions bfut apast).length = bfut.length + apast.length := by
      simpa using hlen
    rw [hom] at hassign
    exact ⟨inv_reorder hinv hkb hka hlen' hassign, hclr1, hcap, fun hf => by cases hf⟩

/-- **the invariant under `try_add_edge` / `try_update_edge`**, and **reject ⇒ unchanged** -/
theorem tryAddEdge_spec {v : View} (hc : Closed v) {s s' : AState} {a b : Nat} {r : EdgeRes}
    (hinv : OMInv v.g.nodes s.om) (hclr : Clear s) (ha : a ∈ v.g.nodes) (hb : b ∈ v.g.nodes)
    (h : tryAddEdge v s a b = .ok (s', r)) :
    OMInv v.g.nodes s'.om ∧ Clear s' ∧ s.cap ≤ s'.cap ∧
    (r ≠ .accepted → s'.om = s.om ∧ s'.disc = s.disc ∧ s'.fin = s.fin) := by
  unfold tryAddEdge at h
  split at h
  · cases h
    exact ⟨hinv, hclr, Nat.le_refl _, fun _ => ⟨rfl, rfl, rfl⟩⟩
  split at h
  · cases h
  · rename_i s1 hu
    cases h
    obtain ⟨h1, h2, h3, h4⟩ := updateOrdering_spec hc hinv hclr ha hb hu
    exact ⟨h1, h2, h3, fun _ => ⟨h4 rfl, by rw [h2.1, hclr.1], by rw [h2.2, hclr.2]⟩⟩
  · rename_i s1 hu
    obtain ⟨h1, h2, h3, _⟩ := updateOrdering_spec hc hinv hclr ha hb hu
    split at h
    · cases h
      exact ⟨h1, h2, h3, fun hne => absurd rfl hne⟩
    · cases h

/-- **`is_valid_edge` predicts `try_add_edge`** on live nodes -/
theorem valid_iff_accepts {v : View} {s s1 s2 : AState} {a b : Nat} {r : Bool} {res : EdgeRes}
    (hinv : OMInv v.g.nodes s.om) (ha : a ∈ v.g.nodes) (hb : b ∈ v.g.nodes)
    (h1 : isValidEdge v s a b = .ok (s1, r)) (h2 : tryAddEdge v s a b = .ok (s2, res)) :
    (r = true ↔ res = .accepted) := by
  unfold isValidEdge at h1
  unfold tryAddEdge at h2
  by_cases hab : a = b
  · simp only [hab, ↓reduceIte] at h1 h2
    cases h1; cases h2
    simp
  · simp only [hab, ↓reduceIte] at h1 h2
    have hla : live v a = true := (live_iff v a).mpr ha
    have hlb : live v b = true := (live_iff v b).mpr hb
    obtain ⟨pa, hpa, _⟩ := hinv.getPos ha
    obtain ⟨pb, hpb, _⟩ := hinv.getPos hb
    have hne : pa ≠ pb := by
      intro he
      have := hinv.pos_inj ha hb hab
      rw [hpa, hpb, he] at this
      exact this rfl
    simp only [hpa, hpb] at h1
    unfold updateOrdering at h2
    simp only [hpa, hpb, hla, hlb, Bool.and_self, ↓reduceIte] at h2
    by_cases hlt : pa < pb
    · simp only [hlt, ↓reduceIte] at h1
      have : pb ≥ pa := by omega
      simp only [this, ↓reduceIte] at h2
      cases h1; cases h2; simp
    · simp only [hlt, ↓reduceIte] at h1
      have : ¬ pb ≥ pa := by omega
      simp only [this, ↓reduceIte] at h2
      cases hcc : causalCones v s b a with
      | error e => simp [hcc] at h1
      | ok sc =>
        obtain ⟨sc1, c⟩ := sc
        simp only [hcc] at h1 h2
        cases h1
        cases c with
        | none => simp only at h2; cases h2; simp
        | some bc =>
          obtain ⟨bfut, apast⟩ := bc
          simp only at h2
          split at h2
          · cases h2
          · rename_i heq
            exfalso
            split at heq
            · cases heq
            · split at heq <;> cases heq
          · cases h2; simp

theorem removeNode_scratch {v v' : View} {s s' : AState} {n : Nat} {r : Bool}
    (h : Acy.removeNode v v' s n = .ok (s', r)) : s'.disc = s.disc ∧ s'.fin = s.fin := by
  unfold Acy.removeNode at h
  simp only at h
  split at h
  · cases h; exact ⟨rfl, rfl⟩
  split at h
  · cases h
  split at h
  · split at h
    · cases h
    split at h
    · cases h
    · cases h; exact ⟨rfl, rfl⟩
  · cases h; exact ⟨rfl, rfl⟩

/-- `remove_node(n)` leaves the position of every other index as it was; when the inner graph moved
its last node into `n`, index `n` now has that node's position -/
theorem removeNode_positions {v v' : View} {s s' : AState} {n : Nat} {r : Bool}
    (h : Acy.removeNode v v' s n = .ok (s', r)) :
    (∀ x, x ≠ n → s'.om.getPos x = s.om.getPos x) ∧
    (n ∈ v.g.nodes → n ∈ v'.g.nodes → v.nb - 1 ≠ n → s'.om.getPos n = s.om.getPos (v.nb - 1)) := by
  unfold Acy.removeNode at h
  simp only at h
  split at h
  · rename_i hl
    cases h
    refine ⟨fun _ _ => rfl, ?_⟩
    intro hn
    have : live v n = true := (live_iff v n).mpr hn
    rw [this] at hl; cases hl
  split at h
  · cases h
  rename_i om1 h1
  unfold OrderMap.removeNode at h1
  split at h1
  case h_2 => cases h1
  rename_i p0 hp0
  cases h1
  split at h
  · rename_i hl'
    split at h
    · cases h
    rename_i p hp
    split at h
    · cases h
    rename_i om2 h2
    cases h
    unfold OrderMap.setPos at h2
    split at h2
    case isFalse => cases h2
    rename_i hlen
    cases h2
    constructor
    · intro x hx
      simp only [OrderMap.getPos]
      rw [List.getElem?_set_ne (Ne.symm hx), List.getElem?_set_ne (Ne.symm hx)]
    · intro _ _ hne
      simp only [OrderMap.getPos] at hp ⊢
      rw [List.getElem?_set_ne (Ne.symm hne)] at hp
      simp only [List.length_set] at hlen
      rw [List.getElem?_set_self (by simpa using hlen)]
      split at hp
      · rename_i q hq; cases hp; first | rfl | rw [hq]
      · cases hp
  · rename_i hl'
    cases h
    constructor
    · intro x hx
      simp only [OrderMap.getPos]
      rw [List.getElem?_set_ne (Ne.symm hx)]
    · intro _ hn'
      have : live v' n = true := (live_iff v' n).mpr hn'
      rw [this] at hl'; exact absurd rfl hl'

/-! ### histories -/

/-- one call on `Acyclic<G>`, together with the inner graph `v'` that the inner `G` leaves behind
when the call reaches it (the inner graph is a parameter of the model, not part of it) -/
inductive Call where
  | addNode (i : Nat) (v' : View)             -- `Build::add_node`, the inner graph returned index `i`
  | edge (a b : Nat) (v' : View)              -- `try_add_edge` / `try_update_edge` / `Build::add_edge` / `update_edge`
  | removeNode (n : Nat) (v' : View)
  | removeEdge (v' : View)
  | isValid (a b : Nat)

/-- the contract of the inner graph type for each call: which indices are live afterwards -/
def Call.InnerOk (v : View) : Call → Prop
  | .addNode i v' => i ∉ v.g.nodes ∧ (∀ x, x ∈ v'.g.nodes ↔ x = i ∨ x ∈ v.g.nodes) ∧ Closed v'
  | .edge a b v' => a ∈ v.g.nodes ∧ b ∈ v.g.nodes ∧ v'.g.nodes = v.g.nodes ∧ Closed v'
  | .removeNode n v' => (n ∈ v.g.nodes → RemoveContract v v' n) ∧ Closed v'
  | .removeEdge v' => v'.g.nodes = v.g.nodes ∧ Closed v'
  | .isValid a b => a ∈ v.g.nodes ∧ b ∈ v.g.nodes

/-- the model's transition; `.error` = the call panics -/
def stepCall (v : View) (s : AState) : Call → Except String (View × AState)
  | .addNode i v' =>
    match Acy.addNode v' s i with
    | .ok s' => .ok (v', s')
    | .error e => .error e
  | .edge a b v' =>
    match tryAddEdge v s a b with
    | .ok (s', .accepted) => .ok (v', s')
    | .ok (s', _) => .ok (v, s')
    | .error e => .error e
  | .removeNode n v' =>
    match Acy.removeNode v v' s n with
    | .ok (s', true) => .ok (v', s')
    | .ok (s', false) => .ok (v, s')
    | .error e => .error e
  | .removeEdge v' => .ok (v', s)
  | .isValid a b =>
    match isValidEdge v s a b with
    | .ok (s', _) => .ok (v, s')
    | .error e => .error e

/-- the representation invariant of `Acyclic<G>` (order-map part) -/
def Inv (v : View) (s : AState) : Prop := OMInv v.g.nodes s.om ∧ Clear s ∧ Closed v

theorem isValidEdge_spec {v : View} (hc : Closed v) {s s' : AState} {a b : Nat} {r : Bool}
    (ha : a ∈ v.g.nodes) (hb : b ∈ v.g.nodes) (hclr : Clear s)
    (h : isValidEdge v s a b = .ok (s', r)) : s'.om = s.om ∧ Clear s' ∧ s.cap ≤ s'.cap := by
  unfold isValidEdge at h
  split at h
  · cases h; exact ⟨rfl, hclr, Nat.le_refl _⟩
  split at h
  · cases h
  split at h
  · cases h
  split at h
  · cases h; exact ⟨rfl, hclr, Nat.le_refl _⟩
  split at h
  · cases h
  · rename_i s1 c hcc
    cases h
    obtain ⟨h1, _, h3, h4, _⟩ := causalCones_spec hc hb ha hcc
    exact ⟨h1, h3, h4⟩

theorem inv_step {v : View} {s : AState} {c : Call} {v1 : View} {s1 : AState} (hinv : Inv v s)
    (hok : c.InnerOk v) (h : stepCall v s c = .ok (v1, s1)) : Inv v1 s1 := by
  obtain ⟨hom, hclr, hcl⟩ := hinv
  cases c with
  | addNode i v' =>
    obtain ⟨hi, hL, hcl'⟩ := hok
    simp only [stepCall] at h
    split at h
    · rename_i s' hs
      cases h
      unfold Acy.addNode at hs
      split at hs
      · cases hs
      · rename_i om' hom'
        cases hs
        exact ⟨inv_addNode hom hi hL hom', hclr, hcl'⟩
    · cases h
  | edge a b v' =>
    obtain ⟨ha, hb, hL, hcl'⟩ := hok
    simp only [stepCall] at h
    split at h
    · rename_i s' hs
      cases h
      obtain ⟨h1, h2, _, _⟩ := tryAddEdge_spec hcl hom hclr ha hb hs
      exact ⟨hL ▸ h1, h2, hcl'⟩
    · rename_i s' r hne hs
      cases h
      obtain ⟨h1, h2, _, _⟩ := tryAddEdge_spec hcl hom hclr ha hb hs
      exact ⟨h1, h2, hcl⟩
    · cases h
  | removeNode n v' =>
    obtain ⟨hct, hcl'⟩ := hok
    simp only [stepCall] at h
    by_cases hn : n ∈ v.g.nodes
    · split at h
      · rename_i s' hs
        cases h
        have hsc := removeNode_scratch hs
        exact ⟨(inv_removeNode hom hn (hct hn) hs).1, ⟨hsc.1.trans hclr.1, hsc.2.trans hclr.2⟩, hcl'⟩
      · rename_i s' hs
        have := (inv_removeNode hom hn (hct hn) hs).2
        cases this
      · cases h
    · rw [removeNode_absent v v' s n hn] at h
      cases h
      exact ⟨hom, hclr, hcl⟩
  | removeEdge v' =>
    obtain ⟨hL, hcl'⟩ := hok
    simp only [stepCall] at h
    cases h
    exact ⟨hL ▸ hom, hclr, hcl'⟩
  | isValid a b =>
    obtain ⟨ha, hb⟩ := hok
    simp only [stepCall] at h
    split at h
    · rename_i s' r hs
      cases h
      obtain ⟨h1, h2, _⟩ := isValidEdge_spec hcl ha hb hclr hs
      exact ⟨h1 ▸ hom, h2, hcl⟩
    · cases h

/-- run a history; every call must satisfy the inner-graph contract in the state it is issued in -/
def runCalls : View → AState → List Call → Except String (View × AState)
  | v, s, [] => .ok (v, s)
  | v, s, c :: cs =>
    match stepCall v s c with
    | .ok (v1, s1) => runCalls v1 s1 cs
    | .error e => .error e

/-- the inner-graph contract along a history -/
def HistoryOk : View → AState → List Call → Prop
  | _, _, [] => True
  | v, s, c :: cs => c.InnerOk v ∧ ∀ v1 s1, stepCall v s c = .ok (v1, s1) → HistoryOk v1 s1 cs

theorem inv_history : ∀ (cs : List Call) (v : View) (s : AState) (vn : View) (sn : AState), Inv v s →
    HistoryOk v s cs → runCalls v s cs = .ok (vn, sn) → Inv vn sn := by
  intro cs
  induction cs with
  | nil => intro v s vn sn hinv _ h; simp only [runCalls] at h; cases h; exact hinv
  | cons c cs ih =>
    intro v s vn sn hinv hok h
    simp only [runCalls] at h
    split at h
    · rename_i v1 s1 hs
      exact ih v1 s1 vn sn (inv_step hinv hok.1 hs) (hok.2 v1 s1 hs) h
    · cases h

theorem inv_new : Inv { (default : View) with g := { directed := true, nodes := [], edges := [] } } {} := by
  refine ⟨inv_empty, ⟨rfl, rfl⟩, ?_⟩
  intro x hx; cases hx

/-! ## Part 4 — what the bounded cone searches find -/

/-- the view's neighbour lists are the adjacency of its abstract graph -/
def ViewOk (v : View) : Prop := (∀ x y, y ∈ v.succ x ↔ v.g.Adj x y) ∧ (∀ x y, y ∈ v.pred x ↔ v.g.Adj y x)

/-- every edge goes forward in the maintained order -/
def OrderValid (v : View) (om : OrderMap) : Prop :=
  ∀ a b, b ∈ v.succ a → ∀ pa pb, om.getPos a = .ok pa → om.getPos b = .ok pb → pa < pb

/-- reachability in the direction of the search -/
def RD (dir : Dir) (g : MGraph) (u x : Nat) : Prop :=
  match dir with
  | .fut => Reach g u x
  | .past => Reach g x u

theorem rd_refl (dir : Dir) (g : MGraph) (u : Nat) : RD dir g u u := by
  cases dir <;> exact Reach.refl _

theorem rd_step {dir : Dir} {v : View} (hv : ViewOk v) {u w x : Nat} (hw : w ∈ nbrs dir v u)
    (h : RD dir v.g w x) : RD dir v.g u x := by
  cases dir with
  | fut => exact reach_trans (Reach.step (Reach.refl _) ((hv.1 u w).mp hw)) h
  | past => exact Reach.step h ((hv.2 u w).mp hw)

/-- SOUNDNESS of the cone search: whatever it discovers is reachable from the start, and a reported
cycle is a reachable node sitting exactly at `max_position` -/
theorem dfs_sound (v : View) (hv : ViewOk v) (om : OrderMap) (cap : Nat) (dir : Dir) (minP maxP : Nat) :
    ∀ f,
      (∀ u s s' r, dfsV v om cap dir minP maxP f u s = (s', r) →
        (∀ x, x ∈ s'.disc → x ∈ s.disc ∨ RD dir v.g u x) ∧
        (r = .cycle → ∃ y, RD dir v.g u y ∧ om.getPos y = .ok maxP)) ∧
      (∀ u ws s s' r, (∀ w ∈ ws, w ∈ nbrs dir v u) → dfsN v om cap dir minP maxP f u ws s = (s', r) →
        (∀ x, x ∈ s'.disc → x ∈ s.disc ∨ RD dir v.g u x) ∧
        (r = .cycle → ∃ y, RD dir v.g u y ∧ om.getPos y = .ok maxP)) := by
  intro f
  induction f with
  | zero =>
    constructor
    · intro u s s' r h
      simp only [dfsV] at h
      cases h; exact ⟨fun x hx => Or.inl hx, fun hh => by cases hh⟩
    · intro u ws s s' r _ h
      simp only [dfsN] at h
      cases h; exact ⟨fun x hx => Or.inl hx, fun hh => by cases hh⟩
  | succ f ih =>
    obtain ⟨ihV, ihN⟩ := ih
    constructor
    · intro u s s' r h
      simp only [dfsV] at h
      split at h
      · cases h; exact ⟨fun x hx => Or.inl hx, fun hh => by cases hh⟩
      split at h
      · cases h; exact ⟨fun x hx => Or.inl hx, fun hh => by cases hh⟩
      split at h
      · cases h
        refine ⟨fun x hx => ?_, fun hh => by cases hh⟩
        rcases List.mem_cons.mp hx with rfl | hx
        · exact Or.inr (rd_refl _ _ _)
        · exact Or.inl hx
      rename_i p hp
      have key : ∀ s2 r2, dfsN v om cap dir minP maxP f u (nbrs dir v u)
            { disc := u :: s.disc, fin := s.fin, res := pmInsert s.res p u } = (s2, r2) →
          (∀ x, x ∈ s2.disc → x ∈ s.disc ∨ RD dir v.g u x) ∧
          (r2 = .cycle → ∃ y, RD dir v.g u y ∧ om.getPos y = .ok maxP) := by
        intro s2 r2 heq
        obtain ⟨h1, h2⟩ := ihN u _ _ s2 r2 (fun w hw => hw) heq
        refine ⟨fun x hx => ?_, h2⟩
        rcases h1 x hx with hx | hx
        · rcases List.mem_cons.mp hx with rfl | hx
          · exact Or.inr (rd_refl _ _ _)
          · exact Or.inl hx
        · exact Or.inr hx
      split at h
      · rename_i s2 heq
        cases h
        obtain ⟨h1, _⟩ := key s2 .ok heq
        exact ⟨h1, fun hh => by cases hh⟩
      · rename_i r' hne
        cases hr : dfsN v om cap dir minP maxP f u (nbrs dir v u)
            { disc := u :: s.disc, fin := s.fin, res := pmInsert s.res p u } with
        | mk s2 r2 =>
          rw [hr] at h
          cases h
          exact key _ _ hr
    · intro u ws s s' r hws h
      cases ws with
      | nil => simp only [dfsN] at h; cases h; exact ⟨fun x hx => Or.inl hx, fun hh => by cases hh⟩
      | cons w ws =>
        have hw : w ∈ nbrs dir v u := hws w (List.mem_cons_self ..)
        have hws' : ∀ x ∈ ws, x ∈ nbrs dir v u := fun x hx => hws x (List.mem_cons_of_mem _ hx)
        simp only [dfsN] at h
        split at h
        · exact ihN u ws s s' r hws' h
        split at h
        · cases h; exact ⟨fun x hx => Or.inl hx, fun hh => by cases hh⟩
        rename_i p hp
        split at h
        · -- go
          have keyV : ∀ s1 r1, dfsV v om cap dir minP maxP f w s = (s1, r1) →
              (∀ x, x ∈ s1.disc → x ∈ s.disc ∨ RD dir v.g u x) ∧
              (r1 = .cycle → ∃ y, RD dir v.g u y ∧ om.getPos y = .ok maxP) := by
            intro s1 r1 heq
            obtain ⟨h1, h2⟩ := ihV w s s1 r1 heq
            refine ⟨fun x hx => ?_, fun hh => ?_⟩
            · rcases h1 x hx with hx | hx
              · exact Or.inl hx
              · exact Or.inr (rd_step hv hw hx)
            · obtain ⟨y, hy1, hy2⟩ := h2 hh
              exact ⟨y, rd_step hv hw hy1, hy2⟩
          split at h
          · rename_i s1 heq
            obtain ⟨h1, _⟩ := keyV s1 .ok heq
            obtain ⟨h3, h4⟩ := ihN u ws s1 s' r hws' h
            refine ⟨fun x hx => ?_, h4⟩
            rcases h3 x hx with hx | hx
            · exact h1 x hx
            · exact Or.inr hx
          · rename_i r' hne
            cases hr : dfsV v om cap dir minP maxP f w s with
            | mk s1 r1 =>
              rw [hr] at h
              cases h
              exact keyV _ _ hr
        · exact ihN u ws s s' r hws' h
        · -- cycle: `w` sits at max_position
          rename_i hcyc
          cases h
          refine ⟨fun x hx => Or.inl hx, fun _ => ⟨w, rd_step hv hw (rd_refl _ _ _), ?_⟩⟩
          have : p = maxP := by
            unfold validOrder at hcyc
            cases dir with
            | fut =>
              simp only at hcyc
              split at hcyc
              · cases hcyc
              split at hcyc
              · cases hcyc
              split at hcyc
              · rename_i he; exact he
              · cases hcyc
            | past =>
              simp only at hcyc
              split at hcyc
              · cases hcyc
              split at hcyc
              · cases hcyc
              split at hcyc <;> cases hcyc
          rw [← this]; exact hp
        · cases h; exact ⟨fun x hx => Or.inl hx, fun hh => by cases hh⟩

/-- `y` was looked at and cut off because it lies beyond the window -/
def Pruned (om : OrderMap) (dir : Dir) (minP maxP : Nat) (y : Nat) : Prop :=
  ∃ p, om.getPos y = .ok p ∧ validOrder dir minP maxP p = .prune
/-- `y` lies inside the window -/
def Go (om : OrderMap) (dir : Dir) (minP maxP : Nat) (y : Nat) : Prop :=
  ∃ p, om.getPos y = .ok p ∧ validOrder dir minP maxP p = .go
/-- every neighbour of a finished node (other than those in `base`, finished by an earlier search) is
discovered or was cut off -/
def FinClosed (v : View) (om : OrderMap) (dir : Dir) (minP maxP : Nat) (base : List Nat) (s : DS) : Prop :=
  ∀ x, x ∈ s.fin → x ∉ base → ∀ y, y ∈ nbrs dir v x → y ∈ s.disc ∨ Pruned om dir minP maxP y

/-- the facts the completeness argument needs about one (returning) call of the search -/
structure Step (v : View) (om : OrderMap) (dir : Dir) (minP maxP : Nat) (s s' : DS) (r : DRes) : Prop where
  discMono : ∀ x, x ∈ s.disc → x ∈ s'.disc
  finMono : ∀ x, x ∈ s.fin → x ∈ s'.fin
  newFin : r = .ok → ∀ x, x ∈ s'.disc → x ∈ s.disc ∨ x ∈ s'.fin
  closed : r = .ok → ∀ base, FinClosed v om dir minP maxP base s → FinClosed v om dir minP maxP base s'

theorem step_refl (v : View) (om : OrderMap) (dir : Dir) (minP maxP : Nat) (s : DS) (r : DRes) :
    Step v om dir minP maxP s s r :=
  ⟨fun _ h => h, fun _ h => h, fun _ _ h => Or.inl h, fun _ _ h => h⟩

theorem step_trans {v : View} {om : OrderMap} {dir : Dir} {minP maxP : Nat} {s s1 s2 : DS} {r : DRes}
    (h1 : Step v om dir minP maxP s s1 .ok) (h2 : Step v om dir minP maxP s1 s2 r) :
    Step v om dir minP maxP s s2 r := by
  refine ⟨fun x hx => h2.discMono x (h1.discMono x hx), fun x hx => h2.finMono x (h1.finMono x hx), ?_, ?_⟩
  · intro hr x hx
    rcases h2.newFin hr x hx with hx | hx
    · rcases h1.newFin rfl x hx with hx | hx
      · exact Or.inl hx
      · exact Or.inr (h2.finMono x hx)
    · exact Or.inr hx
  · intro hr base hc
    exact h2.closed hr base (h1.closed rfl base hc)

/-- COMPLETENESS of the cone search: a call that returns normally has discovered its start, has
finished everything it discovered, newly discovered nodes lie inside the window, and every neighbour
of a finished node is discovered or was cut off -/
theorem dfs_complete (v : View) (om : OrderMap) (cap : Nat) (dir : Dir) (minP maxP : Nat) :
    ∀ f,
      (∀ u s s' r, dfsV v om cap dir minP maxP f u s = (s', r) →
        Step v om dir minP maxP s s' r ∧ (r = .ok → u ∈ s'.disc) ∧
        (∀ x, x ∈ s'.disc → x ∈ s.disc ∨ x = u ∨ Go om dir minP maxP x)) ∧
      (∀ u ws s s' r, dfsN v om cap dir minP maxP f u ws s = (s', r) →
        Step v om dir minP maxP s s' r ∧
        (r = .ok → ∀ w, w ∈ ws → w ∈ s'.disc ∨ Pruned om dir minP maxP w) ∧
        (∀ x, x ∈ s'.disc → x ∈ s.disc ∨ Go om dir minP maxP x)) := by
  intro f
  induction f with
  | zero =>
    constructor
    · intro u s s' r h
      simp only [dfsV] at h
      cases h; exact ⟨step_refl .., fun hh => (by cases hh), fun x hx => Or.inl hx⟩
    · intro u ws s s' r h
      simp only [dfsN] at h
      cases h; exact ⟨step_refl .., fun hh => (by cases hh), fun x hx => Or.inl hx⟩
  | succ f ih =>
    obtain ⟨ihV, ihN⟩ := ih
    constructor
    · intro u s s' r h
      simp only [dfsV] at h
      split at h
      · cases h; exact ⟨step_refl .., fun hh => (by cases hh), fun x hx => Or.inl hx⟩
      split at h
      · rename_i hdisc
        cases h
        exact ⟨step_refl .., fun _ => (by simpa using hdisc), fun x hx => Or.inl hx⟩
      split at h
      · cases h
        refine ⟨⟨fun x hx => List.mem_cons_of_mem _ hx, fun x hx => hx, fun hh => (by cases hh), fun hh => (by cases hh)⟩,
          fun hh => (by cases hh), fun x hx => ?_⟩
        rcases List.mem_cons.mp hx with rfl | hx
        · exact Or.inr (Or.inl rfl)
        · exact Or.inl hx
      rename_i p hp
      cases hr : dfsN v om cap dir minP maxP f u (nbrs dir v u)
          { disc := u :: s.disc, fin := s.fin, res := pmInsert s.res p u } with
      | mk s2 r2 =>
        obtain ⟨hst, hnb, hgo⟩ := ihN u _ _ s2 r2 hr
        have hgo' : ∀ x, x ∈ s2.disc → x ∈ s.disc ∨ x = u ∨ Go om dir minP maxP x := by
          intro x hx
          rcases hgo x hx with hx | hx
          · rcases List.mem_cons.mp hx with rfl | hx
            · exact Or.inr (Or.inl rfl)
            · exact Or.inl hx
          · exact Or.inr (Or.inr hx)
        rw [hr] at h
        cases r2 with
        | ok =>
          simp only at h
          cases h
          refine ⟨⟨?_, ?_, ?_, ?_⟩, ?_, hgo'⟩
          · intro x hx; exact hst.discMono x (List.mem_cons_of_mem _ hx)
          · intro x hx; exact List.mem_cons_of_mem _ (hst.finMono x hx)
          · intro _ x hx
            rcases hst.newFin rfl x hx with hx | hx
            · rcases List.mem_cons.mp hx with rfl | hx
              · exact Or.inr (List.mem_cons_self ..)
              · exact Or.inl hx
            · exact Or.inr (List.mem_cons_of_mem _ hx)
          · intro _ base hc x hx hxb y hy
            rcases List.mem_cons.mp hx with rfl | hx
            · exact hnb rfl y hy
            · have hc1 : FinClosed v om dir minP maxP base { disc := u :: s.disc, fin := s.fin, res := pmInsert s.res p u } := by
                intro x' hx' hxb' y' hy'
                rcases hc x' hx' hxb' y' hy' with h' | h'
                · exact Or.inl (List.mem_cons_of_mem _ h')
                · exact Or.inr h'
              exact hst.closed rfl base hc1 x hx hxb y hy
          · intro _; exact hst.discMono u (List.mem_cons_self ..)
        | cycle =>
          simp only at h
          cases h
          exact ⟨⟨fun x hx => hst.discMono x (List.mem_cons_of_mem _ hx), hst.finMono, fun hh => (by cases hh), fun hh => (by cases hh)⟩,
            fun hh => (by cases hh), hgo'⟩
        | panic e =>
          simp only at h
          cases h
          exact ⟨⟨fun x hx => hst.discMono x (List.mem_cons_of_mem _ hx), hst.finMono, fun hh => (by cases hh), fun hh => (by cases hh)⟩,
            fun hh => (by cases hh), hgo'⟩
    · intro u ws s s' r h
      cases ws with
      | nil =>
        simp only [dfsN] at h; cases h
        exact ⟨step_refl .., fun _ w hw => (by cases hw), fun x hx => Or.inl hx⟩
      | cons w ws =>
        simp only [dfsN] at h
        split at h
        · rename_i hdisc
          obtain ⟨hst, hnb, hgo⟩ := ihN u ws s s' r h
          refine ⟨hst, fun hr w' hw' => ?_, hgo⟩
          rcases List.mem_cons.mp hw' with rfl | hw'
          · exact Or.inl (hst.discMono _ (by simpa using hdisc))
          · exact hnb hr w' hw'
        split at h
        · cases h; exact ⟨step_refl .., fun hh => (by cases hh), fun x hx => Or.inl hx⟩
        rename_i p hp
        split at h
        · -- go
          rename_i hgoW
          cases hr : dfsV v om cap dir minP maxP f w s with
          | mk s1 r1 =>
            obtain ⟨hst1, hw1, hgo1⟩ := ihV w s s1 r1 hr
            have hgo1' : ∀ x, x ∈ s1.disc → x ∈ s.disc ∨ Go om dir minP maxP x := by
              intro x hx
              rcases hgo1 x hx with hx | rfl | hx
              · exact Or.inl hx
              · exact Or.inr ⟨p, hp, hgoW⟩
              · exact Or.inr hx
            rw [hr] at h
            cases r1 with
            | ok =>
              simp only at h
              obtain ⟨hst2, hnb2, hgo2⟩ := ihN u ws s1 s' r h
              refine ⟨step_trans hst1 hst2, fun hr' w' hw' => ?_, fun x hx => ?_⟩
              · rcases List.mem_cons.mp hw' with rfl | hw'
                · exact Or.inl (hst2.discMono _ (hw1 rfl))
                · exact hnb2 hr' w' hw'
              · rcases hgo2 x hx with hx | hx
                · exact hgo1' x hx
                · exact Or.inr hx
            | cycle =>
              simp only at h
              cases h
              exact ⟨hst1, fun hh => (by cases hh), hgo1'⟩
            | panic e =>
              simp only at h
              cases h
              exact ⟨hst1, fun hh => (by cases hh), hgo1'⟩
        · -- prune
          rename_i hpr
          obtain ⟨hst, hnb, hgo⟩ := ihN u ws s s' r h
          refine ⟨hst, fun hr w' hw' => ?_, hgo⟩
          rcases List.mem_cons.mp hw' with rfl | hw'
          · exact Or.inr ⟨p, hp, hpr⟩
          · exact hnb hr w' hw'
        · cases h; exact ⟨step_refl .., fun hh => (by cases hh), fun x hx => Or.inl hx⟩
        · cases h; exact ⟨step_refl .., fun hh => (by cases hh), fun x hx => Or.inl hx⟩

/-! ### consequences for `try_add_edge` -/

/-- what a returning `causal_cones` ran -/
theorem causalCones_inv {v : View} {s s' : AState} {minN maxN : Nat} {c : Cones}
    (h : causalCones v s minN maxN = .ok (s', c)) :
    ∃ minP maxP cap, s.om.getPos minN = .ok minP ∧ s.om.getPos maxN = .ok maxP ∧
      ((c = none ∧ ∃ d1, dfsV v s.om cap .fut minP maxP (dfsFuel v) minN {} = (d1, .cycle)) ∨
       (∃ d1 d2, dfsV v s.om cap .fut minP maxP (dfsFuel v) minN {} = (d1, .ok) ∧
          dfsV v s.om cap .past minP maxP (dfsFuel v) maxN { disc := d1.disc, fin := d1.fin, res := [] } = (d2, .ok) ∧
          c = some (d1.res, d2.res))) := by
  unfold causalCones at h
  split at h
  · cases h
  split at h
  · cases h
  rename_i minP hminP
  split at h
  · cases h
  rename_i maxP hmaxP
  simp only at h
  refine ⟨minP, maxP, (if s.cap < v.nb then v.nb else s.cap), hminP, hmaxP, ?_⟩
  split at h
  · cases h
  · rename_i d1 heq1
    split at h
    · cases h
    cases h
    exact Or.inl ⟨rfl, d1, heq1⟩
  · rename_i d1 heq1
    split at h
    · cases h
    · cases h
    · rename_i d2 heq2
      split at h
      · cases h
      cases h
      exact Or.inr ⟨d1, d2, heq1, heq2, rfl⟩

/-- along a walk from a live node: nodes stay live and positions strictly increase -/
theorem reach_pos {v : View} {om : OrderMap} (hv : ViewOk v) (hc : Closed v) (hinv : OMInv v.g.nodes om)
    (hov : OrderValid v om) {x y : Nat} (hx : x ∈ v.g.nodes) (h : Reach v.g x y) :
    y ∈ v.g.nodes ∧ (x = y ∨ ∀ px py, om.getPos x = .ok px → om.getPos y = .ok py → px < py) := by
  induction h with
  | refl => exact ⟨hx, Or.inl rfl⟩
  | step hxy hadj ih =>
    rename_i y' y
    obtain ⟨hy', hpos⟩ := ih
    have hsucc : y ∈ v.succ y' := (hv.1 y' y).mpr hadj
    have hy : y ∈ v.g.nodes := (hc y' hy').1 y hsucc
    refine ⟨hy, Or.inr ?_⟩
    intro px py hpx hpy
    obtain ⟨py', hpy', _⟩ := hinv.getPos hy'
    have := hov y' y hsucc py' py hpy' hpy
    rcases hpos with rfl | hpos
    · rw [hpx] at hpy'; cases hpy'; exact this
    · have := hpos px py' hpx hpy'; omega

theorem validOrder_fut_prune {minP maxP p : Nat} (h : validOrder .fut minP maxP p = .prune) : maxP < p := by
  unfold validOrder at h
  simp only at h
  split at h
  · cases h
  split at h
  · cases h
  split at h
  · cases h
  · omega

theorem validOrder_fut_go {minP maxP p : Nat} (h : validOrder .fut minP maxP p = .go) : p < maxP := by
  unfold validOrder at h
  simp only at h
  split at h
  · cases h
  split at h
  · assumption
  split at h <;> cases h

/-- SAFETY: if the future cone search from `b` returns normally, `b` does not reach any live node
sitting at `max_position` -/
theorem fut_ok_no_path {v : View} {om : OrderMap} (hv : ViewOk v) (hc : Closed v) (hinv : OMInv v.g.nodes om)
    (hov : OrderValid v om) {a b minP maxP cap : Nat} {d1 : DS} (ha : a ∈ v.g.nodes) (hb : b ∈ v.g.nodes)
    (hab : a ≠ b) (hpa : om.getPos a = .ok maxP)
    (hd : dfsV v om cap .fut minP maxP (dfsFuel v) b {} = (d1, .ok)) : ¬ Reach v.g b a := by
  intro hreach
  obtain ⟨hst, hbd, hgo⟩ := (dfs_complete v om cap .fut minP maxP (dfsFuel v)).1 b {} d1 .ok hd
  have hfin : ∀ x, x ∈ d1.disc → x ∈ d1.fin := by
    intro x hx
    rcases hst.newFin rfl x hx with h | h
    · cases h
    · exact h
  have hcl : FinClosed v om .fut minP maxP [] d1 := hst.closed rfl [] (by intro x hx; cases hx)
  have claim : ∀ y, Reach v.g b y → (∀ py, om.getPos y = .ok py → py ≤ maxP) → y ∈ d1.disc := by
    intro y hy
    induction hy with
    | refl => intro _; exact hbd rfl
    | step hby' hadj ih =>
      rename_i y' y
      intro hle
      obtain ⟨hy'live, _⟩ := reach_pos hv hc hinv hov hb hby'
      have hsucc : y ∈ v.succ y' := (hv.1 y' y).mpr hadj
      have hylive : y ∈ v.g.nodes := (hc y' hy'live).1 y hsucc
      obtain ⟨py, hpy, _⟩ := hinv.getPos hylive
      have hy'd : y' ∈ d1.disc := by
        apply ih
        intro py' hpy'
        have := hov y' y hsucc py' py hpy' hpy
        have := hle py hpy
        omega
      rcases hcl y' (hfin y' hy'd) (by simp) y hsucc with h | ⟨p, hp, hpr⟩
      · exact h
      · rw [hpy] at hp; cases hp
        have := validOrder_fut_prune hpr
        have := hle py hpy
        omega
  have had : a ∈ d1.disc := claim a hreach (by intro py hpy; rw [hpa] at hpy; cases hpy; exact Nat.le_refl _)
  rcases hgo a had with h | h | ⟨p, hp, hg⟩
  · cases h
  · exact hab h
  · rw [hpa] at hp; cases hp
    have := validOrder_fut_go hg
    omega

/-- **never lets a cycle in** (model level): an accepted insertion `a → b` had no path `b ⇝ a` -/
theorem accepted_no_path {v : View} {s s' : AState} {a b : Nat} (hv : ViewOk v) (hinv : Inv v s)
    (hov : OrderValid v s.om) (ha : a ∈ v.g.nodes) (hb : b ∈ v.g.nodes) (hab : a ≠ b)
    (h : tryAddEdge v s a b = .ok (s', .accepted)) : ¬ Reach v.g b a := by
  obtain ⟨hom, hclr, hcl⟩ := hinv
  intro hreach
  obtain ⟨pa, hpa, _⟩ := hom.getPos ha
  obtain ⟨pb, hpb, _⟩ := hom.getPos hb
  have hlt : pb < pa := by
    rcases (reach_pos hv hcl hom hov hb hreach).2 with h' | h'
    · exact absurd h'.symm hab
    · exact h' pb pa hpb hpa
  unfold tryAddEdge at h
  simp only [hab, ↓reduceIte] at h
  unfold updateOrdering at h
  simp only [hpa, hpb] at h
  have : ¬ pb ≥ pa := by omega
  simp only [this, ↓reduceIte] at h
  cases hcc : causalCones v s b a with
  | error e => simp [hcc] at h
  | ok sc =>
    obtain ⟨s1, c⟩ := sc
    obtain ⟨minP, maxP, cap, hmin, hmax, hcase⟩ := causalCones_inv hcc
    rw [hpb] at hmin; cases hmin
    rw [hpa] at hmax; cases hmax
    rcases hcase with ⟨hnone, _⟩ | ⟨d1, d2, hd1, _, _⟩
    · subst hnone
      simp only [hcc] at h
      cases h
    · exact fut_ok_no_path hv hcl hom hov ha hb hab hpa hd1 hreach

/-- inversion: `update_ordering` answering `Err(Cycle)` ran `causal_cones(b, a)` which found a cycle -/
theorem updateOrdering_false_inv {v : View} {s s1 : AState} {a b : Nat}
    (h : updateOrdering v s a b = .ok (s1, false)) :
    ∃ pa pb, s.om.getPos a = .ok pa ∧ s.om.getPos b = .ok pb ∧ pb < pa ∧ causalCones v s b a = .ok (s1, none) := by
  unfold updateOrdering at h
  split at h
  · cases h
  rename_i pb hpb
  split at h
  · cases h
  rename_i pa hpa
  split at h
  · cases h
  rename_i hlt
  refine ⟨pa, pb, hpa, hpb, by omega, ?_⟩
  cases hcc : causalCones v s b a with
  | error e => simp [hcc] at h
  | ok sc =>
    obtain ⟨sc1, c⟩ := sc
    simp only [hcc] at h
    cases c with
    | none => simp only at h; cases h; rfl
    | some bc =>
      obtain ⟨bfut, apast⟩ := bc
      simp only at h
      split at h
      · cases h
      · split at h <;> cases h

theorem tryAddEdge_cycle_inv {v : View} {s s' : AState} {a b n : Nat}
    (h : tryAddEdge v s a b = .ok (s', .cycle n)) : a ≠ b ∧ updateOrdering v s a b = .ok (s', false) := by
  unfold tryAddEdge at h
  split at h
  · cases h
  rename_i hab
  refine ⟨hab, ?_⟩
  cases hu : updateOrdering v s a b with
  | error e => simp [hu] at h
  | ok sr =>
    obtain ⟨s1, okb⟩ := sr
    simp only [hu] at h
    cases okb with
    | false => simp only at h; cases h; rfl
    | true =>
      simp only at h
      split at h <;> cases h

/-- no spurious rejection: `Err(Cycle)` is only answered when `b` reaches `a` -/
theorem cycle_has_path {v : View} {s s' : AState} {a b n : Nat} (hv : ViewOk v) (hinv : Inv v s)
    (hov : OrderValid v s.om) (ha : a ∈ v.g.nodes) (hb : b ∈ v.g.nodes)
    (h : tryAddEdge v s a b = .ok (s', .cycle n)) : Reach v.g b a := by
  obtain ⟨hom, hclr, hcl⟩ := hinv
  obtain ⟨hab, hu⟩ := tryAddEdge_cycle_inv h
  obtain ⟨pa, pb, hpa, hpb, hlt, hcc⟩ := updateOrdering_false_inv hu
  obtain ⟨minP, maxP, cap, hmin, hmax, hcase⟩ := causalCones_inv hcc
  rw [hpb] at hmin; cases hmin
  rw [hpa] at hmax; cases hmax
  rcases hcase with ⟨_, d1, hd1⟩ | ⟨d1, d2, _, _, hsome⟩
  · obtain ⟨_, hcyc⟩ := (dfs_sound v hv s.om cap .fut pb pa (dfsFuel v)).1 b {} d1 .cycle hd1
    obtain ⟨y, hy1, hy2⟩ := hcyc rfl
    have hylive := (reach_pos hv hcl hom hov hb hy1).1
    by_cases hya : y = a
    · exact hya ▸ hy1
    · have := hom.pos_inj hylive ha hya
      rw [hy2, hpa] at this
      exact absurd rfl this
  · cases hsome

end PetgraphModel.AcyProofs
