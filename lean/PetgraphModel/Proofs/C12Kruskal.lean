import PetgraphModel.Model.C12Mst
import PetgraphModel.Proofs.UnionFind
import PetgraphModel.Proofs.C12Count
import PetgraphModel.Proofs.C12Min
import PetgraphModel.Proofs.C12Heap
/-
Correctness of the Kruskal mirror model (`MstModel.kruskal` / `kruskalScan`) over the C19 union–find
model.

* `KScan` — Kruskal's process stated abstractly (accept an item iff its endpoints are not yet
  connected); for EVERY scan order the accepted edges are acyclic, spanning, `|V| − c` many
  (`forest_count`), and for a scan in order of non-decreasing weight they satisfy the cycle property,
  hence are a minimum spanning forest (`cycleProperty_minimal`).
* `kruskalScan_spec` — the model refines `KScan`: the union–find classes (C19 lemmas `tryUnion_good`,
  `rootOf`) are exactly the connectivity over the accepted edges; no panic, no fault.
* `kruskal_correct` / `kruskal_on_graph` — with the verified heap (`Proofs/C12Heap.lean`: the pop
  order is a sorted rearrangement of the pushes) the model as the driver runs it yields a minimum
  spanning forest of the scanned edges, and of the abstract graph when `edge_references` describe it.
-/
namespace PetgraphModel.MstModel
open PetgraphModel PetgraphModel.MST PetgraphModel.UF PetgraphModel.UFProofs

/-- a popped heap item read as an edge of the graph (the edge id plays no role) -/
def Item.toEdge (it : Item) : Edge := ⟨0, it.a, it.b, it.w⟩

/-- the edge element the model emits for an accepted item -/
def toEl (nodes : List Nat) (it : Item) : EdgeEl := ⟨nodes.idxOf it.a, nodes.idxOf it.b, it.w⟩

/-- what the model needs from the view: `to_index` is injective on the nodes and below `node_bound` -/
structure KView (v : View) : Prop where
  ixLt : ∀ a ∈ v.g.nodes, v.toIndex a < v.nb
  ixInj : ∀ a ∈ v.g.nodes, ∀ b ∈ v.g.nodes, v.toIndex a = v.toIndex b → a = b

/-- union–find classes (on indices) = connectivity over the accepted edges (on nodes) -/
structure KInv (v : View) (uf : UF.State) (A : List Edge) : Prop where
  inv : Inv uf
  len : uf.len = v.nb
  rel : ∀ a ∈ v.g.nodes, ∀ b ∈ v.g.nodes,
    (rootOf uf (v.toIndex a) = rootOf uf (v.toIndex b) ↔ Conn A a b)

theorem step_union_eq {s s' : State} {x y : Nat} {b : Bool} (h : tryUnion s x y = .ok (s', .ok b)) :
    UF.step s (.union x y) = (s', .bool b) := by
  simp [UF.step, h]

theorem posOf_mem {nodes : List Nat} {a : Nat} (h : a ∈ nodes) : posOf nodes a = some (nodes.idxOf a) := by
  simp [posOf, h]

theorem kinv_new (v : View) (hv : KView v) : KInv v (UF.new 0 v.nb) [] := by
  have h0 := inv_new 0 v.nb (Or.inl rfl)
  have hl0 : (UF.new 0 v.nb).len = v.nb := by simp [UF.new, State.len]
  have hr : ∀ z, z < v.nb → rootOf (UF.new 0 v.nb) z = z := by
    intro z hz
    apply rootOf_eq h0
    refine .root ?_
    simp only [UF.new, List.getElem?_map, List.getElem?_range hz, Option.map_some]
    rw [mkIx_eq (Or.inl rfl)]
  refine ⟨h0, hl0, ?_⟩
  intro a ha b hb
  rw [hr _ (hv.ixLt a ha), hr _ (hv.ixLt b hb)]
  constructor
  · intro h; rw [hv.ixInj a ha b hb h]; exact Conn.refl _ _
  · intro h; rw [conn_nil h]

/-- the arithmetic of one merge: classes after linking root `a` under `b` -/
theorem merge_arith {fc fd fa fb a b : Nat} (hne : fa ≠ fb)
    (hab : (a = fa ∧ b = fb) ∨ (a = fb ∧ b = fa)) :
    ((if fc = a then b else fc) = (if fd = a then b else fd)) ↔
      (fc = fd ∨ (fc = fa ∧ fb = fd) ∨ (fc = fb ∧ fa = fd)) := by
  grind

/-! ### Kruskal's process, abstractly -/

/-- `KScan A items Af Rej`: scanning `items` in order, starting with the accepted edges `A` (newest
first), an item is accepted iff its endpoints are not yet connected; `Af` = all accepted edges at
the end (newest first), `Rej` = the rejected items in order. -/
inductive KScan : List Item → List Item → List Item → List Item → Prop
  | nil (A : List Item) : KScan A [] A []
  | accept {A rest Af Rej : List Item} {it : Item} :
      ¬ Conn (A.map Item.toEdge) it.a it.b → KScan (it :: A) rest Af Rej → KScan A (it :: rest) Af Rej
  | reject {A rest Af Rej : List Item} {it : Item} :
      Conn (A.map Item.toEdge) it.a it.b → KScan A rest Af Rej → KScan A (it :: rest) Af (it :: Rej)

theorem KScan.shape {A items Af Rej : List Item} (h : KScan A items Af Rej) :
    ∃ B, Af = B.reverse ++ A ∧ B.Sublist items ∧ (B ++ Rej).Perm items := by
  induction h with
  | nil A => exact ⟨[], by simp, List.Sublist.refl _, List.Perm.refl _⟩
  | @accept A rest Af Rej it _ _ ih =>
    obtain ⟨B, hAf, hsub, hperm⟩ := ih
    exact ⟨it :: B, by simp [hAf], hsub.cons_cons _, hperm.cons it⟩
  | @reject A rest Af Rej it _ _ ih =>
    obtain ⟨B, hAf, hsub, hperm⟩ := ih
    exact ⟨B, hAf, hsub.cons _, List.perm_middle.trans (hperm.cons it)⟩

theorem KScan.subset {A items Af Rej : List Item} (h : KScan A items Af Rej) : ∀ x ∈ A, x ∈ Af := by
  obtain ⟨B, hAf, _, _⟩ := h.shape
  intro x hx; rw [hAf]; exact List.mem_append_right _ hx

theorem KScan.acyclic {A items Af Rej : List Item} (h : KScan A items Af Rej)
    (hac : Acyclic (A.map Item.toEdge)) : Acyclic (Af.map Item.toEdge) := by
  induction h with
  | nil A => exact hac
  | accept hnc _ ih => exact ih (acyclic_cons hac hnc)
  | reject _ _ ih => exact ih hac

theorem conn_map_mono {P Q : List Item} (h : ∀ x ∈ P, x ∈ Q) {a b : Nat}
    (hc : Conn (P.map Item.toEdge) a b) : Conn (Q.map Item.toEdge) a b :=
  hc.mono fun e he => by
    obtain ⟨x, hx, rfl⟩ := List.mem_map.mp he
    exact List.mem_map.mpr ⟨x, h x hx, rfl⟩

/-- at the end every scanned item's endpoints are connected by accepted edges -/
theorem KScan.spans {A items Af Rej : List Item} (h : KScan A items Af Rej) :
    ∀ it ∈ items, Conn (Af.map Item.toEdge) it.a it.b := by
  induction h with
  | nil A => intro _ h; cases h
  | @accept A rest Af Rej it _ hrec ih =>
    intro x hx
    rcases List.mem_cons.mp hx with rfl | hx
    · exact conn_map_mono hrec.subset
        (Conn.edge (e := x.toEdge) (List.mem_map.mpr ⟨x, List.mem_cons_self .., rfl⟩))
    · exact ih x hx
  | @reject A rest Af Rej it hc hrec ih =>
    intro x hx
    rcases List.mem_cons.mp hx with rfl | hx
    · exact conn_map_mono hrec.subset hc
    · exact ih x hx

/-- scanning in order of non-decreasing weight: every rejected item is connected by accepted edges
that weigh no more -/
theorem KScan.light_witness {A items Af Rej : List Item} (h : KScan A items Af Rej)
    (hsorted : items.Pairwise fun x y => x.w ≤ y.w) (hA : ∀ x ∈ A, ∀ y ∈ items, x.w ≤ y.w) :
    ∀ e ∈ Rej, ∃ P : List Item, (∀ x ∈ P, x ∈ Af ∧ x.w ≤ e.w) ∧ Conn (P.map Item.toEdge) e.a e.b := by
  induction h with
  | nil A => intro _ h; cases h
  | @accept A rest Af Rej it _ _ ih =>
    have hs := List.pairwise_cons.mp hsorted
    refine ih hs.2 ?_
    intro x hx y hy
    rcases List.mem_cons.mp hx with rfl | hx
    · exact hs.1 y hy
    · exact hA x hx y (List.mem_cons_of_mem _ hy)
  | @reject A rest Af Rej it hc hrec ih =>
    have hs := List.pairwise_cons.mp hsorted
    intro e he
    rcases List.mem_cons.mp he with rfl | he
    · exact ⟨A, fun x hx => ⟨hrec.subset x hx, hA x hx _ (List.mem_cons_self ..)⟩, hc⟩
    · exact ih hs.2 (fun x hx y hy => hA x hx y (List.mem_cons_of_mem _ hy)) e he

/-- … hence the cycle property -/
theorem KScan.cycleProperty {items Af Rej : List Item} (h : KScan [] items Af Rej)
    (hsorted : items.Pairwise fun x y => x.w ≤ y.w) :
    CycleProperty (Af.map Item.toEdge) (Rej.map Item.toEdge) := by
  intro e he _ l1 f l2 hsplit hnc
  obtain ⟨r, hr, rfl⟩ := List.mem_map.mp he
  obtain ⟨P, hP, hconn⟩ := h.light_witness hsorted (fun _ h => (nomatch h)) r hr
  by_cases hf : f ∈ P.map Item.toEdge
  · obtain ⟨x, hx, rfl⟩ := List.mem_map.mp hf
    exact (hP x hx).2
  · refine absurd (hconn.mono ?_) hnc
    intro y hy
    have hyAf : y ∈ Af.map Item.toEdge := by
      obtain ⟨x, hx, rfl⟩ := List.mem_map.mp hy
      exact List.mem_map.mpr ⟨x, (hP x hx).1, rfl⟩
    rw [hsplit] at hyAf
    simp only [List.mem_append, List.mem_cons] at hyAf ⊢
    rcases hyAf with h1 | rfl | h1
    · exact Or.inl h1
    · exact absurd hy hf
    · exact Or.inr h1

/-! ### the model refines the abstract process -/

theorem kruskalScan_spec (v : View) (hv : KView v) : ∀ (items : List Item) (uf : UF.State)
    (A : List Item) (acc : List EdgeEl),
    (∀ it ∈ items, it.a ∈ v.g.nodes ∧ it.b ∈ v.g.nodes) →
    KInv v uf (A.map Item.toEdge) →
    ∃ B Rej : List Item,
      kruskalScan v uf items acc = .ok v.g.nodes (acc.reverse ++ B.map (toEl v.g.nodes)) ∧
      KScan A items (B.reverse ++ A) Rej
  | [], uf, A, acc, _, _ => ⟨[], [], by simp [kruskalScan], by simpa using KScan.nil A⟩
  | it :: rest, uf, A, acc, hitems, kinv => by
    obtain ⟨ha, hb⟩ := hitems it (List.mem_cons_self ..)
    have hrest : ∀ it' ∈ rest, it'.a ∈ v.g.nodes ∧ it'.b ∈ v.g.nodes :=
      fun it' h => hitems it' (List.mem_cons_of_mem _ h)
    have hx : v.toIndex it.a < uf.len := by rw [kinv.len]; exact hv.ixLt _ ha
    have hy : v.toIndex it.b < uf.len := by rw [kinv.len]; exact hv.ixLt _ hb
    -- rejected item: same state of knowledge, the item's endpoints are already connected
    have reject : ∀ uf', UF.step uf (.union (v.toIndex it.a) (v.toIndex it.b)) = (uf', .bool false) →
        KInv v uf' (A.map Item.toEdge) → Conn (A.map Item.toEdge) it.a it.b →
        ∃ B Rej : List Item,
          kruskalScan v uf (it :: rest) acc = .ok v.g.nodes (acc.reverse ++ B.map (toEl v.g.nodes)) ∧
          KScan A (it :: rest) (B.reverse ++ A) Rej := by
      intro uf' hstep kinv' hconn
      obtain ⟨B, Rej, hB, hscan⟩ := kruskalScan_spec v hv rest uf' A acc hrest kinv'
      refine ⟨B, it :: Rej, ?_, KScan.reject hconn hscan⟩
      simp only [kruskalScan, hstep]; exact hB
    by_cases hab : it.a = it.b
    · -- self-loop: `union(x, x)` is `false` and changes nothing
      have hstep : UF.step uf (.union (v.toIndex it.a) (v.toIndex it.b)) = (uf, .bool false) := by
        rw [hab]; exact step_union_eq (tryUnion_same uf _)
      exact reject uf hstep kinv (by rw [hab]; exact Conn.refl _ _)
    · have hxy : v.toIndex it.a ≠ v.toIndex it.b := fun h => hab (hv.ixInj _ ha _ hb h)
      obtain ⟨s', h1, inv', hlen, _, a, b, habr, hroots⟩ := tryUnion_good kinv.inv hxy hx hy
      have hlen' : s'.len = v.nb := by rw [← kinv.len]; exact hlen
      have hr : ∀ z, z < uf.len → rootOf s' z = if rootOf uf z = a then b else rootOf uf z :=
        fun z hz => rootOf_eq inv' (hroots _ _ (isRoot_rootOf kinv.inv hz))
      have hstep := step_union_eq h1
      by_cases hroot : rootOf uf (v.toIndex it.a) = rootOf uf (v.toIndex it.b)
      · -- already connected: rejected
        have hb' : (!(rootOf uf (v.toIndex it.a) == rootOf uf (v.toIndex it.b))) = false := by simp [hroot]
        rw [hb'] at hstep
        have hsame : ∀ z, z < uf.len → rootOf s' z = rootOf uf z := by
          intro z hz
          rw [hr z hz]
          rcases habr with ⟨rfl, rfl⟩ | ⟨rfl, rfl⟩ <;> split <;> simp_all
        refine reject s' hstep ⟨inv', hlen', ?_⟩ ((kinv.rel _ ha _ hb).mp hroot)
        intro c hc d hd
        rw [hsame _ (by rw [kinv.len]; exact hv.ixLt c hc), hsame _ (by rw [kinv.len]; exact hv.ixLt d hd)]
        exact kinv.rel c hc d hd
      · -- accepted: a new forest edge
        have hb' : (!(rootOf uf (v.toIndex it.a) == rootOf uf (v.toIndex it.b))) = true := by simp [hroot]
        rw [hb'] at hstep
        have hnc : ¬ Conn (A.map Item.toEdge) it.a it.b := fun h => hroot ((kinv.rel _ ha _ hb).mpr h)
        have kinv' : KInv v s' ((it :: A).map Item.toEdge) := by
          refine ⟨inv', hlen', ?_⟩
          intro c hc d hd
          rw [hr _ (by rw [kinv.len]; exact hv.ixLt c hc), hr _ (by rw [kinv.len]; exact hv.ixLt d hd)]
          show _ ↔ Conn (it.toEdge :: A.map Item.toEdge) c d
          rw [conn_cons_iff, merge_arith hroot habr]
          show _ ↔ (Conn _ c d ∨ (Conn _ c it.a ∧ Conn _ it.b d) ∨ (Conn _ c it.b ∧ Conn _ it.a d))
          rw [kinv.rel c hc d hd, kinv.rel c hc _ ha, kinv.rel _ hb d hd, kinv.rel c hc _ hb,
            kinv.rel _ ha d hd]
        obtain ⟨B, Rej, hB, hscan⟩ :=
          kruskalScan_spec v hv rest s' (it :: A) (toEl v.g.nodes it :: acc) hrest kinv'
        refine ⟨it :: B, Rej, ?_, KScan.accept hnc (by simpa using hscan)⟩
        simp only [kruskalScan, hstep, posOf_mem ha, posOf_mem hb]
        have hB' := hB
        simp only [toEl] at hB' ⊢
        rw [hB']; simp [toEl]

/-- what the Kruskal model computes, for a given pop order `items` -/
structure KruskalResult (v : View) (items A Rej : List Item) : Prop where
  /-- accepted and rejected items together are the scanned items; accepted ones in scan order -/
  sub : A.Sublist items
  perm : (A ++ Rej).Perm items
  acyclic : Acyclic (A.map Item.toEdge)
  spanning : Spanning (items.map Item.toEdge) (A.map Item.toEdge)
  /-- `|A| = |V| − c` -/
  count : ∀ reps, IsRepSystem (items.map Item.toEdge) v.g.nodes reps →
    A.length + reps.length = v.g.nodes.length
  /-- popped in order of non-decreasing weight, the result satisfies the cycle property -/
  cycleProp : (items.Pairwise fun x y => x.w ≤ y.w) →
    CycleProperty (A.map Item.toEdge) (Rej.map Item.toEdge)

/-- **The Kruskal model is correct for every pop order**: it neither panics nor faults, emits the
nodes in order and one edge element per accepted item, and the accepted items form a spanning
forest with `|V| − c` edges. -/
theorem kruskalScan_correct (v : View) (hv : KView v) (hnd : v.g.nodes.Nodup) (items : List Item)
    (hitems : ∀ it ∈ items, it.a ∈ v.g.nodes ∧ it.b ∈ v.g.nodes) :
    ∃ A Rej : List Item,
      kruskalScan v (UF.new 0 v.nb) items [] = .ok v.g.nodes (A.map (toEl v.g.nodes)) ∧
      KruskalResult v items A Rej := by
  obtain ⟨B, Rej, hB, hscan⟩ := kruskalScan_spec v hv items (UF.new 0 v.nb) [] [] hitems (kinv_new v hv)
  simp only [List.append_nil, List.reverse_nil, List.nil_append] at hB hscan
  obtain ⟨B', hBeq, hsub, hpermBR⟩ := hscan.shape
  have hBB' : B' = B := by
    have : B.reverse = B'.reverse := by simpa using hBeq
    have := congrArg List.reverse this
    simpa using this.symm
  subst hBB'
  have hperm : (B'.reverse.map Item.toEdge).Perm (B'.map Item.toEdge) := (List.reverse_perm B').map _
  have hacB : Acyclic (B'.map Item.toEdge) := (hscan.acyclic acyclic_nil).perm hperm
  have hspan : Spanning (items.map Item.toEdge) (B'.map Item.toEdge) := by
    intro a b hc
    refine hc.of_edges ?_
    intro e he
    obtain ⟨it, hit, rfl⟩ := List.mem_map.mp he
    exact (conn_perm hperm).mp (hscan.spans it hit)
  refine ⟨B', Rej, hB, hsub, hpermBR, hacB, hspan, ?_, ?_⟩
  · intro reps hr
    have hsubE : ∀ e ∈ B'.map Item.toEdge, e ∈ items.map Item.toEdge := by
      intro e he
      obtain ⟨it, hit, rfl⟩ := List.mem_map.mp he
      exact List.mem_map.mpr ⟨it, hsub.subset hit, rfl⟩
    have hconn : ∀ a b, Conn (items.map Item.toEdge) a b ↔ Conn (B'.map Item.toEdge) a b :=
      fun a b => ⟨hspan a b, Conn.mono hsubE⟩
    have := forest_count (B'.map Item.toEdge) v.g.nodes reps hnd ?_ hacB (hr.congr hconn)
    · simpa using this
    · intro e he
      obtain ⟨it, hit, rfl⟩ := List.mem_map.mp he
      exact hitems it (hsub.subset hit)
  · intro hsorted
    have hcp := hscan.cycleProperty hsorted
    -- transport along the reversal of the accepted list
    intro e he hne l1 f l2 hsplit hnc
    have hf : f ∈ B'.reverse.map Item.toEdge := hperm.mem_iff.mpr (by rw [hsplit]; simp)
    obtain ⟨m1, m2, hM⟩ := List.append_of_mem hf
    have hp2 : (m1 ++ m2).Perm (l1 ++ l2) := by
      have : (f :: (m1 ++ m2)).Perm (f :: (l1 ++ l2)) := by
        refine (List.perm_middle.symm.trans ?_).trans List.perm_middle
        rw [← hM, ← hsplit]; exact hperm
      exact this.cons_inv
    exact hcp e he hne m1 f m2 hM fun hc => hnc ((conn_perm hp2).mp hc)

/-- popped in order of non-decreasing weight, the Kruskal model yields a MINIMUM spanning forest -/
theorem kruskalScan_minimum {v : View} {items A Rej : List Item} (h : KruskalResult v items A Rej)
    (hsorted : items.Pairwise fun x y => x.w ≤ y.w) :
    MinSpanningForest (items.map Item.toEdge) (A.map Item.toEdge) := by
  have hperm : (A.map Item.toEdge ++ Rej.map Item.toEdge).Perm (items.map Item.toEdge) := by
    rw [← List.map_append]; exact h.perm.map _
  exact ⟨⟨⟨_, hperm⟩, h.acyclic, h.spanning⟩,
    cycleProperty_minimal hperm h.acyclic h.spanning (h.cycleProp hsorted)⟩

/-! ### end to end: `min_spanning_tree(g)` collected -/

theorem spanningForest_perm {E E' F : List Edge} (hp : E.Perm E') (h : SpanningForest E F) :
    SpanningForest E' F :=
  ⟨by obtain ⟨R, hR⟩ := h.sub; exact ⟨R, hR.trans hp⟩, h.acyclic,
   fun a b hc => h.spanning a b ((conn_perm hp).mpr hc)⟩

theorem minSpanningForest_perm {E E' F : List Edge} (hp : E.Perm E') (h : MinSpanningForest E F) :
    MinSpanningForest E' F :=
  ⟨spanningForest_perm hp h.1, fun F' hF' => h.2 F' (spanningForest_perm hp.symm hF')⟩

/-- **The Kruskal mirror model yields a minimum spanning forest** of the edges it is given (`er`,
the `edge_references` of the encoding: any list of (source, target, edge id) between nodes of the
graph): binary heap + union–find + `node_map`, exactly as the driver runs it. -/
theorem kruskal_correct (v : View) (hv : KView v) (hnd : v.g.nodes.Nodup) (er : List (Nat × Nat × Nat))
    (her : ∀ x ∈ er, x.1 ∈ v.g.nodes ∧ x.2.1 ∈ v.g.nodes) :
    ∃ A : List Item,
      kruskal v er = .ok v.g.nodes (A.map (toEl v.g.nodes)) ∧
      (∀ it ∈ A, it ∈ erItems v er) ∧
      MinSpanningForest ((erItems v er).map Item.toEdge) (A.map Item.toEdge) ∧
      ∀ reps, IsRepSystem ((erItems v er).map Item.toEdge) v.g.nodes reps →
        A.length + reps.length = v.g.nodes.length := by
  have hperm := popAll_buildHeap_perm v er
  have hsorted := popAll_buildHeap_sorted v er
  have hitems : ∀ it ∈ popAll ((buildHeap v er).length + 1) (buildHeap v er),
      it.a ∈ v.g.nodes ∧ it.b ∈ v.g.nodes := by
    intro it hit
    have := hperm.mem_iff.mp hit
    obtain ⟨x, hx, rfl⟩ := List.mem_map.mp this
    exact her x hx
  obtain ⟨A, Rej, hrun, hres⟩ := kruskalScan_correct v hv hnd _ hitems
  have hpermE := hperm.map Item.toEdge
  refine ⟨A, hrun, fun it hit => hperm.mem_iff.mp (hres.sub.subset hit),
    minSpanningForest_perm hpermE (kruskalScan_minimum hres hsorted), ?_⟩
  intro reps hr
  exact hres.count reps (hr.congr fun a b => (conn_perm hpermE).symm)

/-- `er` (the encoding's `edge_references`) describes the abstract graph: every entry is an edge of
`g` with its weight (either orientation), every edge of `g` is listed at least once -/
structure ErOk (v : View) (er : List (Nat × Nat × Nat)) : Prop where
  sound : ∀ x ∈ er, ∃ e ∈ v.g.edges, e.w = v.weight x.2.2 ∧
    ((e.src = x.1 ∧ e.tgt = x.2.1) ∨ (e.src = x.2.1 ∧ e.tgt = x.1))
  complete : ∀ e ∈ v.g.edges, ∃ x ∈ er, v.weight x.2.2 = e.w ∧
    ((x.1 = e.src ∧ x.2.1 = e.tgt) ∨ (x.1 = e.tgt ∧ x.2.1 = e.src))

theorem er_conn_iff {v : View} {er : List (Nat × Nat × Nat)} (h : ErOk v er) (a b : Nat) :
    Conn ((erItems v er).map Item.toEdge) a b ↔ Conn v.g.edges a b := by
  constructor
  · intro hc
    refine hc.of_edges ?_
    intro e he
    obtain ⟨it, hit, rfl⟩ := List.mem_map.mp he
    obtain ⟨x, hx, rfl⟩ := List.mem_map.mp hit
    obtain ⟨e', he', _, hends⟩ := h.sound x hx
    show Conn v.g.edges x.1 x.2.1
    rcases hends with ⟨h1, h2⟩ | ⟨h1, h2⟩
    · rw [← h1, ← h2]; exact Conn.edge he'
    · rw [← h1, ← h2]; exact (Conn.edge he').symm
  · intro hc
    refine hc.of_edges ?_
    intro e he
    obtain ⟨x, hx, _, hends⟩ := h.complete e he
    have hmem : (⟨v.weight x.2.2, x.1, x.2.1⟩ : Item).toEdge ∈ (erItems v er).map Item.toEdge :=
      List.mem_map.mpr ⟨_, List.mem_map.mpr ⟨x, hx, rfl⟩, rfl⟩
    have hc' : Conn ((erItems v er).map Item.toEdge) x.1 x.2.1 := Conn.edge hmem
    rcases hends with ⟨h1, h2⟩ | ⟨h1, h2⟩
    · rw [← h1, ← h2]; exact hc'
    · rw [← h1, ← h2]; exact hc'.symm

/-- what the Kruskal model's forest `A` is, relative to the abstract graph of the view -/
structure KruskalOnGraph (v : View) (A : List Item) : Prop where
  /-- every forest edge is an edge of `g` (either orientation) with that weight -/
  edges : ∀ it ∈ A, ∃ e ∈ v.g.edges, e.w = it.w ∧
    ((e.src = it.a ∧ e.tgt = it.b) ∨ (e.src = it.b ∧ e.tgt = it.a))
  acyclic : Acyclic (A.map Item.toEdge)
  spanning : Spanning v.g.edges (A.map Item.toEdge)
  /-- `|A| = |V| − c` -/
  count : ∀ reps, IsRepSystem v.g.edges v.g.nodes reps → A.length + reps.length = v.g.nodes.length
  /-- no spanning forest of `g` weighs less -/
  minimal : ∀ F', SpanningForest v.g.edges F' → weight (A.map Item.toEdge) ≤ weight F'

/-- **The Kruskal mirror model yields a minimum spanning forest of the abstract graph** whenever the
encoding's `edge_references` describe it (`ErOk`; an edge may even be listed more than once, as
`Csr<Undirected>` does). -/
theorem kruskal_on_graph (v : View) (hv : KView v) (hg : v.g.WellFormed)
    (er : List (Nat × Nat × Nat)) (her : ErOk v er) :
    ∃ A : List Item,
      kruskal v er = .ok v.g.nodes (A.map (toEl v.g.nodes)) ∧ KruskalOnGraph v A := by
  have hends : ∀ x ∈ er, x.1 ∈ v.g.nodes ∧ x.2.1 ∈ v.g.nodes := by
    intro x hx
    obtain ⟨e, he, _, h⟩ := her.sound x hx
    rcases h with ⟨h1, h2⟩ | ⟨h1, h2⟩
    · exact ⟨h1 ▸ (hg.2 e he).1, h2 ▸ (hg.2 e he).2⟩
    · exact ⟨h2 ▸ (hg.2 e he).2, h1 ▸ (hg.2 e he).1⟩
  have hperm := popAll_buildHeap_perm v er
  have hsorted := popAll_buildHeap_sorted v er
  have hitems : ∀ it ∈ popAll ((buildHeap v er).length + 1) (buildHeap v er),
      it.a ∈ v.g.nodes ∧ it.b ∈ v.g.nodes := by
    intro it hit
    obtain ⟨x, hx, rfl⟩ := List.mem_map.mp (hperm.mem_iff.mp hit)
    exact hends x hx
  obtain ⟨A, Rej, hrun, hres⟩ := kruskalScan_correct v hv hg.1 _ hitems
  refine ⟨A, hrun, ?_⟩
  have hpermE := hperm.map Item.toEdge
  have hpermMR : (A.map Item.toEdge ++ Rej.map Item.toEdge).Perm
      ((popAll ((buildHeap v er).length + 1) (buildHeap v er)).map Item.toEdge) := by
    rw [← List.map_append]; exact hres.perm.map _
  have hls := light_spans hpermMR hres.acyclic hres.spanning (hres.cycleProp hsorted)
  have hconn : ∀ a b, Conn v.g.edges a b ↔
      Conn ((popAll ((buildHeap v er).length + 1) (buildHeap v er)).map Item.toEdge) a b :=
    fun a b => ((er_conn_iff her a b).symm).trans (conn_perm hpermE).symm
  have hcount : ∀ reps, IsRepSystem v.g.edges v.g.nodes reps →
      A.length + reps.length = v.g.nodes.length :=
    fun reps hr => hres.count reps (hr.congr hconn)
  refine ⟨?_, hres.acyclic, fun a b hc => hres.spanning a b ((hconn a b).mp hc), hcount, ?_⟩
  · intro it hit
    obtain ⟨x, hx, rfl⟩ := List.mem_map.mp (hperm.mem_iff.mp (hres.sub.subset hit))
    obtain ⟨e, he, hw, h⟩ := her.sound x hx
    exact ⟨e, he, hw, h⟩
  · obtain ⟨reps, hreps⟩ := repSystem_exists v.g.edges v.g.nodes
    refine minimal_of_light hg.1 hg.2 ?_ hres.acyclic hreps (by simpa using hcount reps hreps) ?_
    · intro e he
      obtain ⟨it, hit, rfl⟩ := List.mem_map.mp he
      exact hitems it (hres.sub.subset hit)
    · intro t e he het
      obtain ⟨x, hx, hw, hxe⟩ := her.complete e he
      have hmem : (⟨v.weight x.2.2, x.1, x.2.1⟩ : Item).toEdge ∈
          (popAll ((buildHeap v er).length + 1) (buildHeap v er)).map Item.toEdge :=
        hpermE.mem_iff.mpr (List.mem_map.mpr ⟨_, List.mem_map.mpr ⟨x, hx, rfl⟩, rfl⟩)
      have hc := hls t _ hmem (by show v.weight x.2.2 ≤ t; omega)
      rcases hxe with ⟨h1, h2⟩ | ⟨h1, h2⟩
      · rw [← h1, ← h2]; exact hc
      · rw [← h1, ← h2]; exact hc.symm

end PetgraphModel.MstModel
