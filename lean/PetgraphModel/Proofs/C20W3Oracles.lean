import PetgraphModel.Model.C20Cliques
import PetgraphModel.Model.C20DsaturHeap
/-
C20 (wave 3) — the oracle hypotheses of the two wave-3 model theorems are satisfiable: the concrete
oracles shipped with the models (`DsaturHeap.firstMax`, `Cliques.firstOracle`) are valid, so
`C20_dsatur_heap_model` and `C20_cliques_model_exact` are not vacuous.
-/
namespace PetgraphModel.C20

namespace DsaturHeap

theorem keyLe_iff (a b : Entry) : keyLe a b = true ↔ a.1 < b.1 ∨ (a.1 = b.1 ∧ a.2.1 ≤ b.2.1) := by
  simp [keyLe]

theorem foldl_firstMax : ∀ (l : List Entry) (b : Entry),
    let r := l.foldl (fun best e => if keyLe e best then best else e) b
    (r = b ∨ r ∈ l) ∧ keyLe b r = true ∧ ∀ e ∈ l, keyLe e r = true := by
  intro l
  induction l with
  | nil => intro b; simp [keyLe_iff]
  | cons e t ih =>
    intro b
    simp only [List.foldl_cons]
    by_cases h : keyLe e b = true
    · simp only [h, if_true]
      obtain ⟨h1, h2, h3⟩ := ih b
      refine ⟨h1.imp id (List.mem_cons_of_mem _), h2, fun x hx => ?_⟩
      cases List.mem_cons.mp hx with
      | inl e' =>
        subst e'
        rw [keyLe_iff] at h h2 ⊢
        omega
      | inr e' => exact h3 x e'
    · simp only [h, Bool.false_eq_true, if_false]
      obtain ⟨h1, h2, h3⟩ := ih e
      refine ⟨Or.inr ?_, ?_, fun x hx => ?_⟩
      · cases h1 with
        | inl e' => rw [e']; exact List.mem_cons_self
        | inr e' => exact List.mem_cons_of_mem _ e'
      · rw [keyLe_iff] at h h2 ⊢
        omega
      · cases List.mem_cons.mp hx with
        | inl e' => subst e'; exact h2
        | inr e' => exact h3 x e'

/-- **a valid heap exists**: popping the first entry of maximal score is one -/
theorem firstMax_valid : firstMax.Valid := by
  intro t q hq
  cases q with
  | nil => exact absurd rfl hq
  | cons a rest =>
    obtain ⟨h1, h2, h3⟩ := foldl_firstMax (a :: rest) a
    simp only [firstMax, List.headD_cons]
    refine ⟨?_, h3⟩
    cases h1 with
    | inl e => rw [e]; exact List.mem_cons_self
    | inr e => exact e

theorem foldl_lastMax : ∀ (l : List Entry) (b : Entry),
    let r := l.foldl (fun best e => if keyLe best e then e else best) b
    (r = b ∨ r ∈ l) ∧ keyLe b r = true ∧ ∀ e ∈ l, keyLe e r = true := by
  intro l
  induction l with
  | nil => intro b; simp [keyLe_iff]
  | cons e t ih =>
    intro b
    simp only [List.foldl_cons]
    by_cases h : keyLe b e = true
    · simp only [h, if_true]
      obtain ⟨h1, h2, h3⟩ := ih e
      refine ⟨Or.inr ?_, ?_, fun x hx => ?_⟩
      · cases h1 with
        | inl e' => rw [e']; exact List.mem_cons_self
        | inr e' => exact List.mem_cons_of_mem _ e'
      · rw [keyLe_iff] at h h2 ⊢
        omega
      · cases List.mem_cons.mp hx with
        | inl e' => subst e'; exact h2
        | inr e' => exact h3 x e'
    · simp only [h, Bool.false_eq_true, if_false]
      obtain ⟨h1, h2, h3⟩ := ih b
      refine ⟨h1.imp id (List.mem_cons_of_mem _), h2, fun x hx => ?_⟩
      cases List.mem_cons.mp hx with
      | inl e' =>
        subst e'
        rw [keyLe_iff] at h h2 ⊢
        omega
      | inr e' => exact h3 x e'

/-- popping the LAST entry of maximal score is a valid heap too -/
theorem lastMax_valid : lastMax.Valid := by
  intro t q hq
  cases q with
  | nil => exact absurd rfl hq
  | cons a rest =>
    obtain ⟨h1, h2, h3⟩ := foldl_lastMax (a :: rest) a
    simp only [lastMax, List.headD_cons]
    refine ⟨?_, h3⟩
    cases h1 with
    | inl e => rw [e]; exact List.mem_cons_self
    | inr e => exact e

end DsaturHeap

namespace Cliques

theorem foldl_pick_mem (f : Nat → Nat → Prop) [∀ a b, Decidable (f a b)] : ∀ (l : List Nat) (b : Nat),
    l.foldl (fun best v => if f best v then v else best) b = b ∨
    l.foldl (fun best v => if f best v then v else best) b ∈ l := by
  intro l
  induction l with
  | nil => intro b; exact Or.inl rfl
  | cons v t ih =>
    intro b
    simp only [List.foldl_cons]
    by_cases h : f b v
    · simp only [h, if_true]
      cases ih v with
      | inl e => rw [e]; exact Or.inr List.mem_cons_self
      | inr e => exact Or.inr (List.mem_cons_of_mem _ e)
    · simp only [h, if_false]
      exact (ih b).imp id (List.mem_cons_of_mem _)

/-- **a valid oracle exists**: the run that takes the first vertex of maximal degree of `p` as the
pivot (what the real code does up to the hash order) and explores `todo` in list order -/
theorem firstOracle_valid (g : MGraph) : (firstOracle g).Valid := by
  refine ⟨fun r p x hp => ?_, fun r l => List.Perm.refl _⟩
  cases p with
  | nil => exact absurd rfl hp
  | cons a rest =>
    simp only [firstOracle, List.headD_cons]
    apply List.mem_append_left
    have := foldl_pick_mem (fun best v => (g.succ best).length < (g.succ v).length) (a :: rest) a
    cases this with
    | inl e => rw [e]; exact List.mem_cons_self
    | inr e => exact e

end Cliques

end PetgraphModel.C20
