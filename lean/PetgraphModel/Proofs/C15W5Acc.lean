import PetgraphModel.Driver.C15
import PetgraphModel.Proofs.C15W2Hyp
namespace PetgraphModel.C15W5A
open PetgraphModel PetgraphModel.C15

theorem span_loop_eq {α} (p : α → Bool) : ∀ (l acc : List α),
    List.span.loop p l acc = (acc.reverse ++ l.takeWhile p, l.dropWhile p) := by
  intro l
  induction l with
  | nil => intro acc; simp [List.span.loop]
  | cons a t ih =>
    intro acc
    unfold List.span.loop
    cases hp : p a with
    | true => simp [ih, hp]
    | false => simp [hp]

theorem span_eq {α} (p : α → Bool) (l : List α) : l.span p = (l.takeWhile p, l.dropWhile p) := by
  simp [List.span, span_loop_eq]

theorem span_fst_append_snd {α} (p : α → Bool) (l : List α) : (l.span p).1 ++ (l.span p).2 = l := by
  rw [span_eq]; exact List.takeWhile_append_dropWhile

theorem insSpan_perm {α} (p : α → Bool) (acc : List α) (x : α) :
    ((acc.span p).1 ++ x :: (acc.span p).2).Perm (acc ++ [x]) := by
  refine List.perm_middle.trans ?_
  rw [span_fst_append_snd]
  exact (List.perm_append_singleton x acc).symm

theorem foldl_insSpan_perm {α} (q : α → α → Bool) : ∀ (l acc : List α),
    (l.foldl (fun acc x => let (a, b) := acc.span (q x); a ++ x :: b) acc).Perm (acc ++ l) := by
  intro l
  induction l with
  | nil => intro acc; simp
  | cons x t ih =>
    intro acc
    simp only [List.foldl_cons]
    refine (ih _).trans ?_
    have : (acc ++ x :: t) = (acc ++ [x]) ++ t := by simp
    rw [this]
    exact List.Perm.append_right t (insSpan_perm (q x) acc x)

theorem sortPairs_perm (l : List (Nat × Nat)) : (sortPairs l).Perm l := by
  have := foldl_insSpan_perm (fun (x y : Nat × Nat) => y.1 < x.1 || (y.1 == x.1 && y.2 ≤ x.2)) l []
  simpa [sortPairs] using this

theorem sortNats_perm (l : List Nat) : (sortNats l).Perm l := by
  have := foldl_insSpan_perm (fun (x y : Nat) => decide (y ≤ x)) l []
  simpa [sortNats] using this

theorem samePairSet_perm {a b : List (Nat × Nat)} (h : samePairSet a b = true) : a.Perm b := by
  have : sortPairs a = sortPairs b := by simpa [samePairSet] using h
  exact (sortPairs_perm a).symm.trans (this ▸ sortPairs_perm b)

theorem sameSet_perm {a b : List Nat} (h : sameSet a b = true) : a.Perm b := by
  have : sortNats a = sortNats b := by simpa [sameSet] using h
  exact (sortNats_perm a).symm.trans (this ▸ sortNats_perm b)

/-! ### the insertion sorts sort, so `sameSet` / `samePairSet` are exactly "is a permutation of" -/

theorem takeWhile_all {α} (p : α → Bool) : ∀ (l : List α) (a : α), a ∈ l.takeWhile p → p a = true := by
  intro l
  induction l with
  | nil => intro a h; simp at h
  | cons c t ih =>
    intro a h
    rw [List.takeWhile_cons] at h
    cases hp : p c with
    | true =>
      simp only [hp, if_true] at h
      rcases List.mem_cons.mp h with rfl | h'
      · exact hp
      · exact ih a h'
    | false => simp [hp] at h

theorem dropWhile_head {α} (p : α → Bool) : ∀ (l : List α) (c : α) (cs : List α),
    l.dropWhile p = c :: cs → p c = false := by
  intro l
  induction l with
  | nil => intro c cs h; simp at h
  | cons a t ih =>
    intro c cs h
    rw [List.dropWhile_cons] at h
    cases hp : p a with
    | true => simp only [hp, if_true] at h; exact ih c cs h
    | false =>
      simp only [hp] at h
      simp at h
      rw [← h.1]; exact hp

/-- a total, transitive Boolean order -/
structure TotOrd {α} (r : α → α → Bool) : Prop where
  total : ∀ a b, r a b = true ∨ r b a = true
  trans : ∀ a b c, r a b = true → r b c = true → r a c = true

theorem insert_sorted {α} (r : α → α → Bool) (hr : TotOrd r) (acc : List α) (x : α)
    (h : acc.Pairwise (fun a b => r a b = true)) :
    ((acc.span (fun y => r y x)).1 ++ x :: (acc.span (fun y => r y x)).2).Pairwise (fun a b => r a b = true) := by
  rw [span_eq]
  simp only
  have hle : ∀ a ∈ acc.takeWhile (fun y => r y x), r a x = true := fun a ha => takeWhile_all _ acc a ha
  have hgt : ∀ b ∈ acc.dropWhile (fun y => r y x), r x b = true := by
    intro b hb
    cases hd : acc.dropWhile (fun y => r y x) with
    | nil => rw [hd] at hb; cases hb
    | cons c cs =>
      have hc : r c x = false := dropWhile_head _ acc c cs hd
      have hxc : r x c = true := by
        rcases hr.total x c with h1 | h1
        · exact h1
        · rw [hc] at h1; cases h1
      have hpw : (c :: cs).Pairwise (fun a b => r a b = true) := by
        rw [← hd]
        exact h.sublist (List.dropWhile_sublist _)
      rw [hd] at hb
      rcases List.mem_cons.mp hb with rfl | hb'
      · exact hxc
      · exact hr.trans _ _ _ hxc ((List.pairwise_cons.mp hpw).1 b hb')
  rw [List.pairwise_append]
  refine ⟨h.sublist (List.takeWhile_sublist _), ?_, ?_⟩
  · rw [List.pairwise_cons]
    exact ⟨hgt, h.sublist (List.dropWhile_sublist _)⟩
  · intro a ha b hb
    rcases List.mem_cons.mp hb with rfl | hb'
    · exact hle a ha
    · exact hr.trans _ _ _ (hle a ha) (hgt b hb')

theorem foldl_insSpan_sorted {α} (r : α → α → Bool) (hr : TotOrd r) : ∀ (l acc : List α),
    acc.Pairwise (fun a b => r a b = true) →
    (l.foldl (fun acc x => let (a, b) := acc.span (fun y => r y x); a ++ x :: b) acc).Pairwise
      (fun a b => r a b = true) := by
  intro l
  induction l with
  | nil => intro acc h; simpa using h
  | cons x t ih =>
    intro acc h
    simp only [List.foldl_cons]
    exact ih _ (insert_sorted r hr acc x h)

def leNat (a b : Nat) : Bool := decide (a ≤ b)
def lePair (a b : Nat × Nat) : Bool := a.1 < b.1 || (a.1 == b.1 && a.2 ≤ b.2)

theorem leNat_tot : TotOrd leNat :=
  ⟨fun a b => by simp only [leNat, decide_eq_true_eq]; omega,
   fun a b c => by simp only [leNat, decide_eq_true_eq]; omega⟩

theorem lePair_tot : TotOrd lePair := by
  constructor
  · intro a b
    simp only [lePair, Bool.or_eq_true, decide_eq_true_eq, Bool.and_eq_true, beq_iff_eq]
    omega
  · intro a b c
    simp only [lePair, Bool.or_eq_true, decide_eq_true_eq, Bool.and_eq_true, beq_iff_eq]
    omega

theorem sortNats_sorted (l : List Nat) : (sortNats l).Pairwise (fun a b => leNat a b = true) :=
  foldl_insSpan_sorted leNat leNat_tot l [] List.Pairwise.nil

theorem sortPairs_sorted (l : List (Nat × Nat)) : (sortPairs l).Pairwise (fun a b => lePair a b = true) :=
  foldl_insSpan_sorted lePair lePair_tot l [] List.Pairwise.nil

theorem sortNats_eq_of_perm {a b : List Nat} (h : a.Perm b) : sortNats a = sortNats b := by
  apply List.Perm.eq_of_pairwise (le := fun a b => leNat a b = true) _ (sortNats_sorted a) (sortNats_sorted b)
  · exact (sortNats_perm a).trans (h.trans (sortNats_perm b).symm)
  · intro x y _ _ h1 h2
    simp only [leNat, decide_eq_true_eq] at h1 h2
    omega

theorem sortPairs_eq_of_perm {a b : List (Nat × Nat)} (h : a.Perm b) : sortPairs a = sortPairs b := by
  apply List.Perm.eq_of_pairwise (le := fun a b => lePair a b = true) _ (sortPairs_sorted a) (sortPairs_sorted b)
  · exact (sortPairs_perm a).trans (h.trans (sortPairs_perm b).symm)
  · intro x y _ _ h1 h2
    simp only [lePair, Bool.or_eq_true, decide_eq_true_eq, Bool.and_eq_true, beq_iff_eq] at h1 h2
    apply Prod.ext <;> omega

theorem sameSet_iff_perm (a b : List Nat) : sameSet a b = true ↔ a.Perm b :=
  ⟨sameSet_perm, fun h => by simp [sameSet, sortNats_eq_of_perm h]⟩

theorem samePairSet_iff_perm (a b : List (Nat × Nat)) : samePairSet a b = true ↔ a.Perm b :=
  ⟨samePairSet_perm, fun h => by simp [samePairSet, sortPairs_eq_of_perm h]⟩


/-! ### the accessor judge -/

/-- what the documentation of `Matching` says about its accessors, as functions of the `mate` table
(`o` = everything the harness observed through the public API; `g.nodes` = `node_identifiers()`) -/
structure AccessorsAgree (g : MGraph) (o : MObs) : Prop where
  /-- `mate` has entries for nodes of the graph only -/
  keys : ∀ p ∈ o.mate, p.1 ∈ g.nodes
  /-- `len()` = number of matched pairs -/
  len : o.len = (pairsOf o.mate).length
  /-- `edges()` lists every matched pair exactly once (either way round) -/
  edges : (o.edges.map normPair).Perm (pairsOf o.mate)
  /-- `nodes()` lists every matched node exactly once -/
  nodes : o.nodes.Perm (o.mate.map (·.1))
  /-- `contains_node(a)` holds exactly for the matched nodes -/
  containsNode : o.cn.Perm (o.mate.map (·.1))
  /-- `contains_edge(a, b)` holds exactly for the entries of `mate` -/
  containsEdge : o.ce.Perm o.mate
  /-- `is_perfect()` iff the matched nodes are all nodes -/
  perfect : o.perfect = true ↔ (o.mate.map (·.1)).Perm g.nodes
  /-- `is_empty()` iff `len() = 0` -/
  empty : o.empty = true ↔ o.len = 0
  /-- no probe with a non-existent node id is answered as matched -/
  bad : o.bad = 0

theorem normPair_of_lt {p : Nat × Nat} (h : p.1 < p.2) : normPair p = p := by
  unfold normPair
  rw [if_pos (Nat.le_of_lt h)]

theorem map_normPair_pairsOf (mate : List (Nat × Nat)) : (pairsOf mate).map normPair = pairsOf mate := by
  have : ∀ p ∈ pairsOf mate, normPair p = p := by
    intro p hp
    have := (List.mem_filter.mp hp).2
    exact normPair_of_lt (by simpa using this)
  calc (pairsOf mate).map normPair = (pairsOf mate).map id := List.map_congr_left this
    _ = pairsOf mate := List.map_id _

/-- **the accessor judge is sound and complete**: it accepts exactly the observations in which every
accessor is the documented function of `mate` -/
theorem judgeAccessors_iff (g : MGraph) (o : MObs) : judgeAccessors g o = none ↔ AccessorsAgree g o := by
  unfold judgeAccessors
  simp only [map_normPair_pairsOf]
  constructor
  · intro h
    split at h; · cases h
    rename_i h1
    split at h; · cases h
    rename_i h2
    split at h; · cases h
    rename_i h3
    split at h; · cases h
    rename_i h4
    split at h; · cases h
    rename_i h5
    split at h; · cases h
    rename_i h6
    split at h; · cases h
    rename_i h7
    split at h; · cases h
    rename_i h8
    split at h; · cases h
    rename_i h9
    simp only [Bool.not_eq_true', Bool.not_eq_false, bne_iff_ne, ne_eq, Decidable.not_not] at h1 h2 h3 h4 h5 h6 h7 h8 h9
    refine ⟨?_, h2, samePairSet_perm h3, sameSet_perm h4, sameSet_perm h5, samePairSet_perm h6, ?_, ?_, h9⟩
    · intro p hp
      have := List.all_eq_true.mp h1 p.1 (List.mem_map_of_mem hp)
      simpa using this
    · rw [h7]; exact sameSet_iff_perm _ _
    · rw [h8]; simp
  · intro h
    have h1 : (o.mate.map (·.1)).all g.nodes.contains = true := by
      rw [List.all_eq_true]
      intro a ha
      obtain ⟨p, hp, rfl⟩ := List.mem_map.mp ha
      simpa using h.keys p hp
    have h3 := (samePairSet_iff_perm _ _).mpr h.edges
    have h4 := (sameSet_iff_perm _ _).mpr h.nodes
    have h5 := (sameSet_iff_perm _ _).mpr h.containsNode
    have h6 := (samePairSet_iff_perm _ _).mpr h.containsEdge
    have h7 : o.perfect = sameSet (o.mate.map (·.1)) g.nodes := by
      rw [Bool.eq_iff_iff, sameSet_iff_perm]; exact h.perfect
    have h8 : o.empty = ((pairsOf o.mate).length == 0) := by
      rw [← h.len, Bool.eq_iff_iff]; simpa using h.empty
    simp [h1, h.len, h3, h4, h5, h6, ← h7, ← h8, h.bad]

/-- a valid `mate` table has exactly two entries per matched pair -/
theorem mate_length (g : MGraph) (T : List (Nat × Nat)) (h : MateValid g T) :
    T.length = 2 * (pairsOf T).length := by
  have hT : T.Nodup := C15W2.nodup_of_nodup_map _ _ h.functional
  have hne : ∀ a b, (a, b) ∈ T → a ≠ b := fun a b hab => (h.joined a b hab).1
  have hsplit : T.countP (fun _ => true) =
      T.countP (fun p => decide (p.1 < p.2)) + T.countP (fun p => decide (p.2 < p.1)) := by
    apply C15W2.countP_split
    intro p hp
    obtain ⟨a, b⟩ := p
    have := hne a b hp
    by_cases hlt : a < b
    · have : ¬ b < a := by omega
      simp [hlt, this]
    · have : b < a := by omega
      simp [hlt, this]
  have hAB : T.countP (fun p => decide (p.1 < p.2)) ≤ T.countP (fun p => decide (p.2 < p.1)) := by
    apply C15W2.countP_le_of_inj _ _ Prod.swap _ hT
    · intro p hp hA
      obtain ⟨a, b⟩ := p
      exact ⟨h.symmetric a b hp, by simpa using hA⟩
    · intro p _ q _ _ _ e
      exact C15W2.swap_inj e
  have hBA : T.countP (fun p => decide (p.2 < p.1)) ≤ T.countP (fun p => decide (p.1 < p.2)) := by
    apply C15W2.countP_le_of_inj _ _ Prod.swap _ hT
    · intro p hp hA
      obtain ⟨a, b⟩ := p
      exact ⟨h.symmetric a b hp, by simpa using hA⟩
    · intro p _ q _ _ _ e
      exact C15W2.swap_inj e
  have htot : T.countP (fun _ => true) = T.length := by simp
  unfold pairsOf
  rw [← List.countP_eq_length_filter]
  omega

theorem normPair_cases (a b : Nat) : normPair (a, b) = (a, b) ∨ normPair (a, b) = (b, a) := by
  unfold normPair
  split
  · exact Or.inl rfl
  · exact Or.inr rfl

/-- the accepted observations, clause by clause in terms of membership in `mate` (what the property
statement says: "len/edges/nodes/contains_*/is_perfect agree with `mate`") -/
theorem accessors_readable (g : MGraph) (o : MObs) (hnd : g.nodes.Nodup) (hv : MateValid g o.mate)
    (h : AccessorsAgree g o) :
    (∀ a, a ∈ o.nodes ↔ ∃ b, (a, b) ∈ o.mate) ∧ o.nodes.Nodup ∧
    (∀ a, a ∈ o.cn ↔ ∃ b, (a, b) ∈ o.mate) ∧
    (∀ a b, (a, b) ∈ o.ce ↔ (a, b) ∈ o.mate) ∧
    (∀ a b, (a, b) ∈ o.edges → (a, b) ∈ o.mate) ∧
    (∀ a b, (a, b) ∈ o.mate → (a, b) ∈ o.edges ∨ (b, a) ∈ o.edges) ∧
    o.edges.length = o.len ∧ 2 * o.len = o.nodes.length ∧
    (o.perfect = true ↔ ∀ a ∈ g.nodes, ∃ b, (a, b) ∈ o.mate) ∧
    (o.empty = true ↔ o.mate = []) := by
  have hkeys : ∀ a, a ∈ o.mate.map (·.1) ↔ ∃ b, (a, b) ∈ o.mate := by
    intro a
    constructor
    · intro ha
      obtain ⟨p, hp, rfl⟩ := List.mem_map.mp ha
      exact ⟨p.2, hp⟩
    · rintro ⟨b, hb⟩
      exact List.mem_map.mpr ⟨(a, b), hb, rfl⟩
  have hpairs : ∀ a b, (a, b) ∈ pairsOf o.mate ↔ (a, b) ∈ o.mate ∧ a < b := by
    intro a b
    unfold pairsOf
    rw [List.mem_filter]
    simp
  have hlen2 := mate_length g o.mate hv
  refine ⟨fun a => (h.nodes.mem_iff).trans (hkeys a), (h.nodes.nodup_iff).mpr hv.functional,
    fun a => (h.containsNode.mem_iff).trans (hkeys a), fun a b => h.containsEdge.mem_iff, ?_, ?_, ?_, ?_, ?_, ?_⟩
  · intro a b hab
    have h1 : normPair (a, b) ∈ pairsOf o.mate :=
      h.edges.mem_iff.mp (List.mem_map_of_mem hab)
    rcases normPair_cases a b with e | e
    · rw [e] at h1; exact ((hpairs a b).mp h1).1
    · rw [e] at h1; exact hv.symmetric b a ((hpairs b a).mp h1).1
  · intro a b hab
    have hne : a ≠ b := (hv.joined a b hab).1
    by_cases hlt : a < b
    · have h1 : (a, b) ∈ o.edges.map normPair := h.edges.mem_iff.mpr ((hpairs a b).mpr ⟨hab, hlt⟩)
      obtain ⟨q, hq, e⟩ := List.mem_map.mp h1
      obtain ⟨c, d⟩ := q
      rcases normPair_cases c d with e' | e'
      · rw [e'] at e; rw [← e]; exact Or.inl hq
      · rw [e'] at e
        have := Prod.mk.inj e
        rw [← this.1, ← this.2]; exact Or.inr hq
    · have hlt' : b < a := by omega
      have h1 : (b, a) ∈ o.edges.map normPair :=
        h.edges.mem_iff.mpr ((hpairs b a).mpr ⟨hv.symmetric a b hab, hlt'⟩)
      obtain ⟨q, hq, e⟩ := List.mem_map.mp h1
      obtain ⟨c, d⟩ := q
      rcases normPair_cases c d with e' | e'
      · rw [e'] at e
        have := Prod.mk.inj e
        rw [← this.1, ← this.2]; exact Or.inr hq
      · rw [e'] at e
        have := Prod.mk.inj e
        rw [← this.1, ← this.2]; exact Or.inl hq
  · have := h.edges.length_eq
    rw [List.length_map] at this
    rw [this, h.len]
  · have := h.nodes.length_eq
    rw [List.length_map] at this
    rw [this, h.len, hlen2]
  · rw [h.perfect]
    constructor
    · intro hp a ha
      exact (hkeys a).mp (hp.mem_iff.mpr ha)
    · intro hall
      rw [List.perm_ext_iff_of_nodup hv.functional hnd]
      intro a
      constructor
      · intro ha
        obtain ⟨p, hp, rfl⟩ := List.mem_map.mp ha
        exact h.keys p hp
      · intro ha
        exact (hkeys a).mpr (hall a ha)
  · rw [h.empty, h.len]
    constructor
    · intro h0
      have : o.mate.length = 0 := by omega
      exact List.length_eq_zero_iff.mp this
    · intro h0
      rw [h0]; rfl

end PetgraphModel.C15W5A
