import PetgraphModel.Model.C12Mst
/-
The binary-heap mirror (`MstModel.push` / `pop`, i.e. `alloc::collections::BinaryHeap` with the hole
technique) keeps its contents: `push` adds exactly the pushed item, `pop` removes exactly the returned
one, `popAll` returns a rearrangement of the heap.  (Order-independent facts; the order in which
equal scores leave the heap is what the exact differential comparison pins down.)
-/
namespace PetgraphModel.MstModel
open PetgraphModel

theorem getD_eq_get {l : List Item} {i : Nat} (h : i < l.length) : l.getD i default = l[i] := by
  simp [List.getD_eq_getElem?_getD, List.getElem?_eq_getElem h]

/-- moving `l[j]` into position `i` and a new element into `j` is the same multiset as putting the
new element into `i` directly -/
theorem swap_perm {l : List Item} {i j : Nat} (hi : i < l.length) (hj : j < l.length) (hij : i ≠ j)
    (x : Item) : ((l.set i l[j]).set j x).Perm (l.set i x) := by
  rw [List.perm_iff_count]
  intro b
  have hj' : j < (l.set i l[j]).length := by simpa using hj
  rw [List.count_set hj', List.count_set hi, List.count_set hi]
  have hget : (l.set i l[j])[j] = l[j] := by
    rw [List.getElem_set]; simp [hij]
  rw [hget]
  have hci : (if l[i] == b then 1 else 0) ≤ l.count b := by
    split
    · rename_i h
      have : l[i] = b := by simpa using h
      rw [← this]
      exact List.count_pos_iff.mpr (List.getElem_mem hi)
    · omega
  split <;> split <;> split <;> omega

theorem siftUp_length (elt : Item) : ∀ (f : Nat) (d : Heap) (pos : Nat), (siftUp elt f d pos).length = d.length
  | 0, d, pos => by simp [siftUp]
  | f+1, d, pos => by
    simp only [siftUp]
    split
    · simp
    · split
      · simp
      · rw [siftUp_length]; simp

theorem siftUp_perm (elt : Item) : ∀ (f : Nat) (d : Heap) (pos : Nat), pos < d.length →
    (siftUp elt f d pos).Perm (d.set pos elt)
  | 0, d, pos, _ => by simp [siftUp]
  | f+1, d, pos, hpos => by
    simp only [siftUp]
    split
    · exact List.Perm.refl _
    · rename_i hne
      split
      · exact List.Perm.refl _
      · have hpar : (pos - 1) / 2 < d.length := by omega
        have hne' : pos ≠ (pos - 1) / 2 := by omega
        refine (siftUp_perm elt f _ _ (by simpa using hpar)).trans ?_
        rw [getD_eq_get hpar]
        exact swap_perm hpos hpar hne' elt

theorem push_perm (d : Heap) (x : Item) : (push d x).Perm (x :: d) := by
  unfold push
  refine (siftUp_perm x _ _ _ (by simp)).trans ?_
  have : (d ++ [x]).set d.length x = d ++ [x] := by
    rw [List.set_append_right _ _ (Nat.le_refl _)]
    simp
  rw [this]
  exact List.perm_append_singleton x d

theorem push_length (d : Heap) (x : Item) : (push d x).length = d.length + 1 := by
  have := (push_perm d x).length_eq
  simpa using this

theorem siftDown_spec : ∀ (f : Nat) (d : Heap) (pos : Nat) (d' : Heap) (pos' : Nat),
    siftDown f d pos = (d', pos') → pos < d.length →
    pos' < d'.length ∧ d'.length = d.length ∧ ∀ elt, (d'.set pos' elt).Perm (d.set pos elt)
  | 0, d, pos, d', pos', h, hpos => by
    simp only [siftDown, Prod.mk.injEq] at h
    obtain ⟨rfl, rfl⟩ := h
    exact ⟨hpos, rfl, fun _ => List.Perm.refl _⟩
  | f+1, d, pos, d', pos', h, hpos => by
    simp only [siftDown] at h
    split at h
    · rename_i hc
      -- the chosen child
      generalize hcdef : (if rle (d.getD (2 * pos + 1) default) (d.getD (2 * pos + 1 + 1) default) = true
        then 2 * pos + 1 + 1 else 2 * pos + 1) = c at h
      have hcl : c < d.length := by rw [← hcdef]; split <;> omega
      have hcp : pos ≠ c := by rw [← hcdef]; split <;> omega
      obtain ⟨h1, h2, h3⟩ := siftDown_spec f _ c d' pos' h (by simpa using hcl)
      refine ⟨h1, by simpa using h2, fun elt => (h3 elt).trans ?_⟩
      rw [getD_eq_get hcl]
      exact swap_perm hpos hcl hcp elt
    · split at h
      · rename_i hc1 hc2
        simp only [Prod.mk.injEq] at h
        obtain ⟨rfl, rfl⟩ := h
        have hcl : 2 * pos + 1 < d.length := by omega
        refine ⟨by simpa using hcl, by simp, fun elt => ?_⟩
        rw [getD_eq_get hcl]
        exact swap_perm hpos hcl (by omega) elt
      · simp only [Prod.mk.injEq] at h
        obtain ⟨rfl, rfl⟩ := h
        exact ⟨hpos, rfl, fun _ => List.Perm.refl _⟩

theorem pop_concat (init : Heap) (last : Item) :
    pop (init ++ [last]) =
      match init with
      | [] => some (last, [])
      | top :: _ =>
        let r := siftDown (init.length + 1) init 0
        some (top, siftUp last (init.length + 1) r.1 r.2) := by
  unfold pop
  simp only [List.getLast?_append, List.getLast?_singleton, Option.some_or, List.dropLast_concat]
  cases init <;> rfl

theorem pop_none {d : Heap} : pop d = none ↔ d = [] := by
  constructor
  · intro h
    cases hl : d.getLast? with
    | none => simpa using hl
    | some last =>
      obtain ⟨init, rfl⟩ := List.getLast?_eq_some_iff.mp hl
      rw [pop_concat] at h
      cases init <;> simp at h
  · rintro rfl; rfl

theorem pop_perm {d d' : Heap} {x : Item} (h : pop d = some (x, d')) : d.Perm (x :: d') := by
  cases hl : d.getLast? with
  | none =>
    have : d = [] := by simpa using hl
    subst this; simp [pop] at h
  | some last =>
    obtain ⟨init, rfl⟩ := List.getLast?_eq_some_iff.mp hl
    rw [pop_concat] at h
    cases init with
    | nil =>
      simp only [Option.some.injEq, Prod.mk.injEq] at h
      obtain ⟨rfl, rfl⟩ := h
      exact List.Perm.refl _
    | cons top tl =>
      simp only [Option.some.injEq, Prod.mk.injEq] at h
      obtain ⟨rfl, rfl⟩ := h
      have hpos0 : 0 < (top :: tl).length := by simp
      obtain ⟨h1, _, h3⟩ := siftDown_spec _ _ _ _ _ rfl hpos0
      have hp := (siftUp_perm last ((top :: tl).length + 1) _ _ h1).trans (h3 last)
      simp only [List.set_cons_zero] at hp
      -- top :: tl ++ [last]  ~  top :: (last :: tl)
      refine List.Perm.trans ?_ ((hp.symm).cons top)
      simp only [List.cons_append]
      exact (List.perm_append_singleton last tl).cons top

theorem popAll_perm : ∀ (f : Nat) (d : Heap), d.length < f → (popAll f d).Perm d
  | 0, _, h => by omega
  | f+1, d, h => by
    simp only [popAll]
    split
    · rename_i hp; rw [pop_none.mp hp]
    · rename_i x d' hp
      have hperm := pop_perm hp
      have hlen : d'.length < f := by have := hperm.length_eq; simp at this; omega
      exact ((popAll_perm f d' hlen).cons x).trans hperm.symm

theorem foldl_push_perm {α : Type} (mk : α → Item) : ∀ (l : List α) (h : Heap),
    (l.foldl (fun h e => push h (mk e)) h).Perm (l.reverse.map mk ++ h)
  | [], h => by simp
  | e :: l, h => by
    simp only [List.foldl_cons, List.reverse_cons, List.map_append, List.map_cons, List.map_nil,
      List.append_assoc, List.cons_append, List.nil_append]
    exact (foldl_push_perm mk l (push h (mk e))).trans ((push_perm h (mk e)).append_left _)

/-- the items `min_spanning_tree` scans: one per edge reference -/
def erItems (v : View) (er : List (Nat × Nat × Nat)) : List Item :=
  er.map fun e => ⟨v.weight e.2.2, e.1, e.2.1⟩

theorem buildHeap_perm (v : View) (er : List (Nat × Nat × Nat)) : (buildHeap v er).Perm (erItems v er) := by
  unfold buildHeap erItems
  have := foldl_push_perm (fun e : Nat × Nat × Nat => (⟨v.weight e.2.2, e.1, e.2.1⟩ : Item)) er []
  simp only [List.append_nil] at this
  exact this.trans ((List.reverse_perm er).map _)

/-- **the pop order is a rearrangement of the pushed edges** -/
theorem popAll_buildHeap_perm (v : View) (er : List (Nat × Nat × Nat)) :
    (popAll ((buildHeap v er).length + 1) (buildHeap v er)).Perm (erItems v er) :=
  (popAll_perm _ _ (Nat.lt_succ_self _)).trans (buildHeap_perm v er)

/-! ### heap order: the pop order is sorted by weight -/

/-- weight at a position (total) -/
def W (d : Heap) (i : Nat) : Int := (d.getD i default).w

/-- parent position -/
def par (i : Nat) : Nat := (i - 1) / 2

theorem W_set {d : Heap} {p i : Nat} {x : Item} (hp : p < d.length) :
    W (d.set p x) i = if i = p then x.w else W d i := by
  unfold W
  simp only [List.getD_eq_getElem?_getD, List.getElem?_set]
  by_cases h : p = i
  · subst h; simp [hp]
  · have : ¬ i = p := fun h' => h h'.symm
    simp [h, this]

/-- min-heap on weights (= Rust's max-heap on `MinScored`) -/
def IsHeap (d : Heap) : Prop := ∀ i, 0 < i → i < d.length → W d (par i) ≤ W d i

/-- all heap relations that do not involve the hole at `pos` -/
def Away (d : Heap) (pos : Nat) : Prop :=
  ∀ i, 0 < i → i < d.length → i ≠ pos → par i ≠ pos → W d (par i) ≤ W d i

/-- the hole's children are at least as heavy as the hole's parent -/
def Skip (d : Heap) (pos : Nat) : Prop :=
  0 < pos → ∀ i, 0 < i → i < d.length → par i = pos → W d (par pos) ≤ W d i

theorem heap_fill {d : Heap} {pos : Nat} {elt : Item} (hpos : pos < d.length) (ha : Away d pos)
    (hch : ∀ i, 0 < i → i < d.length → par i = pos → elt.w ≤ W d i)
    (hpar : 0 < pos → W d (par pos) ≤ elt.w) : IsHeap (d.set pos elt) := by
  intro i hi hil
  have hil' : i < d.length := by simpa using hil
  rw [W_set hpos, W_set hpos]
  by_cases h1 : i = pos
  · subst h1
    have : par i ≠ i := by unfold par; omega
    simp only [this, if_false, if_true]
    exact hpar hi
  · by_cases h2 : par i = pos
    · simp only [h1, h2, if_true, if_false]
      exact hch i hi hil' h2
    · simp only [h1, h2, if_false]
      exact ha i hi hil' h1 h2

theorem siftUp_heap (elt : Item) : ∀ (f : Nat) (d : Heap) (pos : Nat), pos < d.length → pos ≤ f →
    Away d pos → Skip d pos → (∀ i, 0 < i → i < d.length → par i = pos → elt.w ≤ W d i) →
    IsHeap (siftUp elt f d pos)
  | 0, d, pos, hpos, hf, ha, _, hch => by
    simp only [siftUp]
    exact heap_fill hpos ha hch (fun h => by omega)
  | f+1, d, pos, hpos, hf, ha, hs, hch => by
    simp only [siftUp]
    split
    · rename_i h0
      exact heap_fill hpos ha hch (fun h => by omega)
    · rename_i hne
      have hp0 : 0 < pos := by omega
      split
      · rename_i hr
        refine heap_fill hpos ha hch (fun _ => ?_)
        simpa [rle, W, par] using hr
      · rename_i hr
        have hlt : elt.w < W d (par pos) := by
          have : ¬ (d.getD ((pos - 1) / 2) default).w ≤ elt.w := by simpa [rle] using hr
          unfold W par; omega
        have hq : par pos < d.length := by unfold par; omega
        have hqp : par pos < pos := by unfold par; omega
        have hWd1 : ∀ i, W (d.set pos (d.getD ((pos - 1) / 2) default)) i =
            if i = pos then W d (par pos) else W d i := by
          intro i; rw [W_set hpos]; rfl
        apply siftUp_heap elt f _ (par pos) (by simpa using hq) (by unfold par; omega)
        · -- Away d1 (par pos)
          intro i hi hil hiq hpq
          have hil' : i < d.length := by simpa using hil
          rw [hWd1, hWd1]
          by_cases h1 : i = pos
          · exact absurd (h1 ▸ rfl) hpq
          · by_cases h2 : par i = pos
            · simp only [h1, h2, if_true, if_false]
              exact hs hp0 i hi hil' h2
            · simp only [h1, h2, if_false]
              exact ha i hi hil' h1 h2
        · -- Skip d1 (par pos)
          intro hq0 i hi hil hpi
          have hil' : i < d.length := by simpa using hil
          rw [hWd1, hWd1]
          have hppne : par (par pos) ≠ pos := by unfold par; omega
          have hqne : par pos ≠ pos := by omega
          have hgp : W d (par (par pos)) ≤ W d (par pos) := by
            refine ha (par pos) hq0 hq hqne hppne
          simp only [hppne, if_false]
          by_cases h1 : i = pos
          · simp only [h1, if_true]; exact hgp
          · simp only [h1, if_false]
            have : W d (par pos) ≤ W d i := by
              have := ha i hi hil' h1 (by omega)
              rw [hpi] at this; exact this
            omega
        · -- children of the new hole are heavier than elt
          intro i hi hil hpi
          have hil' : i < d.length := by simpa using hil
          rw [hWd1]
          by_cases h1 : i = pos
          · simp only [h1, if_true]; omega
          · simp only [h1, if_false]
            have := ha i hi hil' h1 (by omega)
            rw [hpi] at this; omega

theorem isHeap_nil : IsHeap [] := fun i _ h => by simp at h

theorem W_append_left {d : Heap} {x : Item} {i : Nat} (h : i < d.length) : W (d ++ [x]) i = W d i := by
  unfold W
  simp [List.getD_eq_getElem?_getD, List.getElem?_append_left h]

theorem push_heap {d : Heap} (h : IsHeap d) (x : Item) : IsHeap (push d x) := by
  unfold push
  apply siftUp_heap x _ _ _ (by simp) (by omega)
  · intro i hi hil hne _
    have hil' : i < d.length := by simp at hil; omega
    have hpl : par i < d.length := by unfold par; omega
    rw [W_append_left hil', W_append_left hpl]
    exact h i hi hil'
  · intro _ i hi hil hpi
    simp at hil; unfold par at hpi; omega
  · intro i hi hil hpi
    simp at hil; unfold par at hpi; omega

theorem siftDown_heap : ∀ (f : Nat) (d : Heap) (pos : Nat) (d' : Heap) (pos' : Nat),
    siftDown f d pos = (d', pos') → pos < d.length → d.length ≤ pos + f → Away d pos → Skip d pos →
    Away d' pos' ∧ Skip d' pos' ∧ d'.length ≤ 2 * pos' + 1
  | 0, d, pos, d', pos', _, hpos, hf, _, _ => by omega
  | f+1, d, pos, d', pos', h, hpos, hf, ha, hs => by
    simp only [siftDown] at h
    split at h
    · rename_i hc
      generalize hcdef : (if rle (d.getD (2 * pos + 1) default) (d.getD (2 * pos + 1 + 1) default) = true
        then 2 * pos + 1 + 1 else 2 * pos + 1) = c at h
      have hcl : c < d.length := by rw [← hcdef]; split <;> omega
      have hcpar : par c = pos := by rw [← hcdef]; unfold par; split <;> omega
      have hc0 : 0 < c := by rw [← hcdef]; split <;> omega
      have hcgt : pos < c := by rw [← hcdef]; split <;> omega
      -- c is the lighter child
      have hmin : ∀ i, 0 < i → i < d.length → par i = pos → W d c ≤ W d i := by
        intro i hi hil hpi
        have hi2 : i = 2 * pos + 1 ∨ i = 2 * pos + 1 + 1 := by unfold par at hpi; omega
        by_cases hr : rle (d.getD (2 * pos + 1) default) (d.getD (2 * pos + 1 + 1) default) = true
        · have hc' : c = 2 * pos + 1 + 1 := by rw [← hcdef, if_pos hr]
          have hle : W d (2 * pos + 1 + 1) ≤ W d (2 * pos + 1) := by simpa [rle, W] using hr
          rcases hi2 with rfl | rfl <;> rw [hc'] <;> omega
        · have hc' : c = 2 * pos + 1 := by rw [← hcdef, if_neg hr]
          have hle : ¬ W d (2 * pos + 1 + 1) ≤ W d (2 * pos + 1) := by simpa [rle, W] using hr
          rcases hi2 with rfl | rfl <;> rw [hc'] <;> omega
      have hWd1 : ∀ i, W (d.set pos (d.getD c default)) i = if i = pos then W d c else W d i := by
        intro i; rw [W_set hpos]; rfl
      apply siftDown_heap f _ c d' pos' h (by simpa using hcl) (by simp; omega)
      · intro i hi hil hic hpc
        have hil' : i < d.length := by simpa using hil
        rw [hWd1, hWd1]
        by_cases h1 : i = pos
        · subst h1
          have hpp : par i ≠ i := by unfold par; omega
          simp only [hpp, if_false, if_true]
          exact hs hi c hc0 hcl hcpar
        · by_cases h2 : par i = pos
          · simp only [h1, h2, if_true, if_false]
            exact hmin i hi hil' h2
          · simp only [h1, h2, if_false]
            exact ha i hi hil' h1 h2
      · intro _ i hi hil hpi
        have hil' : i < d.length := by simpa using hil
        rw [hWd1, hWd1]
        have hip : i ≠ pos := by unfold par at hpi hcpar; omega
        simp only [hcpar, hip, if_true, if_false]
        have := ha i hi hil' hip (by omega)
        rw [hpi] at this; exact this
    · split at h
      · rename_i hc1 hc2
        simp only [Prod.mk.injEq] at h
        obtain ⟨rfl, rfl⟩ := h
        have hcl : 2 * pos + 1 < d.length := by omega
        have hWd1 : ∀ i, W (d.set pos (d.getD (2 * pos + 1) default)) i =
            if i = pos then W d (2 * pos + 1) else W d i := by
          intro i; rw [W_set hpos]; rfl
        have hcpar : par (2 * pos + 1) = pos := by unfold par; omega
        refine ⟨?_, ?_, by simp; omega⟩
        · intro i hi hil hic hpc
          have hil' : i < d.length := by simpa using hil
          rw [hWd1, hWd1]
          by_cases h1 : i = pos
          · subst h1
            have hpp : par i ≠ i := by unfold par; omega
            simp only [hpp, if_false, if_true]
            exact hs hi (2 * i + 1) (by omega) hcl hcpar
          · by_cases h2 : par i = pos
            · exfalso; unfold par at h2; omega
            · simp only [h1, h2, if_false]
              exact ha i hi hil' h1 h2
        · intro _ i hi hil hpi
          simp at hil; unfold par at hpi; omega
      · simp only [Prod.mk.injEq] at h
        obtain ⟨rfl, rfl⟩ := h
        exact ⟨ha, hs, by omega⟩

/-- the root is a minimum -/
theorem heap_root_min {d : Heap} (h : IsHeap d) : ∀ (n i : Nat), i ≤ n → i < d.length → W d 0 ≤ W d i
  | 0, i, hi, _ => by have : i = 0 := by omega
                      subst this; omega
  | n+1, i, hi, hil => by
    by_cases h0 : i = 0
    · subst h0; omega
    · have h1 := h i (by omega) hil
      have h2 := heap_root_min h n (par i) (by unfold par; omega) (by unfold par; omega)
      omega

theorem W_mem {d : Heap} {x : Item} (hx : x ∈ d) : ∃ i, i < d.length ∧ W d i = x.w := by
  obtain ⟨i, hi, rfl⟩ := List.getElem_of_mem hx
  exact ⟨i, hi, by simp [W, List.getD_eq_getElem?_getD, List.getElem?_eq_getElem hi]⟩

/-- `pop` returns a lightest item and leaves a heap -/
theorem pop_heap {d d' : Heap} {x : Item} (hd : IsHeap d) (h : pop d = some (x, d')) :
    IsHeap d' ∧ ∀ y ∈ d, x.w ≤ y.w := by
  cases hl : d.getLast? with
  | none =>
    have : d = [] := by simpa using hl
    subst this; simp [pop] at h
  | some last =>
    obtain ⟨init, rfl⟩ := List.getLast?_eq_some_iff.mp hl
    rw [pop_concat] at h
    cases init with
    | nil =>
      simp only [Option.some.injEq, Prod.mk.injEq] at h
      obtain ⟨rfl, rfl⟩ := h
      exact ⟨isHeap_nil, fun y hy => by simp at hy; subst hy; omega⟩
    | cons top tl =>
      simp only [Option.some.injEq, Prod.mk.injEq] at h
      obtain ⟨rfl, rfl⟩ := h
      constructor
      · have hpos0 : 0 < (top :: tl).length := by simp
        have hWi : ∀ i, i < (top :: tl).length → W (top :: tl) i = W (top :: tl ++ [last]) i := by
          intro i hi; exact (W_append_left (x := last) hi).symm
        have haway : Away (top :: tl) 0 := by
          intro i hi hil _ _
          have hpl : par i < (top :: tl).length := by unfold par; omega
          rw [hWi i hil, hWi _ hpl]
          exact hd i hi (by simp at hil ⊢; omega)
        have hskip : Skip (top :: tl) 0 := fun h => by omega
        obtain ⟨ha', hs', hleaf⟩ :=
          siftDown_heap ((top :: tl).length + 1) (top :: tl) 0 _ _ rfl hpos0 (by omega) haway hskip
        obtain ⟨hp', hlen', _⟩ := siftDown_spec ((top :: tl).length + 1) (top :: tl) 0 _ _ rfl hpos0
        apply siftUp_heap last _ _ _ hp' (by omega) ha' hs'
        intro i hi hil hpi
        unfold par at hpi; omega
      · intro y hy
        obtain ⟨i, hi, hw⟩ := W_mem hy
        have := heap_root_min hd i i (Nat.le_refl _) hi
        have h0 : W (top :: tl ++ [last]) 0 = top.w := by simp [W]
        omega

theorem popAll_sorted : ∀ (f : Nat) (d : Heap), d.length < f → IsHeap d →
    (popAll f d).Pairwise fun x y => x.w ≤ y.w
  | 0, _, h, _ => by omega
  | f+1, d, h, hd => by
    simp only [popAll]
    split
    · exact List.Pairwise.nil
    · rename_i x d' hp
      have hperm := pop_perm hp
      obtain ⟨hd', hmin⟩ := pop_heap hd hp
      have hlen : d'.length < f := by have := hperm.length_eq; simp at this; omega
      refine List.pairwise_cons.mpr ⟨?_, popAll_sorted f d' hlen hd'⟩
      intro y hy
      have hy' : y ∈ d' := (popAll_perm f d' hlen).mem_iff.mp hy
      exact hmin y (hperm.mem_iff.mpr (List.mem_cons_of_mem _ hy'))

theorem foldl_push_heap {α : Type} (mk : α → Item) : ∀ (l : List α) (h : Heap), IsHeap h →
    IsHeap (l.foldl (fun h e => push h (mk e)) h)
  | [], _, hh => hh
  | e :: l, h, hh => foldl_push_heap mk l _ (push_heap hh (mk e))

theorem buildHeap_heap (v : View) (er : List (Nat × Nat × Nat)) : IsHeap (buildHeap v er) :=
  foldl_push_heap _ er [] isHeap_nil

/-- **the pop order is sorted by weight** -/
theorem popAll_buildHeap_sorted (v : View) (er : List (Nat × Nat × Nat)) :
    (popAll ((buildHeap v er).length + 1) (buildHeap v er)).Pairwise fun x y => x.w ≤ y.w :=
  popAll_sorted _ _ (Nat.lt_succ_self _) (buildHeap_heap v er)

end PetgraphModel.MstModel
