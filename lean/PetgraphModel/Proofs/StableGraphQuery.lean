import PetgraphModel.Proofs.StableGraph
/-
C02 helper lemmas, part 4: the adjacency iterators (`Neighbors`, `Edges`, the detached `WalkNeighbors`,
`externals`) run over the invariant's chains: they terminate, never trip a debug assertion, and yield one item per
list element (self-loops of the "both directions" modes once).
-/
namespace PetgraphModel.SGProofs
open PetgraphModel PetgraphModel.SG

/-- item of the `Neighbors` iterator for an edge of the outgoing list -/
def nbOut (es : List Edge) (e : Nat) : Option Nat := (es[e]?).map (·.b)
/-- item of the `Neighbors` iterator for an edge of the incoming list (`none`: skipped self-loop) -/
def nbIn (es : List Edge) (skip : Nat) (e : Nat) : Option Nat :=
  (es[e]?).bind fun x => if x.a != skip then some x.a else none

theorem neighborsLoop_in {es : List Edge} {fin skip : Nat} {dbg : Bool} (hfin : es.length ≤ fin) {n1 : Nat} {l1 : List Nat}
    (hl1 : Chain (enext es 1) fin n1 l1) (hlive : ∀ e ∈ l1, ∃ x, es[e]? = some x ∧ x.w.isSome) :
    ∀ fuel, l1.length < fuel → neighborsLoop es skip dbg fuel fin n1 = .ok (l1.filterMap (nbIn es skip)) := by
  have hnone : es[fin]? = none := List.getElem?_eq_none_iff.2 hfin
  induction hl1 with
  | nil =>
    intro fuel hf
    cases fuel with
    | zero => simp at hf
    | succ f => simp [neighborsLoop, hnone]
  | @cons i j l h1 h2 h3 ih =>
    intro fuel hf
    cases fuel with
    | zero => simp at hf
    | succ f =>
      obtain ⟨x, hx, hn⟩ := enext_some.1 h2
      obtain ⟨x', hx', hxl⟩ := hlive i List.mem_cons_self
      rw [hx] at hx'; cases hx'
      have hdbg : (dbg && x.w.isNone) = false := by cases hw : x.w <;> simp_all
      simp only [Edge.next_one] at hn
      have := ih (fun e he => hlive e (List.mem_cons_of_mem _ he)) f (by simp at hf; omega)
      simp only [neighborsLoop, hnone, hx, hdbg, Bool.false_eq_true, if_false, hn, this, List.filterMap_cons, nbIn]
      simp only [Option.bind_some]
      split <;> rfl

theorem neighborsLoop_spec {es : List Edge} {fin skip : Nat} {dbg : Bool} (hfin : es.length ≤ fin) {n0 n1 : Nat} {l0 l1 : List Nat}
    (hl0 : Chain (enext es 0) fin n0 l0) (hl1 : Chain (enext es 1) fin n1 l1)
    (hlive : ∀ e ∈ l0 ++ l1, ∃ x, es[e]? = some x ∧ x.w.isSome) :
    ∀ fuel, l0.length + l1.length < fuel →
      neighborsLoop es skip dbg fuel n0 n1 = .ok (l0.filterMap (nbOut es) ++ l1.filterMap (nbIn es skip)) := by
  induction hl0 with
  | nil =>
    intro fuel hf
    simp only [List.filterMap_nil, List.nil_append]
    exact neighborsLoop_in hfin hl1 (fun e he => hlive e (by simp [he])) fuel (by simpa using hf)
  | @cons i j l h1 h2 h3 ih =>
    intro fuel hf
    cases fuel with
    | zero => simp at hf
    | succ f =>
      obtain ⟨x, hx, hn⟩ := enext_some.1 h2
      obtain ⟨x', hx', hxl⟩ := hlive i (by simp)
      rw [hx] at hx'; cases hx'
      have hdbg : (dbg && x.w.isNone) = false := by cases hw : x.w <;> simp_all
      simp only [Edge.next_zero] at hn
      have := ih (fun e he => hlive e (by
        rcases List.mem_append.1 he with h | h
        · exact List.mem_append_left _ (List.mem_cons_of_mem _ h)
        · exact List.mem_append_right _ h)) f (by simp at hf; omega)
      simp only [neighborsLoop, hx, hdbg, Bool.false_eq_true, if_false, hn, this, List.filterMap_cons, nbOut]
      simp


/-- items of the detached walker -/
def wkOut (es : List Edge) (e : Nat) : Option (Nat × Nat) := (es[e]?).map fun x => (e, x.b)
def wkIn (es : List Edge) (skip : Nat) (e : Nat) : Option (Nat × Nat) :=
  (es[e]?).bind fun x => if x.a != skip then some (e, x.a) else none

theorem walkLoop_in {es : List Edge} {fin skip : Nat} (hfin : es.length ≤ fin) {n1 : Nat} {l1 : List Nat}
    (hl1 : Chain (enext es 1) fin n1 l1) :
    ∀ fuel, l1.length < fuel → walkLoop es skip fuel fin n1 = .ok (l1.filterMap (wkIn es skip)) := by
  have hnone : es[fin]? = none := List.getElem?_eq_none_iff.2 hfin
  induction hl1 with
  | nil =>
    intro fuel hf
    cases fuel with
    | zero => simp at hf
    | succ f => simp [walkLoop, hnone]
  | @cons i j l h1 h2 h3 ih =>
    intro fuel hf
    cases fuel with
    | zero => simp at hf
    | succ f =>
      obtain ⟨x, hx, hn⟩ := enext_some.1 h2
      simp only [Edge.next_one] at hn
      have := ih f (by simp at hf; omega)
      simp only [walkLoop, hnone, hx, hn, this, List.filterMap_cons, wkIn, Option.bind_some]
      split <;> rfl

theorem walkLoop_spec {es : List Edge} {fin skip : Nat} (hfin : es.length ≤ fin) {n0 n1 : Nat} {l0 l1 : List Nat}
    (hl0 : Chain (enext es 0) fin n0 l0) (hl1 : Chain (enext es 1) fin n1 l1) :
    ∀ fuel, l0.length + l1.length < fuel →
      walkLoop es skip fuel n0 n1 = .ok (l0.filterMap (wkOut es) ++ l1.filterMap (wkIn es skip)) := by
  induction hl0 with
  | nil =>
    intro fuel hf
    simp only [List.filterMap_nil, List.nil_append]
    exact walkLoop_in hfin hl1 fuel (by simpa using hf)
  | @cons i j l h1 h2 h3 ih =>
    intro fuel hf
    cases fuel with
    | zero => simp at hf
    | succ f =>
      obtain ⟨x, hx, hn⟩ := enext_some.1 h2
      simp only [Edge.next_zero] at hn
      have := ih f (by simp at hf; omega)
      simp only [walkLoop, hx, hn, this, List.filterMap_cons, wkOut]
      simp

/-- items of the `Edges` iterator -/
def erOut (es : List Edge) (directed dirIn : Bool) (e : Nat) : Option ERef :=
  (es[e]?).bind fun x => x.w.map fun w => if !directed && dirIn then ⟨e, x.b, x.a, w⟩ else ⟨e, x.a, x.b, w⟩
def erIn (es : List Edge) (directed dirIn : Bool) (skip : Nat) (e : Nat) : Option ERef :=
  (es[e]?).bind fun x => if !directed && x.a == skip then none
    else x.w.map fun w => if !directed && !dirIn then ⟨e, x.b, x.a, w⟩ else ⟨e, x.a, x.b, w⟩

/-- the incoming phase of `Edges` (the outgoing cursor is exhausted or not used) -/
theorem edgesLoop_in {es : List Edge} {fin skip : Nat} {directed dirIn dbg : Bool} (hfin : es.length ≤ fin)
    (hmode : (!directed || dirIn) = true) {n0 n1 : Nat} {l1 : List Nat}
    (hn0 : (!directed || !dirIn) = true → es[n0]? = none)
    (hl1 : Chain (enext es 1) fin n1 l1) (hlive : ∀ e ∈ l1, ∃ x, es[e]? = some x ∧ x.w.isSome) :
    ∀ fuel, l1.length < fuel →
      edgesLoop es directed dirIn skip dbg fuel n0 n1 = .ok (l1.filterMap (erIn es directed dirIn skip)) := by
  have hnone : es[fin]? = none := List.getElem?_eq_none_iff.2 hfin
  have hout : edgesOutHit es directed dirIn n0 = none := by
    unfold edgesOutHit
    by_cases h : (!directed || !dirIn) = true
    · simp only [h, if_true, hn0 h]
    · simp only [h]; rfl
  induction hl1 with
  | nil =>
    intro fuel hf
    cases fuel with
    | zero => simp at hf
    | succ f =>
      simp only [edgesLoop, hout, hmode, if_true, hnone, List.filterMap_nil]
  | @cons i j l h1 h2 h3 ih =>
    intro fuel hf
    cases fuel with
    | zero => simp at hf
    | succ f =>
      obtain ⟨x, hx, hn⟩ := enext_some.1 h2
      obtain ⟨x', hx', hxl⟩ := hlive i List.mem_cons_self
      rw [hx] at hx'; cases hx'
      obtain ⟨w, hw⟩ := Option.isSome_iff_exists.1 hxl
      have hdbg : (dbg && x.w.isNone) = false := by rw [hw]; simp
      simp only [Edge.next_one] at hn
      have := ih (fun e he => hlive e (List.mem_cons_of_mem _ he)) f (by simp at hf; omega)
      simp only [edgesLoop, hout, hmode, if_true, hx, hdbg, Bool.false_eq_true, if_false, hn, this,
        List.filterMap_cons, erIn, Option.bind_some, hw, Option.map_some]
      by_cases hs : (!directed && x.a == skip) = true
      · simp [hs]
      · simp [hs]

/-- the outgoing phase of `Edges`, followed by whatever the incoming phase yields -/
theorem edgesLoop_out {es : List Edge} {fin skip : Nat} {directed dirIn dbg : Bool}
    (hmode : (!directed || !dirIn) = true) {n0 n1 : Nat} {l0 : List Nat} {rest : List ERef}
    (hl0 : Chain (enext es 0) fin n0 l0) (hlive : ∀ e ∈ l0, ∃ x, es[e]? = some x ∧ x.w.isSome)
    (extra : Nat) (hrest : ∀ fuel, extra < fuel → edgesLoop es directed dirIn skip dbg fuel fin n1 = .ok rest) :
    ∀ fuel, l0.length + extra < fuel →
      edgesLoop es directed dirIn skip dbg fuel n0 n1 = .ok (l0.filterMap (erOut es directed dirIn) ++ rest) := by
  induction hl0 with
  | nil =>
    intro fuel hf
    simp only [List.filterMap_nil, List.nil_append]
    exact hrest fuel (by simpa using hf)
  | @cons i j l h1 h2 h3 ih =>
    intro fuel hf
    cases fuel with
    | zero => simp at hf
    | succ f =>
      obtain ⟨x, hx, hn⟩ := enext_some.1 h2
      obtain ⟨x', hx', hxl⟩ := hlive i List.mem_cons_self
      rw [hx] at hx'; cases hx'
      obtain ⟨w, hw⟩ := Option.isSome_iff_exists.1 hxl
      simp only [Edge.next_zero] at hn
      have := ih (fun e he => hlive e (List.mem_cons_of_mem _ he)) f (by simp at hf; omega)
      have hhit : edgesOutHit es directed dirIn i = some (x, w) := by
        unfold edgesOutHit; simp only [hmode, if_true, hx, hw]
      simp only [edgesLoop, hhit, hn, this, List.filterMap_cons, erOut, hx, hw, Option.bind_some, Option.map_some]
      simp


/-! ### the iterators of a `StableGraph` in a state satisfying the invariant -/

/-- the cursor every adjacency iterator starts from -/
def startOf (s : State) (a : Nat) : Nat × Nat :=
  match getNode s a with
  | none => (s.fin, s.fin)
  | some n => (n.n0, n.n1)

/-- the two adjacency lists of index `a` (both empty when `a` is not a live node) -/
structure AdjLists (s : State) (a : Nat) (l0 l1 : List Nat) : Prop where
  c0 : Chain (enext s.edges 0) s.fin (startOf s a).1 l0
  c1 : Chain (enext s.edges 1) s.fin (startOf s a).2 l1
  m0 : ∀ e, e ∈ l0 ↔ (nodeWeight s a).isSome ∧ ∃ x, s.edges[e]? = some x ∧ x.w.isSome ∧ x.a = a
  m1 : ∀ e, e ∈ l1 ↔ (nodeWeight s a).isSome ∧ ∃ x, s.edges[e]? = some x ∧ x.w.isSome ∧ x.b = a

theorem adjLists_exist {s : State} (hinv : Inv s) (a : Nat) : ∃ l0 l1, AdjLists s a l0 l1 := by
  cases hg : getNode s a with
  | none =>
    have hw : nodeWeight s a = none := getNode_none.1 hg
    refine ⟨[], [], ?_, ?_, ?_, ?_⟩
    · simp [startOf, hg]; exact .nil
    · simp [startOf, hg]; exact .nil
    · simp [hw]
    · simp [hw]
  | some n =>
    obtain ⟨hn, hnl⟩ := getNode_some.1 hg
    have hw : (nodeWeight s a).isSome := by unfold nodeWeight; rw [hn]; exact hnl
    obtain ⟨l0, hl0, hm0⟩ := hinv.adj 0 (by omega) a n hn (.inl hnl)
    obtain ⟨l1, hl1, hm1⟩ := hinv.adj 1 (by omega) a n hn (.inl hnl)
    refine ⟨l0, l1, by simpa [startOf, hg] using hl0, by simpa [startOf, hg] using hl1, fun e => ?_, fun e => ?_⟩
    · rw [hm0 e]; simp [hw]
    · rw [hm1 e]; simp [hw]

namespace AdjLists
variable {s : State} {a : Nat} {l0 l1 : List Nat}

theorem live0 (h : AdjLists s a l0 l1) : ∀ e ∈ l0, ∃ x, s.edges[e]? = some x ∧ x.w.isSome := fun e he => by
  obtain ⟨_, x, hx, hl, _⟩ := (h.m0 e).1 he; exact ⟨x, hx, hl⟩
theorem live1 (h : AdjLists s a l0 l1) : ∀ e ∈ l1, ∃ x, s.edges[e]? = some x ∧ x.w.isSome := fun e he => by
  obtain ⟨_, x, hx, hl, _⟩ := (h.m1 e).1 he; exact ⟨x, hx, hl⟩
theorem len0 (h : AdjLists s a l0 l1) : l0.length ≤ s.edges.length := by have := chain_len_lt h.c0; omega
theorem len1 (h : AdjLists s a l0 l1) : l1.length ≤ s.edges.length := by have := chain_len_lt h.c1; omega

end AdjLists

theorem neighborsUndirected_spec {s : State} (hinv : Inv s) {a : Nat} {l0 l1 : List Nat} (h : AdjLists s a l0 l1) :
    neighborsUndirected s a = .ok (l0.filterMap (nbOut s.edges) ++ l1.filterMap (nbIn s.edges a)) := by
  have hfuel : l0.length + l1.length < iterFuel s := by have := h.len0; have := h.len1; unfold iterFuel; omega
  have := neighborsLoop_spec (skip := a) (dbg := s.debug) hinv.lenE h.c0 h.c1 (fun e he => by
    rcases List.mem_append.1 he with h' | h'
    · exact h.live0 e h'
    · exact h.live1 e h') (iterFuel s) hfuel
  unfold neighborsUndirected
  unfold startOf at this
  cases hg : getNode s a with
  | none => rw [hg] at this; exact this
  | some n => rw [hg] at this; exact this

theorem neighborsDirected_spec {s : State} (hinv : Inv s) {a : Nat} {l0 l1 : List Nat} (h : AdjLists s a l0 l1) :
    neighborsDirected s a 0 = .ok (if s.directed then l0.filterMap (nbOut s.edges)
      else l0.filterMap (nbOut s.edges) ++ l1.filterMap (nbIn s.edges a)) ∧
    neighborsDirected s a 1 = .ok (if s.directed then l1.filterMap (nbIn s.edges s.fin)
      else l0.filterMap (nbOut s.edges) ++ l1.filterMap (nbIn s.edges a)) := by
  by_cases hd : s.directed = true
  · have hnil : Chain (enext s.edges 0) s.fin s.fin [] := .nil
    have hnil1 : Chain (enext s.edges 1) s.fin s.fin [] := .nil
    have h0 := neighborsLoop_spec (skip := s.fin) (dbg := s.debug) hinv.lenE h.c0 hnil1 (fun e he => by
      simp at he; exact h.live0 e he) (iterFuel s) (by have := h.len0; unfold iterFuel; simp; omega)
    have h1 := neighborsLoop_spec (skip := s.fin) (dbg := s.debug) hinv.lenE hnil h.c1 (fun e he => by
      simp at he; exact h.live1 e he) (iterFuel s) (by have := h.len1; unfold iterFuel; simp; omega)
    simp only [List.filterMap_nil, List.append_nil, List.nil_append] at h0 h1
    unfold startOf at h0 h1
    constructor
    · unfold neighborsDirected
      simp only [hd, if_true]
      cases hg : getNode s a with
      | none => rw [hg] at h0; simpa using h0
      | some n => rw [hg] at h0; simpa using h0
    · unfold neighborsDirected
      simp only [hd, if_true]
      cases hg : getNode s a with
      | none => rw [hg] at h1; simpa using h1
      | some n => rw [hg] at h1; simpa using h1
  · have := neighborsUndirected_spec hinv h
    simp [neighborsDirected, hd, this]

theorem edgesDirected_spec {s : State} (hinv : Inv s) {a : Nat} {l0 l1 : List Nat} (h : AdjLists s a l0 l1) (dirIn : Bool) :
    edgesDirected s a dirIn = .ok (
      if s.directed then
        (if dirIn then l1.filterMap (erIn s.edges true true a) else l0.filterMap (erOut s.edges true false))
      else l0.filterMap (erOut s.edges false dirIn) ++ l1.filterMap (erIn s.edges false dirIn a)) := by
  have hnone : s.edges[s.fin]? = none := List.getElem?_eq_none_iff.2 hinv.lenE
  have hstart : edgesDirected s a dirIn = edgesLoop s.edges s.directed dirIn a s.debug (iterFuel s) (startOf s a).1 (startOf s a).2 := by
    unfold edgesDirected startOf
    cases getNode s a <;> rfl
  rw [hstart]
  have hf0 := h.len0
  have hf1 := h.len1
  by_cases hd : s.directed = true
  · simp only [hd, if_true]
    cases dirIn with
    | true =>
      simp only [if_true]
      -- the outgoing cursor is not used
      have hin := edgesLoop_in (es := s.edges) (fin := s.fin) (skip := a) (directed := true) (dirIn := true) (dbg := s.debug)
        hinv.lenE rfl (n0 := (startOf s a).1) (by simp) h.c1 h.live1 (iterFuel s) (by unfold iterFuel; omega)
      exact hin
    | false =>
      simp only [Bool.false_eq_true, if_false]
      have hout := edgesLoop_out (es := s.edges) (fin := s.fin) (skip := a) (directed := true) (dirIn := false) (dbg := s.debug)
        rfl (n1 := (startOf s a).2) (rest := []) h.c0 h.live0 0 (fun fuel hf => by
          cases fuel with
          | zero => omega
          | succ f => simp [edgesLoop, edgesOutHit, hnone]) (iterFuel s) (by unfold iterFuel; omega)
      simpa using hout
  · have hd' : s.directed = false := by simpa using hd
    simp only [hd', Bool.false_eq_true, if_false]
    have hin : ∀ fuel, l1.length < fuel → edgesLoop s.edges false dirIn a s.debug fuel s.fin (startOf s a).2 =
        .ok (l1.filterMap (erIn s.edges false dirIn a)) :=
      edgesLoop_in (es := s.edges) (fin := s.fin) (skip := a) (directed := false) (dirIn := dirIn) (dbg := s.debug)
        hinv.lenE rfl (fun _ => hnone) h.c1 h.live1
    exact edgesLoop_out (es := s.edges) (fin := s.fin) (skip := a) (directed := false) (dirIn := dirIn) (dbg := s.debug)
      rfl h.c0 h.live0 l1.length hin (iterFuel s) (by unfold iterFuel; omega)

theorem walker_spec {s : State} (hinv : Inv s) {a : Nat} {l0 l1 : List Nat} (h : AdjLists s a l0 l1) (k : Nat) :
    walker s a k = .ok (
      if s.directed && decide (k < 2) then
        (if k = 0 then l0.filterMap (wkOut s.edges) else l1.filterMap (wkIn s.edges s.fin))
      else l0.filterMap (wkOut s.edges) ++ l1.filterMap (wkIn s.edges a)) := by
  have hnil : Chain (enext s.edges 0) s.fin s.fin [] := .nil
  have hnil1 : Chain (enext s.edges 1) s.fin s.fin [] := .nil
  have hf0 := h.len0
  have hf1 := h.len1
  unfold walker
  by_cases hc : (s.directed && decide (k < 2)) = true
  · simp only [hc, if_true]
    by_cases hk : k = 0
    · simp only [hk, if_true]
      have := walkLoop_spec (skip := s.fin) hinv.lenE h.c0 hnil1 (iterFuel s) (by unfold iterFuel; simp; omega)
      simp only [List.filterMap_nil, List.append_nil] at this
      exact this
    · simp only [hk, if_false]
      have := walkLoop_spec (skip := s.fin) hinv.lenE hnil h.c1 (iterFuel s) (by unfold iterFuel; simp; omega)
      simp only [List.filterMap_nil, List.nil_append] at this
      exact this
  · simp only [hc, Bool.false_eq_true, if_false]
    exact walkLoop_spec (skip := a) hinv.lenE h.c0 h.c1 (iterFuel s) (by unfold iterFuel; omega)

/-- `externals(dir)`: exactly the live nodes without an edge in that direction (without any edge, if undirected) -/
theorem externals_spec {s : State} (hinv : Inv s) (k : Nat) (hk : k < 2) (i : Nat) :
    i ∈ externals s k ↔ (nodeWeight s i).isSome ∧
      (∀ (e : Nat) (x : Edge), s.edges[e]? = some x → x.w.isSome → x.node k ≠ i) ∧
      (s.directed = false → ∀ (e : Nat) (x : Edge), s.edges[e]? = some x → x.w.isSome → x.node (1 - k) ≠ i) := by
  have hgen : ∀ (ns : List Node) (o : Nat), i ∈ externalsFrom s.directed s.fin k ns o ↔
      ∃ n, ns[i - o]? = some n ∧ o ≤ i ∧ n.w.isSome ∧ n.next k = s.fin ∧ (s.directed = true ∨ n.next (1 - k) = s.fin) := by
    intro ns
    induction ns with
    | nil => intro o; simp [externalsFrom]
    | cons n t ih =>
      intro o
      simp only [externalsFrom]
      by_cases hio : i = o
      · subst hio
        have hnot : i ∉ externalsFrom s.directed s.fin k t (i + 1) := by
          rw [ih]; rintro ⟨_, _, h, _⟩; omega
        split
        · rename_i hc
          simp only [List.mem_cons, true_or, true_iff, Nat.sub_self, List.getElem?_cons_zero]
          simp at hc
          exact ⟨n, rfl, Nat.le_refl _, hc.1.1, hc.1.2, hc.2⟩
        · rename_i hc
          simp only [Nat.sub_self, List.getElem?_cons_zero]
          constructor
          · intro h; exact absurd h hnot
          · rintro ⟨n', hn', _, h1, h2, h3⟩
            cases hn'
            exact absurd (by simp [h1, h2]; exact h3) hc
      · have hstep : i ∈ externalsFrom s.directed s.fin k t (o + 1) ↔
            ∃ n', (n :: t)[i - o]? = some n' ∧ o ≤ i ∧ n'.w.isSome ∧ n'.next k = s.fin ∧ (s.directed = true ∨ n'.next (1 - k) = s.fin) := by
          rw [ih]
          constructor
          · rintro ⟨n', h1, h2, h3⟩
            refine ⟨n', ?_, by omega, h3⟩
            have : i - o = (i - (o + 1)) + 1 := by omega
            rw [this, List.getElem?_cons_succ]; exact h1
          · rintro ⟨n', h1, h2, h3⟩
            have hlt : o < i := by omega
            refine ⟨n', ?_, by omega, h3⟩
            have : i - o = (i - (o + 1)) + 1 := by omega
            rw [this, List.getElem?_cons_succ] at h1; exact h1
        split
        · simp only [List.mem_cons, hio, false_or]; exact hstep
        · exact hstep
  unfold externals
  rw [hgen]
  simp only [Nat.sub_zero, Nat.zero_le, true_and]
  have hchain : ∀ (n : Node) (k' : Nat), k' < 2 → s.nodes[i]? = some n → n.w.isSome →
      (n.next k' = s.fin ↔ ∀ (e : Nat) (x : Edge), s.edges[e]? = some x → x.w.isSome → x.node k' ≠ i) := by
    intro n k' hk' hn hl
    obtain ⟨l, hlc, hmem⟩ := hinv.adj k' hk' i n hn (.inl hl)
    constructor
    · intro hfin e x hx hxl hxk
      rw [hfin] at hlc
      have := hlc.of_head_fin
      subst this
      have := (hmem e).2 ⟨by simp, x, hx, hxl, hxk⟩
      simp at this
    · intro hno
      rcases hlc.head_mem_or_fin with h' | h'
      · exact h'
      · obtain ⟨_, x, hx, hxl, hxk⟩ := (hmem _).1 h'
        exact absurd hxk (hno _ x hx hxl)
  constructor
  · rintro ⟨n, hn, hl, h1, h2⟩
    refine ⟨by unfold nodeWeight; rw [hn]; exact hl, (hchain n k hk hn hl).1 h1, fun hd => ?_⟩
    rcases h2 with h2 | h2
    · rw [hd] at h2; cases h2
    · exact (hchain n (1 - k) (by omega) hn hl).1 h2
  · rintro ⟨hw, h1, h2⟩
    unfold nodeWeight at hw
    cases hn : s.nodes[i]? with
    | none => rw [hn] at hw; simp at hw
    | some n =>
      rw [hn] at hw
      refine ⟨n, rfl, hw, (hchain n k hk hn hw).2 h1, ?_⟩
      by_cases hd : s.directed = true
      · exact .inl hd
      · exact .inr ((hchain n (1 - k) (by omega) hn hw).2 (h2 (by simpa using hd)))

end PetgraphModel.SGProofs
