import PetgraphModel.Proofs.UnionFind
import PetgraphModel.Proofs.C19W4Rank
import PetgraphModel.Spec.C19Scope
/-
C19, wave 4 — soundness of the driver's run-time scope checks (`Spec/C19Scope.lean`) and the
behaviour of the model at / beyond the capacity of the index type.
-/
namespace PetgraphModel.UFProofs
open PetgraphModel PetgraphModel.UF PetgraphModel.PartitionSpec PetgraphModel.C19Scope
open PetgraphModel.UFBase PetgraphModel.UFSpec

theorem newFits_check (m n : Nat) (h : newFitsB m n = true) : m = 0 ∨ n ≤ m := by
  simpa [newFitsB] using h

theorem stepFits_check (s : State) (op : Op) (h : stepFitsB s op = true) :
    op = .newSet → s.modulus = 0 ∨ s.len < s.modulus := by
  intro e; subst e
  simpa [stepFitsB] using h

theorem stepFitsB_eq (s : State) (op : Op) :
    stepFitsB s op = (if op = .newSet then (s.modulus == 0 || decide (s.len < s.modulus)) else true) := by
  cases op <;> simp [stepFitsB]

theorem fits_cons_eq (m n : Nat) (op : Op) (ops : List Op) :
    Fits m n (op :: ops) =
      ((if op = .newSet then (m == 0 || decide (n < m)) else true) &&
        Fits m (if op = .newSet then n + 1 else n) ops) := by
  cases op <;> simp [Fits]

/-- along a run from an `Inv` state the per-call checks compute `Fits` -/
theorem runFitsB_eq_fits (m : Nat) : ∀ (ops : List Op) (s : State), Inv s → s.modulus = m →
    runFitsB s ops = Fits m s.len ops
  | [], _, _, _ => rfl
  | op :: ops, s, h, hm => by
    rw [fits_cons_eq, runFitsB, stepFitsB_eq, hm]
    by_cases hc : (if op = .newSet then (m == 0 || decide (s.len < m)) else true) = true
    · have hfit : op = .newSet → s.modulus = 0 ∨ s.len < s.modulus := by
        intro e; rw [if_pos e] at hc; rw [hm]; simpa using hc
      obtain ⟨hl', hm'⟩ := step_len_mod op h hfit
      rw [runFitsB_eq_fits m ops _ (inv_step s op h hfit) (hm'.trans hm), hl']
    · have : (if op = .newSet then (m == 0 || decide (s.len < m)) else true) = false := by
        simpa using hc
      rw [this]; simp

theorem runFits_check (m n : Nat) (ops : List Op) (h0 : newFitsB m n = true)
    (h : runFitsB (UF.new m n) ops = true) : Fits m n ops = true := by
  have hm := newFits_check m n h0
  have hl0 : (UF.new m n).len = n := by simp [UF.new, State.len]
  rw [runFitsB_eq_fits m ops _ (inv_new m n hm) rfl, hl0] at h
  exact h

theorem runFits_complete (m n : Nat) (ops : List Op) (hm : m = 0 ∨ n ≤ m)
    (hf : Fits m n ops = true) : newFitsB m n = true ∧ runFitsB (UF.new m n) ops = true := by
  have hl0 : (UF.new m n).len = n := by simp [UF.new, State.len]
  refine ⟨by simpa [newFitsB] using hm, ?_⟩
  rw [runFitsB_eq_fits m ops _ (inv_new m n hm) rfl, hl0]
  exact hf

theorem runFits_append (s : State) : ∀ (ops ops' : List Op),
    runFitsB s (ops ++ ops') = (runFitsB s ops && runFitsB (run s ops).1 ops') := by
  intro ops
  induction ops generalizing s with
  | nil => intro ops'; simp [runFitsB, run]
  | cons op ops ih =>
    intro ops'
    simp only [List.cons_append, runFitsB, run_cons_fst, ih, Bool.and_assoc]

theorem grow_eq_run (k : Nat) : ∀ (s : State),
    grow s k = (run s (List.replicate k .newSet)).1 := by
  induction k with
  | zero => intro s; simp [grow, run]
  | succ k ih =>
    intro s
    have : grow s (k + 1) = grow (step s .newSet).1 k := by
      simp only [grow, List.range_succ_eq_map, List.foldl_cons, List.foldl_map]
    rw [this, ih, List.replicate_succ, run_cons_fst]

theorem growFits_run : ∀ (k : Nat) (s : State), Inv s → growFitsB s k = true →
    runFitsB s (List.replicate k .newSet) = true
  | 0, _, _, _ => rfl
  | k+1, s, hi, h => by
    have hg : s.modulus = 0 ∨ s.len + (k + 1) ≤ s.modulus := by simpa [growFitsB] using h
    have hfit : s.modulus = 0 ∨ s.len < s.modulus := by omega
    have hs : stepFitsB s .newSet = true := by simpa [stepFitsB] using hfit
    obtain ⟨hl', hm'⟩ := step_len_mod .newSet hi (fun _ => hfit)
    rw [if_pos rfl] at hl'
    have h' : growFitsB (step s .newSet).1 k = true := by
      simp only [growFitsB, hl', hm']
      have : s.modulus = 0 ∨ s.len + 1 + k ≤ s.modulus := by omega
      simpa using this
    rw [List.replicate_succ, runFitsB, hs, Bool.true_and]
    exact growFits_run k _ (inv_step s .newSet hi (fun _ => hfit)) h'

theorem growFits_check (s : State) (k : Nat) (hi : Inv s) (h : growFitsB s k = true) :
    grow s k = (run s (List.replicate k .newSet)).1 ∧
    runFitsB s (List.replicate k .newSet) = true :=
  ⟨grow_eq_run k s, growFits_run k s hi h⟩

theorem rankWidth_check (s : State) (h : rankWidthB s = true) : s.len < 2 ^ 256 := by
  unfold rankWidthB rankWidthLimit at h
  exact of_decide_eq_true h

/-- the driver skips `QF.union` when the two elements are already in one class; `specStep` performs
it: the same state -/
theorem union_same_noop (q : QF) (x y : Nat) (h : q.same x y = true) : q.union x y = q := by
  unfold QF.same at h
  unfold QF.union
  cases hx : q.cls[x]? with
  | none => simp [hx] at h
  | some a =>
    cases hy : q.cls[y]? with
    | none => simp [hx, hy] at h
    | some b =>
      simp only [hx, hy, beq_iff_eq] at h
      subst h
      have : (fun c => if c = a then a else c) = id := by
        funext c; by_cases hc : c = a <;> simp [hc]
      simp [this]

/-! ### at / beyond capacity -/

theorem run_modulus (m : Nat) : ∀ (ops : List Op) (s : State), Inv s → s.modulus = m →
    Fits m s.len ops = true → (run s ops).1.modulus = m
  | [], _, _, hm, _ => hm
  | op :: ops, s, h, hm, hf => by
    obtain ⟨hfit, hf'⟩ := fits_cons hf
    have hfit' : op = .newSet → s.modulus = 0 ∨ s.len < s.modulus := fun e => by
      rw [hm]; exact hfit e
    obtain ⟨hl', hm'⟩ := step_len_mod op h hfit'
    rw [run_cons_fst]
    refine run_modulus m ops _ (inv_step s op h hfit') (hm'.trans hm) ?_
    rw [hl']; exact hf'

theorem capacity (m n : Nat) (ops : List Op) (hm : m = 0 ∨ n ≤ m) (hf : Fits m n ops) :
    m = 0 ∨ (run (UF.new m n) ops).1.len ≤ m := by
  have hl0 : (UF.new m n).len = n := by simp [UF.new, State.len]
  have e := run_modulus m ops (UF.new m n) (inv_new m n hm) rfl (by rw [hl0]; exact hf)
  have := (all_histories m n ops hm hf).1.fits
  rw [e] at this
  exact this

theorem newSet_full (s : State) (hm : s.modulus ≠ 0) (hfull : s.len = s.modulus) :
    (step s .newSet).2 = .ix 0 ∧ (step s .newSet).1.parent = s.parent ++ [0] ∧
    ¬ Inv (step s .newSet).1 := by
  have e : mkIx s.modulus s.parent.length = 0 := by
    have : s.parent.length = s.modulus := hfull
    simp [mkIx, hm, this]
  refine ⟨?_, ?_, ?_⟩
  · show Out.ix (mkIx s.modulus s.parent.length) = Out.ix 0
    rw [e]
  · show s.parent ++ [mkIx s.modulus s.parent.length] = s.parent ++ [0]
    rw [e]
  · intro h
    have := h.fits
    have hl : (step s .newSet).1.parent.length = s.modulus + 1 := by
      show (s.parent ++ [mkIx s.modulus s.parent.length]).length = _
      have : s.parent.length = s.modulus := hfull
      simp [this]
    have hmod : (step s .newSet).1.modulus = s.modulus := rfl
    rw [hl, hmod] at this
    omega

theorem outputs_full_false_witness :
    ∃ (s : State) (q : QF), Inv s ∧ s.len = q.len ∧
      (∀ x y, x < s.len → y < s.len → (tryFind s x = tryFind s y ↔ q.same x y = true)) ∧
      (step s .newSet).2 ≠ specOut s q .newSet ∧ ¬ Inv (step s .newSet).1 := by
  have h := inv_new 1 1 (by omega)
  have hl : (UF.new 1 1).len = 1 := rfl
  obtain ⟨h1, _, h3⟩ := newSet_full (UF.new 1 1) (by decide) rfl
  refine ⟨UF.new 1 1, canonQ (UF.new 1 1), h, (canonQ_len _).symm, canonQ_rel h, ?_, h3⟩
  rw [h1]
  simp [specOut, canonQ_len, hl]

end PetgraphModel.UFProofs
