import PetgraphModel.Proofs.C09W2Tarjan
/-
`TarjanScc` without a size bound: on `usize::MAX + 2` isolated nodes `componentcount` (counting down from
`usize::MAX`, here without wrap-around) reaches 0 and stays there, so the last two components get the
same `node_component_index`.  (Not a graph that fits in memory; it only shows that the model-level
statement needs its size hypothesis.)  Core Lean only.
-/
namespace PetgraphModel.C09P
open PetgraphModel PetgraphModel.MGraph PetgraphModel.C09J PetgraphModel.C09M PetgraphModel.Trav

/-- `N` isolated nodes, `to_index` = identity -/
def isoView (N : Nat) : View := ⟨⟨true, List.range N, []⟩, N, [], [], []⟩

theorem isoView_succ (N a : Nat) : (isoView N).succ a = [] := rfl
theorem isoView_get (N : Nat) (t : TJ) (y : Nat) : t.get (isoView N) y = t.root.lookup y := rfl

/-- one isolated node: a component of its own -/
def isoStep (t : TJ) (n : Nat) : TJ :=
  { index := t.index, cc := t.cc - 1, root := (n, t.cc) :: (n, t.index) :: t.root, stack := [], out := t.out ++ [[n]] }

theorem isoVisit (N f n : Nat) (t : TJ) (hst : t.stack = []) :
    tjVisit (isoView N) (f + 2) n t = some (isoStep t n) := by
  rw [tjVisit_succ, isoView_succ, tjNeigh_nil]
  simp [tjFinish, tjEnter, TJ.set, hst, isoStep, View.toIndex, isoView]

theorem isoFold (N : Nat) : ∀ k, ∃ s, (List.range k).foldlM (tjRunStep (isoView N)) { ({} : TJ) with root := [], out := [] } = some s ∧
    s.stack = [] ∧ s.cc = usizeMax - k ∧ s.out = (List.range k).map (fun i => [i]) ∧
    ∀ n, s.root.lookup n = if n < k then some (usizeMax - n) else none := by
  intro k
  induction k with
  | zero => exact ⟨_, rfl, rfl, rfl, rfl, fun n => by simp⟩
  | succ k ih =>
    obtain ⟨s, h1, h2, h3, h4, h5⟩ := ih
    refine ⟨isoStep s k, ?_, rfl, ?_, ?_, ?_⟩
    · rw [List.range_succ, List.foldlM_append, h1]
      simp only [Option.bind_eq_bind, Option.bind_some, List.foldlM_cons, List.foldlM_nil]
      have hnone : (s.get (isoView N) k).isNone = true := by
        rw [isoView_get, h5 k]; simp
      have hf : 4 * fuel (isoView N) = (4 * fuel (isoView N) - 2) + 2 := by unfold fuel; omega
      unfold tjRunStep
      rw [if_pos hnone, hf, isoVisit N _ k s h2]
      rfl
    · show s.cc - 1 = usizeMax - (k + 1)
      rw [h3]; omega
    · show s.out ++ [[k]] = _
      rw [h4, List.range_succ, List.map_append]; rfl
    · intro n
      show ((k, s.cc) :: (k, s.index) :: s.root).lookup n = _
      simp only [List.lookup_cons]
      by_cases hnk : n = k
      · subst hnk; simp [h3]
      · have : (n == k) = false := by simpa using hnk
        rw [this]
        simp only
        rw [h5 n]
        by_cases hlt : n < k
        · have : n < k + 1 := by omega
          simp [hlt, this]
        · have : ¬ n < k + 1 := by omega
          simp [hlt, this]

theorem isoView_ok (N : Nat) : ViewOk (isoView N) ∧
    ((∀ a ∈ (isoView N).g.nodes, (isoView N).toIndex a < (isoView N).nb) ∧ IxInj (isoView N)) ∧
    (isoView N).g.WellFormed := by
  refine ⟨?_, ⟨?_, ?_⟩, ?_, ?_⟩
  · intro a b
    rw [isoView_succ]
    constructor
    · intro h; cases h
    · rintro ⟨e, he, _⟩; cases he
  · intro a ha
    exact List.mem_range.mp ha
  · intro a _ b _ h; exact h
  · exact List.nodup_range
  · intro e he; cases he

/-- on `usize::MAX + 2` isolated nodes the run answers, and `node_component_index` puts the last two
nodes — two different components — together -/
theorem tarjan_unbounded_counterexample (N : Nat) (hN : N = usizeMax + 2) :
    ∃ t1, tjRun (isoView N) {} = some t1 ∧
      ¬ IndexSpec t1.out ((isoView N).g.nodes.map fun x => (x, tjIndex (isoView N) t1 x)) := by
  obtain ⟨s, h1, _, _, h4, h5⟩ := isoFold N N
  refine ⟨s, h1, ?_⟩
  rintro ⟨_, hspec⟩
  have hmem : ∀ x, x < N → (x, tjIndex (isoView N) s x) ∈
      (isoView N).g.nodes.map fun x => (x, tjIndex (isoView N) s x) :=
    fun x hx => List.mem_map.mpr ⟨x, List.mem_range.mpr hx, rfl⟩
  have hx : usizeMax < N := by omega
  have hy : usizeMax + 1 < N := by omega
  have e1 : tjIndex (isoView N) s usizeMax = usizeMax := by
    unfold tjIndex; rw [isoView_get, h5, if_pos hx]; simp
  have e2 : tjIndex (isoView N) s (usizeMax + 1) = usizeMax := by
    unfold tjIndex; rw [isoView_get, h5, if_pos hy]
    show usizeMax - (usizeMax - (usizeMax + 1)) = usizeMax
    omega
  obtain ⟨c, hc, hxc, hyc⟩ := (hspec _ _ _ _ (hmem _ hx) (hmem _ hy)).mp (e1.trans e2.symm)
  rw [h4] at hc
  obtain ⟨i, _, rfl⟩ := List.mem_map.mp hc
  have a1 : usizeMax = i := by simpa using hxc
  have a2 : usizeMax + 1 = i := by simpa using hyc
  omega

end PetgraphModel.C09P
