import PetgraphModel.Proofs.UnionFind
import PetgraphModel.Proofs.C09Models
/-
`connected_components` over the union–find model counts the weakly connected components — a corollary
of C19's refinement theorems (`all_histories`, `qf_connected`, `intoLabeling_spec`).  Core Lean only.
-/
namespace PetgraphModel.C09P
open PetgraphModel PetgraphModel.MGraph PetgraphModel.C09J PetgraphModel.C09M
open PetgraphModel.UF PetgraphModel.UFProofs PetgraphModel.UFBase PetgraphModel.UFSpec PetgraphModel.PartitionSpec

/-- the graph `connected_components` sees: nodes `0..nb` (`to_index`), one edge per pair -/
def pairGraph (nb : Nat) (pairs : List (Nat × Nat)) : MGraph :=
  ⟨false, List.range nb, pairs.map fun p => ⟨0, p.1, p.2, 0⟩⟩

def unionOps (pairs : List (Nat × Nat)) : List Op := pairs.map fun p => Op.union p.1 p.2

theorem foldUnions_run : ∀ (pairs : List (Nat × Nat)) (s s' : State),
    pairs.foldlM unionStep s = some s' → s' = (run s (unionOps pairs)).1 := by
  intro pairs
  induction pairs with
  | nil => intro s s' h; simp [unionOps, run] at h ⊢; exact h.symm
  | cons p ps ih =>
    intro s s' h
    simp only [List.foldlM_cons] at h
    cases hu : unionStep s p with
    | none => simp [hu] at h
    | some s1 =>
      simp [hu] at h
      have hstep : (step s (.union p.1 p.2)).1 = s1 := by
        unfold unionStep at hu
        split at hu
        · rename_i s1' b htu
          simp at hu; subst hu
          exact (step_union_fst htu).1
        · cases hu
      have := ih s1 s' h
      rw [this]
      show (run s1 (unionOps ps)).1 = (run s (Op.union p.1 p.2 :: unionOps ps)).1
      rw [run_cons_fst, hstep]

theorem fits_unionOps (m n : Nat) : ∀ pairs, Fits m n (unionOps pairs) = true := by
  intro pairs
  induction pairs with
  | nil => rfl
  | cons p ps ih => simpa [unionOps, Fits] using ih

theorem specRun_len_unionOps : ∀ (pairs : List (Nat × Nat)) (q : QF), (specRun q (unionOps pairs)).len = q.len := by
  intro pairs
  induction pairs with
  | nil => intro q; rfl
  | cons p ps ih =>
    intro q
    show (specRun (specStep q (.union p.1 p.2)) (unionOps ps)).len = q.len
    rw [ih, specStep_len]; simp

theorem unionsOf_sub (n : Nat) : ∀ (pairs : List (Nat × Nat)) (p : Nat × Nat),
    p ∈ unionsOf n (unionOps pairs) → p ∈ pairs := by
  intro pairs
  induction pairs with
  | nil => intro p h; simp [unionOps, unionsOf] at h
  | cons a ps ih =>
    intro p h
    simp only [unionOps, List.map_cons, unionsOf] at h
    split at h
    · cases List.mem_cons.mp h with
      | inl h => exact h ▸ List.mem_cons_self ..
      | inr h => exact List.mem_cons_of_mem _ (ih p h)
    · exact List.mem_cons_of_mem _ (ih p h)

theorem mem_unionsOf (n : Nat) : ∀ (pairs : List (Nat × Nat)) (p : Nat × Nat),
    p ∈ pairs → p.1 ≠ p.2 → p.1 < n → p.2 < n → p ∈ unionsOf n (unionOps pairs) := by
  intro pairs
  induction pairs with
  | nil => intro p h; cases h
  | cons a ps ih =>
    intro p h hne h1 h2
    simp only [unionOps, List.map_cons, unionsOf]
    cases List.mem_cons.mp h with
    | inl hpa =>
      subst hpa
      rw [if_pos ⟨hne, h1, h2⟩]
      exact List.mem_cons_self ..
    | inr hps =>
      split
      · exact List.mem_cons_of_mem _ (ih p hps hne h1 h2)
      · exact ih p hps hne h1 h2

theorem pairGraph_adj {nb : Nat} {pairs : List (Nat × Nat)} {x y : Nat} (h : (x, y) ∈ pairs) :
    (pairGraph nb pairs).undirect.Adj x y :=
  ⟨⟨0, x, y, 0⟩, List.mem_map.mpr ⟨(x, y), h, rfl⟩, Or.inl ⟨rfl, rfl⟩⟩

theorem connected_reach {nb : Nat} {pairs us : List (Nat × Nat)} (hsub : ∀ p ∈ us, p ∈ pairs) {x y : Nat}
    (h : Connected us x y) : Reach (pairGraph nb pairs).undirect x y := by
  induction h with
  | refl => exact Reach.refl _
  | edge he => exact reach_of_adj (pairGraph_adj (hsub _ he))
  | symm _ ih => exact reach_undirect_symm ih
  | trans _ _ ih1 ih2 => exact reach_trans ih1 ih2

theorem reach_connected {nb : Nat} {pairs : List (Nat × Nat)} (hin : ∀ p ∈ pairs, p.1 < nb ∧ p.2 < nb)
    {x y : Nat} (h : Reach (pairGraph nb pairs).undirect x y) :
    Connected (unionsOf nb (unionOps pairs)) x y := by
  induction h with
  | refl => exact Connected.refl _
  | step _ hadj ih =>
    rename_i b c _
    refine Connected.trans ih ?_
    obtain ⟨e, he, hc⟩ := hadj
    obtain ⟨p, hp, hpe⟩ := List.mem_map.mp he
    subst hpe
    by_cases hbc : b = c
    · subst hbc; exact Connected.refl _
    · rcases hc with ⟨h1, h2⟩ | ⟨_, h1, h2⟩
      · simp only at h1 h2
        have : p = (b, c) := by cases p; simp_all
        subst this
        exact Connected.edge (mem_unionsOf nb pairs _ hp hbc (hin _ hp).1 (hin _ hp).2)
      · simp only at h1 h2
        have : p = (c, b) := by cases p; simp_all
        subst this
        exact Connected.symm (Connected.edge (mem_unionsOf nb pairs _ hp (fun h => hbc h.symm) (hin _ hp).1 (hin _ hp).2))

theorem mem_distinct : ∀ (l : List Nat) (a : Nat), a ∈ distinct l ↔ a ∈ l := by
  intro l
  induction l with
  | nil => intro a; simp [distinct]
  | cons x xs ih =>
    intro a
    simp only [distinct]
    split
    · rename_i hc
      rw [ih]
      constructor
      · exact List.mem_cons_of_mem _
      · intro h
        cases List.mem_cons.mp h with
        | inl h => subst h; simpa using hc
        | inr h => exact h
    · simp [ih]

theorem nodup_distinct : ∀ (l : List Nat), (distinct l).Nodup := by
  intro l
  induction l with
  | nil => simp [distinct]
  | cons x xs ih =>
    simp only [distinct]
    split
    · exact ih
    · rename_i hc
      refine List.nodup_cons.mpr ⟨?_, ih⟩
      rw [mem_distinct]
      simpa using hc

theorem pairwise_of_nodup {R : Nat → Nat → Prop} : ∀ (l : List Nat), l.Nodup →
    (∀ x ∈ l, ∀ y ∈ l, x ≠ y → R x y) → l.Pairwise R := by
  intro l
  induction l with
  | nil => intro _ _; exact List.Pairwise.nil
  | cons a t ih =>
    intro hnd h
    have hnd' := List.nodup_cons.mp hnd
    refine List.Pairwise.cons ?_ (ih hnd'.2 fun x hx y hy => h x (List.mem_cons_of_mem _ hx) y (List.mem_cons_of_mem _ hy))
    intro y hy
    exact h a (List.mem_cons_self ..) y (List.mem_cons_of_mem _ hy) (fun hay => hnd'.1 (hay ▸ hy))

/-- **`connected_components` counts the weak components** (mirror model over the C19 union–find model,
all edge sequences with in-range endpoints): the count is the number of classes of undirected
reachability of the graph on `0..nb` with those edges. -/
theorem connectedComponents_spec (nb : Nat) (pairs : List (Nat × Nat)) (k : Nat)
    (hin : ∀ p ∈ pairs, p.1 < nb ∧ p.2 < nb) (h : connectedComponents nb pairs = some k) :
    IsWccCount (pairGraph nb pairs) k := by
  unfold connectedComponents at h
  cases hf : pairs.foldlM unionStep (UF.new 0 nb) with
  | none => simp [hf] at h
  | some s =>
    simp only [hf] at h
    have hs := foldUnions_run pairs _ s hf
    obtain ⟨inv, hlen, hrel⟩ := all_histories 0 nb (unionOps pairs) (Or.inl rfl) (fits_unionOps 0 nb pairs)
    rw [← hs] at inv hlen hrel
    have hqlen : (specRun (QF.new nb) (unionOps pairs)).len = nb := by
      rw [specRun_len_unionOps, len_new]
    have hslen : s.len = nb := hlen.trans hqlen
    rw [intoLabeling_spec inv] at h
    simp only [Option.some.injEq] at h
    -- facts about roots
    have hroot_lt : ∀ x, x < nb → rootOf s x < nb := fun x hx => hslen ▸ rootOf_lt inv (hslen ▸ hx)
    have hroot_root : ∀ x, x < nb → rootOf s (rootOf s x) = rootOf s x := fun x hx =>
      rootOf_eq inv (isRoot_rootOf inv (hslen ▸ hx : x < s.len)).root_root
    have hconn : ∀ x y, x < nb → y < nb →
        (rootOf s x = rootOf s y ↔ Connected (unionsOf nb (unionOps pairs)) x y) := by
      intro x y hx hy
      rw [← tryFind_eq_iff inv (hslen ▸ hx) (hslen ▸ hy), hrel x y (hslen ▸ hx) (hslen ▸ hy)]
      exact qf_connected nb (unionOps pairs) x y (by rw [hqlen]; exact hx) (by rw [hqlen]; exact hy)
    have hmem : ∀ r, r ∈ distinct ((List.range s.len).map (rootOf s)) ↔ ∃ x, x < nb ∧ rootOf s x = r := by
      intro r
      rw [mem_distinct, List.mem_map]
      constructor
      · rintro ⟨x, hx, hxr⟩; exact ⟨x, hslen ▸ List.mem_range.mp hx, hxr⟩
      · rintro ⟨x, hx, hxr⟩; exact ⟨x, List.mem_range.mpr (hslen ▸ hx), hxr⟩
    refine ⟨distinct ((List.range s.len).map (rootOf s)), h, ?_, ?_, ?_⟩
    · intro r hr
      obtain ⟨x, hx, hxr⟩ := (hmem r).mp hr
      exact List.mem_range.mpr (hxr ▸ hroot_lt x hx)
    · intro x hx
      have hx' : x < nb := List.mem_range.mp hx
      refine ⟨rootOf s x, (hmem _).mpr ⟨x, hx', rfl⟩, ?_⟩
      apply connected_reach (unionsOf_sub nb pairs)
      exact (hconn _ _ (hroot_lt x hx') hx').mp (hroot_root x hx')
    · apply pairwise_of_nodup _ (nodup_distinct _)
      intro r1 h1 r2 h2 hne hreach
      obtain ⟨x1, hx1, hr1⟩ := (hmem r1).mp h1
      obtain ⟨x2, hx2, hr2⟩ := (hmem r2).mp h2
      have hc := reach_connected hin hreach
      have := (hconn r1 r2 (hr1 ▸ hroot_lt x1 hx1) (hr2 ▸ hroot_lt x2 hx2)).mpr hc
      rw [← hr1, ← hr2, hroot_root x1 hx1, hroot_root x2 hx2, hr1, hr2] at this
      exact hne this

end PetgraphModel.C09P
