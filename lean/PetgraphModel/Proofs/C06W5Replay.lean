import PetgraphModel.Model.C06Replay
import PetgraphModel.Spec.C06Checks
import PetgraphModel.Proofs.C06W2GraphMap
import PetgraphModel.Proofs.C06W2Csr
import PetgraphModel.Proofs.C06W2List
import PetgraphModel.Proofs.C06W2Matrix
import PetgraphModel.Proofs.C06W2Graph
import PetgraphModel.Proofs.C06W3Stable
import PetgraphModel.Theorems.C04
import PetgraphModel.Theorems.C03
/-
C06 wave 5 — the REPLAY of a base graph's operation history on the storage mirror (Model/C06Replay.lean) stays inside
the scope of the `C06_consistent_<Type>` theorems:

* `StoreInv st` = the hypotheses of the storage theorem of `st`'s type (C01/C02/C03 invariant; C04 invariant + refinement
  relation; C05 `Good` + `Abs` + `IxFits`; `ListWF`);
* `storeInv_init`, `storeInv_exec`: every constructor establishes it, every request `Store.exec` ACCEPTS preserves it
  (the run-time checks `matrixValidB`, `csrIxFitsB` are what the proofs need: `matrixValid_check`, `csrIxFits_check`);
* `storeInv_consistent`: under it the table the driver computes from the mirror (`Store.table`, with the open base-type
  findings D6 / D7 repaired: `Store.repaired`) satisfies every clause of the property;
* `replay_consistent`: hence after EVERY sequence of requests the driver replays without answering
  "generator left the proved range".
-/
namespace PetgraphModel.C06R
open PetgraphModel PetgraphModel.Visit

/-! ### the hypotheses of the storage theorems, per type -/

/-- `Csr`: rows `R` and an abstract simple graph `g` the state represents, `g` well-formed where that is needed
(undirected: for `edge_count`), the node count fits the index type -/
def CsrOK (s : CsrM.State) : Prop :=
  ∃ R g, C05T.Good s R ∧ C05T.Abs s R g ∧ (s.directed = false → CsrW2.SGWF g) ∧ CsrW2.IxFits s

def StoreInv : Store → Prop
  | .graph s => C01T.Inv s
  | .stable s => C02T.Inv s
  | .map s => GMProofs.Inv s
  | .matrix s => C04T.Inv s ∧ ∃ g, C04T.R s g
  | .csr s => CsrOK s
  | .list s => ListWF s

/-- the table of the mirror with the OPEN base-type findings repaired: D6 (`MatrixGraph<Directed>`), D7 (`Csr<Undirected>`) -/
def Store.repaired : Store → Table
  | .matrix s => if s.dir then repairD6 (matrixTable s) else matrixTable s
  | .csr s => if s.directed then csrTable s else repairD7 (csrTable s)
  | st => st.table

/-! ### run-time checks -/

theorem live_eq_nodeWeight (g : MatrixSpec.G) (a : Nat) : g.live a = (g.nodeWeight a).isSome := by
  unfold MatrixSpec.G.live MatrixSpec.G.nodeWeight
  induction g.nodes with
  | nil => rfl
  | cons p ps ih =>
    simp only [List.any_cons, List.find?_cons]
    cases h : (p.1 == a) <;> simp [ih]

/-- what `matrixValidB` accepts is inside C04's quantifier -/
theorem matrixValid_check {s : Matrix.State} {g : MatrixSpec.G} (r : C04T.R s g) (op : Matrix.Op)
    (h : matrixValidB s op = true) : C04T.Valid s.nz g op := by
  have live : ∀ a, (s.nodes.get a).isSome = true → g.live a = true := by
    intro a ha; rw [live_eq_nodeWeight, r.nodes]; exact ha
  cases op <;> simp only [matrixValidB, Bool.and_eq_true, Bool.or_eq_true, Bool.not_eq_true', bne_iff_ne] at h <;>
    simp only [C04T.Valid, MatrixProofs.Valid] <;> first
    | exact ⟨live _ h.1, live _ h.2⟩
    | trivial
    | (intro hnz; rcases h with h | h
       · rw [hnz] at h; cases h
       · exact h)

theorem csrIxFits_check {s : CsrM.State} (h : csrIxFitsB s = true) : CsrW2.IxFits s := by
  unfold csrIxFitsB at h
  unfold CsrW2.IxFits
  simp only [Bool.or_eq_true, beq_iff_eq, decide_eq_true_eq] at h
  exact h

/-! ### constructors -/

theorem sgwf_noEdges (d : Bool) (nodes : List Int) :
    CsrW2.SGWF { directed := d, nodes := nodes, edges := [] } :=
  ⟨by simp, by intro _ k hk; simp at hk⟩

theorem csrOK_withNodes (d : Bool) (m c : Nat) (dbg : Bool) (n : Nat)
    (hf : CsrW2.IxFits (CsrM.withNodes d m c dbg n)) : CsrOK (CsrM.withNodes d m c dbg n) :=
  ⟨_, _, CsrProofs.good_withNodes d m c dbg n, (C05T.C05_csr_inv_init d m c dbg n).2.2,
    fun _ => sgwf_noEdges d _, hf⟩

theorem csrOK_new (d : Bool) (m c : Nat) (dbg : Bool) : CsrOK (CsrM.new d m c dbg) :=
  csrOK_withNodes d m c dbg 0 (by unfold CsrW2.IxFits CsrM.withNodes CsrM.State.nodeCount; simp)

theorem storeInv_init (ty : String) (dir dbg : Bool) (st : Store) (h : Store.init ty dir dbg = some st) : StoreInv st := by
  unfold Store.init at h
  split at h <;> (try cases h)
  · exact C01T.C01_inv_init _ _
  · exact C02T.C02_inv_init _ _ _ _
  · exact GMProofs.inv_empty _
  · obtain ⟨s0, e, hi, hr, _⟩ := MatrixProofs.withCapacity_spec dir false u16Max 0
    have : s0 = { dir := dir, nz := false, ixMax := u16Max } := by
      simp only [Matrix.withCapacity, Nat.lt_irrefl, if_false] at e
      injection e with e; exact e.symm
    subst this
    exact ⟨hi, _, hr⟩
  · exact csrOK_new _ _ _ _
  · exact Visit.new_wf _

/-! ### every accepted request preserves the hypotheses -/

theorem csrOK_step {s : CsrM.State} (h : CsrOK s) (op : CsrM.Op) : CsrOK (CsrM.step s op).1 := by
  obtain ⟨R, g, good, abs, wf, hf⟩ := h
  obtain ⟨R', good', abs', sp, hf'⟩ := CsrW2.csr_run_facts good abs [op] hf
  have e : (CsrM.run s [op]).1 = (CsrM.step s op).1 := by simp [CsrM.run]
  rw [e] at good' abs' sp hf'
  refine ⟨R', _, good', abs', fun hd => ?_, hf'⟩
  exact CsrW2.SGWF.run (wf (by rw [← sp.1]; exact hd)) _ _

theorem storeInv_exec {st st' : Store} (r : Req) (hinv : StoreInv st) (h : st.exec r = .ok st') : StoreInv st' := by
  cases st with
  | graph s =>
    cases r <;> simp only [Store.exec] at h <;> try cases h
    rename_i o
    have hi := C01T.C01_inv_step s o hinv
    rcases hstep : G.step s o with ⟨s', out⟩
    rw [hstep] at h hi
    cases out <;> simp only [modelFault] at h <;> cases h <;> exact hi
  | stable s =>
    cases r <;> simp only [Store.exec] at h <;> try cases h
    · exact C02T.C02_inv_init _ _ _ _
    · rename_i o
      obtain ⟨s', out, e, hi⟩ := C02T.C02_inv_step s o hinv
      rw [e] at h
      cases h; exact hi
  | map s =>
    cases r <;> simp only [Store.exec] at h <;> try cases h
    · exact GMProofs.inv_empty _
    · rename_i o
      exact (GMProofs.step_spec s o hinv).1
  | matrix s =>
    obtain ⟨hi, g, hr⟩ := hinv
    cases r <;> simp only [Store.exec] at h <;> try cases h
    · rename_i k
      obtain ⟨s0, e, hi0, hr0, _⟩ := MatrixProofs.withCapacity_spec s.dir s.nz s.ixMax k
      rw [e] at h
      cases h; exact ⟨hi0, _, hr0⟩
    · rename_i o
      split at h
      · rename_i hv
        have hv' := matrixValid_check hr o hv
        obtain ⟨_, hi', hr', _⟩ := MatrixProofs.step_refines hi hr o hv'
        rcases hstep : Matrix.step s o with ⟨s', out⟩
        rw [hstep] at h hi' hr'
        cases out <;> simp only [modelFault] at h <;> cases h <;> exact ⟨hi', _, hr'⟩
      · cases h
  | csr s =>
    cases r <;> simp only [Store.exec] at h <;> try cases h
    · exact csrOK_new _ _ _ _
    · rename_i n
      split at h
      · rename_i hf; cases h
        exact csrOK_withNodes _ _ _ _ _ (csrIxFits_check hf)
      · cases h
    · rename_i es
      split at h
      · split at h
        · rename_i s0 e
          split at h
          · rename_i hf; cases h
            obtain ⟨_, _, R0, good0, abs0⟩ := C05T.C05_from_sorted_equals_fold _ _ _ es s0 e
            refine ⟨R0, _, good0, abs0, fun hd => ?_, csrIxFits_check hf⟩
            rw [(CsrW2.fromSorted_directed e).1] at hd; cases hd
          · cases h
        · cases h
      · cases h
    · rename_i o
      exact csrOK_step hinv o
  | list s =>
    cases r <;> simp only [Store.exec] at h <;> try cases h
    · exact Visit.new_wf _
    · rename_i o
      cases o <;> simp only at h <;> cases h <;> exact Visit.step_wf' s _ hinv trivial

/-! ### under the hypotheses the mirror's table satisfies the property -/

theorem storeInv_consistent (st : Store) (h : StoreInv st) : TableConsistent st.qs st.repaired := by
  cases st with
  | graph s => exact graphTable_consistent s h
  | stable s => exact SGW3.stableTable_consistent s h
  | map s => exact graphMapTable_consistent s h
  | matrix s =>
    obtain ⟨hi, g, hr⟩ := h
    simp only [Store.qs, Store.repaired]
    cases hd : s.dir
    · simpa using matrixTable_consistent_undirected hi hr hd
    · simpa using matrixTable_consistent_directed hi hr hd
  | csr s =>
    obtain ⟨R, g, good, abs, wf, hf⟩ := h
    simp only [Store.qs, Store.repaired]
    cases hd : s.directed
    · simpa using csrTable_consistent_undirected s ⟨R, good⟩ hf hd (CsrW2.edgeCountOk_of_abs good hf abs (wf hd) hd)
    · simpa using csrTable_consistent s ⟨R, good⟩ hf hd
  | list s => exact adjListTable_consistent s h

/-- the defaults the table functions use for a faulting / panicking model call are never used under the hypotheses:
the mirror's table is the table of a panic-free dump (per type: `C06_Graph_table_total`, `C06_StableGraph_table_total`,
`C06_GraphMap_table_total`, `CsrView.callsOk`, `C06_List_table_total`) -/
theorem storeInv_csr_callsOk (s : CsrM.State) (h : StoreInv (.csr s)) : CsrView.callsOk s := by
  obtain ⟨R, g, good, _, _, hf⟩ := h
  exact csrTable_callsOk s ⟨R, good⟩ hf

/-! ### all request sequences -/

/-- replay of a sequence of requests (`Except.error` as soon as one is refused) -/
def execAll : Store → List Req → Except String Store
  | st, [] => .ok st
  | st, r :: rs =>
    match st.exec r with
    | .ok st' => execAll st' rs
    | .error e => .error e

theorem storeInv_execAll : ∀ (rs : List Req) (st st' : Store), StoreInv st → execAll st rs = .ok st' → StoreInv st'
  | [], st, st', hi, h => by cases h; exact hi
  | r :: rs, st, st', hi, h => by
    simp only [execAll] at h
    split at h
    · rename_i st1 e
      exact storeInv_execAll rs st1 st' (storeInv_exec r hi e) h
    · cases h

/-- **every replayed history**: for every storage type, both edge types, from the type's constructor, after every
sequence of requests `Store.exec` accepts — of any length, with vacancies, removed ids, reused ids, panicking calls,
capacity growth — the table computed from the mirror (D6 / D7 repaired) satisfies every clause of the property. -/
theorem replay_consistent (ty : String) (dir dbg : Bool) (st0 st : Store) (rs : List Req)
    (h0 : Store.init ty dir dbg = some st0) (h : execAll st0 rs = .ok st) :
    TableConsistent st.qs st.repaired :=
  storeInv_consistent st (storeInv_execAll rs st0 st (storeInv_init ty dir dbg st0 h0) h)

/-! ### the replay IS the `run` of the owning vertical's mirror

so the state the driver computes the table from is the state the `C06_consistent_<Type>_all_histories` theorems (and the
all-histories theorems of C01–C05) are about -/

theorem replay_graph_is_run : ∀ (ops : List G.Op) (s : G.State) (st : Store),
    execAll (.graph s) (ops.map Req.gOp) = .ok st → st = .graph (G.run s ops).1
  | [], s, st, h => by cases h; rfl
  | o :: ops, s, st, h => by
    simp only [List.map_cons, execAll, Store.exec] at h
    rcases hstep : G.step s o with ⟨s', out⟩
    rw [hstep] at h
    have e : (G.run s (o :: ops)).1 = (G.run s' ops).1 := by simp [G.run, hstep]
    rw [e]
    cases out <;> simp only [modelFault] at h <;> first | exact replay_graph_is_run ops s' st h | cases h

theorem replay_stable_is_run : ∀ (ops : List SG.Op) (s : SG.State) (st : Store),
    execAll (.stable s) (ops.map Req.sOp) = .ok st → ∃ s' outs, SG.run s ops = .ok (s', outs) ∧ st = .stable s'
  | [], s, st, h => by cases h; exact ⟨s, [], rfl, rfl⟩
  | o :: ops, s, st, h => by
    simp only [List.map_cons, execAll, Store.exec] at h
    cases hstep : SG.step s o with
    | error f => rw [hstep] at h; cases h
    | ok p =>
      obtain ⟨s1, out⟩ := p
      rw [hstep] at h
      obtain ⟨s', outs, hr, rfl⟩ := replay_stable_is_run ops s1 st h
      exact ⟨s', out :: outs, by simp [SG.run, hstep, hr], rfl⟩

theorem replay_map_is_run : ∀ (ops : List GM.Op) (s : GM.State) (st : Store),
    execAll (.map s) (ops.map Req.mOp) = .ok st → st = .map (GM.run s ops).1
  | [], s, st, h => by cases h; rfl
  | o :: ops, s, st, h => by
    simp only [List.map_cons, execAll, Store.exec] at h
    have e : (GM.run s (o :: ops)).1 = (GM.run (GM.step s o).1 ops).1 := by simp [GM.run]
    rw [e]; exact replay_map_is_run ops _ st h

theorem replay_csr_is_run : ∀ (ops : List CsrM.Op) (s : CsrM.State) (st : Store),
    execAll (.csr s) (ops.map Req.cOp) = .ok st → st = .csr (CsrM.run s ops).1
  | [], s, st, h => by cases h; rfl
  | o :: ops, s, st, h => by
    simp only [List.map_cons, execAll, Store.exec] at h
    have e : (CsrM.run s (o :: ops)).1 = (CsrM.run (CsrM.step s o).1 ops).1 := by simp [CsrM.run]
    rw [e]; exact replay_csr_is_run ops _ st h

theorem replay_list_is_run : ∀ (ops : List AdjM.Op) (s : AdjM.State) (st : Store),
    execAll (.list s) (ops.map Req.lOp) = .ok st → st = .list (AdjM.run s ops).1
  | [], s, st, h => by cases h; rfl
  | o :: ops, s, st, h => by
    have e : (AdjM.run s (o :: ops)).1 = (AdjM.run (AdjM.step s o).1 ops).1 := by simp [AdjM.run]
    rw [e]
    cases o <;> simp only [List.map_cons, execAll, Store.exec, outOfScope] at h <;>
      first | exact replay_list_is_run ops _ st h | cases h

theorem replay_matrix_is_run : ∀ (ops : List Matrix.Op) (s : Matrix.State) (st : Store),
    execAll (.matrix s) (ops.map Req.xOp) = .ok st → st = .matrix (Matrix.run s ops).1
  | [], s, st, h => by cases h; rfl
  | o :: ops, s, st, h => by
    simp only [List.map_cons, execAll, Store.exec] at h
    rcases hstep : Matrix.step s o with ⟨s', out⟩
    rw [hstep] at h
    have e : (Matrix.run s (o :: ops)).1 = (Matrix.run s' ops).1 := by simp [Matrix.run, hstep]
    rw [e]
    by_cases hv : matrixValidB s o = true
    · rw [if_pos hv] at h
      cases out <;> simp only [modelFault] at h <;> first | exact replay_matrix_is_run ops s' st h | cases h
    · rw [if_neg hv] at h; simp only [outOfScope] at h; cases h
/-! ### the adaptor stacks: `stackOkB` -/

theorem stackOk_check : ∀ (ops : List Op) (d : Bool), C06Checks.stackOkB d ops = true → StackOk d ops
  | [], _, _ => trivial
  | op :: ops, d, h => by
    simp only [C06Checks.stackOkB, Bool.and_eq_true] at h
    refine ⟨?_, stackOk_check ops _ (by simpa [dirAfter] using h.2)⟩
    cases op <;> try trivial
    rename_i p
    intro hd
    have := h.1
    simp only [hd, Bool.false_or] at this
    exact this

theorem stackOk_complete : ∀ (ops : List Op) (d : Bool), StackOk d ops → C06Checks.stackOkB d ops = true
  | [], _, _ => rfl
  | op :: ops, d, h => by
    simp only [C06Checks.stackOkB, Bool.and_eq_true]
    refine ⟨?_, by simpa [dirAfter] using stackOk_complete ops _ h.2⟩
    cases op <;> try rfl
    rename_i p
    have := h.1
    cases d
    · simpa using this rfl
    · rfl

end PetgraphModel.C06R
