import PetgraphModel.Proofs.C16Chk
import PetgraphModel.Proofs.C16Artic
/-
C16, second wave — the hypothesis the two full-correctness statements of `Theorems/C16.lean` are
missing.

`ViewOk` only says that the neighbour iteration of the encoding has the right *set* of targets
(`b ∈ v.succ a ↔ Adj a b`).  The mirror models of `simple_fast` / `articulation_points` carry a fuel
that is computed from `|nodes|` and `|edges|` of the abstract graph, so a view that repeats a
neighbour more often than the abstract graph has edges makes the models report `FUEL`
(`Theorems/C16.lean`: `C16_simple_fast_statement_false_witness`,
`C16_articulation_statement_false_witness`).  The driver only ever builds views whose neighbour lists
are permutations of `MGraph.succ` (`Driver/C16.lean`, `viewOkB`), so the repaired statements assume
the length half of that.
-/
namespace PetgraphModel.C16P
open PetgraphModel MGraph

/-- the encoding's neighbour lists are not longer than those of the abstract graph -/
def SuccBounded (v : View) : Prop := ∀ a, (v.succ a).length ≤ (v.g.succ a).length

/-- it suffices to bound the neighbour lists of the nodes: a consistent view of a well-formed graph
enumerates nothing for a non-node -/
theorem succBounded_of_nodes (v : View) (hv : ViewOk v) (hwf : v.g.WellFormed)
    (h : ∀ a, a ∈ v.g.nodes → (v.succ a).length ≤ (v.g.succ a).length) : SuccBounded v := by
  intro a
  by_cases ha : a ∈ v.g.nodes
  · exact h a ha
  · have : v.succ a = [] := by
      apply List.eq_nil_iff_forall_not_mem.mpr
      intro b hb
      obtain ⟨e, he, hh⟩ := (hv a b).mp hb
      have hn := hwf.2 e he
      rcases hh with ⟨h1, _⟩ | ⟨_, _, h2⟩
      · exact ha (h1 ▸ hn.1)
      · exact ha (h2 ▸ hn.2)
    rw [this]
    exact Nat.zero_le _

end PetgraphModel.C16P
