import PetgraphModel.Model.C20
/-
C20 (wave 2) — the bucket machinery of `good_node_sequence`, part A: the primitive operations
(`pushFront`, `remove`, `update`) keep the buckets consistent with the nodes' flags and degrees.
-/
namespace PetgraphModel.C20.Fas

/-! ### nodes -/

theorem node_of_ge (s : FState) (j : Nat) (h : s.nodes.length ≤ j) : node s j = default := by
  simp [node, List.getD_eq_getElem?_getD, List.getElem?_eq_none h]

theorem default_inList : (default : FNode).inList = false := rfl

theorem lt_of_inList {s : FState} {j : Nat} (h : (node s j).inList = true) : j < s.nodes.length := by
  apply Classical.byContradiction
  intro hn
  rw [node_of_ge s j (by omega)] at h
  simp [default_inList] at h

@[simp] theorem modNode_length (s : FState) (ix : Nat) (f : FNode → FNode) :
    (modNode s ix f).nodes.length = s.nodes.length := by simp [modNode]

theorem node_modNode (s : FState) (ix : Nat) (f : FNode → FNode) (j : Nat) :
    node (modNode s ix f) j = if j = ix ∧ ix < s.nodes.length then f (node s ix) else node s j := by
  simp only [node, modNode, List.getD_eq_getElem?_getD, List.getElem?_set]
  by_cases h : ix = j
  · subst h
    by_cases h2 : ix < s.nodes.length
    · simp [h2]
    · simp [h2]
  · have h' : ¬ j = ix := fun e => h e.symm
    simp [h, h']

@[simp] theorem getB_modNode (s : FState) (ix : Nat) (f : FNode → FNode) (b : Bucket) :
    getB (modNode s ix f) b = getB s b := by cases b <;> rfl

/-! ### buckets -/

theorem getD_setAt (v : List (List Nat)) (i j : Nat) (l : List Nat) :
    (setAt v i l).getD j [] = if j = i then l else v.getD j [] := by
  simp only [setAt, List.getD_eq_getElem?_getD, List.getElem?_set, List.length_append, List.length_replicate]
  by_cases h : i = j
  · subst h
    have : i < v.length + (i + 1 - v.length) := by omega
    simp [this]
  · have h' : ¬ j = i := fun e => h e.symm
    simp only [h, h', if_false]
    by_cases hj : j < v.length
    · rw [List.getElem?_append_left hj]
    · rw [List.getElem?_append_right (by omega), List.getElem?_replicate, List.getElem?_eq_none (by omega)]
      split <;> rfl

@[simp] theorem setB_nodes (s : FState) (b : Bucket) (l : List Nat) : (setB s b l).nodes = s.nodes := by
  cases b <;> rfl

@[simp] theorem node_setB (s : FState) (b : Bucket) (l : List Nat) (j : Nat) : node (setB s b l) j = node s j := by
  simp [node]

theorem getB_setB (s : FState) (b b' : Bucket) (l : List Nat) :
    getB (setB s b l) b' = if b' = b then l else getB s b' := by
  cases b <;> cases b' <;> simp [getB, setB, getD_setAt, -List.getD_eq_getElem?_getD]

theorem bucketOf_inList (n : FNode) (x : Bool) : bucketOf { n with inList := x } = bucketOf n := rfl

/-! ### `pushFront` and `remove` -/

@[simp] theorem pushFront_length (s : FState) (ix : Nat) : (pushFront s ix).nodes.length = s.nodes.length := by
  simp [pushFront]

@[simp] theorem remove_length (s : FState) (ix : Nat) : (remove s ix).nodes.length = s.nodes.length := by
  simp [remove]

theorem node_pushFront (s : FState) (ix j : Nat) :
    node (pushFront s ix) j =
      if j = ix ∧ ix < s.nodes.length then { node s ix with inList := true } else node s j := by
  simp only [pushFront, node_modNode, node_setB, setB_nodes]

theorem node_remove (s : FState) (ix j : Nat) :
    node (remove s ix) j =
      if j = ix ∧ ix < s.nodes.length then { node s ix with inList := false } else node s j := by
  simp only [remove, node_modNode, node_setB, setB_nodes]

theorem getB_pushFront (s : FState) (ix : Nat) (b : Bucket) :
    getB (pushFront s ix) b = if b = bucketOf (node s ix) then ix :: getB s b else getB s b := by
  simp only [pushFront, getB_modNode, getB_setB]
  split
  · rename_i h; rw [h]
  · rfl

theorem getB_remove (s : FState) (ix : Nat) (b : Bucket) :
    getB (remove s ix) b = if b = bucketOf (node s ix) then (getB s b).erase ix else getB s b := by
  simp only [remove, getB_modNode, getB_setB]
  split
  · rename_i h; rw [h]
  · rfl

/-- bucket consistency: the buckets hold exactly the nodes flagged `inList`, each in the bucket its
degrees select, without repetition -/
structure Inv (s : FState) : Prop where
  mem : ∀ b, ∀ ix ∈ getB s b, (node s ix).inList = true ∧ bucketOf (node s ix) = b
  has : ∀ ix, (node s ix).inList = true → ix ∈ getB s (bucketOf (node s ix))
  nodup : ∀ b, (getB s b).Nodup

theorem inv_pushFront (s : FState) (ix : Nat) (hinv : Inv s) (hlt : ix < s.nodes.length)
    (hix : (node s ix).inList = false) : Inv (pushFront s ix) := by
  have hne : ∀ b, ∀ j ∈ getB s b, j ≠ ix := by
    intro b j hj e
    have := (hinv.mem b j hj).1
    rw [e, hix] at this
    cases this
  refine ⟨?_, ?_, ?_⟩
  · intro b j hj
    rw [getB_pushFront] at hj
    rw [node_pushFront]
    by_cases hb : b = bucketOf (node s ix)
    · rw [if_pos hb] at hj
      cases List.mem_cons.mp hj with
      | inl e =>
        subst e
        rw [if_pos ⟨rfl, hlt⟩]
        exact ⟨rfl, by rw [bucketOf_inList]; exact hb.symm⟩
      | inr e =>
        rw [if_neg (fun h => hne b j e h.1)]
        exact hinv.mem b j e
    · rw [if_neg hb] at hj
      rw [if_neg (fun h => hne b j hj h.1)]
      exact hinv.mem b j hj
  · intro j hj
    by_cases hji : j = ix
    · subst hji
      have hn : node (pushFront s j) j = { node s j with inList := true } := by
        rw [node_pushFront, if_pos ⟨rfl, hlt⟩]
      rw [hn, bucketOf_inList, getB_pushFront, if_pos rfl]
      simp
    · have hn : node (pushFront s ix) j = node s j := by rw [node_pushFront, if_neg (fun h => hji h.1)]
      rw [hn] at hj ⊢
      rw [getB_pushFront]
      have := hinv.has j hj
      split
      · exact List.mem_cons_of_mem _ this
      · exact this
  · intro b
    rw [getB_pushFront]
    split
    · exact List.nodup_cons.mpr ⟨fun hm => hne b ix hm rfl, hinv.nodup b⟩
    · exact hinv.nodup b

theorem inv_remove (s : FState) (ix : Nat) (hinv : Inv s) (hix : (node s ix).inList = true) :
    Inv (remove s ix) := by
  have hlt := lt_of_inList hix
  refine ⟨?_, ?_, ?_⟩
  · intro b j hj
    rw [getB_remove] at hj
    rw [node_remove]
    by_cases hb : b = bucketOf (node s ix)
    · rw [if_pos hb] at hj
      have := ((hinv.nodup b).mem_erase_iff).mp hj
      rw [if_neg (fun h => this.1 h.1)]
      exact hinv.mem b j this.2
    · rw [if_neg hb] at hj
      have hm := hinv.mem b j hj
      have hji : j ≠ ix := by
        intro e
        rw [e] at hm
        exact hb hm.2.symm
      rw [if_neg (fun h => hji h.1)]
      exact hm
  · intro j hj
    by_cases hji : j = ix
    · subst hji
      rw [node_remove, if_pos ⟨rfl, hlt⟩] at hj
      cases hj
    · have hn : node (remove s ix) j = node s j := by rw [node_remove, if_neg (fun h => hji h.1)]
      rw [hn] at hj ⊢
      rw [getB_remove]
      have := hinv.has j hj
      split
      · exact ((hinv.nodup _).mem_erase_iff).mpr ⟨hji, this⟩
      · exact this
  · intro b
    rw [getB_remove]
    split
    · exact (hinv.nodup b).erase ix
    · exact hinv.nodup b

/-- changing a node that is in no bucket (keeping its flag) does not disturb the buckets -/
theorem inv_modNode (s : FState) (ix : Nat) (f : FNode → FNode) (hinv : Inv s)
    (hix : (node s ix).inList = false) (hf : (f (node s ix)).inList = false) : Inv (modNode s ix f) := by
  have hne : ∀ b, ∀ j ∈ getB s b, j ≠ ix := by
    intro b j hj e
    have := (hinv.mem b j hj).1
    rw [e, hix] at this
    cases this
  refine ⟨?_, ?_, ?_⟩
  · intro b j hj
    rw [getB_modNode] at hj
    rw [node_modNode, if_neg (fun h => hne b j hj h.1)]
    exact hinv.mem b j hj
  · intro j hj
    rw [node_modNode] at hj ⊢
    rw [getB_modNode]
    split at hj
    · rw [hf] at hj; cases hj
    · rename_i hc
      rw [if_neg hc]
      exact hinv.has j hj
  · intro b
    rw [getB_modNode]
    exact hinv.nodup b

/-! ### what an operation keeps: length, graph ids and flags -/

structure Same (s s' : FState) : Prop where
  len : s'.nodes.length = s.nodes.length
  gix : ∀ j, (node s' j).gix = (node s j).gix
  inl : ∀ j, (node s' j).inList = (node s j).inList

theorem Same.refl (s : FState) : Same s s := ⟨rfl, fun _ => rfl, fun _ => rfl⟩

theorem Same.trans {s s' s'' : FState} (h1 : Same s s') (h2 : Same s' s'') : Same s s'' :=
  ⟨h2.len.trans h1.len, fun j => (h2.gix j).trans (h1.gix j), fun j => (h2.inl j).trans (h1.inl j)⟩

/-- take a flagged node out of its bucket, change its degrees, put it into its new bucket -/
theorem rebucket (s : FState) (o : Nat) (f : FNode → FNode) (hinv : Inv s) (ho : (node s o).inList = true)
    (hfg : ∀ n, (f n).gix = n.gix) (hfi : ∀ n, (f n).inList = n.inList) :
    Inv (pushFront (modNode (remove s o) o f) o) ∧ Same s (pushFront (modNode (remove s o) o f) o) := by
  have hlt := lt_of_inList ho
  have h1 := inv_remove s o hinv ho
  have hn1 : node (remove s o) o = { node s o with inList := false } := by
    rw [node_remove, if_pos ⟨rfl, hlt⟩]
  have h2 := inv_modNode (remove s o) o f h1 (by rw [hn1]) (by rw [hfi, hn1])
  have hn2 : node (modNode (remove s o) o f) o = f { node s o with inList := false } := by
    rw [node_modNode, if_pos ⟨rfl, by simpa using hlt⟩, hn1]
  have h3 := inv_pushFront (modNode (remove s o) o f) o h2 (by simpa using hlt) (by rw [hn2, hfi])
  refine ⟨h3, by simp, ?_, ?_⟩
  · intro j
    rw [node_pushFront]
    by_cases hj : j = o
    · subst hj
      rw [if_pos ⟨rfl, by simpa using hlt⟩, hn2]
      simp [hfg]
    · rw [if_neg (fun h => hj h.1), node_modNode, if_neg (fun h => hj h.1), node_remove,
        if_neg (fun h => hj h.1)]
  · intro j
    rw [node_pushFront]
    by_cases hj : j = o
    · subst hj
      rw [if_pos ⟨rfl, by simpa using hlt⟩]
      simp [ho]
    · rw [if_neg (fun h => hj h.1), node_modNode, if_neg (fun h => hj h.1), node_remove,
        if_neg (fun h => hj h.1)]

theorem foldl_inv_same {α : Type} (step : FState → α → FState)
    (hstep : ∀ s a, Inv s → Inv (step s a) ∧ Same s (step s a)) :
    ∀ (l : List α) (s : FState), Inv s → Inv (l.foldl step s) ∧ Same s (l.foldl step s) := by
  intro l
  induction l with
  | nil => intro s h; exact ⟨h, Same.refl s⟩
  | cons a t ih =>
    intro s h
    simp only [List.foldl_cons]
    have h1 := hstep s a h
    have h2 := ih (step s a) h1.1
    exact ⟨h2.1, h1.2.trans h2.2⟩

/-- one neighbour of `update_neighbour_node_buckets` (`g` = the degree decrement) -/
def nbStep (ix : Nat) (g : FNode → FNode) (s : FState) (o : Nat) : FState :=
  if o == ix then s else if !(node s o).inList then s
  else pushFront (modNode (remove s o) o g) o

theorem update_eq (s : FState) (ix : Nat) :
    update s ix =
      (node ((node s ix).outE.foldl (nbStep ix fun n => { n with inDeg := n.inDeg - 1 }) s) ix).inE.foldl
        (nbStep ix fun n => { n with outDeg := n.outDeg - 1 })
        ((node s ix).outE.foldl (nbStep ix fun n => { n with inDeg := n.inDeg - 1 }) s) := rfl

theorem nbStep_spec (ix : Nat) (g : FNode → FNode) (hfg : ∀ n, (g n).gix = n.gix)
    (hfi : ∀ n, (g n).inList = n.inList) (s : FState) (o : Nat) (hs : Inv s) :
    Inv (nbStep ix g s o) ∧ Same s (nbStep ix g s o) := by
  unfold nbStep
  split
  · exact ⟨hs, Same.refl s⟩
  · split
    · exact ⟨hs, Same.refl s⟩
    · rename_i hno
      exact rebucket s o g hs (by simpa using hno) hfg hfi

/-- `update_neighbour_node_buckets` keeps the buckets consistent and changes neither the flags nor
the graph ids -/
theorem update_spec (s : FState) (ix : Nat) (hinv : Inv s) : Inv (update s ix) ∧ Same s (update s ix) := by
  rw [update_eq]
  have h1 := foldl_inv_same (nbStep ix fun n => { n with inDeg := n.inDeg - 1 })
    (nbStep_spec ix _ (fun _ => rfl) (fun _ => rfl)) (node s ix).outE s hinv
  have h2 := foldl_inv_same (nbStep ix fun n => { n with outDeg := n.outDeg - 1 })
    (nbStep_spec ix _ (fun _ => rfl) (fun _ => rfl))
    (node ((node s ix).outE.foldl (nbStep ix fun n => { n with inDeg := n.inDeg - 1 }) s) ix).inE _ h1.1
  exact ⟨h2.1, h1.2.trans h2.2⟩

end PetgraphModel.C20.Fas
