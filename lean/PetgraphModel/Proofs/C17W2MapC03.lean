import PetgraphModel.Proofs.C17W2Map
import PetgraphModel.Proofs.GraphMap
/-
Helper lemmas for C17, wave 2 (part 2): the `GraphMap` of the serde model (`Serde.GMap`, C17) and the `GraphMap` of
C03 (`GM.State`) are the same data structure.

`ofGM` embeds a C03 state (node values and weights `Nat`, `CompactDirection` as `Dir`) into the serde model (node values
and weights `Int`, `true` = `Outgoing`).  `add_node`, `add_edge`, hence `from_graph`, commute with the embedding, without
any hypothesis (`ofGM_addNode`, `ofGM_addEdge`); under the C03 invariant the canonical form `rebuildMap` of an
embedded state is the embedding of C03's `into_graph`/`from_graph` round trip (`rebuild_ofGM`).
-/
namespace PetgraphModel.SerdeProofs
open PetgraphModel.Serde PetgraphModel

/-! ### the embedding -/

def dirB : GM.Dir → Bool
  | .out => true
  | .inc => false

def ofEntry (e : Nat × GM.Dir) : Int × Bool := ((e.1 : Int), dirB e.2)
def ofAdj (l : GM.Adj) : List (Int × Bool) := l.map ofEntry
def ofNode (p : Nat × GM.Adj) : Int × List (Int × Bool) := ((p.1 : Int), ofAdj p.2)
def ofKey (k : GM.EKey) : Int × Int := ((k.1 : Int), (k.2 : Int))
def ofEdge (e : GM.EKey × Nat) : (Int × Int) × Int := (ofKey e.1, (e.2 : Int))

/-- a C03 `GraphMap` state as a `GraphMap` of the serde model -/
def ofGM (s : GM.State) : GMap :=
  { directed := s.directed, nodes := s.nodes.map ofNode, edges := s.edges.map ofEdge }

theorem ofKey_inj {k k' : GM.EKey} : ofKey k = ofKey k' ↔ k = k' := by
  obtain ⟨a, b⟩ := k
  obtain ⟨c, d⟩ := k'
  simp only [ofKey, Prod.mk.injEq]
  omega

theorem ofEdge_inj {e e' : GM.EKey × Nat} (h : ofEdge e = ofEdge e') : e = e' := by
  obtain ⟨k, w⟩ := e
  obtain ⟨k', w'⟩ := e'
  simp only [ofEdge, Prod.mk.injEq] at h
  obtain ⟨h1, h2⟩ := h
  rw [ofKey_inj.1 h1]
  congr 1
  omega

/-- the embedding loses nothing: equal embedded node keys / edge maps are equal node keys / edge maps -/
theorem ofGM_nodesOf_inj {s s' : GM.State} (h : (ofGM s').nodes.map (·.1) = (ofGM s).nodes.map (·.1)) :
    GM.nodesOf s' = GM.nodesOf s := by
  have e : ∀ t : GM.State, (ofGM t).nodes.map (·.1) = (GM.nodesOf t).map (fun (n : Nat) => (n : Int)) := by
    intro t
    simp [ofGM, GM.nodesOf, GM.IMap.keys, ofNode, List.map_map, Function.comp_def]
  rw [e, e] at h
  exact (List.map_inj_right (fun x y hxy => by omega)).1 h

theorem ofGM_edges_inj {s s' : GM.State} (h : (ofGM s').edges = (ofGM s).edges) : s'.edges = s.edges :=
  (List.map_inj_right (fun _ _ hxy => ofEdge_inj hxy)).1 h

theorem ofGM_empty (d : Bool) : ofGM (GM.State.empty d) = GMap.empty d := rfl

/-! ### `add_node` -/

theorem addNode_nodes_cons (k' : Nat) (v : GM.Adj) (t : GM.IMap Nat GM.Adj) (n : Nat) (d : Bool) :
    (GM.addNode ⟨d, (k', v) :: t, []⟩ n).nodes =
      if k' = n then (k', v) :: t else (k', v) :: (GM.addNode ⟨d, t, []⟩ n).nodes := by
  unfold GM.addNode GM.IMap.contains
  simp only [GM.IMap.get?]
  by_cases h : k' = n
  · simp [h]
  · simp only [h, if_false]
    cases GM.IMap.get? t n <;> simp

theorem ofGM_addNode_nodes (nodes : GM.IMap Nat GM.Adj) (n : Nat) (d : Bool) :
    (GM.addNode ⟨d, nodes, []⟩ n).nodes.map ofNode = assocUpsert (nodes.map ofNode) (n : Int) [] id := by
  induction nodes with
  | nil => rfl
  | cons p t ih =>
    obtain ⟨k', v⟩ := p
    rw [addNode_nodes_cons, List.map_cons]
    show _ = assocUpsert (((k' : Int), ofAdj v) :: t.map ofNode) (n : Int) [] id
    rw [assocUpsert_cons]
    by_cases h : k' = n
    · rw [if_pos h, if_pos (by omega)]; rfl
    · rw [if_neg h, if_neg (by omega), List.map_cons, ih]; rfl

theorem addNode_nodes_indep (s : GM.State) (n : Nat) :
    (GM.addNode s n).nodes = (GM.addNode ⟨s.directed, s.nodes, []⟩ n).nodes ∧
    (GM.addNode s n).edges = s.edges ∧ (GM.addNode s n).directed = s.directed := by
  unfold GM.addNode
  simp only
  split <;> simp

theorem ofGM_addNode (s : GM.State) (n : Nat) : ofGM (GM.addNode s n) = (ofGM s).addNode (n : Int) := by
  obtain ⟨h1, h2, h3⟩ := addNode_nodes_indep s n
  unfold ofGM GMap.addNode
  simp only [h1, h2, h3, ofGM_addNode_nodes]

theorem ofGM_addNodes (ks : List Nat) : ∀ s : GM.State,
    ofGM (GM.addNodes s ks) = ks.foldl (fun acc k => acc.addNode (k : Int)) (ofGM s) := by
  induction ks with
  | nil => intro s; rfl
  | cons k t ih => intro s; simp only [GM.addNodes, List.foldl_cons, ih, ofGM_addNode]

/-! ### `add_edge` -/

theorem pushAdj_cons (k' : Nat) (v : GM.Adj) (t : GM.IMap Nat GM.Adj) (a : Nat) (e : Nat × GM.Dir) :
    GM.pushAdj ((k', v) :: t) a e = if k' = a then (k', v ++ [e]) :: t else (k', v) :: GM.pushAdj t a e := by
  unfold GM.pushAdj
  simp only [GM.IMap.get?]
  by_cases h : k' = a
  · simp [h, GM.IMap.set]
  · simp only [h, if_false]
    cases GM.IMap.get? t a <;> simp [GM.IMap.set, h]

theorem ofGM_pushAdj (nodes : GM.IMap Nat GM.Adj) (a : Nat) (e : Nat × GM.Dir) :
    (GM.pushAdj nodes a e).map ofNode = assocUpsert (nodes.map ofNode) (a : Int) [] (· ++ [ofEntry e]) := by
  induction nodes with
  | nil => rfl
  | cons p t ih =>
    obtain ⟨k', v⟩ := p
    rw [pushAdj_cons, List.map_cons]
    show _ = assocUpsert (((k' : Int), ofAdj v) :: t.map ofNode) (a : Int) [] (· ++ [ofEntry e])
    rw [assocUpsert_cons]
    by_cases h : k' = a
    · rw [if_pos h, if_pos (by omega)]
      simp [ofNode, ofAdj]
    · rw [if_neg h, if_neg (by omega), List.map_cons, ih]; rfl

/-- `IndexMap::insert` on the edge map, in both models -/
theorem ofGM_insert (edges : GM.IMap GM.EKey Nat) (k : GM.EKey) (w : Nat) :
    match GM.IMap.get? edges k with
    | some _ => ∃ i, assocIdx (edges.map ofEdge) (ofKey k) = some i ∧
        (edges.map ofEdge).modify i (fun x => (x.1, (w : Int))) = (GM.IMap.set edges k w).map ofEdge
    | none => assocIdx (edges.map ofEdge) (ofKey k) = none := by
  induction edges with
  | nil => rfl
  | cons p t ih =>
    obtain ⟨k', v⟩ := p
    simp only [GM.IMap.get?, List.map_cons]
    show match (if k' = k then some v else GM.IMap.get? t k) with
      | some _ => ∃ i, assocIdx ((ofKey k', (v : Int)) :: t.map ofEdge) (ofKey k) = some i ∧
          ((ofKey k', (v : Int)) :: t.map ofEdge).modify i (fun x => (x.1, (w : Int))) =
            (GM.IMap.set ((k', v) :: t) k w).map ofEdge
      | none => assocIdx ((ofKey k', (v : Int)) :: t.map ofEdge) (ofKey k) = none
    rw [assocIdx_cons]
    by_cases h : k' = k
    · rw [if_pos h, if_pos (ofKey_inj.2 h)]
      exact ⟨0, rfl, by simp [GM.IMap.set, h, ofEdge]⟩
    · rw [if_neg h, if_neg (fun e => h (ofKey_inj.1 e))]
      cases hg : GM.IMap.get? t k with
      | none =>
        rw [hg] at ih
        simp only at ih ⊢
        rw [ih]; rfl
      | some old =>
        rw [hg] at ih
        simp only at ih ⊢
        obtain ⟨i, h1, h2⟩ := ih
        refine ⟨i + 1, by rw [h1]; rfl, ?_⟩
        simp only [GM.IMap.set, h, if_false, List.map_cons, List.modify_succ_cons, h2]
        rfl

theorem ofGM_edgeKey (s : GM.State) (a b : Nat) :
    (ofGM s).edgeKey (a : Int) (b : Int) = ofKey (GM.edgeKey s.directed a b) := by
  unfold GMap.edgeKey GM.edgeKey ofKey
  show (if (s.directed || decide ((a : Int) ≤ (b : Int))) = true then _ else _) = _
  have : decide ((a : Int) ≤ (b : Int)) = decide (a ≤ b) := by
    by_cases h : a ≤ b
    · simp [h]
    · simp only [h, decide_false, decide_eq_false_iff_not]; omega
  rw [this]
  split <;> rfl

theorem ofGM_addEdge (s : GM.State) (a b w : Nat) :
    ofGM (GM.addEdge s a b w).1 = ((ofGM s).addEdge (a : Int) (b : Int) (w : Int)).1 := by
  have hins := ofGM_insert s.edges (GM.edgeKey s.directed a b) w
  unfold GMap.addEdge GM.addEdge GM.IMap.insert
  simp only [ofGM_edgeKey]
  cases hg : GM.IMap.get? s.edges (GM.edgeKey s.directed a b) with
  | some old =>
    rw [hg] at hins
    obtain ⟨i, h1, h2⟩ := hins
    simp only [show (ofGM s).edges = s.edges.map ofEdge from rfl, h1]
    show ofGM { s with edges := GM.IMap.set s.edges (GM.edgeKey s.directed a b) w } = _
    unfold ofGM
    simp only [← h2]
  | none =>
    rw [hg] at hins
    simp only at hins
    simp only [show (ofGM s).edges = s.edges.map ofEdge from rfl, hins]
    show ofGM { s with nodes := (if a ≠ b then GM.pushAdj (GM.pushAdj s.nodes a (b, .out)) b (a, .inc)
        else GM.pushAdj s.nodes a (b, .out)), edges := s.edges ++ [(GM.edgeKey s.directed a b, w)] } = _
    unfold ofGM
    simp only [List.map_append, List.map_cons, List.map_nil]
    by_cases hab : a = b
    · have : ¬ ((a : Int) ≠ (b : Int)) := by omega
      simp only [hab, ne_eq, not_true_eq_false, if_false, ofGM_pushAdj]
      rfl
    · have : (a : Int) ≠ (b : Int) := by omega
      simp only [ne_eq, hab, not_false_eq_true, if_true, this, ofGM_pushAdj]
      rfl

theorem ofGM_extend (es : List (Nat × Nat × Nat)) : ∀ s : GM.State,
    ofGM (GM.extend s es) =
      es.foldl (fun acc e => (acc.addEdge (e.1 : Int) (e.2.1 : Int) (e.2.2 : Int)).1) (ofGM s) := by
  induction es with
  | nil => intro s; rfl
  | cons e t ih =>
    intro s
    obtain ⟨a, b, w⟩ := e
    simp only [GM.extend, List.foldl_cons, ih, ofGM_addEdge]

/-! ### the canonical form is C03's `from_graph ∘ into_graph` -/

theorem addNode_fold_canonical (d : Bool) (ks : List Int) (hn : ks.Nodup) :
    ks.foldl (fun acc k => acc.addNode k) (GMap.empty d) = ⟨d, ks.map fun k => (k, adjFrom [] k), []⟩ := by
  have h := fgNode_fold (ks.map (liveSlot 0)) ks (GMap.empty d) (by simp [liveSlot]) (by simpa [GMap.empty] using hn)
  rw [List.foldl_map] at h
  have e : (fun (acc : GMap) (k : Int) => fgNode acc (liveSlot 0 k)) = fun acc k => acc.addNode k := by
    funext acc k; rfl
  rw [e] at h
  rw [h]
  simp [GMap.empty, adjFrom]

theorem addEdge_fold_canonical (d : Bool) (keys : List Int) (hk : keys.Nodup) :
    ∀ (rest done : List ((Int × Int) × Int)),
      ((done ++ rest).map (·.1)).Nodup →
      (∀ e, e ∈ rest → e.1.1 ∈ keys ∧ e.1.2 ∈ keys ∧ (d = true ∨ e.1.1 ≤ e.1.2)) →
      rest.foldl (fun (acc : GMap) e => (acc.addEdge e.1.1 e.1.2 e.2).1)
          ⟨d, keys.map fun k => (k, adjFrom done k), done⟩ =
        ⟨d, keys.map fun k => (k, adjFrom (done ++ rest) k), done ++ rest⟩ := by
  intro rest
  induction rest with
  | nil => intro done _ _; simp
  | cons r rest ih =>
    intro done hn hgood
    obtain ⟨⟨a, b⟩, w⟩ := r
    obtain ⟨ha, hb, hc⟩ := hgood ((a, b), w) (List.mem_cons_self ..)
    have hnew : (a, b) ∉ done.map (·.1) := by
      intro hmem
      rw [List.map_append, List.map_cons] at hn
      exact (List.nodup_append.1 hn).2.2 (a, b) hmem (a, b) (List.mem_cons_self ..) rfl
    rw [List.foldl_cons]
    simp only
    rw [addEdge_canonical d keys hk done a b w ha hb hc hnew,
      ih (done ++ [((a, b), w)]) (by simpa [List.append_assoc] using hn)
        (fun e' he' => hgood e' (List.mem_cons_of_mem _ he'))]
    simp [List.append_assoc]

/-- what the C03 invariant gives about the embedded state: exactly the hypotheses of `roundtrip_map` -/
theorem ofGM_wf (s : GM.State) (h : GMProofs.Inv s) :
    ((ofGM s).nodes.map (·.1)).Nodup ∧ ((ofGM s).edges.map (·.1)).Nodup ∧
    (∀ a b w, ((a, b), w) ∈ (ofGM s).edges →
      a ∈ (ofGM s).nodes.map (·.1) ∧ b ∈ (ofGM s).nodes.map (·.1) ∧ ((ofGM s).directed = true ∨ a ≤ b)) := by
  have hkn : (ofGM s).nodes.map (·.1) = (GM.IMap.keys s.nodes).map (fun (n : Nat) => (n : Int)) := by
    simp [ofGM, GM.IMap.keys, ofNode, List.map_map, Function.comp_def]
  have hke : (ofGM s).edges.map (·.1) = (GM.IMap.keys s.edges).map ofKey := by
    simp [ofGM, GM.IMap.keys, ofEdge, List.map_map, Function.comp_def]
  refine ⟨?_, ?_, ?_⟩
  · rw [hkn]
    exact List.Pairwise.map _ (fun a b (hab : a ≠ b) e => hab (by omega)) h.nodesNodup
  · rw [hke]
    exact List.Pairwise.map _ (fun a b (hab : a ≠ b) e => hab (ofKey_inj.1 e)) h.edgesNodup
  · intro a b w hm
    obtain ⟨e, he, heq⟩ := List.mem_map.1 hm
    obtain ⟨⟨x, y⟩, z⟩ := e
    simp only [ofEdge, ofKey, Prod.mk.injEq] at heq
    obtain ⟨⟨rfl, rfl⟩, rfl⟩ := heq
    have hg : (GM.IMap.get? s.edges (x, y)).isSome = true := by
      rw [GMProofs.get?_of_mem _ h.edgesNodup _ _ he]; rfl
    obtain ⟨hx, hy⟩ := h.good.ends x y hg
    have hc := h.good.canon x y hg
    rw [GMProofs.contains_eq, GMProofs.get?_isSome_iff] at hx hy
    rw [hkn]
    refine ⟨List.mem_map.2 ⟨x, hx, rfl⟩, List.mem_map.2 ⟨y, hy, rfl⟩, ?_⟩
    rcases hc with hc | hc
    · exact Or.inl hc
    · exact Or.inr (by omega)

/-- the canonical form of an embedded C03 state is the embedding of C03's `into_graph`/`from_graph` round trip -/
theorem rebuild_ofGM (s : GM.State) (h : GMProofs.Inv s) :
    ∃ s', GM.roundTrip s = some s' ∧ rebuildMap (ofGM s) = ofGM s' := by
  refine ⟨_, GMProofs.roundTrip_eq s h, ?_⟩
  obtain ⟨hn, he, hgood⟩ := ofGM_wf s h
  rw [ofGM_extend, ofGM_addNodes, ofGM_empty]
  have hks : (GM.nodesOf s).foldl (fun (acc : GMap) (k : Nat) => acc.addNode (k : Int)) (GMap.empty s.directed) =
      ((ofGM s).nodes.map (·.1)).foldl (fun acc k => acc.addNode k) (GMap.empty s.directed) := by
    have : (ofGM s).nodes.map (·.1) = (GM.nodesOf s).map (fun (n : Nat) => (n : Int)) := by
      simp [ofGM, GM.nodesOf, GM.IMap.keys, ofNode, List.map_map, Function.comp_def]
    rw [this, List.foldl_map]
  have hes : ∀ init : GMap,
      (GM.allEdges s).foldl (fun acc e => (acc.addEdge (e.1 : Int) (e.2.1 : Int) (e.2.2 : Int)).1) init =
      (ofGM s).edges.foldl (fun (acc : GMap) e => (acc.addEdge e.1.1 e.1.2 e.2).1) init := by
    intro init
    simp only [ofGM, GM.allEdges, List.foldl_map]
    rfl
  rw [hks, hes, addNode_fold_canonical _ _ hn,
    addEdge_fold_canonical s.directed _ hn (ofGM s).edges [] (by simpa using he)
      (fun e he' => hgood e.1.1 e.1.2 e.2 he')]
  simp only [rebuildMap, List.nil_append]
  rfl

end PetgraphModel.SerdeProofs
