import PetgraphModel.Proofs.Traversal
import Mathlib.Data.List.Nodup
/-
C08 (wave 2): completeness of `Topo` — every node of a well-formed view that is neither on nor
downstream of a cycle is emitted.

Invariant (`CompInv`): every node all of whose predecessors are already ordered is itself ordered or
waiting on the `tovisit` stack.  A run of `topoAll` that returns `some out` ended with an empty
stack, so `out` is closed under "all predecessors emitted"; a node outside `out` therefore has a
predecessor outside `out`, and walking backwards inside the finite node set must close a cycle.
-/
namespace PetgraphModel.TravProofs
open PetgraphModel PetgraphModel.Trav PetgraphModel.MGraph

/-- every node whose predecessors are all ordered is ordered or on the stack -/
def CompInv (g : MGraph) (tovisit ordered : List Nat) : Prop :=
  ∀ y, y ∈ g.nodes → (∀ p, g.Adj p y → p ∈ ordered) → y ∈ ordered ∨ y ∈ tovisit

theorem topoNext_comp (v : View) (hv : ViewOk v) (hp : PredOk v) :
    ∀ (f : Nat) (t : Topo) (r : Option Nat) (t' : Topo), CompInv v.g t.tovisit t.ordered →
      topoNext v f t = some (r, t') →
      CompInv v.g t'.tovisit t'.ordered ∧ (r = none → t'.tovisit = [] ∧ t'.ordered = t.ordered) := by
  intro f
  induction f with
  | zero => intro t r t' _ h; simp [topoNext] at h
  | succ f ih =>
    intro t r t' inv h
    rw [topoNext] at h
    split at h
    · rename_i hst
      simp only [Option.some.injEq, Prod.mk.injEq] at h
      obtain ⟨rfl, rfl⟩ := h
      exact ⟨inv, fun _ => ⟨hst, rfl⟩⟩
    · rename_i x rest hst
      rw [hst] at inv
      split at h
      · rename_i hx
        have hx' : x ∈ t.ordered := by simpa using hx
        have inv' : CompInv v.g rest t.ordered := by
          intro y hy hpy
          rcases inv y hy hpy with h1 | h1
          · exact Or.inl h1
          · rcases List.mem_cons.mp h1 with h2 | h2
            · exact Or.inl (h2 ▸ hx')
            · exact Or.inr h2
        exact ih { t with tovisit := rest } r t' inv' h
      · rename_i hx
        simp only [Option.some.injEq, Prod.mk.injEq] at h
        obtain ⟨rfl, rfl⟩ := h
        refine ⟨?_, fun h => by cases h⟩
        intro y hy hpy
        dsimp only at hpy ⊢
        by_cases hyx : y = x
        · exact Or.inl (hyx ▸ List.mem_cons_self ..)
        by_cases hall : ∀ p, v.g.Adj p y → p ∈ t.ordered
        · rcases inv y hy hall with h1 | h1
          · exact Or.inl (List.mem_cons_of_mem _ h1)
          · rcases List.mem_cons.mp h1 with h2 | h2
            · exact absurd h2 hyx
            · exact Or.inr (List.mem_append_right _ h2)
        · -- some predecessor is newly ordered, i.e. it is `x`
          have hxy : v.g.Adj x y := by
            apply Classical.byContradiction
            intro hn
            apply hall
            intro p hpa
            rcases List.mem_cons.mp (hpy p hpa) with h1 | h1
            · exact absurd (h1 ▸ hpa) hn
            · exact h1
          refine Or.inr (List.mem_append_left _ ?_)
          rw [List.mem_reverse, List.mem_filter]
          refine ⟨(hv x y).mpr hxy, ?_⟩
          rw [List.all_eq_true]
          intro b hb
          have := hpy b ((hp y b).mp hb)
          simpa using this

theorem topoAll_comp (v : View) (hv : ViewOk v) (hp : PredOk v) (inner : Nat) :
    ∀ (k : Nat) (t : Topo) (acc out : List Nat), TopoInv v.g t.tovisit t.ordered acc →
      CompInv v.g t.tovisit t.ordered → topoAll v inner k t acc = some out →
      ∀ y, y ∈ v.g.nodes → (∀ p, v.g.Adj p y → p ∈ out) → y ∈ out := by
  intro k
  induction k with
  | zero => intro t acc out _ _ h; simp [topoAll] at h
  | succ k ih =>
    intro t acc out inv cinv h
    rw [topoAll] at h
    split at h
    · cases h
    · rename_i t1 hn
      simp only [Option.some.injEq] at h
      subst h
      obtain ⟨c1, c2⟩ := topoNext_comp v hv hp inner t none t1 cinv hn
      obtain ⟨e1, e2⟩ := c2 rfl
      rw [e1, e2] at c1
      intro y hy hpy
      rcases c1 y hy (fun p hpa => (inv.ordEq p).mpr (hpy p hpa)) with h1 | h1
      · exact (inv.ordEq y).mp h1
      · cases h1
    · rename_i x t1 hn
      exact ih t1 _ out (topoNext_inv v hp acc inner t x t1 inv hn)
        (topoNext_comp v hv hp inner t (some x) t1 cinv hn).1 h

theorem reach1_of_reach1_adj {g : MGraph} {a b c : Nat} (h : Reach1 g a b) (hc : g.Adj b c) :
    Reach1 g a c := Reach1.step h hc

/-- a set closed under "all predecessors inside" contains every node not downstream of a cycle -/
theorem closed_complete (g : MGraph) (hwf : g.WellFormed) (O : List Nat)
    (hcl : ∀ y, y ∈ g.nodes → (∀ p, g.Adj p y → p ∈ O) → y ∈ O)
    (x : Nat) (hx : x ∈ g.nodes) (hno : ∀ c, Reach1 g c c → ¬ Reach g c x) : x ∈ O := by
  apply Classical.byContradiction
  intro hxO
  have adjNodes : ∀ p y, g.Adj p y → p ∈ g.nodes := by
    intro p y ⟨e, he, h⟩
    rcases h with ⟨h1, _⟩ | ⟨_, _, h2⟩
    · exact h1 ▸ (hwf.2 e he).1
    · exact h2 ▸ (hwf.2 e he).2
  have chain : ∀ (n : Nat) (y : Nat), y ∈ g.nodes → y ∉ O → Reach g y x →
      ∃ l : List Nat, l.length = n ∧ l.Nodup ∧ ∀ z, z ∈ l → z ∈ g.nodes ∧ Reach1 g z y := by
    intro n
    induction n with
    | zero => intro y _ _ _; exact ⟨[], rfl, List.nodup_nil, by simp⟩
    | succ n ih =>
      intro y hy hyO hyx
      have : ∃ p, g.Adj p y ∧ p ∉ O := by
        apply Classical.byContradiction
        intro hn
        apply hyO
        apply hcl y hy
        intro p hpa
        apply Classical.byContradiction
        intro hpO
        exact hn ⟨p, hpa, hpO⟩
      obtain ⟨p, hpa, hpO⟩ := this
      have hpn : p ∈ g.nodes := adjNodes p y hpa
      have hpx : Reach g p x := reach_trans (Reach.step (Reach.refl p) hpa) hyx
      obtain ⟨l, hl, hnd, hmem⟩ := ih p hpn hpO hpx
      refine ⟨p :: l, by simp [hl], List.nodup_cons.mpr ⟨?_, hnd⟩, ?_⟩
      · intro hpl
        exact hno p (hmem p hpl).2 hpx
      · intro z hz
        rcases List.mem_cons.mp hz with h1 | h1
        · subst h1; exact ⟨hpn, Reach1.single hpa⟩
        · exact ⟨(hmem z h1).1, Reach1.step (hmem z h1).2 hpa⟩
  obtain ⟨l, hl, hnd, hmem⟩ := chain (g.nodes.length + 1) x hx hxO (Reach.refl x)
  have := List.Nodup.length_le_of_subset hnd (fun z hz => (hmem z hz).1)
  omega

theorem topo_complete (v : View) (hv : ViewOk v) (hp : PredOk v) (hwf : v.g.WellFormed)
    (inner outer : Nat) (out : List Nat)
    (h : topoAll v inner outer (Topo.new v) [] = some out)
    (x : Nat) (hx : x ∈ v.g.nodes) (hno : ∀ c, Reach1 v.g c c → ¬ Reach v.g c x) : x ∈ out := by
  have inv0 : TopoInv v.g (Topo.new v).tovisit (Topo.new v).ordered [] := by
    refine ⟨List.nodup_nil, by simp [Topo.new], ?_, by simp⟩
    intro y hy p hpy
    simp only [Topo.new, Topo.initials, List.mem_reverse, List.mem_filter, List.isEmpty_iff] at hy
    have := (hp y p).mpr hpy
    rw [hy.2] at this
    cases this
  have cinv0 : CompInv v.g (Topo.new v).tovisit (Topo.new v).ordered := by
    intro y hy hpy
    refine Or.inr ?_
    simp only [Topo.new, Topo.initials, List.mem_reverse, List.mem_filter, List.isEmpty_iff]
    refine ⟨hy, ?_⟩
    cases hpe : v.pred y with
    | nil => rfl
    | cons b bs =>
      have hb : b ∈ v.pred y := by rw [hpe]; exact List.mem_cons_self ..
      have := hpy b ((hp y b).mp hb)
      simp [Topo.new] at this
  exact closed_complete v.g hwf out
    (topoAll_comp v hv hp inner outer (Topo.new v) [] out inv0 cinv0 h) x hx hno

end PetgraphModel.TravProofs
