import PetgraphModel.Driver.C12
import PetgraphModel.Proofs.C12Prim
/-
Small facts about the C12 driver's stream decoding.
-/
namespace PetgraphModel.C12
open PetgraphModel PetgraphModel.MstModel PetgraphModel.MST

theorem absEdges_length {ns : List Nat} : ∀ {es : List EdgeEl} {S : List (Nat × Nat × Int)},
    absEdges ns es = some S → S.length = es.length
  | [], S, h => by simp only [absEdges, Option.some.injEq] at h; subst h; rfl
  | e :: es, S, h => by
    simp only [absEdges] at h
    split at h
    · rename_i a b r _ _ hr
      simp only [Option.some.injEq] at h; subst h
      simp [absEdges_length hr]
    · cases h

/-- each decoded edge carries the node weights at the element's positions and the element's weight -/
theorem absEdges_get {ns : List Nat} : ∀ {es : List EdgeEl} {S : List (Nat × Nat × Int)},
    absEdges ns es = some S → ∀ i (hi : i < es.length) (hi' : i < S.length),
      ns[es[i].s]? = some S[i].1 ∧ ns[es[i].t]? = some S[i].2.1 ∧ S[i].2.2 = es[i].w
  | [], _, _, i, hi, _ => by simp at hi
  | e :: es, S, h, i, hi, hi' => by
    simp only [absEdges] at h
    split at h
    · rename_i a b r ha hb hr
      simp only [Option.some.injEq] at h; subst h
      cases i with
      | zero => exact ⟨ha, hb, rfl⟩
      | succ j =>
        simp only [List.getElem_cons_succ]
        exact absEdges_get hr j (by simpa using hi) (by simpa using hi')
    · cases h

/-! ### the driver's per-case checks establish the hypotheses of the model theorems -/

theorem nodupB_sound : ∀ {l : List Nat}, nodupB l = true → l.Nodup
  | [], _ => List.nodup_nil
  | x :: xs, h => by
    simp only [nodupB, Bool.and_eq_true, Bool.not_eq_true', List.contains_eq_mem,
      decide_eq_false_iff_not] at h
    exact List.nodup_cons.mpr ⟨h.1, nodupB_sound h.2⟩

theorem inj_of_nodup_map {f : Nat → Nat} : ∀ {l : List Nat}, (l.map f).Nodup →
    ∀ a ∈ l, ∀ b ∈ l, f a = f b → a = b
  | [], _, _, ha, _, _, _ => by cases ha
  | x :: xs, h, a, ha, b, hb, hab => by
    simp only [List.map_cons, List.nodup_cons, List.mem_map, not_exists, not_and] at h
    rcases List.mem_cons.mp ha with rfl | ha' <;> rcases List.mem_cons.mp hb with rfl | hb'
    · rfl
    · exact absurd hab.symm (h.1 b hb')
    · exact absurd hab (h.1 a ha')
    · exact inj_of_nodup_map h.2 a ha' b hb' hab

theorem endsMatch_iff {e : Edge} {a b : Nat} :
    endsMatch e a b = true ↔ ((e.src = a ∧ e.tgt = b) ∨ (e.src = b ∧ e.tgt = a)) := by
  simp [endsMatch]

theorem wfB_sound {g : MGraph} (h : wfB g = true) : g.WellFormed := by
  simp only [wfB, Bool.and_eq_true, List.all_eq_true, List.contains_eq_mem, decide_eq_true_eq] at h
  exact ⟨nodupB_sound h.1, h.2⟩

theorem kviewB_sound {v : View} (h : kviewB v = true) : KView v := by
  simp only [kviewB, Bool.and_eq_true, List.all_eq_true, decide_eq_true_eq] at h
  exact ⟨h.1, inj_of_nodup_map (nodupB_sound h.2)⟩

theorem pviewB_sound {v : View} (hw : wfB v.g = true) (hk : kviewB v = true) (h : pviewB v = true) :
    PView v := by
  have hg := wfB_sound hw
  have hkv := kviewB_sound hk
  simp only [pviewB, Bool.and_eq_true, List.all_eq_true, List.any_eq_true, beq_iff_eq] at h
  refine ⟨hg.1, hkv.ixInj, hg.2, ?_, ?_⟩
  · intro a ha oe hoe
    obtain ⟨e, he, hw', hm⟩ := h.1 a ha oe hoe
    exact ⟨e, he, hw', endsMatch_iff.mp hm⟩
  · intro e he
    obtain ⟨⟨oe1, h1, h1a, h1b⟩, ⟨oe2, h2, h2a, h2b⟩⟩ := h.2 e he
    exact ⟨⟨oe1, h1, h1a, h1b⟩, ⟨oe2, h2, h2a, h2b⟩⟩

/-- **an accepted `graph` line satisfies the hypotheses of the model theorems** -/
theorem viewOkB_sound {v : View} (h : viewOkB v = true) :
    v.g.WellFormed ∧ KView v ∧ (v.g.directed = false → PView v) := by
  simp only [viewOkB, Bool.and_eq_true, Bool.or_eq_true] at h
  obtain ⟨⟨⟨⟨hw, hk⟩, hp⟩, _⟩, _⟩ := h
  refine ⟨wfB_sound hw, kviewB_sound hk, fun hd => ?_⟩
  rcases hp with hp | hp
  · rw [hd] at hp; cases hp
  · exact pviewB_sound hw hk hp

/-- **an accepted `er` field satisfies `ErOk`** -/
theorem erOkB_sound {v : View} {er : List (Nat × Nat × Nat)} (h : erOkB v er = true) : ErOk v er := by
  simp only [erOkB, erOkPropB, Bool.and_eq_true, List.all_eq_true, List.any_eq_true, beq_iff_eq] at h
  obtain ⟨⟨⟨hs, hc⟩, _⟩, _⟩ := h
  refine ⟨?_, ?_⟩
  · intro x hx
    obtain ⟨e, he, hw, hm⟩ := hs x hx
    exact ⟨e, he, hw, endsMatch_iff.mp hm⟩
  · intro e he
    obtain ⟨x, hx, hw, hm⟩ := hc e he
    refine ⟨x, hx, hw, ?_⟩
    rcases endsMatch_iff.mp hm with ⟨h1, h2⟩ | ⟨h1, h2⟩
    · exact Or.inl ⟨h1.symm, h2.symm⟩
    · exact Or.inr ⟨h2.symm, h1.symm⟩

end PetgraphModel.C12
