import PetgraphModel.Proofs.C16Judge
import PetgraphModel.Proofs.ReachTotal
import PetgraphModel.Driver.C16
/-
C16, fourth wave — the spec-level judges are *conclusive* and *complete*.

* The reachability oracle returns with the fuel it is given (`Proofs/ReachTotal.lean`,
  `reachFrom_total`), hence so do `domTable`, `compCount`, `cutB`, `cutSet`: the `ORACLE-FUEL` branches
  of `judgeSf` / `judgeAp` are unreachable.
* completeness of the per-clause checkers that had none so far (`strict_dominators`, `None` answers,
  `immediately_dominated_by`) and of the two judges the driver runs: an answer that satisfies every
  clause of the property is accepted — with soundness, `judge… = none` **iff** the answer is correct.
-/
namespace PetgraphModel.C16P.W4
open PetgraphModel MGraph Oracle C16S C16O C16P

/-! ### the oracles return -/

theorem mapOpt_total {α β : Type} (f : α → Option β) :
    ∀ (l : List α), (∀ x ∈ l, ∃ y, f x = some y) → ∃ ys, mapOpt f l = some ys := by
  intro l
  induction l with
  | nil => intro _; exact ⟨[], rfl⟩
  | cons x xs ih =>
    intro h
    obtain ⟨y, hy⟩ := h x (List.mem_cons_self ..)
    obtain ⟨ys, hys⟩ := ih (fun z hz => h z (List.mem_cons_of_mem _ hz))
    exact ⟨y :: ys, by simp [mapOpt, hy, hys]⟩

theorem domTable_total (g : MGraph) (r : Nat) : ∃ T, domTable g r = some T := by
  obtain ⟨R, hR⟩ := reachFrom_total g r
  obtain ⟨av, hav⟩ := mapOpt_total (fun a => (reachFrom (g.removeNode a) r).map fun S => (a, S)) R
    (by
      intro a _
      obtain ⟨S, hS⟩ := reachFrom_total (g.removeNode a) r
      exact ⟨(a, S), by simp [hS]⟩)
  exact ⟨{ root := r, R := R, avoid := av }, by simp [domTable, hR, hav]⟩

theorem compLoop_total (g : MGraph) : ∀ (rest seen : List Nat), ∃ c, compLoop g seen rest = some c := by
  intro rest
  induction rest with
  | nil => intro seen; exact ⟨0, by simp [compLoop]⟩
  | cons x rest ih =>
    intro seen
    simp only [compLoop]
    split
    · exact ih seen
    · obtain ⟨r, hr⟩ := reachFrom_total g x
      obtain ⟨c, hc⟩ := ih (r ++ seen)
      exact ⟨c + 1, by simp [hr, hc]⟩

theorem compCount_total (g : MGraph) : ∃ c, compCount g = some c := compLoop_total g g.nodes []

theorem cutB_total (g : MGraph) (x : Nat) : ∃ b, cutB g x = some b := by
  obtain ⟨c, hc⟩ := compCount_total g
  obtain ⟨c', hc'⟩ := compCount_total (g.removeNode x)
  exact ⟨decide (c' > c), by simp [cutB, hc, hc']⟩

theorem cutSet_total (g : MGraph) : ∃ l, cutSet g = some l := by
  obtain ⟨ys, hys⟩ := mapOpt_total (fun x => (cutB g x).map fun b => (x, b)) g.nodes
    (by
      intro x _
      obtain ⟨b, hb⟩ := cutB_total g x
      exact ⟨(x, b), by simp [hb]⟩)
  exact ⟨(ys.filter (·.2)).map (·.1), by simp [cutSet, hys]⟩

/-! ### completeness of the remaining per-clause checkers -/

theorem checkDominators_none_complete {g : MGraph} {r : Nat} {T : DomTable} (hT : TableOk g r T) (b : Nat)
    (h : ¬ Reach g r b) : T.checkDominators b none = true := by
  unfold DomTable.checkDominators
  simp only [Bool.not_eq_true', ← Bool.not_eq_true, List.contains_iff_mem]
  exact fun hm => h ((hT.reach b).mp hm)

theorem checkStrict_complete {g : MGraph} {r : Nat} {T : DomTable} (hT : TableOk g r T) (b : Nat)
    (o : List Nat) (hb : Reach g r b) (hn : o.Nodup) (ho : ∀ a, a ∈ o ↔ StrictlyDominates g r a b) :
    T.checkStrict b (some o) = true := by
  unfold DomTable.checkStrict
  simp only [Bool.and_eq_true, List.contains_iff_mem, nodupB_iff, setEq_iff]
  refine ⟨⟨(hT.reach b).mpr hb, hn⟩, fun a => ?_⟩
  rw [ho a]
  unfold DomTable.strictOf StrictlyDominates
  simp only [List.mem_filter, Bool.and_eq_true, bne_iff_ne, ne_eq, dom_iff hT, hT.reach]
  exact ⟨fun h => ⟨dominates_reach hb h.2, h.1, hb, h.2⟩, fun h => ⟨h.2.1, h.2.2.2⟩⟩

theorem checkStrict_none_complete {g : MGraph} {r : Nat} {T : DomTable} (hT : TableOk g r T) (b : Nat)
    (h : ¬ Reach g r b) : T.checkStrict b none = true := by
  unfold DomTable.checkStrict
  simp only [Bool.not_eq_true', ← Bool.not_eq_true, List.contains_iff_mem]
  exact fun hm => h ((hT.reach b).mp hm)

theorem checkIdom_none_complete {g : MGraph} {r : Nat} {T : DomTable} (hT : TableOk g r T) (b : Nat)
    (h : b = r ∨ ¬ Reach g r b) : T.checkIdom b none = true := by
  unfold DomTable.checkIdom
  simp only [Bool.or_eq_true, beq_iff_eq, Bool.not_eq_true', ← Bool.not_eq_true, List.contains_iff_mem, hT.root]
  rcases h with h | h
  · exact Or.inl h
  · exact Or.inr fun hm => h ((hT.reach b).mp hm)

theorem checkIdb_complete {g : MGraph} {r : Nat} {T : DomTable} (hT : TableOk g r T) (a : Nat)
    (o : List Nat) (hn : o.Nodup) (ho : ∀ m, m ∈ o ↔ IsIdom g r a m) : T.checkIdb a o = true := by
  unfold DomTable.checkIdb
  simp only [Bool.and_eq_true, nodupB_iff, setEq_iff]
  refine ⟨hn, fun m => ?_⟩
  rw [ho m]
  unfold DomTable.idbOf
  simp only [List.mem_filter, idom_iff hT, hT.reach]
  exact ⟨fun h => ⟨h.1, h⟩, fun h => h.2⟩

/-! ### the judges the driver runs -/

/-- one record `b : immediate_dominator : dominators : strict_dominators : immediately_dominated_by`
of an answer satisfies every clause of the property -/
def RecCorrect (g : MGraph) (r : Nat) (rc : C16.Rec) : Prop :=
  (match rc.doms with
    | some o => Reach g r rc.b ∧ o.Nodup ∧ ∀ a, a ∈ o ↔ Dominates g r a rc.b
    | none => ¬ Reach g r rc.b) ∧
  (match rc.strict with
    | some o => Reach g r rc.b ∧ o.Nodup ∧ ∀ a, a ∈ o ↔ StrictlyDominates g r a rc.b
    | none => ¬ Reach g r rc.b) ∧
  (match rc.idom with
    | some a => IsIdom g r a rc.b
    | none => rc.b = r ∨ ¬ Reach g r rc.b) ∧
  (rc.idb.Nodup ∧ ∀ m, m ∈ rc.idb ↔ IsIdom g r rc.b m)

theorem recChecks_of_correct {g : MGraph} {r : Nat} {T : DomTable} (hT : TableOk g r T) (rc : C16.Rec)
    (h : RecCorrect g r rc) :
    T.checkDominators rc.b rc.doms = true ∧ T.checkStrict rc.b rc.strict = true ∧
    T.checkIdom rc.b rc.idom = true ∧ T.checkIdb rc.b rc.idb = true := by
  obtain ⟨h1, h2, h3, h4⟩ := h
  refine ⟨?_, ?_, ?_, checkIdb_complete hT rc.b rc.idb h4.1 h4.2⟩
  · cases hd : rc.doms with
    | none => rw [hd] at h1; exact checkDominators_none_complete hT rc.b h1
    | some o => rw [hd] at h1; exact checkDominators_complete hT rc.b o h1.1 h1.2.1 h1.2.2
  · cases hd : rc.strict with
    | none => rw [hd] at h2; exact checkStrict_none_complete hT rc.b h2
    | some o => rw [hd] at h2; exact checkStrict_complete hT rc.b o h2.1 h2.2.1 h2.2.2
  · cases hd : rc.idom with
    | none => rw [hd] at h3; exact checkIdom_none_complete hT rc.b h3
    | some a => rw [hd] at h3; exact checkIdom_complete hT rc.b a h3

theorem recCorrect_of_checks {g : MGraph} {r : Nat} {T : DomTable} (hT : TableOk g r T) (rc : C16.Rec)
    (h1 : T.checkDominators rc.b rc.doms = true) (h2 : T.checkStrict rc.b rc.strict = true)
    (h3 : T.checkIdom rc.b rc.idom = true) (h4 : T.checkIdb rc.b rc.idb = true) : RecCorrect g r rc := by
  refine ⟨?_, ?_, ?_, checkIdb_sound hT rc.b rc.idb h4⟩
  · cases hd : rc.doms with
    | none => rw [hd] at h1; exact checkDominators_none hT rc.b h1
    | some o => rw [hd] at h1; exact checkDominators_some hT rc.b o h1
  · cases hd : rc.strict with
    | none => rw [hd] at h2; exact checkStrict_none hT rc.b h2
    | some o => rw [hd] at h2; exact checkStrict_some hT rc.b o h2
  · cases hd : rc.idom with
    | none => rw [hd] at h3; exact checkIdom_none hT rc.b h3
    | some a => rw [hd] at h3; exact checkIdom_some hT rc.b a h3

/-- the judge on a given table accepts exactly the correct answers that list every node once -/
theorem judgeSfT_none_iff {g : MGraph} {r : Nat} {T : DomTable} (hT : TableOk g r T) (ir : Nat)
    (recs : List C16.Rec) :
    C16.judgeSfT T g r ir recs = none ↔
      ir = r ∧ sameSet (recs.map (·.b)) g.nodes = true ∧ ∀ rc ∈ recs, RecCorrect g r rc := by
  unfold C16.judgeSfT
  constructor
  · intro h
    split at h
    · cases h
    · rename_i hroot
      split at h
      · cases h
      · rename_i hn
        refine ⟨by simpa using hroot, by simpa using hn, fun rc hrc => ?_⟩
        have hrc' := List.findSome?_eq_none_iff.mp h rc hrc
        split at hrc'
        · cases hrc'
        · rename_i h1
          split at hrc'
          · cases hrc'
          · rename_i h2
            split at hrc'
            · cases hrc'
            · rename_i h3
              split at hrc'
              · cases hrc'
              · rename_i h4
                simp only [Bool.not_eq_true, Bool.not_eq_false'] at h1 h2 h3 h4
                exact recCorrect_of_checks hT rc h1 h2 h3 h4
  · rintro ⟨hroot, hn, hrec⟩
    have h0 : (ir != r) = false := by simpa using hroot
    rw [h0, hn]
    simp only [Bool.false_eq_true, if_false, Bool.not_true]
    apply List.findSome?_eq_none_iff.mpr
    intro rc hrc
    obtain ⟨h1, h2, h3, h4⟩ := recChecks_of_correct hT rc (hrec rc hrc)
    simp [h1, h2, h3, h4]

/-- the `ORACLE-FUEL` branch of `judgeSf` is never taken -/
theorem judgeSf_conclusive (g : MGraph) (r ir : Nat) (recs : List C16.Rec) :
    ∃ T, domTable g r = some T ∧ C16.judgeSf g r ir recs = C16.judgeSfT T g r ir recs := by
  obtain ⟨T, hT⟩ := domTable_total g r
  exact ⟨T, hT, by simp [C16.judgeSf, hT]⟩

theorem judgeSf_none_iff (g : MGraph) (r ir : Nat) (recs : List C16.Rec) :
    C16.judgeSf g r ir recs = none ↔
      ir = r ∧ sameSet (recs.map (·.b)) g.nodes = true ∧ ∀ rc ∈ recs, RecCorrect g r rc := by
  obtain ⟨T, hT, he⟩ := judgeSf_conclusive g r ir recs
  rw [he]
  exact judgeSfT_none_iff (domTable_ok hT) ir recs

/-- the `ORACLE-FUEL` branch of `judgeAp` is never taken -/
theorem judgeAp_conclusive (g : MGraph) (o : List Nat) :
    ∃ l, cutSet g = some l ∧
      C16.judgeAp g o = if checkAP g o = true then none else some (C16.apWhy o l) := by
  obtain ⟨l, hl⟩ := cutSet_total g
  exact ⟨l, hl, by simp [C16.judgeAp, hl]⟩

theorem judgeAp_none_iff (g : MGraph) (o : List Nat) :
    C16.judgeAp g o = none ↔ o.Nodup ∧ ∀ x, x ∈ o ↔ CutVertex g x := by
  obtain ⟨l, hl, he⟩ := judgeAp_conclusive g o
  rw [he]
  constructor
  · intro h
    split at h
    · rename_i hc; exact checkAP_sound g o hc
    · cases h
  · rintro ⟨hn, ho⟩
    rw [if_pos (checkAP_complete g o l hl hn ho)]

end PetgraphModel.C16P.W4
