import PetgraphModel.Proofs.C15W5Defs
/-
C15 wave 5 — Berge's theorem, part 1: elementary facts about matchings given as lists of node
pairs (the symmetric relation `InM`, uniqueness of mates, erasing a pair, deleting nodes from the
graph, the list of endpoints and the pigeonhole step).  Core Lean only.
-/
namespace PetgraphModel.C15W5
open PetgraphModel PetgraphModel.C15

/-! ### `Joined`, `Disjoint2`, `InM` -/

theorem joined_symm {g : MGraph} {a b : Nat} (h : Joined g a b) : Joined g b a := by
  obtain ⟨hne, e, he, h⟩ := h
  exact ⟨fun h => hne h.symm, e, he, h.symm⟩

theorem joined_ne {g : MGraph} {a b : Nat} (h : Joined g a b) : a ≠ b := h.1

theorem disjoint2_symm {p q : Nat × Nat} (h : Disjoint2 p q) : Disjoint2 q p := by
  obtain ⟨h1, h2, h3, h4⟩ := h
  exact ⟨fun h => h1 h.symm, fun h => h3 h.symm, fun h => h2 h.symm, fun h => h4 h.symm⟩

theorem inM_symm {M : List (Nat × Nat)} {a b : Nat} (h : InM M a b) : InM M b a :=
  h.elim Or.inr Or.inl

theorem inM_comm {M : List (Nat × Nat)} {a b : Nat} : InM M a b ↔ InM M b a :=
  ⟨inM_symm, inM_symm⟩

theorem covered_of_inM {M : List (Nat × Nat)} {a b : Nat} (h : InM M a b) : Covered M a := ⟨b, h⟩

theorem covered_of_inM' {M : List (Nat × Nat)} {a b : Nat} (h : InM M a b) : Covered M b :=
  ⟨a, inM_symm h⟩

/-- two different members of a pairwise-`R` list are related, for symmetric `R` -/
theorem pairwise_rel_of_ne {α : Type} {R : α → α → Prop} (hs : ∀ x y, R x y → R y x) {l : List α}
    (h : l.Pairwise R) {x y : α} (hx : x ∈ l) (hy : y ∈ l) (hne : x ≠ y) : R x y := by
  induction h with
  | nil => cases hx
  | cons hal _ ih =>
    rcases List.mem_cons.1 hx with rfl | hx'
    · rcases List.mem_cons.1 hy with rfl | hy'
      · exact absurd rfl hne
      · exact hal _ hy'
    · rcases List.mem_cons.1 hy with rfl | hy'
      · exact hs _ _ (hal _ hx')
      · exact ih hx' hy'

/-! ### facts about a matching -/

section matching
variable {g : MGraph} {M : List (Nat × Nat)}

theorem m_disj (hM : IsMatching g M) {p q : Nat × Nat} (hp : p ∈ M) (hq : q ∈ M)
    (hne : p ≠ q) : Disjoint2 p q :=
  pairwise_rel_of_ne (fun _ _ => disjoint2_symm) hM.2 hp hq hne

theorem m_nodup (hM : IsMatching g M) : M.Nodup := by
  refine List.Pairwise.imp ?_ hM.2
  intro p q h heq
  subst heq
  exact h.1 rfl

theorem m_joined (hM : IsMatching g M) {a b : Nat} (h : InM M a b) : Joined g a b := by
  rcases h with h | h
  · exact hM.1 _ h
  · exact joined_symm (hM.1 _ h)

theorem m_ne (hM : IsMatching g M) {a b : Nat} (h : InM M a b) : a ≠ b :=
  (m_joined hM h).1

theorem m_unique (hM : IsMatching g M) {a b c : Nat} (h1 : InM M a b) (h2 : InM M a c) :
    b = c := by
  have hab := m_ne hM h1
  have hac := m_ne hM h2
  rcases h1 with h1 | h1 <;> rcases h2 with h2 | h2
  · by_cases heq : ((a, b) : Nat × Nat) = (a, c)
    · exact (Prod.mk.inj heq).2
    · exact absurd rfl (m_disj hM h1 h2 heq).1
  · by_cases heq : ((a, b) : Nat × Nat) = (c, a)
    · have := Prod.mk.inj heq
      exact absurd this.2.symm hab
    · exact absurd rfl (m_disj hM h1 h2 heq).2.1
  · by_cases heq : ((b, a) : Nat × Nat) = (a, c)
    · have := Prod.mk.inj heq
      exact absurd this.1.symm hab
    · exact absurd rfl (m_disj hM h1 h2 heq).2.2.1
  · by_cases heq : ((b, a) : Nat × Nat) = (c, a)
    · exact (Prod.mk.inj heq).1
    · exact absurd rfl (m_disj hM h1 h2 heq).2.2.2

theorem m_unique' (hM : IsMatching g M) {a b c : Nat} (h1 : InM M b a) (h2 : InM M c a) :
    b = c := m_unique hM (inM_symm h1) (inM_symm h2)

theorem m_sublist (hM : IsMatching g M) {M' : List (Nat × Nat)} (h : M'.Sublist M) :
    IsMatching g M' :=
  ⟨fun p hp => hM.1 p (h.subset hp), List.Pairwise.sublist h hM.2⟩

theorem m_erase (hM : IsMatching g M) (e : Nat × Nat) : IsMatching g (M.erase e) :=
  m_sublist hM List.erase_sublist

/-- after erasing a pair of a matching exactly the other pairs remain, and they avoid its nodes -/
theorem m_inM_erase_iff (hM : IsMatching g M) {e : Nat × Nat} (he : e ∈ M) {a b : Nat} :
    InM (M.erase e) a b ↔ InM M a b ∧ a ≠ e.1 ∧ a ≠ e.2 := by
  unfold InM
  rw [(m_nodup hM).mem_erase_iff, (m_nodup hM).mem_erase_iff]
  constructor
  · rintro (⟨hne, h⟩ | ⟨hne, h⟩)
    · have hd := m_disj hM h he hne
      exact ⟨Or.inl h, hd.1, hd.2.1⟩
    · have hd := m_disj hM h he hne
      exact ⟨Or.inr h, hd.2.2.1, hd.2.2.2⟩
  · rintro ⟨h | h, h1, h2⟩
    · refine Or.inl ⟨?_, h⟩
      intro heq
      exact h1 (by rw [← heq])
    · refine Or.inr ⟨?_, h⟩
      intro heq
      exact h2 (by rw [← heq])

theorem m_inM_erase_iff' (hM : IsMatching g M) {e : Nat × Nat} (he : e ∈ M) {a b : Nat} :
    InM (M.erase e) a b ↔ InM M a b ∧ a ≠ e.1 ∧ a ≠ e.2 ∧ b ≠ e.1 ∧ b ≠ e.2 := by
  constructor
  · intro h
    have h1 := (m_inM_erase_iff hM he).1 h
    have h2 := (m_inM_erase_iff hM he).1 (inM_symm h)
    exact ⟨h1.1, h1.2.1, h1.2.2, h2.2.1, h2.2.2⟩
  · intro h
    exact (m_inM_erase_iff hM he).2 ⟨h.1, h.2.1, h.2.2.1⟩

/-- the list pair behind `InM` -/
theorem exists_pair_of_inM {a b : Nat} (h : InM M a b) :
    ∃ e, e ∈ M ∧ ((e.1 = a ∧ e.2 = b) ∨ (e.1 = b ∧ e.2 = a)) := by
  rcases h with h | h
  · exact ⟨(a, b), h, Or.inl ⟨rfl, rfl⟩⟩
  · exact ⟨(b, a), h, Or.inr ⟨rfl, rfl⟩⟩

theorem length_erase_add_one {e : Nat × Nat} (he : e ∈ M) : (M.erase e).length + 1 = M.length := by
  rw [List.length_erase_of_mem he]
  have : 0 < M.length := List.length_pos_of_mem he
  omega

end matching

/-! ### deleting nodes from the graph -/

/-- the graph without the edges that meet `X` -/
def del (g : MGraph) (X : List Nat) : MGraph :=
  { g with edges := g.edges.filter fun e => decide (e.src ∉ X ∧ e.tgt ∉ X) }

theorem joined_del_iff {g : MGraph} {X : List Nat} {a b : Nat} :
    Joined (del g X) a b ↔ Joined g a b ∧ a ∉ X ∧ b ∉ X := by
  unfold Joined JoinedIn del
  simp only [List.mem_filter, decide_eq_true_eq]
  constructor
  · rintro ⟨hne, e, ⟨he, h1, h2⟩, h | h⟩
    · exact ⟨⟨hne, e, he, Or.inl h⟩, h.1 ▸ h1, h.2 ▸ h2⟩
    · exact ⟨⟨hne, e, he, Or.inr h⟩, h.2 ▸ h2, h.1 ▸ h1⟩
  · rintro ⟨⟨hne, e, he, h | h⟩, ha, hb⟩
    · exact ⟨hne, e, ⟨he, h.1 ▸ ha, h.2 ▸ hb⟩, Or.inl h⟩
    · exact ⟨hne, e, ⟨he, h.1 ▸ hb, h.2 ▸ ha⟩, Or.inr h⟩

theorem joined_of_del {g : MGraph} {X : List Nat} {a b : Nat} (h : Joined (del g X) a b) :
    Joined g a b := (joined_del_iff.1 h).1

/-- a matching that avoids `X` is a matching of the graph without `X` -/
theorem m_del {g : MGraph} {M : List (Nat × Nat)} (hM : IsMatching g M) (X : List Nat)
    (h : ∀ a, Covered M a → a ∉ X) : IsMatching (del g X) M := by
  refine ⟨fun p hp => joined_del_iff.2 ⟨hM.1 p hp, ?_, ?_⟩, hM.2⟩
  · exact h _ ⟨p.2, Or.inl hp⟩
  · exact h _ ⟨p.1, Or.inr hp⟩

/-! ### alternating paths: transfer between graphs and matchings -/

theorem altFrom_transfer {g g' : MGraph} {M M' : List (Nat × Nat)}
    (hg : ∀ a b, Joined g' a b → Joined g a b) :
    ∀ (p : List Nat) (m : Bool), (∀ a b, a ∈ p → b ∈ p → (InM M' a b ↔ InM M a b)) →
      AltFrom g' M' m p → AltFrom g M m p
  | [], _, _, _ => trivial
  | [_], _, _, _ => trivial
  | a :: b :: r, m, hI, h => by
    obtain ⟨h1, h2, h3⟩ := h
    refine ⟨hg _ _ h1, ?_, ?_⟩
    · rw [← hI a b (by simp) (by simp)]; exact h2
    · exact altFrom_transfer hg (b :: r) (!m)
        (fun x y hx hy => hI x y (List.mem_cons_of_mem _ hx) (List.mem_cons_of_mem _ hy)) h3

/-- every node of a path with at least one edge in the graph without `X` is outside `X` -/
theorem altFrom_del_notMem {g : MGraph} {X : List Nat} {M : List (Nat × Nat)} :
    ∀ (p : List Nat) (m : Bool), 2 ≤ p.length → AltFrom (del g X) M m p → ∀ a ∈ p, a ∉ X
  | [], _, h2, _ => by simp at h2
  | [_], _, h2, _ => by simp at h2
  | [a, b], _, _, h => by
    intro x hx
    have := joined_del_iff.1 h.1
    simp at hx
    rcases hx with rfl | rfl
    · exact this.2.1
    · exact this.2.2
  | a :: b :: c :: r, m, _, h => by
    intro x hx
    have := joined_del_iff.1 h.1
    rcases List.mem_cons.1 hx with rfl | hx
    · exact this.2.1
    · exact altFrom_del_notMem (b :: c :: r) (!m) (by simp) h.2.2 x hx

/-! ### the list of endpoints and the pigeonhole step -/

/-- the endpoints of the pairs -/
def ends : List (Nat × Nat) → List Nat
  | [] => []
  | q :: M => q.1 :: q.2 :: ends M

theorem ends_length : ∀ M : List (Nat × Nat), (ends M).length = 2 * M.length
  | [] => rfl
  | _ :: M => by simp [ends, ends_length M]; omega

theorem mem_ends {a : Nat} : ∀ {M : List (Nat × Nat)}, a ∈ ends M ↔ Covered M a
  | [] => by simp [ends, Covered, InM]
  | q :: M => by
    have ih := @mem_ends a M
    simp only [ends, List.mem_cons, ih]
    constructor
    · rintro (rfl | rfl | ⟨b, hb⟩)
      · exact ⟨q.2, Or.inl (List.mem_cons_self ..)⟩
      · exact ⟨q.1, Or.inr (List.mem_cons_self ..)⟩
      · exact ⟨b, hb.elim (fun h => Or.inl (List.mem_cons_of_mem _ h))
          (fun h => Or.inr (List.mem_cons_of_mem _ h))⟩
    · rintro ⟨b, hb | hb⟩
      · rcases List.mem_cons.1 hb with h | h
        · left; rw [← h]
        · right; right; exact ⟨b, Or.inl h⟩
      · rcases List.mem_cons.1 hb with h | h
        · right; left; rw [← h]
        · right; right; exact ⟨b, Or.inr h⟩

theorem ends_nodup {g : MGraph} : ∀ {M : List (Nat × Nat)}, IsMatching g M → (ends M).Nodup
  | [], _ => List.nodup_nil
  | q :: M, hM => by
    have hM' : IsMatching g M := m_sublist hM (List.sublist_cons_self _ _)
    have ih := ends_nodup hM'
    have hq : ∀ q' ∈ M, Disjoint2 q q' := fun _ h => List.rel_of_pairwise_cons hM.2 h
    have hne : q.1 ≠ q.2 := (hM.1 q (List.mem_cons_self ..)).1
    have hfree : ∀ x, (x = q.1 ∨ x = q.2) → x ∉ ends M := by
      intro x hx hmem
      obtain ⟨b, hb⟩ := mem_ends.1 hmem
      rcases hb with hb | hb
      · have := hq _ hb
        rcases hx with rfl | rfl
        · exact this.1 rfl
        · exact this.2.2.1 rfl
      · have := hq _ hb
        rcases hx with rfl | rfl
        · exact this.2.1 rfl
        · exact this.2.2.2 rfl
    simp only [ends, List.nodup_cons, List.mem_cons, not_or]
    exact ⟨⟨hne, hfree _ (Or.inl rfl)⟩, hfree _ (Or.inr rfl), ih⟩

/-- a larger matching covers a node the smaller one does not -/
theorem exists_covered_not_covered {g : MGraph} {M N : List (Nat × Nat)} (hN : IsMatching g N)
    (hlt : M.length < N.length) : ∃ u, Covered N u ∧ ¬ Covered M u := by
  apply Classical.byContradiction
  intro hno
  have hsub : ends N ⊆ ends M := by
    intro a ha
    apply Classical.byContradiction
    intro hna
    exact hno ⟨a, mem_ends.1 ha, fun h => hna (mem_ends.2 h)⟩
  have := (ends_nodup hN).length_le_of_subset hsub
  rw [ends_length, ends_length] at this
  omega

end PetgraphModel.C15W5
