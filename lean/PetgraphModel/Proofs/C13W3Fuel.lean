import PetgraphModel.Proofs.C13W2Iso
/-
C13, wave 3 — the fuel of the `while let` loop as a PARAMETER.

`Model/C13Vf2.lean` hard-wires `bigFuel` into `tryMatch` / `iterLoop`.  Here the same wrappers are defined over
an arbitrary fuel (`tryMatchF`, `isoModelF`, `subModelF`, `iterLoopF`, `iterModelF`), the model's wrappers are
shown to be the instances at `bigFuel` (all by `rfl` / a one-line induction), and the loop is shown to be
monotone in its fuel: once a run ends within `fuel` iterations, every larger fuel gives the same answer.
-/
namespace PetgraphModel.C13.Vf2
open PetgraphModel

/- `tryMatchF`, `isoModelF`, `subModelF`, `iterLoopF`, `iterModelF` are defined in `Model/C13Vf2Side.lean`. -/

theorem tryMatch_eq_F (I : Inst) (sub : Bool) : tryMatch I sub = tryMatchF I sub bigFuel := rfl

theorem isoModel_eq_F (I : Inst) : isoModel I = isoModelF I bigFuel := rfl

theorem subModel_eq_F (I : Inst) : subModel I = subModelF I bigFuel := rfl

theorem iterLoop_eq_F (I : Inst) : ∀ (k : Nat) (m : M) (acc : List (List Nat)),
    iterLoop I k m acc = iterLoopF I bigFuel k m acc := by
  intro k
  induction k with
  | zero => intro m acc; rfl
  | succ k ih =>
    intro m acc
    unfold iterLoop iterLoopF
    split <;> simp_all

theorem iterModel_eq_F (I : Inst) : iterModel I = iterModelF I bigFuel := by
  unfold iterModel iterModelF
  rw [iterLoop_eq_F]

/-! ### fuel monotonicity -/

theorem isoLoop_mono {I : Inst} {sub : Bool} : ∀ (fuel : Nat) (m : M) (result : Result) (x : M × Result),
    isoLoop I sub fuel m result = some x → ∀ fuel', fuel ≤ fuel' → isoLoop I sub fuel' m result = some x := by
  intro fuel
  induction fuel with
  | zero => intro m result x h; simp [isoLoop] at h
  | succ fuel ih =>
    intro m result x h fuel' hle
    obtain ⟨f', rfl⟩ : ∃ f', fuel' = f' + 1 := ⟨fuel' - 1, by omega⟩
    rw [isoLoop] at h ⊢
    split
    · rename_i hs
      rw [hs] at h
      exact h
    · rename_i fr rest hs
      rw [hs] at h
      simp only at h ⊢
      split
      · rename_i hc
        rw [if_pos hc] at h
        exact h
      · rename_i hc
        rw [if_neg hc] at h
        exact ih _ _ _ h f' (by omega)

/-- once `isomorphisms()` ends within `fuel` loop iterations, more fuel changes nothing -/
theorem isomorphisms_mono {I : Inst} {sub : Bool} {fuel fuel' : Nat} {m : M} {x : M × Result}
    (h : isomorphisms I sub fuel m = some x) (hle : fuel ≤ fuel') : isomorphisms I sub fuel' m = some x := by
  unfold isomorphisms at h ⊢
  split
  · rename_i hc
    rw [if_pos hc] at h
    exact h
  · rename_i hc
    rw [if_neg hc] at h
    exact isoLoop_mono _ _ _ _ h _ hle

end PetgraphModel.C13.Vf2
