import PetgraphModel.Proofs.C13W2Top
/-
C13, wave 2 — back to the specification: every embedding (`Embeds`) of the problem an instance poses is a valid
complete mapping (`Final`) of the model, so completeness of the model reads "every embedding is yielded" and
"`false` / `None` only if the definition says so".
-/
namespace PetgraphModel.C13.Vf2
open PetgraphModel

/-- the `mapping` vector of a function on the nodes of g0 -/
def vecOf (I : Inst) (f : Nat → Nat) : List (Option Nat) := (List.range I.g0.n).map fun i => some (f i)

theorem vecOf_get {I : Inst} {f : Nat → Nat} {i : Nat} (hi : i < I.g0.n) : (vecOf I f)[i]? = some (some (f i)) := by
  simp [vecOf, hi]

theorem vecOf_getD {I : Inst} {f : Nat → Nat} {i j : Nat} (h : ((vecOf I f)[i]?).getD none = some j) :
    i < I.g0.n ∧ f i = j := by
  by_cases hi : i < I.g0.n
  · rw [vecOf_get hi] at h
    simp only [Option.getD_some, Option.some.injEq] at h
    exact ⟨hi, h⟩
  · rw [List.getElem?_eq_none (by simp [vecOf]; omega)] at h
    cases h

theorem ew_some_of_adj {g : CG} (ok : CGOk g) {a b : Nat} (h : g.adj a b = true) :
    ∃ w, g.ew a b = some w ∧ (⟨0, a, b, w⟩ : Edge) ∈ g.toMGraph.edges := by
  obtain ⟨p, hp, rfl⟩ := mem_outN.mp ((adj_iff _ _ _).mp h)
  have hb : p.1 ∈ g.outN a := mem_outN.mpr ⟨p, hp, rfl⟩
  exact ⟨p.2, ew_of_mem ok hp, mem_toMGraph_edges.mpr ⟨a, (ok.outLt a p.1 hb).1, p, hp, rfl⟩⟩

/-- an embedding in the sense of the specification is a valid complete mapping of the model -/
theorem Final.of_embeds {I : Inst} (ok0 : CGOk I.g0) (ok1 : CGOk I.g1) {f : Nat → Nat}
    (e : Embeds I.problem f) : Final I (vecOf I f) := by
  have hnodes0 : ∀ a, a ∈ I.problem.g0.nodes ↔ a < I.g0.n := by
    intro a; simp [Inst.problem, CG.toMGraph]
  have hnodes1 : ∀ a, a ∈ I.problem.g1.nodes ↔ a < I.g1.n := by
    intro a; simp [Inst.problem, CG.toMGraph]
  have hadj : ∀ i i', i < I.g0.n → i' < I.g0.n → I.g0.adj i i' = I.g1.adj (f i) (f i') := by
    intro i i' hi hi'
    apply Bool.eq_of_iff'
    rw [← adj_toMGraph ok0, ← adj_toMGraph ok1]
    exact e.adj i ((hnodes0 i).mpr hi) i' ((hnodes0 i').mpr hi')
  refine ⟨by simp [vecOf], ?_, ?_, ⟨?_, ?_, ?_⟩⟩
  · intro i hi
    exact ⟨f i, vecOf_get hi, (hnodes1 _).mp (e.mapsTo i ((hnodes0 i).mpr hi))⟩
  · intro i i' j h h'
    have a := vecOf_getD (I := I) (f := f) (i := i) (j := j) (by rw [h]; rfl)
    have b := vecOf_getD (I := I) (f := f) (i := i') (j := j) (by rw [h']; rfl)
    exact e.inj i ((hnodes0 i).mpr a.1) i' ((hnodes0 i').mpr b.1) (by rw [a.2, b.2])
  · intro i j i' j' h h'
    obtain ⟨hi, rfl⟩ := vecOf_getD h
    obtain ⟨hi', rfl⟩ := vecOf_getD h'
    exact hadj i i' hi hi'
  · intro hs i j h
    obtain ⟨hi, rfl⟩ := vecOf_getD h
    have := e.nodeOk i ((hnodes0 i).mpr hi)
    simpa [Inst.problem, hs] using this
  · intro hs i j i' j' h h' ha
    obtain ⟨hi, rfl⟩ := vecOf_getD h
    obtain ⟨hi', rfl⟩ := vecOf_getD h'
    obtain ⟨w0, hw0, he0⟩ := ew_some_of_adj ok0 ha
    have ha1 : I.g1.adj (f i) (f i') = true := by rw [← hadj i i' hi hi']; exact ha
    obtain ⟨w1, hw1, he1⟩ := ew_some_of_adj ok1 ha1
    have := e.edgeOk ⟨0, i, i', w0⟩ he0 ⟨0, f i, f i', w1⟩ he1 (Or.inl ⟨rfl, rfl⟩)
    unfold edgeEq
    rw [hw0, hw1]
    simpa [Inst.problem, hs] using this

theorem fval_vecOf {I : Inst} {f : Nat → Nat} {i : Nat} (hi : i < I.g0.n) : fval (vecOf I f) i = f i :=
  fval_of (vecOf_get hi)

/-! ### `try_match` in subgraph mode -/

/-- `is_isomorphic_subgraph[_matching]` of the model answers `false` only if there is no valid complete mapping
(the first `next()` call must not run out of fuel) -/
theorem subModel_complete {I : Inst} (ok0 : CGOk I.g0) (ok1 : CGOk I.g1) (hd : I.g0.directed = I.g1.directed)
    (hin : I.g0.directed = true → ∀ i, (I.g0.inNb i).Nodup) (hn : 0 < I.g0.n)
    (e0 : ECountOk I.g0) (e1 : ECountOk I.g1)
    (hfuel : (isomorphisms I true bigFuel (M.init I)).isSome = true)
    (h : subModel I = false) : ¬ ∃ mp, Final I mp := by
  rintro ⟨mp, hf⟩
  unfold subModel at h
  split at h
  · rename_i hc
    simp only [Bool.or_eq_true, decide_eq_true_eq] at hc
    have := hf.node_count_le
    have := hf.ecount_le ok0 ok1 hd e0 e1
    omega
  · unfold tryMatch at h
    have tinit : TInv I (M.init I) := by
      refine ⟨rfl, rfl, ?_, ?_⟩
      · intro fr hfr; simp [M.init] at hfr
      · show FrOk I [Frame.outer]
        simp [FrOk]
    have hinc : (M.init I).s0.isComplete = false := by
      show (St.new I.g0).isComplete = false
      simp only [St.isComplete, St.new, List.length_replicate, beq_eq_false_iff_ne, ne_eq]
      omega
    cases hiso : isomorphisms I true bigFuel (M.init I) with
    | none => rw [hiso] at hfuel; cases hfuel
    | some pr =>
      obtain ⟨m', r⟩ := pr
      rw [hiso] at h
      cases r with
      | some x => cases h
      | none =>
        have post := isomorphisms_pending ok0 ok1 hd hin hn (ExtT.sizesOkS_sub ok0 ok1 hd) (init_inv I) tinit hinc hiso
        have hst := post.done rfl
        have hp : Pending I mp (M.init I).stack := by
          show Pending I mp [Frame.outer]
          simp only [Pending, trailOf_nil, List.length_nil]
          exact Or.inl ⟨fun p hp => (by cases hp), hn⟩
        have := ((post.pend mp hf).1).mpr hp
        rw [hst] at this
        rcases this with h' | h'
        · exact h'
        · cases h'

end PetgraphModel.C13.Vf2
