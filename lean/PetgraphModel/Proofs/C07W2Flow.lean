import PetgraphModel.Proofs.C07W2Base
import PetgraphModel.Spec.C15
import PetgraphModel.Proofs.C12Min
/-
C07, wave 2 — cuts, flows and the max-flow / min-cut value (C15) under a change of presentation and
under an injective relabeling.

`cutCap` reads a directed graph through the multiset of `(src, tgt, capacity)` triples of its edges
(`ekey`), so edge ids and the order of the edge list are irrelevant; `SameCaps` says two graphs have
the same such multiset.
-/
namespace PetgraphModel.C07W2
open PetgraphModel PetgraphModel.MGraph PetgraphModel.C15

/-! ### sums -/

theorem esum_eq_sum (f : Edge → Int) : ∀ l : List Edge, esum f l = (l.map f).sum
  | [] => rfl
  | e :: r => by simp [esum, esum_eq_sum f r]

theorem esum_congr {f g : Edge → Int} : ∀ {l : List Edge}, (∀ e ∈ l, f e = g e) → esum f l = esum g l
  | [], _ => rfl
  | e :: r, h => by
    simp only [esum]
    rw [h e (List.mem_cons_self ..), esum_congr fun x hx => h x (List.mem_cons_of_mem _ hx)]

theorem esum_map (f : Edge → Int) (r : Edge → Edge) : ∀ l : List Edge, esum f (l.map r) = esum (fun e => f (r e)) l
  | [] => rfl
  | e :: l => by simp [esum, esum_map f r l]

/-- `(src, tgt, capacity)` of an edge -/
def ekey (e : Edge) : Nat × Nat × Int := (e.src, e.tgt, e.w)

/-- the same multiset of capacitated arcs -/
def SameCaps (g1 g2 : MGraph) : Prop := (g1.edges.map ekey).Perm (g2.edges.map ekey)

theorem SameCaps.symm {g1 g2 : MGraph} (h : SameCaps g1 g2) : SameCaps g2 g1 := List.Perm.symm h

theorem SameCaps.of_perm {g1 g2 : MGraph} (h : g1.edges.Perm g2.edges) : SameCaps g1 g2 := h.map _

theorem cutCap_eq_keys (g : MGraph) (S : List Nat) :
    cutCap g S = ((g.edges.map ekey).map fun k => if k.1 ∈ S ∧ k.2.1 ∉ S then k.2.2 else 0).sum := by
  unfold cutCap
  rw [esum_eq_sum, List.map_map]
  rfl

/-- the capacity of a cut depends only on the multiset of capacitated arcs -/
theorem cutCap_congr {g1 g2 : MGraph} (h : SameCaps g1 g2) (S : List Nat) : cutCap g1 S = cutCap g2 S := by
  rw [cutCap_eq_keys, cutCap_eq_keys]
  exact MST.sum_perm_int (h.map _)

/-! ### the min-cut value -/

/-- `c` is the capacity of a minimum `s`-`t` cut -/
def IsMinCutValue (g : MGraph) (s t : Nat) (c : Int) : Prop :=
  (∃ S : List Nat, IsCut s t S ∧ cutCap g S = c) ∧ ∀ S : List Nat, IsCut s t S → c ≤ cutCap g S

theorem isMinCutValue_unique {g : MGraph} {s t : Nat} {c c' : Int} (h : IsMinCutValue g s t c)
    (h' : IsMinCutValue g s t c') : c = c' := by
  obtain ⟨⟨S, hS, rfl⟩, hmin⟩ := h
  obtain ⟨⟨S', hS', rfl⟩, hmin'⟩ := h'
  have h1 := hmin S' hS'
  have h2 := hmin' S hS
  omega

theorem isMinCutValue_congr {g1 g2 : MGraph} (h : SameCaps g1 g2) {s t : Nat} {c : Int} :
    IsMinCutValue g1 s t c ↔ IsMinCutValue g2 s t c := by
  unfold IsMinCutValue
  constructor
  · rintro ⟨⟨S, hS, hc⟩, hmin⟩
    exact ⟨⟨S, hS, by rw [← cutCap_congr h]; exact hc⟩, fun S' hS' => by rw [← cutCap_congr h]; exact hmin S' hS'⟩
  · rintro ⟨⟨S, hS, hc⟩, hmin⟩
    exact ⟨⟨S, hS, by rw [cutCap_congr h]; exact hc⟩, fun S' hS' => by rw [cutCap_congr h]; exact hmin S' hS'⟩

section
variable {φ : Nat → Nat} (hφ : Inj φ) (g : MGraph)
include hφ

/-- the image of a cut has the same capacity in the relabeled graph -/
theorem cutCap_relabel_map (S : List Nat) : cutCap (relabel φ g) (S.map φ) = cutCap g S := by
  unfold cutCap
  rw [relabel_edges, esum_map]
  refine esum_congr ?_
  intro e _
  simp only [mem_map_inj hφ]

/-- the part of a cut of the relabeled graph that matters, pulled back -/
def pullCut (φ : Nat → Nat) (g : MGraph) (s t : Nat) (S' : List Nat) : List Nat :=
  (s :: t :: g.edges.flatMap fun e => [e.src, e.tgt]).filter fun x => decide (φ x ∈ S')

omit hφ in
theorem mem_pullCut_edge {s t : Nat} {S' : List Nat} {e : Edge} (he : e ∈ g.edges) :
    (e.src ∈ pullCut φ g s t S' ↔ φ e.src ∈ S') ∧ (e.tgt ∈ pullCut φ g s t S' ↔ φ e.tgt ∈ S') := by
  unfold pullCut
  have h1 : e.src ∈ s :: t :: g.edges.flatMap fun e => [e.src, e.tgt] :=
    List.mem_cons_of_mem _ (List.mem_cons_of_mem _ (List.mem_flatMap.mpr ⟨e, he, by simp⟩))
  have h2 : e.tgt ∈ s :: t :: g.edges.flatMap fun e => [e.src, e.tgt] :=
    List.mem_cons_of_mem _ (List.mem_cons_of_mem _ (List.mem_flatMap.mpr ⟨e, he, by simp⟩))
  simp only [List.mem_filter, decide_eq_true_eq, h1, h2, true_and]

omit hφ in
theorem cutCap_pullCut (s t : Nat) (S' : List Nat) :
    cutCap g (pullCut φ g s t S') = cutCap (relabel φ g) S' := by
  unfold cutCap
  rw [relabel_edges, esum_map]
  refine esum_congr ?_
  intro e he
  obtain ⟨h1, h2⟩ := mem_pullCut_edge (φ := φ) g (s := s) (t := t) (S' := S') he
  simp only [h1, h2]

omit hφ in
theorem isCut_pullCut {s t : Nat} {S' : List Nat} (h : IsCut (φ s) (φ t) S') :
    IsCut s t (pullCut φ g s t S') := by
  unfold IsCut pullCut
  simp only [List.mem_filter, decide_eq_true_eq, List.mem_cons, true_or, or_true, true_and]
  exact ⟨h.1, h.2⟩

theorem isCut_map {s t : Nat} {S : List Nat} (h : IsCut s t S) : IsCut (φ s) (φ t) (S.map φ) :=
  ⟨(mem_map_inj hφ).mpr h.1, fun hh => h.2 ((mem_map_inj hφ).mp hh)⟩

/-- **the min-cut value is carried along by an injective relabeling** -/
theorem isMinCutValue_relabel_iff (s t : Nat) (c : Int) :
    IsMinCutValue (relabel φ g) (φ s) (φ t) c ↔ IsMinCutValue g s t c := by
  unfold IsMinCutValue
  constructor
  · rintro ⟨⟨S', hS', hc⟩, hmin⟩
    refine ⟨⟨pullCut φ g s t S', isCut_pullCut g hS', by rw [cutCap_pullCut]; exact hc⟩, ?_⟩
    intro S hS
    rw [← cutCap_relabel_map hφ g S]
    exact hmin _ (isCut_map hφ hS)
  · rintro ⟨⟨S, hS, hc⟩, hmin⟩
    refine ⟨⟨S.map φ, isCut_map hφ hS, by rw [cutCap_relabel_map hφ]; exact hc⟩, ?_⟩
    intro S' hS'
    rw [← cutCap_pullCut g s t S']
    exact hmin _ (isCut_pullCut g hS')

/-! ### flows -/

theorem outflow_relabel (f : Nat → Int) (x : Nat) : outflow (relabel φ g) f (φ x) = outflow g f x := by
  unfold outflow
  rw [relabel_edges, esum_map]
  refine esum_congr ?_
  intro e _
  by_cases h : e.src = x
  · simp [h]
  · have : φ e.src ≠ φ x := fun h' => h (hφ _ _ h')
    simp [h, this]

theorem inflow_relabel (f : Nat → Int) (x : Nat) : inflow (relabel φ g) f (φ x) = inflow g f x := by
  unfold inflow
  rw [relabel_edges, esum_map]
  refine esum_congr ?_
  intro e _
  by_cases h : e.tgt = x
  · simp [h]
  · have : φ e.tgt ≠ φ x := fun h' => h (hφ _ _ h')
    simp [h, this]

theorem excess_relabel (f : Nat → Int) (x : Nat) : excess (relabel φ g) f (φ x) = excess g f x := by
  unfold excess; rw [outflow_relabel hφ, inflow_relabel hφ]

omit hφ in
theorem flow_zero_off_image (f : Nat → Int) (y : Nat) (hy : ∀ x, y ≠ φ x) :
    outflow (relabel φ g) f y = 0 ∧ inflow (relabel φ g) f y = 0 := by
  unfold outflow inflow
  rw [relabel_edges, esum_map, esum_map]
  have z : ∀ l : List Edge, esum (fun _ => (0 : Int)) l = 0 := by
    intro l; induction l with
    | nil => rfl
    | cons e r ih => simp [esum, ih]
  constructor
  · refine Eq.trans (esum_congr ?_) (z g.edges)
    intro e _
    have : φ e.src ≠ y := fun h => hy e.src h.symm
    simp [this]
  · refine Eq.trans (esum_congr ?_) (z g.edges)
    intro e _
    have : φ e.tgt ≠ y := fun h => hy e.tgt h.symm
    simp [this]

open Classical in
/-- **feasible flows are carried along by an injective relabeling** (the flow is a function of the
edge id, which relabeling keeps), with their value -/
theorem feasible_relabel_iff (s t : Nat) (f : Nat → Int) :
    Feasible (relabel φ g) (φ s) (φ t) f ↔ Feasible g s t f := by
  constructor
  · intro h
    refine ⟨?_, ?_⟩
    · intro e he
      exact h.cap { e with src := φ e.src, tgt := φ e.tgt } ((mem_relabel_edges φ g).mpr ⟨e, he, rfl⟩)
    · intro x hs ht
      have := h.cons (φ x) (fun h' => hs (hφ _ _ h')) (fun h' => ht (hφ _ _ h'))
      rwa [inflow_relabel hφ, outflow_relabel hφ] at this
  · intro h
    refine ⟨?_, ?_⟩
    · intro e' he'
      obtain ⟨e, he, rfl⟩ := (mem_relabel_edges φ g).mp he'
      exact h.cap e he
    · intro y hs ht
      by_cases hy : ∃ x, y = φ x
      · obtain ⟨x, rfl⟩ := hy
        rw [inflow_relabel hφ, outflow_relabel hφ]
        exact h.cons x (fun h' => hs (by rw [h'])) (fun h' => ht (by rw [h']))
      · have := flow_zero_off_image g f y (fun x hx => hy ⟨x, hx⟩)
        rw [this.1, this.2]

end

/-- `v` is the value of a maximum `s`-`t` flow -/
def IsMaxFlowValue (g : MGraph) (s t : Nat) (v : Int) : Prop :=
  (∃ f, Feasible g s t f ∧ excess g f s = v) ∧ ∀ f', Feasible g s t f' → excess g f' s ≤ v

/-- **the max-flow value is carried along by an injective relabeling** -/
theorem isMaxFlowValue_relabel_iff {φ : Nat → Nat} (hφ : Inj φ) (g : MGraph) (s t : Nat) (v : Int) :
    IsMaxFlowValue (relabel φ g) (φ s) (φ t) v ↔ IsMaxFlowValue g s t v := by
  unfold IsMaxFlowValue
  constructor
  · rintro ⟨⟨f, hf, hv⟩, hmax⟩
    refine ⟨⟨f, (feasible_relabel_iff hφ g s t f).mp hf, by rw [← excess_relabel hφ]; exact hv⟩, ?_⟩
    intro f' hf'
    rw [← excess_relabel hφ g f' s]
    exact hmax f' ((feasible_relabel_iff hφ g s t f').mpr hf')
  · rintro ⟨⟨f, hf, hv⟩, hmax⟩
    refine ⟨⟨f, (feasible_relabel_iff hφ g s t f).mpr hf, by rw [excess_relabel hφ]; exact hv⟩, ?_⟩
    intro f' hf'
    rw [excess_relabel hφ g f' s]
    exact hmax f' ((feasible_relabel_iff hφ g s t f').mp hf')

end PetgraphModel.C07W2
