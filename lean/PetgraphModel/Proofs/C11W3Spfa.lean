import PetgraphModel.Proofs.C11Models
/-
C11, wave 3 — `spfa`: a single iff `Err ↔ a negative cycle is reachable` from ONE input-side bound.

The bound cannot be linear in `|V|` (see `Theorems/C11.lean`, the ring witness): before the visit
counter of a node on a negative cycle exceeds `node_bound`, the labels on the cycle sink to about
`−|V|·node_bound·Wm`; if `min()` is above that, the relaxations are skipped as overflowing, the work
list runs empty and the answer is `Ok`.  What is proved: every label ever stored is the cost of a walk
from the source with at most `|V|·node_bound·M` arcs (`M` = longest out-list; every pop relaxes at
most `M` arcs, and there are at most `|V|·node_bound` pops), so if all walks from the source with at
most `L = |V|·node_bound·M + |V|` arcs fit the cost type, nothing ever overflows and both halves hold.
-/
namespace PetgraphModel.C11W3
open PetgraphModel PetgraphModel.MGraph PetgraphModel.Oracle PetgraphModel.DistProofs PetgraphModel.C11P
open PetgraphModel.C11M PetgraphModel.C11MP

/-- every label is the cost of a walk from the source with at most `R` arcs -/
def LabN (g : MGraph) (s : Nat) (d : Tab Nat Int) (R : Nat) : Prop :=
  ∀ x y, tget d x = some y → ∃ j, j ≤ R ∧ WalkN g s x y j

theorem LabN.mono {g : MGraph} {s : Nat} {d : Tab Nat Int} {R R' : Nat} (h : LabN g s d R) (hle : R ≤ R') :
    LabN g s d R' := fun x y hx => by
  obtain ⟨j, hj, hw⟩ := h x y hx
  exact ⟨j, by omega, hw⟩

theorem spEdge_labN {B : Meas} {v : View} {s i : Nat} {te : Nat × Nat} {rest : List (Nat × Nat)} {st : SP}
    {R : Nat} (h : SPEdgeInv B v s i (te :: rest) st) (harc : (i, te.1, v.weight te.2) ∈ v.g.arcs)
    (hl : LabN v.g s st.d R) : LabN v.g s (spEdge B v i st te).d (R + 1) := by
  obtain ⟨xi, hxi⟩ := h.iLab
  rcases spEdge_char B v i st te hxi with ⟨_, heq⟩ | ⟨hc, hd, _⟩
  · rw [heq]; exact hl.mono (by omega)
  · intro x y hx
    rw [hd, tget_tset] at hx
    split at hx
    · rename_i hxj
      cases hx
      obtain ⟨j, hj, hw⟩ := hl i xi hxi
      rw [oadd_exact hc.1, hxj]
      exact ⟨j + 1, by omega, WalkN.snoc hw harc⟩
    · obtain ⟨j, hj, hw⟩ := hl x y hx
      exact ⟨j, by omega, hw⟩

theorem spEdges_labN {B : Meas} {v : View} {s i : Nat} :
    ∀ (rest : List (Nat × Nat)) (st : SP) (R : Nat), SPEdgeInv B v s i rest st →
      (∀ te ∈ rest, (i, te.1, v.weight te.2) ∈ v.g.arcs) → LabN v.g s st.d R →
      LabN v.g s (rest.foldl (spEdge B v i) st).d (R + rest.length) := by
  intro rest
  induction rest with
  | nil => intro st R _ _ hl; exact hl
  | cons te rest ih =>
    intro st R h harcs hl
    simp only [List.foldl_cons, List.length_cons]
    have harc := harcs te (List.mem_cons_self ..)
    have := ih _ (R + 1) (spEdge_inv h harc) (fun t ht => harcs t (List.mem_cons_of_mem _ ht))
      (spEdge_labN h harc hl)
    exact this.mono (by omega)

/-- the work-list loop: every pop uses up one unit of `Σ (node_bound − visits)` and lengthens the
walks behind the labels by at most `M` arcs -/
theorem spLoop_labN {B : Meas} {v : View} (hv : ViewArcs v) (hwf : v.g.WellFormed) {s : Nat} {M C : Nat}
    (hM : ∀ a, (v.outOf a).length ≤ M) :
    ∀ (f : Nat) (st st' : SP) (R : Nat), SPLoopInv B v s st → (∀ x ∈ st.q, x ∈ v.g.nodes) →
      LabN v.g s st.d R → R + visSum v.nb st.visits v.g.nodes * M ≤ C →
      spLoop B v f st = some (some st') → LabN v.g s st'.d C := by
  intro f
  induction f with
  | zero => intro st st' R _ _ _ _ h; simp [spLoop] at h
  | succ f ih =>
    intro st st' R hinv hq hl hC h
    simp only [spLoop] at h
    split at h
    · cases h; exact hl.mono (by omega)
    · rename_i i q hqq
      split at h
      · simp at h
      · rename_i hlt
        have hi : i ∈ v.g.nodes := hq i (by rw [hqq]; simp)
        have hq' : ∀ x ∈ q, x ∈ v.g.nodes := fun x hx => hq x (by rw [hqq]; exact List.mem_cons_of_mem _ hx)
        have hpop := visSum_pop v.nb st.visits i v.g.nodes hwf.1 hi (by omega)
        have hedge := spPop_edgeInv hv hinv hqq
        obtain ⟨h1, h2⟩ := spEdges_q_nodes B v i (v.outOf i)
          { st with q := q, inq := st.inq.erase i, visits := tset st.visits i ((tget st.visits i).getD 0 + 1) }
          (fun te hte => (arc_nodes hwf (hv.sound i te hte)).2) hq'
        have hl' := spEdges_labN (v.outOf i) _ R hedge (hv.sound i) hl
        apply ih _ st' (R + (v.outOf i).length) (spEdgeInv_done (spEdges_inv _ _ hedge (hv.sound i))) h1 hl' _ h
        rw [h2]
        simp only
        have hMi := hM i
        rw [← hpop, Nat.add_mul, Nat.one_mul] at hC
        omega

theorem walkN_cost_bd {g : MGraph} {Wm : Int} (hW : ∀ a b w, (a, b, w) ∈ g.arcs → -Wm ≤ w ∧ w ≤ Wm)
    {a b : Nat} {c : Int} {j : Nat} (h : WalkN g a b c j) :
    -((j : Int) * Wm) ≤ c ∧ c ≤ (j : Int) * Wm := by
  induction h with
  | nil => simp
  | snoc hprev harc ih =>
    rename_i b x c w k
    have hw := hW _ _ _ harc
    have e : ((k + 1 : Nat) : Int) * Wm = (k : Int) * Wm + Wm := by
      rw [Int.natCast_add, Int.add_mul]; simp
    rw [e]
    omega

/-- the number of arcs up to which the walks from the source have to fit the cost type -/
def spfaLen (v : View) (M : Nat) : Nat := v.g.nodes.length * v.nb * M + v.g.nodes.length

/-- **spfa errs exactly when a negative cycle is reachable from the source**, provided every walk
from the source with at most `spfaLen v M` arcs fits the cost type -/
theorem spfa_iff (B : Meas) (v : View) (hv : ViewArcs v) (hwf : v.g.WellFormed) (s : Nat)
    (hs : s ∈ v.g.nodes) (hnb : v.g.nodes.length ≤ v.nb) (M : Nat) (hM : ∀ a, (v.outOf a).length ≤ M)
    (hfit : ∀ x c j, j ≤ spfaLen v M → WalkN v.g s x c j → B.min ≤ c ∧ c < B.max) :
    spfa B v s = some none ↔ NegCycleReachable v.g s := by
  have hn : 0 < v.g.nodes.length := List.length_pos_of_mem hs
  constructor
  · intro h
    apply spfa_err B v hv hwf s hs hnb _ h
    intro x c j hj hw
    exact hfit x c j (by unfold spfaLen; omega) hw
  · intro hneg
    have hB : 0 < B.max := (hfit s 0 0 (Nat.zero_le _) (WalkN.nil s)).2
    cases hres : spfa B v s with
    | none => exact absurd hres (spfa_fuel B v hv hwf s hs)
    | some r =>
      cases r with
      | none => rfl
      | some st =>
        exfalso
        have hlab : LabN v.g s st.d (v.g.nodes.length * v.nb * M) := by
          unfold spfa at hres
          apply spLoop_labN hv hwf hM (spFuel v) _ st 0 (spInit_inv hB v s) _ _ _ hres
          · intro x hx
            have : x = s := by simpa using hx
            exact this ▸ hs
          · intro x y hx
            obtain ⟨rfl, rfl⟩ := tget_single hx
            exact ⟨0, Nat.le_refl _, WalkN.nil _⟩
          · have := visSum_le v.nb ([] : Tab Nat Nat) v.g.nodes
            have := Nat.mul_le_mul_right M this
            simpa using this
        have := (spfa_ok B hB v hv s st hres (by
          intro a b w harc x hx
          obtain ⟨j, hj, hw⟩ := hlab a x hx
          exact hfit b (x + w) (j + 1) (by unfold spfaLen; omega) (WalkN.snoc hw harc))).2.2.1
        exact this hneg

/-- the same from a bound on the costs: `spfaLen v M · Wm < max()` and `min() ≤ −spfaLen v M · Wm` -/
theorem spfa_iff_wm (B : Meas) (v : View) (hv : ViewArcs v) (hwf : v.g.WellFormed) (s : Nat)
    (hs : s ∈ v.g.nodes) (hnb : v.g.nodes.length ≤ v.nb) (M : Nat) (hM : ∀ a, (v.outOf a).length ≤ M)
    (Wm : Int) (hWm : 0 ≤ Wm) (hW : ∀ e ∈ v.g.edges, -Wm ≤ e.w ∧ e.w ≤ Wm)
    (hfit : (spfaLen v M : Int) * Wm < B.max ∧ B.min ≤ -((spfaLen v M : Int) * Wm)) :
    spfa B v s = some none ↔ NegCycleReachable v.g s := by
  apply spfa_iff B v hv hwf s hs hnb M hM
  intro x c j hj hw
  have hWarc : ∀ a b w, (a, b, w) ∈ v.g.arcs → -Wm ≤ w ∧ w ≤ Wm := by
    intro a b w harc
    obtain ⟨e, he, hw, _⟩ := mem_arcs.mp harc
    rw [← hw]; exact hW e he
  have hb := walkN_cost_bd hWarc hw
  have hl : (j : Int) ≤ (spfaLen v M : Int) := by omega
  have := Int.mul_le_mul_of_nonneg_right hl hWm
  omega

end PetgraphModel.C11W3
