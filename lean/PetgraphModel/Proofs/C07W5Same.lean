import PetgraphModel.Driver.C07Checks
import PetgraphModel.Proofs.C07W2Base
import PetgraphModel.Proofs.C07W2Fas
import PetgraphModel.Proofs.C07W2Flow
import PetgraphModel.Proofs.C07W2Mst
import PetgraphModel.Proofs.C07W3Extra
import PetgraphModel.Proofs.C15W2Hyp
/-
C07, wave 5 — what `sameGraphB` (the run-time check "the two views present the same abstract graph") gives:
every `Same…` relation the wave-2/3 theorems are stated with.
-/
namespace PetgraphModel.C07W5
open PetgraphModel PetgraphModel.MGraph PetgraphModel.C07W2 PetgraphModel.C07W3

/-- the facts behind `sameGraphB` -/
structure SameGraph (g1 g2 : MGraph) : Prop where
  dir : g1.directed = g2.directed
  edges : g1.edges = g2.edges
  nodes : g1.nodes.Perm g2.nodes

theorem sameGraphB_sound {v1 v2 : View} (h : C07.sameGraphB v1 v2 = true) : SameGraph v1.g v2.g := by
  simp only [C07.sameGraphB, Bool.and_eq_true, beq_iff_eq, decide_eq_true_eq, List.isPerm_iff] at h
  exact ⟨h.1.1, h.1.2, h.2⟩

theorem SameGraph.refl (g : MGraph) : SameGraph g g := ⟨rfl, rfl, List.Perm.refl _⟩

theorem SameGraph.symm {g1 g2 : MGraph} (h : SameGraph g1 g2) : SameGraph g2 g1 :=
  ⟨h.dir.symm, h.edges.symm, h.nodes.symm⟩

/-- `g2` is `g1` with another node list -/
theorem SameGraph.eq {g1 g2 : MGraph} (h : SameGraph g1 g2) : g2 = { g1 with nodes := g2.nodes } := by
  obtain ⟨hd, he, _⟩ := h
  cases g1; cases g2
  simp only at hd he
  subst hd; subst he; rfl

theorem SameGraph.sameNodes {g1 g2 : MGraph} (h : SameGraph g1 g2) : SameNodes g1 g2 :=
  fun _ => h.nodes.mem_iff

theorem SameGraph.length {g1 g2 : MGraph} (h : SameGraph g1 g2) : g1.nodes.length = g2.nodes.length :=
  h.nodes.length_eq

theorem SameGraph.sameAdj {g1 g2 : MGraph} (h : SameGraph g1 g2) : SameAdj g1 g2 := by
  rw [h.eq]; exact fun _ _ => Iff.rfl

theorem SameGraph.arcs {g1 g2 : MGraph} (h : SameGraph g1 g2) : g1.arcs = g2.arcs := by
  rw [h.eq]; rfl

theorem SameGraph.sameArcs {g1 g2 : MGraph} (h : SameGraph g1 g2) : SameArcs g1 g2 := by
  intro a b w; rw [h.arcs]

theorem SameGraph.arcsPerm {g1 g2 : MGraph} (h : SameGraph g1 g2) : g1.arcs.Perm g2.arcs := by
  rw [h.arcs]

theorem SameGraph.sameUEdges {g1 g2 : MGraph} (h : SameGraph g1 g2) : SameUEdges g1.edges g2.edges := by
  rw [h.edges]; exact SameUEdges.refl _

theorem SameGraph.sameCaps {g1 g2 : MGraph} (h : SameGraph g1 g2) : SameCaps g1 g2 := by
  unfold SameCaps; rw [h.edges]

theorem SameGraph.sameJoined {g1 g2 : MGraph} (h : SameGraph g1 g2) : SameJoined g1 g2 := by
  rw [h.eq]; exact fun _ _ => Iff.rfl

theorem SameGraph.sameEdgeSet {g1 g2 : MGraph} (h : SameGraph g1 g2) : SameEdgeSet g1 g2 := by
  intro e; rw [h.edges]

theorem SameGraph.succ {g1 g2 : MGraph} (h : SameGraph g1 g2) : g1.succ = g2.succ := by
  rw [h.eq]; rfl

theorem SameGraph.wf {g1 g2 : MGraph} (h : SameGraph g1 g2) (hw : g1.WellFormed) : g2.WellFormed := by
  refine ⟨h.nodes.nodup_iff.mp hw.1, fun e he => ?_⟩
  rw [← h.edges] at he
  exact ⟨h.nodes.mem_iff.mp (hw.2 e he).1, h.nodes.mem_iff.mp (hw.2 e he).2⟩

/-- the copies of the two C15 Booleans kept in the (linkable) driver are the ones the C15 theorems use -/
theorem vacOkB_eq (v : View) : C07.vacOkB v = C15W2.vacOkB v := rfl

theorem viewExactB_eq (v : View) : C07.viewExactB v = C15W2.viewExactB v := rfl

end PetgraphModel.C07W5
