import PetgraphModel.Model.C20W4Scope
import PetgraphModel.Proofs.C20W3Tred
import Mathlib.Data.List.Nodup
/-
C20, wave 4 — soundness of the run-time checks of `Model/C20W4Scope.lean`.
-/
namespace PetgraphModel.C20
open PetgraphModel PetgraphModel.MGraph

theorem viewOkB_sound {v : View} (h : viewOkB v = true) :
    ∀ a ∈ v.g.nodes, sameSet (v.succ a) (v.g.succ a) = true ∧ sameSet (v.pred a) (v.g.pred a) = true := by
  intro a ha
  have := List.all_eq_true.mp h a ha
  simpa using this

theorem endpointsB_sound {g : MGraph} (h : endpointsB g = true) : EndpointsOk g := of_decide_eq_true h

theorem nodesNodupB_sound {g : MGraph} (h : nodesNodupB g = true) : g.nodes.Nodup := of_decide_eq_true h

theorem fasScopeB_sound {g : MGraph} {eorder : List Nat} (h : fasScopeB g eorder = true) :
    g.directed = true ∧ ∀ e ∈ g.edges, e ∈ fasOrder g eorder := by
  simp only [fasScopeB, Bool.and_eq_true, decide_eq_true_eq] at h
  exact h

theorem lookup_mem' {α : Type} {l : List (Nat × α)} {a : Nat} {r : α} (h : l.lookup a = some r) : (a, r) ∈ l := by
  induction l with
  | nil => simp at h
  | cons p l ih =>
    obtain ⟨k, x⟩ := p
    by_cases hx : a == k
    · simp [List.lookup_cons, hx] at h
      have : a = k := by simpa using hx
      rw [this, ← h]; exact List.mem_cons_self ..
    · simp [List.lookup_cons, hx] at h
      exact List.mem_cons_of_mem _ (ih h)

theorem dagInputB_sound {v : View} {topo : List Nat} (h : dagInputB v topo = true) : Tred.DagInput v topo := by
  simp only [dagInputB, Bool.and_eq_true, decide_eq_true_eq, List.all_eq_true, Bool.or_eq_true,
    List.contains_eq_mem, List.isEmpty_iff] at h
  obtain ⟨⟨⟨⟨⟨⟨⟨⟨h1, h2⟩, h3⟩, h4⟩, h5⟩, h6⟩, h7⟩, h8⟩, h9⟩ := h
  have hend := endpointsB_sound h9
  refine ⟨h1, h2, fun x => ⟨h3 x, h4 x⟩, ?_, h7, h8, hend⟩
  intro a
  by_cases ha : a ∈ v.g.nodes
  · exact h5 a ha
  · have e1 : v.pred a = [] := by
      unfold View.pred View.innOf
      cases hl : v.inn.lookup a with
      | none => rfl
      | some r =>
        have hm := lookup_mem' hl
        rcases h6 _ hm with h | h
        · exact absurd h ha
        · have h' : r = [] := h
          simp [h']
    have e2 : v.g.pred a = [] := by
      unfold MGraph.pred
      rw [List.filterMap_eq_nil_iff]
      intro e he
      have hn := hend e he
      have ht : e.tgt ≠ a := fun hc => ha (hc ▸ hn.2)
      simp [ht, h1]
    rw [e1, e2]; rfl

theorem pathsScopeB_sound {g : MGraph} {a : Nat} (h : pathsScopeB g a = true) :
    g.directed = true ∧ EndpointsOk g ∧ a ∈ g.nodes := by
  simp only [pathsScopeB, Bool.and_eq_true, List.contains_eq_mem, decide_eq_true_eq] at h
  exact ⟨h.1.1, endpointsB_sound h.1.2, h.2⟩

theorem getD_lt (p : List Nat) (x d : Nat) (h : x < p.length) : p.getD x d = p[x] := by simp [List.getD, h]
theorem getD_ge (p : List Nat) (x d : Nat) (h : ¬ x < p.length) : p.getD x d = d := by simp [List.getD, h]

theorem permB_sound {p : List Nat} (h : permB p = true) : ∀ x y, applyPerm p x = applyPerm p y → x = y := by
  simp only [permB, Bool.and_eq_true, decide_eq_true_eq, List.all_eq_true] at h
  obtain ⟨hnd, hlt⟩ := h
  intro x y hxy
  unfold applyPerm at hxy
  by_cases hx : x < p.length
  · by_cases hy : y < p.length
    · rw [getD_lt _ _ _ hx, getD_lt _ _ _ hy] at hxy
      exact (List.Nodup.getElem_inj_iff hnd).mp hxy
    · rw [getD_lt _ _ _ hx, getD_ge _ _ _ hy] at hxy
      have := hlt _ (List.getElem_mem hx)
      omega
  · by_cases hy : y < p.length
    · rw [getD_ge _ _ _ hx, getD_lt _ _ _ hy] at hxy
      have := hlt _ (List.getElem_mem hy)
      omega
    · rw [getD_ge _ _ _ hx, getD_ge _ _ _ hy] at hxy
      exact hxy

theorem pagerankScopeB_sound {g : MGraph} {d : Rat} {perm : List Nat} (h : pagerankScopeB g d perm = true) :
    g.nodes.Nodup ∧ (∀ e ∈ g.edges, e.src ∈ g.nodes ∧ e.tgt ∈ g.nodes) ∧ 0 ≤ d ∧ d ≤ 1 ∧
      ∀ x y, applyPerm perm x = applyPerm perm y → x = y := by
  simp only [pagerankScopeB, Bool.and_eq_true, decide_eq_true_eq] at h
  obtain ⟨⟨⟨⟨h1, h2⟩, h3⟩, h4⟩, h5⟩ := h
  exact ⟨nodesNodupB_sound h1, endpointsB_sound h2, h3, h4, permB_sound h5⟩

end PetgraphModel.C20
