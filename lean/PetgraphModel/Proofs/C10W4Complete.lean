import PetgraphModel.Proofs.C10KWalks
import PetgraphModel.Proofs.C10Dijkstra
import PetgraphModel.Proofs.ReachTotal
/-
COMPLETENESS of the C10 judges (wave 4): an implementation answer that satisfies the clauses of the
property is accepted.  Together with the soundness theorems of `Proofs/C10Judge.lean` /
`Proofs/C10KWalks.lean` each judge DECIDES its clause set.

* `checkDist_complete`: the shared certificate checker accepts every exact labelling of exactly the
  reachable nodes (uses the totality of the reachability oracle, `Oracle.reachFrom_total`);
* `dijAll_complete`, `dijGoal_complete`, `astar_none_complete`, `astar_some_complete`,
  `okKspF_complete`: the converses of the five judge theorems (the goal-directed ones relative to a
  certified reference labelling / an oracle table, whose existence `Proofs/C10W4RefDist.lean` and
  `Proofs/C10W4Oracle.lean` establish for non-negative weights).
-/
namespace PetgraphModel.C10P
open PetgraphModel PetgraphModel.MGraph PetgraphModel.Oracle PetgraphModel.C10 PetgraphModel.SP

/-! ### lists -/

theorem eraseDups_of_nodup_aux {α} [BEq α] [LawfulBEq α] :
    ∀ (n : Nat) (l : List α), l.length ≤ n → l.Nodup → l.eraseDups = l := by
  intro n
  induction n with
  | zero => intro l h _; cases l with
    | nil => simp
    | cons => simp at h
  | succ n ih =>
    intro l h hnd
    cases l with
    | nil => simp
    | cons a as =>
      rw [List.eraseDups_cons]
      obtain ⟨ha, hnd'⟩ := List.nodup_cons.mp hnd
      have hfe : as.filter (fun b => !b == a) = as := by
        apply List.filter_eq_self.mpr
        intro x hx
        have : x ≠ a := fun e => ha (e ▸ hx)
        simpa using this
      rw [hfe, ih as (by simp at h; omega) hnd']

theorem eraseDups_of_nodup {α} [BEq α] [LawfulBEq α] (l : List α) (h : l.Nodup) : l.eraseDups = l :=
  eraseDups_of_nodup_aux l.length l (Nat.le_refl _) h

theorem keysNodup_of_nodup (m : List (Nat × Int)) (h : (m.map (·.1)).Nodup) : keysNodup m = true := by
  unfold keysNodup
  rw [eraseDups_of_nodup _ h]
  simp

theorem lookup_none_of_not_mem {β} (m : List (Nat × β)) (v : Nat) (h : ∀ y, (v, y) ∉ m) : m.lookup v = none := by
  cases hl : m.lookup v with
  | none => rfl
  | some y => exact absurd (mem_of_lookup m v y hl) (h y)

/-! ### shortest walks exist when weights are non-negative -/

theorem exists_shortest_aux {g : MGraph} (hw : NonNeg g) (s v : Nat) :
    ∀ (n : Nat) (c : Int), WalkCost g s v c → c.toNat ≤ n → ∃ y, IsShortest g s v y := by
  intro n
  induction n with
  | zero =>
    intro c hc hn
    have h0 := walk_nonneg hw hc
    have : c = 0 := by omega
    subst this
    exact ⟨0, hc, fun c' hc' => walk_nonneg hw hc'⟩
  | succ n ih =>
    intro c hc hn
    by_cases hex : ∃ c', WalkCost g s v c' ∧ c'.toNat ≤ n
    · obtain ⟨c', hc', hn'⟩ := hex
      exact ih c' hc' hn'
    · refine ⟨c, hc, ?_⟩
      intro c' hc'
      have h0 := walk_nonneg hw hc
      have h0' := walk_nonneg hw hc'
      have : ¬ c'.toNat ≤ n := fun h => hex ⟨c', hc', h⟩
      omega

/-- with non-negative weights every reachable node has a shortest walk -/
theorem exists_shortest {g : MGraph} (hw : NonNeg g) {s v : Nat} (hr : Reach g s v) : ∃ y, IsShortest g s v y := by
  obtain ⟨c, hc⟩ := (DistProofs.walk_iff_reach g s v).mpr hr
  exact exists_shortest_aux hw s v c.toNat c hc (Nat.le_refl _)

/-! ### the certificate checker is complete -/

theorem tight_adj_intro {g : MGraph} {d : List (Nat × Int)} {u v : Nat} {w x y : Int}
    (harc : (u, v, w) ∈ g.arcs) (hx : labelOf d u = some x) (hy : labelOf d v = some y) (hyx : y = x + w) :
    Adj (tightGraph g d) u v := by
  refine ⟨⟨0, u, v, w⟩, ?_, Or.inl ⟨rfl, rfl⟩⟩
  simp only [tightGraph, List.mem_filterMap]
  exact ⟨(u, v, w), harc, by simp [hx, hy, hyx]⟩

/-- **completeness of `checkDist`**: a labelling with distinct keys that holds exactly the pairs
(node, shortest-walk cost) and labels every reachable node is accepted. -/
theorem checkDist_complete (g : MGraph) (s : Nat) (d : List (Nat × Int)) (hnd : (d.map (·.1)).Nodup)
    (hex : ∀ v y, (v, y) ∈ d ↔ IsShortest g s v y) (hreach : ∀ v, Reach g s v → ∃ y, (v, y) ∈ d) :
    checkDist g s d = true := by
  have hlab : ∀ v y, labelOf d v = some y ↔ IsShortest g s v y := by
    intro v y
    rw [← hex]
    exact ⟨mem_of_lookup d v y, lookup_of_mem_nodup d v y hnd⟩
  have hwalk : ∀ v c, WalkCost g s v c → ∃ y, labelOf d v = some y ∧ y ≤ c := by
    intro v c hc
    obtain ⟨y, hy⟩ := hreach v ((DistProofs.walk_iff_reach g s v).mp ⟨c, hc⟩)
    exact ⟨y, lookup_of_mem_nodup d v y hnd hy, ((hex v y).mp hy).2 c hc⟩
  -- the source is labelled 0
  have hsrc : labelOf d s = some 0 := by
    obtain ⟨y, hy, hle⟩ := hwalk s 0 (WalkCost.nil s)
    have hs := (hlab s y).mp hy
    have := hs.2 _ (DistProofs.walk_trans hs.1 hs.1)
    have : y = 0 := by omega
    rw [hy, this]
  -- feasibility
  have hfeas : ∀ u v w, (u, v, w) ∈ g.arcs → ∀ x, labelOf d u = some x → ∃ y, labelOf d v = some y ∧ y ≤ x + w := by
    intro u v w harc x hx
    exact hwalk v (x + w) (WalkCost.snoc ((hlab u x).mp hx).1 harc)
  -- every labelled node is reached through tight arcs
  have htight : ∀ v c, WalkCost g s v c → labelOf d v = some c → Reach (tightGraph g d) s v := by
    intro v c hc
    induction hc with
    | nil => intro _; exact Reach.refl _
    | snoc hwk harc ih =>
      rename_i b x c1 w
      intro hx
      obtain ⟨yb, hyb, hle⟩ := hwalk b c1 hwk
      obtain ⟨y, hy, hyle⟩ := hfeas b x w harc yb hyb
      rw [hx] at hy; cases hy
      have : yb = c1 := by omega
      subst this
      exact Reach.step (ih hyb) (tight_adj_intro harc hyb hx rfl)
  unfold checkDist
  simp only [Bool.and_eq_true, List.all_eq_true]
  refine ⟨⟨⟨by simp [hsrc], ?_⟩, ?_⟩, ?_⟩
  · rw [eraseDups_of_nodup _ hnd]; simp
  · rintro ⟨u, v, w⟩ harc
    simp only
    cases hu : labelOf d u with
    | none => rfl
    | some x =>
      obtain ⟨y, hy, hle⟩ := hfeas u v w harc x hu
      simp [hy, hle]
  · obtain ⟨r, hr⟩ := reachFrom_total (tightGraph g d) s
    simp only [hr, List.all_eq_true]
    rintro ⟨v, y⟩ hmem
    have hl := lookup_of_mem_nodup d v y hnd hmem
    have hs := (hlab v y).mp hl
    have := ((reachFrom_spec _ _ _ hr).2 v).2 (htight v y hs.1 hl)
    simpa using this

/-! ### dijkstra -/

/-- **the no-goal dijkstra judge is complete**: the converse of `dijAll_sound` -/
theorem dijAll_complete (g : MGraph) (s : Nat) (m : List (Nat × Int)) (hnd : (m.map (·.1)).Nodup)
    (hex : ∀ v y, (v, y) ∈ m ↔ IsShortest g s v y) (hreach : ∀ v, (∃ y, (v, y) ∈ m) ↔ Reach g s v) :
    okDijAll g s m = true :=
  checkDist_complete g s m hnd hex (fun v hv => (hreach v).mpr hv)

/-- **the goal-directed dijkstra judge is complete** relative to a certified reference: the converse of
`dijGoal_sound` -/
theorem dijGoal_complete (g : MGraph) (s t : Nat) (m d : List (Nat × Int)) (hd : certDist g s = some d)
    (hnd : (m.map (·.1)).Nodup)
    (hgoal : ∀ y, (t, y) ∈ m ↔ IsShortest g s t y)
    (hub : ∀ v c, (v, c) ∈ m → ∃ y, IsShortest g s v y ∧ y ≤ c)
    (hcl : ∀ v y, IsShortest g s v y → (∀ yt, IsShortest g s t yt → y < yt) → (v, y) ∈ m) :
    okDijGoal g s t m = true := by
  have e := exact_of_check (certDist_ok hd)
  have hlt : labelOf m t = labelOf d t := by
    cases hl : labelOf d t with
    | some yt => exact lookup_of_mem_nodup m t yt hnd ((hgoal yt).mpr (e.exact t yt hl))
    | none =>
      apply lookup_none_of_not_mem
      intro y hy
      have hs := (hgoal y).mp hy
      exact (e.none_iff t).mp hl ((DistProofs.walk_iff_reach g s t).mp ⟨y, hs.1⟩)
  unfold okDijGoal
  simp only [hd, Bool.and_eq_true, List.all_eq_true]
  refine ⟨⟨⟨keysNodup_of_nodup m hnd, by simp [hlt]⟩, ?_⟩, ?_⟩
  · rintro ⟨v, c⟩ hvc
    obtain ⟨y, hy, hle⟩ := hub v c hvc
    have : labelOf d v = some y := lookup_of_mem_nodup d v y (checkDist_keysNodup (certDist_ok hd)) ((e.mem_iff v y).mpr hy)
    simp [this, hle]
  · rintro ⟨v, y⟩ hvy
    have hs : IsShortest g s v y := (e.mem_iff v y).mp hvy
    cases hl : labelOf d t with
    | none =>
      simp only
      have := hcl v y hs (fun yt hyt => by
        have := (e.mem_iff t yt).mpr hyt
        have h' : labelOf d t = some yt := lookup_of_mem_nodup d t yt (checkDist_keysNodup (certDist_ok hd)) this
        rw [hl] at h'; cases h')
      simp [lookup_of_mem_nodup m v y hnd this, labelOf]
    | some yt =>
      simp only
      by_cases hlt' : y < yt
      · have := hcl v y hs (fun yt' hyt' => by
          have := isShortest_unique (e.exact t yt hl) hyt'
          omega)
        simp [hlt', lookup_of_mem_nodup m v y hnd this, labelOf]
      · simp [hlt']

/-! ### astar -/

theorem foldl_min_le : ∀ (l : List Int) (acc : Option Int),
    (∀ a, acc = some a → ∃ m, l.foldl (fun acc w => match acc with | none => some w | some m => some (min m w)) acc = some m ∧ m ≤ a) ∧
    (∀ w, w ∈ l → ∃ m, l.foldl (fun acc w => match acc with | none => some w | some m => some (min m w)) acc = some m ∧ m ≤ w) := by
  intro l
  induction l with
  | nil =>
    intro acc
    exact ⟨fun a h => ⟨a, h, Int.le_refl _⟩, fun w h => by cases h⟩
  | cons x r ih =>
    intro acc
    simp only [List.foldl_cons]
    constructor
    · intro a ha
      subst ha
      obtain ⟨m, hm, hle⟩ := (ih (some (min a x))).1 _ rfl
      exact ⟨m, hm, by have := Int.min_le_left a x; omega⟩
    · intro w hw
      cases List.mem_cons.mp hw with
      | inr h => exact (ih _).2 w h
      | inl h =>
        subst h
        cases acc with
        | none =>
          obtain ⟨m, hm, hle⟩ := (ih (some w)).1 _ rfl
          exact ⟨m, hm, hle⟩
        | some a =>
          obtain ⟨m, hm, hle⟩ := (ih (some (min a w))).1 _ rfl
          exact ⟨m, hm, by have := Int.min_le_right a w; omega⟩

theorem minArc_le {g : MGraph} {u v : Nat} {w : Int} (h : (u, v, w) ∈ g.arcs) : ∃ m, minArc g u v = some m ∧ m ≤ w := by
  unfold minArc
  apply (foldl_min_le _ none).2 w
  exact List.mem_filterMap.mpr ⟨(u, v, w), h, by simp⟩

/-- the cheapest-parallel-arc cost of a path exists and is at most every cost of the path -/
theorem pathCost_le {g : MGraph} {p : List Nat} {c : Int} (h : PathCost g p c) : ∃ c', pathCost g p = some c' ∧ c' ≤ c := by
  induction h with
  | single a => exact ⟨0, rfl, Int.le_refl _⟩
  | cons harc _ ih =>
    obtain ⟨c', hc', hle⟩ := ih
    obtain ⟨m, hm, hmle⟩ := minArc_le harc
    refine ⟨m + c', ?_, by omega⟩
    simp only [pathCost, hm, hc']

/-- **the astar judge is complete, answer `None`** -/
theorem astar_none_complete (g : MGraph) (s : Nat) (goals : List Nat) (d : List (Nat × Int))
    (hd : certDist g s = some d) (h : ∀ t ∈ goals, ¬ Reach g s t) : okAstar g s goals none = true := by
  have e := exact_of_check (certDist_ok hd)
  unfold okAstar
  simp only [hd, List.all_eq_true]
  intro t ht
  rw [(e.none_iff t).mpr (h t ht)]
  rfl

/-- **the astar judge is complete, answer `Some((c, p))`**: the converse of `astar_some_sound` -/
theorem astar_some_complete (g : MGraph) (s : Nat) (goals : List Nat) (c : Int) (p : List Nat) (d : List (Nat × Int))
    (hd : certDist g s = some d) (h1 : p.head? = some s) (h2 : PathCost g p c)
    (h3 : ∃ t, p.getLast? = some t ∧ t ∈ goals)
    (h4 : ∀ t' ∈ goals, ∀ c', WalkCost g s t' c' → c ≤ c') : okAstar g s goals (some (c, p)) = true := by
  have e := exact_of_check (certDist_ok hd)
  obtain ⟨t, hlast, htg⟩ := h3
  obtain ⟨c', hc', hle⟩ := pathCost_le h2
  have hwalk := (pathCost_sound p c' hc').walk s t h1 hlast
  have : c' = c := by have := h4 t htg c' hwalk; omega
  subst this
  unfold okAstar
  simp only [hd, Bool.and_eq_true, List.all_eq_true]
  refine ⟨⟨⟨by simp [h1], by simp [hlast, htg]⟩, by simp [hc']⟩, ?_⟩
  intro t' ht'
  cases hl : labelOf d t' with
  | none => rfl
  | some y =>
    have := h4 t' ht' y (e.exact t' y hl).1
    simp [this]

/-! ### k_shortest_path -/

/-- every pair of the oracle's table is `(v, kRow T v)` -/
theorem kWalksF_mem_row {fuel : Nat} {g : MGraph} {s k : Nat} {T : KTable} (h : kWalksF fuel g s k = some T)
    {v : Nat} {row : List Int} (hm : (v, row) ∈ T) : row = kRow T v := by
  unfold kWalksF at h
  simp only at h
  rw [kInit_tab] at h
  obtain ⟨m, hT, _⟩ := kIter_spec g s k _ 0 T h
  subst hT
  rw [kRow_tab]
  unfold tab at hm
  obtain ⟨x, _, hx⟩ := List.mem_map.mp hm
  cases hx
  rfl

/-- **the k_shortest_path judge is complete** relative to an oracle table: the converse of
`okKspF_sound` (non-negative weights are needed only for `k = 1` without goal, where the map must
also be an accepted distance certificate). -/
theorem okKspF_complete (fuel : Nat) (g : MGraph) (hw : NonNeg g) (s : Nat) (goal : Option Nat) (k : Nat)
    (m : List (Nat × Int)) (T : KTable) (hT : kWalksF fuel g s k = some T) (hk : 1 ≤ k)
    (hnd : (m.map (·.1)).Nodup)
    (hex : ∀ v c, (v, c) ∈ m → KthCost g s v k c)
    (hall : goal = none → ∀ v c, KthCost g s v k c → (v, c) ∈ m)
    (hgoal : ∀ t, goal = some t → ((∃ c, (t, c) ∈ m) ↔ ∃ c, KthCost g s t k c)) :
    okKspF fuel g s goal k m = true := by
  have kth := kWalksF_kth hT hk
  unfold okKspF
  simp only [hT, Bool.and_eq_true, List.all_eq_true, decide_eq_true_eq]
  refine ⟨⟨⟨⟨hk, keysNodup_of_nodup m hnd⟩, ?_⟩, ?_⟩, ?_⟩
  · rintro ⟨v, c⟩ hvc
    simp [(kth v c).mpr (hex v c hvc)]
  · cases goal with
    | none =>
      simp only [List.all_eq_true]
      rintro ⟨v, row⟩ hvr
      simp only
      split
      · rename_i hlen
        have hrow := kWalksF_mem_row hT hvr
        have : ∃ c, row[k - 1]? = some c := ⟨row[k - 1]'(by omega), List.getElem?_eq_getElem _⟩
        obtain ⟨c, hc⟩ := this
        rw [hrow] at hc
        have := hall rfl v c ((kth v c).mp hc)
        simp [labelOf, lookup_of_mem_nodup m v c hnd this]
      · rfl
    | some t =>
      simp only
      have h := hgoal t rfl
      by_cases hex' : ∃ c, KthCost g s t k c
      · obtain ⟨c, hc⟩ := hex'
        obtain ⟨c', hc'⟩ := h.mpr ⟨c, hc⟩
        simp [(kth t c).mpr hc, labelOf, lookup_of_mem_nodup m t c' hnd hc']
      · have h1 : (kRow T t)[k - 1]? = none := by
          cases hr : (kRow T t)[k - 1]? with
          | none => rfl
          | some c => exact absurd ⟨c, (kth t c).mp hr⟩ hex'
        have h2 : labelOf m t = none := by
          apply lookup_none_of_not_mem
          intro y hy
          exact hex' (h.mp ⟨y, hy⟩)
        simp [h1, h2]
  · split
    · rename_i hc
      obtain ⟨h1, hg⟩ := hc
      subst h1; subst hg
      apply checkDist_complete g s m hnd
      · intro v y
        rw [← kthCost_one_iff]
        exact ⟨hex v y, hall rfl v y⟩
      · intro v hv
        obtain ⟨y, hy⟩ := exists_shortest hw hv
        exact ⟨y, hall rfl v y ((kthCost_one_iff g s v y).mpr hy)⟩
    · rfl

end PetgraphModel.C10P
