import PetgraphModel.Proofs.C15W5Aug
/-
C15 wave 5 — the completeness invariant of one search of the Gabow mirror model, through one scanned
edge (`scanStep`): for every completely scanned vertex (`Sc`) and for the processed part of the row
of the vertex being scanned, every neighbour is either non-outer with an outer mate, or (once it has
been scanned itself) has the same `first_inner` entry; every outer vertex has been visited, and the
visited vertices are exactly the scanned ones, the queue and the vertex being scanned.
-/
namespace PetgraphModel.C15W5
open PetgraphModel PetgraphModel.C15 PetgraphModel.C15M PetgraphModel.C15P PetgraphModel.C15W2

/-- a step of the search that keeps outer vertices outer and equal `first_inner` entries equal -/
structure Mono (c : Ctx) (s s' : GS) : Prop where
  mono : ∀ x ∈ c.v.g.nodes, outerAt c s x = true → outerAt c s' x = true
  eqF : ∀ x ∈ c.v.g.nodes, ∀ y ∈ c.v.g.nodes, outerAt c s x = true → outerAt c s y = true →
    Fn c s x = Fn c s y → Fn c s' x = Fn c s' y

theorem Mono.refl (c : Ctx) (s : GS) : Mono c s s := ⟨fun _ _ h => h, fun _ _ _ _ _ _ e => e⟩

/-- closure facts for the completely scanned vertices -/
structure CInv (c : Ctx) (s : GS) (Sc : List Nat) : Prop where
  outer : ∀ x ∈ Sc, x ∈ c.v.g.nodes ∧ outerAt c s x = true
  inner : ∀ x ∈ Sc, ∀ y e, (y, e) ∈ c.v.outOf x → y ≠ x → outerAt c s y = false →
    ∃ z, c.μ y = some z ∧ outerAt c s z = true
  eq : ∀ x ∈ Sc, ∀ y ∈ Sc, ∀ e, (y, e) ∈ c.v.outOf x → y ≠ x → Fn c s x = Fn c s y

/-- the same for the processed part `pre` of the row of the vertex `x` being scanned -/
structure PInv (c : Ctx) (s : GS) (Sc : List Nat) (x : Nat) (pre : List (Nat × Nat)) : Prop where
  inner : ∀ y e, (y, e) ∈ pre → y ≠ x → outerAt c s y = false →
    ∃ z, c.μ y = some z ∧ outerAt c s z = true
  eq : ∀ y e, (y, e) ∈ pre → y ≠ x → y ∈ Sc → Fn c s x = Fn c s y

/-- queue bookkeeping: the visited vertices are the scanned ones, the queue and the current one -/
structure QB (c : Ctx) (Sc queue visited cur : List Nat) : Prop where
  vis : ∀ a, a ∈ visited ↔ a ∈ Sc ∨ a ∈ queue ∨ a ∈ cur
  nodup : (cur ++ Sc ++ queue).Nodup
  queueNodes : ∀ q ∈ queue, q ∈ c.v.g.nodes

section
variable {c : Ctx}

theorem CInv.step {s s' : GS} {Sc : List Nat} (hv : VHyp c.v c.mode) {n0 : Nat} (hm : MateInv c.v c.m0 n0)
    (h : CInv c s Sc) (m : Mono c s s') : CInv c s' Sc := by
  refine ⟨fun x hx => ⟨(h.outer x hx).1, m.mono x (h.outer x hx).1 (h.outer x hx).2⟩, ?_, ?_⟩
  · intro x hx y e hy hne hoy
    obtain ⟨_, hyn, _⟩ := hv.out x y e hy
    have hoy0 : outerAt c s y = false := by
      cases h0 : outerAt c s y with
      | false => rfl
      | true => rw [m.mono y hyn h0] at hoy; cases hoy
    obtain ⟨z, hz, hoz⟩ := h.inner x hx y e hy hne hoy0
    exact ⟨z, hz, m.mono z (hm.mate_mem hz) hoz⟩
  · intro x hx y hy e hye hne
    exact m.eqF x (h.outer x hx).1 y (h.outer y hy).1 (h.outer x hx).2 (h.outer y hy).2 (h.eq x hx y hy e hye hne)

theorem PInv.step {s s' : GS} {Sc : List Nat} {x : Nat} {pre : List (Nat × Nat)} (hv : VHyp c.v c.mode)
    {n0 : Nat} (hm : MateInv c.v c.m0 n0) (hC : CInv c s Sc) (hxn : x ∈ c.v.g.nodes)
    (hxo : outerAt c s x = true) (hpre : ∀ p ∈ pre, p ∈ c.v.outOf x)
    (h : PInv c s Sc x pre) (m : Mono c s s') : PInv c s' Sc x pre := by
  refine ⟨?_, ?_⟩
  · intro y e hy hne hoy
    obtain ⟨_, hyn, _⟩ := hv.out x y e (hpre _ hy)
    have hoy0 : outerAt c s y = false := by
      cases h0 : outerAt c s y with
      | false => rfl
      | true => rw [m.mono y hyn h0] at hoy; cases hoy
    obtain ⟨z, hz, hoz⟩ := h.inner y e hy hne hoy0
    exact ⟨z, hz, m.mono z (hm.mate_mem hz) hoz⟩
  · intro y e hy hne hySc
    exact m.eqF x hxn y (hC.outer y hySc).1 hxo (hC.outer y hySc).2 (h.eq y e hy hne hySc)

theorem PInv.snoc {s : GS} {Sc : List Nat} {x : Nat} {pre : List (Nat × Nat)} (h : PInv c s Sc x pre)
    (y e : Nat)
    (h1 : y ≠ x → outerAt c s y = false → ∃ z, c.μ y = some z ∧ outerAt c s z = true)
    (h2 : y ≠ x → y ∈ Sc → Fn c s x = Fn c s y) : PInv c s Sc x (pre ++ [(y, e)]) := by
  refine ⟨?_, ?_⟩
  · intro y' e' hm hne ho
    rcases List.mem_append.mp hm with hm | hm
    · exact h.inner y' e' hm hne ho
    · simp only [List.mem_singleton, Prod.mk.injEq] at hm
      obtain ⟨rfl, rfl⟩ := hm
      exact h1 hne ho
  · intro y' e' hm hne hs
    rcases List.mem_append.mp hm with hm | hm
    · exact h.eq y' e' hm hne hs
    · simp only [List.mem_singleton, Prod.mk.injEq] at hm
      obtain ⟨rfl, rfl⟩ := hm
      exact h2 hne hs

/-- pushing a vertex unless it has been visited -/
theorem QB.push {Sc queue visited cur : List Nat} (h : QB c Sc queue visited cur) (m : Nat)
    (hmn : m ∈ c.v.g.nodes) (hnv : m ∉ visited) : QB c Sc (queue ++ [m]) (m :: visited) cur := by
  have hnot := (not_congr (h.vis m)).mp hnv
  simp only [not_or] at hnot
  refine ⟨?_, ?_, ?_⟩
  · intro a
    constructor
    · intro ha
      rcases List.mem_cons.mp ha with e | ha
      · exact Or.inr (Or.inl (List.mem_append_right _ (by rw [e]; exact List.mem_singleton.mpr rfl)))
      · rcases (h.vis a).mp ha with h1 | h1 | h1
        · exact Or.inl h1
        · exact Or.inr (Or.inl (List.mem_append_left _ h1))
        · exact Or.inr (Or.inr h1)
    · rintro (h1 | h1 | h1)
      · exact List.mem_cons_of_mem _ ((h.vis a).mpr (Or.inl h1))
      · rcases List.mem_append.mp h1 with h1 | h1
        · exact List.mem_cons_of_mem _ ((h.vis a).mpr (Or.inr (Or.inl h1)))
        · rw [List.mem_singleton.mp h1]; exact List.mem_cons_self ..
      · exact List.mem_cons_of_mem _ ((h.vis a).mpr (Or.inr (Or.inr h1)))
  · have e : cur ++ Sc ++ (queue ++ [m]) = (cur ++ Sc ++ queue) ++ [m] := by simp
    rw [e]
    refine List.nodup_append.mpr ⟨h.nodup, by simp, ?_⟩
    intro a ha b hb
    simp only [List.mem_singleton] at hb
    subst hb
    intro e; subst e
    simp only [List.mem_append] at ha
    rcases ha with (ha | ha) | ha
    · exact hnot.2.2 ha
    · exact hnot.1 ha
    · exact hnot.2.1 ha
  · intro q hq
    rcases List.mem_append.mp hq with hq | hq
    · exact h.queueNodes q hq
    · simp only [List.mem_singleton] at hq; subst hq; exact hmn

/-- the visitor of `find_join`: every handed vertex is visited afterwards -/
theorem pushCall_QB (Sc cur : List Nat) : ∀ (calls : List Nat), (∀ q ∈ calls, q ∈ c.v.g.nodes) →
    ∀ (init : List Nat × List Nat), QB c Sc init.1 init.2 cur →
    QB c Sc (forIn (m := Id) calls init (fun cc st => pure (pushCall cc st))).run.1
      (forIn (m := Id) calls init (fun cc st => pure (pushCall cc st))).run.2 cur ∧
    (∀ a ∈ init.2, a ∈ (forIn (m := Id) calls init (fun cc st => pure (pushCall cc st))).run.2) ∧
    (∀ q ∈ calls, q ∈ (forIn (m := Id) calls init (fun cc st => pure (pushCall cc st))).run.2)
  | [], _, init, h => by
    simp only [List.forIn_nil]
    exact ⟨h, fun _ ha => ha, fun _ hq => by cases hq⟩
  | cc :: rest, hc, init, h => by
    rw [List.forIn_cons]
    by_cases hvis : (!init.2.contains cc) = true
    · have hpc : pushCall cc init = .yield (init.1 ++ [cc], cc :: init.2) := by
        unfold pushCall; rw [if_pos hvis]
      rw [hpc]
      simp only [pure_bind]
      have hnv : cc ∉ init.2 := by simpa using hvis
      have ih := pushCall_QB Sc cur rest (fun q hq => hc q (List.mem_cons_of_mem _ hq))
        (init.1 ++ [cc], cc :: init.2) (h.push cc (hc cc (List.mem_cons_self ..)) hnv)
      refine ⟨ih.1, fun a ha => ih.2.1 a (List.mem_cons_of_mem _ ha), ?_⟩
      intro q hq
      rcases List.mem_cons.mp hq with e | hq
      · subst e; exact ih.2.1 q (List.mem_cons_self ..)
      · exact ih.2.2 q hq
    · have hpc : pushCall cc init = .yield (init.1, init.2) := by
        unfold pushCall; rw [if_neg hvis]
      rw [hpc]
      simp only [pure_bind]
      have hin : cc ∈ init.2 := by simpa using hvis
      have ih := pushCall_QB Sc cur rest (fun q hq => hc q (List.mem_cons_of_mem _ hq)) (init.1, init.2) h
      refine ⟨ih.1, ih.2.1, ?_⟩
      intro q hq
      rcases List.mem_cons.mp hq with e | hq
      · subst e; exact ih.2.1 q hin
      · exact ih.2.2 q hq

/-- the effect of a new `Vertex` label on the completeness invariant -/
theorem vertexLabel_eff {s : GS} {P : Nat → PL} {ord : List Nat} (hv : VHyp c.v c.mode) (I : SInv c s P ord)
    (x o cm : Nat) (hcm : cm ∈ c.v.g.nodes) (_ho : o ∈ c.v.g.nodes) (hocm : outerAt c s cm = false) :
    Mono c s ((s.setLabel (c.v.toIndex cm) (Label.vertex x)).setFi (c.v.toIndex cm) (c.v.toIndex o)) ∧
    (∀ q ∈ c.v.g.nodes, outerAt c s q = false →
      outerAt c ((s.setLabel (c.v.toIndex cm) (Label.vertex x)).setFi (c.v.toIndex cm) (c.v.toIndex o)) q = true →
      q = cm) := by
  have hcmi := hv.ix.lt cm hcm
  rw [setLabel_eq _ _ _ (by rw [I.labLen]; omega), setFi_eq _ _ _ (by simp [I.fiLen]; omega)]
  have hlab : ∀ y ∈ c.v.g.nodes, labI (s.label.set (c.v.toIndex cm) (Label.vertex x)) (c.v.toIndex y) =
      if y = cm then Label.vertex x else labI s.label (c.v.toIndex y) := by
    intro y hy
    rw [labI_set _ _ _ _ (by rw [I.labLen]; omega)]
    by_cases e : y = cm
    · subst e; simp
    · have : ¬ c.v.toIndex cm = c.v.toIndex y := fun h => e (hv.ix.inj y hy cm hcm h.symm)
      simp [e, this]
  have hfi : ∀ y ∈ c.v.g.nodes, y ≠ cm → fiI (s.fi.set (c.v.toIndex cm) (c.v.toIndex o)) (c.v.toIndex y) =
      fiI s.fi (c.v.toIndex y) := by
    intro y hy e
    rw [fiI_set _ _ _ _ (by rw [I.fiLen]; omega)]
    have : ¬ c.v.toIndex cm = c.v.toIndex y := fun h => e (hv.ix.inj y hy cm hcm h.symm)
    simp [this]
  have hne : ∀ y, outerAt c s y = true → y ≠ cm := by
    intro y hy e; rw [e, hocm] at hy; cases hy
  refine ⟨⟨?_, ?_⟩, ?_⟩
  · intro y hy hoy
    show (labI (s.label.set _ _) (c.v.toIndex y)).isOuter = true
    rw [hlab y hy, if_neg (hne y hoy)]; exact hoy
  · intro y hy z hz hoy hoz e
    show fiI (s.fi.set _ _) (c.v.toIndex y) = fiI (s.fi.set _ _) (c.v.toIndex z)
    rw [hfi y hy (hne y hoy), hfi z hz (hne z hoz)]; exact e
  · intro q hq hoq hoq'
    have hoq'' : (labI (s.label.set (c.v.toIndex cm) (Label.vertex x)) (c.v.toIndex q)).isOuter = true := hoq'
    rw [hlab q hq] at hoq''
    by_cases e : q = cm
    · exact e
    · rw [if_neg e] at hoq''
      have : (labI s.label (c.v.toIndex q)).isOuter = false := hoq
      rw [this] at hoq''; cases hoq''

/-- what the completeness proof carries through the scan of the row of `x` -/
structure Extra (c : Ctx) (s : GS) (Sc : List Nat) (x : Nat) (pre : List (Nat × Nat))
    (queue visited : List Nat) : Prop where
  cinv : CInv c s Sc
  pinv : PInv c s Sc x pre
  qb : QB c Sc queue visited [x]
  ov : ∀ a ∈ c.v.g.nodes, outerAt c s a = true → a ∈ visited
  sub : ∀ p ∈ pre, p ∈ c.v.outOf x

theorem scanStep_extra (hv : VHyp c.v c.mode) (n0 : Nat) (hm : MateInv c.v c.m0 n0)
    (x : Nat) (e : Nat × Nat) (he : e ∈ c.v.outOf x) (st : SSt) (hI : ScanOpen c n0 x st)
    (Sc : List Nat) (pre : List (Nat × Nat)) (hE : Extra c st.1 Sc x pre st.2.2.1 st.2.2.2.1) :
    stepPost (fun st' : SSt => Extra c st'.1 Sc x (pre ++ [e]) st'.2.2.1 st'.2.2.2.1) (fun _ => True)
      (scanStep c.v c.mode c.sv x e st) := by
  obtain ⟨hdone, hn, ⟨P, ord, I⟩, hqueue, hxo⟩ := hI
  obtain ⟨other, eid⟩ := e
  obtain ⟨hxn, hon, hJ⟩ := hv.out x other eid he
  have hxo' := hxo hxn
  have hoi := hv.ix.lt other hon
  have hsub : ∀ p ∈ pre ++ [(other, eid)], p ∈ c.v.outOf x := by
    intro p hp
    rcases List.mem_append.mp hp with hp | hp
    · exact hE.sub p hp
    · simp only [List.mem_singleton] at hp; subst hp; exact he
  unfold scanStep
  rw [if_neg (by rw [I.fault]; simp)]
  by_cases hxe : (x == other) = true
  · rw [if_pos hxe]
    have hxe' : x = other := by simpa using hxe
    exact ⟨hE.cinv, hE.pinv.snoc other eid (fun h => absurd hxe'.symm h) (fun h => absurd hxe'.symm h),
      hE.qb, hE.ov, hsub⟩
  rw [if_neg hxe]
  have hne : x ≠ other := by simpa using hxe
  simp only [getMate_eq st.1 (c.v.toIndex other) (by rw [I.mate, hm.len]; omega),
    getLabel_eq st.1 (c.v.toIndex other) (by rw [I.labLen]; omega), Bool.or_self, flt_false]
  have hmo : getM st.1.mate (c.v.toIndex other) = c.μ other := by rw [I.mate]; rfl
  rw [hmo]
  by_cases haug : ((c.μ other).isNone && other != c.sv) = true
  · rw [if_pos haug]; trivial
  rw [if_neg haug]
  by_cases hlo : (labI st.1.label (c.v.toIndex other)).isOuter = true
  · -- a blossom
    rw [if_pos hlo]
    obtain ⟨P', ord', I', hmono, hcalls⟩ := findJoin_SInv hv n0 hm I x other eid he hne hxo' hlo
    have heff := findJoin_eff hv n0 hm I x other eid he hxo' hlo
    generalize findJoin c.v (edgeKey c.mode eid x other) x other st.1 = r at I' hmono hcalls heff ⊢
    obtain ⟨s', calls⟩ := r
    simp only []
    have hM : Mono c st.1 s' := ⟨heff.mono, heff.eqF⟩
    have hpc := pushCall_QB (c := c) Sc [x] calls (fun q hq => (hcalls q hq).1) (st.2.2.1, st.2.2.2.1) hE.qb
    refine ⟨hE.cinv.step hv hm hM, ?_, hpc.1, ?_, hsub⟩
    · refine (hE.pinv.step hv hm hE.cinv hxn hxo' hE.sub hM).snoc other eid ?_ ?_
      · intro _ ho
        have : outerAt c s' other = true := hmono other hon hlo
        rw [this] at ho; cases ho
      · intro _ _; exact heff.ab
    · intro a ha hoa
      cases h0 : outerAt c st.1 a with
      | true => exact hpc.2.1 a (hE.ov a ha h0)
      | false => exact hpc.2.2 a (heff.calls a ha h0 hoa)
  rw [if_neg hlo]
  -- the mate of a non-outer vertex becomes outer
  have hlo' : outerAt c st.1 other = false := by unfold outerAt; simpa using hlo
  have hnotSc : other ∉ Sc := fun h => by
    have := (hE.cinv.outer other h).2
    rw [hlo'] at this; cases this
  cases hmu : c.μ other with
  | none =>
    exfalso
    rw [hmu] at haug
    simp only [Option.isNone_none, Bool.true_and, bne_iff_ne, ne_eq, Decidable.not_not] at haug
    have hsvo := (I.abs.svFree (haug ▸ hon)).1
    have : outerAt c st.1 c.sv = true := hsvo
    rw [← haug, hlo'] at this; cases this
  | some cm =>
    have hcm : cm ∈ c.v.g.nodes := hm.mate_mem hmu
    have hcmi := hv.ix.lt cm hcm
    unfold scanElse
    simp only [getLabel_eq st.1 (c.v.toIndex cm) (by rw [I.labLen]; omega), flt_false]
    by_cases hlm : (!(labI st.1.label (c.v.toIndex cm)).isOuter) = true
    · rw [if_pos hlm]
      have hocm : outerAt c st.1 cm = false := by unfold outerAt; simpa using hlm
      obtain ⟨_, _, _, hmono, hcmo⟩ := vertexLabel_SInv hv n0 hm I x other cm hxn hxo' hon hlo' hmu hocm
        (joined_symm (hJ hne))
      obtain ⟨hM, hnew⟩ := vertexLabel_eff hv I x other cm hcm hon hocm
      generalize ((st.1.setLabel (c.v.toIndex cm) (Label.vertex x)).setFi (c.v.toIndex cm) (c.v.toIndex other)) = s'
        at hmono hcmo hM hnew ⊢
      have hP : PInv c s' Sc x (pre ++ [(other, eid)]) :=
        (hE.pinv.step hv hm hE.cinv hxn hxo' hE.sub hM).snoc other eid
          (fun _ _ => ⟨cm, hmu, hcmo⟩) (fun _ h => absurd h hnotSc)
      split
      · rename_i hvis
        have hnv : cm ∉ st.2.2.2.1 := by simpa using hvis
        refine ⟨hE.cinv.step hv hm hM, hP, hE.qb.push cm hcm hnv, ?_, hsub⟩
        intro a ha hoa
        cases h0 : outerAt c st.1 a with
        | true => exact List.mem_cons_of_mem _ (hE.ov a ha h0)
        | false => rw [hnew a ha h0 hoa]; exact List.mem_cons_self ..
      · rename_i hvis
        have hin : cm ∈ st.2.2.2.1 := by simpa using hvis
        refine ⟨hE.cinv.step hv hm hM, hP, hE.qb, ?_, hsub⟩
        intro a ha hoa
        cases h0 : outerAt c st.1 a with
        | true => exact hE.ov a ha h0
        | false => rw [hnew a ha h0 hoa]; exact hin
    · rw [if_neg hlm]
      have hocm : outerAt c st.1 cm = true := by unfold outerAt; simpa using hlm
      have hP : PInv c st.1 Sc x (pre ++ [(other, eid)]) :=
        hE.pinv.snoc other eid (fun _ _ => ⟨cm, hmu, hocm⟩) (fun _ h => absurd h hnotSc)
      split
      · rename_i hvis
        have hnv : cm ∉ st.2.2.2.1 := by simpa using hvis
        exact absurd (hE.ov cm hcm hocm) hnv
      · exact ⟨hE.cinv, hP, hE.qb, hE.ov, hsub⟩

end

end PetgraphModel.C15W5
