import PetgraphModel.Proofs.C20Base
import PetgraphModel.Model.C20
/-
C20 — DSatur abstracted over the pop order: greedy colouring in ANY node order is proper and uses
exactly the colours `0 .. k-1`.
-/
namespace PetgraphModel.C20.Dsatur
open PetgraphModel PetgraphModel.MGraph

theorem foldl_max_ge (l : List Nat) (a : Nat) : a ≤ l.foldl max a ∧ ∀ x ∈ l, x ≤ l.foldl max a := by
  induction l generalizing a with
  | nil => simp
  | cons y t ih =>
    simp only [List.foldl_cons]
    have := ih (max a y)
    refine ⟨Nat.le_trans (Nat.le_max_left a y) this.1, ?_⟩
    intro x hx
    cases List.mem_cons.mp hx with
    | inl e => subst e; exact Nat.le_trans (Nat.le_max_right a x) this.1
    | inr e => exact this.2 x e

theorem foldl_max_attained (l : List Nat) (a : Nat) : l.foldl max a = a ∨ l.foldl max a ∈ l := by
  induction l generalizing a with
  | nil => simp
  | cons y t ih =>
    simp only [List.foldl_cons]
    cases ih (max a y) with
    | inl e =>
      rw [e]
      by_cases h : a ≤ y
      · right; rw [Nat.max_eq_right h]; simp
      · left; exact Nat.max_eq_left (by omega)
    | inr e => right; exact List.mem_cons_of_mem _ e

theorem le_maxOf {l : List Nat} {x : Nat} (h : x ∈ l) : x ≤ maxOf l := (foldl_max_ge l 0).2 x h

theorem leastFree_spec (used : List Nat) :
    leastFree used ∉ used ∧ ∀ c, c < leastFree used → c ∈ used := by
  unfold leastFree
  have hfree : (maxOf used + 1) ∉ used := fun h => by have := le_maxOf h; omega
  cases hf : (List.range (maxOf used + 2)).find? fun c => !used.contains c with
  | none =>
    have := List.find?_eq_none.mp hf (maxOf used + 1) (List.mem_range.mpr (by omega))
    simp [hfree] at this
  | some c =>
    have := List.find?_range_eq_some.mp hf
    simp only [Option.getD_some]
    refine ⟨by simpa using this.1, fun j hj => ?_⟩
    have := this.2.2 j hj
    simpa using this

/-- invariant of the colouring loop -/
structure Inv (g : MGraph) (col : List (Nat × Nat)) : Prop where
  keys : (col.map (·.1)).Nodup
  proper : ∀ u v cu cv, col.lookup u = some cu → col.lookup v = some cv → g.Adj u v → u ≠ v → cu ≠ cv
  downward : ∀ p ∈ col, ∀ c, c < p.2 → ∃ q ∈ col, q.2 = c

theorem lookup_some_mem {col : List (Nat × Nat)} {u c : Nat} (h : col.lookup u = some c) : (u, c) ∈ col := by
  induction col with
  | nil => simp at h
  | cons p t ih =>
    obtain ⟨k, y⟩ := p
    simp only [List.lookup_cons] at h
    split at h
    · rename_i heq
      have : u = k := by simpa using heq
      simp only [Option.some.injEq] at h
      subst this; subst h; simp
    · exact List.mem_cons_of_mem _ (ih h)

theorem lookup_isSome_of_key {col : List (Nat × Nat)} {u : Nat} (h : u ∈ col.map (·.1)) : (col.lookup u).isSome := by
  induction col with
  | nil => simp at h
  | cons p t ih =>
    obtain ⟨k, y⟩ := p
    simp only [List.lookup_cons]
    by_cases hk : u = k
    · subst hk; simp
    · have : (u == k) = false := by simpa using hk
      rw [this]
      simp only [List.map_cons, List.mem_cons] at h
      cases h with
      | inl e => exact absurd e hk
      | inr e => exact ih e

theorem lookup_none_of_not_key {col : List (Nat × Nat)} {u : Nat} (h : u ∉ col.map (·.1)) : col.lookup u = none := by
  cases hl : col.lookup u with
  | none => rfl
  | some c =>
    have := lookup_some_mem hl
    exact absurd (List.mem_map.mpr ⟨(u, c), this, rfl⟩) h

theorem inv_step (g : MGraph) (hd : g.directed = false) (col : List (Nat × Nat)) (v : Nat) (hinv : Inv g col)
    (hv : v ∉ col.map (·.1)) : Inv g (colourNode g col v) := by
  have hlf := leastFree_spec (adjColours g col v)
  have hvnone := lookup_none_of_not_key hv
  -- a coloured neighbour's colour is in the used set
  have hused : ∀ u cu, col.lookup u = some cu → g.Adj v u → cu ∈ adjColours g col v := by
    intro u cu hu hadj
    unfold adjColours
    exact List.mem_filterMap.mpr ⟨u, MGraph.mem_succ.mpr hadj, hu⟩
  refine ⟨?_, ?_, ?_⟩
  · simp only [colourNode, List.map_cons]
    exact List.nodup_cons.mpr ⟨hv, hinv.keys⟩
  · intro u w cu cw hu hw hadj hne
    simp only [colourNode, List.lookup_cons] at hu hw
    by_cases huv : u = v
    · subst huv
      have hwv : ¬ w = u := fun e => hne e.symm
      have h1 : (w == u) = false := by simpa using hwv
      simp only [beq_self_eq_true, Option.some.injEq, h1] at hu hw
      subst hu
      intro e
      exact hlf.1 (e ▸ hused w cw hw hadj)
    · have h1 : (u == v) = false := by simpa using huv
      simp only [h1] at hu
      by_cases hwv : w = v
      · subst hwv
        simp only [beq_self_eq_true, Option.some.injEq] at hw
        subst hw
        intro e
        exact hlf.1 (e ▸ hused u cu hu (adj_symm_undirected hd hadj))
      · have h2 : (w == v) = false := by simpa using hwv
        simp only [h2] at hw
        exact hinv.proper u w cu cw hu hw hadj hne
  · intro p hp c hc
    simp only [colourNode, List.mem_cons] at hp
    cases hp with
    | inl e =>
      subst e
      simp only at hc
      have hcu := hlf.2 c hc
      unfold adjColours at hcu
      obtain ⟨u, _, hu⟩ := List.mem_filterMap.mp hcu
      exact ⟨(u, c), List.mem_cons_of_mem _ (lookup_some_mem hu), rfl⟩
    | inr e =>
      obtain ⟨q, hq, hqc⟩ := hinv.downward p e c hc
      exact ⟨q, List.mem_cons_of_mem _ hq, hqc⟩

theorem greedy_inv (g : MGraph) (hd : g.directed = false) :
    ∀ (order : List Nat) (col : List (Nat × Nat)), Inv g col → (col.map (·.1) ++ order).Nodup →
      Inv g (order.foldl (colourNode g) col) ∧
      (order.foldl (colourNode g) col).map (·.1) = order.reverse ++ col.map (·.1) := by
  intro order
  induction order with
  | nil => intro col h _; exact ⟨h, by simp⟩
  | cons v t ih =>
    intro col hinv hnd
    simp only [List.foldl_cons]
    have hv : v ∉ col.map (·.1) := by
      intro hmem
      have := (List.nodup_append.mp hnd).2.2 v hmem v (by simp)
      exact this rfl
    have hstep := inv_step g hd col v hinv hv
    have hnd' : ((colourNode g col v).map (·.1) ++ t).Nodup := by
      simp only [colourNode, List.map_cons, List.cons_append]
      have h1 := List.nodup_append.mp hnd
      have h2 := List.nodup_cons.mp h1.2.1
      refine List.nodup_cons.mpr ⟨?_, List.nodup_append.mpr ⟨h1.1, h2.2, ?_⟩⟩
      · intro hmem
        cases List.mem_append.mp hmem with
        | inl e => exact hv e
        | inr e => exact h2.1 e
      · intro a ha b hb
        exact h1.2.2 a ha b (List.mem_cons_of_mem _ hb)
    have := ih (colourNode g col v) hstep hnd'
    refine ⟨this.1, ?_⟩
    rw [this.2]
    simp [colourNode]

/-- **greedy colouring in ANY order**: every node of the order gets exactly one colour, adjacent
nodes get different colours, and the colours used are exactly `0 .. count-1` -/
theorem greedy_spec (g : MGraph) (hd : g.directed = false) (order : List Nat) (hnd : order.Nodup) :
    let col := greedy g order
    col.map (·.1) = order.reverse ∧
    (∀ u v cu cv, col.lookup u = some cu → col.lookup v = some cv → g.Adj u v → u ≠ v → cu ≠ cv) ∧
    (∀ p ∈ col, p.2 < count col) ∧
    (order ≠ [] → ∀ c, c < count col → ∃ p ∈ col, p.2 = c) := by
  intro col
  have hinv0 : Inv g [] := ⟨by simp, by intro u v cu cv h; simp at h, by intro p hp; cases hp⟩
  have := greedy_inv g hd order [] hinv0 (by simpa using hnd)
  have hkeys : col.map (·.1) = order.reverse := by simpa [col, greedy] using this.2
  have hinv : Inv g col := this.1
  refine ⟨hkeys, hinv.proper, ?_, ?_⟩
  · intro p hp
    unfold count
    have : p.2 ≤ maxOf (col.map (·.2)) := le_maxOf (List.mem_map.mpr ⟨p, hp, rfl⟩)
    omega
  · intro hne c hc
    unfold count at hc
    cases foldl_max_attained (col.map (·.2)) 0 with
    | inl e =>
      -- maximum is 0: c = 0, and some node is coloured (order ≠ [])
      have hc0 : c = 0 := by unfold maxOf at hc; omega
      subst hc0
      have hcolne : col ≠ [] := by
        intro e'
        rw [e'] at hkeys
        simp at hkeys
        exact hne hkeys
      cases hcol : col with
      | nil => exact absurd hcol hcolne
      | cons p t =>
        have hp : p ∈ col := by rw [hcol]; simp
        have hle : p.2 ≤ maxOf (col.map (·.2)) := le_maxOf (List.mem_map.mpr ⟨p, hp, rfl⟩)
        unfold maxOf at hle
        rw [e] at hle
        exact ⟨p, by simp, by omega⟩
    | inr e =>
      obtain ⟨p, hp, hpe⟩ := List.mem_map.mp e
      by_cases hcp : c = p.2
      · exact ⟨p, hp, hcp.symm⟩
      · have : c < p.2 := by unfold maxOf at hc; omega
        exact hinv.downward p hp c this

end PetgraphModel.C20.Dsatur
