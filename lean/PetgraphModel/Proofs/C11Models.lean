import PetgraphModel.Model.C11Paths
import PetgraphModel.Proofs.C11
namespace PetgraphModel.C11MP
open PetgraphModel PetgraphModel.C11M

theorem lookup_filter_ne {κ α : Type} [BEq κ] [LawfulBEq κ] (t : List (κ × α)) (k k' : κ) (h : k' ≠ k) :
    List.lookup k' (t.filter fun e => !(e.1 == k)) = List.lookup k' t := by
  induction t with
  | nil => rfl
  | cons e t ih =>
    obtain ⟨a, b⟩ := e
    by_cases hak : a = k
    · subst hak
      have h1 : (k' == a) = false := by simpa using h
      simp [List.filter_cons, List.lookup_cons, h1, ih]
    · have h2 : (a == k) = false := by simpa using hak
      simp only [List.filter_cons, h2, Bool.not_false, if_true, List.lookup_cons]
      rw [ih]

theorem lookup_filter_self {κ α : Type} [BEq κ] [LawfulBEq κ] (t : List (κ × α)) (k : κ) :
    List.lookup k (t.filter fun e => !(e.1 == k)) = none := by
  induction t with
  | nil => rfl
  | cons e t ih =>
    obtain ⟨a, b⟩ := e
    by_cases hak : a = k
    · subst hak
      simp [List.filter_cons, ih]
    · have h2 : (a == k) = false := by simpa using hak
      have h3 : (k == a) = false := by simpa using (Ne.symm hak)
      simp only [List.filter_cons, h2, Bool.not_false, if_true, List.lookup_cons, h3]
      exact ih

theorem tget_tset {κ α : Type} [BEq κ] [LawfulBEq κ] [DecidableEq κ] (t : Tab κ α) (k k' : κ) (x : α) :
    tget (tset t k x) k' = if k' = k then some x else tget t k' := by
  unfold tget tset terase
  by_cases h : k' = k
  · subst h; simp [List.lookup_cons]
  · have h1 : (k' == k) = false := by simpa using h
    simp only [List.lookup_cons, h1, if_neg h]
    exact lookup_filter_ne t k k' h

theorem tget_terase {κ α : Type} [BEq κ] [LawfulBEq κ] [DecidableEq κ] (t : Tab κ α) (k k' : κ) :
    tget (terase t k) k' = if k' = k then none else tget t k' := by
  unfold tget terase
  by_cases h : k' = k
  · subst h; simp [lookup_filter_self]
  · simp only [if_neg h]; exact lookup_filter_ne t k k' h

open PetgraphModel.MGraph PetgraphModel.Oracle PetgraphModel.DistProofs PetgraphModel.C11P

/-- the view's out-lists describe exactly the arcs of the abstract graph -/
structure ViewArcs (v : View) : Prop where
  sound : ∀ a, ∀ te ∈ v.outOf a, (a, te.1, v.weight te.2) ∈ v.g.arcs
  complete : ∀ a b w, (a, b, w) ∈ v.g.arcs → a ∈ v.g.nodes ∧ ∃ te ∈ v.outOf a, te.1 = b ∧ v.weight te.2 = w

/-- what every label-correcting run maintains about its distance / predecessor tables -/
structure Core (g : MGraph) (s : Nat) (d : Tab Nat Int) (p : Tab Nat Nat) : Prop where
  real : ∀ x y, tget d x = some y → WalkCost g s x y
  src : ∃ y, tget d s = some y ∧ y ≤ 0
  predArc : ∀ x q, tget p x = some q →
    ∃ a b w, tget d q = some a ∧ tget d x = some b ∧ (q, x, w) ∈ g.arcs ∧ a + w ≤ b
  predSome : ∀ x y, tget d x = some y → x = s ∨ ∃ q, tget p x = some q
  predSrc : tget p s = none ∨ ∃ y, tget d s = some y ∧ y < 0

/-- one successful relaxation of the arc `i → j` of cost `w` -/
theorem core_update {g : MGraph} {s : Nat} {d : Tab Nat Int} {p : Tab Nat Nat} (h : Core g s d p)
    {i j : Nat} {w x : Int} (hx : tget d i = some x) (harc : (i, j, w) ∈ g.arcs)
    (hlt' : ∀ y, tget d j = some y → x + w < y) : Core g s (tset d j (x + w)) (tset p j i) := by
  obtain ⟨y0, hy0, hy0le⟩ := h.src
  refine ⟨?_, ?_, ?_, ?_, ?_⟩
  · intro z y hz
    simp only [tget_tset] at hz
    split at hz
    · rename_i hzj; cases hz; subst hzj
      exact WalkCost.snoc (h.real i x hx) harc
    · exact h.real z y hz
  · simp only [tget_tset]
    split
    · rename_i hsj
      refine ⟨_, rfl, ?_⟩
      have := hlt' y0 (hsj ▸ hy0)
      omega
    · exact ⟨y0, hy0, hy0le⟩
  · intro z q hz
    simp only [tget_tset] at hz ⊢
    split at hz
    · rename_i hzj; cases hz; subst hzj
      refine ⟨if i = z then x + w else x, x + w, w, ?_, by simp, harc, ?_⟩
      · split
        · rfl
        · exact hx
      · split
        · rename_i hiz
          have := hlt' x (hiz ▸ hx)
          omega
        · omega
    · rename_i hzj
      obtain ⟨a, b, w0, ha, hb, hmem, hle⟩ := h.predArc z q hz
      by_cases hpj : q = j
      · refine ⟨x + w, b, w0, by simp [hpj], by simp [hzj, hb], hmem, ?_⟩
        have := hlt' a (hpj ▸ ha)
        omega
      · exact ⟨a, b, w0, by simp [hpj, ha], by simp [hzj, hb], hmem, hle⟩
  · intro z y hz
    simp only [tget_tset] at hz ⊢
    split at hz
    · rename_i hzj; right; exact ⟨i, by simp [hzj]⟩
    · rename_i hzj
      rcases h.predSome z y hz with h1 | ⟨q, hq⟩
      · exact Or.inl h1
      · exact Or.inr ⟨q, by simp [hzj, hq]⟩
  · simp only [tget_tset]
    by_cases hsj : s = j
    · right
      refine ⟨x + w, by simp [hsj], ?_⟩
      have := hlt' y0 (hsj ▸ hy0)
      omega
    · rcases h.predSrc with h1 | ⟨y, hy, hylt⟩
      · left; simp [hsj, h1]
      · right; exact ⟨y, by simp [hsj, hy], hylt⟩

abbrev BFInv (g : MGraph) (s : Nat) (st : BF) : Prop := Core g s st.d st.p

theorem fltLt_some {x w : Int} {b : Option Int} (h : fltLt (some x) w b = true) :
    ∀ y, b = some y → x + w < y := by
  intro y hy; subst hy; simpa [fltLt] using h

theorem bfEdge_inv {g : MGraph} {s : Nat} (v : View) (i : Nat) (te : Nat × Nat) (st : BF)
    (harc : (i, te.1, v.weight te.2) ∈ g.arcs) (h : BFInv g s st) : BFInv g s (bfEdge v i st te) := by
  unfold bfEdge
  split
  · exact h
  · rename_i x hx
    split
    · rename_i hlt
      exact core_update h hx harc (fltLt_some hlt)
    · exact h

theorem bfEdges_inv {g : MGraph} {s : Nat} (v : View) (i : Nat) :
    ∀ (l : List (Nat × Nat)) (st : BF), (∀ te ∈ l, (i, te.1, v.weight te.2) ∈ g.arcs) →
      BFInv g s st → BFInv g s (l.foldl (bfEdge v i) st) := by
  intro l
  induction l with
  | nil => intro st _ h; exact h
  | cons te l ih =>
    intro st hl h
    simp only [List.foldl_cons]
    exact ih _ (fun t ht => hl t (List.mem_cons_of_mem _ ht))
      (bfEdge_inv v i te st (hl te (List.mem_cons_self ..)) h)

theorem bfNodes_inv {s : Nat} (v : View) (hv : ViewArcs v) :
    ∀ (ns : List Nat) (st : BF), (∀ a ∈ ns, a ∈ v.g.nodes) → BFInv v.g s st →
      BFInv v.g s (ns.foldl (fun st i => (v.outOf i).foldl (bfEdge v i) st) st) := by
  intro ns
  induction ns with
  | nil => intro st _ h; exact h
  | cons a ns ih =>
    intro st hns h
    simp only [List.foldl_cons]
    apply ih _ (fun x hx => hns x (List.mem_cons_of_mem _ hx))
    exact bfEdges_inv v a _ st (hv.sound a) h

theorem bfPass_inv {s : Nat} (v : View) (hv : ViewArcs v) (st : BF) (h : BFInv v.g s st) :
    BFInv v.g s (bfPass v st) :=
  bfNodes_inv v hv v.g.nodes st (fun _ h => h) h

theorem bfRounds_inv {s : Nat} (v : View) (hv : ViewArcs v) :
    ∀ (k : Nat) (st : BF), BFInv v.g s st → BFInv v.g s (bfRounds v k st) := by
  intro k
  induction k with
  | zero => intro st h; exact h
  | succ k ih =>
    intro st h
    have h' : BFInv v.g s (bfPass v { st with upd := false }) :=
      bfPass_inv v hv _ ⟨h.real, h.src, h.predArc, h.predSome, h.predSrc⟩
    simp only [bfRounds]
    split
    · exact ih _ h'
    · exact h'

theorem tget_single {x s : Nat} {y : Int} (h : tget ([(s, (0 : Int))] : Tab Nat Int) x = some y) : x = s ∧ y = 0 := by
  unfold tget at h
  by_cases hxs : x = s
  · subst hxs; simp [List.lookup_cons] at h; exact ⟨rfl, h.symm⟩
  · have : (x == s) = false := by simpa using hxs
    simp [List.lookup_cons, this] at h

theorem bfInit_inv (g : MGraph) (s : Nat) : BFInv g s (bfInit s) := by
  refine ⟨?_, ⟨0, by simp [bfInit, tget, List.lookup_cons], Int.le_refl _⟩, ?_, ?_, ?_⟩
  · intro x y h
    obtain ⟨rfl, rfl⟩ := tget_single h
    exact WalkCost.nil _
  · intro x p h; simp [bfInit, tget] at h
  · intro x y h
    exact Or.inl (tget_single h).1
  · left; simp [bfInit, tget]

theorem bfRelax_inv (v : View) (hv : ViewArcs v) (s : Nat) : BFInv v.g s (bfRelax v s) :=
  bfRounds_inv v hv _ _ (bfInit_inv v.g s)

/-- a labelling under which no arc can be relaxed -/
def Feasible (g : MGraph) (d : Nat → Option Int) : Prop :=
  ∀ a b w, (a, b, w) ∈ g.arcs → ∀ x, d a = some x → ∃ y, d b = some y ∧ y ≤ x + w

theorem feasible_walk {g : MGraph} {d : Nat → Option Int} (hf : Feasible g d) {a b : Nat} {c : Int}
    (hw : WalkCost g a b c) : ∀ x, d a = some x → ∃ y, d b = some y ∧ y ≤ x + c := by
  induction hw with
  | nil => intro x hx; exact ⟨x, hx, by omega⟩
  | snoc _ harc ih =>
    intro x hx
    obtain ⟨y, hy, hle⟩ := ih x hx
    obtain ⟨z, hz, hle'⟩ := hf _ _ _ harc y hy
    exact ⟨z, hz, by omega⟩

/-- realizable + feasible + source label ≤ 0  ⇒  exact, `∞` iff unreachable, no reachable negative cycle -/
theorem exact_of_feasible {g : MGraph} {s : Nat} {d : Nat → Option Int}
    (hreal : ∀ x y, d x = some y → WalkCost g s x y)
    (hsrc : ∃ y, d s = some y ∧ y ≤ 0) (hf : Feasible g d) :
    d s = some 0 ∧
    (∀ x y, d x = some y → IsShortest g s x y) ∧
    (∀ x, d x = none ↔ ¬ ∃ c, WalkCost g s x c) ∧
    ¬ NegCycleReachable g s := by
  obtain ⟨y0, hy0, hle0⟩ := hsrc
  have hy00 : y0 = 0 := by
    obtain ⟨y, hy, hle⟩ := feasible_walk hf (hreal s y0 hy0) y0 hy0
    rw [hy0] at hy; cases hy; omega
  subst hy00
  refine ⟨hy0, ?_, ?_, ?_⟩
  · intro x y hx
    refine ⟨hreal x y hx, fun c hc => ?_⟩
    obtain ⟨y', hy', hle⟩ := feasible_walk hf hc 0 hy0
    rw [hx] at hy'; cases hy'; omega
  · intro x
    constructor
    · rintro hn ⟨c, hc⟩
      obtain ⟨y', hy', _⟩ := feasible_walk hf hc 0 hy0
      rw [hn] at hy'; cases hy'
    · intro hn
      cases hx : d x with
      | none => rfl
      | some y => exact absurd ⟨y, hreal x y hx⟩ hn
  · rintro ⟨u, c0, c, h0, hc, hneg⟩
    obtain ⟨x, hx, _⟩ := feasible_walk hf h0 0 hy0
    obtain ⟨x', hx', hle⟩ := feasible_walk hf hc x hx
    rw [hx] at hx'; cases hx'; omega

theorem relaxables_nil {v : View} {d : Tab Nat Int} (h : (relaxables v d).isEmpty = true) :
    ∀ i ∈ v.g.nodes, ∀ te ∈ v.outOf i, fltLt (tget d i) (v.weight te.2) (tget d te.1) = false := by
  intro i hi te hte
  have h : relaxables v d = [] := by simpa using h
  unfold relaxables at h
  rw [List.flatMap_eq_nil_iff] at h
  have h2 := h i hi
  rw [List.filterMap_eq_nil_iff] at h2
  have h3 := h2 te hte
  cases hf : fltLt (tget d i) (v.weight te.2) (tget d te.1) with
  | false => rfl
  | true => simp [hf] at h3

theorem feasible_of_relaxables {v : View} (hv : ViewArcs v) {d : Tab Nat Int}
    (h : (relaxables v d).isEmpty = true) : Feasible v.g (tget d) := by
  intro a b w harc x hx
  obtain ⟨ha, te, hte, h1, h2⟩ := hv.complete a b w harc
  have := relaxables_nil h a ha te hte
  rw [h1, h2, hx] at this
  cases hb : tget d b with
  | none => simp [fltLt, hb] at this
  | some y =>
    simp only [fltLt, hb] at this
    exact ⟨y, rfl, by simpa using this⟩

/-- **bellman_ford, `Ok` half.**  What the mirror model returns as `Ok(paths)` is exact. -/
theorem bellmanFord_ok (v : View) (hv : ViewArcs v) (s : Nat) (st : BF) (h : bellmanFord v s = some st) :
    (∀ x y, tget st.d x = some y → IsShortest v.g s x y) ∧
    (∀ x, tget st.d x = none ↔ ¬ ∃ c, WalkCost v.g s x c) ∧
    ¬ NegCycleReachable v.g s ∧
    (∀ x, tget st.p x = none ↔ (x = s ∨ tget st.d x = none)) ∧
    (∀ x p, tget st.p x = some p →
      ∃ a b w, tget st.d p = some a ∧ tget st.d x = some b ∧ (p, x, w) ∈ v.g.arcs ∧ b = a + w) := by
  unfold bellmanFord at h
  simp only at h
  split at h
  · rename_i hrel
    cases h
    have inv := bfRelax_inv v hv s
    have hf := feasible_of_relaxables hv hrel
    obtain ⟨hs0, hex, hinf, hneg⟩ := exact_of_feasible inv.real inv.src hf
    refine ⟨hex, hinf, hneg, ?_, ?_⟩
    · intro x
      constructor
      · intro hn
        cases hx : tget (bfRelax v s).d x with
        | none => exact Or.inr rfl
        | some y =>
          rcases inv.predSome x y hx with h1 | ⟨p, hp⟩
          · exact Or.inl h1
          · rw [hn] at hp; cases hp
      · intro hor
        cases hp : tget (bfRelax v s).p x with
        | none => rfl
        | some p =>
          obtain ⟨a, b, w, _, hb, _, _⟩ := inv.predArc x p hp
          rcases hor with h1 | h1
          · subst h1
            rcases inv.predSrc with h2 | ⟨y, hy, hlt⟩
            · rw [hp] at h2; cases h2
            · rw [hs0] at hy; cases hy; omega
          · rw [hb] at h1; cases h1
    · intro x p hp
      obtain ⟨a, b, w, ha, hb, harc, hle⟩ := inv.predArc x p hp
      obtain ⟨b', hb', hle'⟩ := hf _ _ _ harc a ha
      rw [hb] at hb'; cases hb'
      exact ⟨a, b, w, ha, hb, harc, by omega⟩
  · simp at h


theorem fncLoop_nonempty (p : Tab Nat Nat) (start : Nat) :
    ∀ (f node : Nat) (vis path : List Nat), (∀ x ∈ vis, x ∈ path) →
      ∀ r, fncLoop p start f node vis path = some r → r ≠ [] := by
  intro f
  induction f with
  | zero => intro node vis path _ r h; simp [fncLoop] at h
  | succ f ih =>
    intro node vis path hsub r h
    simp only [fncLoop] at h
    split at h
    · cases h; simp
    · split at h
      · rename_i hc
        cases h
        have hmem : (tget p node).getD node ∈ path := hsub _ (by simpa using hc)
        intro hnil
        rw [List.drop_eq_nil_iff] at hnil
        have := List.idxOf_lt_length_iff.mpr hmem
        omega
      · apply ih _ _ _ _ r h
        intro x hx
        rcases List.mem_cons.mp hx with rfl | hx
        · simp
        · exact List.mem_append_left _ (hsub x hx)

/-- the mirror of `find_negative_cycle` answers `None` exactly when the mirror of `bellman_ford`
answers `Ok` -/
theorem fnc_none_iff (v : View) (s : Nat) :
    findNegativeCycle v s = .none ↔ (bellmanFord v s).isSome = true := by
  unfold findNegativeCycle bellmanFord
  simp only
  cases hr : relaxables v (bfRelax v s).d with
  | nil => simp
  | cons e l =>
    obtain ⟨i, j⟩ := e
    simp only [List.isEmpty_cons]
    constructor
    · intro h
      split at h
      · cases h
      · rename_i path hp
        have := fncLoop_nonempty _ _ _ _ _ _ (by simp) path hp
        split at h
        · rename_i he; exact absurd (by simpa using he) this
        · cases h
    · intro h; simp at h

/-! ### spfa -/

/-- `distances[x]` with `K::max()` for "no entry" -/
def lab (B : Meas) (d : Tab Nat Int) (x : Nat) : Int := (tget d x).getD B.max

/-- the arc `a → b` cannot improve `b` (or its relaxation is skipped because the sum overflows) -/
def Rel (B : Meas) (d : Tab Nat Int) (a b : Nat) (w : Int) : Prop :=
  ∀ x, tget d a = some x → (B.oadd x w).2 = true ∨ lab B d b ≤ x + w

theorem oadd_exact {B : Meas} {a b : Int} (h : (B.oadd a b).2 = false) : (B.oadd a b).1 = a + b := by
  unfold Meas.oadd at h ⊢
  simp only at h ⊢
  split
  · rename_i h1; simp [h1] at h
  · split
    · rename_i h1 h2; simp [h1, h2] at h
    · rfl

theorem oadd_fits {B : Meas} {a b : Int} (h1 : B.min ≤ a + b) (h2 : a + b ≤ B.max) : (B.oadd a b).2 = false := by
  unfold Meas.oadd
  simp only
  have : ¬ (a + b > B.max) := by omega
  have h' : ¬ (a + b < B.min) := by omega
  simp [this, h']

structure SPInv (B : Meas) (g : MGraph) (s : Nat) (st : SP) : Prop where
  core : Core g s st.d st.p
  bounded : ∀ x y, tget st.d x = some y → y < B.max
  inqSub : ∀ x ∈ st.inq, x ∈ st.q
  inqNodup : st.inq.Nodup
  qLab : ∀ x ∈ st.q, ∃ y, tget st.d x = some y

/-- while the edges of the popped node `i` are processed; `rest` = edges still to come -/
structure SPEdgeInv (B : Meas) (v : View) (s i : Nat) (rest : List (Nat × Nat)) (st : SP) : Prop where
  inv : SPInv B v.g s st
  iLab : ∃ y, tget st.d i = some y
  relaxed : ∀ a b w, (a, b, w) ∈ v.g.arcs →
    a ∈ st.q ∨ (a = i ∧ ∃ te ∈ rest, te.1 = b ∧ v.weight te.2 = w) ∨ Rel B st.d a b w

theorem lab_le_max {B : Meas} {d : Tab Nat Int} (hb : ∀ x y, tget d x = some y → y < B.max) (x : Nat) :
    lab B d x ≤ B.max := by
  unfold lab
  cases h : tget d x with
  | none => simp
  | some y => have := hb x y h; simp; omega

theorem spEdge_update {B : Meas} {v : View} {s i : Nat} {te : Nat × Nat} {rest : List (Nat × Nat)} {st st2 : SP}
    (h : SPEdgeInv B v s i (te :: rest) st) (harc : (i, te.1, v.weight te.2) ∈ v.g.arcs)
    {xi : Int} (hxi : tget st.d i = some xi) (hlt : xi + v.weight te.2 < lab B st.d te.1)
    (hd : st2.d = tset st.d te.1 (xi + v.weight te.2)) (hp : st2.p = tset st.p te.1 i)
    (hq1 : ∀ x ∈ st.q, x ∈ st2.q) (hq2 : te.1 ∈ st2.q) (hq3 : ∀ x ∈ st2.q, x ∈ st.q ∨ x = te.1)
    (hi1 : ∀ x ∈ st2.inq, x ∈ st2.q) (hi2 : st2.inq.Nodup) : SPEdgeInv B v s i rest st2 := by
  have hlt' : ∀ y, tget st.d te.1 = some y → xi + v.weight te.2 < y := by
    intro y hy; simpa [lab, hy] using hlt
  have hmax := lab_le_max h.inv.bounded te.1
  refine ⟨⟨?_, ?_, hi1, hi2, ?_⟩, ?_, ?_⟩
  · rw [hd, hp]; exact core_update h.inv.core hxi harc hlt'
  · intro x y hx
    rw [hd, tget_tset] at hx
    split at hx
    · cases hx; omega
    · exact h.inv.bounded x y hx
  · intro x hx
    rw [hd, tget_tset]
    split
    · exact ⟨_, rfl⟩
    · rcases hq3 x hx with h1 | h1
      · exact h.inv.qLab x h1
      · rename_i hne; exact absurd h1 hne
  · rw [hd, tget_tset]
    split
    · exact ⟨_, rfl⟩
    · exact ⟨xi, hxi⟩
  · intro a b w0 hmem
    by_cases haj : a = te.1
    · left; rw [haj]; exact hq2
    · have hrel : Rel B st.d a b w0 → Rel B st2.d a b w0 := by
        intro hr x hx
        rw [hd, tget_tset, if_neg haj] at hx
        rcases hr x hx with h1 | h1
        · exact Or.inl h1
        · right
          unfold lab at h1 ⊢
          rw [hd, tget_tset]
          split
          · rename_i hbj
            subst hbj
            simp only [Option.getD_some]
            unfold lab at hlt
            omega
          · exact h1
      rcases h.relaxed a b w0 hmem with h1 | ⟨hai, te', hte', hb, hw⟩ | h1
      · exact Or.inl (hq1 a h1)
      · rcases List.mem_cons.mp hte' with rfl | hte'
        · right; right
          intro x hx
          rw [hd, tget_tset, if_neg haj, hai, hxi] at hx
          cases hx
          right
          unfold lab
          rw [hd, tget_tset, ← hb, if_pos rfl, ← hw]
          simp
        · exact Or.inr (Or.inl ⟨hai, te', hte', hb, hw⟩)
      · exact Or.inr (Or.inr (hrel h1))

theorem spEdge_inv {B : Meas} {v : View} {s i : Nat} {te : Nat × Nat} {rest : List (Nat × Nat)} {st : SP}
    (h : SPEdgeInv B v s i (te :: rest) st) (harc : (i, te.1, v.weight te.2) ∈ v.g.arcs) :
    SPEdgeInv B v s i rest (spEdge B v i st te) := by
  obtain ⟨xi, hxi⟩ := h.iLab
  unfold spEdge
  simp only [hxi, Option.getD_some]
  split
  · rename_i hc
    simp only [Bool.and_eq_true, Bool.not_eq_true', decide_eq_true_eq] at hc
    have hex := oadd_exact hc.1
    have hlt : xi + v.weight te.2 < lab B st.d te.1 := by rw [← hex]; exact hc.2
    split
    · rename_i hin
      have hin : te.1 ∈ st.inq := by simpa using hin
      apply spEdge_update h harc hxi hlt
      · simp only [hex]
      · rfl
      · exact fun x hx => hx
      · exact h.inv.inqSub _ hin
      · exact fun x hx => Or.inl hx
      · exact h.inv.inqSub
      · exact h.inv.inqNodup
    · rename_i hin
      have hin : te.1 ∉ st.inq := by simpa using hin
      apply spEdge_update h harc hxi hlt
      · simp only [hex]
      · rfl
      · intro x hx; simp [hx]
      · simp
      · intro x hx
        simp only [List.mem_append, List.mem_singleton] at hx
        exact hx
      · intro x hx
        simp only [List.mem_cons] at hx
        simp only [List.mem_append, List.mem_singleton]
        rcases hx with rfl | hx
        · exact Or.inr rfl
        · exact Or.inl (h.inv.inqSub x hx)
      · exact List.nodup_cons.mpr ⟨hin, h.inv.inqNodup⟩
  · rename_i hc
    refine ⟨h.inv, h.iLab, ?_⟩
    intro a b w0 hmem
    rcases h.relaxed a b w0 hmem with h1 | ⟨hai, te', hte', hb, hw⟩ | h1
    · exact Or.inl h1
    · rcases List.mem_cons.mp hte' with rfl | hte'
      · right; right
        intro x hx
        rw [hai, hxi] at hx; cases hx
        cases hov : (B.oadd xi (v.weight te'.2)).2 with
        | true => rw [← hw]; exact Or.inl hov
        | false =>
          right
          have hex := oadd_exact hov
          simp only [hov, Bool.not_false, Bool.true_and, decide_eq_true_eq, hex] at hc
          unfold lab
          rw [← hb, ← hw]
          omega
      · exact Or.inr (Or.inl ⟨hai, te', hte', hb, hw⟩)
    · exact Or.inr (Or.inr h1)

theorem spEdges_inv {B : Meas} {v : View} {s i : Nat} :
    ∀ (rest : List (Nat × Nat)) (st : SP), SPEdgeInv B v s i rest st →
      (∀ te ∈ rest, (i, te.1, v.weight te.2) ∈ v.g.arcs) →
      SPEdgeInv B v s i [] (rest.foldl (spEdge B v i) st) := by
  intro rest
  induction rest with
  | nil => intro st h _; exact h
  | cons te rest ih =>
    intro st h harcs
    simp only [List.foldl_cons]
    exact ih _ (spEdge_inv h (harcs te (List.mem_cons_self ..))) (fun t ht => harcs t (List.mem_cons_of_mem _ ht))

/-- between two pops -/
structure SPLoopInv (B : Meas) (v : View) (s : Nat) (st : SP) : Prop where
  inv : SPInv B v.g s st
  relaxed : ∀ a b w, (a, b, w) ∈ v.g.arcs → a ∈ st.q ∨ Rel B st.d a b w

/-- popping `i`: the invariant for processing its edges -/
theorem spPop_edgeInv {B : Meas} {v : View} (hv : ViewArcs v) {s : Nat} {st : SP} (hinv : SPLoopInv B v s st)
    {i : Nat} {q : List Nat} (hq : st.q = i :: q) :
    SPEdgeInv B v s i (v.outOf i)
      { st with q := q, inq := st.inq.erase i, visits := tset st.visits i ((tget st.visits i).getD 0 + 1) } := by
  have hiq : i ∈ st.q := by rw [hq]; simp
  refine ⟨⟨hinv.inv.core, hinv.inv.bounded, ?_, ?_, ?_⟩, hinv.inv.qLab i hiq, ?_⟩
  · intro x hx
    have hx' : x ≠ i ∧ x ∈ st.inq := (List.Nodup.mem_erase_iff hinv.inv.inqNodup).mp hx
    have := hinv.inv.inqSub x hx'.2
    rw [hq] at this
    rcases List.mem_cons.mp this with h1 | h1
    · exact absurd h1 hx'.1
    · exact h1
  · exact List.Nodup.erase _ hinv.inv.inqNodup
  · intro x hx
    exact hinv.inv.qLab x (by rw [hq]; exact List.mem_cons_of_mem _ hx)
  · intro a b w hmem
    rcases hinv.relaxed a b w hmem with h1 | h1
    · rw [hq] at h1
      rcases List.mem_cons.mp h1 with h2 | h2
      · right; left
        obtain ⟨_, te, hte, hb, hw⟩ := hv.complete a b w hmem
        exact ⟨h2, te, h2 ▸ hte, hb, hw⟩
      · exact Or.inl h2
    · exact Or.inr (Or.inr h1)

theorem spEdgeInv_done {B : Meas} {v : View} {s i : Nat} {st : SP} (h : SPEdgeInv B v s i [] st) :
    SPLoopInv B v s st := by
  refine ⟨h.inv, ?_⟩
  intro a b w hmem
  rcases h.relaxed a b w hmem with h1 | ⟨_, te, hte, _⟩ | h1
  · exact Or.inl h1
  · cases hte
  · exact Or.inr h1

theorem spLoop_inv {B : Meas} {v : View} (hv : ViewArcs v) {s : Nat} :
    ∀ (f : Nat) (st st' : SP), SPLoopInv B v s st → spLoop B v f st = some (some st') →
      SPLoopInv B v s st' ∧ st'.q = [] := by
  intro f
  induction f with
  | zero => intro st st' _ h; simp [spLoop] at h
  | succ f ih =>
    intro st st' hinv h
    simp only [spLoop] at h
    split at h
    · rename_i hq
      cases h
      exact ⟨hinv, hq⟩
    · rename_i i q hq
      split at h
      · simp at h
      · apply ih _ st' _ h
        exact spEdgeInv_done (spEdges_inv _ _ (spPop_edgeInv hv hinv hq) (hv.sound i))

theorem core_init (g : MGraph) (s : Nat) : Core g s [(s, 0)] [] := bfInit_inv g s

theorem spInit_inv {B : Meas} (hB : 0 < B.max) (v : View) (s : Nat) :
    SPLoopInv B v s { d := [(s, 0)], q := [s], inq := [s] } := by
  refine ⟨⟨core_init v.g s, ?_, ?_, ?_, ?_⟩, ?_⟩
  · intro x y h
    obtain ⟨_, rfl⟩ := tget_single h
    exact hB
  · intro x hx; exact hx
  · simp
  · intro x hx
    have : x = s := by simpa using hx
    subst this
    exact ⟨0, by simp [tget, List.lookup_cons]⟩
  · intro a b w _
    by_cases has : a = s
    · left; simp [has]
    · right
      intro x hx
      exact absurd (tget_single hx).1 has

/-- **spfa, `Ok` half.**  What the mirror model returns as `Ok(paths)` is exact, provided no
relaxation out of a final label overflows the cost type (`hfit`, a condition on the result). -/
theorem spfa_ok (B : Meas) (hB : 0 < B.max) (v : View) (hv : ViewArcs v) (s : Nat) (st : SP)
    (h : spfa B v s = some (some st))
    (hfit : ∀ a b w, (a, b, w) ∈ v.g.arcs → ∀ x, tget st.d a = some x → B.min ≤ x + w ∧ x + w < B.max) :
    (∀ x y, tget st.d x = some y → IsShortest v.g s x y ∧ y < B.max) ∧
    (∀ x, tget st.d x = none ↔ ¬ ∃ c, WalkCost v.g s x c) ∧
    ¬ NegCycleReachable v.g s ∧
    (∀ x, tget st.p x = none ↔ (x = s ∨ tget st.d x = none)) ∧
    (∀ x p, tget st.p x = some p →
      ∃ a b w, tget st.d p = some a ∧ tget st.d x = some b ∧ (p, x, w) ∈ v.g.arcs ∧ b = a + w) := by
  unfold spfa at h
  obtain ⟨hinv, hq⟩ := spLoop_inv hv _ _ st (spInit_inv hB v s) h
  have inv := hinv.inv.core
  have hf : Feasible v.g (tget st.d) := by
    intro a b w harc x hx
    obtain ⟨h1, h2⟩ := hfit a b w harc x hx
    rcases hinv.relaxed a b w harc with hmem | hrel
    · rw [hq] at hmem; cases hmem
    · rcases hrel x hx with hov | hle
      · rw [oadd_fits h1 (by omega)] at hov; cases hov
      · unfold lab at hle
        cases hb : tget st.d b with
        | none => rw [hb] at hle; simp at hle; omega
        | some y => rw [hb] at hle; exact ⟨y, rfl, by simpa using hle⟩
  obtain ⟨hs0, hex, hinf, hneg⟩ := exact_of_feasible inv.real inv.src hf
  refine ⟨fun x y hx => ⟨hex x y hx, hinv.inv.bounded x y hx⟩, hinf, hneg, ?_, ?_⟩
  · intro x
    constructor
    · intro hn
      cases hx : tget st.d x with
      | none => exact Or.inr rfl
      | some y =>
        rcases inv.predSome x y hx with h1 | ⟨p, hp⟩
        · exact Or.inl h1
        · rw [hn] at hp; cases hp
    · intro hor
      cases hp : tget st.p x with
      | none => rfl
      | some p =>
        obtain ⟨a, b, w, _, hb, _, _⟩ := inv.predArc x p hp
        rcases hor with h1 | h1
        · subst h1
          rcases inv.predSrc with h2 | ⟨y, hy, hlt⟩
          · rw [hp] at h2; cases h2
          · rw [hs0] at hy; cases hy; omega
        · rw [hb] at h1; cases h1
  · intro x p hp
    obtain ⟨a, b, w, ha, hb, harc, hle⟩ := inv.predArc x p hp
    obtain ⟨b', hb', hle'⟩ := hf _ _ _ harc a ha
    rw [hb] at hb'; cases hb'
    exact ⟨a, b, w, ha, hb, harc, by omega⟩


/-! ### floyd_warshall: every stored entry is the cost of a real walk -/

def FWReal (g : MGraph) (st : FW) : Prop :=
  ∀ i j y, tget st.d (i, j) = some y → WalkCost g i j y

theorem walk_single {g : MGraph} {a b : Nat} {w : Int} (h : (a, b, w) ∈ g.arcs) : WalkCost g a b w := by
  have := WalkCost.snoc (WalkCost.nil a) h
  simpa using this

theorem fwInitEdge_real {B : Meas} {g : MGraph} (st : FW) (e : Edge) (he : e ∈ g.edges)
    (h : FWReal g st) : FWReal g (fwInitEdge B g.directed st e) := by
  unfold fwInitEdge
  have harc1 : (e.src, e.tgt, e.w) ∈ g.arcs := mem_arcs.mpr ⟨e, he, rfl, Or.inl ⟨rfl, rfl⟩⟩
  split
  · split
    · rename_i hd
      have hd : g.directed = false := by simpa using hd
      have harc2 : (e.tgt, e.src, e.w) ∈ g.arcs := mem_arcs.mpr ⟨e, he, rfl, Or.inr ⟨hd, rfl, rfl⟩⟩
      intro i j y hy
      simp only [tget_tset] at hy
      split at hy
      · rename_i hk; cases hy; cases hk; exact walk_single harc2
      · split at hy
        · rename_i hk; cases hy; cases hk; exact walk_single harc1
        · exact h i j y hy
    · intro i j y hy
      simp only [tget_tset] at hy
      split at hy
      · rename_i hk; cases hy; cases hk; exact walk_single harc1
      · exact h i j y hy
  · exact h

theorem fwInit_real {B : Meas} {g : MGraph} :
    ∀ (es : List Edge) (st : FW), (∀ e ∈ es, e ∈ g.edges) → FWReal g st →
      FWReal g (es.foldl (fwInitEdge B g.directed) st) := by
  intro es
  induction es with
  | nil => intro st _ h; exact h
  | cons e es ih =>
    intro st hes h
    simp only [List.foldl_cons]
    exact ih _ (fun x hx => hes x (List.mem_cons_of_mem _ hx))
      (fwInitEdge_real st e (hes e (List.mem_cons_self ..)) h)

theorem fwDiag_real {B : Meas} {g : MGraph} (st : FW) (i : Nat) (h : FWReal g st) :
    FWReal g (fwDiag B st i) := by
  unfold fwDiag
  split
  · intro a b y hy
    simp only [tget_tset] at hy
    split at hy
    · rename_i hk; cases hy; cases hk; exact WalkCost.nil _
    · exact h a b y hy
  · exact h

theorem fwDiags_real {B : Meas} {g : MGraph} :
    ∀ (ns : List Nat) (st : FW), FWReal g st → FWReal g (ns.foldl (fwDiag B) st) := by
  intro ns
  induction ns with
  | nil => intro st h; exact h
  | cons a ns ih => intro st h; simp only [List.foldl_cons]; exact ih _ (fwDiag_real st a h)

theorem dist_real {B : Meas} {g : MGraph} {st : FW} (h : FWReal g st) {i j : Nat}
    (hne : (st.dist B i j == B.max) = false) : WalkCost g i j (st.dist B i j) := by
  unfold FW.dist at hne ⊢
  cases hd : tget st.d (i, j) with
  | none => simp [hd] at hne
  | some y => simp only [Option.getD_some]; exact h i j y hd

theorem fwStep_real {B : Meas} {g : MGraph} (k i : Nat) (st : FW) (j : Nat) (h : FWReal g st) :
    FWReal g (fwStep B k i st j) := by
  unfold fwStep
  simp only
  split
  · exact h
  · rename_i hc
    simp only [Bool.or_eq_true, not_or, Bool.not_eq_true] at hc
    split
    · rename_i hc2
      simp only [Bool.and_eq_true, Bool.not_eq_true', decide_eq_true_eq] at hc2
      have hex := oadd_exact hc2.1
      intro a b y hy
      simp only [tget_tset] at hy
      split at hy
      · rename_i hk; cases hy; cases hk
        rw [hex]
        exact walk_trans (dist_real h hc.1) (dist_real h hc.2)
      · exact h a b y hy
    · exact h

theorem foldl_inv {α β : Type} (P : α → Prop) (f : α → β → α) (hf : ∀ a b, P a → P (f a b)) :
    ∀ (l : List β) (a : α), P a → P (l.foldl f a) := by
  intro l
  induction l with
  | nil => intro a h; exact h
  | cons b l ih => intro a h; exact ih _ (hf a b h)

theorem fwLoops_real {B : Meas} {g : MGraph} (ord : List Nat) (st : FW) (h : FWReal g st) :
    FWReal g (ord.foldl (fun st k => ord.foldl (fun st i => ord.foldl (fwStep B k i) st) st) st) := by
  apply foldl_inv (FWReal g) _ _ ord st h
  intro st k hst
  apply foldl_inv (FWReal g) _ _ ord st hst
  intro st i hst
  apply foldl_inv (FWReal g) _ _ ord st hst
  intro st j hst
  exact fwStep_real k i st j hst

/-- the matrix just before the final diagonal test -/
def fwMatrix (B : Meas) (v : View) : FW :=
  let ord := ordByIx v
  let st := v.g.edges.foldl (fwInitEdge B v.g.directed) {}
  let st := v.g.nodes.foldl (fwDiag B) st
  ord.foldl (fun st k => ord.foldl (fun st i => ord.foldl (fwStep B k i) st) st) st

theorem fwMatrix_real (B : Meas) (v : View) : FWReal v.g (fwMatrix B v) := by
  unfold fwMatrix
  apply fwLoops_real
  apply fwDiags_real
  apply fwInit_real _ _ (fun e he => he)
  intro i j y hy
  simp [tget] at hy

/-- **floyd_warshall, `Ok`: every finite entry is the cost of a real walk** -/
theorem floydWarshall_real (B : Meas) (v : View) (st : FW) (h : floydWarshall B v = some st) :
    ∀ i j y, tget st.d (i, j) = some y → WalkCost v.g i j y := by
  have hr := fwMatrix_real B v
  unfold floydWarshall at h
  simp only at h
  split at h
  · simp at h
  · cases h; exact hr

/-- **floyd_warshall, `Err` half: never `Err` for a graph without a negative cycle** -/
theorem floydWarshall_err (B : Meas) (hB : 0 ≤ B.max) (v : View) (h : floydWarshall B v = none) :
    NegCycle v.g := by
  have hr := fwMatrix_real B v
  unfold floydWarshall at h
  simp only at h
  split at h
  · rename_i hany
    simp only [List.any_eq_true, decide_eq_true_eq] at hany
    obtain ⟨i, _, hlt⟩ := hany
    change (fwMatrix B v).dist B i i < 0 at hlt
    unfold FW.dist at hlt
    cases hd : tget (fwMatrix B v).d (i, i) with
    | none => simp [hd] at hlt; omega
    | some y =>
      simp only [hd, Option.getD_some] at hlt
      exact ⟨i, y, hr i i y hd, hlt⟩
  · simp at h

theorem mem_of_lookup' {α : Type} {l : List (Nat × α)} {k : Nat} {x : α} (h : l.lookup k = some x) :
    (k, x) ∈ l := by
  induction l with
  | nil => simp at h
  | cons p l ih =>
    obtain ⟨a, b⟩ := p
    rw [List.lookup_cons] at h
    by_cases hka : k = a
    · subst hka; simp at h; subst h; exact List.mem_cons_self ..
    · have : (k == a) = false := by simpa using hka
      rw [this] at h
      exact List.mem_cons_of_mem _ (ih h)

/-- the per-case check of the driver establishes the hypothesis of the model theorems -/
theorem viewArcsB_sound (v : View) (h : viewArcsB v = true) : ViewArcs v := by
  unfold viewArcsB at h
  simp only [Bool.and_eq_true, List.all_eq_true] at h
  obtain ⟨h1, h2⟩ := h
  constructor
  · intro a te hte
    unfold View.outOf at hte
    cases hl : v.out.lookup a with
    | none => simp [hl] at hte
    | some row =>
      simp only [hl, Option.getD_some] at hte
      have := h1 (a, row) (mem_of_lookup' hl) te hte
      simpa using this
  · intro a b w harc
    have := h2 (a, b, w) harc
    simp only [List.any_eq_true, Bool.and_eq_true, beq_iff_eq] at this
    obtain ⟨hn, te, hte, hb, hw⟩ := this
    exact ⟨by simpa using hn, te, hte, hb, hw⟩

/-! ### bellman_ford, `Err` half: the pass-count argument -/

/-- `d'` is pointwise at most `d` (labels only ever decrease) -/
def Below (d d' : Tab Nat Int) : Prop := ∀ a x, tget d a = some x → ∃ y, tget d' a = some y ∧ y ≤ x

theorem Below.refl (d : Tab Nat Int) : Below d d := fun _ x h => ⟨x, h, Int.le_refl _⟩

theorem Below.trans {d1 d2 d3 : Tab Nat Int} (h1 : Below d1 d2) (h2 : Below d2 d3) : Below d1 d3 := by
  intro a x hx
  obtain ⟨y, hy, hle⟩ := h1 a x hx
  obtain ⟨z, hz, hle'⟩ := h2 a y hy
  exact ⟨z, hz, by omega⟩

theorem bfEdge_below (v : View) (i : Nat) (st : BF) (te : Nat × Nat) : Below st.d (bfEdge v i st te).d := by
  unfold bfEdge
  split
  · exact Below.refl _
  · rename_i x hx
    split
    · rename_i hlt
      intro a y hy
      simp only [tget_tset]
      split
      · rename_i haj
        refine ⟨_, rfl, ?_⟩
        have := fltLt_some hlt y (haj ▸ hy)
        omega
      · exact ⟨y, hy, Int.le_refl _⟩
    · exact Below.refl _

theorem bfEdges_below (v : View) (i : Nat) : ∀ (l : List (Nat × Nat)) (st : BF),
    Below st.d (l.foldl (bfEdge v i) st).d := by
  intro l
  induction l with
  | nil => intro st; exact Below.refl _
  | cons te l ih => intro st; simp only [List.foldl_cons]; exact (bfEdge_below v i st te).trans (ih _)

theorem bfNodes_below (v : View) : ∀ (ns : List Nat) (st : BF),
    Below st.d (ns.foldl (fun st i => (v.outOf i).foldl (bfEdge v i) st) st).d := by
  intro ns
  induction ns with
  | nil => intro st; exact Below.refl _
  | cons a ns ih => intro st; simp only [List.foldl_cons]; exact (bfEdges_below v a _ st).trans (ih _)

/-- right after the edge `i → te.1` is processed it is relaxed w.r.t. the label `i` had -/
theorem bfEdge_relaxes (v : View) (i : Nat) (st : BF) (te : Nat × Nat) (x : Int) (hx : tget st.d i = some x) :
    ∃ y, tget (bfEdge v i st te).d te.1 = some y ∧ y ≤ x + v.weight te.2 := by
  unfold bfEdge
  simp only [hx]
  split
  · exact ⟨_, by simp [tget_tset], Int.le_refl _⟩
  · rename_i hlt
    cases hj : tget st.d te.1 with
    | none => simp [fltLt, hj] at hlt
    | some y =>
      simp only [fltLt, hj, decide_eq_true_eq] at hlt
      exact ⟨y, rfl, by omega⟩

/-- one pass relaxes every arc w.r.t. the labels at the start of the pass -/
theorem bfPass_relaxes (v : View) (hv : ViewArcs v) (st : BF) (a b : Nat) (w : Int)
    (harc : (a, b, w) ∈ v.g.arcs) (X : Int) (hX : tget st.d a = some X) :
    ∃ y, tget (bfPass v st).d b = some y ∧ y ≤ X + w := by
  obtain ⟨ha, te, hte, hb, hw⟩ := hv.complete a b w harc
  obtain ⟨l1, l2, hl⟩ := List.append_of_mem ha
  obtain ⟨r1, r2, hr⟩ := List.append_of_mem hte
  unfold bfPass
  rw [hl, List.foldl_append, List.foldl_cons, hr, List.foldl_append, List.foldl_cons]
  -- state after the nodes before `a` and the edges of `a` before `te`
  have h1 := bfNodes_below v l1 st
  obtain ⟨x1, hx1, hle1⟩ := h1 a X hX
  have h2 := bfEdges_below v a r1 (l1.foldl (fun st i => (v.outOf i).foldl (bfEdge v i) st) st)
  obtain ⟨x2, hx2, hle2⟩ := h2 a x1 hx1
  obtain ⟨y, hy, hle3⟩ := bfEdge_relaxes v a _ te x2 hx2
  have h3 := bfEdges_below v a r2 (bfEdge v a (r1.foldl (bfEdge v a)
      (l1.foldl (fun st i => (v.outOf i).foldl (bfEdge v i) st) st)) te)
  obtain ⟨y2, hy2, hle4⟩ := h3 te.1 y hy
  have h4 := bfNodes_below v l2 (r2.foldl (bfEdge v a) (bfEdge v a (r1.foldl (bfEdge v a)
      (l1.foldl (fun st i => (v.outOf i).foldl (bfEdge v i) st) st)) te))
  obtain ⟨y3, hy3, hle5⟩ := h4 te.1 y2 hy2
  rw [← hb]
  exact ⟨y3, hy3, by omega⟩

theorem bfPass_below (v : View) (st : BF) : Below st.d (bfPass v st).d := bfNodes_below v _ st

/-! the `did_update` flag -/

theorem bfEdge_noupd (v : View) (i : Nat) (st : BF) (te : Nat × Nat) (h : (bfEdge v i st te).upd = false) :
    bfEdge v i st te = st ∧ fltLt (tget st.d i) (v.weight te.2) (tget st.d te.1) = false := by
  unfold bfEdge at h ⊢
  split
  · rename_i hn; exact ⟨rfl, by simp [fltLt, hn]⟩
  · rename_i x hx
    simp only [hx] at h
    split
    · rename_i hlt; simp [hlt] at h
    · rename_i hlt; rw [hx]; exact ⟨rfl, by simpa using hlt⟩

theorem bfEdges_noupd (v : View) (i : Nat) : ∀ (l : List (Nat × Nat)) (st : BF),
    (l.foldl (bfEdge v i) st).upd = false →
    l.foldl (bfEdge v i) st = st ∧ ∀ te ∈ l, fltLt (tget st.d i) (v.weight te.2) (tget st.d te.1) = false := by
  intro l
  induction l with
  | nil => intro st _; exact ⟨rfl, by simp⟩
  | cons te l ih =>
    intro st h
    simp only [List.foldl_cons] at h ⊢
    obtain ⟨h1, h2⟩ := ih _ h
    rw [h1] at h
    obtain ⟨h3, h4⟩ := bfEdge_noupd v i st te h
    refine ⟨h1.trans h3, ?_⟩
    intro t ht
    rcases List.mem_cons.mp ht with rfl | ht
    · exact h4
    · have := h2 t ht; rw [h3] at this; exact this

theorem bfNodes_noupd (v : View) : ∀ (ns : List Nat) (st : BF),
    (ns.foldl (fun st i => (v.outOf i).foldl (bfEdge v i) st) st).upd = false →
    ns.foldl (fun st i => (v.outOf i).foldl (bfEdge v i) st) st = st ∧
    ∀ i ∈ ns, ∀ te ∈ v.outOf i, fltLt (tget st.d i) (v.weight te.2) (tget st.d te.1) = false := by
  intro ns
  induction ns with
  | nil => intro st _; exact ⟨rfl, by simp⟩
  | cons a ns ih =>
    intro st h
    simp only [List.foldl_cons] at h ⊢
    obtain ⟨h1, h2⟩ := ih _ h
    rw [h1] at h
    obtain ⟨h3, h4⟩ := bfEdges_noupd v a _ st h
    refine ⟨h1.trans h3, ?_⟩
    intro i hi
    rcases List.mem_cons.mp hi with rfl | hi
    · exact h4
    · have := h2 i hi; rw [h3] at this; exact this

theorem relaxables_eq_nil_of {v : View} {d : Tab Nat Int}
    (h : ∀ i ∈ v.g.nodes, ∀ te ∈ v.outOf i, fltLt (tget d i) (v.weight te.2) (tget d te.1) = false) :
    relaxables v d = [] := by
  unfold relaxables
  rw [List.flatMap_eq_nil_iff]
  intro i hi
  rw [List.filterMap_eq_nil_iff]
  intro te hte
  simp [h i hi te hte]

/-- `k` full passes -/
def passK (v : View) : Nat → BF → BF
  | 0, st => st
  | k+1, st => passK v k (bfPass v { st with upd := false })

theorem passK_succ' (v : View) : ∀ (k : Nat) (st : BF),
    passK v (k+1) st = bfPass v { (passK v k st) with upd := false } := by
  intro k
  induction k with
  | zero => intro st; rfl
  | succ k ih => intro st; rw [passK, ih]; rfl

/-- the early exit is only taken at a fixed point -/
theorem bfRounds_cases (v : View) : ∀ (k : Nat) (st : BF),
    relaxables v (bfRounds v k st).d = [] ∨ bfRounds v k st = passK v k st := by
  intro k
  induction k with
  | zero => intro st; exact Or.inr rfl
  | succ k ih =>
    intro st
    simp only [bfRounds, passK]
    split
    · exact ih _
    · rename_i hupd
      left
      have hupd : (bfPass v { st with upd := false }).upd = false := by simpa using hupd
      obtain ⟨h1, h2⟩ := bfNodes_noupd v v.g.nodes _ hupd
      have : bfPass v { st with upd := false } = { st with upd := false } := h1
      rw [this]
      exact relaxables_eq_nil_of h2

/-- walks with their number of arcs -/
inductive WalkN (g : MGraph) : Nat → Nat → Int → Nat → Prop
  | nil (a : Nat) : WalkN g a a 0 0
  | snoc {a b x : Nat} {c w : Int} {k : Nat} : WalkN g a b c k → (b, x, w) ∈ g.arcs → WalkN g a x (c + w) (k + 1)

theorem passK_below (v : View) : ∀ (k : Nat) (st : BF), Below st.d (passK v k st).d := by
  intro k
  induction k with
  | zero => intro st; exact Below.refl _
  | succ k ih =>
    intro st
    simp only [passK]
    exact (bfPass_below v { st with upd := false }).trans (ih _)

/-- after `k` passes every walk of at most `k` arcs from the source is accounted for -/
theorem passK_lower (v : View) (hv : ViewArcs v) (s : Nat) (st : BF)
    (hsrc : ∃ y, tget st.d s = some y ∧ y ≤ 0) :
    ∀ (k : Nat) (x : Nat) (c : Int) (j : Nat), j ≤ k → WalkN v.g s x c j →
      ∃ y, tget (passK v k st).d x = some y ∧ y ≤ c := by
  intro k
  induction k with
  | zero =>
    intro x c j hj hw
    cases hw with
    | nil => exact hsrc
    | snoc _ _ => omega
  | succ k ih =>
    intro x c j hj hw
    cases hw with
    | nil =>
      obtain ⟨y, hy, hle⟩ := hsrc
      obtain ⟨z, hz, hle'⟩ := passK_below v (k+1) st s y hy
      exact ⟨z, hz, by omega⟩
    | snoc hw' harc =>
      rename_i a c' w j'
      obtain ⟨ya, hya, hle⟩ := ih a c' j' (by omega) hw'
      rw [passK_succ']
      obtain ⟨y, hy, hle'⟩ := bfPass_relaxes v hv { (passK v k st) with upd := false } a x w harc ya hya
      exact ⟨y, hy, by omega⟩

/-! walks as vertex lists (for the pigeonhole / cycle-removal argument) -/

/-- `WalkL g a vs b c`: a walk from `a` through the vertices `vs` (in order, `a` excluded), ending
at `b`, of cost `c` -/
inductive WalkL (g : MGraph) : Nat → List Nat → Nat → Int → Prop
  | nil (a : Nat) : WalkL g a [] a 0
  | cons {a b x : Nat} {vs : List Nat} {w c : Int} : (a, b, w) ∈ g.arcs → WalkL g b vs x c →
      WalkL g a (b :: vs) x (w + c)

theorem WalkL.append {g : MGraph} {a m b : Nat} {vs1 vs2 : List Nat} {c1 c2 : Int}
    (h1 : WalkL g a vs1 m c1) (h2 : WalkL g m vs2 b c2) : WalkL g a (vs1 ++ vs2) b (c1 + c2) := by
  induction h1 with
  | nil => simpa using h2
  | cons harc _ ih =>
    have := WalkL.cons harc (ih h2)
    rw [Int.add_assoc]
    exact this

theorem walkL_of_walk {g : MGraph} {a b : Nat} {c : Int} (h : WalkCost g a b c) :
    ∃ vs, WalkL g a vs b c := by
  induction h with
  | nil => exact ⟨[], WalkL.nil _⟩
  | snoc _ harc ih =>
    obtain ⟨vs, hvs⟩ := ih
    have h1 := WalkL.cons harc (WalkL.nil _)
    have := hvs.append h1
    simp only [Int.add_zero] at this
    exact ⟨_, this⟩

theorem walk_of_walkL {g : MGraph} {a b : Nat} {vs : List Nat} {c : Int} (h : WalkL g a vs b c) :
    WalkCost g a b c := by
  induction h with
  | nil => exact WalkCost.nil _
  | cons harc _ ih => exact walk_trans (walk_single harc) ih

theorem WalkN.cons {g : MGraph} {a b x : Nat} {w c : Int} {k : Nat} (harc : (a, b, w) ∈ g.arcs)
    (h : WalkN g b x c k) : WalkN g a x (w + c) (k + 1) := by
  induction h with
  | nil =>
    have := WalkN.snoc (WalkN.nil a) harc
    simpa [Int.add_comm] using this
  | snoc _ harc' ih =>
    have := WalkN.snoc ih harc'
    rw [Int.add_assoc] at this
    exact this

theorem walkN_of_walkL {g : MGraph} {a b : Nat} {vs : List Nat} {c : Int} (h : WalkL g a vs b c) :
    WalkN g a b c vs.length := by
  induction h with
  | nil => exact WalkN.nil _
  | cons harc _ ih => exact WalkN.cons harc ih

/-- split a walk at an inner vertex -/
theorem WalkL.split {g : MGraph} : ∀ (vs1 : List Nat) {a u b : Nat} {vs2 : List Nat} {c : Int},
    WalkL g a (vs1 ++ u :: vs2) b c →
    ∃ c1 c2, WalkL g a (vs1 ++ [u]) u c1 ∧ WalkL g u vs2 b c2 ∧ c = c1 + c2 := by
  intro vs1
  induction vs1 with
  | nil =>
    intro a u b vs2 c h
    cases h with
    | cons harc h' =>
      rename_i w c'
      refine ⟨w, c', ?_, h', rfl⟩
      have := WalkL.cons harc (WalkL.nil u)
      simpa using this
  | cons x vs1 ih =>
    intro a u b vs2 c h
    cases h with
    | cons harc h' =>
      rename_i w c'
      obtain ⟨c1, c2, h1, h2, hc⟩ := ih h'
      exact ⟨w + c1, c2, WalkL.cons harc h1, h2, by omega⟩

theorem WalkL.mem_nodes {g : MGraph} (hwf : g.WellFormed) {a b : Nat} {vs : List Nat} {c : Int}
    (h : WalkL g a vs b c) : ∀ u ∈ vs, u ∈ g.nodes := by
  induction h with
  | nil => simp
  | cons harc _ ih =>
    intro u hu
    rcases List.mem_cons.mp hu with rfl | hu
    · obtain ⟨e, he, _, hor⟩ := mem_arcs.mp harc
      rcases hor with ⟨_, h2⟩ | ⟨_, h1, _⟩
      · exact h2 ▸ (hwf.2 e he).2
      · exact h1 ▸ (hwf.2 e he).1
    · exact ih u hu

theorem exists_dup {l : List Nat} (h : ¬ l.Nodup) : ∃ u p1 p2 p3, l = p1 ++ u :: p2 ++ u :: p3 := by
  induction l with
  | nil => exact absurd List.nodup_nil h
  | cons a t ih =>
    by_cases hat : a ∈ t
    · obtain ⟨p2, p3, ht⟩ := List.append_of_mem hat
      exact ⟨a, [], p2, p3, by simp [ht]⟩
    · have : ¬ t.Nodup := fun hn => h (List.nodup_cons.mpr ⟨hat, hn⟩)
      obtain ⟨u, p1, p2, p3, ht⟩ := ih this
      exact ⟨u, a :: p1, p2, p3, by simp [ht]⟩

/-- without a reachable negative cycle every walk from `s` can be made simple at no extra cost -/
theorem shorten {g : MGraph} {s : Nat} (hno : ¬ NegCycleReachable g s) :
    ∀ (k : Nat) (vs : List Nat) (b : Nat) (c : Int), vs.length ≤ k → WalkL g s vs b c →
      ∃ vs' c', WalkL g s vs' b c' ∧ c' ≤ c ∧ (s :: vs').Nodup := by
  intro k
  induction k with
  | zero =>
    intro vs b c hk h
    have : vs = [] := by cases vs with | nil => rfl | cons _ _ => simp at hk
    subst this
    exact ⟨[], c, h, Int.le_refl _, by simp⟩
  | succ k ih =>
    intro vs b c hk h
    by_cases hnd : (s :: vs).Nodup
    · exact ⟨vs, c, h, Int.le_refl _, hnd⟩
    · obtain ⟨u, p1, p2, p3, hl⟩ := exists_dup hnd
      cases p1 with
      | nil =>
        -- the repeated vertex is `s` itself
        simp only [List.nil_append, List.cons_append, List.cons.injEq] at hl
        obtain ⟨hu, hvs⟩ := hl
        subst hu
        subst hvs
        obtain ⟨c1, c2, h1, h2, hc⟩ := WalkL.split p2 h
        have hc1 : 0 ≤ c1 := by
          apply Int.not_lt.mp
          intro hneg
          exact hno ⟨s, 0, c1, WalkCost.nil _, walk_of_walkL h1, hneg⟩
        have hlen : p3.length ≤ k := by simp at hk; omega
        obtain ⟨vs', c', h', hle, hnd'⟩ := ih p3 b c2 hlen h2
        exact ⟨vs', c', h', by omega, hnd'⟩
      | cons x p1 =>
        simp only [List.cons_append, List.cons.injEq] at hl
        obtain ⟨hx, hvs⟩ := hl
        subst hx
        have hvs' : vs = p1 ++ u :: (p2 ++ u :: p3) := by simp [hvs]
        subst hvs'
        obtain ⟨c1, c23, h1, h23, hc⟩ := WalkL.split p1 h
        obtain ⟨c2, c3, h2, h3, hc'⟩ := WalkL.split p2 h23
        have hc2 : 0 ≤ c2 := by
          apply Int.not_lt.mp
          intro hneg
          exact hno ⟨u, c1, c2, walk_of_walkL h1, walk_of_walkL h2, hneg⟩
        have hnew := h1.append h3
        have hlen : (p1 ++ [u] ++ p3).length ≤ k := by
          simp at hk ⊢; omega
        obtain ⟨vs', c', h', hle, hnd'⟩ := ih _ b (c1 + c3) hlen hnew
        exact ⟨vs', c', h', by omega, hnd'⟩

/-- **bellman_ford, `Err` half.**  The mirror model never reports `NegativeCycle` unless a closed
walk of negative cost is reachable from the source. -/
theorem bellmanFord_err (v : View) (hv : ViewArcs v) (hwf : v.g.WellFormed) (s : Nat) (hs : s ∈ v.g.nodes)
    (h : bellmanFord v s = none) : NegCycleReachable v.g s := by
  apply Classical.byContradiction
  intro hno
  unfold bellmanFord at h
  simp only at h
  split at h
  · simp at h
  · rename_i hne
    -- all `|V| - 1` passes were executed
    have hst : bfRelax v s = passK v (v.g.nodes.length - 1) (bfInit s) := by
      rcases bfRounds_cases v (v.g.nodes.length - 1) (bfInit s) with h1 | h1
      · unfold bfRelax at hne; rw [h1] at hne; simp at hne
      · exact h1
    have inv := bfRelax_inv v hv s
    -- a relaxable arc
    have hex : ∃ i j, (i, j) ∈ relaxables v (bfRelax v s).d := by
      cases hr : relaxables v (bfRelax v s).d with
      | nil => rw [hr] at hne; simp at hne
      | cons e l => exact ⟨e.1, e.2, by simp⟩
    obtain ⟨i, j, hij⟩ := hex
    unfold relaxables at hij
    simp only [List.mem_flatMap, List.mem_filterMap] at hij
    obtain ⟨i', _, te, hte, hif⟩ := hij
    split at hif
    · rename_i hlt
      simp only [Option.some.injEq, Prod.mk.injEq] at hif
      obtain ⟨hi', hj'⟩ := hif
      subst hi'
      have harc := hv.sound i' te hte
      cases hx : tget (bfRelax v s).d i' with
      | none => simp [fltLt, hx] at hlt
      | some x =>
        rw [hx] at hlt
        have hw : WalkCost v.g s te.1 (x + v.weight te.2) := WalkCost.snoc (inv.real i' x hx) harc
        obtain ⟨vs, hvs⟩ := walkL_of_walk hw
        obtain ⟨vs', c', hvs', hle, hnd⟩ := shorten hno vs.length vs te.1 _ (Nat.le_refl _) hvs
        have hsub : (s :: vs') ⊆ v.g.nodes := by
          intro u hu
          rcases List.mem_cons.mp hu with rfl | hu
          · exact hs
          · exact hvs'.mem_nodes hwf u hu
        have hlen := List.Nodup.length_le_of_subset hnd hsub
        simp only [List.length_cons] at hlen
        obtain ⟨y, hy, hyle⟩ := passK_lower v hv s (bfInit s) (bfInit_inv v.g s).src
          (v.g.nodes.length - 1) te.1 c' vs'.length (by omega) (walkN_of_walkL hvs')
        rw [← hst] at hy
        have := fltLt_some hlt y hy
        omega
    · simp at hif

/-! ### the predecessor entries form a tree -/

/-- `GDesc g d p j x c`: the predecessor entries `p` lead from `j` down to `x` along arcs of total
cost `c`, each arc `u → x'` on the way "good": `d u + w ≤ d x'` -/
inductive GDesc (g : MGraph) (d : Tab Nat Int) (p : Tab Nat Nat) (j : Nat) : Nat → Int → Prop
  | root : GDesc g d p j j 0
  | step {u x : Nat} {c w a b : Int} : GDesc g d p j u c → tget p x = some u → (u, x, w) ∈ g.arcs →
      tget d u = some a → tget d x = some b → a + w ≤ b → GDesc g d p j x (c + w)

theorem GDesc.walk {g : MGraph} {d : Tab Nat Int} {p : Tab Nat Nat} {j x : Nat} {c : Int}
    (h : GDesc g d p j x c) : WalkCost g j x c := by
  induction h with
  | root => exact WalkCost.nil _
  | step _ _ harc _ _ _ ih => exact WalkCost.snoc ih harc

theorem GDesc.tree {g : MGraph} {d : Tab Nat Int} {p : Tab Nat Nat} {s x : Nat} {c : Int}
    (h : GDesc g d p s x c) : TreeWalk g (tget p) s x c := by
  induction h with
  | root => exact TreeWalk.root
  | step _ hp harc _ _ _ ih => exact TreeWalk.step ih hp harc

/-- telescoping the good arcs -/
theorem GDesc.cost_le {g : MGraph} {d : Tab Nat Int} {p : Tab Nat Nat} {j x : Nat} {c : Int}
    (h : GDesc g d p j x c) : ∀ a b, tget d j = some a → tget d x = some b → c ≤ b - a := by
  induction h with
  | root => intro a b ha hb; rw [ha] at hb; cases hb; omega
  | step _ _ _ hu hx hle ih =>
    intro a0 b0 ha0 hb0
    rw [hx] at hb0; cases hb0
    have := ih a0 _ ha0 hu
    omega

theorem GDesc.label {g : MGraph} {d : Tab Nat Int} {p : Tab Nat Nat} {j x : Nat} {c : Int}
    (h : GDesc g d p j x c) (hj : ∃ a, tget d j = some a) : ∃ b, tget d x = some b := by
  cases h with
  | root => exact hj
  | step _ _ _ _ hx _ => exact ⟨_, hx⟩

theorem GDesc.trans {g : MGraph} {d : Tab Nat Int} {p : Tab Nat Nat} {j m x : Nat} {c1 c2 : Int}
    (h1 : GDesc g d p j m c1) (h2 : GDesc g d p m x c2) : GDesc g d p j x (c1 + c2) := by
  induction h2 with
  | root => simpa using h1
  | step _ hp harc hu hx hle ih =>
    rw [← Int.add_assoc]
    exact GDesc.step ih hp harc hu hx hle

/-- every labelled node hangs in the tree below the source -/
def TreeInv (g : MGraph) (s : Nat) (d : Tab Nat Int) (p : Tab Nat Nat) : Prop :=
  ∀ x y, tget d x = some y → ∃ c, GDesc g d p s x c

/-- lemma A: after the update `j ← i`, an old tree path either survives or passed through `j` -/
theorem gdesc_update {g : MGraph} {d : Tab Nat Int} {p : Tab Nat Nat} {s i j : Nat} {nv : Int}
    (hdec : ∀ y, tget d j = some y → nv ≤ y) {x : Nat} {c : Int} (h : GDesc g d p s x c) :
    GDesc g (tset d j nv) (tset p j i) s x c ∨
    ∃ c1 c2, GDesc g d p s j c1 ∧ GDesc g d p j x c2 := by
  induction h with
  | root => exact Or.inl GDesc.root
  | step hprev hp harc hu hx hle ih =>
    rename_i u x c w a b
    rcases ih with hl | ⟨c1, c2, h1, h2⟩
    · by_cases hxj : x = j
      · right
        subst hxj
        exact ⟨_, 0, GDesc.step hprev hp harc hu hx hle, GDesc.root⟩
      · left
        by_cases huj : u = j
        · subst huj
          refine GDesc.step (a := nv) (b := b) hl (by simp [tget_tset, hxj, hp]) harc (by simp [tget_tset]) (by simp [tget_tset, hxj, hx]) ?_
          have := hdec a hu
          omega
        · exact GDesc.step hl (by simp [tget_tset, hxj, hp]) harc (by simp [tget_tset, huj, hu])
            (by simp [tget_tset, hxj, hx]) hle
    · right
      exact ⟨c1, _, h1, GDesc.step h2 hp harc hu hx hle⟩

/-- a successful relaxation keeps the tree, unless the graph has a reachable negative cycle -/
theorem tree_update {g : MGraph} {s : Nat} {d : Tab Nat Int} {p : Tab Nat Nat}
    (hno : ¬ NegCycleReachable g s) (hsrc : ∃ y, tget d s = some y)
    (h : TreeInv g s d p) {i j : Nat} {w x : Int} (hx : tget d i = some x) (harc : (i, j, w) ∈ g.arcs)
    (hlt : ∀ y, tget d j = some y → x + w < y) : TreeInv g s (tset d j (x + w)) (tset p j i) := by
  have hdec : ∀ y, tget d j = some y → x + w ≤ y := fun y hy => by have := hlt y hy; omega
  -- the new path to `j`
  have hj : ∃ c, GDesc g (tset d j (x + w)) (tset p j i) s j c := by
    obtain ⟨ci, hci⟩ := h i x hx
    rcases gdesc_update (i := i) hdec hci with hl | ⟨c1, c2, h1, h2⟩
    · by_cases hij : i = j
      · -- a self-loop: the old path to `i = j` together with the loop is a negative cycle
        subst hij
        exfalso
        have := hlt x hx
        apply hno
        exact ⟨i, ci, w, hci.walk, walk_single harc, by omega⟩
      · exact ⟨_, GDesc.step (a := x) (b := x + w) hl (by simp [tget_tset]) harc (by simp [tget_tset, hij, hx]) (by simp [tget_tset])
          (Int.le_refl _)⟩
    · -- `j` is an ancestor of `i`: the tree path `j ⇝ i` and the arc `i → j` close a negative cycle
      exfalso
      obtain ⟨yj, hyj⟩ := h1.label hsrc
      have hc2 := h2.cost_le yj x hyj hx
      have := hlt yj hyj
      apply hno
      exact ⟨j, c1, c2 + w, h1.walk, WalkCost.snoc h2.walk harc, by omega⟩
  obtain ⟨cj, hcj⟩ := hj
  intro z y hz
  by_cases hzj : z = j
  · subst hzj; exact ⟨cj, hcj⟩
  · rw [tget_tset, if_neg hzj] at hz
    obtain ⟨c, hc⟩ := h z y hz
    rcases gdesc_update (i := i) hdec hc with hl | ⟨c1, c2, _, h2⟩
    · exact ⟨c, hl⟩
    · -- re-root the part below `j` onto the new path to `j`
      have hsub : ∀ {x' : Nat} {c' : Int}, GDesc g d p j x' c' →
          ∃ c'', GDesc g (tset d j (x + w)) (tset p j i) s x' c'' := by
        intro x' c' hd
        induction hd with
        | root => exact ⟨cj, hcj⟩
        | step hprev hp harc' hu hx' hle ih =>
          rename_i u x'' c0 w0 a b
          obtain ⟨c'', hc''⟩ := ih
          by_cases hxj : x'' = j
          · subst hxj; exact ⟨cj, hcj⟩
          · by_cases huj : u = j
            · subst huj
              refine ⟨_, GDesc.step (a := x + w) (b := b) hc'' (by simp [tget_tset, hxj, hp]) harc' (by simp [tget_tset])
                (by simp [tget_tset, hxj, hx']) ?_⟩
              have := hdec a hu
              omega
            · exact ⟨_, GDesc.step hc'' (by simp [tget_tset, hxj, hp]) harc' (by simp [tget_tset, huj, hu])
                (by simp [tget_tset, hxj, hx']) hle⟩
      exact hsub h2

theorem treeInv_init (g : MGraph) (s : Nat) : TreeInv g s [(s, 0)] [] := by
  intro x y h
  obtain ⟨rfl, _⟩ := tget_single h
  exact ⟨0, GDesc.root⟩

/-! bellman_ford -/

theorem bfEdge_tree {g : MGraph} {s : Nat} (hno : ¬ NegCycleReachable g s) (v : View) (i : Nat)
    (te : Nat × Nat) (st : BF) (harc : (i, te.1, v.weight te.2) ∈ g.arcs)
    (hc : Core g s st.d st.p) (h : TreeInv g s st.d st.p) :
    TreeInv g s (bfEdge v i st te).d (bfEdge v i st te).p := by
  unfold bfEdge
  split
  · exact h
  · rename_i x hx
    split
    · rename_i hlt
      obtain ⟨y0, hy0, _⟩ := hc.src
      exact tree_update hno ⟨y0, hy0⟩ h hx harc (fltLt_some hlt)
    · exact h

theorem bfEdges_tree {g : MGraph} {s : Nat} (hno : ¬ NegCycleReachable g s) (v : View) (i : Nat) :
    ∀ (l : List (Nat × Nat)) (st : BF), (∀ te ∈ l, (i, te.1, v.weight te.2) ∈ g.arcs) →
      Core g s st.d st.p → TreeInv g s st.d st.p →
      TreeInv g s (l.foldl (bfEdge v i) st).d (l.foldl (bfEdge v i) st).p := by
  intro l
  induction l with
  | nil => intro st _ _ h; exact h
  | cons te l ih =>
    intro st hl hc h
    simp only [List.foldl_cons]
    have harc := hl te (List.mem_cons_self ..)
    exact ih _ (fun t ht => hl t (List.mem_cons_of_mem _ ht)) (bfEdge_inv v i te st harc hc)
      (bfEdge_tree hno v i te st harc hc h)

theorem bfNodes_tree {s : Nat} (v : View) (hv : ViewArcs v) (hno : ¬ NegCycleReachable v.g s) :
    ∀ (ns : List Nat) (st : BF), Core v.g s st.d st.p → TreeInv v.g s st.d st.p →
      TreeInv v.g s (ns.foldl (fun st i => (v.outOf i).foldl (bfEdge v i) st) st).d
        (ns.foldl (fun st i => (v.outOf i).foldl (bfEdge v i) st) st).p := by
  intro ns
  induction ns with
  | nil => intro st _ h; exact h
  | cons a ns ih =>
    intro st hc h
    simp only [List.foldl_cons]
    exact ih _ (bfEdges_inv v a _ st (hv.sound a) hc) (bfEdges_tree hno v a _ st (hv.sound a) hc h)

theorem bfRounds_tree {s : Nat} (v : View) (hv : ViewArcs v) (hno : ¬ NegCycleReachable v.g s) :
    ∀ (k : Nat) (st : BF), Core v.g s st.d st.p → TreeInv v.g s st.d st.p →
      TreeInv v.g s (bfRounds v k st).d (bfRounds v k st).p := by
  intro k
  induction k with
  | zero => intro st _ h; exact h
  | succ k ih =>
    intro st hc h
    have hc' : Core v.g s (bfPass v { st with upd := false }).d (bfPass v { st with upd := false }).p :=
      bfPass_inv v hv _ ⟨hc.real, hc.src, hc.predArc, hc.predSome, hc.predSrc⟩
    have h' : TreeInv v.g s (bfPass v { st with upd := false }).d (bfPass v { st with upd := false }).p :=
      bfNodes_tree v hv hno v.g.nodes { st with upd := false } ⟨hc.real, hc.src, hc.predArc, hc.predSome, hc.predSrc⟩ h
    simp only [bfRounds]
    split
    · exact ih _ hc' h'
    · exact h'

/-- **bellman_ford, the predecessor tree.**  In an `Ok` result the predecessor entries lead from
the source to every reachable node along arcs of the graph, at exactly its distance. -/
theorem bellmanFord_tree (v : View) (hv : ViewArcs v) (s : Nat) (st : BF) (h : bellmanFord v s = some st) :
    ∀ x y, tget st.d x = some y → TreeWalk v.g (tget st.p) s x y := by
  obtain ⟨hex, _, hno, _, _⟩ := bellmanFord_ok v hv s st h
  have hst : st = bfRelax v s := by
    unfold bellmanFord at h
    simp only at h
    split at h
    · cases h; rfl
    · simp at h
  have htree : TreeInv v.g s st.d st.p := by
    rw [hst]
    exact bfRounds_tree v hv hno _ _ (bfInit_inv v.g s) (treeInv_init v.g s)
  have inv : Core v.g s st.d st.p := by rw [hst]; exact bfRelax_inv v hv s
  intro x y hx
  obtain ⟨c, hc⟩ := htree x y hx
  obtain ⟨y0, hy0, _⟩ := inv.src
  have h0 : y0 = 0 := by
    have := (hex s y0 hy0).2 0 (WalkCost.nil _)
    have h2 := hc.cost_le y0 y hy0 hx
    have h3 := (hex s y0 hy0).1
    -- y0 ≤ 0 and y0 is a real closed-walk cost; no negative cycle
    apply Int.le_antisymm this
    apply Int.not_lt.mp
    intro hneg
    exact hno ⟨s, 0, y0, WalkCost.nil _, h3, hneg⟩
  subst h0
  have h1 := hc.cost_le 0 y hy0 hx
  have h2 := (hex x y hx).2 c hc.walk
  have : c = y := by omega
  subst this
  exact hc.tree

/-! spfa -/

theorem spEdge_tree {B : Meas} {v : View} {s i : Nat} {te : Nat × Nat} {rest : List (Nat × Nat)} {st : SP}
    (hno : ¬ NegCycleReachable v.g s)
    (h : SPEdgeInv B v s i (te :: rest) st) (harc : (i, te.1, v.weight te.2) ∈ v.g.arcs)
    (ht : TreeInv v.g s st.d st.p) : TreeInv v.g s (spEdge B v i st te).d (spEdge B v i st te).p := by
  obtain ⟨xi, hxi⟩ := h.iLab
  obtain ⟨y0, hy0, _⟩ := h.inv.core.src
  unfold spEdge
  simp only [hxi, Option.getD_some]
  split
  · rename_i hc
    simp only [Bool.and_eq_true, Bool.not_eq_true', decide_eq_true_eq] at hc
    have hex := oadd_exact hc.1
    have hlt' : ∀ y, tget st.d te.1 = some y → xi + v.weight te.2 < y := by
      intro y hy
      have := hc.2
      rw [hex, hy] at this
      simpa using this
    have hres := tree_update hno ⟨y0, hy0⟩ ht hxi harc hlt'
    split
    · simp only [hex]; exact hres
    · simp only [hex]; exact hres
  · exact ht

theorem spEdges_tree {B : Meas} {v : View} {s i : Nat} (hno : ¬ NegCycleReachable v.g s) :
    ∀ (rest : List (Nat × Nat)) (st : SP), SPEdgeInv B v s i rest st →
      (∀ te ∈ rest, (i, te.1, v.weight te.2) ∈ v.g.arcs) → TreeInv v.g s st.d st.p →
      TreeInv v.g s (rest.foldl (spEdge B v i) st).d (rest.foldl (spEdge B v i) st).p := by
  intro rest
  induction rest with
  | nil => intro st _ _ ht; exact ht
  | cons te rest ih =>
    intro st h harcs ht
    simp only [List.foldl_cons]
    have harc := harcs te (List.mem_cons_self ..)
    exact ih _ (spEdge_inv h harc) (fun t ht' => harcs t (List.mem_cons_of_mem _ ht'))
      (spEdge_tree hno h harc ht)

theorem spLoop_tree {B : Meas} {v : View} (hv : ViewArcs v) {s : Nat} (hno : ¬ NegCycleReachable v.g s) :
    ∀ (f : Nat) (st st' : SP), SPLoopInv B v s st → TreeInv v.g s st.d st.p →
      spLoop B v f st = some (some st') → TreeInv v.g s st'.d st'.p := by
  intro f
  induction f with
  | zero => intro st st' _ _ h; simp [spLoop] at h
  | succ f ih =>
    intro st st' hinv ht h
    simp only [spLoop] at h
    split at h
    · cases h; exact ht
    · rename_i i q hq
      split at h
      · simp at h
      · have hedge := spPop_edgeInv hv hinv hq
        exact ih _ st' (spEdgeInv_done (spEdges_inv _ _ hedge (hv.sound i)))
          (spEdges_tree hno _ _ hedge (hv.sound i) ht) h

/-- **spfa, the predecessor tree** (under the hypotheses of `spfa_ok`) -/
theorem spfa_tree (B : Meas) (hB : 0 < B.max) (v : View) (hv : ViewArcs v) (s : Nat) (st : SP)
    (h : spfa B v s = some (some st))
    (hfit : ∀ a b w, (a, b, w) ∈ v.g.arcs → ∀ x, tget st.d a = some x → B.min ≤ x + w ∧ x + w < B.max) :
    ∀ x y, tget st.d x = some y → TreeWalk v.g (tget st.p) s x y := by
  obtain ⟨hex, _, hno, _, _⟩ := spfa_ok B hB v hv s st h hfit
  have h' := h
  unfold spfa at h'
  obtain ⟨hinv, _⟩ := spLoop_inv hv _ _ st (spInit_inv hB v s) h'
  have htree : TreeInv v.g s st.d st.p :=
    spLoop_tree hv hno _ _ st (spInit_inv hB v s) (treeInv_init v.g s) h'
  have inv := hinv.inv.core
  intro x y hx
  obtain ⟨c, hc⟩ := htree x y hx
  obtain ⟨y0, hy0, _⟩ := inv.src
  have h0 : y0 = 0 := by
    have := (hex s y0 hy0).1.2 0 (WalkCost.nil _)
    have h3 := (hex s y0 hy0).1.1
    apply Int.le_antisymm this
    apply Int.not_lt.mp
    intro hneg
    exact hno ⟨s, 0, y0, WalkCost.nil _, h3, hneg⟩
  subst h0
  have h1 := hc.cost_le 0 y hy0 hx
  have h2 := (hex x y hx).1.2 c hc.walk
  have : c = y := by omega
  subst this
  exact hc.tree

theorem nodupB_sound : ∀ (l : List Nat), nodupB l = true → l.Nodup := by
  intro l
  induction l with
  | nil => intro _; exact List.nodup_nil
  | cons a t ih =>
    intro h
    simp only [nodupB, Bool.and_eq_true, Bool.not_eq_true', List.contains_eq_mem, decide_eq_false_iff_not] at h
    exact List.nodup_cons.mpr ⟨h.1, ih h.2⟩

theorem wfB_sound (g : MGraph) (h : wfB g = true) : g.WellFormed := by
  unfold wfB at h
  simp only [Bool.and_eq_true, List.all_eq_true] at h
  refine ⟨nodupB_sound _ h.1, ?_⟩
  intro e he
  have := h.2 e he
  simpa using this

/-! ### spfa, `Err` half: the FIFO pass argument -/

/-- hypotheses of the `Err` half -/
structure SpHyp (B : Meas) (v : View) (s : Nat) : Prop where
  va : ViewArcs v
  wf : v.g.WellFormed
  hs : s ∈ v.g.nodes
  nb : v.g.nodes.length ≤ v.nb
  hno : ¬ NegCycleReachable v.g s
  /-- every walk from the source with at most `|V|` arcs has a cost that fits the cost type -/
  fit : ∀ x c j, j ≤ v.g.nodes.length → WalkN v.g s x c j → B.min ≤ c ∧ c < B.max

theorem SpHyp.pos {B : Meas} {v : View} {s : Nat} (H : SpHyp B v s) : 0 < B.max :=
  (H.fit s 0 0 (Nat.zero_le _) (WalkN.nil s)).2

/-- without a reachable negative cycle, below every walk there is one with fewer than `|V|` arcs -/
theorem simple_below {B : Meas} {v : View} {s : Nat} (H : SpHyp B v s) {x : Nat} {c : Int}
    (hw : WalkCost v.g s x c) : ∃ c' j, j + 1 ≤ v.g.nodes.length ∧ WalkN v.g s x c' j ∧ c' ≤ c := by
  obtain ⟨vs, hvs⟩ := walkL_of_walk hw
  obtain ⟨vs', c', hvs', hle, hnd⟩ := shorten H.hno vs.length vs x c (Nat.le_refl _) hvs
  have hsub : (s :: vs') ⊆ v.g.nodes := by
    intro u hu
    rcases List.mem_cons.mp hu with rfl | hu
    · exact H.hs
    · exact hvs'.mem_nodes H.wf u hu
  have hlen := List.Nodup.length_le_of_subset hnd hsub
  simp only [List.length_cons] at hlen
  exact ⟨c', vs'.length, hlen, walkN_of_walkL hvs', hle⟩

theorem walk_ge_min {B : Meas} {v : View} {s : Nat} (H : SpHyp B v s) {x : Nat} {c : Int}
    (hw : WalkCost v.g s x c) : B.min ≤ c := by
  obtain ⟨c', j, hj, hwn, hle⟩ := simple_below H hw
  have := (H.fit x c' j (by omega) hwn).1
  omega

theorem lab_some {B : Meas} {d : Tab Nat Int} {x : Nat} {y : Int} (h : tget d x = some y) : lab B d x = y := by
  simp [lab, h]

theorem lab_tset (B : Meas) (d : Tab Nat Int) (j x : Nat) (nv : Int) :
    lab B (tset d j nv) x = if x = j then nv else lab B d x := by
  unfold lab
  rw [tget_tset]
  split <;> simp

/-- walks of at most `k` arcs are accounted for -/
def LBk (B : Meas) (g : MGraph) (s : Nat) (d : Tab Nat Int) (k : Nat) : Prop :=
  ∀ x c j, j ≤ k → WalkN g s x c j → lab B d x ≤ c

theorem walk_of_walkN {g : MGraph} {a b : Nat} {c : Int} {k : Nat} (h : WalkN g a b c k) : WalkCost g a b c := by
  induction h with
  | nil => exact WalkCost.nil _
  | snoc _ harc ih => exact WalkCost.snoc ih harc

/-- under the hypotheses an unrelaxed-looking arc out of a labelled node is relaxed after all -/
theorem rel_strong {B : Meas} {v : View} {s : Nat} (H : SpHyp B v s) {d : Tab Nat Int}
    (hreal : ∀ x y, tget d x = some y → WalkCost v.g s x y)
    (hb : ∀ x y, tget d x = some y → y < B.max)
    {a b : Nat} {w x : Int} (harc : (a, b, w) ∈ v.g.arcs) (hrel : Rel B d a b w) (hx : tget d a = some x) :
    lab B d b ≤ x + w := by
  rcases hrel x hx with hov | hle
  · have hmin := walk_ge_min H (WalkCost.snoc (hreal a x hx) harc)
    have hmax := lab_le_max hb b
    unfold Meas.oadd at hov
    simp only at hov
    split at hov
    · omega
    · split at hov
      · omega
      · simp at hov
  · exact hle

structure PassEdgeInv (B : Meas) (v : View) (s : Nat) (st : SP) (k i : Nat) (cur nxt : List Nat)
    (rest : List (Nat × Nat)) : Prop where
  edge : SPEdgeInv B v s i rest st
  hq : st.q = cur ++ nxt
  qSub : ∀ x ∈ st.q, x ∈ st.inq
  qNodup : st.q.Nodup
  lb : LBk B v.g s st.d k
  ext : ∀ u x w, (u, x, w) ∈ v.g.arcs →
    u ∈ cur ∨ (u = i ∧ ∃ te ∈ rest, te.1 = x ∧ v.weight te.2 = w) ∨
    ∀ c j, j ≤ k → WalkN v.g s u c j → lab B st.d x ≤ c + w
  kle : k + 1 ≤ v.g.nodes.length
  nxtle : nxt ≠ [] → k + 2 ≤ v.g.nodes.length
  vis : ∀ x, (tget st.visits x).getD 0 ≤ k + 1
  visCur : ∀ x ∈ cur, (tget st.visits x).getD 0 ≤ k

theorem spEdge_char (B : Meas) (v : View) (i : Nat) (st : SP) (te : Nat × Nat) {xi : Int}
    (hxi : tget st.d i = some xi) :
    (¬ ((B.oadd xi (v.weight te.2)).2 = false ∧ (B.oadd xi (v.weight te.2)).1 < lab B st.d te.1) ∧
      spEdge B v i st te = st) ∨
    (((B.oadd xi (v.weight te.2)).2 = false ∧ (B.oadd xi (v.weight te.2)).1 < lab B st.d te.1) ∧
      (spEdge B v i st te).d = tset st.d te.1 (B.oadd xi (v.weight te.2)).1 ∧
      (spEdge B v i st te).p = tset st.p te.1 i ∧
      (spEdge B v i st te).visits = st.visits ∧
      ((te.1 ∈ st.inq ∧ (spEdge B v i st te).q = st.q ∧ (spEdge B v i st te).inq = st.inq) ∨
       (te.1 ∉ st.inq ∧ (spEdge B v i st te).q = st.q ++ [te.1] ∧ (spEdge B v i st te).inq = te.1 :: st.inq))) := by
  unfold spEdge lab
  simp only [hxi, Option.getD_some]
  split
  · rename_i hc
    simp only [Bool.and_eq_true, Bool.not_eq_true', decide_eq_true_eq] at hc
    right
    refine ⟨hc, ?_⟩
    split
    · rename_i hin
      exact ⟨rfl, rfl, rfl, Or.inl ⟨by simpa using hin, rfl, rfl⟩⟩
    · rename_i hin
      exact ⟨rfl, rfl, rfl, Or.inr ⟨by simpa using hin, rfl, rfl⟩⟩
  · rename_i hc
    simp only [Bool.and_eq_true, Bool.not_eq_true', decide_eq_true_eq] at hc
    exact Or.inl ⟨hc, rfl⟩

theorem passEdge_step {B : Meas} {v : View} {s : Nat} (H : SpHyp B v s) {st : SP} {k i : Nat}
    {cur nxt : List Nat} {te : Nat × Nat} {rest : List (Nat × Nat)}
    (h : PassEdgeInv B v s st k i cur nxt (te :: rest)) (harc : (i, te.1, v.weight te.2) ∈ v.g.arcs) :
    ∃ nxt', PassEdgeInv B v s (spEdge B v i st te) k i cur nxt' rest := by
  have E := spEdge_inv h.edge harc
  obtain ⟨xi, hxi⟩ := h.edge.iLab
  have hreal := h.edge.inv.core.real
  have hbnd := h.edge.inv.bounded
  have hxile : ∀ c j, j ≤ k → WalkN v.g s i c j → xi ≤ c := by
    intro c j hj hw
    have := h.lb i c j hj hw
    rwa [lab_some hxi] at this
  have hwalk : WalkCost v.g s te.1 (xi + v.weight te.2) := WalkCost.snoc (hreal i xi hxi) harc
  rcases spEdge_char B v i st te hxi with ⟨hnc, heq⟩ | ⟨hc, hd, hp, hvis, hqq⟩
  · -- no update
    have hrelaxed : lab B st.d te.1 ≤ xi + v.weight te.2 := by
      have hmin := walk_ge_min H hwalk
      have hmax := lab_le_max hbnd te.1
      cases hov : (B.oadd xi (v.weight te.2)).2 with
      | true =>
        unfold Meas.oadd at hov
        simp only at hov
        split at hov
        · omega
        · split at hov
          · omega
          · simp at hov
      | false =>
        have hex := oadd_exact hov
        have : ¬ ((B.oadd xi (v.weight te.2)).1 < lab B st.d te.1) := fun hlt => hnc ⟨hov, hlt⟩
        omega
    rw [heq] at E ⊢
    refine ⟨nxt, E, h.hq, h.qSub, h.qNodup, h.lb, ?_, h.kle, h.nxtle, h.vis, h.visCur⟩
    intro u x w0 hmem
    rcases h.ext u x w0 hmem with h1 | ⟨hui, te', hte', hx, hw⟩ | h1
    · exact Or.inl h1
    · rcases List.mem_cons.mp hte' with rfl | hte'
      · right; right
        intro c j hj hwn
        have := hxile c j hj (hui ▸ hwn)
        rw [← hx, ← hw]
        omega
      · exact Or.inr (Or.inl ⟨hui, te', hte', hx, hw⟩)
    · exact Or.inr (Or.inr h1)
  · -- update
    have hex := oadd_exact hc.1
    rw [hex] at hd
    have hlt : xi + v.weight te.2 < lab B st.d te.1 := by rw [← hex]; exact hc.2
    have hk2 : k + 2 ≤ v.g.nodes.length := by
      apply Classical.byContradiction
      intro hnk
      obtain ⟨c', j, hj, hwn, hle⟩ := simple_below H hwalk
      have := h.lb te.1 c' j (by have := h.kle; omega) hwn
      omega
    have hlb' : LBk B v.g s (spEdge B v i st te).d k := by
      intro x c j hj hwn
      rw [hd, lab_tset]
      have := h.lb x c j hj hwn
      split
      · rename_i hxj; subst hxj; omega
      · exact this
    have hlab' : ∀ x, lab B (spEdge B v i st te).d x ≤ lab B st.d x := by
      intro x
      rw [hd, lab_tset]
      split
      · rename_i hxj; subst hxj; omega
      · exact Int.le_refl _
    have hext' : ∀ u x w, (u, x, w) ∈ v.g.arcs →
        u ∈ cur ∨ (u = i ∧ ∃ te ∈ rest, te.1 = x ∧ v.weight te.2 = w) ∨
        ∀ c j, j ≤ k → WalkN v.g s u c j → lab B (spEdge B v i st te).d x ≤ c + w := by
      intro u x w0 hmem
      rcases h.ext u x w0 hmem with h1 | ⟨hui, te', hte', hx, hw⟩ | h1
      · exact Or.inl h1
      · rcases List.mem_cons.mp hte' with rfl | hte'
        · right; right
          intro c j hj hwn
          have := hxile c j hj (hui ▸ hwn)
          rw [hd, lab_tset, ← hx, if_pos rfl, ← hw]
          omega
        · exact Or.inr (Or.inl ⟨hui, te', hte', hx, hw⟩)
      · right; right
        intro c j hj hwn
        have := h1 c j hj hwn
        have := hlab' x
        omega
    rcases hqq with ⟨hin, hq', hinq'⟩ | ⟨hin, hq', hinq'⟩
    · refine ⟨nxt, E, by rw [hq']; exact h.hq, ?_, by rw [hq']; exact h.qNodup, hlb', hext', h.kle,
        fun _ => hk2, by rw [hvis]; exact h.vis, by rw [hvis]; exact h.visCur⟩
      rw [hq', hinq']; exact h.qSub
    · refine ⟨nxt ++ [te.1], E, by rw [hq', h.hq, List.append_assoc], ?_, ?_, hlb', hext', h.kle,
        fun _ => hk2, by rw [hvis]; exact h.vis, by rw [hvis]; exact h.visCur⟩
      · rw [hq', hinq']
        intro x hx
        rcases List.mem_append.mp hx with hx | hx
        · exact List.mem_cons_of_mem _ (h.qSub x hx)
        · have : x = te.1 := by simpa using hx
          subst this; exact List.mem_cons_self ..
      · rw [hq']
        have hnq : te.1 ∉ st.q := fun hm => hin (h.qSub _ hm)
        rw [List.nodup_append]
        refine ⟨h.qNodup, by simp, ?_⟩
        intro a ha b hb
        have : b = te.1 := by simpa using hb
        subst this
        intro hab; subst hab; exact hnq ha

theorem passEdges {B : Meas} {v : View} {s : Nat} (H : SpHyp B v s) {k i : Nat} {cur : List Nat} :
    ∀ (rest : List (Nat × Nat)) (st : SP) (nxt : List Nat), PassEdgeInv B v s st k i cur nxt rest →
      (∀ te ∈ rest, (i, te.1, v.weight te.2) ∈ v.g.arcs) →
      ∃ nxt', PassEdgeInv B v s (rest.foldl (spEdge B v i) st) k i cur nxt' [] := by
  intro rest
  induction rest with
  | nil => intro st nxt h _; exact ⟨nxt, h⟩
  | cons te rest ih =>
    intro st nxt h harcs
    simp only [List.foldl_cons]
    obtain ⟨nxt1, h1⟩ := passEdge_step H h (harcs te (List.mem_cons_self ..))
    exact ih _ nxt1 h1 (fun t ht => harcs t (List.mem_cons_of_mem _ ht))

/-- between two pops: the queue is the rest of pass `k` followed by what pass `k+1` holds so far -/
structure PassInv (B : Meas) (v : View) (s : Nat) (st : SP) (k : Nat) (cur nxt : List Nat) : Prop where
  loop : SPLoopInv B v s st
  hq : st.q = cur ++ nxt
  qSub : ∀ x ∈ st.q, x ∈ st.inq
  qNodup : st.q.Nodup
  lb : LBk B v.g s st.d k
  ext : ∀ u x w, (u, x, w) ∈ v.g.arcs →
    u ∈ cur ∨ ∀ c j, j ≤ k → WalkN v.g s u c j → lab B st.d x ≤ c + w
  kle : k + 1 ≤ v.g.nodes.length
  nxtle : nxt ≠ [] → k + 2 ≤ v.g.nodes.length
  vis : ∀ x, (tget st.visits x).getD 0 ≤ k + 1
  visCur : ∀ x ∈ cur, (tget st.visits x).getD 0 ≤ k
  curNe : cur = [] → nxt = []

/-- the end of a pass: what is queued becomes the next pass -/
theorem pass_switch {B : Meas} {v : View} {s : Nat} (H : SpHyp B v s) {st : SP} {k i : Nat} {nxt : List Nat}
    (h : PassEdgeInv B v s st k i [] nxt []) (hne : nxt ≠ []) : PassInv B v s st (k + 1) nxt [] := by
  have hloop := spEdgeInv_done h.edge
  have hreal := h.edge.inv.core.real
  have hbnd := h.edge.inv.bounded
  have hlb1 : LBk B v.g s st.d (k + 1) := by
    intro x c j hj hwn
    cases hwn with
    | nil =>
      obtain ⟨y, hy, hle⟩ := h.edge.inv.core.src
      rw [lab_some hy]; exact hle
    | snoc hw' harc =>
      rename_i a c' w j'
      rcases h.ext a x w harc with h1 | ⟨_, te, hte, _⟩ | h1
      · cases h1
      · cases hte
      · exact h1 c' j' (by omega) hw'
  have hk2 := h.nxtle hne
  refine ⟨hloop, by rw [h.hq]; simp, h.qSub, h.qNodup, hlb1, ?_, by omega, fun hn => absurd rfl hn,
    fun x => by have := h.vis x; omega, fun x _ => h.vis x, fun hn => absurd hn hne⟩
  intro u x w harc
  by_cases hu : u ∈ nxt
  · exact Or.inl hu
  · right
    intro c j hj hwn
    have hunq : u ∉ st.q := by rw [h.hq]; simpa using hu
    rcases hloop.relaxed u x w harc with h1 | hrel
    · exact absurd h1 hunq
    · have hlu := hlb1 u c j hj hwn
      cases hyu : tget st.d u with
      | none =>
        -- an unlabelled node reached by a short walk: its cost would have to be `≥ max()`
        have : lab B st.d u = B.max := by simp [lab, hyu]
        have hfit := (H.fit u c j (by omega) hwn).2
        omega
      | some yu =>
        rw [lab_some hyu] at hlu
        have := rel_strong H hreal hbnd harc hrel hyu
        omega

theorem spLoop_no_err {B : Meas} {v : View} {s : Nat} (H : SpHyp B v s) :
    ∀ (f : Nat) (st : SP) (k : Nat) (cur nxt : List Nat), PassInv B v s st k cur nxt →
      spLoop B v f st ≠ some none := by
  intro f
  induction f with
  | zero => intro st k cur nxt _ h; simp [spLoop] at h
  | succ f ih =>
    intro st k cur nxt hinv h
    simp only [spLoop] at h
    split at h
    · simp at h
    · rename_i i q hq
      -- the head of the queue belongs to the current pass
      have hcur : ∃ cur', cur = i :: cur' ∧ q = cur' ++ nxt := by
        cases hc : cur with
        | nil =>
          have := hinv.curNe hc
          rw [hinv.hq, hc, this] at hq
          simp at hq
        | cons a cur' =>
          have := hinv.hq
          rw [hq, hc] at this
          simp only [List.cons_append, List.cons.injEq] at this
          exact ⟨cur', by rw [this.1], this.2⟩
      obtain ⟨cur', hcur, hq'⟩ := hcur
      have hvisi : (tget st.visits i).getD 0 ≤ k := hinv.visCur i (by rw [hcur]; simp)
      split at h
      · rename_i hge
        have := H.nb
        have := hinv.kle
        omega
      · have hnd : (i :: q).Nodup := hq ▸ hinv.qNodup
        have hiq : i ∉ q := (List.nodup_cons.mp hnd).1
        have hedge := spPop_edgeInv H.va hinv.loop hq
        have hpe : PassEdgeInv B v s
            { st with q := q, inq := st.inq.erase i, visits := tset st.visits i ((tget st.visits i).getD 0 + 1) }
            k i cur' nxt (v.outOf i) := by
          refine ⟨hedge, hq', ?_, (List.nodup_cons.mp hnd).2, hinv.lb, ?_, hinv.kle, hinv.nxtle, ?_, ?_⟩
          · intro x hx
            have hxq : x ∈ st.q := by rw [hq]; exact List.mem_cons_of_mem _ hx
            have hne : x ≠ i := fun hxi => hiq (hxi ▸ hx)
            exact (List.Nodup.mem_erase_iff hinv.loop.inv.inqNodup).mpr ⟨hne, hinv.qSub x hxq⟩
          · intro u x w harc
            rcases hinv.ext u x w harc with h1 | h1
            · rw [hcur] at h1
              rcases List.mem_cons.mp h1 with h2 | h2
              · right; left
                obtain ⟨_, te, hte, hb, hw⟩ := H.va.complete u x w harc
                exact ⟨h2, te, h2 ▸ hte, hb, hw⟩
              · exact Or.inl h2
            · exact Or.inr (Or.inr h1)
          · intro x
            simp only [tget_tset]
            split
            · simp; omega
            · exact hinv.vis x
          · intro x hx
            have hne : x ≠ i := by
              intro hxi
              apply hiq
              rw [hq', ← hxi]
              exact List.mem_append_left _ hx
            simp only [tget_tset, if_neg hne]
            exact hinv.visCur x (by rw [hcur]; exact List.mem_cons_of_mem _ hx)
        obtain ⟨nxt', hfin⟩ := passEdges H _ _ nxt hpe (H.va.sound i)
        -- continue with the rest of the pass, or switch to the next one
        by_cases hc' : cur' = []
        · subst hc'
          by_cases hn' : nxt' = []
          · subst hn'
            refine ih _ k [] [] ?_ h
            refine ⟨spEdgeInv_done hfin.edge, hfin.hq, hfin.qSub, hfin.qNodup, hfin.lb, ?_, hfin.kle,
              fun hn => absurd rfl hn, hfin.vis, (fun x hx => by cases hx), fun _ => rfl⟩
            intro u x w harc
            rcases hfin.ext u x w harc with h1 | ⟨_, te, hte, _⟩ | h1
            · exact Or.inl h1
            · cases hte
            · exact Or.inr h1
          · exact ih _ (k + 1) nxt' [] (pass_switch H hfin hn') h
        · refine ih _ k cur' nxt' ?_ h
          refine ⟨spEdgeInv_done hfin.edge, hfin.hq, hfin.qSub, hfin.qNodup, hfin.lb, ?_, hfin.kle,
            hfin.nxtle, hfin.vis, hfin.visCur, fun hn => absurd hn hc'⟩
          intro u x w harc
          rcases hfin.ext u x w harc with h1 | ⟨_, te, hte, _⟩ | h1
          · exact Or.inl h1
          · cases hte
          · exact Or.inr h1

theorem passInv_init {B : Meas} {v : View} {s : Nat} (H : SpHyp B v s) :
    PassInv B v s { d := [(s, 0)], q := [s], inq := [s] } 0 [s] [] := by
  refine ⟨spInit_inv H.pos v s, rfl, fun x hx => hx, by simp, ?_, ?_, ?_, fun hn => absurd rfl hn, ?_, ?_,
    fun hn => by cases hn⟩
  · intro x c j hj hwn
    cases hwn with
    | nil => simp [lab, tget, List.lookup_cons]
    | snoc _ _ => omega
  · intro u x w _
    by_cases hus : u = s
    · left; simp [hus]
    · right
      intro c j hj hwn
      cases hwn with
      | nil => exact absurd rfl hus
      | snoc _ _ => omega
  · have := List.length_pos_of_mem H.hs
    omega
  · intro x; simp [tget]
  · intro x _; simp [tget]

/-- **spfa, `Err` half.**  The mirror model never reports `NegativeCycle` unless a closed walk of
negative cost is reachable from the source (FIFO pass argument), for every cost type into which
the walks of at most `|V|` arcs fit. -/
theorem spfa_err (B : Meas) (v : View) (hv : ViewArcs v) (hwf : v.g.WellFormed) (s : Nat)
    (hs : s ∈ v.g.nodes) (hnb : v.g.nodes.length ≤ v.nb)
    (hfit : ∀ x c j, j ≤ v.g.nodes.length → WalkN v.g s x c j → B.min ≤ c ∧ c < B.max)
    (h : spfa B v s = some none) : NegCycleReachable v.g s := by
  apply Classical.byContradiction
  intro hno
  have H : SpHyp B v s := ⟨hv, hwf, hs, hnb, hno, hfit⟩
  exact spLoop_no_err H _ _ 0 [s] [] (passInv_init H) h

/-! ### floyd_warshall, `Ok` half -/

abbrev DTab := Tab (Nat × Nat) Int

/-- `dist[a][b]` with `K::max()` for "no entry" -/
def Dd (B : Meas) (d : DTab) (a b : Nat) : Int := (tget d (a, b)).getD B.max

theorem FW.dist_eq (B : Meas) (st : FW) (a b : Nat) : st.dist B a b = Dd B st.d a b := rfl

theorem Dd_tset (B : Meas) (d : DTab) (i j a b : Nat) (x : Int) :
    Dd B (tset d (i, j) x) a b = if a = i ∧ b = j then x else Dd B d a b := by
  unfold Dd
  rw [tget_tset]
  by_cases h : (a, b) = (i, j)
  · have h' : a = i ∧ b = j := by simpa using h
    simp [h']
  · have h' : ¬ (a = i ∧ b = j) := by simpa using h
    simp [h, h']

/-- stored values are below `max()` -/
def DBd (B : Meas) (d : DTab) : Prop := ∀ a b y, tget d (a, b) = some y → y < B.max

theorem Dd_le_max {B : Meas} {d : DTab} (h : DBd B d) (a b : Nat) : Dd B d a b ≤ B.max := by
  unfold Dd
  cases hx : tget d (a, b) with
  | none => simp
  | some y => have := h a b y hx; simp; omega

theorem Dd_some {B : Meas} {d : DTab} (h : DBd B d) {a b : Nat} (hne : Dd B d a b ≠ B.max) :
    tget d (a, b) = some (Dd B d a b) := by
  unfold Dd at hne ⊢
  cases hx : tget d (a, b) with
  | none => simp [hx] at hne
  | some y => simp

/-- one step of the triple loop, on the distance table -/
theorem fwStep_char (B : Meas) (k i : Nat) (st : FW) (j : Nat) :
    ((fwStep B k i st j).d = st.d) ∨
    (Dd B st.d i k ≠ B.max ∧ Dd B st.d k j ≠ B.max ∧ (B.oadd (Dd B st.d i k) (Dd B st.d k j)).2 = false ∧
      (B.oadd (Dd B st.d i k) (Dd B st.d k j)).1 < Dd B st.d i j ∧
      (fwStep B k i st j).d = tset st.d (i, j) (B.oadd (Dd B st.d i k) (Dd B st.d k j)).1) := by
  unfold fwStep FW.dist Dd
  by_cases hc : ((((tget st.d (i, k)).getD B.max) == B.max) || (((tget st.d (k, j)).getD B.max) == B.max)) = true
  · left; simp only [hc, if_true]
  · simp only [hc]
    by_cases hc2 : (!(B.oadd ((tget st.d (i, k)).getD B.max) ((tget st.d (k, j)).getD B.max)).2 &&
        decide ((tget st.d (i, j)).getD B.max > (B.oadd ((tget st.d (i, k)).getD B.max) ((tget st.d (k, j)).getD B.max)).1)) = true
    · right
      simp only [hc2, if_true]
      simp only [Bool.or_eq_true, not_or, beq_iff_eq] at hc
      simp only [Bool.and_eq_true, Bool.not_eq_true', decide_eq_true_eq] at hc2
      exact ⟨hc.1, hc.2, hc2.1, hc2.2, by simp⟩
    · left; simp only [hc2]; simp

theorem fwStep_writes (B : Meas) (k i : Nat) (st : FW) (j : Nat)
    (h1 : Dd B st.d i k ≠ B.max) (h2 : Dd B st.d k j ≠ B.max)
    (hov : (B.oadd (Dd B st.d i k) (Dd B st.d k j)).2 = false)
    (hlt : (B.oadd (Dd B st.d i k) (Dd B st.d k j)).1 < Dd B st.d i j) :
    (fwStep B k i st j).d = tset st.d (i, j) (B.oadd (Dd B st.d i k) (Dd B st.d k j)).1 := by
  unfold fwStep FW.dist Dd
  unfold Dd at h1 h2 hov hlt
  have hc : ((((tget st.d (i, k)).getD B.max) == B.max) || (((tget st.d (k, j)).getD B.max) == B.max)) = false := by
    simp [h1, h2]
  have hc2 : (!(B.oadd ((tget st.d (i, k)).getD B.max) ((tget st.d (k, j)).getD B.max)).2 &&
      decide ((tget st.d (i, j)).getD B.max > (B.oadd ((tget st.d (i, k)).getD B.max) ((tget st.d (k, j)).getD B.max)).1)) = true := by
    simp [hov, hlt]
  simp only [hc, hc2, if_true, Bool.false_eq_true, if_false]

/-- after the step the entry accounts for the two legs (when both are finite and the sum fits) -/
theorem fwStep_relaxes (B : Meas) (k i : Nat) (st : FW) (j : Nat)
    (h1 : Dd B st.d i k ≠ B.max) (h2 : Dd B st.d k j ≠ B.max)
    (hov : (B.oadd (Dd B st.d i k) (Dd B st.d k j)).2 = false) :
    Dd B (fwStep B k i st j).d i j ≤ Dd B st.d i k + Dd B st.d k j := by
  have hex := oadd_exact hov
  by_cases hlt : (B.oadd (Dd B st.d i k) (Dd B st.d k j)).1 < Dd B st.d i j
  · rw [fwStep_writes B k i st j h1 h2 hov hlt, Dd_tset]
    simp only [and_self, if_true]
    omega
  · rcases fwStep_char B k i st j with h | ⟨_, _, _, hlt', _⟩
    · rw [h]; omega
    · exact absurd hlt' hlt

/-- entries only decrease -/
def DMono (B : Meas) (T T' : DTab) : Prop := ∀ a b, Dd B T' a b ≤ Dd B T a b

theorem fwStep_mono (B : Meas) (k i : Nat) (st : FW) (j : Nat) : DMono B st.d (fwStep B k i st j).d := by
  intro a b
  rcases fwStep_char B k i st j with h | ⟨_, _, _, hlt, hd⟩
  · rw [h]; exact Int.le_refl _
  · rw [hd, Dd_tset]
    split
    · rename_i hab; rw [hab.1, hab.2]; omega
    · exact Int.le_refl _

theorem fwStep_bd (B : Meas) (k i : Nat) (st : FW) (j : Nat) (h : DBd B st.d) : DBd B (fwStep B k i st j).d := by
  rcases fwStep_char B k i st j with h' | ⟨_, _, _, hlt, hd⟩
  · rw [h']; exact h
  · intro a b y hy
    rw [hd, tget_tset] at hy
    split at hy
    · cases hy
      have := Dd_le_max h i j
      omega
    · exact h a b y hy

/-- the sums formed in pass `k` from the table `S` do not overflow -/
def NoOv (B : Meas) (k : Nat) (S : DTab) : Prop :=
  ∀ a b, Dd B S a k ≠ B.max → Dd B S k b ≠ B.max → (B.oadd (Dd B S a k) (Dd B S k b)).2 = false

/-- relation between the table at the start of pass `k` and a table later in the same pass -/
structure PassRel (B : Meas) (k : Nat) (S T : DTab) : Prop where
  mono : DMono B S T
  stab : ∀ x, Dd B T x k = Dd B S x k ∧ Dd B T k x = Dd B S k x
  val : ∀ a b, Dd B T a b = Dd B S a b ∨
    (Dd B S a k ≠ B.max ∧ Dd B S k b ≠ B.max ∧ Dd B T a b = Dd B S a k + Dd B S k b)
  bd : DBd B T

theorem PassRel.refl {B : Meas} (k : Nat) {S : DTab} (h : DBd B S) : PassRel B k S S :=
  ⟨fun _ _ => Int.le_refl _, fun _ => ⟨rfl, rfl⟩, fun _ _ => Or.inl rfl, h⟩

theorem fwStep_passRel {B : Meas} {k : Nat} {S : DTab} (hkk : Dd B S k k = 0) (hno : NoOv B k S)
    (i : Nat) (st : FW) (j : Nat) (h : PassRel B k S st.d) : PassRel B k S (fwStep B k i st j).d := by
  rcases fwStep_char B k i st j with h' | ⟨h1, h2, _, hlt, hd⟩
  · rw [h']; exact h
  · have hs1 := (h.stab i).1
    have hs2 := (h.stab j).2
    rw [hs1] at h1
    rw [hs2] at h2
    have hov := hno i j h1 h2
    have hex := oadd_exact hov
    rw [hs1, hs2] at hlt hd
    rw [hex] at hlt hd
    have hjk : j ≠ k := by
      intro hjk; subst hjk
      rw [hkk, hs1] at hlt; omega
    have hik : i ≠ k := by
      intro hik; subst hik
      rw [hkk, hs2] at hlt; omega
    refine ⟨?_, ?_, ?_, ?_⟩
    · intro a b
      rw [hd, Dd_tset]
      split
      · rename_i hab
        have := h.mono i j
        rw [hab.1, hab.2]; omega
      · exact h.mono a b
    · intro x
      rw [hd, Dd_tset, Dd_tset]
      have h1' : ¬ (x = i ∧ k = j) := fun hh => hjk hh.2.symm
      have h2' : ¬ (k = i ∧ x = j) := fun hh => hik hh.1.symm
      simp only [h1', h2', if_false]
      exact h.stab x
    · intro a b
      rw [hd, Dd_tset]
      split
      · rename_i hab
        right; rw [hab.1, hab.2]; exact ⟨h1, h2, rfl⟩
      · exact h.val a b
    · exact fwStep_bd B k i st j h.bd

/-- pass `k` of the triple loop -/
def fwPass (B : Meas) (ord : List Nat) (k : Nat) (st : FW) : FW :=
  ord.foldl (fun st i => ord.foldl (fwStep B k i) st) st

theorem fwInner_mono (B : Meas) (k i : Nat) : ∀ (l : List Nat) (st : FW), DMono B st.d (l.foldl (fwStep B k i) st).d := by
  intro l
  induction l with
  | nil => intro st a b; exact Int.le_refl _
  | cons j l ih =>
    intro st a b
    simp only [List.foldl_cons]
    have h1 := fwStep_mono B k i st j a b
    have h2 := ih (fwStep B k i st j) a b
    omega

theorem fwOuter_mono (B : Meas) (k : Nat) (ord : List Nat) : ∀ (l : List Nat) (st : FW),
    DMono B st.d (l.foldl (fun st i => ord.foldl (fwStep B k i) st) st).d := by
  intro l
  induction l with
  | nil => intro st a b; exact Int.le_refl _
  | cons i l ih =>
    intro st a b
    simp only [List.foldl_cons]
    have h1 := fwInner_mono B k i ord st a b
    have h2 := ih (ord.foldl (fwStep B k i) st) a b
    omega

theorem fwInner_passRel {B : Meas} {k : Nat} {S : DTab} (hkk : Dd B S k k = 0) (hno : NoOv B k S) (i : Nat) :
    ∀ (l : List Nat) (st : FW), PassRel B k S st.d → PassRel B k S (l.foldl (fwStep B k i) st).d := by
  intro l st h
  exact foldl_inv (fun st : FW => PassRel B k S st.d) (fwStep B k i) (fun st j hst => fwStep_passRel hkk hno i st j hst) l st h

theorem fwOuter_passRel {B : Meas} {k : Nat} {S : DTab} (hkk : Dd B S k k = 0) (hno : NoOv B k S) (ord : List Nat) :
    ∀ (l : List Nat) (st : FW), PassRel B k S st.d →
      PassRel B k S (l.foldl (fun st i => ord.foldl (fwStep B k i) st) st).d := by
  intro l st h
  exact foldl_inv (fun st : FW => PassRel B k S st.d) _ (fun st i hst => fwInner_passRel hkk hno i ord st hst) l st h

/-- after pass `k` every pair of the loop accounts for the two legs through `k` -/
theorem fwPass_relaxes' {B : Meas} {k : Nat} (lo li : List Nat) (st : FW) (hbd : DBd B st.d)
    (hkk : Dd B st.d k k = 0) (hno : NoOv B k st.d) {i j : Nat} (hi : i ∈ lo) (hj : j ∈ li)
    (h1 : Dd B st.d i k ≠ B.max) (h2 : Dd B st.d k j ≠ B.max) :
    Dd B (lo.foldl (fun st i => li.foldl (fwStep B k i) st) st).d i j ≤ Dd B st.d i k + Dd B st.d k j := by
  obtain ⟨l1, l2, hl⟩ := List.append_of_mem hi
  obtain ⟨r1, r2, hr⟩ := List.append_of_mem hj
  subst hl
  rw [List.foldl_append, List.foldl_cons]
  have hT0 : PassRel B k st.d (l1.foldl (fun st i => li.foldl (fwStep B k i) st) st).d :=
    fwOuter_passRel hkk hno li l1 st (PassRel.refl k hbd)
  generalize l1.foldl (fun st i => li.foldl (fwStep B k i) st) st = T0 at hT0 ⊢
  have hm2 := fwOuter_mono B k li l2 (li.foldl (fwStep B k i) T0) i j
  have key : Dd B (li.foldl (fwStep B k i) T0).d i j ≤ Dd B st.d i k + Dd B st.d k j := by
    subst hr
    rw [List.foldl_append, List.foldl_cons]
    have hT1 : PassRel B k st.d (r1.foldl (fwStep B k i) T0).d := fwInner_passRel hkk hno i r1 T0 hT0
    generalize r1.foldl (fwStep B k i) T0 = T1 at hT1 ⊢
    have hs1 := (hT1.stab i).1
    have hs2 := (hT1.stab j).2
    have hstep := fwStep_relaxes B k i T1 j (by rw [hs1]; exact h1) (by rw [hs2]; exact h2)
      (by rw [hs1, hs2]; exact hno i j h1 h2)
    rw [hs1, hs2] at hstep
    have hm1 := fwInner_mono B k i r2 (fwStep B k i T1 j) i j
    omega
  omega

theorem fwPass_relaxes {B : Meas} {k : Nat} (ord : List Nat) (st : FW) (hbd : DBd B st.d)
    (hkk : Dd B st.d k k = 0) (hno : NoOv B k st.d) {i j : Nat} (hi : i ∈ ord) (hj : j ∈ ord)
    (h1 : Dd B st.d i k ≠ B.max) (h2 : Dd B st.d k j ≠ B.max) :
    Dd B (fwPass B ord k st).d i j ≤ Dd B st.d i k + Dd B st.d k j :=
  fwPass_relaxes' ord ord st hbd hkk hno hi hj h1 h2

theorem fwPass_passRel {B : Meas} {k : Nat} (ord : List Nat) (st : FW) (hbd : DBd B st.d)
    (hkk : Dd B st.d k k = 0) (hno : NoOv B k st.d) : PassRel B k st.d (fwPass B ord k st).d :=
  fwOuter_passRel hkk hno ord ord st (PassRel.refl k hbd)

theorem fwPass_mono (B : Meas) (k : Nat) (ord : List Nat) (st : FW) : DMono B st.d (fwPass B ord k st).d :=
  fwOuter_mono B k ord ord st

theorem fwPass_bd (B : Meas) (k : Nat) (ord : List Nat) (st : FW) (h : DBd B st.d) : DBd B (fwPass B ord k st).d := by
  unfold fwPass
  apply foldl_inv (fun st : FW => DBd B st.d) _ _ ord st h
  intro st i hst
  apply foldl_inv (fun st : FW => DBd B st.d) _ _ ord st hst
  intro st j hst
  exact fwStep_bd B k i st j hst

/-! the invariant of the outer loop -/

def FNeg (B : Meas) (g : MGraph) (T : DTab) : Prop := ∃ i ∈ g.nodes, Dd B T i i < 0
def ArcUB (B : Meas) (g : MGraph) (T : DTab) : Prop := ∀ u j w, (u, j, w) ∈ g.arcs → Dd B T u j ≤ w
def DgLe (B : Meas) (g : MGraph) (T : DTab) : Prop := ∀ i ∈ g.nodes, Dd B T i i ≤ 0
def UBv (B : Meas) (T : DTab) (u : Int) : Prop := ∀ a b, Dd B T a b ≠ B.max → -u ≤ Dd B T a b ∧ Dd B T a b ≤ u
/-- every row is a feasible potential w.r.t. the arcs whose tail was already used as intermediate node -/
def FK (B : Meas) (g : MGraph) (K : List Nat) (T : DTab) : Prop :=
  ∀ i ∈ g.nodes, ∀ u j w, (u, j, w) ∈ g.arcs → u ∈ K → Dd B T i u ≠ B.max → Dd B T i j ≤ Dd B T i u + w

structure FGood (B : Meas) (g : MGraph) (K : List Nat) (T : DTab) (u : Int) : Prop where
  dg : ∀ i ∈ g.nodes, Dd B T i i = 0
  ub : UBv B T u
  fk : FK B g K T

structure FAlways (B : Meas) (g : MGraph) (T : DTab) : Prop where
  bd : DBd B T
  arc : ArcUB B g T
  dgle : DgLe B g T

theorem arc_nodes {g : MGraph} (hwf : g.WellFormed) {a b : Nat} {w : Int} (h : (a, b, w) ∈ g.arcs) :
    a ∈ g.nodes ∧ b ∈ g.nodes := by
  obtain ⟨e, he, _, hor⟩ := mem_arcs.mp h
  rcases hor with ⟨h1, h2⟩ | ⟨_, h1, h2⟩
  · exact ⟨h1 ▸ (hwf.2 e he).1, h2 ▸ (hwf.2 e he).2⟩
  · exact ⟨h2 ▸ (hwf.2 e he).2, h1 ▸ (hwf.2 e he).1⟩

theorem pass_good {B : Meas} {g : MGraph} (hwf : g.WellFormed) {ord : List Nat}
    (hord : ∀ x, x ∈ ord ↔ x ∈ g.nodes) {Wm : Int}
    (hWm : 0 ≤ Wm) (hW : ∀ a b w, (a, b, w) ∈ g.arcs → -Wm ≤ w ∧ w ≤ Wm)
    {k : Nat} (hk : k ∈ ord) {K : List Nat} (S : FW) {u : Int} (hu : 0 ≤ u)
    (hA : FAlways B g S.d) (hG : FGood B g K S.d u)
    (hfit : 2 * u + Wm < B.max ∧ B.min ≤ -(2 * u)) :
    FAlways B g (fwPass B ord k S).d ∧
    (FNeg B g (fwPass B ord k S).d ∨ FGood B g (k :: K) (fwPass B ord k S).d (2 * u)) := by
  have hkn : k ∈ g.nodes := (hord k).1 hk
  have hkk : Dd B S.d k k = 0 := hG.dg k hkn
  have hno : NoOv B k S.d := by
    intro a b h1 h2
    have := hG.ub a k h1
    have := hG.ub k b h2
    exact oadd_fits (by omega) (by omega)
  have hrel := fwPass_passRel ord S hA.bd hkk hno
  have hmono := fwPass_mono B k ord S
  have hA' : FAlways B g (fwPass B ord k S).d := by
    refine ⟨fwPass_bd B k ord S hA.bd, ?_, ?_⟩
    · intro a b w harc
      have := hA.arc a b w harc
      have := hmono a b
      omega
    · intro i hi
      have := hA.dgle i hi
      have := hmono i i
      omega
  refine ⟨hA', ?_⟩
  by_cases hneg : FNeg B g (fwPass B ord k S).d
  · exact Or.inl hneg
  · right
    refine ⟨?_, ?_, ?_⟩
    · intro i hi
      have h1 := hA'.dgle i hi
      have h2 : ¬ Dd B (fwPass B ord k S).d i i < 0 := fun h => hneg ⟨i, hi, h⟩
      omega
    · intro a b hne
      rcases hrel.val a b with h | ⟨h1, h2, h⟩
      · rw [h] at hne ⊢
        have := hG.ub a b hne
        omega
      · rw [h]
        have := hG.ub a k h1
        have := hG.ub k b h2
        omega
    · intro i hi x j w harc hx hne
      have hj : j ∈ ord := (hord j).2 (arc_nodes hwf harc).2
      have hio : i ∈ ord := (hord i).2 hi
      have hw := hW x j w harc
      rcases List.mem_cons.mp hx with hxk | hxK
      · -- the tail of the arc is `k` itself
        subst hxk
        rw [(hrel.stab i).1] at hne ⊢
        have harcub := hA.arc x j w harc
        have h2 : Dd B S.d x j ≠ B.max := by omega
        have := fwPass_relaxes ord S hA.bd hkk hno hio hj hne h2
        omega
      · rcases hrel.val i x with h | ⟨h1, h2, h⟩
        · rw [h] at hne ⊢
          have := hG.fk i hi x j w harc hxK hne
          have := hmono i j
          omega
        · rw [h]
          have hrowk := hG.fk k hkn x j w harc hxK h2
          have hub := hG.ub k x h2
          have h2' : Dd B S.d k j ≠ B.max := by omega
          have := fwPass_relaxes ord S hA.bd hkk hno hio hj h1 h2'
          omega

/-- the bound doubles with every pass -/
def dbl : Nat → Int → Int
  | 0, u => u
  | m+1, u => dbl m (2 * u)

theorem le_dbl : ∀ (m : Nat) (u : Int), 0 ≤ u → u ≤ dbl m u := by
  intro m
  induction m with
  | zero => intro u _; exact Int.le_refl _
  | succ m ih =>
    intro u hu
    have := ih (2 * u) (by omega)
    simp only [dbl]
    omega

theorem fneg_mono {B : Meas} {g : MGraph} {T T' : DTab} (hm : DMono B T T') (h : FNeg B g T) : FNeg B g T' := by
  obtain ⟨i, hi, hlt⟩ := h
  exact ⟨i, hi, by have := hm i i; omega⟩

theorem outer_good {B : Meas} {g : MGraph} (hwf : g.WellFormed) {ord : List Nat}
    (hord : ∀ x, x ∈ ord ↔ x ∈ g.nodes) {Wm : Int}
    (hWm : 0 ≤ Wm) (hW : ∀ a b w, (a, b, w) ∈ g.arcs → -Wm ≤ w ∧ w ≤ Wm) :
    ∀ (l : List Nat) (K : List Nat) (S : FW) (u : Int), (∀ x ∈ l, x ∈ ord) → 0 ≤ u →
      FAlways B g S.d → (FNeg B g S.d ∨ FGood B g K S.d u) →
      (dbl l.length u + Wm < B.max ∧ B.min ≤ -(dbl l.length u)) →
      FAlways B g (l.foldl (fun st k => fwPass B ord k st) S).d ∧
      (FNeg B g (l.foldl (fun st k => fwPass B ord k st) S).d ∨
        FGood B g (l.reverse ++ K) (l.foldl (fun st k => fwPass B ord k st) S).d (dbl l.length u)) := by
  intro l
  induction l with
  | nil => intro K S u _ _ hA hG _; exact ⟨hA, by simpa [dbl] using hG⟩
  | cons k l ih =>
    intro K S u hl hu hA hG hfit
    simp only [List.foldl_cons, List.length_cons, dbl, List.reverse_cons, List.append_assoc,
      List.singleton_append] at hfit ⊢
    have hk := hl k (List.mem_cons_self ..)
    have hl' : ∀ x ∈ l, x ∈ ord := fun x hx => hl x (List.mem_cons_of_mem _ hx)
    rcases hG with hneg | hgood
    · -- a negative diagonal entry stays negative
      have hmono := fwPass_mono B k ord S
      have hA' : FAlways B g (fwPass B ord k S).d := by
        refine ⟨fwPass_bd B k ord S hA.bd, ?_, ?_⟩
        · intro a b w harc
          have := hA.arc a b w harc
          have := hmono a b
          omega
        · intro i hi
          have := hA.dgle i hi
          have := hmono i i
          omega
      exact ih (k :: K) _ (2 * u) hl' (by omega) hA' (Or.inl (fneg_mono hmono hneg)) hfit
    · have h2u := le_dbl l.length (2 * u) (by omega)
      obtain ⟨hA', hG'⟩ := pass_good hwf hord hWm hW hk S hu hA hgood ⟨by omega, by omega⟩
      exact ih (k :: K) _ (2 * u) hl' (by omega) hA' hG' hfit

/-! the initialisation -/

def DSym (B : Meas) (T : DTab) : Prop := ∀ a b, Dd B T a b = Dd B T b a

theorem fwInitEdge_char (B : Meas) (dir : Bool) (st : FW) (e : Edge) :
    ((fwInitEdge B dir st e).d = st.d ∧ Dd B st.d e.src e.tgt ≤ e.w) ∨
    (e.w < Dd B st.d e.src e.tgt ∧
      ((dir = true ∧ (fwInitEdge B dir st e).d = tset st.d (e.src, e.tgt) e.w) ∨
       (dir = false ∧ (fwInitEdge B dir st e).d = tset (tset st.d (e.src, e.tgt) e.w) (e.tgt, e.src) e.w))) := by
  unfold fwInitEdge FW.dist Dd
  by_cases hc : (tget st.d (e.src, e.tgt)).getD B.max > e.w
  · right
    refine ⟨hc, ?_⟩
    simp only [hc, if_true]
    cases dir with
    | true => left; simp
    | false => right; simp
  · left
    rw [if_neg hc]
    exact ⟨rfl, by omega⟩

structure InitInv (B : Meas) (dir : Bool) (Wm : Int) (T : DTab) : Prop where
  bd : DBd B T
  ub : UBv B T Wm
  sym : dir = false → DSym B T

theorem fwInitEdge_inv {B : Meas} {dir : Bool} {Wm : Int} (st : FW) (e : Edge)
    (hw : -Wm ≤ e.w ∧ e.w ≤ Wm) (h : InitInv B dir Wm st.d) :
    InitInv B dir Wm (fwInitEdge B dir st e).d ∧ DMono B st.d (fwInitEdge B dir st e).d ∧
    Dd B (fwInitEdge B dir st e).d e.src e.tgt ≤ e.w ∧
    (dir = false → Dd B (fwInitEdge B dir st e).d e.tgt e.src ≤ e.w) := by
  have hmax := Dd_le_max h.bd e.src e.tgt
  rcases fwInitEdge_char B dir st e with ⟨hd, hle⟩ | ⟨hlt, ⟨hdir, hd⟩ | ⟨hdir, hd⟩⟩
  · rw [hd]
    refine ⟨h, fun _ _ => Int.le_refl _, hle, ?_⟩
    intro hdir
    rw [h.sym hdir e.tgt e.src]; exact hle
  · rw [hd]
    refine ⟨⟨?_, ?_, fun hf => by rw [hdir] at hf; cases hf⟩, ?_, ?_, fun hf => by rw [hdir] at hf; cases hf⟩
    · intro a b y hy
      rw [tget_tset] at hy
      split at hy
      · cases hy; omega
      · exact h.bd a b y hy
    · intro a b hne
      rw [Dd_tset] at hne ⊢
      split
      · exact hw
      · rename_i hab; simp only [hab, if_false] at hne; exact h.ub a b hne
    · intro a b
      rw [Dd_tset]
      split
      · rename_i hab; rw [hab.1, hab.2]; omega
      · exact Int.le_refl _
    · rw [Dd_tset]; simp
  · have hsym := h.sym hdir
    rw [hd]
    refine ⟨⟨?_, ?_, fun _ => ?_⟩, ?_, ?_, fun _ => ?_⟩
    · intro a b y hy
      rw [tget_tset] at hy
      split at hy
      · cases hy; omega
      · rw [tget_tset] at hy
        split at hy
        · cases hy; omega
        · exact h.bd a b y hy
    · intro a b hne
      rw [Dd_tset, Dd_tset] at hne ⊢
      split
      · exact hw
      · rename_i hab
        simp only [hab, if_false] at hne
        split
        · exact hw
        · rename_i hab'; simp only [hab', if_false] at hne; exact h.ub a b hne
    · intro a b
      simp only [Dd_tset]
      by_cases h1 : a = e.tgt ∧ b = e.src
      · have h1' : b = e.src ∧ a = e.tgt := ⟨h1.2, h1.1⟩
        simp [h1, h1']
      · by_cases h2 : a = e.src ∧ b = e.tgt
        · have h2' : b = e.tgt ∧ a = e.src := ⟨h2.2, h2.1⟩
          simp [h2, h2']
        · have h1' : ¬ (b = e.tgt ∧ a = e.src) := fun hh => h2 ⟨hh.2, hh.1⟩
          have h2' : ¬ (b = e.src ∧ a = e.tgt) := fun hh => h1 ⟨hh.2, hh.1⟩
          simp only [h1, h2, h1', h2', if_false]
          exact hsym a b
    · intro a b
      rw [Dd_tset, Dd_tset]
      split
      · rename_i hab
        rw [hab.1, hab.2, hsym e.tgt e.src]; omega
      · split
        · rename_i hab; rw [hab.1, hab.2]; omega
        · exact Int.le_refl _
    · rw [Dd_tset, Dd_tset]
      split
      · exact Int.le_refl _
      · simp
    · rw [Dd_tset]; simp

theorem dmono_trans {B : Meas} {T1 T2 T3 : DTab} (h1 : DMono B T1 T2) (h2 : DMono B T2 T3) : DMono B T1 T3 := by
  intro a b
  have := h1 a b
  have := h2 a b
  omega

theorem fwInit_inv {B : Meas} {dir : Bool} {Wm : Int} :
    ∀ (es : List Edge) (st : FW), (∀ e ∈ es, -Wm ≤ e.w ∧ e.w ≤ Wm) → InitInv B dir Wm st.d →
      InitInv B dir Wm (es.foldl (fwInitEdge B dir) st).d ∧ DMono B st.d (es.foldl (fwInitEdge B dir) st).d ∧
      ∀ e ∈ es, Dd B (es.foldl (fwInitEdge B dir) st).d e.src e.tgt ≤ e.w ∧
        (dir = false → Dd B (es.foldl (fwInitEdge B dir) st).d e.tgt e.src ≤ e.w) := by
  intro es
  induction es with
  | nil => intro st _ h; exact ⟨h, fun _ _ => Int.le_refl _, by simp⟩
  | cons e es ih =>
    intro st hw h
    simp only [List.foldl_cons]
    obtain ⟨h1, hm1, hr1, hr2⟩ := fwInitEdge_inv st e (hw e (List.mem_cons_self ..)) h
    obtain ⟨h2, hm2, hr⟩ := ih (fwInitEdge B dir st e) (fun x hx => hw x (List.mem_cons_of_mem _ hx)) h1
    refine ⟨h2, dmono_trans hm1 hm2, ?_⟩
    intro e' he'
    rcases List.mem_cons.mp he' with rfl | he'
    · constructor
      · have := hm2 e'.src e'.tgt; omega
      · intro hd; have := hm2 e'.tgt e'.src; have := hr2 hd; omega
    · exact hr e' he'

theorem fwDiag_char (B : Meas) (st : FW) (i : Nat) :
    ((fwDiag B st i).d = st.d ∧ Dd B st.d i i ≤ 0) ∨
    (0 < Dd B st.d i i ∧ (fwDiag B st i).d = tset st.d (i, i) 0) := by
  unfold fwDiag FW.dist Dd
  by_cases hc : (tget st.d (i, i)).getD B.max > 0
  · right; rw [if_pos hc]; exact ⟨hc, rfl⟩
  · left; rw [if_neg hc]; exact ⟨rfl, by omega⟩

theorem fwDiag_inv {B : Meas} {Wm : Int} (hWm : 0 ≤ Wm) (st : FW) (i : Nat)
    (h : DBd B st.d ∧ UBv B st.d Wm) :
    (DBd B (fwDiag B st i).d ∧ UBv B (fwDiag B st i).d Wm) ∧ DMono B st.d (fwDiag B st i).d ∧
    Dd B (fwDiag B st i).d i i ≤ 0 := by
  have hmax := Dd_le_max h.1 i i
  rcases fwDiag_char B st i with ⟨hd, hle⟩ | ⟨hlt, hd⟩
  · rw [hd]; exact ⟨h, fun _ _ => Int.le_refl _, hle⟩
  · rw [hd]
    refine ⟨⟨?_, ?_⟩, ?_, ?_⟩
    · intro a b y hy
      rw [tget_tset] at hy
      split at hy
      · cases hy; omega
      · exact h.1 a b y hy
    · intro a b hne
      rw [Dd_tset] at hne ⊢
      split
      · omega
      · rename_i hab; simp only [hab, if_false] at hne; exact h.2 a b hne
    · intro a b
      rw [Dd_tset]
      split
      · rename_i hab; rw [hab.1, hab.2]; omega
      · exact Int.le_refl _
    · rw [Dd_tset]; simp

theorem fwDiags_inv {B : Meas} {Wm : Int} (hWm : 0 ≤ Wm) :
    ∀ (ns : List Nat) (st : FW), (DBd B st.d ∧ UBv B st.d Wm) →
      (DBd B (ns.foldl (fwDiag B) st).d ∧ UBv B (ns.foldl (fwDiag B) st).d Wm) ∧
      DMono B st.d (ns.foldl (fwDiag B) st).d ∧
      ∀ i ∈ ns, Dd B (ns.foldl (fwDiag B) st).d i i ≤ 0 := by
  intro ns
  induction ns with
  | nil => intro st h; exact ⟨h, fun _ _ => Int.le_refl _, by simp⟩
  | cons i ns ih =>
    intro st h
    simp only [List.foldl_cons]
    obtain ⟨h1, hm1, hr1⟩ := fwDiag_inv hWm st i h
    obtain ⟨h2, hm2, hr⟩ := ih (fwDiag B st i) h1
    refine ⟨h2, dmono_trans hm1 hm2, ?_⟩
    intro x hx
    rcases List.mem_cons.mp hx with rfl | hx
    · have := hm2 x x; omega
    · exact hr x hx

/-! the loop order is a permutation of the nodes -/

theorem span_loop_append (p : Nat → Bool) : ∀ (l acc : List Nat),
    (List.span.loop p l acc).1 ++ (List.span.loop p l acc).2 = acc.reverse ++ l := by
  intro l
  induction l with
  | nil => intro acc; simp [List.span.loop]
  | cons a t ih =>
    intro acc
    simp only [List.span.loop]
    split
    · rw [ih]; simp
    · simp

theorem span_append (p : Nat → Bool) (l : List Nat) : (l.span p).1 ++ (l.span p).2 = l := by
  have := span_loop_append p l []
  simpa [List.span] using this

def insIx (v : View) (acc : List Nat) (x : Nat) : List Nat :=
  let (a, b) := acc.span (fun y => v.toIndex y ≤ v.toIndex x); a ++ x :: b

theorem insIx_spec (v : View) (acc : List Nat) (x : Nat) :
    (∀ y, y ∈ insIx v acc x ↔ y = x ∨ y ∈ acc) ∧ (insIx v acc x).length = acc.length + 1 := by
  have hcat := span_append (fun y => decide (v.toIndex y ≤ v.toIndex x)) acc
  have hdef : insIx v acc x =
      (acc.span (fun y => decide (v.toIndex y ≤ v.toIndex x))).1 ++
        x :: (acc.span (fun y => decide (v.toIndex y ≤ v.toIndex x))).2 := rfl
  rw [hdef]
  generalize (acc.span (fun y => decide (v.toIndex y ≤ v.toIndex x))).1 = a at hcat ⊢
  generalize (acc.span (fun y => decide (v.toIndex y ≤ v.toIndex x))).2 = b at hcat ⊢
  subst hcat
  constructor
  · intro y
    simp only [List.mem_append, List.mem_cons]
    constructor
    · rintro (h | h | h)
      · exact Or.inr (Or.inl h)
      · exact Or.inl h
      · exact Or.inr (Or.inr h)
    · rintro (h | h | h)
      · exact Or.inr (Or.inl h)
      · exact Or.inl h
      · exact Or.inr (Or.inr h)
  · simp only [List.length_append, List.length_cons]; omega

theorem ordByIx_spec (v : View) : (∀ y, y ∈ ordByIx v ↔ y ∈ v.g.nodes) ∧ (ordByIx v).length = v.g.nodes.length := by
  have key : ∀ (l acc : List Nat), (∀ y, y ∈ l.foldl (insIx v) acc ↔ y ∈ l ∨ y ∈ acc) ∧
      (l.foldl (insIx v) acc).length = l.length + acc.length := by
    intro l
    induction l with
    | nil => intro acc; simp
    | cons x l ih =>
      intro acc
      simp only [List.foldl_cons]
      obtain ⟨h1, h2⟩ := ih (insIx v acc x)
      obtain ⟨h3, h4⟩ := insIx_spec v acc x
      constructor
      · intro y
        rw [h1, h3]
        simp only [List.mem_cons]
        constructor
        · rintro (h | h | h)
          · exact Or.inl (Or.inr h)
          · exact Or.inl (Or.inl h)
          · exact Or.inr h
        · rintro ((h | h) | h)
          · exact Or.inr (Or.inl h)
          · exact Or.inl h
          · exact Or.inr (Or.inr h)
      · rw [h2, h4]; simp only [List.length_cons]; omega
  have := key v.g.nodes []
  have hdef : ordByIx v = v.g.nodes.foldl (insIx v) [] := rfl
  rw [hdef]
  exact ⟨fun y => by rw [this.1]; simp, by rw [this.2]; simp⟩

theorem walk_from_outside {g : MGraph} (hwf : g.WellFormed) {a b : Nat} {c : Int} (h : WalkCost g a b c)
    (ha : a ∉ g.nodes) : a = b ∧ c = 0 := by
  induction h with
  | nil => exact ⟨rfl, rfl⟩
  | snoc _ harc ih =>
    obtain ⟨h1, _⟩ := ih
    exact absurd (h1 ▸ (arc_nodes hwf harc).1) ha

/-- the state of the matrix before the main loops -/
def fwInit (B : Meas) (v : View) : FW :=
  v.g.nodes.foldl (fwDiag B) (v.g.edges.foldl (fwInitEdge B v.g.directed) {})

theorem fwMatrix_eq (B : Meas) (v : View) :
    fwMatrix B v = (ordByIx v).foldl (fun st k => fwPass B (ordByIx v) k st) (fwInit B v) := rfl

/-- **floyd_warshall, `Ok` half.**  If the model answers `Ok`, every row of the matrix is exact:
the stored entries are the shortest-walk costs, no entry (`max()`) stands exactly for the
unreachable pairs, and no negative cycle is reachable from any node — provided the cost type is
wide against `2^|V| · max |cost|` (the bound `dbl |V| Wm`). -/
theorem floydWarshall_ok (B : Meas) (v : View) (hwf : v.g.WellFormed) (Wm : Int) (hWm : 0 ≤ Wm)
    (hW : ∀ e ∈ v.g.edges, -Wm ≤ e.w ∧ e.w ≤ Wm)
    (hfit : dbl v.g.nodes.length Wm + Wm < B.max ∧ B.min ≤ -(dbl v.g.nodes.length Wm))
    (st : FW) (h : floydWarshall B v = some st) :
    ∀ i ∈ v.g.nodes,
      (∀ j y, tget st.d (i, j) = some y → IsShortest v.g i j y) ∧
      (∀ j, tget st.d (i, j) = none ↔ ¬ ∃ c, WalkCost v.g i j c) ∧
      ¬ NegCycleReachable v.g i := by
  obtain ⟨hord, hlen⟩ := ordByIx_spec v
  have hWarc : ∀ a b w, (a, b, w) ∈ v.g.arcs → -Wm ≤ w ∧ w ≤ Wm := by
    intro a b w harc
    obtain ⟨e, he, hw, _⟩ := mem_arcs.mp harc
    rw [← hw]; exact hW e he
  -- the initial matrix
  have hI0 : InitInv B v.g.directed Wm ({} : FW).d := by
    refine ⟨?_, ?_, fun _ => ?_⟩
    · intro a b y hy; simp [tget] at hy
    · intro a b hne; simp [Dd, tget] at hne
    · intro a b; simp [Dd, tget]
  obtain ⟨hI1, _, hrelax⟩ := fwInit_inv (B := B) (dir := v.g.directed) v.g.edges {} hW hI0
  obtain ⟨⟨hbd2, hub2⟩, hm2, hdiag⟩ := fwDiags_inv (B := B) hWm v.g.nodes
    (v.g.edges.foldl (fwInitEdge B v.g.directed) {}) ⟨hI1.bd, hI1.ub⟩
  have hA0 : FAlways B v.g (fwInit B v).d := by
    refine ⟨hbd2, ?_, hdiag⟩
    intro a b w harc
    obtain ⟨e, he, hw, hor⟩ := mem_arcs.mp harc
    have hr := hrelax e he
    have := hm2 a b
    rcases hor with ⟨h1, h2⟩ | ⟨hd, h1, h2⟩
    · rw [← h1, ← h2, ← hw]
      have := hm2 e.src e.tgt
      show Dd B (fwInit B v).d e.src e.tgt ≤ e.w
      unfold fwInit
      omega
    · rw [← h1, ← h2, ← hw]
      have := hm2 e.tgt e.src
      have := hr.2 hd
      show Dd B (fwInit B v).d e.tgt e.src ≤ e.w
      unfold fwInit
      omega
  have hG0 : FNeg B v.g (fwInit B v).d ∨ FGood B v.g [] (fwInit B v).d Wm := by
    by_cases hneg : FNeg B v.g (fwInit B v).d
    · exact Or.inl hneg
    · right
      refine ⟨?_, hub2, ?_⟩
      · intro i hi
        have h1 := hA0.dgle i hi
        have h2 : ¬ Dd B (fwInit B v).d i i < 0 := fun hh => hneg ⟨i, hi, hh⟩
        omega
      · intro i _ u j w _ hu; cases hu
  obtain ⟨hA, hG⟩ := outer_good hwf hord hWm hWarc (ordByIx v) [] (fwInit B v) Wm (fun x hx => hx) hWm hA0 hG0
    (by rw [hlen]; exact hfit)
  rw [← fwMatrix_eq] at hA hG
  -- the result is the matrix, and no diagonal entry is negative
  have hreal := fwMatrix_real B v
  unfold floydWarshall at h
  simp only at h
  split at h
  · simp at h
  · rename_i hany
    cases h
    change ¬ ((ordByIx v).any (fun i => decide ((fwMatrix B v).dist B i i < 0)) = true) at hany
    have hnoneg : ¬ FNeg B v.g (fwMatrix B v).d := by
      rintro ⟨i, hi, hlt⟩
      apply hany
      simp only [List.any_eq_true, decide_eq_true_eq]
      exact ⟨i, (hord i).2 hi, hlt⟩
    change ∀ i ∈ v.g.nodes,
      (∀ j y, tget (fwMatrix B v).d (i, j) = some y → IsShortest v.g i j y) ∧
      (∀ j, tget (fwMatrix B v).d (i, j) = none ↔ ¬ ∃ c, WalkCost v.g i j c) ∧
      ¬ NegCycleReachable v.g i
    rcases hG with hneg | hgood
    · exact absurd hneg hnoneg
    · intro i hi
      rw [hlen] at hgood
      have hmaxpos : 0 < B.max := by have := le_dbl v.g.nodes.length Wm hWm; omega
      have hf : Feasible v.g (fun x => tget (fwMatrix B v).d (i, x)) := by
        intro u j w harc x hx
        have hxlt := hA.bd i u x hx
        have hDu : Dd B (fwMatrix B v).d i u = x := by simp [Dd, hx]
        have hne : Dd B (fwMatrix B v).d i u ≠ B.max := by omega
        have hun : u ∈ ordByIx v := (hord u).2 (arc_nodes hwf harc).1
        have := hgood.fk i hi u j w harc (by simpa using hun) hne
        have hub := hgood.ub i u hne
        have hw := hWarc u j w harc
        have hne' : Dd B (fwMatrix B v).d i j ≠ B.max := by omega
        exact ⟨_, Dd_some hA.bd hne', by omega⟩
      have hsrc : ∃ y, tget (fwMatrix B v).d (i, i) = some y ∧ y ≤ 0 := by
        have h0 := hgood.dg i hi
        have hne : Dd B (fwMatrix B v).d i i ≠ B.max := by omega
        exact ⟨_, Dd_some hA.bd hne, by omega⟩
      obtain ⟨_, hex, hinf, hno⟩ := exact_of_feasible (s := i) (fun x y hx => hreal i x y hx) hsrc hf
      exact ⟨hex, hinf, hno⟩

/-- consequence: a negative cycle anywhere makes the model err -/
theorem floydWarshall_detects (B : Meas) (v : View) (hwf : v.g.WellFormed) (Wm : Int) (hWm : 0 ≤ Wm)
    (hW : ∀ e ∈ v.g.edges, -Wm ≤ e.w ∧ e.w ≤ Wm)
    (hfit : dbl v.g.nodes.length Wm + Wm < B.max ∧ B.min ≤ -(dbl v.g.nodes.length Wm))
    (hneg : NegCycle v.g) : floydWarshall B v = none := by
  cases h : floydWarshall B v with
  | none => rfl
  | some st =>
    exfalso
    obtain ⟨u, c, hc, hlt⟩ := hneg
    by_cases hu : u ∈ v.g.nodes
    · exact (floydWarshall_ok B v hwf Wm hWm hW hfit st h u hu).2.2 ⟨u, 0, c, WalkCost.nil _, hc, hlt⟩
    · have := (walk_from_outside hwf hc hu).2
      omega

/-! ### the fuel of the two fuelled loops suffices -/

theorem fncLoop_fuel {g : MGraph} (p : Tab Nat Nat) (start : Nat)
    (hp : ∀ x q, tget p x = some q → q ∈ g.nodes) :
    ∀ (f node : Nat) (vis path : List Nat), vis.Nodup → (∀ x ∈ vis, x ∈ g.nodes) →
      (node = start ∨ node ∈ vis) → g.nodes.length + 1 ≤ f + vis.length →
      fncLoop p start f node vis path ≠ none := by
  intro f
  induction f with
  | zero =>
    intro node vis path hnd hsub _ hlen
    have := List.Nodup.length_le_of_subset hnd hsub
    omega
  | succ f ih =>
    intro node vis path hnd hsub hnode hlen
    simp only [fncLoop]
    split
    · simp
    · rename_i hne
      split
      · simp
      · rename_i hnc
        have hnc : (tget p node).getD node ∉ vis := by simpa using hnc
        have hne : (tget p node).getD node ≠ start := by simpa using hne
        have hanc : (tget p node).getD node ∈ g.nodes := by
          cases hq : tget p node with
          | some q => simp only [Option.getD_some]; exact hp node q hq
          | none =>
            exfalso
            rw [hq] at hne hnc
            simp only [Option.getD_none] at hne hnc
            rcases hnode with h | h
            · exact hne h
            · exact hnc h
        apply ih
        · exact List.nodup_cons.mpr ⟨hnc, hnd⟩
        · intro x hx
          rcases List.mem_cons.mp hx with rfl | hx
          · exact hanc
          · exact hsub x hx
        · exact Or.inr (List.mem_cons_self ..)
        · simp only [List.length_cons]; omega

/-- `find_negative_cycle`: the predecessor walk ends within `|V| + 2` steps -/
theorem findNegativeCycle_fuel (v : View) (hv : ViewArcs v) (hwf : v.g.WellFormed) (s : Nat) :
    findNegativeCycle v s ≠ .fuel := by
  unfold findNegativeCycle
  simp only
  have inv := bfRelax_inv v hv s
  have hp : ∀ x q, tget (bfRelax v s).p x = some q → q ∈ v.g.nodes := by
    intro x q hq
    obtain ⟨_, _, w, _, _, harc, _⟩ := inv.predArc x q hq
    exact (arc_nodes hwf harc).1
  split
  · simp
  · rename_i i j l hr
    have hi : i ∈ v.g.nodes := by
      have hm : (i, j) ∈ relaxables v (bfRelax v s).d := by rw [hr]; exact List.mem_cons_self ..
      unfold relaxables at hm
      obtain ⟨a, ha, hm⟩ := List.mem_flatMap.mp hm
      obtain ⟨te, _, hm⟩ := List.mem_filterMap.mp hm
      split at hm
      · simp only [Option.some.injEq, Prod.mk.injEq] at hm; exact hm.1 ▸ ha
      · simp at hm
    have hp' : ∀ x q, tget (tset (bfRelax v s).p j i) x = some q → q ∈ v.g.nodes := by
      intro x q hq
      rw [tget_tset] at hq
      split at hq
      · simp only [Option.some.injEq] at hq; exact hq ▸ hi
      · exact hp x q hq
    have := fncLoop_fuel (g := v.g) (tset (bfRelax v s).p j i) j hp' (v.g.nodes.length + 2) j [] [] List.nodup_nil
      (by simp) (Or.inl rfl) (by simp)
    split
    · rename_i hnone; exact absurd hnone this
    · split <;> simp

/-! spfa: every pop uses up one unit of `Σ_x (node_bound - visits[x])` -/

def visSum (nb : Nat) (visits : Tab Nat Nat) : List Nat → Nat
  | [] => 0
  | a :: l => (nb - (tget visits a).getD 0) + visSum nb visits l

theorem visSum_le (nb : Nat) (visits : Tab Nat Nat) (l : List Nat) : visSum nb visits l ≤ l.length * nb := by
  induction l with
  | nil => simp [visSum]
  | cons a l ih =>
    simp only [visSum, List.length_cons, Nat.add_mul, Nat.one_mul]
    omega

theorem visSum_notin (nb : Nat) (visits : Tab Nat Nat) (i n : Nat) (l : List Nat) (hi : i ∉ l) :
    visSum nb (tset visits i n) l = visSum nb visits l := by
  induction l with
  | nil => rfl
  | cons a l ih =>
    have hai : a ≠ i := fun h => hi (h ▸ List.mem_cons_self ..)
    have hil : i ∉ l := fun h => hi (List.mem_cons_of_mem _ h)
    simp only [visSum]
    rw [ih hil, tget_tset, if_neg hai]

theorem visSum_pop (nb : Nat) (visits : Tab Nat Nat) (i : Nat) (l : List Nat) (hnd : l.Nodup) (hi : i ∈ l)
    (hlt : (tget visits i).getD 0 < nb) :
    visSum nb (tset visits i ((tget visits i).getD 0 + 1)) l + 1 = visSum nb visits l := by
  induction l with
  | nil => cases hi
  | cons a l ih =>
    obtain ⟨hal, hnd'⟩ := List.nodup_cons.mp hnd
    simp only [visSum]
    by_cases hai : a = i
    · subst hai
      rw [visSum_notin nb visits a _ l hal, tget_tset, if_pos rfl]
      simp only [Option.getD_some]
      omega
    · have hil : i ∈ l := by
        rcases List.mem_cons.mp hi with h | h
        · exact absurd h.symm hai
        · exact h
      have := ih hnd' hil
      rw [tget_tset, if_neg hai]
      omega

theorem spEdge_q_nodes (B : Meas) (v : View) (i : Nat) (st : SP) (te : Nat × Nat) (hte : te.1 ∈ v.g.nodes)
    (h : ∀ x ∈ st.q, x ∈ v.g.nodes) :
    (∀ x ∈ (spEdge B v i st te).q, x ∈ v.g.nodes) ∧ (spEdge B v i st te).visits = st.visits := by
  unfold spEdge
  simp only
  split
  · split
    · exact ⟨h, rfl⟩
    · refine ⟨?_, rfl⟩
      intro x hx
      simp only [List.mem_append, List.mem_singleton] at hx
      rcases hx with hx | hx
      · exact h x hx
      · exact hx ▸ hte
  · exact ⟨h, rfl⟩

theorem spEdges_q_nodes (B : Meas) (v : View) (i : Nat) :
    ∀ (l : List (Nat × Nat)) (st : SP), (∀ te ∈ l, te.1 ∈ v.g.nodes) → (∀ x ∈ st.q, x ∈ v.g.nodes) →
      (∀ x ∈ (l.foldl (spEdge B v i) st).q, x ∈ v.g.nodes) ∧ (l.foldl (spEdge B v i) st).visits = st.visits := by
  intro l
  induction l with
  | nil => intro st _ h; exact ⟨h, rfl⟩
  | cons te l ih =>
    intro st hl h
    simp only [List.foldl_cons]
    obtain ⟨h1, h2⟩ := spEdge_q_nodes B v i st te (hl te (List.mem_cons_self ..)) h
    obtain ⟨h3, h4⟩ := ih _ (fun t ht => hl t (List.mem_cons_of_mem _ ht)) h1
    exact ⟨h3, h4.trans h2⟩

theorem spLoop_fuel (B : Meas) (v : View) (hv : ViewArcs v) (hwf : v.g.WellFormed) :
    ∀ (f : Nat) (st : SP), (∀ x ∈ st.q, x ∈ v.g.nodes) → visSum v.nb st.visits v.g.nodes + 1 ≤ f →
      spLoop B v f st ≠ none := by
  intro f
  induction f with
  | zero => intro st _ h; omega
  | succ f ih =>
    intro st hq hf
    simp only [spLoop]
    split
    · simp
    · rename_i i q hqq
      split
      · simp
      · rename_i hlt
        have hi : i ∈ v.g.nodes := hq i (by rw [hqq]; simp)
        have hq' : ∀ x ∈ q, x ∈ v.g.nodes := fun x hx => hq x (by rw [hqq]; exact List.mem_cons_of_mem _ hx)
        have hpop := visSum_pop v.nb st.visits i v.g.nodes hwf.1 hi (by omega)
        obtain ⟨h1, h2⟩ := spEdges_q_nodes B v i (v.outOf i)
          { st with q := q, inq := st.inq.erase i, visits := tset st.visits i ((tget st.visits i).getD 0 + 1) }
          (fun te hte => (arc_nodes hwf (hv.sound i te hte)).2) hq'
        apply ih _ h1
        rw [h2]
        simp only
        omega

/-- `spfa`: the work-list loop ends within its fuel -/
theorem spfa_fuel (B : Meas) (v : View) (hv : ViewArcs v) (hwf : v.g.WellFormed) (s : Nat) (hs : s ∈ v.g.nodes) :
    spfa B v s ≠ none := by
  unfold spfa
  apply spLoop_fuel B v hv hwf
  · intro x hx
    have : x = s := by simpa using hx
    exact this ▸ hs
  · show visSum v.nb ([] : Tab Nat Nat) v.g.nodes + 1 ≤ spFuel v
    have h1 := visSum_le v.nb ([] : Tab Nat Nat) v.g.nodes
    unfold spFuel
    have : (v.nb + 2) * (v.g.nodes.length + 1) = v.g.nodes.length * v.nb + v.nb + 2 * v.g.nodes.length + 2 := by
      rw [Nat.add_mul, Nat.mul_add, Nat.mul_add, Nat.mul_comm v.nb v.g.nodes.length]
      omega
    omega
end PetgraphModel.C11MP
