import PetgraphModel.Proofs.C07W2Base
import PetgraphModel.Proofs.C12Forest
import PetgraphModel.Proofs.C12Count
import PetgraphModel.Proofs.C12Min
import PetgraphModel.Proofs.C12Heap
import PetgraphModel.Proofs.C12Kruskal
import PetgraphModel.Proofs.C12Prim
/-
C07, wave 2 — minimum spanning forests (C12).

The weight of the forest a Kruskal / Prim run emits is determined by the abstract graph: two forests
that both *realise every bottleneck connection* of the same undirected weighted edge relation
(`Light`) and consist of edges of it (`FromE`) have the same number of edges and the same weight
(`light_forests_unique`).  Both mirror models establish `Light` (it is the invariant their minimality
proofs rest on; re-derived here from the public loop theorems because `KruskalOnGraph` / `PrimTree`
do not export it).  `UEdge` reads an edge list as a set of undirected weighted edges, so edge ids,
stored orientation, order and multiplicity are irrelevant.
-/
namespace PetgraphModel.C07W2
open PetgraphModel PetgraphModel.MGraph PetgraphModel.MST PetgraphModel.MstModel

/-- `E` contains an edge joining `a` and `b` (either orientation) of weight `w` -/
def UEdge (E : List Edge) (a b : Nat) (w : Int) : Prop :=
  ∃ e ∈ E, e.w = w ∧ ((e.src = a ∧ e.tgt = b) ∨ (e.src = b ∧ e.tgt = a))

/-- the same undirected weighted edges -/
def SameUEdges (E1 E2 : List Edge) : Prop := ∀ a b w, UEdge E1 a b w ↔ UEdge E2 a b w

theorem SameUEdges.symm {E1 E2 : List Edge} (h : SameUEdges E1 E2) : SameUEdges E2 E1 :=
  fun a b w => (h a b w).symm

theorem SameUEdges.refl (E : List Edge) : SameUEdges E E := fun _ _ _ => Iff.rfl

theorem UEdge.symm {E : List Edge} {a b : Nat} {w : Int} (h : UEdge E a b w) : UEdge E b a w := by
  obtain ⟨e, he, hw, hor⟩ := h
  exact ⟨e, he, hw, hor.symm⟩

theorem uedge_of_mem {E : List Edge} {e : Edge} (he : e ∈ E) : UEdge E e.src e.tgt e.w :=
  ⟨e, he, rfl, Or.inl ⟨rfl, rfl⟩⟩

abbrev lightF (t : Int) (F : List Edge) : List Edge := F.filter fun x => decide (x.w ≤ t)

/-- `M` realises every bottleneck connection of `E`: the endpoints of an edge of weight `≤ t` are
joined by edges of `M` of weight `≤ t` -/
def Light (E M : List Edge) : Prop :=
  ∀ (t : Int) (a b : Nat) (w : Int), UEdge E a b w → w ≤ t → Conn (lightF t M) a b

/-- every edge of `M` is (up to orientation and id) an edge of `E` -/
def FromE (E M : List Edge) : Prop := ∀ e ∈ M, UEdge E e.src e.tgt e.w

theorem Light.congr {E1 E2 M : List Edge} (h : SameUEdges E1 E2) (hl : Light E1 M) : Light E2 M :=
  fun t a b w hu hw => hl t a b w ((h a b w).mpr hu) hw

theorem FromE.congr {E1 E2 M : List Edge} (h : SameUEdges E1 E2) (hf : FromE E1 M) : FromE E2 M :=
  fun e he => (h _ _ _).mp (hf e he)

/-- from the edge form used inside the C12 proofs -/
theorem light_of_edges {E M : List Edge}
    (h : ∀ t : Int, ∀ e ∈ E, e.w ≤ t → Conn (lightF t M) e.src e.tgt) : Light E M := by
  intro t a b w ⟨e, he, hw, hor⟩ hwt
  have hc := h t e he (by omega)
  rcases hor with ⟨h1, h2⟩ | ⟨h1, h2⟩
  · rw [← h1, ← h2]; exact hc
  · rw [← h1, ← h2]; exact hc.symm

/-! ### two light forests of the same edge relation weigh the same -/

theorem exists_ub : ∀ l : List Int, ∃ t, ∀ x ∈ l, x ≤ t
  | [] => ⟨0, fun _ h => (nomatch h)⟩
  | x :: r => by
    obtain ⟨t, ht⟩ := exists_ub r
    refine ⟨max x t, ?_⟩
    intro y hy
    rcases List.mem_cons.mp hy with rfl | hy
    · exact Int.le_max_left _ _
    · exact Int.le_trans (ht y hy) (Int.le_max_right _ _)

theorem light_count_le' {E M M' : List Edge} (hacM : Acyclic M) (hacM' : Acyclic M')
    (hl : Light E M) (hf' : FromE E M') (t : Int) : (lightF t M').length ≤ (lightF t M).length := by
  obtain ⟨V, hV, hends⟩ := exists_nodes (M ++ M')
  refine light_count_le (E := M') hV (fun e he => hends e (List.mem_append_right _ he))
    (fun e he => hends e (List.mem_append_left _ he)) (fun e he => he) hacM hacM' t ?_
  intro e he het
  exact hl t e.src e.tgt e.w (hf' e he) het

/-- **uniqueness of the weight**: two acyclic edge sets that both realise every bottleneck connection
of `E` and consist of edges of `E` have the same size and the same total weight. -/
theorem light_forests_unique {E M M' : List Edge} (hacM : Acyclic M) (hacM' : Acyclic M')
    (hl : Light E M) (hf : FromE E M) (hl' : Light E M') (hf' : FromE E M') :
    M.length = M'.length ∧ weight M = weight M' := by
  have c1 := light_count_le' hacM hacM' hl hf'
  have c2 := light_count_le' hacM' hacM hl' hf
  have hlen : M.length = M'.length := by
    obtain ⟨t, ht⟩ := exists_ub ((M ++ M').map (·.w))
    have e1 : lightF t M = M := List.filter_eq_self.mpr fun e he =>
      decide_eq_true (ht e.w (List.mem_map.mpr ⟨e, List.mem_append_left _ he, rfl⟩))
    have e2 : lightF t M' = M' := List.filter_eq_self.mpr fun e he =>
      decide_eq_true (ht e.w (List.mem_map.mpr ⟨e, List.mem_append_right _ he, rfl⟩))
    have h1 := c1 t
    have h2 := c2 t
    rw [e1, e2] at h1 h2
    omega
  refine ⟨hlen, ?_⟩
  have w1 : weight M ≤ weight M' := by
    rw [weight_eq_sum, weight_eq_sum]
    refine sum_le_of_dominated M.length _ _ (by simp) (by simp [hlen]) ?_
    intro t; rw [countP_weights, countP_weights]; exact c1 t
  have w2 : weight M' ≤ weight M := by
    rw [weight_eq_sum, weight_eq_sum]
    refine sum_le_of_dominated M'.length _ _ (by simp) (by simp [hlen]) ?_
    intro t; rw [countP_weights, countP_weights]; exact c2 t
  omega

/-! ### relabeling edge lists -/

/-- rename the endpoints of an edge -/
def rl (φ : Nat → Nat) (e : Edge) : Edge := { e with src := φ e.src, tgt := φ e.tgt }

theorem relabel_edges' (φ : Nat → Nat) (g : MGraph) : (relabel φ g).edges = g.edges.map (rl φ) := rfl

theorem ug_map_rl (φ : Nat → Nat) (F : List Edge) : ug (F.map (rl φ)) = relabel φ (ug F) := rfl

theorem conn_map_rl (φ : Nat → Nat) {F : List Edge} {a b : Nat} (h : Conn F a b) :
    Conn (F.map (rl φ)) (φ a) (φ b) := by
  unfold Conn at *
  rw [ug_map_rl]
  exact reach_relabel φ (ug F) h

theorem conn_map_rl_iff {φ : Nat → Nat} (hφ : Inj φ) {F : List Edge} {a b : Nat} :
    Conn (F.map (rl φ)) (φ a) (φ b) ↔ Conn F a b := by
  unfold Conn
  rw [ug_map_rl]
  exact reach_relabel_iff (ug F) hφ

theorem lightF_map_rl (φ : Nat → Nat) (t : Int) (F : List Edge) :
    lightF t (F.map (rl φ)) = (lightF t F).map (rl φ) := by
  induction F with
  | nil => rfl
  | cons e r ih =>
    simp only [List.map_cons, List.filter_cons]
    have : (rl φ e).w = e.w := rfl
    rw [this]
    split <;> simp [ih]

theorem weight_map_rl (φ : Nat → Nat) (F : List Edge) : weight (F.map (rl φ)) = weight F := by
  unfold weight
  rw [List.map_map]
  rfl

theorem acyclic_map_rl {φ : Nat → Nat} (hφ : Inj φ) : ∀ {F : List Edge}, Acyclic F → Acyclic (F.map (rl φ))
  | [], _ => acyclic_nil
  | e :: F, h => by
    rw [List.map_cons]
    refine acyclic_cons (acyclic_map_rl hφ h.tail) ?_
    intro hc
    exact h.head ((conn_map_rl_iff hφ).mp hc)

theorem uedge_map_rl_iff (φ : Nat → Nat) {E : List Edge} {a' b' : Nat} {w : Int} :
    UEdge (E.map (rl φ)) a' b' w ↔ ∃ a b, a' = φ a ∧ b' = φ b ∧ UEdge E a b w := by
  constructor
  · rintro ⟨e', he', hw, hor⟩
    obtain ⟨e, he, rfl⟩ := List.mem_map.mp he'
    rcases hor with ⟨h1, h2⟩ | ⟨h1, h2⟩
    · exact ⟨e.src, e.tgt, h1.symm, h2.symm, e, he, hw, Or.inl ⟨rfl, rfl⟩⟩
    · exact ⟨e.tgt, e.src, h2.symm, h1.symm, e, he, hw, Or.inr ⟨rfl, rfl⟩⟩
  · rintro ⟨a, b, rfl, rfl, e, he, hw, hor⟩
    refine ⟨rl φ e, List.mem_map.mpr ⟨e, he, rfl⟩, hw, ?_⟩
    rcases hor with ⟨h1, h2⟩ | ⟨h1, h2⟩
    · exact Or.inl ⟨by simp [rl, h1], by simp [rl, h2]⟩
    · exact Or.inr ⟨by simp [rl, h1], by simp [rl, h2]⟩

theorem light_map_rl (φ : Nat → Nat) {E M : List Edge} (h : Light E M) :
    Light (E.map (rl φ)) (M.map (rl φ)) := by
  intro t a' b' w hu hw
  obtain ⟨a, b, rfl, rfl, hu'⟩ := (uedge_map_rl_iff φ).mp hu
  rw [lightF_map_rl]
  exact conn_map_rl φ (h t a b w hu' hw)

theorem fromE_map_rl (φ : Nat → Nat) {E M : List Edge} (h : FromE E M) :
    FromE (E.map (rl φ)) (M.map (rl φ)) := by
  intro e' he'
  obtain ⟨e, he, rfl⟩ := List.mem_map.mp he'
  exact (uedge_map_rl_iff φ).mpr ⟨e.src, e.tgt, rfl, rfl, h e he⟩

theorem map_rl_id (F : List Edge) : F.map (rl id) = F := by
  have : rl id = id := by funext e; cases e; rfl
  rw [this, List.map_id]

/-- **relabeling + re-presentation**: a light forest of `E1`, renamed, and a light forest of any
presentation `E2` of the renamed edges have the same size and weight -/
theorem light_forests_iso {φ : Nat → Nat} (hφ : Inj φ) {E1 E2 M1 M2 : List Edge}
    (hE : SameUEdges E2 (E1.map (rl φ)))
    (hac1 : Acyclic M1) (hl1 : Light E1 M1) (hf1 : FromE E1 M1)
    (hac2 : Acyclic M2) (hl2 : Light E2 M2) (hf2 : FromE E2 M2) :
    M1.length = M2.length ∧ weight M1 = weight M2 := by
  have := light_forests_unique (E := E2) (acyclic_map_rl hφ hac1) hac2
    (Light.congr hE.symm (light_map_rl φ hl1)) (FromE.congr hE.symm (fromE_map_rl φ hf1)) hl2 hf2
  rw [List.length_map, weight_map_rl] at this
  exact this

/-! ### the Kruskal model establishes `Light` -/

theorem weight_items_eq (nodes : List Nat) (A : List Item) :
    weight (A.map Item.toEdge) = ((A.map (toEl nodes)).map (·.w)).sum := by
  unfold weight
  rw [List.map_map, List.map_map]
  rfl

/-- `kruskal_on_graph` with the bottleneck invariant exported -/
theorem kruskal_light (v : View) (hv : KView v) (hg : v.g.WellFormed)
    (er : List (Nat × Nat × Nat)) (her : ErOk v er) :
    ∃ A : List Item,
      kruskal v er = .ok v.g.nodes (A.map (toEl v.g.nodes)) ∧
      Acyclic (A.map Item.toEdge) ∧ Light v.g.edges (A.map Item.toEdge) ∧
      FromE v.g.edges (A.map Item.toEdge) := by
  have hends : ∀ x ∈ er, x.1 ∈ v.g.nodes ∧ x.2.1 ∈ v.g.nodes := by
    intro x hx
    obtain ⟨e, he, _, h⟩ := her.sound x hx
    rcases h with ⟨h1, h2⟩ | ⟨h1, h2⟩
    · exact ⟨h1 ▸ (hg.2 e he).1, h2 ▸ (hg.2 e he).2⟩
    · exact ⟨h2 ▸ (hg.2 e he).2, h1 ▸ (hg.2 e he).1⟩
  have hperm := popAll_buildHeap_perm v er
  have hsorted := popAll_buildHeap_sorted v er
  have hitems : ∀ it ∈ popAll ((buildHeap v er).length + 1) (buildHeap v er),
      it.a ∈ v.g.nodes ∧ it.b ∈ v.g.nodes := by
    intro it hit
    obtain ⟨x, hx, rfl⟩ := List.mem_map.mp (hperm.mem_iff.mp hit)
    exact hends x hx
  obtain ⟨A, Rej, hrun, hres⟩ := kruskalScan_correct v hv hg.1 _ hitems
  refine ⟨A, hrun, hres.acyclic, ?_, ?_⟩
  · have hpermE := hperm.map Item.toEdge
    have hpermMR : (A.map Item.toEdge ++ Rej.map Item.toEdge).Perm
        ((popAll ((buildHeap v er).length + 1) (buildHeap v er)).map Item.toEdge) := by
      rw [← List.map_append]; exact hres.perm.map _
    have hls := light_spans hpermMR hres.acyclic hres.spanning (hres.cycleProp hsorted)
    refine light_of_edges ?_
    intro t e he het
    obtain ⟨x, hx, hw, hxe⟩ := her.complete e he
    have hmem : (⟨v.weight x.2.2, x.1, x.2.1⟩ : Item).toEdge ∈
        (popAll ((buildHeap v er).length + 1) (buildHeap v er)).map Item.toEdge :=
      hpermE.mem_iff.mpr (List.mem_map.mpr ⟨_, List.mem_map.mpr ⟨x, hx, rfl⟩, rfl⟩)
    have hc := hls t _ hmem (by show v.weight x.2.2 ≤ t; omega)
    rcases hxe with ⟨h1, h2⟩ | ⟨h1, h2⟩
    · rw [← h1, ← h2]; exact hc
    · rw [← h1, ← h2]; exact hc.symm
  · intro e he
    obtain ⟨it, hit, rfl⟩ := List.mem_map.mp he
    obtain ⟨x, hx, rfl⟩ := List.mem_map.mp (hperm.mem_iff.mp (hres.sub.subset hit))
    obtain ⟨e, he, hw, h⟩ := her.sound x hx
    exact ⟨e, he, hw, h⟩

/-! ### the Prim model establishes `Light` on the first node's component -/

theorem uedge_within {comp : List Nat} {E : List Edge} {a b : Nat} {w : Int} :
    UEdge (edgesWithin comp E) a b w ↔ a ∈ comp ∧ b ∈ comp ∧ UEdge E a b w := by
  constructor
  · rintro ⟨e, he, hw, hor⟩
    obtain ⟨h0, h1, h2⟩ := mem_edgesWithin.mp he
    rcases hor with ⟨rfl, rfl⟩ | ⟨rfl, rfl⟩
    · exact ⟨h1, h2, e, h0, hw, Or.inl ⟨rfl, rfl⟩⟩
    · exact ⟨h2, h1, e, h0, hw, Or.inr ⟨rfl, rfl⟩⟩
  · rintro ⟨ha, hb, e, he, hw, hor⟩
    refine ⟨e, mem_edgesWithin.mpr ⟨he, ?_⟩, hw, hor⟩
    rcases hor with ⟨rfl, rfl⟩ | ⟨rfl, rfl⟩
    · exact ⟨ha, hb⟩
    · exact ⟨hb, ha⟩

/-- `prim_correct` with the bottleneck invariant exported: the emitted tree is acyclic, consists of
edges inside the first node's component and realises every bottleneck connection of those edges -/
theorem prim_light (v : View) (hv : PView v) (s : Nat) (rest : List Nat) (hnodes : v.g.nodes = s :: rest) :
    ∃ A : List Item, prim v = .ok v.g.nodes (A.map (toEl v.g.nodes)) ∧
      Acyclic (A.map Item.toEdge) ∧
      ∀ comp : List Nat, (∀ x, x ∈ comp ↔ Conn v.g.edges s x) →
        Light (edgesWithin comp v.g.edges) (A.map Item.toEdge) ∧
        FromE (edgesWithin comp v.g.edges) (A.map Item.toEdge) := by
  unfold prim
  rw [hnodes]
  simp only
  rw [← hnodes]
  have hs : s ∈ v.g.nodes := by rw [hnodes]; exact List.mem_cons_self ..
  have inv0 : PInv v s (pushEdges v [] s) [s] [] := by
    refine ⟨fun x hx => by simp at hx; subst hx; exact hs, by simp, by simp, acyclic_nil,
      fun _ h => (nomatch h), fun _ h => (nomatch h), ?_, ?_, ?_, rfl,
      foldl_push_heap (outItem v s) (v.outOf s) [] isHeap_nil, ?_⟩
    · intro x hx; simp at hx; subst hx; exact Conn.refl _ _
    · intro x hx
      rcases mem_pushEdges.mp hx with ⟨oe, hoe, rfl⟩ | hx'
      · exact ⟨by simp [outItem], oe, hoe, rfl⟩
      · cases hx'
    · intro a ha oe hoe
      simp at ha; subst ha
      exact Or.inr (mem_pushEdges.mpr (Or.inl ⟨oe, hoe, rfl⟩))
    · intro t a ha x hx _
      simp at ha hx; subst ha; subst hx; exact Conn.refl _ _
  have hfuel0 : (pushEdges v [] s).length + pending v [s] < primFuel v := by
    rw [pushEdges_length]
    have h1 := pending_cons hv (Tn := []) hs (by simp)
    have h2 : pending v [] = (v.g.nodes.map fun x => (v.outOf x).length).sum := by
      have : (v.g.nodes.filter fun _ => true) = v.g.nodes := List.filter_eq_self.mpr (fun _ _ => rfl)
      simp [pending, this]
    unfold primFuel
    simp only [List.length_nil] at *
    omega
  obtain ⟨B, Tn, hes, fin⟩ := primLoop_spec v hv s (primFuel v) _ [s] [] [] _ inv0 hfuel0 rfl
  simp only [List.append_nil, List.reverse_nil, List.nil_append, List.map_cons, List.map_nil] at hes fin
  have hperm : (B.reverse.map Item.toEdge).Perm (B.map Item.toEdge) := (List.reverse_perm B).map _
  have hmemB : ∀ it, it ∈ B ↔ it ∈ B.reverse := fun it => by simp
  have hsubG : ∀ e ∈ B.reverse.map Item.toEdge, Conn v.g.edges e.src e.tgt := by
    intro e he
    obtain ⟨it, hit, rfl⟩ := List.mem_map.mp he
    obtain ⟨e', he', _, hends⟩ := isOut_edge hv (fin.tsub _ (fin.ain it hit).1) (fin.aout it hit)
    rcases hends with ⟨h1, h2⟩ | ⟨h1, h2⟩
    · show Conn v.g.edges it.a it.b
      rw [← h1, ← h2]; exact Conn.edge he'
    · show Conn v.g.edges it.a it.b
      rw [← h1, ← h2]; exact (Conn.edge he').symm
  have hTn : ∀ x, x ∈ Tn ↔ Conn v.g.edges s x := by
    intro x
    constructor
    · intro hx
      exact (fin.reach x hx).of_edges hsubG
    · intro hc
      unfold Conn at hc
      induction hc with
      | refl => exact fin.sIn
      | @step b c _ hadj ih =>
        rw [adj_ug] at hadj
        obtain ⟨e, he, h'⟩ := hadj
        rcases fin.closed with hall | hcl
        · rcases h' with ⟨_, h2⟩ | ⟨h1, _⟩
          · rw [← h2]; exact hall _ (hv.ends e he).2
          · rw [← h1]; exact hall _ (hv.ends e he).1
        · obtain ⟨⟨oe1, hoe1, ht1, _⟩, ⟨oe2, hoe2, ht2, _⟩⟩ := hv.outComplete e he
          rcases h' with ⟨h1, h2⟩ | ⟨h1, h2⟩
          · rw [← h2, ← ht1]; exact hcl e.src (h1 ▸ ih) oe1 hoe1
          · rw [← h1, ← ht2]; exact hcl e.tgt (h2 ▸ ih) oe2 hoe2
  refine ⟨B, hes, fin.acyclic.perm hperm, ?_⟩
  intro comp hcomp
  have hcT : ∀ x, x ∈ comp ↔ x ∈ Tn := fun x => (hcomp x).trans (hTn x).symm
  refine ⟨?_, ?_⟩
  · intro t a b w hu hw
    obtain ⟨ha, hb, e, he, hew, hor⟩ := uedge_within.mp hu
    have hp : (MstModel.light t (B.reverse.map Item.toEdge)).Perm (MstModel.light t (B.map Item.toEdge)) :=
      hperm.filter _
    have hmem : e ∈ MstModel.light t v.g.edges :=
      List.mem_filter.mpr ⟨he, decide_eq_true (by omega)⟩
    have hc : Conn (MstModel.light t v.g.edges) a b := by
      rcases hor with ⟨h1, h2⟩ | ⟨h1, h2⟩
      · rw [← h1, ← h2]; exact Conn.edge hmem
      · rw [← h1, ← h2]; exact (Conn.edge hmem).symm
    exact (conn_perm hp).mp (fin.light t a ((hcT a).mp ha) b ((hcT b).mp hb) hc)
  · intro e he
    obtain ⟨it, hit, rfl⟩ := List.mem_map.mp he
    have hit' := (hmemB it).mp hit
    obtain ⟨e', he', hw', hends⟩ := isOut_edge hv (fin.tsub _ (fin.ain it hit').1) (fin.aout it hit')
    refine uedge_within.mpr ⟨(hcT _).mpr (fin.ain it hit').1, (hcT _).mpr (fin.ain it hit').2, e', he', hw', hends⟩

/-! ### connectivity only depends on the undirected edge relation -/

theorem adj_ug_uedge {F : List Edge} {a b : Nat} : (ug F).Adj a b ↔ ∃ w, UEdge F a b w := by
  rw [adj_ug]
  constructor
  · rintro ⟨e, he, hor⟩; exact ⟨e.w, e, he, rfl, hor⟩
  · rintro ⟨w, e, he, _, hor⟩; exact ⟨e, he, hor⟩

theorem SameUEdges.sameAdj {E1 E2 : List Edge} (h : SameUEdges E1 E2) : SameAdj (ug E1) (ug E2) := by
  intro a b
  rw [adj_ug_uedge, adj_ug_uedge]
  exact ⟨fun ⟨w, hw⟩ => ⟨w, (h a b w).mp hw⟩, fun ⟨w, hw⟩ => ⟨w, (h a b w).mpr hw⟩⟩

theorem conn_congr_uedges {E1 E2 : List Edge} (h : SameUEdges E1 E2) {a b : Nat} :
    Conn E1 a b ↔ Conn E2 a b := reach_congr h.sameAdj

/-- the component edges correspond: if `E2` presents `E1` renamed by `φ`, `comp1` is the component of
`s` in `E1` and `comp2` the component of `φ s` in `E2`, then the edges inside `comp2` present the
edges inside `comp1` renamed -/
theorem sameUEdges_within {φ : Nat → Nat} (hφ : Inj φ) {E1 E2 : List Edge}
    (hE : SameUEdges E2 (E1.map (rl φ))) {s : Nat} {comp1 comp2 : List Nat}
    (h1 : ∀ x, x ∈ comp1 ↔ Conn E1 s x) (h2 : ∀ x, x ∈ comp2 ↔ Conn E2 (φ s) x) :
    SameUEdges (edgesWithin comp2 E2) ((edgesWithin comp1 E1).map (rl φ)) := by
  have hc : ∀ a, φ a ∈ comp2 ↔ a ∈ comp1 := fun a =>
    ((h2 (φ a)).trans ((conn_congr_uedges hE).trans (conn_map_rl_iff hφ))).trans (h1 a).symm
  intro a' b' w
  rw [uedge_within, uedge_map_rl_iff, hE a' b' w, uedge_map_rl_iff]
  constructor
  · rintro ⟨ha, hb, a, b, rfl, rfl, hu⟩
    exact ⟨a, b, rfl, rfl, uedge_within.mpr ⟨(hc a).mp ha, (hc b).mp hb, hu⟩⟩
  · rintro ⟨a, b, rfl, rfl, hu⟩
    obtain ⟨ha, hb, hu'⟩ := uedge_within.mp hu
    exact ⟨(hc a).mpr ha, (hc b).mpr hb, a, b, rfl, rfl, hu'⟩

/-! ### `SpanningForest` / `MinSpanningForest` under relabeling -/

/-- a rearrangement of an image list is the image of a rearrangement -/
theorem perm_map_preimage {α β : Type} (f : α → β) {l1 l2 : List β} (hp : l1.Perm l2) :
    ∀ l : List α, l2 = l.map f → ∃ l0 : List α, l0.Perm l ∧ l0.map f = l1 := by
  induction hp with
  | nil => intro l hl; exact ⟨[], by rw [List.map_eq_nil_iff.mp hl.symm], rfl⟩
  | @cons x l1 l2 _ ih =>
    intro l hl
    match l, hl with
    | a :: l', hl =>
      simp only [List.map_cons, List.cons.injEq] at hl
      obtain ⟨l0, h0, h1⟩ := ih l' hl.2
      exact ⟨a :: l0, h0.cons a, by simp [h1, hl.1]⟩
  | swap x y l' =>
    intro l hl
    match l, hl with
    | a :: b :: m, hl =>
      simp only [List.map_cons, List.cons.injEq] at hl
      exact ⟨b :: a :: m, List.Perm.swap _ _ _, by simp [hl.1, hl.2.1, hl.2.2]⟩
  | trans _ _ ih1 ih2 =>
    intro l hl
    obtain ⟨m2, hm2, hm2'⟩ := ih2 l hl
    obtain ⟨m1, hm1, hm1'⟩ := ih1 m2 hm2'.symm
    exact ⟨m1, hm1.trans hm2, hm1'⟩

theorem acyclic_of_map_rl (φ : Nat → Nat) : ∀ {F : List Edge}, Acyclic (F.map (rl φ)) → Acyclic F
  | [], _ => acyclic_nil
  | e :: F, h => by
    rw [List.map_cons] at h
    refine acyclic_cons (acyclic_of_map_rl φ h.tail) ?_
    intro hc
    exact h.head (conn_map_rl φ hc)

theorem spanning_map_rl (φ : Nat → Nat) {E F : List Edge} (h : Spanning E F) :
    Spanning (E.map (rl φ)) (F.map (rl φ)) := by
  intro a' b' hc
  refine hc.of_edges ?_
  intro e' he'
  obtain ⟨e, he, rfl⟩ := List.mem_map.mp he'
  exact conn_map_rl φ (h _ _ (Conn.edge he))

theorem spanning_of_map_rl {φ : Nat → Nat} (hφ : Inj φ) {E F : List Edge}
    (h : Spanning (E.map (rl φ)) (F.map (rl φ))) : Spanning E F :=
  fun _ _ hc => (conn_map_rl_iff hφ).mp (h _ _ (conn_map_rl φ hc))

theorem spanningForest_map_rl {φ : Nat → Nat} (hφ : Inj φ) {E F : List Edge} (h : SpanningForest E F) :
    SpanningForest (E.map (rl φ)) (F.map (rl φ)) := by
  obtain ⟨R, hR⟩ := h.sub
  refine ⟨⟨R.map (rl φ), ?_⟩, acyclic_map_rl hφ h.acyclic, spanning_map_rl φ h.spanning⟩
  rw [← List.map_append]; exact hR.map _

theorem spanningForest_of_map_rl {φ : Nat → Nat} (hφ : Inj φ) {E F' : List Edge}
    (h : SpanningForest (E.map (rl φ)) F') : ∃ F, F' = F.map (rl φ) ∧ SpanningForest E F := by
  obtain ⟨R', hR'⟩ := h.sub
  obtain ⟨l0, hl0, hl0'⟩ := perm_map_preimage (rl φ) hR' E rfl
  obtain ⟨F, R, rfl, hF, _⟩ := List.map_eq_append_iff.mp hl0'
  refine ⟨F, hF.symm, ⟨R, hl0⟩, acyclic_of_map_rl φ (hF ▸ h.acyclic), spanning_of_map_rl hφ (hF ▸ h.spanning)⟩

/-- **`MinSpanningForest` is carried along by an injective relabeling** (with its weight) -/
theorem minSpanningForest_map_rl {φ : Nat → Nat} (hφ : Inj φ) {E M : List Edge}
    (h : MinSpanningForest E M) : MinSpanningForest (E.map (rl φ)) (M.map (rl φ)) := by
  refine ⟨spanningForest_map_rl hφ h.1, ?_⟩
  intro F' hF'
  obtain ⟨F, rfl, hF⟩ := spanningForest_of_map_rl hφ hF'
  rw [weight_map_rl, weight_map_rl]
  exact h.2 F hF

/-- all minimum spanning forests of an edge list weigh the same -/
theorem minSpanningForest_weight_unique {E M M' : List Edge} (h : MinSpanningForest E M)
    (h' : MinSpanningForest E M') : weight M = weight M' := by
  have h1 := h.2 M' h'.1
  have h2 := h'.2 M h.1
  omega

end PetgraphModel.C07W2
