import PetgraphModel.Proofs.C13W3Iter
/-
C13, wave 3 — "the same problem" up to the order in which nodes and edges are listed, and the problem an
instance of the VF2 model poses.

`(I.problem).relabel σ0 τ0 σ1 τ1` lists its nodes as `(List.range n).map σ` and its edges in the order of `I`,
whereas the problem of a re-indexed instance `I'` lists them as `List.range n` and in the order of `I'`; the
two are never EQUAL as records unless `σ` is the identity on the nodes, but they are the same problem in the
sense of `Problem.SameAs`, and `Embeds` / `SubIso` / `Iso` only depend on that.
-/
namespace PetgraphModel.C13
open PetgraphModel

/-- `P` and `Q` have the same nodes, the same edges (as sets), the same node weights on the nodes, the same
edge type and the same predicates -/
structure Problem.SameAs (P Q : Problem) : Prop where
  dir0 : P.g0.directed = Q.g0.directed
  dir1 : P.g1.directed = Q.g1.directed
  nodes0 : ∀ a, a ∈ P.g0.nodes ↔ a ∈ Q.g0.nodes
  nodes1 : ∀ b, b ∈ P.g1.nodes ↔ b ∈ Q.g1.nodes
  edges0 : ∀ e, e ∈ P.g0.edges ↔ e ∈ Q.g0.edges
  edges1 : ∀ e, e ∈ P.g1.edges ↔ e ∈ Q.g1.edges
  nw0 : ∀ a ∈ P.g0.nodes, P.nw0 a = Q.nw0 a
  nw1 : ∀ b ∈ P.g1.nodes, P.nw1 b = Q.nw1 b
  nm : P.nm = Q.nm
  em : P.em = Q.em

theorem Problem.SameAs.refl (P : Problem) : P.SameAs P :=
  ⟨rfl, rfl, fun _ => Iff.rfl, fun _ => Iff.rfl, fun _ => Iff.rfl, fun _ => Iff.rfl, fun _ _ => rfl,
   fun _ _ => rfl, rfl, rfl⟩

/-- equal problems are the same problem (the special case of an explicit `problem` equation) -/
theorem Problem.SameAs.of_eq {P Q : Problem} (h : P = Q) : P.SameAs Q := h ▸ Problem.SameAs.refl P

theorem Problem.SameAs.symm {P Q : Problem} (h : P.SameAs Q) : Q.SameAs P :=
  ⟨h.dir0.symm, h.dir1.symm, fun a => (h.nodes0 a).symm, fun a => (h.nodes1 a).symm,
   fun e => (h.edges0 e).symm, fun e => (h.edges1 e).symm,
   fun a ha => (h.nw0 a ((h.nodes0 a).mpr ha)).symm, fun b hb => (h.nw1 b ((h.nodes1 b).mpr hb)).symm,
   h.nm.symm, h.em.symm⟩

theorem adj_of_same {g g' : MGraph} (hd : g.directed = g'.directed) (he : ∀ e, e ∈ g.edges ↔ e ∈ g'.edges)
    {a b : Nat} (h : g.Adj a b) : g'.Adj a b := by
  obtain ⟨e, hm, hc⟩ := h
  exact ⟨e, (he e).mp hm, by rw [← hd]; exact hc⟩

theorem Problem.SameAs.embeds {P Q : Problem} (h : P.SameAs Q) {f : Nat → Nat} (e : Embeds P f) : Embeds Q f := by
  have back0 : ∀ a, a ∈ Q.g0.nodes → a ∈ P.g0.nodes := fun a => (h.nodes0 a).mpr
  refine ⟨?_, ?_, ?_, ?_, ?_⟩
  · intro a ha
    exact (h.nodes1 _).mp (e.mapsTo a (back0 a ha))
  · intro a ha b hb
    exact e.inj a (back0 a ha) b (back0 b hb)
  · intro a ha b hb
    have := e.adj a (back0 a ha) b (back0 b hb)
    constructor
    · intro hq
      exact adj_of_same h.dir1 h.edges1 (this.mp (adj_of_same h.dir0.symm (fun e => (h.edges0 e).symm) hq))
    · intro hq
      exact adj_of_same h.dir0 h.edges0 (this.mpr (adj_of_same h.dir1.symm (fun e => (h.edges1 e).symm) hq))
  · intro a ha
    have := e.nodeOk a (back0 a ha)
    rw [← h.nm, ← h.nw0 a (back0 a ha), ← h.nw1 _ (e.mapsTo a (back0 a ha))]
    exact this
  · intro e0 he0 e1 he1 hc
    rw [← h.em]
    refine e.edgeOk e0 ((h.edges0 e0).mpr he0) e1 ((h.edges1 e1).mpr he1) ?_
    unfold Connects at hc ⊢
    rw [h.dir1]
    exact hc

theorem Problem.SameAs.embeds_iff {P Q : Problem} (h : P.SameAs Q) (f : Nat → Nat) : Embeds P f ↔ Embeds Q f :=
  ⟨h.embeds, h.symm.embeds⟩

theorem Problem.SameAs.subIso_iff {P Q : Problem} (h : P.SameAs Q) : SubIso P ↔ SubIso Q :=
  ⟨fun ⟨f, e⟩ => ⟨f, h.embeds e⟩, fun ⟨f, e⟩ => ⟨f, h.symm.embeds e⟩⟩

theorem Problem.SameAs.iso_iff {P Q : Problem} (h : P.SameAs Q) : Iso P ↔ Iso Q := by
  constructor
  · rintro ⟨f, e, onto⟩
    refine ⟨f, h.embeds e, fun b hb => ?_⟩
    obtain ⟨a, ha, hab⟩ := onto b ((h.nodes1 b).mpr hb)
    exact ⟨a, (h.nodes0 a).mp ha, hab⟩
  · rintro ⟨f, e, onto⟩
    refine ⟨f, h.symm.embeds e, fun b hb => ?_⟩
    obtain ⟨a, ha, hab⟩ := onto b ((h.nodes1 b).mp hb)
    exact ⟨a, (h.nodes0 a).mpr ha, hab⟩

end PetgraphModel.C13

namespace PetgraphModel.C13.Vf2
open PetgraphModel PetgraphModel.C13

/-- the abstract graph of a consistent concrete graph is well-formed -/
theorem toMGraph_wf {g : CG} (ok : CGOk g) : g.toMGraph.WellFormed := by
  refine ⟨List.nodup_range, ?_⟩
  intro e he
  obtain ⟨i, hi, p, hp, rfl⟩ := mem_toMGraph_edges.mp he
  have hb : p.1 ∈ g.outN i := mem_outN.mpr ⟨p, hp, rfl⟩
  simp only [CG.toMGraph, List.mem_range]
  exact ⟨hi, (ok.outLt i p.1 hb).2⟩

/-- the executable side conditions of the completeness theorems, bundled -/
structure InstOk (I : Inst) : Prop where
  h0 : cgOkB I.g0 = true
  h1 : cgOkB I.g1 = true
  hd : I.g0.directed = I.g1.directed
  e0 : ECountOk I.g0
  e1 : ECountOk I.g1
  hin : inNodupB I.g0 = true

instance (I : Inst) : Decidable (InstOk I) :=
  if h : cgOkB I.g0 = true ∧ cgOkB I.g1 = true ∧ I.g0.directed = I.g1.directed ∧ ECountOk I.g0 ∧ ECountOk I.g1 ∧
      inNodupB I.g0 = true
  then isTrue ⟨h.1, h.2.1, h.2.2.1, h.2.2.2.1, h.2.2.2.2.1, h.2.2.2.2.2⟩
  else isFalse fun k => h ⟨k.h0, k.h1, k.hd, k.e0, k.e1, k.hin⟩

/-! ### the empty pattern at the level of the specification -/

theorem embeds_of_zero {I : Inst} (hn : I.g0.n = 0) (f : Nat → Nat) : Embeds I.problem f := by
  have hnodes : I.problem.g0.nodes = [] := by simp [Inst.problem, CG.toMGraph, hn]
  have hedges : I.problem.g0.edges = [] := by simp [Inst.problem, CG.toMGraph, hn]
  refine ⟨?_, ?_, ?_, ?_, ?_⟩
  · intro a ha; rw [hnodes] at ha; cases ha
  · intro a ha; rw [hnodes] at ha; cases ha
  · intro a ha; rw [hnodes] at ha; cases ha
  · intro a ha; rw [hnodes] at ha; cases ha
  · intro e0 he0; rw [hedges] at he0; cases he0

theorem iso_of_zero {I : Inst} (hn : I.g0.n = 0) : Iso I.problem ↔ I.g1.n = 0 := by
  constructor
  · rintro ⟨f, _, onto⟩
    by_contra h1
    obtain ⟨a, ha, _⟩ := onto 0 (by simp [Inst.problem, CG.toMGraph]; omega)
    simp [Inst.problem, CG.toMGraph, hn] at ha
  · intro h1
    refine ⟨id, embeds_of_zero hn id, ?_⟩
    intro b hb
    simp [Inst.problem, CG.toMGraph, h1] at hb

/-! ### relabeling and the reported (abstract) vectors of the iterator -/

theorem absEntry_final {I : Inst} {mp : List (Option Nat)} (f : Final I mp) {a : Nat}
    (hi : I.g0.abs.idxOf a < I.g0.n) :
    absEntry I mp a = (I.g1.abs[fval mp (I.g0.abs.idxOf a)]?).getD 0 := by
  unfold absEntry
  rw [(f.get hi).1]
  rfl

theorem idxOf_of_getElem? {l : List Nat} (nd : l.Nodup) {k a : Nat} (h : l[k]? = some a) : l.idxOf a = k := by
  obtain ⟨hk, rfl⟩ := List.getElem?_eq_some_iff.mp h
  exact nd.idxOf_getElem k hk

theorem idxOf_perm_range {l : List Nat} {n : Nat} (p : l.Perm (List.range n)) {a : Nat} (ha : a < n) :
    l.idxOf a < n ∧ l[l.idxOf a]? = some a := by
  have hmem : a ∈ l := p.symm.subset (List.mem_range.mpr ha)
  have hi : l.idxOf a < l.length := List.idxOf_lt_length_iff.mpr hmem
  have hl : l.length = n := by simpa using p.length_eq
  exact ⟨by omega, by rw [List.getElem?_eq_getElem hi, List.getElem_idxOf hi]⟩

/-- the data relating an instance `I'` to `I` relabeled by `σ0`, `σ1` on the concrete indices, with the
reporting vectors `abs` carried along -/
structure Relabeled (I I' : Inst) (σ0 τ0 σ1 τ1 : Nat → Nat) : Prop where
  hl0 : ∀ a, a < I.g0.n → τ0 (σ0 a) = a
  hl1 : ∀ b, b < I.g1.n → τ1 (σ1 b) = b
  same : Problem.SameAs I'.problem (I.problem.relabel σ0 τ0 σ1 τ1)
  abs0 : ∀ i, i < I.g0.n → I'.g0.abs[σ0 i]? = I.g0.abs[i]?
  abs1 : ∀ j, j < I.g1.n → I'.g1.abs[σ1 j]? = I.g1.abs[j]?

namespace Relabeled
variable {I I' : Inst} {σ0 τ0 σ1 τ1 : Nat → Nat}

theorem nodes0 (r : Relabeled I I' σ0 τ0 σ1 τ1) (a' : Nat) : a' < I'.g0.n ↔ ∃ a, a < I.g0.n ∧ σ0 a = a' := by
  have := r.same.nodes0 a'
  simpa [Inst.problem, CG.toMGraph, Problem.relabel, C13.relabel] using this

theorem nodes1 (r : Relabeled I I' σ0 τ0 σ1 τ1) (b' : Nat) : b' < I'.g1.n ↔ ∃ b, b < I.g1.n ∧ σ1 b = b' := by
  have := r.same.nodes1 b'
  simpa [Inst.problem, CG.toMGraph, Problem.relabel, C13.relabel] using this

theorem n0_eq (r : Relabeled I I' σ0 τ0 σ1 τ1) : I'.g0.n = I.g0.n := by
  have nd : ((List.range I.g0.n).map σ0).Nodup := by
    refine List.Nodup.map_on ?_ List.nodup_range
    intro a ha b hb hab
    rw [← r.hl0 a (List.mem_range.mp ha), ← r.hl0 b (List.mem_range.mp hb), hab]
  have pm : (List.range I'.g0.n).Perm ((List.range I.g0.n).map σ0) := by
    rw [List.perm_ext_iff_of_nodup List.nodup_range nd]
    intro a'
    rw [List.mem_range, r.nodes0 a']
    simp [List.mem_map]
  simpa using pm.length_eq

theorem hl0' (r : Relabeled I I' σ0 τ0 σ1 τ1) : ∀ a ∈ I.problem.g0.nodes, τ0 (σ0 a) = a := fun a ha =>
  r.hl0 a (by simpa [Inst.problem, CG.toMGraph] using ha)

theorem hl1' (r : Relabeled I I' σ0 τ0 σ1 τ1) : ∀ b ∈ I.problem.g1.nodes, τ1 (σ1 b) = b := fun b hb =>
  r.hl1 b (by simpa [Inst.problem, CG.toMGraph] using hb)

/-- every valid complete mapping of `I` has a counterpart of `I'` that is reported as the same abstract vector -/
theorem forward (r : Relabeled I I' σ0 τ0 σ1 τ1) (ok0 : CGOk I.g0) (ok1 : CGOk I.g1) (ok0' : CGOk I'.g0)
    (ok1' : CGOk I'.g1) (p0 : I.g0.abs.Perm (List.range I.g0.n)) (p0' : I'.g0.abs.Perm (List.range I'.g0.n))
    {mp : List (Option Nat)} (hf : Final I mp) : ∃ mp', Final I' mp' ∧ toAbstract I' mp' = toAbstract I mp := by
  have e : Embeds I.problem (fval mp) := hf.embeds ok0 ok1
  have e' := r.same.symm.embeds (e.relabel (toMGraph_wf ok0) (toMGraph_wf ok1) r.hl0' r.hl1')
  have hf' := Final.of_embeds ok0' ok1' e'
  refine ⟨_, hf', ?_⟩
  rw [toAbstract_eq_map, toAbstract_eq_map, r.n0_eq]
  apply List.map_congr_left
  intro a ha
  have ha := List.mem_range.mp ha
  obtain ⟨hi, hia⟩ := idxOf_perm_range p0 ha
  have hσ : σ0 (I.g0.abs.idxOf a) < I'.g0.n := (r.nodes0 _).mpr ⟨_, hi, rfl⟩
  have hi' : I'.g0.abs.idxOf a = σ0 (I.g0.abs.idxOf a) :=
    idxOf_of_getElem? (p0'.nodup_iff.mpr List.nodup_range) (by rw [r.abs0 _ hi, hia])
  rw [absEntry_final hf' (by rw [hi']; exact hσ), absEntry_final hf hi, hi', fval_vecOf hσ, r.hl0 _ hi,
    r.abs1 _ (hf.get hi).2]

/-- … and conversely -/
theorem backward (r : Relabeled I I' σ0 τ0 σ1 τ1) (ok0 : CGOk I.g0) (ok1 : CGOk I.g1) (ok0' : CGOk I'.g0)
    (ok1' : CGOk I'.g1) (p0 : I.g0.abs.Perm (List.range I.g0.n)) (p0' : I'.g0.abs.Perm (List.range I'.g0.n))
    {mp' : List (Option Nat)} (hf' : Final I' mp') : ∃ mp, Final I mp ∧ toAbstract I mp = toAbstract I' mp' := by
  have e' : Embeds I'.problem (fval mp') := hf'.embeds ok0' ok1'
  have e := (r.same.embeds e').unrelabel (toMGraph_wf ok0) (toMGraph_wf ok1) r.hl0' r.hl1'
  have hf := Final.of_embeds ok0 ok1 e
  refine ⟨_, hf, ?_⟩
  rw [toAbstract_eq_map, toAbstract_eq_map, r.n0_eq]
  apply List.map_congr_left
  intro a ha
  have ha := List.mem_range.mp ha
  obtain ⟨hi, hia⟩ := idxOf_perm_range p0 ha
  have hσ : σ0 (I.g0.abs.idxOf a) < I'.g0.n := (r.nodes0 _).mpr ⟨_, hi, rfl⟩
  have hi' : I'.g0.abs.idxOf a = σ0 (I.g0.abs.idxOf a) :=
    idxOf_of_getElem? (p0'.nodup_iff.mpr List.nodup_range) (by rw [r.abs0 _ hi, hia])
  obtain ⟨j, hj, hσj⟩ := (r.nodes1 _).mp (hf'.get hσ).2
  rw [absEntry_final hf hi, absEntry_final hf' (by rw [hi']; exact hσ), hi', fval_vecOf hi, ← hσj, r.hl1 _ hj,
    r.abs1 _ hj]

end Relabeled

/-- the drained iterators of an instance and of a relabeled copy yield the same abstract vectors (as sets;
each exactly once), for any fuels that suffice -/
theorem iterModelF_relabel {I I' : Inst} {σ0 τ0 σ1 τ1 : Nat → Nat} (r : Relabeled I I' σ0 τ0 σ1 τ1)
    (ok0 : CGOk I.g0) (ok1 : CGOk I.g1) (hd : I.g0.directed = I.g1.directed)
    (hin : I.g0.directed = true → ∀ i, (I.g0.inNb i).Nodup)
    (ok0' : CGOk I'.g0) (ok1' : CGOk I'.g1) (hd' : I'.g0.directed = I'.g1.directed)
    (hin' : I'.g0.directed = true → ∀ i, (I'.g0.inNb i).Nodup)
    (p0 : I.g0.abs.Perm (List.range I.g0.n)) (p1 : I.g1.abs.Perm (List.range I.g1.n))
    (p0' : I'.g0.abs.Perm (List.range I'.g0.n)) (p1' : I'.g1.abs.Perm (List.range I'.g1.n))
    {fuel fuel' : Nat} (hb : explicitBound I ≤ fuel) (hb' : explicitBound I' ≤ fuel')
    {vs vs' : List (List Nat)} {fin fin' : Bool}
    (h : iterModelF I fuel = some (vs, fin)) (h' : iterModelF I' fuel' = some (vs', fin')) : vs'.Perm vs := by
  obtain ⟨_, nd, hm⟩ := iterModelF_exact ok0 ok1 hd hin p0 p1 hb h
  obtain ⟨_, nd', hm'⟩ := iterModelF_exact ok0' ok1' hd' hin' p0' p1' hb' h'
  rw [List.perm_ext_iff_of_nodup nd' nd]
  intro v
  rw [hm v, hm' v]
  constructor
  · rintro ⟨mp', hf', rfl⟩
    obtain ⟨mp, hf, he⟩ := r.backward ok0 ok1 ok0' ok1' p0 p0' hf'
    exact ⟨mp, hf, he.symm⟩
  · rintro ⟨mp, hf, rfl⟩
    obtain ⟨mp', hf', he⟩ := r.forward ok0 ok1 ok0' ok1' p0 p0' hf
    exact ⟨mp', hf', he.symm⟩

end PetgraphModel.C13.Vf2
