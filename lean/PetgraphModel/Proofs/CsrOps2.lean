import PetgraphModel.Proofs.CsrOps
set_option linter.style.nameCheck false
namespace PetgraphModel.CsrProofs
open PetgraphModel.CsrM

/-! ### `new`, `with_nodes`, `add_node`, `clear_edges`, `IndexMut` -/

theorem offsets_replicate_nil {α : Type} (acc n : Nat) :
    offsets acc (List.replicate n ([] : List α)) = List.replicate (n + 1) acc := by
  induction n with
  | zero => simp [offsets]
  | succ n ih => simp [List.replicate_succ, offsets, ih]

theorem flatten_replicate_nil {α : Type} (n : Nat) : (List.replicate n ([] : List α)).flatten = [] := by
  induction n with
  | zero => simp
  | succ n ih => simp [List.replicate_succ, ih]

theorem rowsOK_replicate_nil (n : Nat) : RowsOK (List.replicate n []) := by
  intro r hr
  have := List.eq_of_mem_replicate hr
  subst this
  simp [Asc]

theorem look_replicate_nil (n a b : Nat) : look (List.replicate n []) a b = none := by
  by_cases ha : a < n
  · rw [look_of_lt _ a b (by simpa using ha)]; simp [lookupRow]
  · exact look_of_ge _ a b (by simpa using ha)

theorem good_withNodes (d : Bool) (m c : Nat) (dbg : Bool) (n : Nat) :
    Good (withNodes d m c dbg n) (List.replicate n []) := by
  refine ⟨⟨?_, ?_, ?_, ?_⟩, rowsOK_replicate_nil n, ?_, ?_⟩
  · simp [withNodes]
  · simp [withNodes]
  · simp [withNodes, offsets_replicate_nil]
  · simp [withNodes]
  · intro _ x y; rw [look_replicate_nil, look_replicate_nil]
  · intro _; rfl

theorem good_new (d : Bool) (m c : Nat) (dbg : Bool) : Good (new d m c dbg) [] :=
  good_withNodes d m c dbg 0

theorem offsets_snoc_nil {α : Type} (acc : Nat) (R : List (List α)) :
    offsets acc (R ++ [[]]) = (offsets acc R).insertIdx R.length (acc + R.flatten.length) := by
  induction R generalizing acc with
  | nil => simp [offsets]
  | cons r rs ih =>
    simp only [List.cons_append, offsets, List.length_cons, List.flatten_cons, List.length_append,
      List.insertIdx_succ_cons]
    rw [ih, Nat.add_assoc]

theorem insertIdx_length_self {α : Type} (l : List α) (x : α) : l.insertIdx l.length x = l ++ [x] := by
  induction l with
  | nil => simp
  | cons y ys ih => simp [ih]

theorem look_snoc_nil (R : List Row) (a b : Nat) : look (R ++ [[]]) a b = look R a b := by
  by_cases ha : a < R.length
  · rw [look_of_lt _ a b (by simp; omega), look_of_lt R a b ha, List.getElem_append_left ha]
  · rw [look_of_ge R a b (by omega)]
    by_cases ha2 : a = R.length
    · subst ha2
      rw [look_of_lt _ _ b (by simp)]
      simp [lookupRow]
    · exact look_of_ge _ a b (by simp; omega)

theorem fitsIx_iff (m i : Nat) : fitsIx m i = true ↔ (m = 0 ∨ i < m) := by
  simp [fitsIx]

/-- an index that fits the index type is not changed by `Ix::new` -/
theorem mkIx_of_fits {m i : Nat} (h : m = 0 ∨ i < m) : mkIx m i = i := by
  unfold mkIx
  rcases h with h | h
  · simp [h]
  · have : ¬ m = 0 := by omega
    simp [this, Nat.mod_eq_of_lt h]

/-- `add_node` below the capacity of the index type: the new node gets the fresh index `node_count`
(`Ix::new` does not wrap it) -/
theorem Good.addNode {s : State} {R : List Row} (g : Good s R) (w : Int)
    (hfit : s.modulus = 0 ∨ R.length < s.modulus) :
    ∃ s', CsrM.addNode s w = some (s', R.length) ∧ Good s' (R ++ [[]]) ∧ SameParams s' s ∧
      s'.nodeWeights = s.nodeWeights ++ [w] ∧ s'.edgeCountQ = s.edgeCountQ := by
  have hrl : s.row.length = R.length + 1 := by rw [g.rep.row, offsets_length]
  unfold CsrM.addNode
  have h0 : ¬ s.row.length = 0 := by omega
  have hi : s.row.length - 1 = R.length := by omega
  have h1 : R.length ≤ s.nodeWeights.length := by rw [g.rep.nw]; omega
  have h2 : fitsIx s.modulus R.length = true := (fitsIx_iff _ _).mpr hfit
  simp only [h0, if_false, hi, h1, if_true, h2, Bool.not_true, Bool.false_eq_true, mkIx_of_fits hfit]
  refine ⟨_, rfl, ⟨⟨?_, ?_, ?_, ?_⟩, ?_, ?_, ?_⟩, ⟨rfl, rfl, rfl, rfl⟩, ?_, ?_⟩
  · simpa using g.rep.col
  · simpa using g.rep.wts
  · show s.row.insertIdx R.length s.column.length = _
    rw [offsets_snoc_nil, g.rep.row, g.rep.column_length]; simp
  · show (s.nodeWeights.insertIdx R.length w).length = _
    rw [← g.rep.nw, insertIdx_length_self]; simp [g.rep.nw]
  · intro r hr
    rw [List.mem_append] at hr
    rcases hr with hr | hr
    · have := g.ok r hr
      refine ⟨this.1, fun x hx => ?_⟩
      have := this.2 x hx
      simp; omega
    · simp at hr; subst hr; simp [Asc]
  · intro hd x y
    rw [look_snoc_nil, look_snoc_nil]; exact g.sym hd x y
  · exact g.dcount
  · show s.nodeWeights.insertIdx R.length w = _
    rw [← g.rep.nw, insertIdx_length_self]
  · rfl

/-- `add_node` at the capacity of the index type: the `assert!` fires (documented panic) -/
theorem Good.addNode_full {s : State} {R : List Row} (g : Good s R) (w : Int)
    (hfull : ¬ (s.modulus = 0 ∨ R.length < s.modulus)) : CsrM.addNode s w = none := by
  have hrl : s.row.length = R.length + 1 := by rw [g.rep.row, offsets_length]
  unfold CsrM.addNode
  have h0 : ¬ s.row.length = 0 := by omega
  have hi : s.row.length - 1 = R.length := by omega
  have h2 : fitsIx s.modulus R.length = false := by
    rw [← Bool.not_eq_true, fitsIx_iff]; exact hfull
  simp [h0, hi, h2]

theorem Good.clearEdges {s : State} {R : List Row} (g : Good s R) :
    Good (CsrM.clearEdges s) (List.replicate R.length []) := by
  have hrl : s.row.length = R.length + 1 := by rw [g.rep.row, offsets_length]
  refine ⟨⟨?_, ?_, ?_, ?_⟩, rowsOK_replicate_nil _, ?_, ?_⟩
  · simp [CsrM.clearEdges]
  · simp [CsrM.clearEdges]
  · show s.row.map (fun _ => 0) = _
    rw [offsets_replicate_nil, List.map_const', hrl]
  · simpa [CsrM.clearEdges] using g.rep.nw
  · intro _ x y; rw [look_replicate_nil, look_replicate_nil]
  · intro hd
    have hd' : s.directed = true := hd
    show (if s.directed = true then s.edgeCount else 0) = 0
    simp [hd', g.dcount hd']

theorem clearEdges_edgeCountQ (s : State) : (CsrM.clearEdges s).edgeCountQ = 0 ∨
    (s.directed = true ∧ (CsrM.clearEdges s).edgeCountQ = 0) := by
  left
  unfold State.edgeCountQ CsrM.clearEdges
  cases s.directed <;> simp

theorem Good.setWeight {s : State} {R : List Row} (g : Good s R) (a : Nat) (w : Int) (ha : a < R.length) :
    ∃ s', CsrM.setWeight s a w = some s' ∧ Good s' R ∧ SameParams s' s ∧
      s'.nodeWeights = s.nodeWeights.set a w ∧ s'.edgeCountQ = s.edgeCountQ := by
  unfold CsrM.setWeight
  have : a < s.nodeWeights.length := by rw [g.rep.nw]; exact ha
  simp only [this, if_true]
  refine ⟨_, rfl, ⟨⟨g.rep.col, g.rep.wts, g.rep.row, ?_⟩, g.ok, g.sym, g.dcount⟩, ⟨rfl, rfl, rfl, rfl⟩, rfl, rfl⟩
  simpa using g.rep.nw

theorem Good.setWeight_oob {s : State} {R : List Row} (g : Good s R) (a : Nat) (w : Int) (ha : ¬ a < R.length) :
    CsrM.setWeight s a w = none := by
  unfold CsrM.setWeight
  have : ¬ a < s.nodeWeights.length := by rw [g.rep.nw]; exact ha
  simp [this]

end PetgraphModel.CsrProofs
