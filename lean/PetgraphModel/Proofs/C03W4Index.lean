import PetgraphModel.Proofs.GraphMap
/-
C03 (wave 4) — the compact numbering of the mirror model IS the iteration order
(`NodeIndexable` against `nodes()`, `EdgeIndexable` against `all_edges()`), and which pairs
`EdgeIndexable::to_index` accepts.
-/
namespace PetgraphModel.C03W4
open PetgraphModel PetgraphModel.GM PetgraphModel.SimpleGraphSpec PetgraphModel.GMProofs

theorem nodesOf_getElem? (s : State) (i : Nat) : (nodesOf s)[i]? = s.nodes[i]?.map (·.1) := by
  simp [nodesOf, IMap.keys]

theorem allEdges_getElem? (s : State) (i : Nat) (a b : Nat) :
    (∃ w, (allEdges s)[i]? = some (a, b, w)) ↔ s.edges[i]?.map (·.1) = some (a, b) := by
  simp only [allEdges, List.getElem?_map]
  cases s.edges[i]? with
  | none => simp
  | some e =>
    obtain ⟨⟨x, y⟩, w⟩ := e
    simp only [Option.map_some, Option.some.injEq, Prod.mk.injEq]
    constructor
    · rintro ⟨w', rfl, rfl, _⟩; exact ⟨rfl, rfl⟩
    · rintro ⟨rfl, rfl⟩; exact ⟨w, rfl, rfl, rfl⟩

theorem fromIndex_iff (s : State) (i n : Nat) :
    (step s (.fromIndex i)).2 = .nat n ↔ (nodesOf s)[i]? = some n := by
  rw [nodesOf_getElem?]
  simp only [step]
  cases s.nodes[i]? <;> simp

theorem toIndex_iff (s : State) (h : Inv s) (n i : Nat) :
    (step s (.toIndex n)).2 = .nat i ↔ (nodesOf s)[i]? = some n := by
  rw [nodesOf_getElem?, ← indexOf?_eq_some_iff s.nodes h.nodesNodup]
  simp only [step]
  cases IMap.indexOf? s.nodes n <;> simp

theorem toIndex_panic_iff (s : State) (n : Nat) :
    (step s (.toIndex n)).2 = .panic ↔ n ∉ nodesOf s := by
  simp only [step, nodesOf, ← get?_eq_none_iff, ← indexOf?_none]
  cases IMap.indexOf? s.nodes n <;> simp

theorem fromIndex_panic_iff (s : State) (i : Nat) :
    (step s (.fromIndex i)).2 = .panic ↔ nodeCount s ≤ i := by
  simp only [step, nodeCount]
  cases h : s.nodes[i]? with
  | none => simpa using List.getElem?_eq_none_iff.1 h
  | some e =>
    have := (List.getElem?_eq_some_iff.1 h).1
    simp; omega

theorem edgeFromIndex_iff (s : State) (i a b : Nat) :
    (step s (.edgeFromIndex i)).2 = .pair a b ↔ ∃ w, (allEdges s)[i]? = some (a, b, w) := by
  rw [allEdges_getElem?]
  simp only [step]
  cases s.edges[i]? with
  | none => simp
  | some e => obtain ⟨⟨x, y⟩, w⟩ := e; simp

theorem edgeToIndex_iff (s : State) (h : Inv s) (a b i : Nat) :
    (step s (.edgeToIndex a b)).2 = .nat i ↔ ∃ w, (allEdges s)[i]? = some (a, b, w) := by
  rw [allEdges_getElem?, ← indexOf?_eq_some_iff s.edges h.edgesNodup]
  simp only [step]
  cases IMap.indexOf? s.edges (a, b) <;> simp

theorem edgeFromIndex_panic_iff (s : State) (i : Nat) :
    (step s (.edgeFromIndex i)).2 = .panic ↔ edgeCount s ≤ i := by
  simp only [step, edgeCount]
  cases h : s.edges[i]? with
  | none => simpa using List.getElem?_eq_none_iff.1 h
  | some e =>
    have := (List.getElem?_eq_some_iff.1 h).1
    simp; omega

/-- `EdgeIndexable::to_index((a, b))` answers exactly for the pairs `all_edges()` lists: an edge, under
its own orientation when directed and under the ascending one when undirected -/
theorem edgeToIndex_panic_iff (s : State) (h : Inv s) (a b : Nat) :
    (step s (.edgeToIndex a b)).2 = .panic ↔ ¬ ((abs s).hasEdge a b = true ∧ (s.directed = true ∨ a ≤ b)) := by
  have hstep : (step s (.edgeToIndex a b)).2 = .panic ↔ IMap.get? s.edges (a, b) = none := by
    simp only [step, ← indexOf?_none]
    cases IMap.indexOf? s.edges (a, b) <;> simp
  rw [hstep, abshas]
  constructor
  · intro hn ⟨hE, hc⟩
    have : edgeKey s.directed a b = (a, b) := by
      unfold edgeKey; rcases hc with hd | hle
      · simp [hd]
      · simp [hle]
    rw [this, hn] at hE; cases hE
  · intro hn
    cases hg : IMap.get? s.edges (a, b) with
    | none => rfl
    | some w =>
      exfalso; apply hn
      have hs : (IMap.get? s.edges (a, b)).isSome = true := by simp [hg]
      refine ⟨by rw [canon_key s h a b hs]; exact hs, h.good.canon a b hs⟩

end PetgraphModel.C03W4
