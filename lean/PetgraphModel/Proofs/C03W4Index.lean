import PetgraphModel.Proofs.GraphMap
/-
C03 (wave 4) — the compact numbering of the mirror model IS the iteration order
(`NodeIndexable` against `nodes()`, `EdgeIndexable` against `all_edges()`), which pairs
`EdgeIndexable::to_index` accepts (wave 5, after the repair of D33: either orientation of an undirected
edge), and that every edge id the graph hands out is accepted.
-/
namespace PetgraphModel.C03W4
open PetgraphModel PetgraphModel.GM PetgraphModel.SimpleGraphSpec PetgraphModel.GMProofs

theorem nodesOf_getElem? (s : State) (i : Nat) : (nodesOf s)[i]? = s.nodes[i]?.map (·.1) := by
  simp [nodesOf, IMap.keys]

theorem allEdges_getElem? (s : State) (i : Nat) (a b : Nat) :
    (∃ w, (allEdges s)[i]? = some (a, b, w)) ↔ s.edges[i]?.map (·.1) = some (a, b) := by
  simp only [allEdges, List.getElem?_map]
  cases s.edges[i]? with
  | none => simp
  | some e =>
    obtain ⟨⟨x, y⟩, w⟩ := e
    simp only [Option.map_some, Option.some.injEq, Prod.mk.injEq]
    constructor
    · rintro ⟨w', rfl, rfl, _⟩; exact ⟨rfl, rfl⟩
    · rintro ⟨rfl, rfl⟩; exact ⟨w, rfl, rfl, rfl⟩

theorem fromIndex_iff (s : State) (i n : Nat) :
    (step s (.fromIndex i)).2 = .nat n ↔ (nodesOf s)[i]? = some n := by
  rw [nodesOf_getElem?]
  simp only [step]
  cases s.nodes[i]? <;> simp

theorem toIndex_iff (s : State) (h : Inv s) (n i : Nat) :
    (step s (.toIndex n)).2 = .nat i ↔ (nodesOf s)[i]? = some n := by
  rw [nodesOf_getElem?, ← indexOf?_eq_some_iff s.nodes h.nodesNodup]
  simp only [step]
  cases IMap.indexOf? s.nodes n <;> simp

theorem toIndex_panic_iff (s : State) (n : Nat) :
    (step s (.toIndex n)).2 = .panic ↔ n ∉ nodesOf s := by
  simp only [step, nodesOf, ← get?_eq_none_iff, ← indexOf?_none]
  cases IMap.indexOf? s.nodes n <;> simp

theorem fromIndex_panic_iff (s : State) (i : Nat) :
    (step s (.fromIndex i)).2 = .panic ↔ nodeCount s ≤ i := by
  simp only [step, nodeCount]
  cases h : s.nodes[i]? with
  | none => simpa using List.getElem?_eq_none_iff.1 h
  | some e =>
    have := (List.getElem?_eq_some_iff.1 h).1
    simp; omega

theorem edgeFromIndex_iff (s : State) (i a b : Nat) :
    (step s (.edgeFromIndex i)).2 = .pair a b ↔ ∃ w, (allEdges s)[i]? = some (a, b, w) := by
  rw [allEdges_getElem?]
  simp only [step]
  cases s.edges[i]? with
  | none => simp
  | some e => obtain ⟨⟨x, y⟩, w⟩ := e; simp

/-- `EdgeIndexable::to_index((a, b)) = i` iff `all_edges()` lists the canonical name of the pair
(`edge_key(a, b)`: the pair itself when directed, the ascending pair when undirected) at position `i` -/
theorem edgeToIndex_iff (s : State) (h : Inv s) (a b i : Nat) :
    (step s (.edgeToIndex a b)).2 = .nat i ↔
      ∃ w, (allEdges s)[i]? = some ((edgeKey s.directed a b).1, (edgeKey s.directed a b).2, w) := by
  rw [allEdges_getElem?, ← indexOf?_eq_some_iff s.edges h.edgesNodup]
  simp only [step]
  cases IMap.indexOf? s.edges (edgeKey s.directed a b) <;> simp

theorem edgeFromIndex_panic_iff (s : State) (i : Nat) :
    (step s (.edgeFromIndex i)).2 = .panic ↔ edgeCount s ≤ i := by
  simp only [step, edgeCount]
  cases h : s.edges[i]? with
  | none => simpa using List.getElem?_eq_none_iff.1 h
  | some e =>
    have := (List.getElem?_eq_some_iff.1 h).1
    simp; omega

/-- `EdgeIndexable::to_index((a, b))` panics ("edge not found") exactly when `(a, b)` is not an edge —
for an undirected graph `{a, b}` in either orientation (`(abs s).hasEdge` is symmetric then) -/
theorem edgeToIndex_panic_iff (s : State) (a b : Nat) :
    (step s (.edgeToIndex a b)).2 = .panic ↔ (abs s).hasEdge a b = false := by
  rw [abshas]
  simp only [step]
  cases hi : IMap.indexOf? s.edges (edgeKey s.directed a b) with
  | none => simp [(indexOf?_none _ _).1 hi]
  | some i =>
    have hne : IMap.get? s.edges (edgeKey s.directed a b) ≠ none := by
      intro hn; rw [(indexOf?_none _ _).2 hn] at hi; cases hi
    cases hg : IMap.get? s.edges (edgeKey s.directed a b) with
    | none => exact absurd hg hne
    | some w => simp

/-- on an undirected graph both orientations of a pair get the same answer -/
theorem edgeToIndex_symm (s : State) (hu : s.directed = false) (a b : Nat) :
    (step s (.edgeToIndex a b)).2 = (step s (.edgeToIndex b a)).2 := by
  have hk : edgeKey s.directed a b = edgeKey s.directed b a := by
    unfold edgeKey; rw [hu]
    by_cases h1 : a ≤ b <;> by_cases h2 : b ≤ a <;> simp [h1, h2]
    · have : a = b := by omega
      subst this; exact ⟨rfl, rfl⟩
    · omega
  simp only [step, hk]

/-! ### every edge id the graph hands out is accepted -/

/-- the edge id `(x, y)` is accepted by `EdgeIndexable::to_index` (no panic) and `from_index` of the
answer is the canonical form of the id (`edge_key(x, y)`) -/
def Accepted (s : State) (x y : Nat) : Prop :=
  ∃ i, (step s (.edgeToIndex x y)).2 = .nat i ∧
    (step s (.edgeFromIndex i)).2 = .pair (edgeKey s.directed x y).1 (edgeKey s.directed x y).2

theorem accepted_of_hasEdge (s : State) (x y : Nat) (hE : (abs s).hasEdge x y = true) : Accepted s x y := by
  rw [abshas] at hE
  cases hi : IMap.indexOf? s.edges (edgeKey s.directed x y) with
  | none => rw [(indexOf?_none _ _).1 hi] at hE; cases hE
  | some i =>
    obtain ⟨hlt, he⟩ := indexOf?_some _ _ _ hi
    refine ⟨i, by simp only [step, hi], ?_⟩
    simp only [step, List.getElem?_eq_getElem hlt, he]

theorem accepted_iff_hasEdge (s : State) (x y : Nat) : Accepted s x y ↔ (abs s).hasEdge x y = true := by
  constructor
  · rintro ⟨i, hi, _⟩
    cases hE : (abs s).hasEdge x y with
    | true => rfl
    | false => rw [(edgeToIndex_panic_iff s x y).2 hE] at hi; cases hi
  · exact accepted_of_hasEdge s x y

theorem accepted_edgesDirected (s : State) (h : Inv s) (a : Nat) (d : Dir) (e : Nat × Nat × Option Nat)
    (he : e ∈ edgesDirected s a d) : Accepted s e.1 e.2.1 := by
  rw [edgesDirected_eq s h] at he
  unfold someWeights at he
  obtain ⟨⟨x, y, w⟩, ht, rfl⟩ := List.mem_map.1 he
  have hw := ((edgeTriples_ok s h a d).2 x y w).1 ht
  apply accepted_of_hasEdge
  show ((abs s).w x y).isSome = true
  cases d with
  | out => obtain ⟨rfl, hw⟩ := hw; simp [hw]
  | inc => obtain ⟨rfl, hw⟩ := hw; simp [hw]

theorem accepted_edgesOf (s : State) (h : Inv s) (a : Nat) (e : Nat × Nat × Option Nat)
    (he : e ∈ edgesOf s a) : Accepted s e.1 e.2.1 := by
  rw [edgesOf_eq s h] at he
  exact accepted_edgesDirected s h a .out e he

theorem accepted_allEdges (s : State) (h : Inv s) (e : Nat × Nat × Nat) (he : e ∈ allEdges s) :
    Accepted s e.1 e.2.1 := by
  obtain ⟨x, y, w⟩ := e
  have := (allEdges_ok s h).2.1 x y w he
  apply accepted_of_hasEdge
  show ((abs s).w x y).isSome = true
  simp [this]

theorem accepted_after_addEdge (s : State) (h : Inv s) (a b w : Nat) : Accepted (addEdge s a b w).1 a b := by
  apply accepted_of_hasEdge
  rw [addEdge_abs s a b w h]
  simp [SG.hasEdge, SG.addEdge, samePair]

theorem accepted_buildUpdateEdge (s : State) (h : Inv s) (a b w x y : Nat)
    (ho : (step s (.buildUpdateEdge a b w)).2 = .pair x y) :
    Accepted (step s (.buildUpdateEdge a b w)).1 x y := by
  simp only [step, Out.pair.injEq] at ho
  obtain ⟨rfl, rfl⟩ := ho
  exact accepted_after_addEdge s h a b w

theorem accepted_buildAddEdge (s : State) (h : Inv s) (a b w : Nat) (p : Nat × Nat)
    (ho : (step s (.buildAddEdge a b w)).2 = .optPair (some p)) :
    Accepted (step s (.buildAddEdge a b w)).1 p.1 p.2 := by
  simp only [step, buildAddEdge] at ho ⊢
  by_cases hc : containsEdge s a b = true
  · simp [hc] at ho
  · simp only [hc] at ho ⊢
    simp only [Bool.false_eq_true, if_false, Out.optPair.injEq, Option.some.injEq] at ho ⊢
    subst ho
    exact accepted_after_addEdge s h a b w

end PetgraphModel.C03W4
