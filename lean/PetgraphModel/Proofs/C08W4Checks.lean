import PetgraphModel.Proofs.C08W3Driver
/-
C08 (wave 4): the Boolean side-condition checks the driver evaluates on every case
(`Driver/C08.lean`: `viewOkB`, `wfB`, `closedB` on the `graph` line; `nodesB` / `initsOkB` on every
request) imply the hypotheses of the `C08_*` theorems they stand for.
-/
namespace PetgraphModel.TravProofs
open PetgraphModel PetgraphModel.Trav PetgraphModel.MGraph PetgraphModel.C08

theorem nodupB_sound : ∀ {l : List Nat}, nodupB l = true → l.Nodup := by
  intro l
  induction l with
  | nil => intro _; exact List.nodup_nil
  | cons a l ih =>
    intro h
    simp only [nodupB, Bool.and_eq_true, Bool.not_eq_true', List.contains_eq_mem, decide_eq_false_iff_not] at h
    exact List.nodup_cons.mpr ⟨h.1, ih h.2⟩

theorem wfB_sound {g : MGraph} (h : wfB g = true) : g.WellFormed := by
  simp only [wfB, Bool.and_eq_true, List.all_eq_true, List.contains_eq_mem, decide_eq_true_eq] at h
  exact ⟨nodupB_sound h.1, fun e he => h.2 e he⟩

theorem mem_of_lookup {α : Type} : ∀ {l : List (Nat × α)} {a : Nat} {x : α}, l.lookup a = some x → (a, x) ∈ l := by
  intro l
  induction l with
  | nil => intro a x h; cases h
  | cons p l ih =>
    intro a x h
    obtain ⟨b, y⟩ := p
    rw [List.lookup_cons] at h
    by_cases hab : a = b
    · subst hab
      simp only [beq_self_eq_true, Option.some.injEq] at h
      subst h
      exact List.mem_cons_self ..
    · have : (a == b) = false := by simpa using hab
      rw [this] at h
      exact List.mem_cons_of_mem _ (ih h)

theorem closedB_sound {v : View} (h : closedB v = true) :
    ∀ a, a ∉ v.g.nodes → v.succ a = [] ∧ v.pred a = [] := by
  simp only [closedB, Bool.and_eq_true, List.all_eq_true, Bool.or_eq_true, List.contains_eq_mem,
    decide_eq_true_eq, List.isEmpty_iff] at h
  intro a ha
  constructor
  · simp only [View.succ, View.outOf]
    cases hl : v.out.lookup a with
    | none => rfl
    | some l =>
      rcases h.1 (a, l) (mem_of_lookup hl) with h1 | h1
      · exact absurd h1 ha
      · simp only at h1; simp [h1]
  · simp only [View.pred, View.innOf]
    cases hl : v.inn.lookup a with
    | none => rfl
    | some l =>
      rcases h.2 (a, l) (mem_of_lookup hl) with h1 | h1
      · exact absurd h1 ha
      · simp only at h1; simp [h1]

theorem nodesB_sound {v : View} {l : List Nat} (h : nodesB v l = true) : ∀ x, x ∈ l → x ∈ v.g.nodes := by
  simpa [nodesB] using h

theorem initsOkB_sound {l : List Nat} (h : initsOkB l = true) : l.Nodup ∨ l.length ≤ 14 := by
  simp only [initsOkB, Bool.or_eq_true, decide_eq_true_eq] at h
  exact h.imp nodupB_sound id

theorem mem_cmdStarts {cmds : List Cmd} {s : Nat} : s ∈ cmdStarts cmds ↔ Cmd.new s ∈ cmds := by
  simp only [cmdStarts, List.mem_filterMap]
  constructor
  · rintro ⟨c, hc, h⟩
    cases c <;> simp at h
    subst h; exact hc
  · intro h; exact ⟨_, h, rfl⟩

/-- everything the `graph` line check establishes -/
theorem graph_check {v : View} (h1 : viewOkB v = true) (h2 : wfB v.g = true) (h3 : closedB v = true) :
    ViewOk v ∧ PredOk v ∧ v.g.WellFormed ∧ Closed v :=
  have hwf := wfB_sound h2
  have h := viewOkB_viewOk v h1 hwf (closedB_sound h3)
  ⟨h.1, h.2, hwf, viewOkB_closed v h1 hwf⟩

/-- the driver's inner fuel for `Topo` leaves room for 14 extra stack entries -/
theorem driver_fuel_inits (v : View) (h : viewOkB v = true) (hwf : v.g.WellFormed) :
    walkFuel v + 14 ≤ bigFuel v := by
  have h1 := walkFuel_le_of_succLe v hwf (viewOkB_succLe v h)
  simp only [bigFuel]
  omega

end PetgraphModel.TravProofs
