import PetgraphModel.Proofs.CsrRows
namespace PetgraphModel.CsrProofs
open PetgraphModel.CsrM

/-- the `row` vector of a list of rows: start offset of every row, then the total -/
def offsets {α : Type} : Nat → List (List α) → List Nat
  | acc, [] => [acc]
  | acc, r :: rs => acc :: offsets (acc + r.length) rs

/-- start offset of row `a` in the flattened rows -/
def start {α : Type} (R : List (List α)) (a : Nat) : Nat := (R.take a).flatten.length

@[simp] theorem start_zero {α : Type} (R : List (List α)) : start R 0 = 0 := by simp [start]
@[simp] theorem start_cons_succ {α : Type} (r : List α) (R : List (List α)) (a : Nat) :
    start (r :: R) (a + 1) = r.length + start R a := by simp [start]
@[simp] theorem start_nil {α : Type} (a : Nat) : start ([] : List (List α)) a = 0 := by simp [start]

theorem start_succ {α : Type} (R : List (List α)) (a : Nat) (h : a < R.length) :
    start R (a + 1) = start R a + R[a].length := by
  induction R generalizing a with
  | nil => simp at h
  | cons r rs ih =>
    cases a with
    | zero => simp
    | succ a => simp at h; simp [ih a h]; omega

theorem start_length {α : Type} (R : List (List α)) : start R R.length = R.flatten.length := by
  simp [start]

theorem start_mono {α : Type} (R : List (List α)) (a : Nat) : start R a ≤ R.flatten.length := by
  induction R generalizing a with
  | nil => simp
  | cons r rs ih =>
    cases a with
    | zero => simp
    | succ a => have := ih a; simp only [start_cons_succ, List.flatten_cons, List.length_append]; omega

theorem offsets_length {α : Type} (acc : Nat) (R : List (List α)) : (offsets acc R).length = R.length + 1 := by
  induction R generalizing acc with
  | nil => simp [offsets]
  | cons r rs ih => simp [offsets, ih]

theorem offsets_getElem? {α : Type} (acc : Nat) (R : List (List α)) (a : Nat) (h : a ≤ R.length) :
    (offsets acc R)[a]? = some (acc + start R a) := by
  induction R generalizing acc a with
  | nil => simp at h; subst h; simp [offsets]
  | cons r rs ih =>
    cases a with
    | zero => simp [offsets]
    | succ a =>
      simp at h
      simp [offsets, ih (acc + r.length) a h]; omega

theorem offsets_getElem?_none {α : Type} (acc : Nat) (R : List (List α)) (a : Nat) (h : R.length < a) :
    (offsets acc R)[a]? = none := by
  apply List.getElem?_eq_none; rw [offsets_length]; omega

theorem offsets_shift {α : Type} (acc : Nat) (R : List (List α)) :
    offsets (acc + 1) R = (offsets acc R).map (· + 1) := by
  induction R generalizing acc with
  | nil => simp [offsets]
  | cons r rs ih =>
    simp only [offsets, List.map_cons]
    rw [show acc + 1 + r.length = acc + r.length + 1 by omega, ih]

/-- the slice `start a .. start (a+1)` of the flattened rows is row `a` -/
theorem flatten_slice {α : Type} (R : List (List α)) (a : Nat) (h : a < R.length) :
    (R.flatten.take (start R (a + 1))).drop (start R a) = R[a] := by
  induction R generalizing a with
  | nil => simp at h
  | cons r rs ih =>
    cases a with
    | zero => simp [start]
    | succ a =>
      simp at h
      simp only [List.flatten_cons, start_cons_succ, List.getElem_cons_succ]
      rw [List.take_append, List.drop_append]
      simp [ih a h]

theorem insertIdx_append_left {α : Type} (l1 l2 : List α) (k : Nat) (x : α) (h : k ≤ l1.length) :
    (l1 ++ l2).insertIdx k x = l1.insertIdx k x ++ l2 := by
  induction l1 generalizing k with
  | nil => simp at h; subst h; simp
  | cons y ys ih =>
    cases k with
    | zero => simp
    | succ k => simp at h; simp [ih k h]

theorem insertIdx_append_right {α : Type} (l1 l2 : List α) (k : Nat) (x : α) :
    (l1 ++ l2).insertIdx (l1.length + k) x = l1 ++ l2.insertIdx k x := by
  induction l1 with
  | nil => simp
  | cons y ys ih =>
    simp only [List.cons_append, List.length_cons]
    rw [show ys.length + 1 + k = (ys.length + k) + 1 by omega]
    simp [ih]

/-- inserting into the flat vector at `start a + k` = inserting at `k` into row `a` -/
theorem insertIdx_flatten {α : Type} (R : List (List α)) (a k : Nat) (x : α) (h : a < R.length)
    (hk : k ≤ R[a].length) :
    R.flatten.insertIdx (start R a + k) x = (R.set a (R[a].insertIdx k x)).flatten := by
  induction R generalizing a with
  | nil => simp at h
  | cons r rs ih =>
    cases a with
    | zero =>
      simp at hk
      simp [insertIdx_append_left _ _ _ _ hk]
    | succ a =>
      simp at h hk
      simp only [List.flatten_cons, start_cons_succ, List.getElem_cons_succ, List.set_cons_succ]
      rw [Nat.add_assoc, insertIdx_append_right, ih a h hk]

/-- growing row `a` by one entry = `for r in &mut row[a+1..] { *r += 1 }` -/
theorem offsets_set {α : Type} (acc : Nat) (R : List (List α)) (a : Nat) (r' : List α) (h : a < R.length)
    (hl : r'.length = R[a].length + 1) :
    offsets acc (R.set a r') = (offsets acc R).take (a + 1) ++ ((offsets acc R).drop (a + 1)).map (· + 1) := by
  induction R generalizing a acc with
  | nil => simp at h
  | cons r rs ih =>
    cases a with
    | zero =>
      simp at hl
      simp only [List.set_cons_zero, offsets, hl]
      rw [show acc + (r.length + 1) = acc + r.length + 1 by omega, offsets_shift]
      simp
    | succ a =>
      simp at h hl
      simp only [List.set_cons_succ, offsets]
      rw [ih (acc + r.length) a h hl]
      simp

end PetgraphModel.CsrProofs
