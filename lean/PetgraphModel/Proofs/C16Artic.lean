import PetgraphModel.Model.C16Artic
/-
C16 — structural facts about the mirror model of `articulation_points`: the result set never gets a
duplicate and only ever receives indices that the search has visited.
-/
namespace PetgraphModel.C16P
open PetgraphModel C16M

def stepNode : RStep → Option Nat
  | .base _ => none
  | .child cur _ => some cur
  | .noBack cur _ => some cur
  | .rootCheck cur => some cur

/-- every pending step other than a `BaseStep` belongs to a node that is already visited -/
def StackOk (stack : List RStep) (st : AP) : Prop := ∀ s ∈ stack, ∀ c, stepNode s = some c → c ∈ st.visited

def ApsOk (st : AP) : Prop := st.aps.Nodup ∧ ∀ i ∈ st.aps, i ∈ st.visited

theorem mem_insertAp (y x : Nat) (s : List Nat) : y ∈ insertAp x s ↔ y = x ∨ y ∈ s := by
  unfold insertAp
  split
  · rename_i h
    simp only [List.contains_iff_mem] at h
    constructor
    · exact Or.inr
    · rintro (h' | h')
      · subst h'; exact h
      · exact h'
  · simp [List.mem_append, or_comm]

theorem nodup_insertAp (x : Nat) (s : List Nat) (h : s.Nodup) : (insertAp x s).Nodup := by
  unfold insertAp
  split
  · exact h
  · rename_i hx
    simp only [List.contains_iff_mem] at hx
    rw [List.nodup_append]
    refine ⟨h, by simp, ?_⟩
    intro a ha b hb
    simp at hb
    subst hb
    exact fun hab => hx (hab ▸ ha)

theorem apsOk_insert (st : AP) (cur : Nat) (h : ApsOk st) (hc : cur ∈ st.visited) :
    ApsOk { st with aps := insertAp cur st.aps } := by
  refine ⟨nodup_insertAp cur st.aps h.1, fun i hi => ?_⟩
  rcases (mem_insertAp i cur st.aps).mp hi with h' | h'
  · subst h'; exact hc
  · exact h.2 i h'

theorem apStep_inv (v : View) (s : RStep) (stack stack' : List RStep) (cc cc' : List (Nat × Nat))
    (st st' : AP) (h : apStep v s stack cc st = .ok (stack', cc', st'))
    (hs : StackOk (s :: stack) st) (ha : ApsOk st) :
    StackOk stack' st' ∧ ApsOk st' := by
  have hrest : StackOk stack st := fun s' hs' => hs s' (List.mem_cons_of_mem _ hs')
  cases s with
  | base cur =>
    simp only [apStep] at h
    split at h
    · cases h
    · split at h
      · simp only [Except.ok.injEq, Prod.mk.injEq] at h
        obtain ⟨rfl, rfl, rfl⟩ := h
        refine ⟨?_, ha.1, fun i hi => List.mem_cons_of_mem _ (ha.2 i hi)⟩
        intro s' hs' c hc
        simp only [List.mem_append, List.mem_reverse, List.mem_map, List.mem_cons] at hs'
        rcases hs' with ⟨t, _, rfl⟩ | rfl | hs'
        · simp [stepNode] at hc; subst hc; simp
        · simp [stepNode] at hc; subst hc; simp
        · exact List.mem_cons_of_mem _ (hrest s' hs' c hc)
      · cases h
      · cases h
      · cases h
  | child cur ch =>
    have hcur : cur ∈ st.visited := hs _ (List.mem_cons_self ..) cur rfl
    simp only [apStep] at h
    split at h
    · split at h
      · simp only [Except.ok.injEq, Prod.mk.injEq] at h
        obtain ⟨rfl, rfl, rfl⟩ := h
        refine ⟨?_, ha⟩
        intro s' hs' c hc
        simp only [List.mem_cons] at hs'
        rcases hs' with rfl | rfl | hs'
        · simp [stepNode] at hc
        · simp [stepNode] at hc; subst hc; exact hcur
        · exact hrest s' hs' c hc
      · cases h
    · split at h
      · cases h
      · split at h
        · split at h
          · split at h
            · simp only [Except.ok.injEq, Prod.mk.injEq] at h
              obtain ⟨rfl, rfl, rfl⟩ := h
              exact ⟨hrest, ha⟩
            · cases h
          · cases h
          · cases h
        · simp only [Except.ok.injEq, Prod.mk.injEq] at h
          obtain ⟨rfl, rfl, rfl⟩ := h
          exact ⟨hrest, ha⟩
  | noBack cur ch =>
    have hcur : cur ∈ st.visited := hs _ (List.mem_cons_self ..) cur rfl
    simp only [apStep] at h
    split at h
    · split at h
      · cases h
      · split at h
        · split at h
          · simp only [Except.ok.injEq, Prod.mk.injEq] at h
            obtain ⟨rfl, rfl, rfl⟩ := h
            exact ⟨hrest, apsOk_insert { st with low := _ } cur ha hcur⟩
          · simp only [Except.ok.injEq, Prod.mk.injEq] at h
            obtain ⟨rfl, rfl, rfl⟩ := h
            exact ⟨hrest, ha⟩
        · cases h
        · cases h
        · cases h
    · cases h
    · cases h
  | rootCheck cur =>
    have hcur : cur ∈ st.visited := hs _ (List.mem_cons_self ..) cur rfl
    simp only [apStep] at h
    split at h
    · cases h
    · split at h
      · simp only [Except.ok.injEq, Prod.mk.injEq] at h
        obtain ⟨rfl, rfl, rfl⟩ := h
        exact ⟨hrest, apsOk_insert st cur ha hcur⟩
      · simp only [Except.ok.injEq, Prod.mk.injEq] at h
        obtain ⟨rfl, rfl, rfl⟩ := h
        exact ⟨hrest, ha⟩

theorem dfsLoop_inv (v : View) : ∀ (f : Nat) (stack : List RStep) (cc : List (Nat × Nat)) (st st' : AP),
    dfsLoop v f stack cc st = .ok st' → StackOk stack st → ApsOk st → ApsOk st' := by
  intro f
  induction f with
  | zero => intro stack cc st st' h; simp [dfsLoop] at h
  | succ f ih =>
    intro stack cc st st' h hs ha
    cases stack with
    | nil => simp [dfsLoop] at h; subst h; exact ha
    | cons s stack =>
      simp only [dfsLoop] at h
      split at h
      · rename_i stack2 cc2 st2 hstep
        obtain ⟨h1, h2⟩ := apStep_inv v s stack stack2 cc cc2 st st2 hstep hs ha
        exact ih stack2 cc2 st2 st' h h1 h2
      · cases h

theorem outer_inv (v : View) : ∀ (nodes : List Nat) (st st' : AP),
    outer v nodes st = .ok st' → ApsOk st → ApsOk st' := by
  intro nodes
  induction nodes with
  | nil => intro st st' h ha; simp [outer] at h; subst h; exact ha
  | cons a rest ih =>
    intro st st' h ha
    simp only [outer] at h
    split at h
    · split at h
      · rename_i st2 hd
        refine ih st2 st' h (dfsLoop_inv v _ _ _ st st2 hd ?_ ha)
        intro s hs c hc
        simp only [List.mem_singleton] at hs
        subst hs
        simp [stepNode] at hc
      · cases h
    · exact ih st st' h ha

theorem outer_aps (v : View) (st : AP) (h : outer v v.g.nodes (AP.new v.nb) = .ok st) :
    st.aps.Nodup ∧ ∀ i ∈ st.aps, i ∈ st.visited :=
  outer_inv v v.g.nodes (AP.new v.nb) st h ⟨by simp [AP.new], by simp [AP.new]⟩

/-! ### no fault is reachable: the tables sized by `node_bound` are always large enough -/

/-- the indices of a view are usable by `articulation_points` -/
structure IndexOk (v : View) : Prop where
  keys : v.ix.map (·.1) = v.g.nodes
  bound : ∀ a, a ∈ v.g.nodes → v.toIndex a < v.nb
  succNodes : ∀ a, a ∈ v.g.nodes → ∀ t, t ∈ v.succ a → t ∈ v.g.nodes
  inj : ∀ a b, a ∈ v.g.nodes → b ∈ v.g.nodes → v.toIndex a = v.toIndex b → a = b

/-- `i` is the `to_index` of a node -/
def Valid (v : View) (i : Nat) : Prop := ∃ a, a ∈ v.g.nodes ∧ v.toIndex a = i

theorem lookup_some_mem {β : Type} : ∀ (m : List (Nat × β)) (k : Nat), k ∈ m.map (·.1) →
    ∃ j, m.lookup k = some j ∧ (k, j) ∈ m := by
  intro m
  induction m with
  | nil => intro k h; simp at h
  | cons x xs ih =>
    intro k h
    obtain ⟨k', j'⟩ := x
    by_cases hk : k = k'
    · subst hk; exact ⟨j', by simp [List.lookup], by simp⟩
    · have hb : (k == k') = false := by simpa using hk
      simp only [List.map_cons, List.mem_cons] at h
      rcases h with h | h
      · exact (hk h).elim
      · obtain ⟨j, hj, hm⟩ := ih k h
        exact ⟨j, by simp [List.lookup, hb, hj], List.mem_cons_of_mem _ hm⟩

theorem fromIndex_ok (v : View) (hi : IndexOk v) (i : Nat) (h : Valid v i) :
    ∃ a, fromIndex v i = .ok a ∧ a ∈ v.g.nodes := by
  obtain ⟨a, ha, hai⟩ := h
  obtain ⟨j, hj, hm⟩ := lookup_some_mem v.ix a (by rw [hi.keys]; exact ha)
  have hji : j = i := by
    rw [← hai]; unfold View.toIndex; rw [hj]; rfl
  subst hji
  unfold fromIndex
  cases hf : v.ix.find? (fun p => p.2 == j) with
  | none =>
    have := List.find?_eq_none.mp hf (a, j) hm
    simp at this
  | some p =>
    refine ⟨p.1, rfl, ?_⟩
    rw [← hi.keys]
    exact List.mem_map.mpr ⟨p, List.mem_of_find?_eq_some hf, rfl⟩

theorem valid_lt (v : View) (hi : IndexOk v) (i : Nat) (h : Valid v i) : i < v.nb := by
  obtain ⟨a, ha, rfl⟩ := h; exact hi.bound a ha

def StepValid (v : View) : RStep → Prop
  | .base n => Valid v n
  | .child c ch => Valid v c ∧ Valid v ch
  | .noBack c ch => Valid v c ∧ Valid v ch
  | .rootCheck n => Valid v n

structure TabOk (v : View) (st : AP) : Prop where
  nb : st.nb = v.nb
  low : st.low.length = v.nb
  disc : st.disc.length = v.nb
  parent : st.parent.length = v.nb
  visited : ∀ i, i ∈ st.visited → Valid v i

theorem wr_ok (l : List (Option Nat)) (i : Nat) (x : Option Nat) (h : i < l.length) :
    wr l i x = .ok (l.set i x) := by simp [wr, h]

theorem rd_ok (l : List (Option Nat)) (i : Nat) (h : i < l.length) :
    rd l i = .ok (l.getD i none) := by simp [rd, h]

/-- one step never faults, and keeps the tables and the stack well-formed -/
theorem apStep_ok (v : View) (hi : IndexOk v) (s : RStep) (stack : List RStep) (cc : List (Nat × Nat))
    (st : AP) (ht : TabOk v st) (hs : ∀ s', s' ∈ s :: stack → StepValid v s') :
    ∃ stack' cc' st', apStep v s stack cc st = .ok (stack', cc', st') ∧ TabOk v st' ∧
      ∀ s', s' ∈ stack' → StepValid v s' := by
  have hrest : ∀ s', s' ∈ stack → StepValid v s' := fun s' h => hs s' (List.mem_cons_of_mem _ h)
  have hs0 := hs s (List.mem_cons_self ..)
  cases s with
  | base cur =>
    have hcv : Valid v cur := hs0
    have hc : cur < v.nb := valid_lt v hi cur hcv
    obtain ⟨a, hfa, han⟩ := fromIndex_ok v hi cur hcv
    simp only [apStep, ht.nb, hc, not_true_eq_false, if_false,
      wr_ok st.disc cur _ (ht.disc ▸ hc), wr_ok st.low cur _ (ht.low ▸ hc), hfa]
    refine ⟨_, _, _, rfl, ⟨rfl, by simp [ht.low], by simp [ht.disc], ht.parent, ?_⟩, ?_⟩
    · intro i hi'
      cases List.mem_cons.mp hi' with
      | inl h => exact h ▸ hcv
      | inr h => exact ht.visited i h
    · intro s' hs'
      simp only [List.mem_append, List.mem_reverse, List.mem_map, List.mem_cons] at hs'
      rcases hs' with ⟨t, ht', rfl⟩ | rfl | hs'
      · exact ⟨hcv, t, hi.succNodes a han t ht', rfl⟩
      · exact hcv
      · exact hrest s' hs'
  | child cur ch =>
    obtain ⟨hcv, hchv⟩ : Valid v cur ∧ Valid v ch := hs0
    have hc : cur < v.nb := valid_lt v hi cur hcv
    have hch : ch < v.nb := valid_lt v hi ch hchv
    simp only [apStep]
    split
    · simp only [wr_ok st.parent ch _ (ht.parent ▸ hch)]
      refine ⟨_, _, _, rfl, ⟨ht.nb, ht.low, ht.disc, by simp [ht.parent], ht.visited⟩, ?_⟩
      intro s' hs'
      simp only [List.mem_cons] at hs'
      rcases hs' with rfl | rfl | hs'
      · exact hchv
      · exact ⟨hcv, hchv⟩
      · exact hrest s' hs'
    · simp only [rd_ok st.parent cur (ht.parent ▸ hc), rd_ok st.low cur (ht.low ▸ hc),
        rd_ok st.disc ch (ht.disc ▸ hch), wr_ok st.low cur _ (ht.low ▸ hc)]
      split
      · exact ⟨_, _, _, rfl, ⟨ht.nb, by simp [ht.low], ht.disc, ht.parent, ht.visited⟩, hrest⟩
      · exact ⟨_, _, _, rfl, ht, hrest⟩
  | noBack cur ch =>
    obtain ⟨hcv, hchv⟩ : Valid v cur ∧ Valid v ch := hs0
    have hc : cur < v.nb := valid_lt v hi cur hcv
    have hch : ch < v.nb := valid_lt v hi ch hchv
    have hl1 : cur < (st.low.set cur (minU (st.low.getD cur none) (st.low.getD ch none))).length := by
      simp [ht.low, hc]
    have hl2 : ch < (st.low.set cur (minU (st.low.getD cur none) (st.low.getD ch none))).length := by
      simp [ht.low, hch]
    simp only [apStep, rd_ok st.low cur (ht.low ▸ hc), rd_ok st.low ch (ht.low ▸ hch),
      wr_ok st.low cur _ (ht.low ▸ hc), rd_ok st.parent cur (ht.parent ▸ hc),
      rd_ok _ ch hl2, rd_ok st.disc cur (ht.disc ▸ hc)]
    split
    · exact ⟨_, _, _, rfl, ⟨ht.nb, by simp [ht.low], ht.disc, ht.parent, ht.visited⟩, hrest⟩
    · exact ⟨_, _, _, rfl, ⟨ht.nb, by simp [ht.low], ht.disc, ht.parent, ht.visited⟩, hrest⟩
  | rootCheck cur =>
    have hcv : Valid v cur := hs0
    have hc : cur < v.nb := valid_lt v hi cur hcv
    simp only [apStep, rd_ok st.parent cur (ht.parent ▸ hc)]
    split
    · exact ⟨_, _, _, rfl, ⟨ht.nb, ht.low, ht.disc, ht.parent, ht.visited⟩, hrest⟩
    · exact ⟨_, _, _, rfl, ht, hrest⟩

theorem dfsLoop_ok (v : View) (hi : IndexOk v) : ∀ (f : Nat) (stack : List RStep) (cc : List (Nat × Nat)) (st : AP),
    TabOk v st → (∀ s', s' ∈ stack → StepValid v s') →
    (∃ st', dfsLoop v f stack cc st = .ok st' ∧ TabOk v st') ∨ dfsLoop v f stack cc st = .error "FUEL" := by
  intro f
  induction f with
  | zero => intro stack cc st _ _; exact Or.inr (by simp [dfsLoop])
  | succ f ih =>
    intro stack cc st ht hs
    cases stack with
    | nil => exact Or.inl ⟨st, by simp [dfsLoop], ht⟩
    | cons s stack =>
      obtain ⟨stack', cc', st', hstep, ht', hs'⟩ := apStep_ok v hi s stack cc st ht hs
      simp only [dfsLoop, hstep]
      exact ih stack' cc' st' ht' hs'

theorem outer_ok (v : View) (hi : IndexOk v) : ∀ (nodes : List Nat) (st : AP),
    (∀ a, a ∈ nodes → a ∈ v.g.nodes) → TabOk v st →
    (∃ st', outer v nodes st = .ok st' ∧ TabOk v st') ∨ outer v nodes st = .error "FUEL" := by
  intro nodes
  induction nodes with
  | nil => intro st _ ht; exact Or.inl ⟨st, by simp [outer], ht⟩
  | cons a rest ih =>
    intro st hn ht
    have hrest : ∀ b, b ∈ rest → b ∈ v.g.nodes := fun b hb => hn b (List.mem_cons_of_mem _ hb)
    simp only [outer]
    split
    · rcases dfsLoop_ok v hi (apFuel v) [.base (v.toIndex a)] [] st ht (by
          intro s' hs'
          simp only [List.mem_singleton] at hs'
          subst hs'
          exact ⟨a, hn a (List.mem_cons_self ..), rfl⟩) with ⟨st', hd, ht'⟩ | hd
      · simp only [hd]; exact ih st' hrest ht'
      · simp only [hd]; exact Or.inr trivial
    · exact ih st hrest ht

theorem mapFromIndex_ok (v : View) (hi : IndexOk v) : ∀ (l : List Nat), (∀ i, i ∈ l → Valid v i) →
    ∃ r, mapFromIndex v l = .ok r := by
  intro l
  induction l with
  | nil => intro _; exact ⟨[], rfl⟩
  | cons i is ih =>
    intro h
    obtain ⟨a, ha, _⟩ := fromIndex_ok v hi i (h i (List.mem_cons_self ..))
    obtain ⟨r, hr⟩ := ih (fun j hj => h j (List.mem_cons_of_mem _ hj))
    exact ⟨a :: r, by simp [mapFromIndex, ha, hr]⟩

theorem tabOk_new (v : View) : TabOk v (AP.new v.nb) :=
  ⟨rfl, by simp [AP.new], by simp [AP.new], by simp [AP.new], by simp [AP.new]⟩

/-- **`articulation_points` never panics**: every table access stays within `node_bound()` slots
(only the model's fuel could stop it) -/
theorem articulationPoints_no_fault (v : View) (hi : IndexOk v) :
    (∃ l, articulationPoints v = .ok l) ∨ articulationPoints v = .error "FUEL" := by
  unfold articulationPoints
  rcases outer_ok v hi v.g.nodes (AP.new v.nb) (fun _ h => h) (tabOk_new v) with ⟨st, ho, ht⟩ | ho
  · simp only [ho]
    have haps := outer_aps v st ho
    obtain ⟨r, hr⟩ := mapFromIndex_ok v hi st.aps (fun i hi' => ht.visited i (haps.2 i hi'))
    exact Or.inl ⟨r, hr⟩
  · simp only [ho]; exact Or.inr trivial

end PetgraphModel.C16P
