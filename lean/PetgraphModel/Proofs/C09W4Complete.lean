import PetgraphModel.Proofs.C09Judge
import PetgraphModel.Proofs.C09Models
import PetgraphModel.Proofs.ReachTotal
/-
C09 (wave 4, goal 2): COMPLETENESS of the spec-level checkers of `Oracle/C09Judge.lean` — whenever the
clause of the property holds, the checker accepts (so the driver never raises a false `SPECFAIL`).
Together with the soundness theorems of `Proofs/C09Judge.lean` every checker DECIDES its clause.

The one ingredient beyond soundness is totality of the reachability oracle (`Proofs/ReachTotal.lean`):
`reachB` never runs out of its fuel, for any graph.
-/
namespace PetgraphModel.C09P
open PetgraphModel PetgraphModel.MGraph PetgraphModel.Oracle PetgraphModel.C09J

theorem reachT_complete {g : MGraph} {a b : Nat} (h : Reach g a b) : reachT g a b = true := by
  unfold reachT
  rw [(reachB_iff g a b).mpr h]; rfl

theorem reachF_complete {g : MGraph} {a b : Nat} (h : ¬ Reach g a b) : reachF g a b = true := by
  unfold reachF
  rw [(reachB_false_iff g a b).mpr h]; rfl

theorem reachT_iff {g : MGraph} {a b : Nat} : reachT g a b = true ↔ Reach g a b :=
  ⟨reachT_sound, reachT_complete⟩

theorem reachF_iff {g : MGraph} {a b : Nat} : reachF g a b = true ↔ ¬ Reach g a b :=
  ⟨reachF_sound, reachF_complete⟩

/-! ### SCC partition, order -/

theorem classOkB_complete {g : MGraph} {c : List Nat} (hne : c ≠ [])
    (hcl : ∀ x ∈ c, ∀ y, y ∈ c ↔ SC g x y) : classOkB g c = true := by
  cases c with
  | nil => exact absurd rfl hne
  | cons hd tl =>
    have hh : hd ∈ hd :: tl := List.mem_cons_self ..
    simp only [classOkB, Bool.and_eq_true, List.all_eq_true]
    refine ⟨fun y hy => ?_, ?_⟩
    · have := (hcl hd hh y).mp hy
      exact ⟨reachT_complete this.1, reachT_complete this.2⟩
    · obtain ⟨r, hr⟩ := reachFrom_total g hd
      simp only [hr, List.all_eq_true, Bool.or_eq_true]
      intro y hy
      have hry : Reach g hd y := ((reachFrom_spec g hd r hr).2 y).mp hy
      by_cases hb : Reach g y hd
      · exact Or.inl (by simpa using (hcl hd hh y).mpr ⟨hry, hb⟩)
      · exact Or.inr (reachF_complete hb)

theorem coverOkB_complete {g : MGraph} {comps : List (List Nat)} (hn : comps.flatten.Nodup)
    (hc : ∀ x, x ∈ comps.flatten ↔ x ∈ g.nodes) : coverOkB g comps = true := by
  simp only [coverOkB, Bool.and_eq_true, decide_eq_true_eq, List.all_eq_true, List.contains_iff_mem]
  exact ⟨⟨hn, fun x hx => (hc x).mp hx⟩, fun x hx => (hc x).mpr hx⟩

theorem partOkB_complete {g : MGraph} {comps : List (List Nat)} (h : PartSpec g comps) :
    partOkB g comps = true := by
  simp only [partOkB, Bool.and_eq_true, List.all_eq_true]
  exact ⟨coverOkB_complete h.nodup h.cover, fun c hc => classOkB_complete (h.nonempty c hc) (h.classes c hc)⟩

theorem orderOkB_complete {g : MGraph} : ∀ {comps : List (List Nat)}, (∀ c ∈ comps, c ≠ []) →
    comps.Pairwise (fun ci cj => ∀ x ∈ ci, ∀ y ∈ cj, ¬ Reach g x y) → orderOkB g comps = true := by
  intro comps
  induction comps with
  | nil => intro _ _; rfl
  | cons c rest ih =>
    intro hne hp
    obtain ⟨h1, h2⟩ := List.pairwise_cons.mp hp
    simp only [orderOkB, Bool.and_eq_true, List.all_eq_true]
    refine ⟨fun d hd => ?_, ih (fun c' hc' => hne c' (List.mem_cons_of_mem _ hc')) h2⟩
    cases c with
    | nil => exact absurd rfl (hne [] (List.mem_cons_self ..))
    | cons hc tc =>
      cases d with
      | nil => exact absurd rfl (hne [] (List.mem_cons_of_mem _ hd))
      | cons kd td =>
        exact reachF_complete (h1 _ hd hc (List.mem_cons_self ..) kd (List.mem_cons_self ..))

theorem sccOkB_complete {g : MGraph} {comps : List (List Nat)} (h : SccSpec g comps) :
    sccOkB g comps = true := by
  simp only [sccOkB, Bool.and_eq_true]
  exact ⟨partOkB_complete (SccSpec.toPart h), orderOkB_complete h.nonempty h.order⟩

/-! ### node_component_index -/

theorem indexOkB_complete {comps : List (List Nat)} {idx : List (Nat × Nat)} (h : IndexSpec comps idx) :
    indexOkB comps idx = true := by
  obtain ⟨h1, h2⟩ := h
  simp only [indexOkB, Bool.and_eq_true, List.all_eq_true, List.any_eq_true]
  refine ⟨fun c hc x hx => ?_, fun p hp q hq => ?_⟩
  · obtain ⟨i, hi⟩ := h1 c hc x hx
    exact ⟨(x, i), hi, by simp⟩
  · have := h2 p.1 p.2 q.1 q.2 hp hq
    rw [← sameComp_iff] at this
    by_cases he : p.2 = q.2
    · have hs := this.mp he
      simp [he, hs]
    · have hs : sameComp comps p.1 q.1 = false := by
        cases hsc : sameComp comps p.1 q.1 with
        | false => rfl
        | true => exact absurd (this.mpr hsc) he
      simp [he, hs]

/-! ### number of weak components -/

theorem wccReps_total (g : MGraph) : ∀ (todo reps : List Nat), ∃ out, wccReps g todo reps = some out := by
  intro todo
  induction todo with
  | nil => intro reps; exact ⟨reps, rfl⟩
  | cons x xs ih =>
    intro reps
    unfold wccReps
    by_cases h1 : reps.any (fun r => reachT g.undirect r x) = true
    · rw [if_pos h1]; exact ih reps
    · rw [if_neg h1]
      have h2 : reps.all (fun r => reachF g.undirect r x) = true := by
        rw [List.all_eq_true]
        intro r hr
        apply reachF_complete
        intro hreach
        apply h1
        rw [List.any_eq_true]
        exact ⟨r, hr, reachT_complete hreach⟩
      rw [if_pos h2]; exact ih _

theorem wccCount_total (g : MGraph) : ∃ k, wccCount g = some k := by
  obtain ⟨out, h⟩ := wccReps_total g g.nodes []
  exact ⟨out.length, by simp [wccCount, h]⟩

theorem wccCount_complete {g : MGraph} {k : Nat} (h : IsWccCount g k) : wccCount g = some k := by
  obtain ⟨k', hk'⟩ := wccCount_total g
  rw [hk', wccCount_unique (wccCount_sound hk') h]

/-! ### cycles -/

theorem cycDYes_complete {g : MGraph} (h : CyclicD g) : cycDYes g = true := by
  obtain ⟨x, hx⟩ := h
  obtain ⟨b, hab, hbx⟩ := reach1_head hx
  obtain ⟨e, he, hc⟩ := hab
  simp only [cycDYes, List.any_eq_true]
  refine ⟨e, he, reachT_complete ?_⟩
  rcases hc with ⟨h1, h2⟩ | ⟨hd, h1, h2⟩
  · rw [h1, h2]; exact hbx
  · -- undirected: the edge itself leads back
    exact reach_of_adj ⟨e, he, Or.inr ⟨hd, rfl, rfl⟩⟩

theorem cycDNo_complete {g : MGraph} (h : ¬ CyclicD g) : cycDNo g = true := by
  simp only [cycDNo, List.all_eq_true]
  intro e he
  apply reachF_complete
  intro hr
  exact h ⟨e.src, reach1_of_adj_reach ⟨e, he, Or.inl ⟨rfl, rfl⟩⟩ hr⟩

theorem cycUYes_complete {g : MGraph} (h : CyclicU g) : cycUYes g = true := by
  obtain ⟨i, e, he, hr⟩ := h
  simp only [cycUYes, List.any_eq_true, List.mem_range]
  exact ⟨i, (List.getElem?_eq_some_iff.mp he).1, by rw [he]; exact reachT_complete hr⟩

theorem cycUNo_complete {g : MGraph} (h : ¬ CyclicU g) : cycUNo g = true := by
  simp only [cycUNo, List.all_eq_true, List.mem_range]
  intro i hi
  rw [List.getElem?_eq_getElem hi]
  apply reachF_complete
  intro hr
  exact h ⟨i, _, List.getElem?_eq_getElem hi, hr⟩

/-! ### 2-colourability -/

theorem twoColB_total (g : MGraph) (s : Nat) : ∃ b, twoColB g s = some b := by
  obtain ⟨r, hr⟩ := reachFrom_total g s
  exact ⟨(allSubsets r).any (properOn g r), by simp [twoColB, hr]⟩

theorem twoColB_complete (g : MGraph) (s : Nat) :
    (TwoCol g s → twoColB g s = some true) ∧ (¬ TwoCol g s → twoColB g s = some false) := by
  obtain ⟨b, hb⟩ := twoColB_total g s
  have hs := twoColB_sound hb
  constructor
  · intro h
    have : b = true := hs.mpr h
    rw [hb, this]
  · intro h
    cases b with
    | true => exact absurd (hs.mp rfl) h
    | false => exact hb

/-! ### toposort -/

theorem topoOkB_complete {g : MGraph} {ord : List Nat} (h : TopoOrder g ord) : topoOkB g ord = true := by
  simp only [topoOkB, Bool.and_eq_true, decide_eq_true_eq, List.all_eq_true, List.contains_iff_mem,
    Bool.or_eq_true]
  refine ⟨⟨⟨h.nodup, fun x hx => (h.cover x).mp hx⟩, fun x hx => (h.cover x).mpr hx⟩, fun e he => ?_⟩
  refine ⟨h.forward _ _ ⟨e, he, Or.inl ⟨rfl, rfl⟩⟩, ?_⟩
  cases hd : g.directed with
  | true => exact Or.inl rfl
  | false => exact Or.inr (h.forward _ _ ⟨e, he, Or.inr ⟨hd, rfl, rfl⟩⟩)

theorem onCycleB_complete {g : MGraph} {x : Nat} (h : Reach1 g x x) : onCycleB g x = true := by
  obtain ⟨b, hab, hbx⟩ := reach1_head h
  simp only [onCycleB, List.any_eq_true]
  exact ⟨b, MGraph.mem_succ.mpr hab, reachT_complete hbx⟩

/-! ### condensation -/

theorem condOkB_complete {g : MGraph} {nodes : List (List Nat)} {es : List (Nat × Nat × Int)}
    (h : CondSpec g nodes es) : condOkB g nodes es = true := by
  simp only [condOkB, Bool.and_eq_true]
  exact ⟨partOkB_complete h.part, List.isPerm_iff.mpr h.edges⟩

theorem condAcyclicOkB_complete {g : MGraph} {nodes : List (List Nat)} {es : List (Nat × Nat × Int)}
    (h : CondAcyclicSpec g nodes es) : condAcyclicOkB g nodes es = true := by
  simp only [condAcyclicOkB, Bool.and_eq_true, List.all_eq_true, List.any_eq_true, decide_eq_true_eq,
    Bool.or_eq_true, bne_iff_ne, ne_eq, beq_iff_eq]
  refine ⟨⟨⟨⟨⟨partOkB_complete h.part, h.noLoop⟩, h.simple⟩, cycDNo_complete h.acyclic⟩, fun e he => ?_⟩,
    fun e' he' => ?_⟩
  · by_cases hc : compIdx nodes e.src = compIdx nodes e.tgt
    · exact Or.inl hc
    · exact Or.inr (h.complete e he hc)
  · exact h.sound e' he'

end PetgraphModel.C09P
