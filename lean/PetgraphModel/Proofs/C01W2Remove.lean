import PetgraphModel.Proofs.C01W2Core
/-
C01, wave 2 — removals under the stamp-carrying refinement invariant.

`remove_edge(e)` = unlink `e` + `swap_remove(e)` + re-link of the moved edge.  `GraphRemove.lean`
proves that this re-establishes `Inv` and acts as `swap_remove` on the content.  Here we add the
*order* part: the ghost stamps travel with the edges (`stSwap`: the moved edge keeps its stamp under
its new index) and every link still points to a smaller stamp (`SD`).  This needs only a *local*
description of which pointers the two `change_edge_links` calls may write (`PtrStep`), plus the fact
(from `InvEx`) that after the unlink no live slot points to `e` any more.
-/
namespace PetgraphModel.GProofs
open PetgraphModel PetgraphModel.G

/-! ### which pointers `change_edge_links` writes -/

/-- `es'` is `es` except that `next[k]` pointers equal to `a` may have been replaced by `b k` -/
def PtrStep (es es' : List Edge) (a : Nat) (b : Bool → Nat) : Prop :=
  es'.length = es.length ∧
  ∀ (x : Nat) (xd' : Edge), es'[x]? = some xd' → ∃ xd, es[x]? = some xd ∧
    ∀ k, xd'.next k = xd.next k ∨ (xd.next k = a ∧ xd'.next k = b k)

theorem PtrStep.refl (es : List Edge) (a : Nat) (b : Bool → Nat) : PtrStep es es a b :=
  ⟨rfl, fun _ xd' hx => ⟨xd', hx, fun _ => Or.inl rfl⟩⟩

theorem PtrStep.trans {es1 es2 es3 : List Edge} {a : Nat} {b : Bool → Nat}
    (h1 : PtrStep es1 es2 a b) (h2 : PtrStep es2 es3 a b) : PtrStep es1 es3 a b := by
  refine ⟨h2.1.trans h1.1, ?_⟩
  intro x xd3 hx3
  obtain ⟨xd2, hx2, hk2⟩ := h2.2 x xd3 hx3
  obtain ⟨xd1, hx1, hk1⟩ := h1.2 x xd2 hx2
  refine ⟨xd1, hx1, ?_⟩
  intro k
  rcases hk2 k with h | ⟨h, h'⟩
  · rcases hk1 k with g | ⟨g, g'⟩
    · exact Or.inl (h.trans g)
    · exact Or.inr ⟨g, h.trans g'⟩
  · rcases hk1 k with g | ⟨g, _⟩
    · exact Or.inr ⟨g ▸ h, h'⟩
    · exact Or.inr ⟨g, h'⟩

theorem relink_ptr {edges : List Edge} {k : Bool} {e enext : Nat} :
    ∀ (f cur : Nat) (es : List Edge), relink edges k e enext f cur = .ok es →
      es = edges ∨ ∃ p pd, edges[p]? = some pd ∧ pd.next k = e ∧ es = edges.set p (pd.setNext k enext) := by
  intro f
  induction f with
  | zero => intro cur es h; simp [relink] at h
  | succ f ih =>
    intro cur es h
    unfold relink at h
    split at h
    · simp only [Except.ok.injEq] at h; exact Or.inl h.symm
    · rename_i ed hed
      split at h
      · rename_i hnx
        simp only [Except.ok.injEq] at h
        exact Or.inr ⟨cur, ed, hed, hnx, h.symm⟩
      · exact ih _ es h

theorem ptrStep_set {edges : List Edge} {k : Bool} {e enext p : Nat} {pd : Edge} (hp : edges[p]? = some pd)
    (hn : pd.next k = e) (b : Bool → Nat) (hb : b k = enext) :
    PtrStep edges (edges.set p (pd.setNext k enext)) e b := by
  refine ⟨by simp, ?_⟩
  intro x xd' hx
  by_cases hpx : p = x
  · subst hpx
    rw [List.getElem?_set_self (lt_of_getElem? hp)] at hx
    cases hx
    refine ⟨pd, hp, ?_⟩
    intro k'
    by_cases hk : k' = k
    · subst hk; right; exact ⟨hn, by rw [Edge.setNext_next, hb]⟩
    · left
      have := bool_ne_not hk; subst this
      exact Edge.setNext_next_ne _ _ _
  · rw [List.getElem?_set_ne hpx] at hx
    exact ⟨xd', hx, fun _ => Or.inl rfl⟩

theorem changeLinks1_ptr {s s' : State} {k : Bool} {n e enext : Nat} (h : changeLinks1 s k n e enext = .ok s')
    (b : Bool → Nat) (hb : b k = enext) : PtrStep s.edges s'.edges e b := by
  unfold changeLinks1 at h
  split at h
  · simp at h
  · split at h
    · simp only [Except.ok.injEq] at h; subst h; exact PtrStep.refl _ _ _
    · split at h
      · rename_i es hes
        simp only [Except.ok.injEq] at h; subst h
        rcases relink_ptr _ _ _ hes with rfl | ⟨p, pd, hp, hn, rfl⟩
        · exact PtrStep.refl _ _ _
        · exact ptrStep_set hp hn b hb
      · simp at h

theorem changeEdgeLinks_ptr {s s' : State} {n0 n1 e x0 x1 : Nat} (h : changeEdgeLinks s n0 n1 e x0 x1 = .ok s') :
    PtrStep s.edges s'.edges e (fun k => if k then x1 else x0) := by
  unfold changeEdgeLinks at h
  split at h
  · simp at h
  · rename_i s1 h1
    exact (changeLinks1_ptr h1 _ (by simp)).trans (changeLinks1_ptr h _ (by simp))

/-! ### the unlink phase keeps the stamp order -/

theorem sd_unlink {es es' : List Edge} {st : Nat → Nat} {e : Nat} {ed : Edge} (hsd : SD es st)
    (hed : es[e]? = some ed) (hp : PtrStep es es' e (fun k => ed.next k)) : SD es' st := by
  intro x xd' k hx hlt
  obtain ⟨xd, hxd, hk⟩ := hp.2 x xd' hx
  rw [hp.1] at hlt
  rcases hk k with h | ⟨h1, h2⟩
  · rw [h] at hlt ⊢; exact hsd x xd k hxd hlt
  · have h2' : xd'.next k = ed.next k := h2
    rw [h2'] at hlt ⊢
    have a1 : st (ed.next k) < st e := hsd e ed k hed hlt
    have a2 : st e < st x := by
      have := hsd x xd k hxd (by rw [h1]; exact lt_of_getElem? hed)
      rwa [h1] at this
    omega

/-! ### after the unlink no live slot points to `e` -/

theorem IsList.suffix_of_mem' {edges : List Edge} {k endv h l} (hl : IsList edges k endv h l) {x : Nat} (hx : x ∈ l) :
    ∃ l', IsList edges k endv x l' ∧ ∀ y ∈ l', y ∈ l := by
  induction hl with
  | nil => cases hx
  | @cons e t ed he htl ih =>
    rcases List.mem_cons.mp hx with rfl | hx'
    · exact ⟨_, IsList.cons ed he htl, fun y hy => hy⟩
    · obtain ⟨l', h1, h2⟩ := ih hx'
      exact ⟨l', h1, fun y hy => List.mem_cons_of_mem _ (h2 y hy)⟩

theorem InvEx.no_ptr_to {sb : State} {e : Nat} (h : InvEx sb (fun _ => some e)) (he : e < sb.edges.length)
    {x : Nat} {xd : Edge} (hx : sb.edges[x]? = some xd) (hxe : x ≠ e) (k : Bool) : xd.next k ≠ e := by
  obtain ⟨adj, hl, _, hm⟩ := h.lists
  intro hnx
  have hu : xd.node k < sb.nodes.length := by
    have := h.ends x xd hx; cases k <;> simp [Edge.node] <;> omega
  have hmem : x ∈ adj k (xd.node k) := (hm k _ x).mpr ⟨by simpa using fun h' => hxe h'.symm, xd, hx, rfl⟩
  obtain ⟨l', hl', hsub⟩ := (hl k _ _ (List.getElem?_eq_getElem hu)).suffix_of_mem' hmem
  cases hl' with
  | nil => have := lt_of_getElem? hx; have := h.szE; omega
  | @cons _ t ed' he' htl =>
    rw [hx] at he'; cases he'
    generalize hq : xd.next k = q at htl hnx
    cases htl with
    | nil => have := h.szE; omega
    | cons ed'' he'' _ =>
      have : q ∈ adj k (xd.node k) := hsub q (List.mem_cons_of_mem _ (List.mem_cons_self ..))
      exact ((hm k _ q).mp this).1 (by rw [hnx])

/-! ### the `swap_remove` + re-link phase -/

/-- stamps after `swap_remove(e)` of an array whose last index is `L`: the moved edge keeps its stamp -/
def stSwap (st : Nat → Nat) (e L : Nat) : Nat → Nat := fun i => if i = e then st L else st i

theorem sd_swap {es0 es es' : List Edge} {st : Nat → Nat} {e : Nat} (he : e < es0.length)
    (hes : es = swapRemove es0 e) (hp : PtrStep es es' (es0.length - 1) (fun _ => e)) (hsd : SD es0 st)
    (hno : ∀ (x : Nat) (xd : Edge) (k : Bool), es0[x]? = some xd → x ≠ e → xd.next k ≠ e) :
    SD es' (stSwap st e (es0.length - 1)) := by
  have hlen : es.length = es0.length - 1 := by rw [hes]; exact swapRemove_length es0 e he
  have hget := swapRemove_get es0 e he
  intro x xd' k hx hlt
  obtain ⟨xd, hxd, hk⟩ := hp.2 x xd' hx
  rw [hp.1, hlen] at hlt
  have hxL : x < es0.length - 1 := by have := lt_of_getElem? hxd; omega
  rw [hes, hget x] at hxd
  simp only [hxL, if_true] at hxd
  -- the slot of the old array that `x` now holds
  have hx0 : ∃ x0, es0[x0]? = some xd ∧ x0 ≠ e ∧ stSwap st e (es0.length - 1) x = st x0 := by
    by_cases hxe : x = e
    · simp only [hxe, if_true] at hxd
      exact ⟨es0.length - 1, hxd, by omega, by simp [stSwap, hxe]⟩
    · simp only [hxe, if_false] at hxd
      exact ⟨x, hxd, hxe, by simp [stSwap, hxe]⟩
  obtain ⟨x0, hx0d, hx0e, hst⟩ := hx0
  rw [hst]
  rcases hk k with h | ⟨h1, h2⟩
  · have hye : xd'.next k ≠ e := by rw [h]; exact hno x0 xd k hx0d hx0e
    have : stSwap st e (es0.length - 1) (xd'.next k) = st (xd'.next k) := by simp [stSwap, hye]
    rw [this, h]
    exact hsd x0 xd k hx0d (by rw [← h]; omega)
  · have h2' : xd'.next k = e := h2
    have : stSwap st e (es0.length - 1) (xd'.next k) = st (es0.length - 1) := by simp [stSwap, h2']
    rw [this, ← h1]
    exact hsd x0 xd k hx0d (by rw [h1]; omega)

theorem sd_adjust {sb s' : State} {st : Nat → Nat} {e : Nat} (h : InvEx sb (fun _ => some e))
    (he : e < sb.edges.length) (hsd : SD sb.edges st) (hs' : removeEdgeAdjust sb e = .ok s') :
    SD s'.edges (stSwap st e (sb.edges.length - 1)) := by
  have hno : ∀ (x : Nat) (xd : Edge) (k : Bool), sb.edges[x]? = some xd → x ≠ e → xd.next k ≠ e :=
    fun x xd k hx hxe => h.no_ptr_to he hx hxe k
  unfold removeEdgeAdjust at hs'
  simp only at hs'
  split at hs'
  · simp only [Except.ok.injEq] at hs'; subst hs'
    exact sd_swap he rfl (PtrStep.refl _ _ _) hsd hno
  · rename_i ld hld
    have hp := changeEdgeLinks_ptr hs'
    simp only at hp
    rw [swapRemove_length sb.edges e he] at hp
    have hb : (fun k : Bool => if k = true then e else e) = fun _ => e := by funext k; cases k <;> rfl
    rw [hb] at hp
    exact sd_swap he rfl hp hsd hno

/-- **`remove_edge(e)` on a live edge under the refinement invariant**: no fault, the weight is
returned, and the new state abstracts — with the moved edge keeping its stamp — to the
specification's `removeEdge` -/
theorem removeEdge_refines {s : State} {st : Nat → Nat} {ck : Nat} (h : RInv s st ck) {e : Nat} {ed : Edge}
    (hed : s.edges[e]? = some ed) :
    ∃ s', removeEdge s e = .ok (s', some ed.weight) ∧
      RInv s' (stSwap st e (s.edges.length - 1)) ck ∧
      absG s' (stSwap st e (s.edges.length - 1)) ck = CGS.removeEdge (absG s st ck) e ∧
      EdgeRemoved s s' e := by
  have he := lt_of_getElem? hed
  obtain ⟨sb, hsb, hi, hc, hedb⟩ := unlink_both h.inv hed
  obtain ⟨s', hs', hinv, hrem⟩ := removeEdgeAdjust_spec hi hedb
  have hrm : removeEdge s e = .ok (s', some ed.weight) := by
    unfold removeEdge
    simp only [hed, hsb, hs']
  have hER : EdgeRemoved s s' e :=
    ⟨hrem.endv.trans hc.endv, hrem.directed.trans hc.directed, hrem.nodes.trans hc.nodes, by rw [hrem.edges, hc.edges]⟩
  have hlenb : sb.edges.length = s.edges.length := hc.elen
  -- the stamp order
  have hp1 := changeEdgeLinks_ptr hsb
  have hb : (fun k : Bool => if k = true then ed.next1 else ed.next0) = fun k => ed.next k := by
    funext k; cases k <;> rfl
  rw [hb] at hp1
  have hsd1 : SD sb.edges st := sd_unlink h.sd hed hp1
  have hsd2 := sd_adjust hi (by rw [hlenb]; exact he) hsd1 hs'
  rw [hlenb] at hsd2
  have hlen' : s'.edges.length = s.edges.length - 1 := by
    have := congrArg List.length hER.edges
    rw [swapRemove_length _ _ (by simpa using he)] at this
    simpa using this
  refine ⟨s', hrm, ⟨hinv, hsd2, ?_⟩, ?_, hER⟩
  · intro i hi'
    rw [hlen'] at hi'
    simp only [stSwap]
    split
    · exact h.lt _ (by omega)
    · exact h.lt _ (by omega)
  · symm
    have hspec : CGS.removeEdge (absG s st ck) e =
        { absG s st ck with edges := swapRemove (absG s st ck).edges e } := by
      unfold CGS.removeEdge
      rw [absG_edges_length]
      simp only [he, if_true]
      rfl
    rw [hspec]
    apply eq_absG_of
    · exact hER.endv.symm
    · exact hER.directed.symm
    · exact hER.nodes.symm
    · intro i
      have hl : e < (absG s st ck).edges.length := by rw [absG_edges_length]; exact he
      simp only
      rw [swapRemove_get _ e hl i, absG_edges_length]
      have hcont := congrArg (·[i]?) hER.edges
      simp only [List.getElem?_map] at hcont
      rw [swapRemove_get _ e (by simpa using he) i] at hcont
      simp only [List.length_map, List.getElem?_map] at hcont
      by_cases hiL : i < s.edges.length - 1
      · simp only [hiL, if_true] at hcont ⊢
        have hi' : i < s'.edges.length := by omega
        rw [List.getElem?_eq_getElem hi'] at hcont ⊢
        by_cases hie : i = e
        · simp only [hie, if_true] at hcont ⊢
          rw [absG_edges_get]
          have hL : s.edges.length - 1 < s.edges.length := by omega
          rw [List.getElem?_eq_getElem hL] at hcont ⊢
          simp only [Option.map_some, Option.some.injEq, edgeEnds, Prod.mk.injEq] at hcont ⊢
          simp [absEdgeG, stSwap, hcont.1, hcont.2.1, hcont.2.2]
        · simp only [hie, if_false] at hcont ⊢
          rw [absG_edges_get]
          have hi2 : i < s.edges.length := by omega
          rw [List.getElem?_eq_getElem hi2] at hcont ⊢
          simp only [Option.map_some, Option.some.injEq, edgeEnds, Prod.mk.injEq] at hcont ⊢
          simp [absEdgeG, stSwap, hie, hcont.1, hcont.2.1, hcont.2.2]
      · simp only [hiL, if_false]
        have : s'.edges[i]? = none := List.getElem?_eq_none (by omega)
        simp [this]
    · rfl


theorem removeEdge_refines_absent {s : State} (st : Nat → Nat) (ck : Nat) {e : Nat} (he : s.edges.length ≤ e) :
    removeEdge s e = .ok (s, none) ∧ CGS.removeEdge (absG s st ck) e = absG s st ck := by
  refine ⟨removeEdge_absent he, ?_⟩
  unfold CGS.removeEdge
  rw [absG_edges_length]
  simp [Nat.not_lt.mpr he]

/-! ### `retain_edges` -/

theorem absG_bumpEdgeAt (s : State) (st : Nat → Nat) (ck : Nat) (bump : List Bool) (i : Nat) :
    absG (bumpEdgeAt s bump i) st ck =
      (if CGS.bumpAt bump i then CGS.bumpEdge (absG s st ck) i else absG s st ck) := by
  unfold bumpEdgeAt
  have hb : bumpAt bump i = CGS.bumpAt bump i := rfl
  rw [hb]
  cases CGS.bumpAt bump i with
  | false => rfl
  | true =>
    simp only [if_true]
    unfold CGS.bumpEdge
    rw [absG_edges_get]
    cases hed : s.edges[i]? with
    | none => rfl
    | some ed =>
      simp only [Option.map_some]
      rw [absG_setEdgeWeight st ck hed]
      simp only [spSetEdge, edgeAt_absG hed]
      rfl

theorem retainEdges_refines (mask bump : List Bool) (ck : Nat) :
    ∀ (i : Nat) (s : State) (st : Nat → Nat), RInv s st ck → i ≤ s.edges.length →
      ∃ s' st', retainEdges mask bump i s = .ok s' ∧ RInv s' st' ck ∧
        absG s' st' ck = CGS.retainEdges mask bump i (absG s st ck) := by
  intro i
  induction i with
  | zero => intro s st h _; exact ⟨s, st, rfl, h, rfl⟩
  | succ i ih =>
    intro s st h hi
    unfold retainEdges CGS.retainEdges
    simp only
    have hsl := sameLinks_bumpEdgeAt s bump i
    have h1 : RInv (bumpEdgeAt s bump i) st ck := rinv_of_sameLinks h hsl
    have hlen1 := hsl.elen
    have habs1 := absG_bumpEdgeAt s st ck bump i
    have hm : maskAt mask i = CGS.maskAt mask i := rfl
    rw [hm, ← habs1]
    cases CGS.maskAt mask i with
    | true =>
      simp only [if_true]
      exact ih _ st h1 (by omega)
    | false =>
      simp only [Bool.false_eq_true, if_false]
      have hlt : i < (bumpEdgeAt s bump i).edges.length := by omega
      obtain ⟨s'', hs'', hr'', habs'', hrem⟩ := removeEdge_refines h1 (List.getElem?_eq_getElem hlt)
      rw [hs'']
      simp only
      rw [← habs'']
      have hlen : s''.edges.length = (bumpEdgeAt s bump i).edges.length - 1 := by
        have := congrArg List.length hrem.edges
        rw [swapRemove_length _ _ (by simpa using hlt)] at this
        simpa using this
      exact ih s'' _ hr'' (by omega)


/-! ### `remove_node`: the draining loops are the specification's `dropIncident` -/

/-- the specification's adjacency list of a live node starts with the node's head -/
theorem RInv.sel_head {s : State} {st : Nat → Nat} {ck : Nat} (h : RInv s st ck) (k : Bool) {a : Nat} {nd : Node}
    (hnd : s.nodes[a]? = some nd) :
    (nd.next k = s.endv ∧ (if k then CGS.inEdges (absG s st ck) a else CGS.outEdges (absG s st ck) a) = []) ∨
    (nd.next k < s.edges.length ∧
      ∃ t, (if k then CGS.inEdges (absG s st ck) a else CGS.outEdges (absG s st ck) a) = nd.next k :: t) := by
  obtain ⟨c, _, hmap, _, hl⟩ := h.chain_select k a nd hnd
  rw [← hmap]
  generalize c.map Prod.fst = l at hl
  generalize hq : nd.next k = q at hl
  cases hl with
  | nil => exact Or.inl ⟨rfl, rfl⟩
  | @cons _ t ed he _ => exact Or.inr ⟨lt_of_getElem? he, t, rfl⟩

theorem RInv.sel_nil_iff {s : State} {st : Nat → Nat} {ck : Nat} (h : RInv s st ck) (k : Bool) {a : Nat}
    (ha : a < s.nodes.length) :
    (if k then CGS.inEdges (absG s st ck) a else CGS.outEdges (absG s st ck) a) = [] ↔ NoInc s k a := by
  have hnd := List.getElem?_eq_getElem ha
  have hiff := h.inv.head_end_iff k hnd
  rcases h.sel_head k hnd with ⟨h1, h2⟩ | ⟨h1, t, h2⟩
  · rw [h2]
    exact ⟨fun _ => hiff.mp h1, fun _ => rfl⟩
  · rw [h2]
    constructor
    · intro hc; cases hc
    · intro hno
      have := hiff.mpr hno
      have := h.inv.szE
      omega

theorem removeEdge_len {s s' : State} {e : Nat} (he : e < s.edges.length) (h : EdgeRemoved s s' e) :
    s'.edges.length = s.edges.length - 1 ∧ s'.nodes.length = s.nodes.length := by
  constructor
  · have := congrArg List.length h.edges
    rw [swapRemove_length _ _ (by simpa using he)] at this
    simpa using this
  · simpa using congrArg List.length h.nodes

/-- the draining loop of direction `k`, step by step the specification's `dropIncident`
(`hout`: when draining the in-list the out-list is already empty) -/
theorem drain_refines (k : Bool) (a : Nat) (ck : Nat) :
    ∀ (f : Nat) (s s1 : State) (st : Nat → Nat), RInv s st ck → a < s.nodes.length →
      (k = true → NoInc s false a) → drain k a f s = .ok s1 →
      ∃ st1, RInv s1 st1 ck ∧ NoInc s1 k a ∧ (k = true → NoInc s1 false a) ∧
        s1.nodes.length = s.nodes.length ∧ s1.edges.length ≤ s.edges.length ∧
        s1.nodes.map (·.weight) = s.nodes.map (·.weight) ∧
        ∀ F, CGS.dropIncident a (F + (s.edges.length - s1.edges.length)) (absG s st ck) =
          CGS.dropIncident a F (absG s1 st1 ck) := by
  intro f
  induction f with
  | zero => intro s s1 st _ _ _ he; simp [drain] at he
  | succ f ih =>
    intro s s1 st h ha hout he
    have hnd := List.getElem?_eq_getElem ha
    unfold drain at he
    rw [hnd] at he
    simp only at he
    rcases h.sel_head k hnd with ⟨h1, h2⟩ | ⟨h1, t, h2⟩
    · simp only [h1, if_true, Except.ok.injEq] at he
      subst he
      refine ⟨st, h, (h.inv.head_end_iff k hnd).mp h1, hout, rfl, Nat.le_refl _, rfl, ?_⟩
      intro F; simp
    · have hne : (s.nodes[a]).next k ≠ s.endv := by have := h.inv.szE; omega
      simp only [hne, if_false] at he
      obtain ⟨s'', hs'', hr'', habs'', hrem⟩ := removeEdge_refines h (List.getElem?_eq_getElem h1)
      rw [hs''] at he
      simp only at he
      obtain ⟨hlen'', hnlen''⟩ := removeEdge_len h1 hrem
      have hsh := shrunk_of_edgeRemoved h1 hrem
      obtain ⟨st1, i1, i2, i3, i4, i5, i6, i7⟩ := ih s'' s1 _ hr'' (by rw [hnlen'']; exact ha)
        (fun hk => (hout hk).shrunk hsh) he
      refine ⟨st1, i1, i2, i3, i4.trans hnlen'', by omega, i6.trans hrem.nodes, ?_⟩
      intro F
      have hF : F + (s.edges.length - s1.edges.length) = (F + (s''.edges.length - s1.edges.length)) + 1 := by omega
      rw [hF]
      conv => lhs; unfold CGS.dropIncident
      cases k with
      | false =>
        simp only [Bool.false_eq_true, if_false] at h2
        rw [h2]
        simp only
        rw [← habs'']
        exact i7 F
      | true =>
        simp only [if_true] at h2
        have hoe : CGS.outEdges (absG s st ck) a = [] := by
          have := (h.sel_nil_iff false ha).mpr (hout rfl)
          simpa using this
        rw [hoe, h2]
        simp only
        rw [← habs'']
        exact i7 F

theorem dropIncident_done (a : Nat) {sp : CGS.Spec} (h1 : CGS.outEdges sp a = []) (h2 : CGS.inEdges sp a = []) :
    ∀ F, CGS.dropIncident a F sp = sp := by
  intro F
  cases F with
  | zero => rfl
  | succ F => unfold CGS.dropIncident; rw [h1, h2]

/-- the re-pointing walk leaves every link alone -/
theorem renode_links {k : Bool} {old new : Nat} :
    ∀ (f : Nat) (edges es' : List Edge) (cur : Nat), renode k old new f edges cur = .ok es' →
      es'.map (fun e => (e.next0, e.next1)) = edges.map (fun e => (e.next0, e.next1)) := by
  intro f
  induction f with
  | zero => intro edges es' cur h; simp [renode] at h
  | succ f ih =>
    intro edges es' cur h
    unfold renode at h
    split at h
    · simp only [Except.ok.injEq] at h; rw [h]
    · rename_i ed hed
      split at h
      · simp at h
      · rw [ih _ _ _ h]
        apply map_set_same _ _ _ _ _ hed
        cases k <;> rfl

theorem sd_of_links {es es' : List Edge} {st : Nat → Nat} (h : SD es st)
    (hl : es'.map (fun e => (e.next0, e.next1)) = es.map (fun e => (e.next0, e.next1))) : SD es' st := by
  have hlen : es'.length = es.length := by simpa using congrArg List.length hl
  intro x xd' k hx hlt
  obtain ⟨xd, hxd, hf⟩ := map_eq_getElem? hl x hx
  simp only [Prod.mk.injEq] at hf
  have hk : xd'.next k = xd.next k := by cases k <;> simp [Edge.next, hf.1, hf.2]
  rw [hk]
  rw [hlen, hk] at hlt
  exact h x xd k hxd hlt


/-- **`remove_node(a)` on a live node under the refinement invariant**: no fault, the weight is
returned, and the new state abstracts to the specification's `removeNode` — the incident edges are
dropped in the specification's reference order (out-edges, then in-edges, most recent first), so
even the *numbering* of the surviving edges agrees, not only their multiset. -/
theorem removeNode_refines {s : State} {st : Nat → Nat} {ck : Nat} (h : RInv s st ck) {a : Nat} {nd : Node}
    (hnd : s.nodes[a]? = some nd) :
    ∃ s' st', removeNode s a = .ok (s', some nd.weight) ∧ RInv s' st' ck ∧
      absG s' st' ck = CGS.removeNode (absG s st ck) a ∧ s'.nodes.length = s.nodes.length - 1 := by
  have ha := lt_of_getElem? hnd
  obtain ⟨s1, hd1⟩ := drain_ok false a s.fuel s h.inv ha (by simp [State.fuel])
  obtain ⟨st1, hr1, hno1, _, hnl1, hel1, hw1, hdrop1⟩ := drain_refines false a ck _ s s1 st h ha (by simp) hd1
  have ha1 : a < s1.nodes.length := by rw [hnl1]; exact ha
  obtain ⟨s2, hd2⟩ := drain_ok true a s1.fuel s1 hr1.inv ha1 (by simp [State.fuel])
  obtain ⟨st2, hr2, hno2, hno2', hnl2, hel2, hw2, hdrop2⟩ :=
    drain_refines true a ck _ s1 s2 st1 hr1 ha1 (fun _ => hno1) hd2
  have hno : ∀ k, NoInc s2 k a := by
    intro k; cases k
    · exact hno2' rfl
    · exact hno2
  have ha2 : a < s2.nodes.length := by rw [hnl2]; exact ha1
  have hnd2 := List.getElem?_eq_getElem ha2
  have hwt : (s2.nodes[a]).weight = nd.weight := by
    obtain ⟨x, hx, hf⟩ := map_eq_getElem? (hw2.trans hw1) a hnd2
    rw [hnd] at hx; cases hx; exact hf
  -- the specification's `dropIncident` ends in the abstraction of `s2`
  have hoe : CGS.outEdges (absG s2 st2 ck) a = [] := by
    have := (hr2.sel_nil_iff false ha2).mpr (hno false); simpa using this
  have hie : CGS.inEdges (absG s2 st2 ck) a = [] := by
    have := (hr2.sel_nil_iff true ha2).mpr (hno true); simpa using this
  have hdrop : CGS.dropIncident a ((absG s st ck).edges.length + 1) (absG s st ck) = absG s2 st2 ck := by
    rw [absG_edges_length]
    have e1 := hdrop1 (s1.edges.length + 1)
    have e2 := hdrop2 (s2.edges.length + 1)
    have hF1 : s1.edges.length + 1 + (s.edges.length - s1.edges.length) = s.edges.length + 1 := by omega
    have hF2 : s2.edges.length + 1 + (s1.edges.length - s2.edges.length) = s1.edges.length + 1 := by omega
    rw [hF1] at e1
    rw [hF2] at e2
    rw [e1, e2]
    exact dropIncident_done a hoe hie _
  have hspec : CGS.removeNode (absG s st ck) a =
      { absG s2 st2 ck with
        nodes := swapRemove (absG s2 st2 ck).nodes a,
        edges := (absG s2 st2 ck).edges.map fun ed =>
          { ed with src := (if ed.src = (absG s2 st2 ck).nodes.length - 1 then a else ed.src),
                    tgt := (if ed.tgt = (absG s2 st2 ck).nodes.length - 1 then a else ed.tgt) } } := by
    unfold CGS.removeNode
    rw [absG_nodes_length]
    simp only [ha, if_true]
    rw [hdrop]
    rfl
  have hnodesW : (swapRemove s2.nodes a).map (·.weight) = swapRemove (absG s2 st2 ck).nodes a := by
    rw [← swapRemove_map]; rfl
  have hnslen : (swapRemove s2.nodes a).length = s2.nodes.length - 1 := swapRemove_length s2.nodes a ha2
  have hnl : s2.nodes.length = s.nodes.length := hnl2.trans hnl1
  have htail := inv_removeNode_tail hr2.inv ha2 hno
  simp only at htail
  unfold removeNode
  simp only [hnd, hd1, hd2, hnd2]
  cases hns : (swapRemove s2.nodes a)[a]? with
  | none =>
    simp only
    refine ⟨_, st2, by rw [hwt], ⟨htail.1 hns, hr2.sd, hr2.lt⟩, ?_, by simp only; rw [hnslen, hnl]⟩
    rw [hspec]
    -- `a` is the last node: the renaming is the identity
    have haL : a = s2.nodes.length - 1 := by
      by_contra hne
      have hlt : a < s2.nodes.length - 1 := by omega
      rw [swapRemove_get s2.nodes a ha2 a] at hns
      simp [hlt] at hns
      omega
    symm
    apply eq_absG_of rfl rfl hnodesW.symm _ rfl
    intro i
    simp only [List.getElem?_map, absG_nodes_length, absG_edges_get, Option.map_map]
    cases s2.edges[i]? with
    | none => rfl
    | some ed =>
      simp only [Option.map_some, Option.some.injEq, Function.comp, absEdgeG]
      rw [← haL]
      congr 1
      · by_cases hq : ed.src = a <;> simp [hq]
      · by_cases hq : ed.tgt = a <;> simp [hq]
  | some moved =>
    obtain ⟨es1, es2, hren1, hren2, hinv, hes⟩ := htail.2 moved hns
    simp only [hren1, hren2]
    have hlinks : es2.map (fun e => (e.next0, e.next1)) = s2.edges.map (fun e => (e.next0, e.next1)) :=
      (renode_links _ _ _ _ hren2).trans (renode_links _ _ _ _ hren1)
    have hlen2 : es2.length = s2.edges.length := by simpa using congrArg List.length hlinks
    refine ⟨_, st2, by rw [hwt], ⟨hinv, sd_of_links hr2.sd hlinks, by simp only; rw [hlen2]; exact hr2.lt⟩, ?_,
      by simp only; rw [hnslen, hnl]⟩
    rw [hspec]
    symm
    apply eq_absG_of rfl rfl hnodesW.symm _ rfl
    intro i
    simp only [List.getElem?_map, absG_nodes_length, absG_edges_get, Option.map_map]
    have hc := congrArg (·[i]?) hes
    simp only [List.getElem?_map] at hc
    rw [hnslen] at hc
    cases h2 : s2.edges[i]? with
    | none =>
      rw [h2] at hc
      cases h3 : es2[i]? with
      | none => rfl
      | some x => rw [h3] at hc; simp at hc
    | some ed =>
      rw [h2] at hc
      cases h3 : es2[i]? with
      | none => rw [h3] at hc; simp at hc
      | some x =>
        rw [h3] at hc
        simp only [Option.map_some, Option.some.injEq, edgeEnds, renEnds, Prod.mk.injEq] at hc
        simp only [Option.map_some, Option.some.injEq, Function.comp, absEdgeG]
        rw [hc.1, hc.2.1, hc.2.2]
        try rfl

theorem removeNode_refines_absent {s : State} (st : Nat → Nat) (ck : Nat) {a : Nat} (ha : s.nodes.length ≤ a) :
    removeNode s a = .ok (s, none) ∧ CGS.removeNode (absG s st ck) a = absG s st ck := by
  constructor
  · simp [removeNode, List.getElem?_eq_none ha]
  · unfold CGS.removeNode
    rw [absG_nodes_length]
    simp [Nat.not_lt.mpr ha]

/-! ### `retain_nodes` -/

theorem absG_bumpNodeAt (s : State) (st : Nat → Nat) (ck : Nat) (bump : List Bool) (i : Nat) :
    absG (bumpNodeAt s bump i) st ck =
      (if CGS.bumpAt bump i then CGS.bumpNode (absG s st ck) i else absG s st ck) := by
  unfold bumpNodeAt
  have hb : bumpAt bump i = CGS.bumpAt bump i := rfl
  rw [hb]
  cases CGS.bumpAt bump i with
  | false => rfl
  | true =>
    simp only [if_true]
    unfold CGS.bumpNode
    rw [absG_nodes_get]
    cases hnd : s.nodes[i]? with
    | none => rfl
    | some nd =>
      simp only [Option.map_some]
      rw [absG_setNodeWeight st ck hnd]
      rfl

theorem retainNodes_refines (mask bump : List Bool) (ck : Nat) :
    ∀ (i : Nat) (s : State) (st : Nat → Nat), RInv s st ck → i ≤ s.nodes.length →
      ∃ s' st', retainNodes mask bump i s = .ok s' ∧ RInv s' st' ck ∧
        absG s' st' ck = CGS.retainNodes mask bump i (absG s st ck) := by
  intro i
  induction i with
  | zero => intro s st h _; exact ⟨s, st, rfl, h, rfl⟩
  | succ i ih =>
    intro s st h hi
    unfold retainNodes CGS.retainNodes
    simp only
    have hsl := sameLinks_bumpNodeAt s bump i
    have h1 : RInv (bumpNodeAt s bump i) st ck := rinv_of_sameLinks h hsl
    have hlen1 := hsl.nlen
    have habs1 := absG_bumpNodeAt s st ck bump i
    have hm : maskAt mask i = CGS.maskAt mask i := rfl
    rw [hm, ← habs1]
    cases CGS.maskAt mask i with
    | true =>
      simp only [if_true]
      exact ih _ st h1 (by omega)
    | false =>
      simp only [Bool.false_eq_true, if_false]
      have hlt : i < (bumpNodeAt s bump i).nodes.length := by omega
      obtain ⟨s'', st'', hs'', hr'', habs'', hlen''⟩ := removeNode_refines h1 (List.getElem?_eq_getElem hlt)
      rw [hs'']
      simp only
      rw [← habs'']
      exact ih s'' st'' hr'' (by omega)


end PetgraphModel.GProofs
