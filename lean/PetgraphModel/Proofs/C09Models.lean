import PetgraphModel.Model.C09Algo
import PetgraphModel.Proofs.C09Judge
/-
Correctness of C09 mirror models (`Model/C09Algo.lean`) for all views: `has_path_connecting`.
Uniqueness of the weak-component count.  Core Lean only.
-/
namespace PetgraphModel.C09P
open PetgraphModel PetgraphModel.MGraph PetgraphModel.Oracle PetgraphModel.C09J PetgraphModel.C09M
open PetgraphModel.Trav

/-- the encoding's neighbour iteration describes the abstract graph -/
def ViewOk (v : View) : Prop := ∀ a b, b ∈ v.succ a ↔ v.g.Adj a b

/-! ### `has_path_connecting` -/

/-- invariant of a `Dfs` started at `a` -/
structure DfsInv (g : MGraph) (a : Nat) (d : Dfs) : Prop where
  discReach : ∀ x ∈ d.disc, Reach g a x
  stReach : ∀ x ∈ d.stack, Reach g a x
  closed : ∀ x ∈ d.disc, ∀ y, g.Adj x y → y ∈ d.disc ∨ y ∈ d.stack
  start : a ∈ d.disc ∨ a ∈ d.stack

theorem dfsInv_exhausted {g : MGraph} {a : Nat} {d : Dfs} (inv : DfsInv g a d) (hs : d.stack = [])
    (y : Nat) (hy : Reach g a y) : y ∈ d.disc := by
  induction hy with
  | refl =>
    cases inv.start with
    | inl h => exact h
    | inr h => rw [hs] at h; cases h
  | step _ hadj ih =>
    cases inv.closed _ ih _ hadj with
    | inl h => exact h
    | inr h => rw [hs] at h; cases h

theorem dfsNext_spec (v : View) (hv : ViewOk v) (a : Nat) : ∀ (f : Nat) (d : Dfs) (r : Option Nat) (d' : Dfs),
    DfsInv v.g a d → dfsNext v f d = some (r, d') →
    DfsInv v.g a d' ∧
    (r = none → d'.stack = [] ∧ d'.disc = d.disc) ∧
    (∀ x, r = some x → x ∉ d.disc ∧ Reach v.g a x ∧ d'.disc = x :: d.disc) := by
  intro f
  induction f with
  | zero => intro d r d' _ h; simp [dfsNext] at h
  | succ f ih =>
    intro d r d' inv h
    unfold dfsNext at h
    split at h
    · rename_i hst
      simp at h
      obtain ⟨hr, hd⟩ := h
      subst hr; subst hd
      exact ⟨inv, fun _ => ⟨hst, rfl⟩, fun x hx => by cases hx⟩
    · rename_i x st hst
      split at h
      · rename_i hx
        have inv' : DfsInv v.g a { d with stack := st } := by
          refine ⟨inv.discReach, fun y hy => inv.stReach y (by rw [hst]; exact List.mem_cons_of_mem _ hy), ?_, ?_⟩
          · intro z hz y hy
            cases inv.closed z hz y hy with
            | inl h => exact Or.inl h
            | inr h =>
              rw [hst] at h
              cases List.mem_cons.mp h with
              | inl h => exact Or.inl (h ▸ hx)
              | inr h => exact Or.inr h
          · cases inv.start with
            | inl h => exact Or.inl h
            | inr h =>
              rw [hst] at h
              cases List.mem_cons.mp h with
              | inl h => exact Or.inl (h ▸ hx)
              | inr h => exact Or.inr h
        exact ih { d with stack := st } r d' inv' h
      · rename_i hx
        simp at h
        obtain ⟨hr, hd⟩ := h
        subst hr; subst hd
        have hxr : Reach v.g a x := inv.stReach x (by rw [hst]; exact List.mem_cons_self ..)
        refine ⟨⟨?_, ?_, ?_, ?_⟩, (fun h => by cases h), fun y hy => ?_⟩
        · intro y hy
          cases List.mem_cons.mp hy with
          | inl h => exact h ▸ hxr
          | inr h => exact inv.discReach y h
        · intro y hy
          simp only at hy
          cases List.mem_append.mp hy with
          | inl h =>
            have h' := (List.mem_filter.mp (List.mem_reverse.mp h)).1
            exact Reach.step hxr ((hv x y).mp h')
          | inr h => exact inv.stReach y (by rw [hst]; exact List.mem_cons_of_mem _ h)
        · intro z hz y hy
          simp only at hz ⊢
          by_cases hyd : y ∈ x :: d.disc
          · exact Or.inl hyd
          · right
            cases List.mem_cons.mp hz with
            | inl hzx =>
              subst hzx
              apply List.mem_append_left
              apply List.mem_reverse.mpr
              apply List.mem_filter.mpr
              refine ⟨(hv z y).mpr hy, ?_⟩
              simpa using hyd
            | inr hzd =>
              cases inv.closed z hzd y hy with
              | inl h => exact absurd (List.mem_cons_of_mem _ h) hyd
              | inr h =>
                rw [hst] at h
                cases List.mem_cons.mp h with
                | inl h => exact absurd (h ▸ List.mem_cons_self ..) hyd
                | inr h => exact List.mem_append_right _ h
        · simp only
          cases inv.start with
          | inl h => exact Or.inl (List.mem_cons_of_mem _ h)
          | inr h =>
            rw [hst] at h
            cases List.mem_cons.mp h with
            | inl h => exact Or.inl (h ▸ List.mem_cons_self ..)
            | inr h => exact Or.inr (List.mem_append_right _ h)
        · have : y = x := by simpa using hy.symm
          subst this
          exact ⟨hx, hxr, rfl⟩

theorem hasPathLoop_spec (v : View) (hv : ViewOk v) (a to f : Nat) : ∀ (k : Nat) (d : Dfs) (r : Bool),
    DfsInv v.g a d → to ∉ d.disc → hasPathLoop v f to k d = some r → (r = true ↔ Reach v.g a to) := by
  intro k
  induction k with
  | zero => intro d r _ _ h; simp [hasPathLoop] at h
  | succ k ih =>
    intro d r inv hto h
    unfold hasPathLoop at h
    cases hn : dfsNext v f d with
    | none => simp [hn] at h
    | some p =>
      obtain ⟨o, d'⟩ := p
      obtain ⟨inv', hnone, hsome⟩ := dfsNext_spec v hv a f d o d' inv hn
      cases o with
      | none =>
        simp [hn] at h
        obtain ⟨hs, hd⟩ := hnone rfl
        subst h
        constructor
        · intro h; cases h
        · intro hr
          have := dfsInv_exhausted inv' hs to hr
          rw [hd] at this
          exact absurd this hto
      | some x =>
        simp only [hn] at h
        obtain ⟨hx, hxr, hd⟩ := hsome x rfl
        split at h
        · rename_i hxt
          simp at h; subst h; subst hxt
          exact ⟨fun _ => hxr, fun _ => rfl⟩
        · rename_i hxt
          apply ih d' r inv' _ h
          rw [hd]
          intro hmem
          cases List.mem_cons.mp hmem with
          | inl h => exact hxt h.symm
          | inr h => exact hto h

/-- **`has_path_connecting` is reachability** (mirror model, every view whose neighbour iteration
describes the graph, any fuel): whenever the model answers, the answer is `true` exactly when `b` is
reachable from `a`.  The real function resets the workspace first, so a reused (dirty) `DfsSpace`
starts from the same state. -/
theorem hasPath_spec (v : View) (hv : ViewOk v) (a b : Nat) (r : Bool) (h : hasPath v a b = some r) :
    r = true ↔ Reach v.g a b := by
  unfold hasPath at h
  refine hasPathLoop_spec v hv a b _ _ _ r ?_ (by simp [Dfs.moveTo]) h
  refine ⟨by simp [Dfs.moveTo], ?_, by simp [Dfs.moveTo], Or.inr (by simp [Dfs.moveTo])⟩
  intro x hx
  have : x = a := by simpa [Dfs.moveTo] using hx
  exact this ▸ Reach.refl _

/-! ### the weak-component count is unique -/

theorem adj_undirect_symm {g : MGraph} {a b : Nat} (h : g.undirect.Adj a b) : g.undirect.Adj b a := by
  obtain ⟨e, he, hc⟩ := h
  refine ⟨e, he, ?_⟩
  rcases hc with ⟨h1, h2⟩ | ⟨_, h1, h2⟩
  · exact Or.inr ⟨rfl, h1, h2⟩
  · exact Or.inl ⟨h1, h2⟩

theorem reach_undirect_symm {g : MGraph} {a b : Nat} (h : Reach g.undirect a b) : Reach g.undirect b a := by
  induction h with
  | refl => exact Reach.refl _
  | step _ hadj ih => exact reach_trans (reach_of_adj (adj_undirect_symm hadj)) ih

theorem length_le_of_inj_rel {R : Nat → Nat → Prop} : ∀ (l l' : List Nat), l.Nodup →
    (∀ a ∈ l, ∃ b ∈ l', R a b) → (∀ a1 ∈ l, ∀ a2 ∈ l, ∀ b, R a1 b → R a2 b → a1 = a2) →
    l.length ≤ l'.length := by
  intro l
  induction l with
  | nil => intro l' _ _ _; simp
  | cons a t ih =>
    intro l' hnd hex hinj
    obtain ⟨b, hb, hab⟩ := hex a (List.mem_cons_self ..)
    have hnd' := List.nodup_cons.mp hnd
    have := ih (l'.erase b) hnd'.2
      (by
        intro a2 ha2
        obtain ⟨b2, hb2, hab2⟩ := hex a2 (List.mem_cons_of_mem _ ha2)
        have hne : b2 ≠ b := by
          intro hbb
          subst hbb
          have := hinj a (List.mem_cons_self ..) a2 (List.mem_cons_of_mem _ ha2) b2 hab hab2
          exact hnd'.1 (this ▸ ha2)
        exact ⟨b2, (List.mem_erase_of_ne hne).mpr hb2, hab2⟩)
      (fun a1 h1 a2 h2 => hinj a1 (List.mem_cons_of_mem _ h1) a2 (List.mem_cons_of_mem _ h2))
    rw [List.length_erase_of_mem hb] at this
    have hpos : 0 < l'.length := List.length_pos_of_mem hb
    simp only [List.length_cons]
    omega

theorem pairwise_forall_ne {R : Nat → Nat → Prop} (hsymm : ∀ a b, R a b → R b a) : ∀ (l : List Nat),
    l.Pairwise R → ∀ x ∈ l, ∀ y ∈ l, x ≠ y → R x y := by
  intro l
  induction l with
  | nil => intro _ x hx; cases hx
  | cons a t ih =>
    intro hp x hx y hy hne
    have hp' := List.pairwise_cons.mp hp
    cases List.mem_cons.mp hx with
    | inl hxa =>
      cases List.mem_cons.mp hy with
      | inl hya => exact absurd (hxa.trans hya.symm) hne
      | inr hyt => exact hxa ▸ hp'.1 y hyt
    | inr hxt =>
      cases List.mem_cons.mp hy with
      | inl hya => exact hsymm _ _ (hya ▸ hp'.1 x hxt)
      | inr hyt => exact ih hp'.2 x hxt y hyt hne

theorem wccCount_le {g : MGraph} {k k' : Nat} (h : IsWccCount g k) (h' : IsWccCount g k') : k ≤ k' := by
  obtain ⟨reps, hl, hn, _, hp⟩ := h
  obtain ⟨reps', hl', _, hc', _⟩ := h'
  rw [← hl, ← hl']
  have hnd : reps.Nodup := by
    apply List.Pairwise.imp _ hp
    intro a b hab heq
    exact hab (heq ▸ Reach.refl _)
  apply length_le_of_inj_rel (R := fun r r' => Reach g.undirect r' r) reps reps' hnd
  · intro r hr
    exact hc' r (hn r hr)
  · intro r1 h1 r2 h2 b hb1 hb2
    by_cases hne : r1 = r2
    · exact hne
    · exfalso
      have := pairwise_forall_ne (R := fun a b => ¬ Reach g.undirect a b)
        (fun a b hab hba => hab (reach_undirect_symm hba)) reps hp r1 h1 r2 h2 hne
      exact this (reach_trans (reach_undirect_symm hb1) hb2)

/-- the number of weakly connected components is well defined -/
theorem wccCount_unique {g : MGraph} {k k' : Nat} (h : IsWccCount g k) (h' : IsWccCount g k') : k = k' :=
  Nat.le_antisymm (wccCount_le h h') (wccCount_le h' h)

end PetgraphModel.C09P
