import PetgraphModel.Proofs.C20Base
import PetgraphModel.Model.C20
/-
C20 (wave 2) — `dag_to_toposorted_adjacency_list` renumbers the graph by the toposort handed in:
one row per node, every row ascending, and row `i` lists `x` once per edge from the `i`-th to the
`x`-th node of the toposort.
-/
namespace PetgraphModel.C20.Tred
open PetgraphModel PetgraphModel.MGraph

/-! ### `sameSet` (equal after sorting) gives a permutation -/

theorem span_loop_append (p : Nat → Bool) : ∀ (l acc : List Nat),
    (List.span.loop p l acc).1 ++ (List.span.loop p l acc).2 = acc.reverse ++ l := by
  intro l
  induction l with
  | nil => intro acc; simp [List.span.loop]
  | cons a t ih =>
    intro acc
    unfold List.span.loop
    split
    · rw [ih]; simp
    · simp

theorem span_append (p : Nat → Bool) (l : List Nat) : (l.span p).1 ++ (l.span p).2 = l := by
  have := span_loop_append p l []
  simpa [List.span] using this

theorem sortNats_foldl_perm : ∀ (l acc : List Nat),
    (l.foldl (fun acc x => let (a, b) := acc.span (· ≤ x); a ++ x :: b) acc).Perm (acc ++ l) := by
  intro l
  induction l with
  | nil => intro acc; simp
  | cons x t ih =>
    intro acc
    simp only [List.foldl_cons]
    refine (ih _).trans ?_
    have h1 : ((acc.span (· ≤ x)).1 ++ x :: (acc.span (· ≤ x)).2).Perm (acc ++ [x]) := by
      refine List.perm_middle.trans ?_
      rw [span_append]
      exact (List.perm_append_singleton x acc).symm
    have : (acc ++ x :: t) = (acc ++ [x]) ++ t := by simp
    rw [this]
    exact List.Perm.append_right t h1

theorem sortNats_perm (l : List Nat) : (sortNats l).Perm l := by
  have := sortNats_foldl_perm l []
  simpa [sortNats] using this

theorem sameSet_perm {a b : List Nat} (h : sameSet a b = true) : a.Perm b := by
  have : sortNats a = sortNats b := by simpa [sameSet] using h
  exact (sortNats_perm a).symm.trans (this ▸ sortNats_perm b)

/-! ### rows -/

theorem getD_set (rows : List (List Nat)) (i j : Nat) (v : List Nat) :
    (rows.set i v).getD j [] = if i = j ∧ i < rows.length then v else rows.getD j [] := by
  simp only [List.getD_eq_getElem?_getD, List.getElem?_set]
  by_cases h : i = j
  · subst h
    by_cases h2 : i < rows.length
    · simp [h2]
    · simp [h2]
  · simp [h]

/-- pushing `x` to the rows `h p` (`p ∈ ps`): row `i` grows by one `x` per `p` with `h p = i` -/
theorem foldl_pushRow (h : Nat → Nat) (x : Nat) : ∀ (ps : List Nat) (rows : List (List Nat)),
    (∀ p ∈ ps, h p < rows.length) →
    (ps.foldl (fun res p => pushRow res (h p) x) rows).length = rows.length ∧
    ∀ i, (ps.foldl (fun res p => pushRow res (h p) x) rows).getD i [] =
      rows.getD i [] ++ List.replicate (ps.filter fun p => h p = i).length x := by
  intro ps
  induction ps with
  | nil => intro rows _; simp
  | cons p t ih =>
    intro rows hlt
    simp only [List.foldl_cons]
    have hlen : (pushRow rows (h p) x).length = rows.length := by simp [pushRow]
    have := ih (pushRow rows (h p) x) (fun q hq => by rw [hlen]; exact hlt q (List.mem_cons_of_mem _ hq))
    refine ⟨this.1.trans hlen, fun i => ?_⟩
    rw [this.2 i]
    unfold pushRow
    rw [getD_set]
    have hp := hlt p (by simp)
    by_cases hi : h p = i
    · simp only [hi, List.filter_cons, decide_true, if_true, List.length_cons]
      rw [if_pos ⟨trivial, hi ▸ hp⟩]
      simp [List.replicate_succ]
    · rw [if_neg (fun hh => hi hh.1)]
      simp [hi]

theorem foldl_congr_mem {α β : Type} (f g : β → α → β) : ∀ (l : List α) (b : β),
    (∀ b, ∀ a ∈ l, f b a = g b a) → l.foldl f b = l.foldl g b := by
  intro l
  induction l with
  | nil => intro b _; rfl
  | cons a t ih =>
    intro b hfg
    simp only [List.foldl_cons]
    rw [hfg b a (by simp)]
    exact ih _ (fun b a ha => hfg b a (List.mem_cons_of_mem _ ha))

theorem ascending_append_replicate : ∀ (l : List Nat) (n k : Nat), ascending l = true → (∀ x ∈ l, x ≤ k) →
    ascending (l ++ List.replicate n k) = true := by
  intro l
  induction l with
  | nil =>
    intro n k _ _
    induction n with
    | zero => rfl
    | succ n ih =>
      cases n with
      | zero => rfl
      | succ m =>
        simp only [List.nil_append, List.replicate_succ, ascending, Nat.le_refl, decide_true, Bool.true_and] at ih ⊢
        exact ih
  | cons a t ih =>
    intro n k hasc hle
    cases t with
    | nil =>
      cases n with
      | zero => rfl
      | succ m =>
        have h0 := ih (m + 1) k rfl (by simp)
        simp only [List.nil_append, List.replicate_succ] at h0
        simp only [List.cons_append, List.nil_append, List.replicate_succ, ascending, Bool.and_eq_true,
          decide_eq_true_eq]
        exact ⟨hle a (by simp), h0⟩
    | cons b t' =>
      simp only [ascending, Bool.and_eq_true, decide_eq_true_eq] at hasc
      have h0 := ih n k hasc.2 (fun x hx => hle x (List.mem_cons_of_mem _ hx))
      simp only [List.cons_append, ascending, Bool.and_eq_true, decide_eq_true_eq]
      exact ⟨hasc.1, by simpa using h0⟩

/-- one iteration of the outer loop -/
def tstep (pred : Nat → List Nat) (st : List (List Nat) × List Nat × Nat) (old : Nat) :
    List (List Nat) × List Nat × Nat :=
  ((pred old).foldl (fun res p => pushRow res ((st.2.1.set old st.2.2).getD p 0) st.2.2) (st.1 ++ [[]]),
    st.2.1.set old st.2.2, st.2.2 + 1)

theorem toposorted_eq (pred : Nat → List Nat) (bound : Nat) (topo : List Nat) :
    toposorted pred id bound topo =
      ((topo.foldl (tstep pred) ([], List.replicate bound 0, 0)).1,
       (topo.foldl (tstep pred) ([], List.replicate bound 0, 0)).2.1) := rfl

/-- number of `x`s the finished row `i` must hold -/
def cnt (pred : Nat → List Nat) (topo : List Nat) (i x : Nat) : Nat :=
  ((pred (topo.getD x 0)).filter fun p => topo.idxOf p = i).length

structure TInv (pred : Nat → List Nat) (bound : Nat) (topo : List Nat) (k : Nat)
    (st : List (List Nat) × List Nat × Nat) : Prop where
  ix : st.2.2 = k
  len : st.1.length = k
  rlen : st.2.1.length = bound
  rev : ∀ j (h : j < topo.length), j < k → st.2.1.getD topo[j] 0 = j
  small : ∀ i, ∀ x ∈ st.1.getD i [], x < k
  asc : ∀ i, ascending (st.1.getD i []) = true
  count : ∀ i x, (st.1.getD i []).count x = if x < k then cnt pred topo i x else 0

theorem getD_append_nil (rows : List (List Nat)) (i : Nat) : (rows ++ [[]]).getD i [] = rows.getD i [] := by
  simp only [List.getD_eq_getElem?_getD]
  by_cases h : i < rows.length
  · rw [List.getElem?_append_left h]
  · rw [List.getElem?_append_right (by omega)]
    have : rows[i]? = none := List.getElem?_eq_none (by omega)
    rw [this]
    cases hj : i - rows.length with
    | zero => simp
    | succ n => simp

theorem tstep_inv (pred : Nat → List Nat) (bound : Nat) (topo : List Nat) (hnd : topo.Nodup)
    (hb : ∀ x ∈ topo, x < bound)
    (hp : ∀ old ∈ topo, ∀ p ∈ pred old, topo.idxOf p < topo.idxOf old)
    (k : Nat) (hk : k < topo.length) (st : List (List Nat) × List Nat × Nat)
    (h : TInv pred bound topo k st) : TInv pred bound topo (k + 1) (tstep pred st topo[k]) := by
  obtain ⟨h1, h2, h3, h4, h5, h6, h7⟩ := h
  have hold : topo[k] ∈ topo := List.getElem_mem hk
  have hidx : topo.idxOf topo[k] = k := hnd.idxOf_getElem k hk
  -- the revmap look-ups of the predecessors are their ranks
  have hlook : ∀ p ∈ pred topo[k], (st.2.1.set topo[k] st.2.2).getD p 0 = topo.idxOf p := by
    intro p hpm
    have hlt := hp _ hold p hpm
    rw [hidx] at hlt
    have hpl : topo.idxOf p < topo.length := by omega
    have hpe : topo[topo.idxOf p] = p := List.getElem_idxOf hpl
    have hne : topo[k] ≠ p := by
      intro e
      rw [← e, hidx] at hlt
      omega
    have := h4 (topo.idxOf p) hpl hlt
    rw [hpe] at this
    rw [List.getD_eq_getElem?_getD, List.getElem?_set, if_neg hne, ← List.getD_eq_getElem?_getD]
    exact this
  have hfold : (pred topo[k]).foldl (fun res p => pushRow res ((st.2.1.set topo[k] st.2.2).getD p 0) st.2.2) (st.1 ++ [[]]) =
      (pred topo[k]).foldl (fun res p => pushRow res (topo.idxOf p) k) (st.1 ++ [[]]) := by
    apply foldl_congr_mem
    intro b a ha
    rw [hlook a ha, h1]
  have hrows := foldl_pushRow (fun p => topo.idxOf p) k (pred topo[k]) (st.1 ++ [[]]) (by
    intro p hpm
    have hlt := hp _ hold p hpm
    rw [hidx] at hlt
    simp only [List.length_append, List.length_cons, List.length_nil]
    omega)
  have hrow : ∀ i, (tstep pred st topo[k]).1.getD i [] =
      st.1.getD i [] ++ List.replicate (cnt pred topo i k) k := by
    intro i
    simp only [tstep]
    rw [hfold, hrows.2 i, getD_append_nil]
    have hget : topo.getD k 0 = topo[k] := by simp [List.getD_eq_getElem?_getD, hk]
    simp only [cnt, hget]
  refine ⟨by simp [tstep, h1], ?_, by simp [tstep, h3], ?_, ?_, ?_, ?_⟩
  · simp only [tstep]
    rw [hfold, hrows.1]
    simp [h2]
  · intro j hj hjk
    simp only [tstep]
    rw [List.getD_eq_getElem?_getD, List.getElem?_set]
    by_cases hjk' : j = k
    · subst hjk'
      have : topo[j] < st.2.1.length := by rw [h3]; exact hb _ hold
      simp [this, h1]
    · have hne : topo[k] ≠ topo[j] := by
        intro e
        have := hnd.idxOf_getElem j hj
        rw [← e, hidx] at this
        exact hjk' this.symm
      rw [if_neg hne, ← List.getD_eq_getElem?_getD]
      exact h4 j hj (by omega)
  · intro i x hx
    rw [hrow i] at hx
    cases List.mem_append.mp hx with
    | inl e => have := h5 i x e; omega
    | inr e => have := (List.mem_replicate.mp e).2; omega
  · intro i
    rw [hrow i]
    exact ascending_append_replicate _ _ _ (h6 i) (fun x hx => by have := h5 i x hx; omega)
  · intro i x
    rw [hrow i, List.count_append, List.count_replicate, h7 i x]
    by_cases hxk : x < k
    · have : ¬ k = x := by omega
      simp [hxk, this, show x < k + 1 by omega]
    · by_cases hxe : k = x
      · subst hxe; simp
      · have : ¬ x < k + 1 := by omega
        simp [hxk, hxe, this]

theorem foldl_take_succ {β : Type} (f : β → Nat → β) (b : β) (l : List Nat) (k : Nat) (hk : k < l.length) :
    (l.take (k + 1)).foldl f b = f ((l.take k).foldl f b) l[k] := by
  rw [List.take_succ_eq_append_getElem hk, List.foldl_append]
  rfl

theorem tinv_prefix (pred : Nat → List Nat) (bound : Nat) (topo : List Nat) (hnd : topo.Nodup)
    (hb : ∀ x ∈ topo, x < bound)
    (hp : ∀ old ∈ topo, ∀ p ∈ pred old, topo.idxOf p < topo.idxOf old) :
    ∀ k, k ≤ topo.length →
      TInv pred bound topo k ((topo.take k).foldl (tstep pred) ([], List.replicate bound 0, 0)) := by
  intro k
  induction k with
  | zero =>
    intro _
    refine ⟨rfl, rfl, by simp, fun j _ hj => by omega, ?_, ?_, ?_⟩
    · intro i x hx; simp at hx
    · intro i; simp [ascending]
    · intro i x; simp
  | succ k ih =>
    intro hk
    rw [foldl_take_succ _ _ _ _ (by omega)]
    exact tstep_inv pred bound topo hnd hb hp k (by omega) _ (ih (by omega))

/-- the abstract result: for ANY predecessor function whose values come earlier in the toposort -/
theorem toposorted_rows (pred : Nat → List Nat) (bound : Nat) (topo : List Nat) (hnd : topo.Nodup)
    (hb : ∀ x ∈ topo, x < bound)
    (hp : ∀ old ∈ topo, ∀ p ∈ pred old, topo.idxOf p < topo.idxOf old) :
    let rows := (toposorted pred id bound topo).1
    rows.length = topo.length ∧ (∀ i, ascending (rows.getD i []) = true) ∧
    ∀ i x, (rows.getD i []).count x = if x < topo.length then cnt pred topo i x else 0 := by
  have := tinv_prefix pred bound topo hnd hb hp topo.length (Nat.le_refl _)
  rw [List.take_length] at this
  intro rows
  exact ⟨this.len, this.asc, this.count⟩

/-! ### back to the edges of the graph -/

theorem pred_filter_length (g : MGraph) (hd : g.directed = true) (a : Nat) (q : Nat → Bool) :
    ((g.pred a).filter q).length = (g.edges.filter fun e => e.tgt = a ∧ q e.src = true).length := by
  unfold MGraph.pred
  induction g.edges with
  | nil => rfl
  | cons e t ih =>
    simp only [List.filterMap_cons, hd, Bool.true_eq_false, false_and, if_false]
    by_cases h : e.tgt = a
    · simp only [h, if_true, List.filter_cons, true_and]
      by_cases hq : q e.src = true
      · simp only [hq, if_true, decide_true, List.length_cons]
        simp only [hd, Bool.true_eq_false, false_and, if_false] at ih
        rw [ih]
      · simp only [hq, Bool.false_eq_true, if_false, decide_false]
        simp only [hd, Bool.true_eq_false, false_and, if_false] at ih
        rw [ih]
    · simp only [h, if_false, List.filter_cons, false_and, decide_false, Bool.false_eq_true]
      simp only [hd, Bool.true_eq_false, false_and, if_false] at ih
      rw [ih]

theorem mem_pred_directed {g : MGraph} (hd : g.directed = true) {a p : Nat} (h : p ∈ g.pred a) :
    ∃ e ∈ g.edges, e.tgt = a ∧ e.src = p := by
  unfold MGraph.pred at h
  obtain ⟨e, he, hh⟩ := List.mem_filterMap.mp h
  refine ⟨e, he, ?_⟩
  by_cases h1 : e.tgt = a
  · simp [h1] at hh; exact ⟨h1, hh⟩
  · simp [h1, hd] at hh

/-- **`dag_to_toposorted_adjacency_list` is the input graph renumbered by the toposort** (every edge
ends at a listed node): one row per node, rows ascending, row `i` holds `x` once per edge from the
`i`-th to the `x`-th node. -/
theorem toposorted_correct (v : View) (topo : List Nat) (hd : v.g.directed = true) (hnd : topo.Nodup)
    (hmem : ∀ x, x ∈ topo ↔ x ∈ v.g.nodes)
    (hpred : ∀ a, sameSet (v.pred a) (v.g.pred a) = true)
    (hfwd : ∀ e ∈ v.g.edges, topo.idxOf e.src < topo.idxOf e.tgt)
    (hsmall : ∀ x ∈ v.g.nodes, x < v.g.nodes.length)
    (htgt : ∀ e ∈ v.g.edges, e.tgt ∈ v.g.nodes) :
    let rows := (toposorted v.pred id v.g.nodes.length topo).1
    rows.length = topo.length ∧ (∀ i, ascending (rows.getD i []) = true) ∧
    ∀ i x, (rows.getD i []).count x =
      (v.g.edges.filter fun e => topo.idxOf e.src = i ∧ topo.idxOf e.tgt = x).length := by
  have hperm : ∀ a, (v.pred a).Perm (v.g.pred a) := fun a => sameSet_perm (hpred a)
  have hp : ∀ old ∈ topo, ∀ p ∈ v.pred old, topo.idxOf p < topo.idxOf old := by
    intro old _ p hpm
    obtain ⟨e, he, h1, h2⟩ := mem_pred_directed hd ((hperm old).subset hpm)
    rw [← h1, ← h2]
    exact hfwd e he
  have := toposorted_rows v.pred v.g.nodes.length topo hnd (fun x hx => hsmall x ((hmem x).mp hx)) hp
  intro rows
  refine ⟨this.1, this.2.1, fun i x => ?_⟩
  rw [this.2.2 i x]
  by_cases hx : x < topo.length
  · rw [if_pos hx]
    unfold cnt
    rw [((hperm _).filter _).length_eq, pred_filter_length v.g hd]
    have hget : topo.getD x 0 = topo[x] := by simp [List.getD_eq_getElem?_getD, hx]
    rw [hget]
    congr 1
    apply List.filter_congr
    intro e he
    have htl : topo.idxOf e.tgt < topo.length :=
      List.idxOf_lt_length_iff.mpr ((hmem _).mpr (htgt e he))
    have : (e.tgt = topo[x]) ↔ (topo.idxOf e.tgt = x) := by
      constructor
      · intro h; rw [h]; exact hnd.idxOf_getElem x hx
      · intro h
        have := List.getElem_idxOf htl
        simp only [h] at this
        exact this.symm
    simp only [decide_eq_true_eq]
    rw [Bool.eq_iff_iff]
    simp only [decide_eq_true_eq]
    rw [this]
    exact And.comm
  · rw [if_neg hx]
    symm
    rw [List.length_eq_zero_iff, List.filter_eq_nil_iff]
    intro e he
    have htl : topo.idxOf e.tgt < topo.length :=
      List.idxOf_lt_length_iff.mpr ((hmem _).mpr (htgt e he))
    simp only [decide_eq_true_eq]
    omega

end PetgraphModel.C20.Tred
