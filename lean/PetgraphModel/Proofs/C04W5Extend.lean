import PetgraphModel.Proofs.MatrixGraph
import PetgraphModel.Extracted.Matrix
/-
C04 wave 5, goal 3 — `extend_with_edges`, `from_edges`, the growth policy (`with_capacity`,
`extend_capacity_for_node`, `usize::next_power_of_two`) and exact capacities.
-/
namespace PetgraphModel.MatrixProofs
open PetgraphModel.Matrix PetgraphModel.MatrixSpec

/-! ### `next_power_of_two` is the *least* power of two that is large enough -/

theorem half_lt_nextPow2Aux (n : Nat) : ∀ (f p : Nat), (p = 1 ∨ p / 2 < n) →
    (nextPow2Aux n f p = 1 ∨ nextPow2Aux n f p / 2 < n) := by
  intro f
  induction f with
  | zero => intro p h; simpa [nextPow2Aux] using h
  | succ f ih =>
    intro p h
    unfold nextPow2Aux
    by_cases hp : n ≤ p
    · rw [if_pos hp]; exact h
    · rw [if_neg hp]
      apply ih
      right; omega

theorem nextPow2_min (n m : Nat) (h : n ≤ 2 ^ m) : nextPow2 n ≤ 2 ^ m := by
  obtain ⟨k, hk⟩ := isPow2_nextPow2 n
  have hh := half_lt_nextPow2Aux n n 1 (Or.inl rfl)
  change nextPow2 n = 1 ∨ nextPow2 n / 2 < n at hh
  rw [hk] at hh ⊢
  rcases hh with h1 | h1
  · rw [h1]; exact Nat.one_le_two_pow
  · cases k with
    | zero => exact Nat.one_le_two_pow
    | succ k =>
      rw [Nat.pow_succ, Nat.mul_div_cancel _ (by omega : 0 < 2)] at h1
      have : 2 ^ k < 2 ^ m := by omega
      have hkm : k < m := (Nat.pow_lt_pow_iff_right (by omega : 1 < 2)).1 this
      exact Nat.pow_le_pow_right (by omega) hkm

/-! ### exact capacities -/

/-- capacity `extend_capacity_for_edge(a, b)` leaves behind: unchanged if both ids are below it;
otherwise the directed (square) layout grows by the *extracted* rule
`max((max(a, b) + 1).next_power_of_two(), MIN_CAPACITY)`, the undirected (triangular) layout to exactly
`max(a, b) + 1` (`extend_lower_triangular_matrix` has no growth rule) -/
def capFor (dir : Bool) (cap a b : Nat) : Nat :=
  if max a b < cap then cap
  else if dir then Extracted.Matrix.grow nextPow2 (max a b + 1) else max a b + 1

theorem extendForEdge_cap {s : State} (h : Inv s) (a b : Nat) :
    ∃ s1, extendForEdge s a b = .ok s1 ∧ s1.cap = capFor s.dir s.cap a b := by
  obtain ⟨s1, e, _⟩ := extendForEdge_spec h a b
  refine ⟨s1, e, ?_⟩
  unfold extendForEdge at e
  unfold capFor
  by_cases hm : max a b ≥ s.cap
  · rw [if_neg (by omega)]
    simp only [hm, if_true] at e
    unfold extendLin at e
    rw [if_neg (by omega)] at e
    cases hd : s.dir
    · rw [hd] at e
      simp only [Bool.false_eq_true, if_false, extendTri] at e
      injection e with e
      rw [← e]
      simp
    · rw [hd] at e
      simp only [if_true] at e
      unfold extendFlat at e
      simp only [Bool.false_eq_true, if_false] at e
      generalize relocRows _ _ _ _ = rr at e
      cases rr with
      | error f => cases e
      | ok a' =>
        simp only at e
        injection e with e
        rw [← e]; rfl
  · rw [if_pos (by omega)]
    simp only [hm, if_false] at e
    injection e with e
    rw [← e]

/-- `with_capacity(k)` allocates for exactly `k` nodes in both layouts (`exact = true`: no growth rule) -/
theorem withCapacity_cap (dir nz : Bool) (ixMax k : Nat) :
    ∃ s, withCapacity dir nz ixMax k = .ok s ∧ s.cap = k ∧ s.adj.size = adjSize dir k := by
  obtain ⟨s, e, hi, _, hd, _, _, hk⟩ := withCapacity_spec dir nz ixMax k
  refine ⟨s, e, ?_⟩
  have hc : s.cap = k := by
    unfold withCapacity at e
    by_cases hk0 : k > 0
    · rw [if_pos hk0] at e
      dsimp only at e
      unfold extendLin at e
      rw [if_neg (by omega)] at e
      cases dir
      · simp only [Bool.false_eq_true, if_false, extendTri] at e
        injection e with e
        rw [← e]; simp only; omega
      · simp only [if_true] at e
        unfold extendFlat at e
        simp only [if_true] at e
        generalize relocRows _ _ _ _ = rr at e
        cases rr with
        | error f => cases e
        | ok a' =>
          simp only at e
          injection e with e
          rw [← e]; simp only; omega
    · rw [if_neg hk0] at e
      injection e with e
      rw [← e]; simp only; omega
  exact ⟨hc, by rw [hi.size, hd, hc]⟩

/-! ### calls that do not touch the node storage -/

/-- what an edge call leaves alone -/
def Frame (s s' : State) : Prop :=
  s'.nodes = s.nodes ∧ s'.dir = s.dir ∧ s'.nz = s.nz ∧ s'.ixMax = s.ixMax

theorem extendForEdge_frame {s s1 : State} {a b : Nat} (e : extendForEdge s a b = .ok s1) :
    Frame s s1 := by
  unfold extendForEdge at e
  dsimp only at e
  split at e
  · split at e
    · injection e with e; rw [← e]; exact ⟨rfl, rfl, rfl, rfl⟩
    · cases e
  · injection e with e; rw [← e]; exact ⟨rfl, rfl, rfl, rfl⟩

theorem updateEdge_frame (s : State) (a b : Nat) (w : Int) : Frame s (updateEdge s a b w).1 := by
  unfold updateEdge
  cases e : extendForEdge s a b with
  | error f => exact ⟨rfl, rfl, rfl, rfl⟩
  | ok s1 =>
    have := extendForEdge_frame e
    simp only
    split
    · exact this
    · split
      · exact this
      · exact this

theorem addEdge_frame (s : State) (a b : Nat) (w : Int) : Frame s (addEdge s a b w).1 := by
  have := updateEdge_frame s a b w
  unfold addEdge
  split
  · rename_i s' heq; rw [heq] at this; exact this
  · rename_i s' _ heq; rw [heq] at this; exact this
  · exact this

/-! ### `add_node` on a graph without vacancies -/

/-- no vacancy: `node_bound() = node_count()`, the live ids are `0..n` -/
theorem live_iff_lt_of_noVacancy {s : State} {g : G} (h : Inv s) (r : R s g) (hrem : s.nodes.removed = [])
    (x : Nat) : g.live x = true ↔ x < g.nodeCount := by
  rw [live_eq r, h.ids.live, hrem, r.ncount]
  unfold IdStorage.len
  rw [hrem]
  simp

theorem addNode_noVacancy {s : State} {g : G} (h : Inv s) (r : R s g) (hrem : s.nodes.removed = [])
    (w : Int) (hroom : g.nodeCount ≠ s.ixMax) :
    ∃ s', addNode s w = (s', .id g.nodeCount) ∧ Inv s' ∧ R s' (g.addNode g.nodeCount w) ∧
      s'.nodes.removed = [] ∧ s'.dir = s.dir ∧ s'.nz = s.nz ∧ s'.ixMax = s.ixMax := by
  obtain ⟨s', id, e, _, hi, hr⟩ := (addNode_spec h r w).2 hroom
  have hlen : s.nodes.len = s.nodes.upperBound := by unfold IdStorage.len; rw [hrem]; rfl
  have hlt : s.nodes.upperBound < s.ixMax + 1 := by have := h.ubIx; omega
  have hnc : g.nodeCount = s.nodes.upperBound := by rw [r.ncount, hlen]
  have e' := e
  unfold addNode tryAddNode at e'
  rw [hlen, Nat.mod_eq_of_lt hlt, if_neg (by rw [← hnc]; exact hroom)] at e'
  unfold IdStorage.add at e'
  rw [hrem] at e'
  simp only [Nat.mod_eq_of_lt hlt, Prod.mk.injEq, Out.id.injEq] at e'
  obtain ⟨es, eid⟩ := e'
  subst eid
  refine ⟨s', by rw [e, hnc], hi, by rw [hnc]; exact hr, ?_, ?_, ?_, ?_⟩
  · rw [← es]
  · rw [← es]
  · rw [← es]
  · rw [← es]

/-- the `while` loop of `extend_with_edges` against `addUpTo`; `ok = false` is the documented panic of
`add_node` at the index limit.  Fuel: with `nx + 1 - node_count` rounds the loop condition is false
when the loop ends normally. -/
theorem addNodesUpTo_spec (nx : Nat) : ∀ (f : Nat) (s : State) (g : G), Inv s → R s g →
    s.nodes.removed = [] →
    ∃ s' g' ok, addNodesUpTo nx f s = (s', if ok then .unit else .panic) ∧
      addUpTo s.ixMax nx f g = (g', ok) ∧ Inv s' ∧ R s' g' ∧ s'.nodes.removed = [] ∧
      s'.dir = s.dir ∧ s'.nz = s.nz ∧ s'.ixMax = s.ixMax ∧
      (ok = true → nx + 1 - g.nodeCount ≤ f → nx < g'.nodeCount) := by
  intro f
  induction f with
  | zero =>
    intro s g h r hrem
    exact ⟨s, g, true, rfl, rfl, h, r, hrem, rfl, rfl, rfl, fun _ hf => by omega⟩
  | succ f ih =>
    intro s g h r hrem
    unfold addNodesUpTo addUpTo
    rw [← r.ncount]
    by_cases hnx : nx ≥ g.nodeCount
    · rw [if_pos hnx, if_pos hnx]
      by_cases hlim : g.nodeCount = s.ixMax
      · rw [if_pos hlim, (addNode_spec h r 0).1 hlim]
        exact ⟨s, g, false, rfl, rfl, h, r, hrem, rfl, rfl, rfl, fun hc => by cases hc⟩
      · rw [if_neg hlim]
        obtain ⟨s1, e1, h1, r1, hrem1, hd1, hn1, hx1⟩ := addNode_noVacancy h r hrem 0 hlim
        rw [e1]
        simp only
        obtain ⟨s', g', ok, e2, e3, h2, r2, hrem2, hd2, hn2, hx2, hfuel⟩ := ih s1 _ h1 r1 hrem1
        rw [hx1] at e3
        refine ⟨s', g', ok, e2, e3, h2, r2, hrem2, by rw [hd2, hd1], by rw [hn2, hn1], by rw [hx2, hx1], ?_⟩
        intro hok hf
        apply hfuel hok
        have : (g.addNode g.nodeCount 0).nodeCount = g.nodeCount + 1 := by
          simp [G.addNode, G.nodeCount]
        omega
    · rw [if_neg hnx, if_neg hnx]
      exact ⟨s, g, true, rfl, rfl, h, r, hrem, rfl, rfl, rfl, fun _ _ => by omega⟩

theorem tryAddNode_len {s s1 : State} {w : Int} {i : Nat} (h : Ids.Inv s.nodes)
    (e : tryAddNode s w = (s1, .resIdOk i)) :
    Ids.Inv s1.nodes ∧ s1.nodes.len = s.nodes.len + 1 := by
  obtain ⟨n, id, ea, hinv, _, _, _, hlen, _⟩ := Ids.add_spec h w
  unfold tryAddNode at e
  split at e
  · simp at e
  · rw [ea] at e
    simp only [Prod.mk.injEq, Out.resIdOk.injEq] at e
    obtain ⟨rfl, _⟩ := e
    exact ⟨hinv, hlen⟩

/-- `add_node` answers an id or panics, nothing else -/
theorem addNode_out (s : State) (w : Int) :
    (∃ s1 i, addNode s w = (s1, .id i) ∧ tryAddNode s w = (s1, .resIdOk i)) ∨
    (∃ s1, addNode s w = (s1, .panic)) ∨ (∃ s1 f, addNode s w = (s1, .fault f)) := by
  unfold addNode
  cases ht : tryAddNode s w with
  | mk s1 o =>
    unfold tryAddNode at ht
    split at ht
    · injection ht with h1 h2; subst h2; exact Or.inr (Or.inl ⟨s1, rfl⟩)
    · split at ht
      · injection ht with h1 h2; subst h2; exact Or.inl ⟨s1, _, rfl, rfl⟩
      · injection ht with h1 h2; subst h2; exact Or.inr (Or.inr ⟨s1, _, rfl⟩)

/-- `add_node` that succeeds makes `node_count` one larger (with or without vacancies) -/
theorem addNode_len {s s1 : State} {w : Int} {i : Nat} (h : Ids.Inv s.nodes)
    (e : addNode s w = (s1, .id i)) :
    Ids.Inv s1.nodes ∧ s1.nodes.len = s.nodes.len + 1 := by
  rcases addNode_out s w with ⟨s2, j, e1, e2⟩ | ⟨s2, e1⟩ | ⟨s2, f, e1⟩
  · rw [e1] at e
    injection e with h1 h2
    injection h2 with h2
    subst h1; subst h2
    exact tryAddNode_len h e2
  · rw [e1] at e; injection e with _ h2; cases h2
  · rw [e1] at e; injection e with _ h2; cases h2

/-- **the fuel of the `while` loop suffices**, in every state (vacancies or not): when the model's loop
ends normally after at most `nx + 1 - node_count` rounds, the condition `nx >= node_count()` of the real
`while` is false, so the real loop ends at the same point -/
theorem addNodesUpTo_fuel (nx : Nat) : ∀ (f : Nat) (s s' : State), Ids.Inv s.nodes →
    addNodesUpTo nx f s = (s', .unit) → nx + 1 - s.nodes.len ≤ f → nx < s'.nodes.len := by
  intro f
  induction f with
  | zero =>
    intro s s' _ e hf
    unfold addNodesUpTo at e
    injection e with e1 _
    rw [← e1]; omega
  | succ f ih =>
    intro s s' h e hf
    unfold addNodesUpTo at e
    by_cases hnx : nx ≥ s.nodes.len
    · rw [if_pos hnx] at e
      split at e
      · rename_i s1 i heq
        obtain ⟨h1, hl⟩ := addNode_len h heq
        exact ih s1 s' h1 e (by omega)
      · have e' : addNode s 0 = (s', .unit) := e
        rcases addNode_out s 0 with ⟨s2, j, e1, _⟩ | ⟨s2, e1⟩ | ⟨s2, f, e1⟩ <;>
          (rw [e1] at e'; injection e' with _ h2; cases h2)
    · rw [if_neg hnx] at e
      injection e with e1 _
      rw [← e1]; omega

/-- `addUpTo` only adds nodes -/
theorem addUpTo_mono (ixMax nx : Nat) : ∀ (f : Nat) (g : G), g.nodeCount ≤ (addUpTo ixMax nx f g).1.nodeCount := by
  intro f
  induction f with
  | zero => intro g; exact Nat.le_refl _
  | succ f ih =>
    intro g
    unfold addUpTo
    split
    · split
      · exact Nat.le_refl _
      · have := ih (g.addNode g.nodeCount 0)
        have h2 : (g.addNode g.nodeCount 0).nodeCount = g.nodeCount + 1 := by
          simp [G.addNode, G.nodeCount]
        omega
    · exact Nat.le_refl _

/-- **`extend_with_edges` on a graph without vacancies** (`node_bound() = node_count()`), for every
list of elements: it answers as `specExtend`, re-establishes invariant and relation, and leaves no
vacancy; no call it makes faults. -/
theorem extendWithEdges_spec : ∀ (es : List (Nat × Nat × Int)) (s : State) (g : G), Inv s → R s g →
    s.nodes.removed = [] →
    ∃ s' g', extendWithEdges s es = (s', (specExtend s.nz s.ixMax g es).2) ∧
      (specExtend s.nz s.ixMax g es).1 = g' ∧ Inv s' ∧ R s' g' ∧ s'.nodes.removed = [] ∧
      s'.dir = s.dir ∧ s'.nz = s.nz ∧ s'.ixMax = s.ixMax := by
  intro es
  induction es with
  | nil => intro s g h r hrem; exact ⟨s, g, rfl, rfl, h, r, hrem, rfl, rfl, rfl⟩
  | cons e rest ih =>
    intro s g h r hrem
    obtain ⟨a, b, w⟩ := e
    obtain ⟨s1, g1, ok, e1, e2, h1, r1, hrem1, hd1, hn1, hx1, hfuel⟩ :=
      addNodesUpTo_spec (max a b) (max a b + 1 - s.nodes.len) s g h r hrem
    unfold extendWithEdges specExtend
    rw [e1, ← r.ncount] at *
    rw [e2]
    cases ok with
    | false => exact ⟨s1, g1, rfl, rfl, h1, r1, hrem1, hd1, hn1, hx1⟩
    | true =>
      simp only [if_true]
      have hlt := hfuel rfl (Nat.le_refl _)
      have ha : g1.live a = true := (live_iff_lt_of_noVacancy h1 r1 hrem1 a).2 (by omega)
      have hb : g1.live b = true := (live_iff_lt_of_noVacancy h1 r1 hrem1 b).2 (by omega)
      obtain ⟨p1, p2⟩ := addEdge_spec h1 r1 ha hb w
      have hfr := addEdge_frame s1 a b w
      simp only [specStep]
      by_cases hz : zeroRejected s.nz w = true
      · rw [if_pos hz]
        obtain ⟨s2, e3, h2, r2⟩ := p1 (by rw [hn1]; exact (zeroRejected_iff _ _).1 hz)
        rw [e3] at hfr ⊢
        obtain ⟨f1, f2, f3, f4⟩ := hfr
        exact ⟨s2, g1, rfl, rfl, h2, r2, by rw [f1]; exact hrem1, by rw [f2, hd1], by rw [f3, hn1],
          by rw [f4, hx1]⟩
      · rw [if_neg hz]
        obtain ⟨s2, e3, h2, r2⟩ := p2 (by rw [hn1]; exact fun c => hz ((zeroRejected_iff _ _).2 c))
        rw [e3] at hfr ⊢
        obtain ⟨f1, f2, f3, f4⟩ := hfr
        cases hw : (g1.weight a b).isSome with
        | true =>
          simp only [if_true]
          exact ⟨s2, _, rfl, rfl, h2, r2, by rw [f1]; exact hrem1, by rw [f2, hd1], by rw [f3, hn1],
            by rw [f4, hx1]⟩
        | false =>
          simp only [Bool.false_eq_true, if_false]
          obtain ⟨s', g', e4, e5, h3, r3, hrem3, hd3, hn3, hx3⟩ :=
            ih s2 (g1.setEdge a b w) h2 r2 (by rw [f1]; exact hrem1)
          rw [f3, hn1, f4, hx1] at e4 e5
          exact ⟨s', g', e4, e5, h3, r3, hrem3, by rw [hd3, f2, hd1], by rw [hn3, f3, hn1],
            by rw [hx3, f4, hx1]⟩

/-- **`from_edges`**: `default()` then `extend_with_edges`, for every list of elements -/
theorem fromEdges_spec (dir nz : Bool) (ixMax : Nat) (es : List (Nat × Nat × Int)) :
    ∃ s', fromEdges dir nz ixMax es = (s', (specExtend nz ixMax (G.empty dir) es).2) ∧
      Inv s' ∧ R s' (specExtend nz ixMax (G.empty dir) es).1 ∧ s'.nodes.removed = [] ∧
      s'.dir = dir ∧ s'.nz = nz ∧ s'.ixMax = ixMax := by
  obtain ⟨s0, e0, h0, r0, hd, hn, hx, _⟩ := withCapacity_spec dir nz ixMax 0
  have hs0 : s0 = { dir := dir, nz := nz, ixMax := ixMax } := by
    unfold withCapacity at e0
    simp only [Nat.lt_irrefl, gt_iff_lt, if_false] at e0
    injection e0 with e0
    exact e0.symm
  have hrem : s0.nodes.removed = [] := by rw [hs0]
  obtain ⟨s', g', e1, e2, h1, r1, hrem1, hd1, hn1, hx1⟩ := extendWithEdges_spec es s0 _ h0 r0 hrem
  unfold fromEdges
  rw [e0]
  simp only
  rw [hn, hx] at e1 e2
  exact ⟨s', e1, h1, by rw [e2]; exact r1, hrem1, by rw [hd1, hd], by rw [hn1, hn], by rw [hx1, hx]⟩

/-! ### exact capacity after every call -/

/-- the edge-writing calls make room for the pair (`extend_capacity_for_edge`), nothing else changes the
capacity (`clear` keeps the matrix, removals never shrink it) -/
def capAfter (dir : Bool) (cap : Nat) : Op → Nat
  | .addEdge a b _ | .updateEdge a b _ | .tryUpdateEdge a b _ | .addOrUpdateEdge a b _
  | .buildAddEdge a b _ | .buildUpdateEdge a b _ => capFor dir cap a b
  | _ => cap

theorem updateEdge_cap {s : State} (h : Inv s) (a b : Nat) (w : Int) :
    (updateEdge s a b w).1.cap = capFor s.dir s.cap a b := by
  obtain ⟨s1, e, hc⟩ := extendForEdge_cap h a b
  unfold updateEdge
  rw [e]
  simp only
  split
  · exact hc
  · split
    · exact hc
    · exact hc

theorem capFor_idem (dir : Bool) (cap a b : Nat) : capFor dir (capFor dir cap a b) a b = capFor dir cap a b := by
  have hg := le_growCap (max a b + 1)
  have hgrow : Extracted.Matrix.grow nextPow2 (max a b + 1) = growCap (max a b + 1) := rfl
  unfold capFor
  by_cases h1 : max a b < cap
  · rw [if_pos h1, if_pos h1]
  · rw [if_neg h1]
    cases dir
    · simp
    · simp only [if_true, hgrow]
      rw [if_pos (by omega)]

theorem capFor_of_lt (dir : Bool) {cap a b : Nat} (h : max a b < cap) : capFor dir cap a b = cap := by
  unfold capFor; rw [if_pos h]

theorem tryAddNode_cap (s : State) (w : Int) : (tryAddNode s w).1.cap = s.cap := by
  unfold tryAddNode
  split
  · rfl
  · split <;> rfl

theorem addNode_cap (s : State) (w : Int) : (addNode s w).1.cap = s.cap := by
  have := tryAddNode_cap s w
  unfold addNode
  split
  · rename_i heq; rw [heq] at this; exact this
  · rename_i heq; rw [heq] at this; exact this
  · exact this

theorem step_cap {s : State} {g : G} (h : Inv s) (r : R s g) (op : Op) (hv : Valid s.nz g op) :
    (step s op).1.cap = capAfter s.dir s.cap op := by
  cases op with
  | addNode w => exact addNode_cap s w
  | tryAddNode w => exact tryAddNode_cap s w
  | removeNode a =>
    simp only [step, capAfter]
    unfold removeNode
    split
    · rfl
    · simp only
      split <;> rfl
  | addEdge a b w =>
    simp only [step, capAfter]
    have := updateEdge_cap h a b w
    unfold addEdge
    split
    · rename_i heq; rw [heq] at this; exact this
    · rename_i heq; rw [heq] at this; exact this
    · exact this
  | updateEdge a b w => exact updateEdge_cap h a b w
  | tryUpdateEdge a b w =>
    simp only [step, capAfter]
    have := updateEdge_cap h a b w
    unfold tryUpdateEdge
    rw [assertNodeBounds_live r hv.1 hv.2]
    simp only
    split
    · rename_i heq; rw [heq] at this; exact this
    · exact this
  | addOrUpdateEdge a b w =>
    simp only [step, capAfter]
    obtain ⟨s1, e1, hinv1, hab, _, hobs, hn, hc, hd, hnz, _⟩ := extendForEdge_spec h a b
    obtain ⟨_, e1', hc1⟩ := extendForEdge_cap h a b
    rw [e1] at e1'
    injection e1' with e1'
    subst e1'
    have r1 : R s1 g := R_of_obs r hd hn hc hobs
    have := updateEdge_cap hinv1 a b w
    unfold addOrUpdateEdge
    rw [e1]
    simp only
    unfold tryUpdateEdge
    rw [assertNodeBounds_live r1 hv.1 hv.2]
    simp only
    rw [hd, hc1, capFor_idem] at this
    split
    · rename_i heq; rw [heq] at this; exact this
    · exact this
  | removeEdge a b =>
    simp only [step, capAfter]
    unfold removeEdge
    split
    · rfl
    · split
      · rfl
      · rfl
      · split <;> rfl
  | tryRemoveEdge a b =>
    simp only [step, capAfter]
    unfold tryRemoveEdge
    split
    · rfl
    · split
      · rfl
      · rfl
      · split <;> rfl
  | setNodeWeight a w =>
    simp only [step, capAfter]
    unfold setNodeWeight
    split <;> rfl
  | setEdgeWeight a b w =>
    simp only [step, capAfter]
    unfold setEdgeWeight
    split
    · rfl
    · rfl
    · split <;> rfl
  | buildAddEdge a b w =>
    simp only [step, capAfter]
    have := updateEdge_cap h a b w
    unfold buildAddEdge
    split
    · rename_i hhe
      have hlt : max a b < s.cap := by
        rw [hasEdge_eq, getEdgeWeight_def] at hhe
        by_cases hm : max a b ≥ s.cap
        · rw [if_pos hm] at hhe; cases hhe
        · omega
      rw [capFor_of_lt _ hlt]
    · split
      · rename_i heq; rw [heq] at this; exact this
      · exact this
  | buildUpdateEdge a b w =>
    simp only [step, capAfter]
    have := updateEdge_cap h a b w
    unfold buildUpdateEdge
    split
    · rename_i heq; rw [heq] at this; exact this
    · exact this
  | clear => rfl

/-- the capacity never shrinks -/
theorem cap_le_capFor (dir : Bool) (cap a b : Nat) : cap ≤ capFor dir cap a b := by
  have hg := le_growCap (max a b + 1)
  have hgrow : Extracted.Matrix.grow nextPow2 (max a b + 1) = growCap (max a b + 1) := rfl
  unfold capFor
  split
  · exact Nat.le_refl _
  · split
    · rw [hgrow]; omega
    · omega

/-! ### refuted: `extend_with_edges` on a graph WITH a vacancy -/

/-- three nodes, node 0 removed (directed `Option` graph, `u8`) -/
def vacancyState : State := (run { dir := true, nz := false, ixMax := 255 }
  [.addNode 0, .addNode 0, .addNode 0, .removeNode 0]).1

/-- `extend_with_edges([(0, 1, 5)])` on it: `node_count() = 2 > 1`, so no node is added, and `add_edge(0, 1)`
writes an edge at the vacant id 0 -/
theorem extend_with_vacancy_witness :
    let s' := (extendWithEdges vacancyState [(0, 1, 5)]).1
    (extendWithEdges vacancyState [(0, 1, 5)]).2 = .unit ∧
    s'.nodes.get 0 = none ∧ getEdgeWeight s' 0 1 = some 5 ∧ s'.nbEdges = 1 ∧ ∀ g, ¬ R s' g := by
  intro s'
  have h1 : (extendWithEdges vacancyState [(0, 1, 5)]).2 = .unit := by decide
  have h2 : s'.nodes.get 0 = none := by decide
  have h3 : getEdgeWeight s' 0 1 = some 5 := by decide
  have h4 : s'.nbEdges = 1 := by decide
  refine ⟨h1, h2, h3, h4, fun g r => ?_⟩
  have hw : g.weight 0 1 = some 5 := by rw [r.edges]; exact h3
  have hl := (live_of_edge r.wf hw).1
  rw [live_eq r, h2] at hl
  cases hl

end PetgraphModel.MatrixProofs
