import PetgraphModel.Model.C16Dom
/-
C16 — the accessors of (the model of) `struct Dominators` are the closure / the inverse of the
immediate-dominator map.
-/
namespace PetgraphModel.C16P
open PetgraphModel C16M

/-- `a` is obtained from `n` by following `immediate_dominator` at least once -/
inductive IdomPlus (d : Doms) : Nat → Nat → Prop
  | base {n a : Nat} : d.immediateDominator n = some a → IdomPlus d n a
  | step {n m a : Nat} : d.immediateDominator n = some m → IdomPlus d m a → IdomPlus d n a

/-- `l` is the complete chain `idom n, idom (idom n), …` up to the node without immediate dominator -/
inductive IdomChain (d : Doms) : Nat → List Nat → Prop
  | nil {n : Nat} : d.immediateDominator n = none → IdomChain d n []
  | cons {n a : Nat} {l : List Nat} : d.immediateDominator n = some a → IdomChain d a l → IdomChain d n (a :: l)

/-- the hash map invariant (`keys`) and what `simple_fast` establishes about the root (`rootSelf`):
only the root is mapped to itself -/
structure DomsWF (d : Doms) : Prop where
  keys : (d.map.map (·.1)).Nodup
  rootSelf : ∀ k v, (k, v) ∈ d.map → (v = k ↔ k = d.root)

theorem dominators_eq_cons (d : Doms) (n : Nat) :
    d.dominators n = (d.strictDominators n).map (n :: ·) := by
  unfold Doms.dominators Doms.strictDominators
  split <;> simp [Doms.chain]

theorem dominators_none_iff (d : Doms) (n : Nat) : d.dominators n = none ↔ d.map.lookup n = none := by
  unfold Doms.dominators
  cases d.map.lookup n <;> simp

theorem strict_none_iff (d : Doms) (n : Nat) : d.strictDominators n = none ↔ d.map.lookup n = none := by
  unfold Doms.strictDominators
  cases d.map.lookup n <;> simp

/-- a chain that was not cut off by the fuel is the complete idom chain -/
theorem chain_complete (d : Doms) : ∀ (f : Nat) (n : Nat) (l : List Nat),
    d.chain f (d.immediateDominator n) = l → l.length < f → IdomChain d n l := by
  intro f
  induction f with
  | zero => intro n l _ h; cases h
  | succ f ih =>
    intro n l hl hlen
    cases hi : d.immediateDominator n with
    | none => rw [hi] at hl; simp [Doms.chain] at hl; subst hl; exact IdomChain.nil hi
    | some a =>
      rw [hi] at hl
      simp only [Doms.chain] at hl
      subst hl
      simp only [List.length_cons, Nat.add_lt_add_iff_right] at hlen
      exact IdomChain.cons hi (ih a _ rfl hlen)

theorem idomChain_mem_iff {d : Doms} {n : Nat} {l : List Nat} (h : IdomChain d n l) :
    ∀ a, a ∈ l ↔ IdomPlus d n a := by
  induction h with
  | nil hn =>
    intro a
    simp only [List.not_mem_nil, false_iff]
    intro hp
    cases hp with
    | base h => rw [hn] at h; cases h
    | step h _ => rw [hn] at h; cases h
  | cons hn _ ih =>
    rename_i n b l
    intro a
    simp only [List.mem_cons]
    constructor
    · rintro (h | h)
      · subst h; exact IdomPlus.base hn
      · exact IdomPlus.step hn ((ih a).mp h)
    · intro hp
      cases hp with
      | base h => rw [hn] at h; exact Or.inl (Option.some.inj h).symm
      | step h hrest => rw [hn] at h; cases h; exact Or.inr ((ih a).mpr hrest)

/-- **`strict_dominators` is the transitive closure of `immediate_dominator`** (for an answer that
the iterator produced without being cut off by the model's fuel) -/
theorem strict_closure (d : Doms) (n : Nat) (l : List Nat) (h : d.strictDominators n = some l)
    (hlen : l.length < d.chainFuel) : IdomChain d n l ∧ ∀ a, a ∈ l ↔ IdomPlus d n a := by
  unfold Doms.strictDominators at h
  split at h
  · simp only [Option.some.injEq] at h
    have hc := chain_complete d d.chainFuel n l h hlen
    exact ⟨hc, idomChain_mem_iff hc⟩
  · cases h

theorem lookup_iff_mem {β : Type} : ∀ (m : List (Nat × β)), (m.map (·.1)).Nodup →
    ∀ k v, m.lookup k = some v ↔ (k, v) ∈ m := by
  intro m
  induction m with
  | nil => intro _ k v; simp
  | cons x xs ih =>
    intro hn k v
    obtain ⟨k', v'⟩ := x
    simp only [List.map_cons, List.nodup_cons, List.mem_map, not_exists, not_and] at hn
    by_cases hk : k = k'
    · subst hk
      simp only [List.lookup, beq_self_eq_true, Option.some.injEq, List.mem_cons, Prod.mk.injEq, true_and]
      constructor
      · intro h; exact Or.inl h.symm
      · rintro (h | h)
        · exact h.symm
        · exact (hn.1 (k, v) h rfl).elim
    · have : (k == k') = false := by simpa using hk
      simp only [List.lookup, this, List.mem_cons, Prod.mk.injEq, hk, false_and, false_or]
      exact ih hn.2 k v

/-- **`immediately_dominated_by` is the inverse of `immediate_dominator`** -/
theorem idb_inverse (d : Doms) (hd : DomsWF d) (n m : Nat) :
    m ∈ d.immediatelyDominatedBy n ↔ d.immediateDominator m = some n := by
  unfold Doms.immediatelyDominatedBy Doms.immediateDominator
  simp only [List.mem_filterMap]
  constructor
  · rintro ⟨⟨k, v⟩, hkv, h⟩
    split at h
    · rename_i hc
      simp only [Option.some.injEq] at h
      subst h
      obtain ⟨rfl, hne⟩ := hc
      have hroot : ¬ k = d.root := fun hk => hne ((hd.rootSelf k v hkv).mpr hk)
      rw [if_neg hroot]
      exact (lookup_iff_mem d.map hd.keys k v).mpr hkv
    · cases h
  · intro h
    split at h
    · cases h
    · rename_i hroot
      have hmem := (lookup_iff_mem d.map hd.keys m n).mp h
      refine ⟨(m, n), hmem, ?_⟩
      have hne : ¬ n = m := fun hnm => hroot ((hd.rootSelf m n hmem).mp hnm)
      simp [hne]

end PetgraphModel.C16P
