import PetgraphModel.Proofs.C06W2Base
import PetgraphModel.Model.C06Views
import PetgraphModel.Proofs.AdjList
import PetgraphModel.Theorems.C05
/-
C06 wave 2 — `adj::List`: the table computed from the storage model (`adjListTable`, Model/C06ViewsList.lean)
is consistent in every well-formed state (`ListWF`: no node beyond the capacity of the index type, every
stored successor is an existing node); no bound on the rows (wave 5: the harness's edge-id code
`pcode from successor_index` is injective on all pairs).

`ListWF` holds after every history from `List::new()` that fits the index type (`LFits`, the hypothesis of
`C05_list_all_histories`) and whose `add_node_from_edges` calls only name existing nodes or the new node itself
(`TargetsOk`; `add_node_from_edges` performs no check — src/adj.rs:207-216 — so without this hypothesis an edge
may point beyond the list, `edge_references` then reports a target that is not a node, and
`adjacency_matrix` panics or aliases).  Parallel edges are allowed: the `Perm` clauses are proved as
EQUALITIES of lists (row `a` is literally the `source = a` filter of `edge_references`).
-/
namespace PetgraphModel.Visit
open PetgraphModel PetgraphModel.AdjM PetgraphModel.Visit.ALView

/-- well-formed state: the node indices fit the index type, every stored successor is an existing node -/
structure ListWF (s : State) : Prop where
  fits : s.modulus = 0 ∨ s.suc.length ≤ s.modulus
  tgt : ∀ row ∈ s.suc, ∀ x ∈ row, x.1 < s.suc.length

/-- every row has at most `B` entries -/
def RowsLe (B : Nat) (s : State) : Prop := ∀ row ∈ s.suc, row.length ≤ B

/-- every successor index is below 100 -/
def ListBounded (s : State) : Prop := RowsLe 100 s

/-! ### `edge_references` without `Ix::new` -/

/-- `edge_references()` when no row index wraps -/
def plainRefs : Nat → List Row → List AdjM.ERef
  | _, [] => []
  | i, row :: rows => rowRefs i 0 row ++ plainRefs (i + 1) rows

theorem edgeRefsLoop_eq (m : Nat) : ∀ (i : Nat) (rows : List Row), (m = 0 ∨ i + rows.length ≤ m) →
    edgeRefsLoop m i rows = plainRefs i rows
  | _, [], _ => rfl
  | i, row :: rows, h => by
    have h1 : mkIx m i = i := AdjProofs.mkIx_of_fits m i (by simp only [List.length_cons] at h; omega)
    simp only [edgeRefsLoop, plainRefs, h1]
    rw [edgeRefsLoop_eq m (i + 1) rows (by simp only [List.length_cons] at h; omega)]

theorem edgeReferences_eq (s : State) (h : ListWF s) : edgeReferences s = plainRefs 0 s.suc :=
  edgeRefsLoop_eq s.modulus 0 s.suc (by have := h.fits; omega)

theorem nodeIndices_eq (s : State) (h : ListWF s) : nodeIndices s = List.range s.suc.length := by
  unfold nodeIndices
  conv => rhs; rw [← List.map_id (List.range s.suc.length)]
  apply List.map_congr_left
  intro i hi
  have hi' : i < s.suc.length := List.mem_range.1 hi
  exact AdjProofs.mkIx_of_fits _ _ (by have := h.fits; omega)

theorem mem_nodeIndices (s : State) (h : ListWF s) (a : Nat) : a ∈ nodeIndices s ↔ a < s.suc.length := by
  rw [nodeIndices_eq s h, List.mem_range]

/-! ### the references of one row -/

theorem mem_rowRefs {f : Nat} : ∀ {k : Nat} {row : Row} {r : AdjM.ERef}, r ∈ rowRefs f k row →
    r.1 = f ∧ k ≤ r.2.1 ∧ r.2.1 < k + row.length ∧ (r.2.2.1, r.2.2.2) ∈ row
  | _, [], _, h => by simp [rowRefs] at h
  | k, x :: xs, r, h => by
    simp only [rowRefs, List.mem_cons] at h
    rcases h with h | h
    · subst h; simp
    · have := mem_rowRefs h
      simp only [List.length_cons, List.mem_cons]
      exact ⟨this.1, by omega, by omega, Or.inr this.2.2.2⟩

theorem rowRefs_length (f : Nat) : ∀ (k : Nat) (row : Row), (rowRefs f k row).length = row.length
  | _, [] => rfl
  | k, _ :: xs => by simp [rowRefs, rowRefs_length f (k + 1) xs]

theorem rowRefs_tgt (f : Nat) : ∀ (k : Nat) (row : Row),
    ((rowRefs f k row).map eref).map (·.tgt) = row.map (·.1)
  | _, [] => rfl
  | k, _ :: xs => by
    simp only [rowRefs, List.map_cons, List.cons.injEq]
    exact ⟨rfl, rowRefs_tgt f (k + 1) xs⟩

theorem eref_id (r : AdjM.ERef) : (eref r).id = pcode r.1 r.2.1 := rfl
theorem eref_src (r : AdjM.ERef) : (eref r).src = r.1 := rfl
theorem eref_tgt (r : AdjM.ERef) : (eref r).tgt = r.2.2.1 := rfl

/-- the id codes of one row are pairwise different (`pcode` is injective, the successor indices ascend) -/
theorem rowRefs_ids_ne (f : Nat) : ∀ (k : Nat) (row : Row),
    (((rowRefs f k row).map eref).map (·.id)).Pairwise (· ≠ ·)
  | _, [] => by simp [rowRefs]
  | k, x :: xs => by
    simp only [rowRefs, List.map_cons, List.pairwise_cons, List.mem_map]
    refine ⟨?_, rowRefs_ids_ne f (k + 1) xs⟩
    rintro _ ⟨_, ⟨r, hr, rfl⟩, rfl⟩
    have := mem_rowRefs hr
    simp only [eref_id]
    intro he
    have := pcode_inj he
    omega

/-! ### all references -/

theorem mem_plainRefs : ∀ {i : Nat} {rows : List Row} {r : AdjM.ERef}, r ∈ plainRefs i rows →
    i ≤ r.1 ∧ r.1 < i + rows.length ∧ ∃ row ∈ rows, r.2.1 < row.length ∧ (r.2.2.1, r.2.2.2) ∈ row
  | _, [], _, h => by simp [plainRefs] at h
  | i, row :: rows, r, h => by
    simp only [plainRefs, List.mem_append] at h
    simp only [List.length_cons, List.mem_cons]
    rcases h with h | h
    · have := mem_rowRefs h
      exact ⟨by omega, by omega, row, Or.inl rfl, by omega, this.2.2.2⟩
    · obtain ⟨h1, h2, row', hm, h3⟩ := mem_plainRefs h
      exact ⟨by omega, by omega, row', Or.inr hm, h3⟩

theorem plainRefs_length : ∀ (i : Nat) (rows : List Row),
    (plainRefs i rows).length = (rows.map List.length).sum
  | _, [] => rfl
  | i, row :: rows => by
    simp [plainRefs, rowRefs_length, plainRefs_length (i + 1) rows]

/-- the id codes `pcode from successor_index` are pairwise different — for rows of ANY length (wave 5) -/
theorem plainRefs_ids_ne : ∀ (i : Nat) (rows : List Row),
    (((plainRefs i rows).map eref).map (·.id)).Pairwise (· ≠ ·)
  | _, [] => by simp [plainRefs]
  | i, row :: rows => by
    simp only [plainRefs, List.map_append, List.pairwise_append, List.mem_map]
    refine ⟨rowRefs_ids_ne i 0 row, plainRefs_ids_ne (i + 1) rows, ?_⟩
    rintro _ ⟨_, ⟨r, hr, rfl⟩, rfl⟩ _ ⟨_, ⟨r', hr', rfl⟩, rfl⟩
    have h1 := mem_rowRefs hr
    have h2 := mem_plainRefs hr'
    simp only [eref_id]
    intro he
    have := pcode_inj he
    omega

theorem filter_src_rowRefs_eq (a k : Nat) (row : Row) :
    ((rowRefs a k row).map eref).filter (fun e => e.src == a) = (rowRefs a k row).map eref := by
  rw [List.filter_eq_self]
  intro e he
  obtain ⟨r, hr, rfl⟩ := List.mem_map.1 he
  simp [eref_src, (mem_rowRefs hr).1]

theorem filter_src_rowRefs_ne (f a k : Nat) (row : Row) (h : f ≠ a) :
    ((rowRefs f k row).map eref).filter (fun e => e.src == a) = [] := by
  rw [List.filter_eq_nil_iff]
  intro e he
  obtain ⟨r, hr, rfl⟩ := List.mem_map.1 he
  simp [eref_src, (mem_rowRefs hr).1, h]

/-- the references with source `a` are exactly the references of row `a`, in order -/
theorem filter_src_plainRefs (a : Nat) : ∀ (i : Nat) (rows : List Row),
    ((plainRefs i rows).map eref).filter (fun e => e.src == a) =
      if a < i then [] else ((rows[a - i]?.map (rowRefs a 0)).getD []).map eref
  | i, [] => by simp [plainRefs]
  | i, row :: rows => by
    simp only [plainRefs, List.map_append, List.filter_append]
    rw [filter_src_plainRefs a (i + 1) rows]
    by_cases h1 : a < i
    · have h2 : a < i + 1 := by omega
      rw [filter_src_rowRefs_ne i a 0 row (by omega)]
      simp [h1, h2]
    · by_cases h2 : a = i
      · subst h2
        rw [filter_src_rowRefs_eq]
        simp
      · have h3 : ¬ a < i + 1 := by omega
        have h4 : a - i = (a - (i + 1)) + 1 := by omega
        rw [filter_src_rowRefs_ne i a 0 row (fun e => h2 e.symm)]
        simp only [h1, h3, if_false, List.nil_append]
        rw [h4, List.getElem?_cons_succ]

/-! ### node clauses -/

theorem al_ids (s : State) (h : ListWF s) : idsOk (nodeIndices s) (adjListTable s) := by
  simp only [idsOk, adjListTable, whenSome_some]
  refine ⟨?_, fun a ha => ha, ?_⟩
  · rw [nodeIndices_eq s h]; exact List.nodup_range
  · simp [nodeIndices, State.nodeCount]

theorem al_refs (s : State) : refsOk (adjListTable s) := by
  simp only [refsOk, adjListTable, whenSome_some, List.map_map, Function.comp_def, List.map_id']
  exact List.Perm.refl _

theorem al_index (s : State) (h : ListWF s) : indexOk (adjListTable s) := by
  simp only [indexOk, adjListTable, whenSome_some]
  refine ⟨?_, ?_, ?_⟩
  · intro a ha
    rw [lookup_map_self (toIndex s) _ a ha]
    exact (mem_nodeIndices s h a).1 ha
  · have : (nodeIndices s).map (fun a => ((nodeIndices s).map fun q => (q, toIndex s q)).lookup a) =
        (nodeIndices s).map (fun a => some a) :=
      List.map_congr_left fun a ha => lookup_map_self (toIndex s) _ a ha
    rw [this, nodeIndices_eq s h]
    exact nodup_map_of_inj_on _ _ List.nodup_range fun a _ b _ e => by simpa using e
  · intro a ha
    rw [lookup_map_self (fun q => fromIndex s (toIndex s q)) _ a ha]
    have ha' := (mem_nodeIndices s h a).1 ha
    simp only [fromIndex, toIndex]
    rw [AdjProofs.mkIx_of_fits _ _ (by have := h.fits; omega)]

theorem al_compact (s : State) (h : ListWF s) : compactOk (adjListTable s) := by
  intro _
  simp only [adjListTable, whenSome_some]
  have : (nodeIndices s).map (fun a => (((nodeIndices s).map fun q => (q, toIndex s q)).lookup a).getD s.nodeCount) =
      (nodeIndices s).map id :=
    List.map_congr_left fun a ha => by rw [lookup_map_self (toIndex s) _ a ha]; rfl
  rw [this, List.map_id, nodeIndices_eq s h]
  exact List.Perm.refl _

/-! ### edge clauses -/

/-- the `edge_references` field -/
def alERefs (s : State) : List ERef := (edgeReferences s).map eref

theorem alERefs_ids_nodup (s : State) (h : ListWF s) : ((alERefs s).map (·.id)).Nodup := by
  unfold alERefs
  rw [edgeReferences_eq s h]
  exact plainRefs_ids_ne 0 s.suc

theorem al_erefs (s : State) (h : ListWF s) : erefsOk (adjListTable s) := by
  simp only [erefsOk, adjListTable, whenSome_some]
  refine ⟨alERefs_ids_nodup s h, ?_, ?_⟩
  · rw [edgeReferences_eq s h, List.length_map, plainRefs_length]; rfl
  · intro e he
    rw [edgeReferences_eq s h] at he
    obtain ⟨r, hr, rfl⟩ := List.mem_map.1 he
    obtain ⟨_, h2, row, hrow, _, hx⟩ := mem_plainRefs hr
    rw [mem_nodeIndices s h, mem_nodeIndices s h, eref_src, eref_tgt]
    exact ⟨by omega, h.tgt row hrow _ hx⟩

theorem al_eix (s : State) : eixOk (adjListTable s) := by
  simp only [eixOk, adjListTable, whenSome_some]
  intro _ h; cases h

/-! ### per-node iterators -/

/-- `edges(a)` is (as a list, not only as a multiset) what the specification prescribes from `edge_references` -/
theorem al_edges_eq (s : State) (h : ListWF s) (a : Nat) :
    ((edgesOf s a).getD []).map eref = expOut true (alERefs s) a := by
  unfold alERefs
  rw [edgeReferences_eq s h]
  simp only [expOut, if_true]
  rw [filter_src_plainRefs a 0 s.suc]
  simp [edgesOf]

theorem al_nbrs_eq (s : State) (a : Nat) :
    (neighbors s a).getD [] = (((edgesOf s a).getD []).map eref).map (·.tgt) := by
  unfold neighbors edgesOf
  cases s.suc[a]? with
  | none => rfl
  | some row => simp only [Option.map_some, Option.getD_some]; exact (rowRefs_tgt a 0 row).symm

theorem al_edges (s : State) (h : ListWF s) : edgesOk (nodeIndices s) (adjListTable s) := by
  simp only [edgesOk, adjListTable, whenSome_some]
  exact rowsMatch_rowsOver fun a _ => by
    rw [al_edges_eq s h a]; exact List.Perm.refl _

theorem al_nbrs (s : State) (h : ListWF s) : nbrsOk (nodeIndices s) (adjListTable s) := by
  simp only [nbrsOk, adjListTable, whenSome_some]
  exact rowsMatch_rowsOver fun a _ => by
    rw [al_nbrs_eq s a, al_edges_eq s h a]; exact List.Perm.refl _

theorem al_nbrsOut (s : State) : nbrsOutOk (nodeIndices s) (adjListTable s) := by
  simp only [nbrsOutOk, adjListTable, whenSome_some]
  intro _ h; cases h

theorem al_nbrsIn (s : State) : nbrsInOk (nodeIndices s) (adjListTable s) := by
  simp only [nbrsInOk, adjListTable, whenSome_some]
  intro _ h; cases h

theorem al_edgesOut (s : State) : edgesOutOk (nodeIndices s) (adjListTable s) := by
  simp only [edgesOutOk, adjListTable, whenSome_some]
  intro _ h; cases h

theorem al_edgesIn (s : State) : edgesInOk (nodeIndices s) (adjListTable s) := by
  simp only [edgesInOk, adjListTable, whenSome_some]
  intro _ h; cases h

/-! ### adjacency -/

theorem idx_lt {a b n : Nat} (ha : a < n) (hb : b < n) : a * n + b < n * n := by
  have h1 : (a + 1) * n ≤ n * n := Nat.mul_le_mul_right n ha
  rw [Nat.add_mul, Nat.one_mul] at h1
  omega

theorem idx_inj {a b c d n : Nat} (hb : b < n) (hd : d < n) (h : n * a + b = c * n + d) : a = c ∧ b = d := by
  rw [Nat.mul_comm c n] at h
  rcases Nat.lt_trichotomy a c with hac | hac | hac
  · have h1 : n * (a + 1) ≤ n * c := Nat.mul_le_mul_left n hac
    rw [Nat.mul_add, Nat.mul_one] at h1
    omega
  · subst hac; exact ⟨rfl, by omega⟩
  · have h1 : n * (c + 1) ≤ n * a := Nat.mul_le_mul_left n hac
    rw [Nat.mul_add, Nat.mul_one] at h1
    omega

/-- a run of `put`s that stay inside the capacity does not panic and sets exactly the given positions -/
theorem foldlM_put {α : Type} (f : α → Nat) : ∀ (l : List α) (m : Bits), (∀ x ∈ l, f x < m.cap) →
    l.foldlM (fun m e => m.put (f e)) m = some { cap := m.cap, ones := (l.map f).reverse ++ m.ones }
  | [], m, _ => by simp
  | x :: t, m, h => by
    have hx : f x < m.cap := h x (by simp)
    have hp : m.put (f x) = some { cap := m.cap, ones := f x :: m.ones } := by simp [Bits.put, hx]
    rw [List.foldlM_cons, hp]
    simp only [Option.bind_eq_bind, Option.bind_some]
    rw [foldlM_put f t { cap := m.cap, ones := f x :: m.ones } (fun y hy => h y (List.mem_cons_of_mem _ hy))]
    simp

/-- the positions `adjacency_matrix()` sets -/
def alBits (s : State) : List Nat :=
  ((plainRefs 0 s.suc).map fun e => e.1 * s.suc.length + e.2.2.1).reverse

/-- **`adjacency_matrix()` does not panic** in a well-formed state, and sets exactly the positions
`source * n + target` of the edge references -/
theorem adjacencyMatrix_eq (s : State) (h : ListWF s) :
    adjacencyMatrix s = some { cap := s.suc.length * s.suc.length, ones := alBits s } := by
  unfold adjacencyMatrix alBits
  simp only [State.nodeCount]
  rw [edgeReferences_eq s h, foldlM_put]
  · simp
  · intro r hr
    obtain ⟨_, h2, row, hrow, _, hx⟩ := mem_plainRefs hr
    exact idx_lt (by omega) (h.tgt row hrow _ hx)

theorem al_adj (s : State) (h : ListWF s) : adjOk (nodeIndices s) (adjListTable s) := by
  simp only [adjOk, adjListTable, whenSome_some]
  refine ⟨rowsOver_keys _ _, fun a ha b hb => ?_⟩
  rw [rowOf_rowsOver _ _ a ha]
  have hb' := (mem_nodeIndices s h b).1 hb
  simp only [List.mem_filter, hb, true_and, expAdj, List.any_eq_true, adjacencyMatrix_eq s h, Option.getD_some,
    isAdjacent, Bits.contains, alBits, State.nodeCount, List.contains_iff_mem, List.mem_reverse, List.mem_map,
    edgeReferences_eq s h]
  constructor
  · rintro ⟨r, hr, he⟩
    obtain ⟨_, _, row, hrow, _, hx⟩ := mem_plainRefs hr
    have ht := h.tgt row hrow _ hx
    obtain ⟨h1, h2⟩ := idx_inj hb' ht he.symm
    exact ⟨eref r, ⟨r, hr, rfl⟩, by simp [eref_src, eref_tgt, h1, h2]⟩
  · rintro ⟨_, ⟨r, hr, rfl⟩, he⟩
    simp only [eref_src, eref_tgt, Bool.not_true, Bool.false_and, Bool.or_false, Bool.and_eq_true, beq_iff_eq] at he
    exact ⟨r, hr, by rw [he.1, he.2, Nat.mul_comm]⟩

/-! ### the table of `adj::List` is consistent -/

theorem adjListTable_consistent (s : State) (h : ListWF s) :
    TableConsistent (nodeIndices s) (adjListTable s) where
  ids := al_ids s h
  refs := al_refs s
  index := al_index s h
  compact := al_compact s h
  erefs := al_erefs s h
  eix := al_eix s
  nbrs := al_nbrs s h
  nbrsOut := al_nbrsOut s
  nbrsIn := al_nbrsIn s
  edges := al_edges s h
  edgesOut := al_edgesOut s
  edgesIn := al_edgesIn s
  adj := al_adj s h

/-- on a query node the per-node iterators do not panic (`self.suc[a.index()]` is in range) and
`adjacency_matrix()` does not panic, so the `getD` defaults of `adjListTable` are never used -/
theorem adjListTable_no_default (s : State) (h : ListWF s) :
    (∀ a ∈ nodeIndices s, (neighbors s a).isSome = true ∧ (edgesOf s a).isSome = true) ∧
    (adjacencyMatrix s).isSome = true := by
  refine ⟨fun a ha => ?_, by rw [adjacencyMatrix_eq s h]; rfl⟩
  have ha' := (mem_nodeIndices s h a).1 ha
  simp [neighbors, edgesOf, List.getElem?_eq_getElem ha']

/-! ### every history from `List::new()` -/

/-- the successors an `add_node_from_edges` call names exist (or are the new node itself); every other call
checks its target itself (`add_edge`, `update_edge` panic beyond the list) -/
def OpTargetsOk (n : Nat) : AdjM.Op → Prop
  | .addNodeFromEdges es => ∀ x ∈ es, x.1 ≤ n
  | _ => True

/-- `OpTargetsOk` along a history that starts with `n` nodes -/
def TargetsOk : Nat → List AdjM.Op → Prop
  | _, [] => True
  | n, op :: ops => OpTargetsOk n op ∧ TargetsOk (AdjProofs.nAfter n op) ops

/-- the number of successor entries a call can add to one row -/
def opBudget : AdjM.Op → Nat
  | .addNodeFromEdges es => es.length
  | .addEdge _ _ _ => 1
  | .updateEdge _ _ _ => 1
  | _ => 0

def budget (ops : List AdjM.Op) : Nat := (ops.map opBudget).sum

/-- `s'` is `s`, or `s` with one row replaced by a row that is at most `c` longer and whose entries point
where an old entry of that row pointed or at an existing node -/
def RowStep (s s' : State) (c : Nat) : Prop :=
  s' = s ∨ ∃ a row row', s.suc[a]? = some row ∧
    (∀ y ∈ row', (∃ x ∈ row, y.1 = x.1) ∨ y.1 < s.suc.length) ∧
    row'.length ≤ row.length + c ∧ s' = { s with suc := s.suc.set a row' }

theorem addEdge_rowStep (s : State) (a b : Nat) (w : Int) : RowStep s (step s (.addEdge a b w)).1 1 := by
  simp only [step, AdjM.addEdge]
  by_cases hb : b ≥ s.suc.length
  · simp only [hb, if_true]; exact Or.inl rfl
  · simp only [hb, if_false]
    cases hrow : s.suc[a]? with
    | none => exact Or.inl rfl
    | some row =>
      refine Or.inr ⟨a, row, row ++ [(b, w)], hrow, ?_, by simp, rfl⟩
      intro y hy
      rcases List.mem_append.1 hy with hy | hy
      · exact Or.inl ⟨y, hy, rfl⟩
      · right
        simp only [List.mem_singleton] at hy
        subst hy
        show b < s.suc.length
        omega

theorem updateEdge_rowStep (s : State) (a b : Nat) (w : Int) : RowStep s (step s (.updateEdge a b w)).1 1 := by
  simp only [step, AdjM.updateEdge]
  by_cases hb : b ≥ s.suc.length
  · simp only [hb, if_true]; exact Or.inl rfl
  · simp only [hb, if_false]
    have hb' : b < s.suc.length := by omega
    cases hrow : s.suc[a]? with
    | none => exact Or.inl rfl
    | some row =>
      dsimp only
      cases hf : findIn b row 0 with
      | none =>
        refine Or.inr ⟨a, row, row ++ [(b, w)], hrow, ?_, by simp, rfl⟩
        intro y hy
        rcases List.mem_append.1 hy with hy | hy
        · exact Or.inl ⟨y, hy, rfl⟩
        · right
          simp only [List.mem_singleton] at hy
          subst hy
          exact hb'
      | some i =>
        refine Or.inr ⟨a, row, row.set i (b, w), hrow, ?_, by simp, rfl⟩
        intro y hy
        rcases List.mem_or_eq_of_mem_set hy with hy | hy
        · exact Or.inl ⟨y, hy, rfl⟩
        · right; subst hy; exact hb'

theorem setEdgeWeight_rowStep (s : State) (e : EIx) (w : Int) :
    RowStep s (step s (.setEdgeWeight e w)).1 0 := by
  simp only [step, AdjM.setEdgeWeight]
  cases hrow : s.suc[e.1]? with
  | none => exact Or.inl rfl
  | some row =>
    dsimp only
    cases hx : row[e.2]? with
    | none => exact Or.inl rfl
    | some x =>
      refine Or.inr ⟨e.1, row, row.set e.2 (x.1, w), hrow, ?_, by simp, rfl⟩
      intro y hy
      rcases List.mem_or_eq_of_mem_set hy with hy | hy
      · exact Or.inl ⟨y, hy, rfl⟩
      · subst hy
        exact Or.inl ⟨x, List.mem_of_getElem? hx, rfl⟩

theorem RowStep.modulus {s s' : State} {c : Nat} (hs : RowStep s s' c) : s'.modulus = s.modulus := by
  rcases hs with rfl | ⟨a, row, row', _, _, _, rfl⟩ <;> rfl

theorem RowStep.length {s s' : State} {c : Nat} (hs : RowStep s s' c) : s'.suc.length = s.suc.length := by
  rcases hs with rfl | ⟨a, row, row', _, _, _, rfl⟩
  · rfl
  · simp

theorem RowStep.wf {s s' : State} {c : Nat} (hs : RowStep s s' c) (h : ListWF s) : ListWF s' := by
  rcases hs with rfl | ⟨a, row, row', hrow, ht, _, rfl⟩
  · exact h
  · refine ⟨by simpa using h.fits, ?_⟩
    intro r hr x hx
    simp only [List.length_set]
    rcases List.mem_or_eq_of_mem_set hr with hr | hr
    · exact h.tgt r hr x hx
    · subst hr
      rcases ht x hx with ⟨x0, hx0, e⟩ | hlt
      · rw [e]; exact h.tgt row (List.mem_of_getElem? hrow) x0 hx0
      · exact hlt

theorem RowStep.rowsLe {s s' : State} {c B : Nat} (hs : RowStep s s' c) (h : RowsLe B s) : RowsLe (B + c) s' := by
  rcases hs with rfl | ⟨a, row, row', hrow, _, hl, rfl⟩
  · intro r hr; have := h r hr; omega
  · intro r hr
    rcases List.mem_or_eq_of_mem_set hr with hr | hr
    · have := h r hr; omega
    · subst hr
      have := h row (List.mem_of_getElem? hrow); omega

theorem step_modulus (s : State) (op : AdjM.Op) : (step s op).1.modulus = s.modulus :=
  (AdjProofs.step_shape s op).1

/-- `hfit`: an `add_node*` call is not made on a list that is full for its index type (there it panics — /repo
commit 8cab180 — and the count stays; `AdjProofs.nAfter` is the count after a call that does not panic) -/
theorem step_length (s : State) (op : AdjM.Op)
    (hfit : (op = .addNode ∨ ∃ es, op = .addNodeFromEdges es) → s.modulus = 0 ∨ s.suc.length < s.modulus) :
    (step s op).1.suc.length = AdjProofs.nAfter s.suc.length op := by
  rw [(AdjProofs.step_shape s op).2, AdjProofs.nAfterC_of_fit _ _ op hfit]

/-- **every call preserves well-formedness** (an `add_node*` call must fit the index type, an
`add_node_from_edges` call must name existing nodes) -/
theorem step_wf (s : State) (op : AdjM.Op) (h : ListWF s)
    (hfit : (op = .addNode ∨ ∃ es, op = .addNodeFromEdges es) → s.modulus = 0 ∨ s.suc.length < s.modulus)
    (ht : OpTargetsOk s.suc.length op) : ListWF (step s op).1 := by
  cases op with
  | addEdge a b w => exact (addEdge_rowStep s a b w).wf h
  | updateEdge a b w => exact (updateEdge_rowStep s a b w).wf h
  | setEdgeWeight e w => exact (setEdgeWeight_rowStep s e w).wf h
  | clear => exact ⟨by simp [step, AdjM.clear], by intro r hr; simp [step, AdjM.clear] at hr⟩
  | addNode =>
    have hf := hfit (Or.inl rfl)
    have hnx := AdjProofs.nextNodeIndex_fit s hf
    refine ⟨?_, ?_⟩
    · simp only [step, AdjM.addNode, hnx, List.length_append, List.length_cons, List.length_nil]; omega
    · intro r hr x hx
      simp only [step, AdjM.addNode, hnx, List.length_append, List.length_cons, List.length_nil,
        List.mem_append, List.mem_singleton] at hr ⊢
      rcases hr with hr | hr
      · have := h.tgt r hr x hx; omega
      · subst hr; simp at hx
  | addNodeFromEdges es =>
    have hf := hfit (Or.inr ⟨es, rfl⟩)
    have hnx := AdjProofs.nextNodeIndex_fit s hf
    refine ⟨?_, ?_⟩
    · simp only [step, AdjM.addNodeFromEdges, hnx, List.length_append, List.length_cons, List.length_nil]; omega
    · intro r hr x hx
      simp only [step, AdjM.addNodeFromEdges, hnx, List.length_append, List.length_cons, List.length_nil,
        List.mem_append, List.mem_singleton] at hr ⊢
      rcases hr with hr | hr
      · have := h.tgt r hr x hx; omega
      · subst hr
        have := ht x hx; omega

theorem step_rowsLe (s : State) (op : AdjM.Op) (B : Nat) (h : RowsLe B s) :
    RowsLe (B + opBudget op) (step s op).1 := by
  cases op with
  | addEdge a b w => exact (addEdge_rowStep s a b w).rowsLe h
  | updateEdge a b w => exact (updateEdge_rowStep s a b w).rowsLe h
  | setEdgeWeight e w => exact (setEdgeWeight_rowStep s e w).rowsLe h
  | clear => intro r hr; simp [step, AdjM.clear] at hr
  | addNode =>
    intro r hr
    by_cases hf : s.modulus = 0 ∨ s.suc.length < s.modulus
    · simp only [step, AdjM.addNode, AdjProofs.nextNodeIndex_fit s hf, List.mem_append, List.mem_singleton] at hr
      rcases hr with hr | hr
      · have := h r hr; omega
      · subst hr; simp
    · simp only [step, AdjM.addNode, AdjProofs.nextNodeIndex_full s hf] at hr
      have := h r hr; omega
  | addNodeFromEdges es =>
    intro r hr
    by_cases hf : s.modulus = 0 ∨ s.suc.length < s.modulus
    · simp only [step, AdjM.addNodeFromEdges, AdjProofs.nextNodeIndex_fit s hf, List.mem_append,
        List.mem_singleton] at hr
      rcases hr with hr | hr
      · have := h r hr; omega
      · subst hr; simp [opBudget]
    · simp only [step, AdjM.addNodeFromEdges, AdjProofs.nextNodeIndex_full s hf] at hr
      have := h r hr; omega

theorem run_cons_fst (s : State) (op : AdjM.Op) (ops : List AdjM.Op) :
    (run s (op :: ops)).1 = (run (step s op).1 ops).1 := by
  simp [run]

theorem run_wf : ∀ (ops : List AdjM.Op) (s : State), ListWF s →
    AdjProofs.Fits s.modulus s.suc.length ops → TargetsOk s.suc.length ops → ListWF (run s ops).1
  | [], _, h, _, _ => h
  | op :: ops, s, h, hf, ht => by
    rw [AdjProofs.fits_iff] at hf
    rw [run_cons_fst]
    apply run_wf ops _ (step_wf s op h hf.1 ht.1)
    · rw [step_modulus, step_length s op hf.1]; exact hf.2
    · rw [step_length s op hf.1]; exact ht.2

theorem run_rowsLe : ∀ (ops : List AdjM.Op) (s : State) (B : Nat), RowsLe B s →
    RowsLe (B + budget ops) (run s ops).1
  | [], _, _, h => by simpa [budget, run] using h
  | op :: ops, s, B, h => by
    rw [run_cons_fst]
    have := run_rowsLe ops _ _ (step_rowsLe s op B h)
    simpa [budget, Nat.add_assoc] using this

theorem new_wf (m : Nat) : ListWF (AdjM.new m) :=
  ⟨by simp [AdjM.new], by intro r hr; simp [AdjM.new] at hr⟩

/-! #### wave 5: no `LFits`, no bound on the rows

At the capacity of the index type `add_node*` panics and leaves the list as it was (/repo commit 8cab180), so
well-formedness needs no hypothesis on the history; the id code `pcode` needs no bound on the rows.  The only side
condition left is the one the Rust API itself leaves to the caller: `add_node_from_edges` must name existing nodes
(`OpTargetsOk`, evaluated at the node count of the state the call is made in). -/

/-- **every call preserves well-formedness** (an `add_node_from_edges` call must name existing nodes) -/
theorem step_wf' (s : State) (op : AdjM.Op) (h : ListWF s) (ht : OpTargetsOk s.suc.length op) :
    ListWF (step s op).1 := by
  by_cases hfit : s.modulus = 0 ∨ s.suc.length < s.modulus
  · exact step_wf s op h (fun _ => hfit) ht
  · cases op with
    | addNode => simpa only [step, AdjM.addNode, AdjProofs.nextNodeIndex_full s hfit] using h
    | addNodeFromEdges es => simpa only [step, AdjM.addNodeFromEdges, AdjProofs.nextNodeIndex_full s hfit] using h
    | addEdge a b w => exact step_wf s _ h (by rintro (h | ⟨_, h⟩) <;> cases h) ht
    | updateEdge a b w => exact step_wf s _ h (by rintro (h | ⟨_, h⟩) <;> cases h) ht
    | setEdgeWeight e w => exact step_wf s _ h (by rintro (h | ⟨_, h⟩) <;> cases h) ht
    | clear => exact step_wf s _ h (by rintro (h | ⟨_, h⟩) <;> cases h) ht

/-- `OpTargetsOk` along a history, evaluated at the node count of the state each call is made in -/
def TargetsOkRun : State → List AdjM.Op → Prop
  | _, [] => True
  | s, op :: ops => OpTargetsOk s.suc.length op ∧ TargetsOkRun (step s op).1 ops

theorem run_wf' : ∀ (ops : List AdjM.Op) (s : State), ListWF s → TargetsOkRun s ops → ListWF (run s ops).1
  | [], _, h, _ => h
  | op :: ops, s, h, ht => by
    rw [run_cons_fst]
    exact run_wf' ops _ (step_wf' s op h ht.1) ht.2

/-- the old pair of hypotheses implies the new one -/
theorem targetsOkRun_of_fits : ∀ (ops : List AdjM.Op) (s : State),
    AdjProofs.Fits s.modulus s.suc.length ops → TargetsOk s.suc.length ops → TargetsOkRun s ops
  | [], _, _, _ => trivial
  | op :: ops, s, hf, ht => by
    rw [AdjProofs.fits_iff] at hf
    refine ⟨ht.1, targetsOkRun_of_fits ops _ ?_ ?_⟩
    · rw [step_modulus, step_length s op hf.1]; exact hf.2
    · rw [step_length s op hf.1]; exact ht.2

/-- a history without `add_node_from_edges` meets the side condition -/
theorem targetsOkRun_of_plain : ∀ (ops : List AdjM.Op) (s : State),
    (∀ op ∈ ops, ∀ es, op ≠ .addNodeFromEdges es) → TargetsOkRun s ops
  | [], _, _ => trivial
  | op :: ops, s, h => by
    refine ⟨?_, targetsOkRun_of_plain ops _ fun o ho => h o (List.mem_cons_of_mem _ ho)⟩
    cases op with
    | addNodeFromEdges es => exact absurd rfl (h _ (by simp) es)
    | _ => trivial

/-- **C06 for `adj::List`, every history** from `List::new()`: any sequence of `add_node*`, `add_edge`,
`update_edge`, `edge_weight_mut`, `clear` calls — valid or panicking, of any length, up to and beyond the capacity
of the index type — whose `add_node_from_edges` calls name existing nodes leaves a state that is the insertion
log's image (`LAbs`) and whose `visit` table is consistent. -/
theorem adjListTable_consistent_all_histories (m : Nat) (ops : List AdjM.Op)
    (ht : TargetsOkRun (AdjM.new m) ops) :
    TableConsistent (nodeIndices (run (AdjM.new m) ops).1) (adjListTable (run (AdjM.new m) ops).1) ∧
    C05T.LAbs (run (AdjM.new m) ops).1 (C05T.lspecRun m {} ops).1 :=
  ⟨adjListTable_consistent _ (run_wf' ops (AdjM.new m) (new_wf m) ht),
    (C05T.C05_list_all_histories m ops).1⟩

/-- the wave-2 statement (hypotheses `LFits`, `TargetsOk`, budget ≤ 100) is a corollary -/
theorem adjListTable_consistent_all_histories' (m : Nat) (ops : List AdjM.Op)
    (hf : C05T.LFits m 0 ops) (ht : TargetsOk 0 ops) :
    TableConsistent (nodeIndices (run (AdjM.new m) ops).1) (adjListTable (run (AdjM.new m) ops).1) :=
  (adjListTable_consistent_all_histories m ops (targetsOkRun_of_fits ops (AdjM.new m) hf ht)).1

/-! non-vacuity: a history with a self-loop, parallel edges, an overwrite, a panicking call and a
`add_node_from_edges` that names the new node itself -/
example : C05T.LFits 256 0 [.addNode, .addNode, .addEdge 0 1 5, .addEdge 0 1 6, .updateEdge 0 1 9, .addEdge 0 7 1,
    .addNodeFromEdges [(2, 1), (0, 4)], .addEdge 1 1 3] := by simp [AdjProofs.Fits]
example : TargetsOk 0 [.addNode, .addNode, .addEdge 0 1 5, .addEdge 0 1 6, .updateEdge 0 1 9, .addEdge 0 7 1,
    .addNodeFromEdges [(2, 1), (0, 4)], .addEdge 1 1 3] := by simp [TargetsOk, OpTargetsOk, AdjProofs.nAfter]
example : (run (AdjM.new 256) [.addNode, .addNode, .addEdge 0 1 5, .addEdge 0 1 6, .updateEdge 0 1 9, .addEdge 0 7 1,
    .addNodeFromEdges [(2, 1), (0, 4)], .addEdge 1 1 3]).1.suc = [[(1, 9), (1, 6)], [(1, 3)], [(2, 1), (0, 4)]] := by decide

/-- without `TargetsOk` the statement is false: `add_node_from_edges` stores a successor that is not a node -/
example : ¬ erefsOk (adjListTable (run (AdjM.new 0) [.addNode, .addNodeFromEdges [(5, 4)]]).1) := by decide

end PetgraphModel.Visit
