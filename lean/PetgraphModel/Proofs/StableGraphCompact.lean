import PetgraphModel.Proofs.StableGraphBulk
import PetgraphModel.Proofs.StableGraphRefine
/-
C02 helper lemmas, part 8: the round trip through `Graph` refines the reference (`Spec.compact`).
-/
namespace PetgraphModel.SGProofs
open PetgraphModel PetgraphModel.SG PetgraphModel.SGSpec

theorem nodeList_snd (l : List (Option Int)) (o : Nat) : (nodeList l o).map (·.2) = l.filterMap id := by
  induction l generalizing o with
  | nil => rfl
  | cons x xs ih => cases x <;> simp [nodeList, ih]

theorem edgeList_map_snd {β : Type} (F : SEdge → β) (l : List (Option SEdge)) (o : Nat) :
    (edgeList l o).map (fun p => F p.2) = l.filterMap (fun oe => oe.map F) := by
  induction l generalizing o with
  | nil => rfl
  | cons x xs ih => cases x <;> simp [edgeList, ih]

theorem filterMap_congr' {α β : Type} {f g : α → Option β} : ∀ (l : List α), (∀ x ∈ l, f x = g x) →
    l.filterMap f = l.filterMap g := by
  intro l
  induction l with
  | nil => intro _; rfl
  | cons a t ih =>
    intro h
    simp only [List.filterMap_cons, h a List.mem_cons_self, ih (fun x hx => h x (List.mem_cons_of_mem _ hx))]

/-- `Graph::from(stable_graph)` (and back): the result is the compaction of the reference -/
theorem toGraph_refines {s g : State} (hinv : Inv s) (h : toGraph s = .ok g) :
    abs g = (abs s).compact ∧ Inv g ∧ g.fin = s.fin := by
  have h0 : FMInv (empty s.directed s.fin s.noLimit s.debug) s.fin s.fin :=
    ⟨inv_empty s.directed s.fin s.noLimit s.debug, rfl, rfl⟩
  obtain ⟨g0, m, hrun0, hg0, hall0, he0, hf0, _, hlen0, hm0, hmr0, hnw0, hdir0⟩ := toGraphNodes_spec s.nodes (g := empty s.directed s.fin s.noLimit s.debug)
    (m := []) [] h0 (fun i hi => by simp [SG.empty] at hi) (by have := hinv.lenN; simp [SG.empty]; omega) rfl (fun j n hn => by simp at hn)
    (by simp [SG.empty]) (fun j n hn => by simp at hn)
  simp only [List.nil_append] at hlen0 hm0 hmr0
  have hfin0 : g0.fin = s.fin := hf0
  have hel0 : g0.edges.length = 0 := by rw [he0]; rfl
  have hbound : ∀ (x : Nat) (nx : Node), s.nodes[x]? = some nx → nx.w.isSome → x < nodeBound s := by
    intro x nx hnx hlx
    by_cases hlt : x < nodeBound s
    · exact hlt
    · have := boundOf_above' (s.nodes.map (·.w)) x (by unfold nodeBound at hlt; omega)
      rw [List.getElem?_map, hnx] at this
      simp at this
      rw [this] at hlx; simp at hlx
  have hendp : ∀ (ei : Nat) (x : Edge), s.edges[ei]? = some x → x.w.isSome →
      (m.take (nodeBound s))[x.a]? = some (rankOf (s.nodes.map (·.w)) x.a) ∧
      (m.take (nodeBound s))[x.b]? = some (rankOf (s.nodes.map (·.w)) x.b) ∧
      rankOf (s.nodes.map (·.w)) x.a < g0.nodes.length ∧ rankOf (s.nodes.map (·.w)) x.b < g0.nodes.length := by
    intro ei x hx hl
    have hendp := hinv.endp ei x hx hl
    obtain ⟨na, hna, hacta⟩ := hendp 0 (by omega)
    obtain ⟨nb, hnb, hactb⟩ := hendp 1 (by omega)
    simp only [Edge.node_zero, Edge.node_one] at hna hnb hacta hactb
    have hla : na.w.isSome := by rcases hacta with h' | h'; exact h'; cases h'
    have hlb : nb.w.isSome := by rcases hactb with h' | h'; exact h'; cases h'
    obtain ⟨sa, hsa, hsal⟩ := hm0 _ na hna hla
    obtain ⟨sb, hsb, hsbl⟩ := hm0 _ nb hnb hlb
    have ra := hmr0 _ na hna hla
    have rb := hmr0 _ nb hnb hlb
    rw [hsa] at ra; rw [hsb] at rb
    cases ra; cases rb
    refine ⟨?_, ?_, hsal, hsbl⟩
    · rw [List.getElem?_take_of_lt (hbound _ na hna hla)]; exact hsa
    · rw [List.getElem?_take_of_lt (hbound _ nb hnb hlb)]; exact hsb
  obtain ⟨g', hrun, hg, hnw, hdir, hew, hfin'⟩ := toGraphEdges_spec (m.take (nodeBound s)) s.edges hg0 hall0 (by
    have := hinv.lenE; rw [hel0, hfin0]; omega) (fun e he hl => by
      obtain ⟨ei, hei, rfl⟩ := List.getElem_of_mem he
      obtain ⟨k1, k2, k3, k4⟩ := hendp ei _ (List.getElem?_eq_getElem hei) hl
      exact ⟨_, _, k1, k2, k3, k4⟩)
  have hgeq : toGraph s = .ok g' := by simp [toGraph, hrun0, hrun]
  rw [h] at hgeq; cases hgeq
  refine ⟨?_, by have := hg.inv; unfold Inv; rw [hg.freeN, hg.freeE]; exact this, by rw [hfin', hfin0]⟩
  unfold abs Spec.compact
  congr 1
  · rw [hdir, hdir0]; rfl
  · rw [hnw, hnw0]
    simp only [SG.empty, List.map_nil, List.nil_append]
    show _ = List.map (fun p => some p.2) (nodeList (s.nodes.map (·.w)) 0)
    rw [show List.map (fun p : Nat × Int => some p.2) (nodeList (s.nodes.map (·.w)) 0) =
        List.map some ((nodeList (s.nodes.map (·.w)) 0).map (·.2)) from by rw [List.map_map]; rfl]
    rw [nodeList_snd, List.filterMap_map]
    rfl
  · rw [hew, he0]
    simp only [SG.empty, List.map_nil, List.nil_append]
    show _ = List.map (fun p => some (⟨Spec.rank (abs s) p.2.a, Spec.rank (abs s) p.2.b, p.2.w⟩ : SEdge))
      (edgeList (s.edges.map absEdge) 0)
    rw [edgeList_map_snd (fun x : SEdge => some (⟨Spec.rank (abs s) x.a, Spec.rank (abs s) x.b, x.w⟩ : SEdge)),
      List.filterMap_map]
    apply filterMap_congr'
    intro e he
    simp only [Function.comp, absEdge]
    cases hw : e.w with
    | none => rfl
    | some w =>
      obtain ⟨ei, hei, rfl⟩ := List.getElem_of_mem he
      obtain ⟨k1, k2, _, _⟩ := hendp ei _ (List.getElem?_eq_getElem hei) (by rw [hw]; rfl)
      simp only [Option.map_some, k1, k2, Option.getD_some]
      rfl


/-! ### without vacancies the round trip keeps every index -/

theorem countP_le_boundOf {α : Type} (l : List (Option α)) : l.countP Option.isSome ≤ boundOf l := by
  induction l with
  | nil => simp [boundOf]
  | cons x xs ih =>
    simp only [List.countP_cons, boundOf]
    by_cases hr : boundOf xs > 0
    · simp only [hr, if_true]
      by_cases hx : x.isSome = true <;> simp [hx] <;> omega
    · simp only [hr, if_false]
      have : xs.countP Option.isSome = 0 := by omega
      by_cases hx : x.isSome = true <;> simp [hx, this]

theorem all_live_of_count_eq_bound {α : Type} (l : List (Option α)) (h : l.countP Option.isSome = boundOf l) :
    ∀ i, i < boundOf l → ∃ a, l[i]? = some (some a) := by
  induction l with
  | nil => intro i hi; simp [boundOf] at hi
  | cons x xs ih =>
    have hle := countP_le_boundOf xs
    simp only [List.countP_cons, boundOf] at h ⊢
    by_cases hr : boundOf xs > 0
    · simp only [hr, if_true] at h ⊢
      cases x with
      | none =>
        have h' : xs.countP Option.isSome = boundOf xs + 1 := by simpa using h
        omega
      | some a =>
        have h' : xs.countP Option.isSome = boundOf xs := by simpa using h
        intro i hi
        cases i with
        | zero => exact ⟨a, rfl⟩
        | succ j => simpa using ih h' j (by omega)
    · simp only [hr, if_false] at h ⊢
      cases x with
      | none => intro i hi; simp at hi
      | some a =>
        intro i hi
        simp at hi
        subst hi
        exact ⟨a, rfl⟩

theorem nodeList_of_bound_zero : ∀ (l : List (Option Int)) (o : Nat), boundOf l = 0 → nodeList l o = [] := by
  intro l
  induction l with
  | nil => intro o _; rfl
  | cons x xs ih =>
    intro o h
    simp only [boundOf] at h
    split at h
    · omega
    · split at h
      · omega
      · rename_i hx
        cases x with
        | none => simp only [nodeList]; exact ih (o + 1) (by omega)
        | some _ => simp at hx

theorem edgeList_of_bound_zero' : ∀ (l : List (Option SEdge)) (o : Nat), boundOf l = 0 → edgeList l o = [] := by
  intro l
  induction l with
  | nil => intro o _; rfl
  | cons x xs ih =>
    intro o h
    simp only [boundOf] at h
    split at h
    · omega
    · split at h
      · omega
      · rename_i hx
        cases x with
        | none => simp only [edgeList]; exact ih (o + 1) (by omega)
        | some _ => simp at hx

/-- in a list whose live slots form a prefix, the `i`-th live element is slot `i` -/
theorem nodeList_getElem_prefix : ∀ (l : List (Option Int)) (o : Nat), (∀ i, i < boundOf l → ∃ a, l[i]? = some (some a)) →
    ∀ i, (nodeList l o)[i]? = ((l[i]?).join).map (fun a => (o + i, a)) := by
  intro l
  induction l with
  | nil => intro o _ i; simp [nodeList]
  | cons x xs ih =>
    intro o hall i
    cases x with
    | none =>
      have hb : boundOf (none :: xs) = 0 := by
        by_cases hb : boundOf (none :: xs) = 0
        · exact hb
        · obtain ⟨a, ha⟩ := hall 0 (by omega); simp at ha
      have hbx : boundOf xs = 0 := by
        simp only [boundOf] at hb
        split at hb <;> omega
      have := boundOf_above (none :: xs) i (by omega)
      rw [this]
      simp [nodeList, nodeList_of_bound_zero xs (o + 1) hbx]
    | some a =>
      have hallx : ∀ j, j < boundOf xs → ∃ b, xs[j]? = some (some b) := by
        intro j hj
        have : j + 1 < boundOf (some a :: xs) := by simp only [boundOf]; split <;> omega
        simpa using hall (j + 1) this
      cases i with
      | zero => simp [nodeList]
      | succ j =>
        simp only [nodeList, List.getElem?_cons_succ, ih (o + 1) hallx j]
        have : o + 1 + j = o + (j + 1) := by omega
        rw [this]

theorem edgeList_getElem_prefix : ∀ (l : List (Option SEdge)) (o : Nat), (∀ i, i < boundOf l → ∃ a, l[i]? = some (some a)) →
    ∀ i, (edgeList l o)[i]? = ((l[i]?).join).map (fun a => (o + i, a)) := by
  intro l
  induction l with
  | nil => intro o _ i; simp [edgeList]
  | cons x xs ih =>
    intro o hall i
    cases x with
    | none =>
      have hb : boundOf (none :: xs) = 0 := by
        by_cases hb : boundOf (none :: xs) = 0
        · exact hb
        · obtain ⟨a, ha⟩ := hall 0 (by omega); simp at ha
      have hbx : boundOf xs = 0 := by
        simp only [boundOf] at hb
        split at hb <;> omega
      have := boundOf_above (none :: xs) i (by omega)
      rw [this]
      simp [edgeList, edgeList_of_bound_zero' xs (o + 1) hbx]
    | some a =>
      have hallx : ∀ j, j < boundOf xs → ∃ b, xs[j]? = some (some b) := by
        intro j hj
        have : j + 1 < boundOf (some a :: xs) := by simp only [boundOf]; split <;> omega
        simpa using hall (j + 1) this
      cases i with
      | zero => simp [edgeList]
      | succ j =>
        simp only [edgeList, List.getElem?_cons_succ, ih (o + 1) hallx j]
        have : o + 1 + j = o + (j + 1) := by omega
        rw [this]

theorem rank_eq_of_prefix (l : List (Option Int)) (hall : ∀ i, i < boundOf l → ∃ a, l[i]? = some (some a))
    {i : Nat} (hi : i ≤ boundOf l) : (l.take i).countP Option.isSome = i := by
  have hlen : (l.take i).length = i := by
    have := boundOf_le l
    simp; omega
  have hall' : (l.take i).countP Option.isSome = (l.take i).length := by
    apply List.countP_eq_length.2
    intro x hx
    obtain ⟨j, hj, rfl⟩ := List.getElem_of_mem hx
    have hj' : j < i := by rw [hlen] at hj; exact hj
    obtain ⟨a, ha⟩ := hall j (by omega)
    have hx' : (l.take i)[j]? = some (some a) := by rw [List.getElem?_take_of_lt hj']; exact ha
    rw [List.getElem?_eq_getElem hj] at hx'
    injection hx' with hx'
    rw [hx']; rfl
  rw [hall', hlen]

theorem abs_edge_rev' {s : State} {e : Nat} {y : SEdge} (h : (abs s).edge e = some y) :
    ∃ x, s.edges[e]? = some x ∧ x.w = some y.w ∧ x.a = y.a ∧ x.b = y.b := by
  unfold Spec.edge at h; rw [abs_edges, List.getElem?_map] at h
  cases hx : s.edges[e]? with
  | none => rw [hx] at h; simp at h
  | some x =>
    rw [hx] at h
    simp only [Option.map_some, Option.join_some, absEdge] at h
    cases hw : x.w with
    | none => rw [hw] at h; simp at h
    | some w => rw [hw] at h; simp at h; subst h; exact ⟨x, rfl, by simp [hw], rfl, rfl⟩

/-- the documented clause of `From<StableGraph> for Graph`: if `node_bound == node_count` and `edge_bound == edge_count`
(no vacancies), every node and edge keeps its index -/
theorem compact_no_vacancy (sp : Spec) (hwf : ∀ e x, sp.edge e = some x → sp.nodeLive x.a = true ∧ sp.nodeLive x.b = true)
    (hn : sp.nodeCount = sp.nodeBound) (he : sp.edgeCount = sp.edgeBound) : sp.compact.equiv sp := by
  have hnb : sp.nodeBound = boundOf sp.nodes := by
    unfold Spec.nodeBound Spec.nodeIds; rw [lastPlus1_liveIds]; split <;> omega
  have heb : sp.edgeBound = boundOf sp.edges := by
    unfold Spec.edgeBound Spec.edgeIds; rw [lastPlus1_liveIds]; split <;> omega
  have hnc : sp.nodeCount = sp.nodes.countP Option.isSome := by
    unfold Spec.nodeCount Spec.nodeIds; rw [liveIds_length]
  have hec : sp.edgeCount = sp.edges.countP Option.isSome := by
    unfold Spec.edgeCount Spec.edgeIds; rw [liveIds_length]
  have hallN := all_live_of_count_eq_bound sp.nodes (by rw [← hnc, hn, hnb])
  have hallE := all_live_of_count_eq_bound sp.edges (by rw [← hec, he, heb])
  refine ⟨rfl, fun i => ?_, fun e => ?_⟩
  · unfold Spec.compact Spec.node Spec.nodeRefs
    simp only [List.getElem?_map, nodeList_getElem_prefix sp.nodes 0 hallN i]
    cases (sp.nodes[i]?).join <;> rfl
  · unfold Spec.compact Spec.edge Spec.edgeRefs
    simp only [List.getElem?_map, edgeList_getElem_prefix sp.edges 0 hallE e]
    cases hx : (sp.edges[e]?).join with
    | none => rfl
    | some x =>
      simp only [Option.map_some, Option.join_some]
      obtain ⟨ha, hb⟩ := hwf e x (by unfold Spec.edge; exact hx)
      have hlt : ∀ y, sp.nodeLive y = true → y < boundOf sp.nodes := by
        intro y hy
        by_cases hlt : y < boundOf sp.nodes
        · exact hlt
        · have := boundOf_above sp.nodes y (by omega)
          unfold Spec.nodeLive Spec.node at hy; rw [this] at hy; simp at hy
      have ra : sp.rank x.a = x.a := rank_eq_of_prefix sp.nodes hallN (by have := hlt _ ha; omega)
      have rb : sp.rank x.b = x.b := rank_eq_of_prefix sp.nodes hallN (by have := hlt _ hb; omega)
      rw [ra, rb]

theorem toGraph_no_vacancy {s g : State} (hinv : Inv s) (h : toGraph s = .ok g)
    (hn : s.nodeCount = nodeBound s) (he : s.edgeCount = edgeBound s) : (abs g).equiv (abs s) := by
  rw [(toGraph_refines hinv h).1]
  apply compact_no_vacancy
  · intro e x hx
    obtain ⟨xm, hxm, hw, ha, hb⟩ := abs_edge_rev' hx
    have hl : xm.w.isSome := by rw [hw]; rfl
    obtain ⟨na, hna, hacta⟩ := hinv.endp e xm hxm hl 0 (by omega)
    obtain ⟨nb, hnb, hactb⟩ := hinv.endp e xm hxm hl 1 (by omega)
    simp only [Edge.node_zero, Edge.node_one] at hna hnb hacta hactb
    constructor
    · unfold Spec.nodeLive; rw [abs_node, ← ha]; unfold nodeWeight; rw [hna]
      rcases hacta with h' | h'; exact h'; cases h'
    · unfold Spec.nodeLive; rw [abs_node, ← hb]; unfold nodeWeight; rw [hnb]
      rcases hactb with h' | h'; exact h'; cases h'
  · rw [← (counts_abs hinv).1, hn, nodeBound_abs]
  · rw [← (counts_abs hinv).2, he, edgeBound_abs]

end PetgraphModel.SGProofs
