import PetgraphModel.Proofs.C15W2BlossomStep
import PetgraphModel.Proofs.C15W2Mirror
/-
C15 wave 2 — the concrete state of a search (`SInv`), and the walks of `find_join` over the inner
vertices of a path as chains of array look-ups.
-/
namespace PetgraphModel.C15W2
open PetgraphModel PetgraphModel.C15 PetgraphModel.C15M PetgraphModel.C15P

/-- the abstract state read off the arrays -/
def absOf (c : Ctx) (lab : List Label) (fi : List Nat) (P : Nat → PL) (ord : List Nat) : AS :=
  { L := fun a => labI lab (c.v.toIndex a), F := fun a => fiI fi (c.v.toIndex a), P := P, ord := ord }

/-- the invariant of the state of `gabowSearch` while no augmenting path has been found -/
structure SInv (c : Ctx) (s : GS) (P : Nat → PL) (ord : List Nat) : Prop where
  mate : s.mate = c.m0
  fault : s.fault = false
  labLen : s.label.length = c.v.nb + 1
  fiLen : s.fi.length = c.v.nb + 1
  abs : AInv c (absOf c s.label s.fi P ord)
  dummyLab : (labI s.label c.v.nb).isOuter = false
  fiBound : ∀ i, (labI s.label i).isOuter = true → fiI s.fi i ≤ c.v.nb
  flags : ∀ i k', labI s.label i = .flag k' → ∃ a b eid, (b, eid) ∈ c.v.outOf a ∧
    k' = edgeKey c.mode eid a b ∧ (labI s.label (c.v.toIndex a)).isOuter = true ∧
    (labI s.label (c.v.toIndex b)).isOuter = true ∧
    fiI s.fi (c.v.toIndex a) = fiI s.fi (c.v.toIndex b)

/-- one hop of the walks of `find_join`: from the inner vertex with index `i` to the next inner
vertex of the path -/
def Link (v : View) (m0 : List (Option Nat)) (lab : List Label) (fi : List Nat) (i i' : Nat) : Prop :=
  ∃ p y, getM m0 i = some p ∧ v.toIndex p ≤ v.nb ∧ labI lab (v.toIndex p) = .vertex y ∧
    v.toIndex y ≤ v.nb ∧ (labI lab (v.toIndex y)).isOuter = true ∧ fiI fi (v.toIndex y) = i'

def Chained (R : Nat → Nat → Prop) : List Nat → Prop
  | [] => True
  | [_] => True
  | i :: i' :: r => R i i' ∧ Chained R (i' :: r)

theorem Link.det {v : View} {m0 : List (Option Nat)} {lab : List Label} {fi : List Nat} {i i1 i2 : Nat}
    (h1 : Link v m0 lab fi i i1) (h2 : Link v m0 lab fi i i2) : i1 = i2 := by
  obtain ⟨p, y, a1, _, a3, _, _, a5⟩ := h1
  obtain ⟨p', y', b1, _, b3, _, _, b5⟩ := h2
  rw [a1] at b1
  have : p = p' := Option.some.inj b1
  subst this
  rw [a3] at b3
  have : y = y' := by cases b3; rfl
  subst this
  rw [← a5, ← b5]

/-- two chains from the same index that both end at the dummy are equal -/
theorem chained_det {v : View} {m0 : List (Option Nat)} {lab : List Label} {fi : List Nat}
    (hd : getM m0 v.nb = none) : ∀ (r r' : List Nat) (i : Nat),
    Chained (Link v m0 lab fi) (i :: r) → Chained (Link v m0 lab fi) (i :: r') →
    (∃ U0, i :: r = U0 ++ [v.nb]) → (∃ U0, i :: r' = U0 ++ [v.nb]) → r = r'
  | [], [], _, _, _, _, _ => rfl
  | [], i1 :: r1, i, _, h2, ⟨U0, e⟩, _ => by
    exfalso
    have : i = v.nb := by
      cases U0 with
      | nil => simpa using e
      | cons a U1 =>
        simp only [List.cons_append, List.cons.injEq] at e
        have := congrArg List.length e.2
        simp at this
    obtain ⟨p, _, hp, _⟩ := h2.1
    rw [this, hd] at hp; cases hp
  | i1 :: r1, [], i, h1, _, _, ⟨U0, e⟩ => by
    exfalso
    have : i = v.nb := by
      cases U0 with
      | nil => simpa using e
      | cons a U1 =>
        simp only [List.cons_append, List.cons.injEq] at e
        have := congrArg List.length e.2
        simp at this
    obtain ⟨p, _, hp, _⟩ := h1.1
    rw [this, hd] at hp; cases hp
  | i1 :: r1, i1' :: r1', i, h1, h2, ⟨U0, e⟩, ⟨U0', e'⟩ => by
    have hi : i1 = i1' := h1.1.det h2.1
    subst hi
    have t1 : ∃ U1, i1 :: r1 = U1 ++ [v.nb] := by
      cases U0 with
      | nil => simp at e
      | cons a U1 =>
        simp only [List.cons_append, List.cons.injEq] at e
        exact ⟨U1, e.2⟩
    have t2 : ∃ U1, i1 :: r1' = U1 ++ [v.nb] := by
      cases U0' with
      | nil => simp at e'
      | cons a U1 =>
        simp only [List.cons_append, List.cons.injEq] at e'
        exact ⟨U1, e'.2⟩
    rw [chained_det hd r1 r1' i1 h1.2 h2.2 t1 t2]

theorem Chained.tail {R : Nat → Nat → Prop} {i : Nat} {r : List Nat} (h : Chained R (i :: r)) : Chained R r := by
  cases r with
  | nil => trivial
  | cons a r => exact h.2

theorem Chained.drop {R : Nat → Nat → Prop} : ∀ (l1 l2 : List Nat), Chained R (l1 ++ l2) → Chained R l2
  | [], _, h => h
  | _ :: l1, l2, h => Chained.drop l1 l2 h.tail

/-- the index sequence of the inner vertices of the path of `y`, closed by the dummy -/
def innerSeq (c : Ctx) (A : AS) (l : PL) : List Nat := (innerNodes A l).map c.v.toIndex ++ [c.v.nb]

theorem innerNodes_of_outer (A : AS) : ∀ (l : PL), (∀ p u, (p, u) ∈ l → A.out u = true) → innerNodes A l = []
  | [], _ => rfl
  | (p, u) :: r, h => by
    unfold innerNodes
    rw [if_pos (h p u (List.mem_cons_self ..))]
    exact innerNodes_of_outer A r (fun p' u' hm => h p' u' (List.mem_cons_of_mem _ hm))

theorem fin_nb_all_outer (c : Ctx) (A : AS) (l : PL) (hidx : ∀ p u, (p, u) ∈ l → c.v.toIndex u ≠ c.v.nb)
    (h : A.fin c l = c.v.nb) : ∀ p u, (p, u) ∈ l → A.out u = true := by
  intro p u hmem
  cases hou : A.out u with
  | true => rfl
  | false =>
    exfalso
    unfold AS.fin at h
    rcases firstInner_split c.v.nb c.v.toIndex A.out l with h' | ⟨l1, p1, u1, rest, e1, e2, e3, _⟩
    · have := h'.2 p u hmem; rw [hou] at this; cases this
    · rw [h] at e3
      exact hidx p1 u1 (by rw [e1]; simp) e3.symm

section
variable {c : Ctx} {s : GS} {P : Nat → PL} {ord : List Nat}

/-- the walk over the inner vertices of `P y` is a chain that starts at `first_inner[y]` -/
theorem path_chain (hv : VHyp c.v c.mode) (n0 : Nat) (_hm : MateInv c.v c.m0 n0) (I : SInv c s P ord) :
    ∀ (n y : Nat), y ∈ c.v.g.nodes → (absOf c s.label s.fi P ord).out y = true → (P y).length ≤ n →
      Chained (Link c.v c.m0 s.label s.fi) (innerSeq c (absOf c s.label s.fi P ord) (P y)) ∧
      ∃ r, innerSeq c (absOf c s.label s.fi P ord) (P y) = fiI s.fi (c.v.toIndex y) :: r := by
  intro n
  induction n with
  | zero =>
    intro y hy hoy hlen
    have hpy := I.abs.path y hy hoy
    have hP : P y = [] := List.length_eq_zero_iff.mp (by omega)
    have hF : fiI s.fi (c.v.toIndex y) = c.v.nb := by
      have := hpy.fiHead
      simp only [absOf] at this
      rw [hP] at this
      exact this
    simp only [innerSeq, hP, innerNodes, List.map_nil, List.nil_append, hF]
    exact ⟨trivial, [], rfl⟩
  | succ n ih =>
    intro y hy hoy hlen
    have hpy := I.abs.path y hy hoy
    have hF := hpy.fiHead
    rcases fin_mem c (absOf c s.label s.fi P ord) (P y) with h | ⟨l1, p, u, rest, h1, h2, h3, h4⟩
    · -- no inner vertex
      have hall : ∀ p u, (p, u) ∈ P y → (absOf c s.label s.fi P ord).out u = true :=
        fin_nb_all_outer c _ (P y) (fun p u hmem => hv.idx_ne_nb (hpy.mem u (mem_verts_of_mem hmem).2)) h
      have hF' : fiI s.fi (c.v.toIndex y) = c.v.nb := by
        have : (absOf c s.label s.fi P ord).F y = (absOf c s.label s.fi P ord).fin c (P y) := hF
        rw [h] at this; exact this
      simp only [innerSeq, innerNodes_of_outer _ (P y) hall, List.map_nil, List.nil_append, hF']
      exact ⟨trivial, [], rfl⟩
    · have hdec : (absOf c s.label s.fi P ord).P y = l1 ++ (p, u) :: rest := h1
      obtain ⟨y2, hy2L, hy2P⟩ := hpy.inner l1 p u rest hdec h2
      have hpu : (p, u) ∈ (absOf c s.label s.fi P ord).P y := by rw [hdec]; simp
      have hv' := mem_verts_of_mem hpu
      have hpn := hpy.mem p hv'.1
      have hun := hpy.mem u hv'.2
      have hop := hpy.fstOuter p u hpu
      obtain ⟨hy2n, hy2o, _, _⟩ := (I.abs.path p hpn hop).labVertex y2 hy2L
      have hlen2 : (P y2).length ≤ n := by
        have e : (absOf c s.label s.fi P ord).P y2 = P y2 := rfl
        rw [← e, ← hy2P]
        have : (P y).length = l1.length + (rest.length + 1) := by rw [h1]; simp
        omega
      obtain ⟨ih1, r2, ih2⟩ := ih y2 hy2n hy2o hlen2
      have hseq : innerSeq c (absOf c s.label s.fi P ord) (P y) =
          c.v.toIndex u :: innerSeq c (absOf c s.label s.fi P ord) (P y2) := by
        unfold innerSeq
        rw [h1, innerNodes_append, innerNodes_of_outer _ l1 h4]
        have e : (absOf c s.label s.fi P ord).P y2 = P y2 := rfl
        simp only [innerNodes, h2, List.nil_append, hy2P, e]
        rfl
      have hFy : fiI s.fi (c.v.toIndex y) = c.v.toIndex u := by
        have : (absOf c s.label s.fi P ord).F y = (absOf c s.label s.fi P ord).fin c (P y) := hF
        rw [h3] at this; exact this
      rw [hseq, hFy]
      refine ⟨?_, _, rfl⟩
      rw [ih2]
      refine ⟨⟨p, y2, ?_, ?_, hy2L, ?_, hy2o, rfl⟩, by rw [← ih2]; exact ih1⟩
      · exact (Alt_mem _ _ _ _ hpy.alt p u hpu).2
      · have := hv.ix.lt p hpn; omega
      · have := hv.ix.lt y2 hy2n; omega

end

end PetgraphModel.C15W2
