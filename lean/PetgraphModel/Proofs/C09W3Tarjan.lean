import PetgraphModel.Proofs.C09W3Total
/-
C09 (wave 3): totality of the `TarjanScc` model (`tjVisit` / `tjNeigh` / `tjRun`, recursion fuel
`4 · fuel v`) and of the `is_bipartite_undirected` model (`bipLoop`, fuel `fuel v`).

`tjVisit` consumes one unit of fuel per call and per examined neighbour, exactly like the
`depth_first_search` model, so the measure of `Proofs/C08W2Fuel.lean` applies with
"discovered" = "has a rootindex": `wsum v (seen v t) nodes` never increases and drops by
`|v.succ x| + 1` when `x` is entered.  No injectivity of `to_index` is needed: two nodes sharing an
index are marked together, which only lowers the measure.
-/
namespace PetgraphModel.C09P
open PetgraphModel PetgraphModel.MGraph PetgraphModel.C09M PetgraphModel.Trav

/-! ### TarjanScc -/

/-- the nodes that have a rootindex -/
def seen (v : View) (t : TJ) : List Nat := v.g.nodes.filter fun x => (t.get v x).isSome

/-- no rootindex is ever removed -/
def Mono (v : View) (t t' : TJ) : Prop := ∀ y, (t.get v y).isSome = true → (t'.get v y).isSome = true

theorem Mono.refl (v : View) (t : TJ) : Mono v t t := fun _ h => h
theorem Mono.trans {v : View} {a b c : TJ} (h1 : Mono v a b) (h2 : Mono v b c) : Mono v a c :=
  fun y h => h2 y (h1 y h)

theorem mono_set (v : View) (t : TJ) (x : Nat) (r : Option Nat) : Mono v t (t.set v x r) := by
  intro y h
  cases r with
  | none => exact h
  | some r =>
    simp only [TJ.get, TJ.set, List.lookup_cons] at h ⊢
    split
    · rfl
    · exact h

theorem get_set_self' (v : View) (t : TJ) (x r : Nat) : ((t.set v x (some r)).get v x).isSome = true := by
  simp [TJ.get, TJ.set]

theorem mono_foldl_setcc (v : View) : ∀ (l : List Nat) (t : TJ),
    Mono v t (l.foldl (fun (t : TJ) w => t.set v w (some t.cc)) t) := by
  intro l
  induction l with
  | nil => intro t; exact Mono.refl v t
  | cons a l ih => intro t; rw [List.foldl_cons]; exact (mono_set v t a _).trans (ih _)

theorem seen_mono {v : View} {t t' : TJ} (h : Mono v t t') : ∀ x, x ∈ seen v t → x ∈ seen v t' := by
  intro x hx
  simp only [seen, List.mem_filter] at hx ⊢
  exact ⟨hx.1, h x hx.2⟩

theorem wsum_seen_mono {v : View} {t t' : TJ} (h : Mono v t t') :
    TravProofs.wsum v (seen v t') v.g.nodes ≤ TravProofs.wsum v (seen v t) v.g.nodes :=
  TravProofs.wsum_mono v (seen_mono h) v.g.nodes

theorem wsum_dec' (v : View) {d d' : List Nat} {u : Nat} (hu : u ∉ d) (hu' : u ∈ d')
    (hsub : ∀ x, x ∈ d → x ∈ d') (us : List Nat) (hm : u ∈ us) :
    TravProofs.wsum v d' us + (v.succ u).length + 1 ≤ TravProofs.wsum v d us := by
  have h1 := TravProofs.wsum_mono v (d := u :: d) (d' := d') (by
    intro x hx
    rcases List.mem_cons.mp hx with h | h
    · exact h ▸ hu'
    · exact hsub x h) us
  have h2 := TravProofs.wsum_dec v hu us hm
  omega

theorem tarjan_total (v : View) (hcl : Closed v) : ∀ (f : Nat),
    (∀ x t, x ∈ v.g.nodes → t.get v x = none →
      TravProofs.wsum v (seen v t) v.g.nodes + 1 ≤ f →
      ∃ t', tjVisit v f x t = some t' ∧ Mono v t t') ∧
    (∀ x ws t lr, (∀ w, w ∈ ws → w ∈ v.g.nodes) →
      TravProofs.wsum v (seen v t) v.g.nodes + ws.length + 1 ≤ f →
      ∃ t' lr', tjNeigh v f x ws t lr = some (t', lr') ∧ Mono v t t') := by
  intro f
  induction f with
  | zero => exact ⟨fun x t _ _ h => by omega, fun x ws t lr _ h => by omega⟩
  | succ f ih =>
    obtain ⟨ihV, ihN⟩ := ih
    constructor
    · intro x t hx hnone hf
      have hm1 : Mono v t (({ t with index := t.index + 1 } : TJ).set v x (some t.index)) :=
        fun y h => mono_set v ({ t with index := t.index + 1 } : TJ) x (some t.index) y h
      have hxs : x ∉ seen v t := by
        simp only [seen, List.mem_filter, hnone]; simp
      have hxs' : x ∈ seen v (({ t with index := t.index + 1 } : TJ).set v x (some t.index)) := by
        simp only [seen, List.mem_filter]
        exact ⟨hx, get_set_self' v _ x _⟩
      have hdec := wsum_dec' v hxs hxs' (seen_mono hm1) v.g.nodes hx
      obtain ⟨t2, lr, hN, hm2⟩ := ihN x (v.succ x)
        (({ t with index := t.index + 1 } : TJ).set v x (some t.index)) true (hcl x hx) (by omega)
      simp only [tjVisit, hN]
      split
      · exact ⟨_, rfl, fun y h => by
          have h3 := mono_foldl_setcc v
            (List.takeWhile (fun w => !optLt (t2.get v w) (t2.get v x)) t2.stack ++ [x]) t2 y (hm2 y (hm1 y h))
          exact h3⟩
      · exact ⟨_, rfl, fun y h => hm2 y (hm1 y h)⟩
    · intro x ws t lr hws hf
      cases ws with
      | nil => exact ⟨t, lr, by simp [tjNeigh], Mono.refl v t⟩
      | cons w ws =>
        have hws' : ∀ y, y ∈ ws → y ∈ v.g.nodes := fun y hy => hws y (List.mem_cons_of_mem _ hy)
        simp only [List.length_cons] at hf
        have key : ∃ t1, (if (t.get v w).isNone then tjVisit v f w t else some t) = some t1 ∧ Mono v t t1 := by
          by_cases hw : (t.get v w).isNone = true
          · obtain ⟨t1, h1, h2⟩ := ihV w t (hws w (List.mem_cons_self ..)) (by simpa using hw) (by omega)
            exact ⟨t1, by simp only [hw, ↓reduceIte, h1], h2⟩
          · exact ⟨t, by simp only [hw]; rfl, Mono.refl v t⟩
        obtain ⟨t1, h1, hm1⟩ := key
        have hw1 := wsum_seen_mono hm1
        simp only [tjNeigh, h1]
        split
        · have hm2 := mono_set v t1 x (t1.get v w)
          have hw2 := wsum_seen_mono hm2
          obtain ⟨t', lr', h3, hm3⟩ := ihN x ws (t1.set v x (t1.get v w)) false hws' (by omega)
          exact ⟨t', lr', h3, hm1.trans (hm2.trans hm3)⟩
        · obtain ⟨t', lr', h3, hm3⟩ := ihN x ws t1 lr hws' (by omega)
          exact ⟨t', lr', h3, hm1.trans hm3⟩

theorem tjRunStep_total (v : View) (hcl : Closed v) (hf : TravProofs.dfsFuel v ≤ 4 * fuel v)
    (t : TJ) (n : Nat) (hn : n ∈ v.g.nodes) : ∃ t', tjRunStep v t n = some t' := by
  unfold tjRunStep
  split
  · rename_i h
    obtain ⟨t', h1, _⟩ := (tarjan_total v hcl (4 * fuel v)).1 n t hn (by simpa using h) (by
      have := TravProofs.wsum_le_nil v (seen v t) v.g.nodes
      simp only [TravProofs.dfsFuel] at hf
      omega)
    exact ⟨t', h1⟩
  · exact ⟨t, rfl⟩

/-- `TarjanScc::run` returns from any `TarjanScc` value -/
theorem tjRun_total (v : View) (hcl : Closed v) (hf : TravProofs.dfsFuel v ≤ 4 * fuel v) (t : TJ) :
    ∃ t', tjRun v t = some t' := by
  unfold tjRun
  exact foldlM_total (tjRunStep v) (· ∈ v.g.nodes) (fun st i hi => tjRunStep_total v hcl hf st i hi)
    v.g.nodes (fun _ h => h) _

/-! ### is_bipartite_undirected -/

theorem bipNeigh_measure (nodes : List Nat) (isRed isBlue : Bool) : ∀ (ws q red blue : List Nat),
    (∀ y, y ∈ ws → y ∈ nodes) → (∀ y, y ∈ q → y ∈ nodes) →
    ∀ q' red' blue', bipNeigh isRed isBlue ws q red blue = some (q', red', blue') →
      (∀ y, y ∈ q' → y ∈ nodes) ∧
      q'.length + TravProofs.ucount red' nodes + TravProofs.ucount blue' nodes ≤
        q.length + TravProofs.ucount red nodes + TravProofs.ucount blue nodes := by
  intro ws
  induction ws with
  | nil =>
    intro q red blue _ hq q' red' blue' h
    simp only [bipNeigh, Option.some.injEq, Prod.mk.injEq] at h
    obtain ⟨rfl, rfl, rfl⟩ := h
    exact ⟨hq, Nat.le_refl _⟩
  | cons nb rest ih =>
    intro q red blue hws hq q' red' blue' h
    have hrest : ∀ y, y ∈ rest → y ∈ nodes := fun y hy => hws y (List.mem_cons_of_mem _ hy)
    have hnb : nb ∈ nodes := hws nb (List.mem_cons_self ..)
    have hq1 : ∀ y, y ∈ q ++ [nb] → y ∈ nodes := by
      intro y hy
      rcases List.mem_append.mp hy with hy | hy
      · exact hq y hy
      · simp at hy; exact hy ▸ hnb
    rw [bipNeigh] at h
    split at h
    · cases h
    · split at h
      · rename_i hnew
        have hnr : nb ∉ red := by
          intro hc; simp [hc] at hnew
        have hnbl : nb ∉ blue := by
          intro hc; simp [hc] at hnew
        split at h
        · obtain ⟨g1, g2⟩ := ih (q ++ [nb]) red (nb :: blue) hrest hq1 q' red' blue' h
          have := TravProofs.ucount_dec hnbl nodes hnb
          simp only [List.length_append, List.length_cons, List.length_nil] at g2
          exact ⟨g1, by omega⟩
        · obtain ⟨g1, g2⟩ := ih (q ++ [nb]) (nb :: red) blue hrest hq1 q' red' blue' h
          have := TravProofs.ucount_dec hnr nodes hnb
          simp only [List.length_append, List.length_cons, List.length_nil] at g2
          exact ⟨g1, by omega⟩
      · exact ih q red blue hrest hq q' red' blue' h

theorem bipLoop_total (v : View) (hcl : Closed v) : ∀ (f : Nat) (q red blue : List Nat),
    (∀ y, y ∈ q → y ∈ v.g.nodes) →
    q.length + TravProofs.ucount red v.g.nodes + TravProofs.ucount blue v.g.nodes + 1 ≤ f →
    bipLoop v f q red blue ≠ .fuel := by
  intro f
  induction f with
  | zero => intro q red blue _ h; omega
  | succ f ih =>
    intro q red blue hq hf
    cases q with
    | nil => simp [bipLoop]
    | cons node q =>
      rw [bipLoop]
      split
      · simp
      · split
        · simp
        · rename_i q' red' blue' hn
          simp only [List.length_cons] at hf
          obtain ⟨g1, g2⟩ := bipNeigh_measure v.g.nodes _ _ (v.succ node) q red blue
            (hcl node (hq node (List.mem_cons_self ..)))
            (fun y hy => hq y (List.mem_cons_of_mem _ hy)) q' red' blue' hn
          exact ih q' red' blue' g1 (by omega)

/-- the bipartiteness model never runs out of fuel (no bound on the neighbour lists is needed) -/
theorem bipartite_total (v : View) (hcl : Closed v) (s : Nat) (hs : s ∈ v.g.nodes) :
    bipartite v s ≠ .fuel := by
  unfold bipartite
  apply bipLoop_total v hcl
  · intro y hy; simp at hy; exact hy ▸ hs
  · have h1 := TravProofs.ucount_dec (d := []) (u := s) (by simp) v.g.nodes hs
    have h2 := TravProofs.ucount_le_length [] v.g.nodes
    simp only [List.length_cons, List.length_nil, fuel]
    omega

end PetgraphModel.C09P
