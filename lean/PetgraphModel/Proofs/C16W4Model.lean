import PetgraphModel.Proofs.C16W4Checks
import PetgraphModel.Proofs.C16W4Judge
import PetgraphModel.Proofs.C16Accessors
/-
C16, fourth wave — the records the driver prints for the model (`C16.recsOf`) satisfy `RecCorrect`
whenever the model's `Doms` value is exact; `sortNats` sorts (so `sameSet` is permutation-invariant);
`immediately_dominated_by` of a well-formed map has no repetition.
-/
namespace PetgraphModel.C16P.W4
open PetgraphModel MGraph C16S C16O C16M C16P

/-! ### `sortNats` sorts -/

theorem span_loop_eq (p : Nat → Bool) : ∀ (l acc : List Nat),
    List.span.loop p l acc = (acc.reverse ++ l.takeWhile p, l.dropWhile p) := by
  intro l
  induction l with
  | nil => intro acc; simp [List.span.loop]
  | cons a t ih =>
    intro acc
    unfold List.span.loop
    cases hp : p a with
    | true => simp [ih, hp]
    | false => simp [hp]

theorem span_eq (p : Nat → Bool) (l : List Nat) : l.span p = (l.takeWhile p, l.dropWhile p) := by
  simp [List.span, span_loop_eq]

theorem takeWhile_all (p : Nat → Bool) : ∀ (l : List Nat) (a : Nat), a ∈ l.takeWhile p → p a = true := by
  intro l
  induction l with
  | nil => intro a h; simp at h
  | cons c t ih =>
    intro a h
    rw [List.takeWhile_cons] at h
    cases hp : p c with
    | true =>
      simp only [hp, if_true] at h
      rcases List.mem_cons.mp h with rfl | h'
      · exact hp
      · exact ih a h'
    | false => simp [hp] at h

theorem dropWhile_head (p : Nat → Bool) : ∀ (l : List Nat) (c : Nat) (cs : List Nat),
    l.dropWhile p = c :: cs → p c = false := by
  intro l
  induction l with
  | nil => intro c cs h; simp at h
  | cons a t ih =>
    intro c cs h
    rw [List.dropWhile_cons] at h
    cases hp : p a with
    | true => simp only [hp, if_true] at h; exact ih c cs h
    | false =>
      simp only [hp] at h
      simp at h
      rw [← h.1]; exact hp

theorem insert_sorted (acc : List Nat) (x : Nat) (h : acc.Pairwise (· ≤ ·)) :
    ((acc.span (· ≤ x)).1 ++ x :: (acc.span (· ≤ x)).2).Pairwise (· ≤ ·) := by
  rw [span_eq]
  simp only
  have hsplit : acc.takeWhile (· ≤ x) ++ acc.dropWhile (· ≤ x) = acc := List.takeWhile_append_dropWhile
  have hle : ∀ a ∈ acc.takeWhile (fun y => decide (y ≤ x)), a ≤ x := by
    intro a ha
    have := takeWhile_all _ acc a ha
    simpa using this
  have hgt : ∀ b ∈ acc.dropWhile (fun y => decide (y ≤ x)), x < b := by
    intro b hb
    cases hd : acc.dropWhile (fun y => decide (y ≤ x)) with
    | nil => rw [hd] at hb; cases hb
    | cons c cs =>
      have hc : ¬ c ≤ x := by
        have := dropWhile_head _ acc c cs hd
        simpa using this
      have hpw : (c :: cs).Pairwise (· ≤ ·) := by
        rw [← hd]
        exact h.sublist (List.dropWhile_sublist _)
      rw [hd] at hb
      rcases List.mem_cons.mp hb with rfl | hb'
      · omega
      · have := (List.pairwise_cons.mp hpw).1 b hb'
        omega
  rw [List.pairwise_append]
  refine ⟨h.sublist (List.takeWhile_sublist _), ?_, ?_⟩
  · rw [List.pairwise_cons]
    exact ⟨fun b hb => Nat.le_of_lt (hgt b hb), h.sublist (List.dropWhile_sublist _)⟩
  · intro a ha b hb
    rcases List.mem_cons.mp hb with rfl | hb'
    · exact hle a ha
    · have := hle a ha
      have := hgt b hb'
      omega

theorem sortNats_foldl_sorted : ∀ (l acc : List Nat), acc.Pairwise (· ≤ ·) →
    (l.foldl (fun acc x => let (a, b) := acc.span (· ≤ x); a ++ x :: b) acc).Pairwise (· ≤ ·) := by
  intro l
  induction l with
  | nil => intro acc h; simpa using h
  | cons x t ih =>
    intro acc h
    simp only [List.foldl_cons]
    exact ih _ (insert_sorted acc x h)

theorem sortNats_sorted (l : List Nat) : (sortNats l).Pairwise (· ≤ ·) :=
  sortNats_foldl_sorted l [] List.Pairwise.nil

/-- `sortNats` depends only on the multiset: `sameSet` is exactly "is a permutation of" -/
theorem sortNats_eq_of_perm {a b : List Nat} (h : a.Perm b) : sortNats a = sortNats b := by
  apply List.Perm.eq_of_pairwise (le := (· ≤ ·)) _ (sortNats_sorted a) (sortNats_sorted b)
  · exact (sortNats_perm a).trans (h.trans (sortNats_perm b).symm)
  · intro x y _ _ h1 h2; exact Nat.le_antisymm h1 h2

theorem sameSet_iff_perm (a b : List Nat) : sameSet a b = true ↔ a.Perm b :=
  ⟨sameSet_perm, fun h => by simp [sameSet, sortNats_eq_of_perm h]⟩

/-! ### `immediately_dominated_by` has no repetition -/

theorem filterMap_keys_nodup {β : Type} (p : Nat → β → Prop) [∀ k v, Decidable (p k v)] :
    ∀ (m : List (Nat × β)), (m.map (·.1)).Nodup →
      ((m.filterMap fun (kv : Nat × β) => if p kv.1 kv.2 then some kv.1 else none).Nodup ∧
       ∀ k, k ∈ (m.filterMap fun (kv : Nat × β) => if p kv.1 kv.2 then some kv.1 else none) → k ∈ m.map (·.1)) := by
  intro m
  induction m with
  | nil => intro _; simp
  | cons x xs ih =>
    intro hn
    simp only [List.map_cons, List.nodup_cons] at hn
    obtain ⟨ih1, ih2⟩ := ih hn.2
    simp only [List.filterMap_cons]
    split
    · rename_i hnone
      exact ⟨ih1, fun k hk => List.mem_cons_of_mem _ (ih2 k hk)⟩
    · rename_i y hsome
      have hy : y = x.1 := by
        split at hsome
        · exact (Option.some.inj hsome).symm
        · cases hsome
      subst hy
      refine ⟨List.nodup_cons.mpr ⟨fun hm => hn.1 (ih2 _ hm), ih1⟩, ?_⟩
      intro k hk
      rcases List.mem_cons.mp hk with rfl | hk'
      · exact List.mem_cons_self ..
      · exact List.mem_cons_of_mem _ (ih2 k hk')

theorem idb_nodup (d : Doms) (hd : DomsWF d) (n : Nat) : (d.immediatelyDominatedBy n).Nodup := by
  have := (filterMap_keys_nodup (fun k v => v = n ∧ v ≠ k) d.map hd.keys).1
  unfold Doms.immediatelyDominatedBy
  exact this

/-! ### the records the driver prints for the model -/

theorem recsOf_map_b (ns : List Nat) (d : Doms) : (C16.recsOf ns d).map (·.b) = ns := by
  unfold C16.recsOf
  simp [List.map_map, Function.comp_def]

theorem recsOf_nodes (ns : List Nat) (d : Doms) :
    sameSet ((C16.recsOf (sortNats ns) d).map (·.b)) ns = true := by
  rw [recsOf_map_b]
  exact (sameSet_iff_perm _ _).mpr (sortNats_perm ns)

theorem recsOf_correct (g : MGraph) (root : Nat) (d : Doms) (ns : List Nat)
    (h2 : ∀ b, d.dominators b = none ↔ ¬ Reach g root b)
    (h3 : ∀ b l, d.dominators b = some l → l.Nodup ∧ ∀ a, a ∈ l ↔ Dominates g root a b)
    (h4 : ∀ b a, d.immediateDominator b = some a ↔ IsIdom g root a b)
    (h5 : ∀ b, d.immediateDominator b = none ↔ b = root ∨ ¬ Reach g root b)
    (h6 : ∀ b, d.strictDominators b = none ↔ ¬ Reach g root b)
    (h7 : ∀ b l, d.strictDominators b = some l → l.Nodup ∧ ∀ a, a ∈ l ↔ StrictlyDominates g root a b)
    (h8 : ∀ n, (d.immediatelyDominatedBy n).Nodup ∧ ∀ m, m ∈ d.immediatelyDominatedBy n ↔ IsIdom g root n m) :
    ∀ rc ∈ C16.recsOf ns d, RecCorrect g root rc := by
  intro rc hrc
  unfold C16.recsOf at hrc
  obtain ⟨b, _, rfl⟩ := List.mem_map.mp hrc
  refine ⟨?_, ?_, ?_, ?_⟩
  · show (match d.dominators b with
      | some o => Reach g root b ∧ o.Nodup ∧ ∀ a, a ∈ o ↔ Dominates g root a b
      | none => ¬ Reach g root b)
    cases hd : d.dominators b with
    | none => exact (h2 b).mp hd
    | some o =>
      refine ⟨?_, h3 b o hd⟩
      apply Classical.byContradiction
      intro hr
      rw [(h2 b).mpr hr] at hd
      cases hd
  · show (match d.strictDominators b with
      | some o => Reach g root b ∧ o.Nodup ∧ ∀ a, a ∈ o ↔ StrictlyDominates g root a b
      | none => ¬ Reach g root b)
    cases hd : d.strictDominators b with
    | none => exact (h6 b).mp hd
    | some o =>
      refine ⟨?_, h7 b o hd⟩
      apply Classical.byContradiction
      intro hr
      rw [(h6 b).mpr hr] at hd
      cases hd
  · show (match d.immediateDominator b with
      | some a => IsIdom g root a b
      | none => b = root ∨ ¬ Reach g root b)
    cases hd : d.immediateDominator b with
    | none => exact (h5 b).mp hd
    | some a => exact (h4 b a).mp hd
  · show (sortNats (d.immediatelyDominatedBy b)).Nodup ∧
      ∀ m, m ∈ sortNats (d.immediatelyDominatedBy b) ↔ IsIdom g root b m
    exact ⟨(sortNats_perm _).nodup_iff.mpr (h8 b).1,
      fun m => ((sortNats_perm _).mem_iff).trans ((h8 b).2 m)⟩

/-! ### the iteration bound of the accessor model is never reached on an exact result -/

theorem nodup_subset_length : ∀ (l m : List Nat), l.Nodup → (∀ x ∈ l, x ∈ m) → l.length ≤ m.length := by
  intro l
  induction l with
  | nil => intro m _ _; simp
  | cons x xs ih =>
    intro m hn hs
    have hx : x ∈ m := hs x (List.mem_cons_self ..)
    have hn' := List.nodup_cons.mp hn
    have := ih (m.erase x) hn'.2 (by
      intro y hy
      have hne : y ≠ x := fun e => hn'.1 (e ▸ hy)
      exact (List.mem_erase_of_ne hne).mpr (hs y (List.mem_cons_of_mem _ hy)))
    rw [List.length_erase_of_mem hx] at this
    have hpos : 0 < m.length := List.length_pos_of_mem hx
    simp only [List.length_cons]
    omega

/-- on an exact `Doms` value the chain of strict dominators is shorter than the model's iteration bound
`chainFuel = |map| + 1`: the hypothesis `hlen` of `C16_accessors_strict_closure` holds -/
theorem strict_length_lt_chainFuel (g : MGraph) (root : Nat) (d : Doms)
    (h2 : ∀ b, d.dominators b = none ↔ ¬ Reach g root b)
    (h6 : ∀ b, d.strictDominators b = none ↔ ¬ Reach g root b)
    (h7 : ∀ b l, d.strictDominators b = some l → l.Nodup ∧ ∀ a, a ∈ l ↔ StrictlyDominates g root a b)
    (b : Nat) (l : List Nat) (hl : d.strictDominators b = some l) : l.length < d.chainFuel := by
  have hb : Reach g root b := by
    apply Classical.byContradiction
    intro hr
    rw [(h6 b).mpr hr] at hl
    cases hl
  obtain ⟨hn, hm⟩ := h7 b l hl
  have hsub : ∀ a ∈ l, a ∈ d.map.map (·.1) := by
    intro a ha
    have hra : Reach g root a := dominates_reach hb ((hm a).mp ha).2
    cases hlk : d.map.lookup a with
    | none => exact absurd ((h2 a).mp ((dominators_none_iff d a).mpr hlk)) (fun h => h hra)
    | some x => exact List.mem_map.mpr ⟨(a, x), lookup_mem d.map a x hlk, rfl⟩
  have := nodup_subset_length l _ hn hsub
  simp only [List.length_map] at this
  unfold Doms.chainFuel
  omega

end PetgraphModel.C16P.W4
