import PetgraphModel.Proofs.SerdeTrip
/-
Helper lemmas for C17, wave 2 (part 1): the `GraphMap` serde round trip.

`Serialize for GraphMap` is `into_graph::<u32>()` + `Serialize for Graph`, `Deserialize` is `Deserialize for Graph<u32>`
+ `from_graph`.  This file computes both halves exactly:

* `intoGraph_wire`: the stream of a map whose edges join present nodes is `nodes` = the node keys in map order,
  `edges` = every edge with the positions of its endpoints;
* `fromGraph_rebuild`: `from_graph` of a graph whose node weights are duplicate-free and whose edges are, in order, the
  edges of a map with canonical, duplicate-free keys rebuilds that map's node keys and its edge map exactly, and the
  adjacency vectors in canonical form (`adjFrom`: each node's incident edges in edge-map order, `(b, Outgoing)` at the
  source, `(a, Incoming)` at the target, a self-loop once).

`roundtrip_map` puts them together with `deGraph_complete`.
-/
namespace PetgraphModel.SerdeProofs
open PetgraphModel.Serde

/-! ### association lists -/

section assoc
variable {κ ν : Type} [BEq κ] [LawfulBEq κ] [DecidableEq κ]

theorem assocIdx_cons (k' : κ) (v : ν) (t : List (κ × ν)) (k : κ) :
    assocIdx ((k', v) :: t) k = if k' = k then some 0 else (assocIdx t k).map (· + 1) := by
  unfold assocIdx
  rw [List.findIdx?_cons]
  by_cases h : k' = k
  · simp [h]
  · have : (k' == k) = false := by simpa using h
    simp [h, this]

theorem assocIdx_none_of_not_mem (l : List (κ × ν)) (k : κ) (h : k ∉ l.map (·.1)) : assocIdx l k = none := by
  induction l with
  | nil => rfl
  | cons x t ih =>
    obtain ⟨k', v⟩ := x
    simp only [List.map_cons, List.mem_cons, not_or] at h
    rw [assocIdx_cons, if_neg (fun e => h.1 e.symm), ih h.2]
    rfl

theorem assocIdx_some_of_mem (l : List (κ × ν)) (k : κ) (h : k ∈ l.map (·.1)) :
    ∃ i, assocIdx l k = some i ∧ i < l.length ∧ (l.map (·.1))[i]? = some k := by
  induction l with
  | nil => simp at h
  | cons x t ih =>
    obtain ⟨k', v⟩ := x
    rw [assocIdx_cons]
    by_cases hk : k' = k
    · exact ⟨0, by rw [if_pos hk], by simp, by simp [hk]⟩
    · simp only [List.map_cons, List.mem_cons] at h
      rcases h with h | h
      · exact absurd h.symm hk
      · obtain ⟨i, h1, h2, h3⟩ := ih h
        refine ⟨i + 1, by rw [if_neg hk, h1]; rfl, by simp; omega, by simpa using h3⟩

theorem assocUpsert_cons (k' : κ) (v : ν) (t : List (κ × ν)) (k : κ) (d : ν) (f : ν → ν) :
    assocUpsert ((k', v) :: t) k d f = if k' = k then (k', f v) :: t else (k', v) :: assocUpsert t k d f := by
  unfold assocUpsert
  rw [assocIdx_cons]
  by_cases hk : k' = k
  · rw [if_pos hk, if_pos hk]; rfl
  · rw [if_neg hk, if_neg hk]
    cases assocIdx t k with
    | none => rfl
    | some i => rfl

theorem assocUpsert_of_not_mem (l : List (κ × ν)) (k : κ) (d : ν) (f : ν → ν) (h : k ∉ l.map (·.1)) :
    assocUpsert l k d f = l ++ [(k, f d)] := by
  unfold assocUpsert
  rw [assocIdx_none_of_not_mem l k h]

/-- on a duplicate-free key list, `entry(k)…` of a present key changes exactly that key's value -/
theorem assocUpsert_map (ks : List κ) (F : κ → ν) (k : κ) (d : ν) (f : ν → ν)
    (hn : ks.Nodup) (hk : k ∈ ks) :
    assocUpsert (ks.map fun x => (x, F x)) k d f = ks.map fun x => (x, if x = k then f (F x) else F x) := by
  induction ks with
  | nil => simp at hk
  | cons x t ih =>
    rw [List.map_cons, assocUpsert_cons]
    obtain ⟨hx, ht⟩ := List.nodup_cons.1 hn
    by_cases hxk : x = k
    · rw [if_pos hxk, List.map_cons, if_pos hxk]
      congr 1
      apply List.map_congr_left
      intro y hy
      have : y ≠ k := by rintro rfl; exact hx (hxk ▸ hy)
      rw [if_neg this]
    · rw [if_neg hxk, List.map_cons, if_neg hxk]
      congr 1
      refine ih ht ?_
      rcases List.mem_cons.1 hk with h | h
      · exact absurd h.symm hxk
      · exact h

end assoc

/-! ### `into_graph` -/

def igNode (acc : Option Raw) (p : Int × List (Int × Bool)) : Option Raw :=
  match acc with
  | none => none
  | some g => match g.tryAddNode p.1 with
    | (g1, .ok _) => some g1
    | _ => none

def igEdge (nodes : List (Int × List (Int × Bool))) (acc : Option Raw) (e : (Int × Int) × Int) : Option Raw :=
  match acc with
  | none => none
  | some g =>
    match assocIdx nodes e.1.1, assocIdx nodes e.1.2 with
    | some ai, some bi =>
      (match g.tryAddEdge ai bi e.2 with
        | (g1, .ok _) => some g1
        | _ => none)
    | _, _ => none

theorem intoGraph_eq (m : GMap) (END : Nat) :
    m.intoGraph END = m.edges.foldl (igEdge m.nodes) (m.nodes.foldl igNode (some (Raw.empty END m.directed))) := by
  rfl

theorem igNode_fold (ns : List (Int × List (Int × Bool))) : ∀ g : Raw, g.nodes.length + ns.length ≤ g.END →
    ns.foldl igNode (some g) = some { g with nodes := g.nodes ++ ns.map fun p => liveSlot g.END p.1 } := by
  induction ns with
  | nil => intro g _; simp
  | cons p t ih =>
    intro g hlen
    simp only [List.length_cons] at hlen
    have hne : g.nodes.length ≠ g.END := by omega
    have h1 : igNode (some g) p = some { g with nodes := g.nodes ++ [liveSlot g.END p.1] } := by
      simp only [igNode, Raw.tryAddNode, if_pos hne, liveSlot]
    rw [List.foldl_cons, h1, ih _ (by simp; omega)]
    simp

/-- position of a node key (`get_index_of(..).unwrap()`) -/
def posOf (nodes : List (Int × List (Int × Bool))) (a : Int) : Nat := (assocIdx nodes a).getD 0

theorem linkNodes_map_w {nodes ns : List NodeSlot} {a b e x0 x1 : Nat}
    (h : linkNodes nodes a b e = some (ns, x0, x1)) :
    ns.length = nodes.length ∧ ns.map (fun (n : NodeSlot) => n.w) = nodes.map (fun (n : NodeSlot) => n.w) := by
  obtain ⟨_, _, _, _, _, _, hlen, hns⟩ := linkNodes_some h
  refine ⟨hlen, ?_⟩
  apply List.ext_getElem?
  intro i
  rw [List.getElem?_map, List.getElem?_map, hns i]
  cases nodes[i]? <;> rfl

theorem igEdge_fold (nodes : List (Int × List (Int × Bool))) (es : List ((Int × Int) × Int)) : ∀ g : Raw,
    (∀ e, e ∈ es → ∃ ai bi, assocIdx nodes e.1.1 = some ai ∧ assocIdx nodes e.1.2 = some bi ∧
      ai < g.nodes.length ∧ bi < g.nodes.length) →
    g.edges.length + es.length ≤ g.END →
    ∃ g', es.foldl (igEdge nodes) (some g) = some g' ∧ g'.END = g.END ∧ g'.directed = g.directed ∧
      g'.nodes.map (fun (n : NodeSlot) => n.w) = g.nodes.map (fun (n : NodeSlot) => n.w) ∧
      g'.edges.map liveSkel = g.edges.map liveSkel ++
        es.map (fun e => some (posOf nodes e.1.1, posOf nodes e.1.2, e.2)) := by
  induction es with
  | nil => intro g _ _; exact ⟨g, rfl, rfl, rfl, rfl, by simp⟩
  | cons e t ih =>
    intro g hends hlen
    simp only [List.length_cons] at hlen
    obtain ⟨ai, bi, ha, hb, hal, hbl⟩ := hends e (List.mem_cons_self ..)
    obtain ⟨r, hr⟩ := linkNodes_isSome g.edges.length hal hbl
    obtain ⟨ns, x0, x1⟩ := r
    obtain ⟨hnl, hnw⟩ := linkNodes_map_w hr
    have hne : ¬ g.edges.length = g.END := by omega
    have h1 : igEdge nodes (some g) e = some { g with nodes := ns, edges := g.edges ++
        [{ w := some e.2, n0 := x0, n1 := x1, src := ai, tgt := bi }] } := by
      simp only [igEdge, ha, hb, Raw.tryAddEdge, if_neg hne, hr]
    obtain ⟨g', h2, h3, h4, h5, h6⟩ := ih { g with nodes := ns, edges := g.edges ++
        [{ w := some e.2, n0 := x0, n1 := x1, src := ai, tgt := bi }] }
      (by
        intro e' he'
        obtain ⟨ai', bi', ha', hb', hal', hbl'⟩ := hends e' (List.mem_cons_of_mem _ he')
        exact ⟨ai', bi', ha', hb', by simpa [hnl] using hal', by simpa [hnl] using hbl'⟩)
      (by simp; omega)
    refine ⟨g', by rw [List.foldl_cons, h1, h2], h3, h4, by rw [h5]; exact hnw, ?_⟩
    rw [h6]
    simp [liveSkel, posOf, ha, hb]

theorem somesW_map_some (ks : List Int) : somesW (ks.map some) = ks := by
  induction ks with
  | nil => rfl
  | cons k t ih => simp [somesW]

/-- the stream `Serialize for GraphMap` writes -/
theorem intoGraph_wire (m : GMap) (END : Nat)
    (hends : ∀ e, e ∈ m.edges → e.1.1 ∈ m.nodes.map (·.1) ∧ e.1.2 ∈ m.nodes.map (·.1))
    (hcapN : m.nodes.length ≤ END) (hcapE : m.edges.length ≤ END) :
    ∃ g, m.intoGraph END = some g ∧
      serGraph g = { nodes := m.nodes.map (·.1), holes := [], prop := some m.directed,
                     edges := (m.edges.map fun e => (posOf m.nodes e.1.1, posOf m.nodes e.1.2, e.2)).map some } := by
  rw [intoGraph_eq, igNode_fold m.nodes (Raw.empty END m.directed) (by simpa [Raw.empty] using hcapN)]
  obtain ⟨g', h2, _, h4, h5, h6⟩ := igEdge_fold m.nodes m.edges
    { Raw.empty END m.directed with
      nodes := (Raw.empty END m.directed).nodes ++ m.nodes.map fun p => liveSlot (Raw.empty END m.directed).END p.1 }
    (by
      intro e he
      obtain ⟨h1, h2⟩ := hends e he
      obtain ⟨ai, ha1, ha2, _⟩ := assocIdx_some_of_mem m.nodes e.1.1 h1
      obtain ⟨bi, hb1, hb2, _⟩ := assocIdx_some_of_mem m.nodes e.1.2 h2
      exact ⟨ai, bi, ha1, hb1, by simpa [Raw.empty] using ha2, by simpa [Raw.empty] using hb2⟩)
    (by simpa [Raw.empty] using hcapE)
  refine ⟨g', h2, ?_⟩
  have hn : g'.nodes.filterMap (fun (n : NodeSlot) => n.w) = m.nodes.map (·.1) := by
    rw [filterMap_w, h5]
    have : (m.nodes.map fun p => liveSlot END p.1).map (fun (n : NodeSlot) => n.w) = (m.nodes.map (·.1)).map some := by
      simp [liveSlot]
    simp only [Raw.empty, List.nil_append]
    rw [this, somesW_map_some]
  have he : g'.edges.map liveSkel =
      (m.edges.map fun e => (posOf m.nodes e.1.1, posOf m.nodes e.1.2, e.2)).map some := by
    rw [h6]; simp [Raw.empty]
  show ({ nodes := g'.nodes.filterMap (fun (n : NodeSlot) => n.w), holes := [], prop := some g'.directed,
          edges := g'.edges.map liveSkel } : Wire) = _
  rw [hn, he, h4]
  rfl

/-! ### `from_graph` -/

def fgNode (acc : GMap) (nd : NodeSlot) : GMap :=
  match nd.w with
  | some w => acc.addNode w
  | none => acc

def fgEdge (nodes : List NodeSlot) (acc : Option GMap) (e : EdgeSlot) : Option GMap :=
  match acc with
  | none => none
  | some (m : GMap) =>
    match (nodes[e.src]?).bind (·.w), (nodes[e.tgt]?).bind (·.w), e.w with
    | some wa, some wb, some w => some (m.addEdge wa wb w).1
    | _, _, _ => none

theorem fromGraph_eq (g : Raw) :
    GMap.fromGraph g = g.edges.foldl (fgEdge g.nodes) (some (g.nodes.foldl fgNode (GMap.empty g.directed))) := rfl

theorem fgNode_fold : ∀ (nds : List NodeSlot) (ks : List Int) (acc : GMap),
    nds.map (fun (n : NodeSlot) => n.w) = ks.map some → (acc.nodes.map (·.1) ++ ks).Nodup →
    nds.foldl fgNode acc = { acc with nodes := acc.nodes ++ ks.map fun k => (k, []) } := by
  intro nds
  induction nds with
  | nil =>
    intro ks acc h _
    cases ks with
    | nil => simp
    | cons k t => simp at h
  | cons nd t ih =>
    intro ks acc h hn
    cases ks with
    | nil => simp at h
    | cons k ks =>
      simp only [List.map_cons, List.cons.injEq] at h
      obtain ⟨hw, ht⟩ := h
      have hk : k ∉ acc.nodes.map (·.1) := by
        intro hk
        have := (List.nodup_append.1 hn).2.2 k hk k (List.mem_cons_self ..)
        exact this rfl
      have h1 : fgNode acc nd = { acc with nodes := acc.nodes ++ [(k, [])] } := by
        simp only [fgNode, hw, GMap.addNode, assocUpsert_of_not_mem acc.nodes k [] id hk, id]
      rw [List.foldl_cons, h1, ih ks _ ht (by
        simp only [List.map_append, List.map_cons, List.map_nil, List.append_assoc, List.singleton_append]
        exact hn)]
      simp

/-- the adjacency entry an edge contributes to the vector of node `k` -/
def adjEntry (k : Int) (e : (Int × Int) × Int) : List (Int × Bool) :=
  if e.1.1 = k then [(e.1.2, true)] else if e.1.2 = k then [(e.1.1, false)] else []

/-- the adjacency vector `from_graph` builds for node `k` from the edge list -/
def adjFrom (es : List ((Int × Int) × Int)) (k : Int) : List (Int × Bool) := es.flatMap (adjEntry k)

theorem adjFrom_snoc (es : List ((Int × Int) × Int)) (e : (Int × Int) × Int) (k : Int) :
    adjFrom (es ++ [e]) k = adjFrom es k ++ adjEntry k e := by
  simp [adjFrom, List.flatMap_append]

theorem bind_w_of_map {o : Option NodeSlot} {a : Int}
    (h : o.map (fun (n : NodeSlot) => n.w) = some (some a)) : o.bind (fun (n : NodeSlot) => n.w) = some a := by
  cases o with
  | none => simp at h
  | some n => simpa using h

/-- `add_edge` of a new canonical key between present nodes, on a map in canonical form -/
theorem addEdge_canonical (d : Bool) (keys : List Int) (hk : keys.Nodup) (done : List ((Int × Int) × Int))
    (a b w : Int) (ha : a ∈ keys) (hb : b ∈ keys) (hc : d = true ∨ a ≤ b) (hnew : (a, b) ∉ done.map (·.1)) :
    ((⟨d, keys.map fun k => (k, adjFrom done k), done⟩ : GMap).addEdge a b w).1 =
      ⟨d, keys.map fun k => (k, adjFrom (done ++ [((a, b), w)]) k), done ++ [((a, b), w)]⟩ := by
  have hkey : (⟨d, keys.map fun k => (k, adjFrom done k), done⟩ : GMap).edgeKey a b = (a, b) := by
    unfold GMap.edgeKey
    rcases hc with hc | hc
    · simp [hc]
    · simp [hc]
  unfold GMap.addEdge
  simp only [hkey, assocIdx_none_of_not_mem done (a, b) hnew]
  rw [assocUpsert_map keys (adjFrom done) a [] _ hk ha]
  congr 1
  by_cases hab : a = b
  · subst hab
    simp only [ne_eq, not_true_eq_false, if_false]
    apply List.map_congr_left
    intro k _
    rw [adjFrom_snoc]
    by_cases hka : k = a
    · subst hka; simp [adjEntry]
    · have : ¬ a = k := fun e => hka e.symm
      simp [adjEntry, hka, this]
  · simp only [ne_eq, hab, not_false_eq_true, if_true]
    rw [assocUpsert_map keys _ b [] _ hk hb]
    apply List.map_congr_left
    intro k _
    rw [adjFrom_snoc]
    by_cases hka : k = a
    · subst hka
      have : ¬ k = b := hab
      simp [adjEntry, this]
    · have hak : ¬ a = k := fun e => hka e.symm
      by_cases hkb : k = b
      · subst hkb; simp [adjEntry, hka, hak]
      · have hbk : ¬ b = k := fun e => hkb e.symm
        simp [adjEntry, hka, hak, hkb, hbk]

theorem fgEdge_fold (d : Bool) (gnodes : List NodeSlot) (keys : List Int) (hk : keys.Nodup)
    (hw : gnodes.map (fun (n : NodeSlot) => n.w) = keys.map some)
    (idx : Int → Nat) (hidx : ∀ a, a ∈ keys → keys[idx a]? = some a) :
    ∀ (rest : List ((Int × Int) × Int)) (es : List EdgeSlot) (done : List ((Int × Int) × Int)),
      es.map liveSkel = rest.map (fun e => some (idx e.1.1, idx e.1.2, e.2)) →
      ((done ++ rest).map (·.1)).Nodup →
      (∀ e, e ∈ rest → e.1.1 ∈ keys ∧ e.1.2 ∈ keys ∧ (d = true ∨ e.1.1 ≤ e.1.2)) →
      es.foldl (fgEdge gnodes) (some ⟨d, keys.map fun k => (k, adjFrom done k), done⟩) =
        some ⟨d, keys.map fun k => (k, adjFrom (done ++ rest) k), done ++ rest⟩ := by
  have hget : ∀ a, a ∈ keys → (gnodes[idx a]?).bind (fun (n : NodeSlot) => n.w) = some a := by
    intro a ha
    apply bind_w_of_map
    have := congrArg (fun l => l[idx a]?) hw
    simp only [List.getElem?_map] at this
    rw [this, hidx a ha]; rfl
  intro rest
  induction rest with
  | nil =>
    intro es done h _ _
    cases es with
    | nil => simp
    | cons e t => simp at h
  | cons r rest ih =>
    intro es done h hn hgood
    cases es with
    | nil => simp at h
    | cons e es =>
      obtain ⟨⟨a, b⟩, w⟩ := r
      simp only [List.map_cons, List.cons.injEq] at h
      obtain ⟨he, ht⟩ := h
      obtain ⟨ha, hb, hc⟩ := hgood ((a, b), w) (List.mem_cons_self ..)
      simp only at ha hb hc he
      have hew : e.w = some w ∧ e.src = idx a ∧ e.tgt = idx b := by
        unfold liveSkel at he
        cases hx : e.w with
        | none => simp [hx] at he
        | some x => simp [hx] at he; exact ⟨by rw [he.2.2], he.1, he.2.1⟩
      have hnew : (a, b) ∉ done.map (·.1) := by
        intro hmem
        rw [List.map_append, List.map_cons] at hn
        exact (List.nodup_append.1 hn).2.2 (a, b) hmem (a, b) (List.mem_cons_self ..) rfl
      have h1 : fgEdge gnodes (some ⟨d, keys.map fun k => (k, adjFrom done k), done⟩) e =
          some ⟨d, keys.map fun k => (k, adjFrom (done ++ [((a, b), w)]) k), done ++ [((a, b), w)]⟩ := by
        simp only [fgEdge, hew.2.1, hew.2.2, hget a ha, hget b hb, hew.1]
        rw [addEdge_canonical d keys hk done a b w ha hb hc hnew]
      rw [List.foldl_cons, h1, ih es (done ++ [((a, b), w)]) ht
        (by simpa [List.append_assoc] using hn)
        (fun e' he' => hgood e' (List.mem_cons_of_mem _ he'))]
      simp [List.append_assoc]

/-- the canonical form of a map: same node keys, same edge map, adjacency vectors as `from_graph` lists them -/
def rebuildMap (m : GMap) : GMap :=
  { directed := m.directed, nodes := (m.nodes.map (·.1)).map fun k => (k, adjFrom m.edges k), edges := m.edges }

/-- `from_graph` of a graph that lists the nodes and edges of `m` -/
theorem fromGraph_rebuild (m : GMap) (g : Raw) (hd : g.directed = m.directed)
    (hn : (m.nodes.map (·.1)).Nodup) (he : (m.edges.map (·.1)).Nodup)
    (hgood : ∀ e, e ∈ m.edges → e.1.1 ∈ m.nodes.map (·.1) ∧ e.1.2 ∈ m.nodes.map (·.1) ∧
      (m.directed = true ∨ e.1.1 ≤ e.1.2))
    (hgn : g.nodes.map (fun (n : NodeSlot) => n.w) = (m.nodes.map (·.1)).map some)
    (hge : g.edges.map liveSkel = (m.edges.map fun e => (posOf m.nodes e.1.1, posOf m.nodes e.1.2, e.2)).map some) :
    GMap.fromGraph g = some (rebuildMap m) := by
  rw [fromGraph_eq, fgNode_fold g.nodes (m.nodes.map (·.1)) (GMap.empty g.directed) hgn (by simpa [GMap.empty] using hn)]
  have h0 : ({ GMap.empty g.directed with
      nodes := (GMap.empty g.directed).nodes ++ (m.nodes.map (·.1)).map fun k => (k, []) } : GMap) =
      ⟨m.directed, (m.nodes.map (·.1)).map fun k => (k, adjFrom [] k), []⟩ := by
    simp [GMap.empty, hd, adjFrom]
  rw [h0, fgEdge_fold m.directed g.nodes (m.nodes.map (·.1)) hn hgn (posOf m.nodes) ?_ m.edges g.edges []
    (by rw [hge, List.map_map]; rfl) (by simpa using he) hgood]
  · simp [rebuildMap]
  · intro a ha
    obtain ⟨i, h1, _, h3⟩ := assocIdx_some_of_mem m.nodes a ha
    simp only [posOf, h1, Option.getD_some]
    exact h3

/-! ### the round trip -/

/-- `GraphMap` → stream → `GraphMap`, any field order: the loaded map is the canonical form of the original -/
theorem roundtrip_map (m : GMap) (order : List Field)
    (ho : Field.n ∈ order ∧ Field.p ∈ order ∧ Field.e ∈ order)
    (hends : ∀ a b w, ((a, b), w) ∈ m.edges → a ∈ m.nodes.map (·.1) ∧ b ∈ m.nodes.map (·.1))
    (hn : (m.nodes.map (·.1)).Nodup) (he : (m.edges.map (·.1)).Nodup)
    (hcanon : ∀ a b w, ((a, b), w) ∈ m.edges → m.directed = true ∨ a ≤ b)
    (hcapN : m.nodes.length < 4294967295) (hcapE : m.edges.length < 4294967295) :
    ∃ w, serMap m = some w ∧ deMap m.directed order w = .ok (rebuildMap m) := by
  obtain ⟨g, hg, hser⟩ := intoGraph_wire m 4294967295
    (fun e he' => hends e.1.1 e.1.2 e.2 he') (by omega) (by omega)
  refine ⟨serGraph g, by simp [serMap, hg], ?_⟩
  rw [hser]
  obtain ⟨g', hde, hgn, hge⟩ := deGraph_complete 4294967295 m.directed order (m.nodes.map (·.1))
    (m.edges.map fun e => (posOf m.nodes e.1.1, posOf m.nodes e.1.2, e.2)) ho
    (by simpa using hcapN) (by simpa using hcapE)
    (by
      intro a b x hx
      obtain ⟨e, hem, heq⟩ := List.mem_map.1 hx
      simp only [Prod.mk.injEq] at heq
      obtain ⟨h1, h2⟩ := hends e.1.1 e.1.2 e.2 hem
      obtain ⟨ai, ha1, ha2, _⟩ := assocIdx_some_of_mem m.nodes e.1.1 h1
      obtain ⟨bi, hb1, hb2, _⟩ := assocIdx_some_of_mem m.nodes e.1.2 h2
      simp only [posOf, ha1, hb1, Option.getD_some] at heq
      simp only [List.length_map]
      omega)
  have hd : g'.directed = m.directed := (deGraph_de hde).hdir
  unfold deMap
  rw [hde]
  simp only [fromGraph_rebuild m g' hd hn he
    (fun e he' => ⟨(hends e.1.1 e.1.2 e.2 he').1, (hends e.1.1 e.1.2 e.2 he').2, hcanon e.1.1 e.1.2 e.2 he'⟩) hgn hge]

theorem rebuildMap_keys (m : GMap) : (rebuildMap m).nodes.map (·.1) = m.nodes.map (·.1) := by
  simp [rebuildMap, List.map_map, Function.comp_def]

/-- the canonical form is a fixed point -/
theorem rebuildMap_idem (m : GMap) : rebuildMap (rebuildMap m) = rebuildMap m := by
  have h := rebuildMap_keys m
  unfold rebuildMap at h ⊢
  simp only [h]

/-- D20 for `GraphMap`: a map holding exactly `u32::MAX` nodes serializes, and its stream is refused -/
theorem deMap_refuses_full (m : GMap) (order : List Field)
    (hends : ∀ a b w, ((a, b), w) ∈ m.edges → a ∈ m.nodes.map (·.1) ∧ b ∈ m.nodes.map (·.1))
    (hN : m.nodes.length = 4294967295) (hE : m.edges.length ≤ 4294967295) :
    ∃ w, serMap m = some w ∧ ∃ e, deMap m.directed order w = .error e := by
  obtain ⟨g, hg, hser⟩ := intoGraph_wire m 4294967295
    (fun e he' => hends e.1.1 e.1.2 e.2 he') (by omega) hE
  refine ⟨serGraph g, by simp [serMap, hg], ?_⟩
  rw [hser]
  have hfd : ∀ w : Wire, w.prop = some m.directed → w.nodes.length = 4294967295 →
      fromDeserializedGraph 4294967295 m.directed w = .error (.lenNode 4294967295 4294967295) := by
    intro w hp hn
    unfold fromDeserializedGraph
    rw [if_neg (by simp [hp]), if_pos (by omega), hn]
  have hdg : ∃ e, deGraph 4294967295 m.directed order
      { nodes := m.nodes.map (·.1), holes := [], prop := some m.directed,
        edges := (m.edges.map fun e => (posOf m.nodes e.1.1, posOf m.nodes e.1.2, e.2)).map some } = .error e := by
    unfold deGraph
    split
    · exact ⟨_, rfl⟩
    · refine ⟨.lenNode 4294967295 4294967295, ?_⟩
      split <;> rw [hfd _ rfl (by simpa using hN)]
  obtain ⟨e, he⟩ := hdg
  exact ⟨e, by unfold deMap; rw [he]⟩

end PetgraphModel.SerdeProofs
