import PetgraphModel.Proofs.C10Dijkstra
/-
The astar mirror model (`SP.astarLoop`), for EVERY heap discipline `pop` (`IsMinPop`), every
consistent view (`ViewArcs`), non-negative weights and ANY heuristic `h` (admissible or not):

* it never performs the unchecked `scores[&node]` on a missing key (no `panic`);
* `None` is returned only if no goal node is reachable from `s`;
* a returned `(cost, path)`: the path starts at `s`, ends at a goal node, follows existing arcs, `cost`
  is the cost of a real walk from `s` to that goal node, and the arc costs along the path sum to at
  most `cost`.
* for an admissible non-negative heuristic (consistent or not) `cost` is at most the cost of every
  walk to every goal: it is the distance to the nearest goal, and then the arc costs along the path
  sum to exactly `cost`.
Termination (an explicit fuel always suffices: bounded re-expansion, and `reconstruct_path_to`
terminating = acyclicity of `came_from`) is proved in `Proofs/C10AstarTerm.lean`.
-/
namespace PetgraphModel.C10P
open PetgraphModel PetgraphModel.MGraph PetgraphModel.SP

/-- the loop invariant of `astarLoop`; `u` = the node whose edges are being relaxed (its closure is
not yet established), `fl` = a heap entry that has just been popped and not yet accounted for -/
structure ACore (g : MGraph) (s : Nat) (isGoal : Nat → Bool) (h : Nat → Int)
    (u : Option Nat) (fl : Option (Int × Nat)) (st : AState) : Prop where
  real : ∀ x gx, amGet st.scores x = some gx → WalkCost g s x gx
  src : ∃ g0, amGet st.scores s = some g0 ∧ g0 ≤ 0
  heapScored : ∀ e, e ∈ st.heap → ∃ gx, amGet st.scores e.2 = some gx ∧ gx + h e.2 ≤ e.1
  pending : ∀ x gx, amGet st.scores x = some gx →
    (gx + h x, x) ∈ st.heap ∨ (∃ e', amGet st.est x = some e' ∧ e' ≤ gx + h x) ∨ fl = some (gx + h x, x)
  expanded : ∀ x e', some x ≠ u → amGet st.est x = some e' →
    ∃ g', g' + h x ≤ e' ∧ ∀ y w, (x, y, w) ∈ g.arcs → ∃ gy, amGet st.scores y = some gy ∧ gy ≤ g' + w
  goalEst : ∀ t, isGoal t = true → amGet st.est t = none
  came : ∀ x p, amGet st.came x = some p → ∃ gp gx w, amGet st.scores p = some gp ∧
    amGet st.scores x = some gx ∧ (p, x, w) ∈ g.arcs ∧ gp + w ≤ gx
  cameSrc : amGet st.came s = none
  scoredCame : ∀ x gx, amGet st.scores x = some gx → x = s ∨ ∃ p, amGet st.came x = some p

/-- the state after `scores[next] := ns; came_from[next] := node; heap.push((ns + h next, next))` -/
def aupd (st : AState) (h : Nat → Int) (node next : Nat) (ns : Int) : AState :=
  { st with scores := amSet st.scores next ns, came := amSet st.came next node,
            heap := st.heap ++ [(ns + h next, next)] }

theorem acore_upd {g : MGraph} (hw : NonNeg g) {s : Nat} {isGoal : Nat → Bool} {h : Nat → Int} {node : Nat}
    {gn : Int} {st : AState} (C : ACore g s isGoal h (some node) none st)
    (hsc : amGet st.scores node = some gn) {next : Nat} {w : Int} (harc : (node, next, w) ∈ g.arcs)
    (hlow : ∀ old, amGet st.scores next = some old → gn + w < old) :
    ACore g s isGoal h (some node) none (aupd st h node next (gn + w)) ∧
    amGet (aupd st h node next (gn + w)).scores node = some gn := by
  have hw0 : 0 ≤ w := hw _ _ _ harc
  have hgn0 : 0 ≤ gn := walk_nonneg hw (C.real node gn hsc)
  have hnn : next ≠ node := by
    intro e; subst e; have := hlow gn hsc; omega
  have hns : next ≠ s := by
    intro e; subst e
    obtain ⟨g0, hg0, hle⟩ := C.src
    have := hlow g0 hg0; omega
  have hget : ∀ b, amGet (aupd st h node next (gn + w)).scores b =
      if b = next then some (gn + w) else amGet st.scores b := by
    intro b; simp [aupd, amGet_amSet]
  have hcame : ∀ b, amGet (aupd st h node next (gn + w)).came b =
      if b = next then some node else amGet st.came b := by
    intro b; simp [aupd, amGet_amSet]
  have hheap : ∀ e, e ∈ (aupd st h node next (gn + w)).heap ↔ e ∈ st.heap ∨ e = (gn + w + h next, next) := by
    intro e; simp [aupd]
  have hest : (aupd st h node next (gn + w)).est = st.est := rfl
  have hmono : ∀ b y, amGet st.scores b = some y →
      ∃ y', amGet (aupd st h node next (gn + w)).scores b = some y' ∧ y' ≤ y := by
    intro b y hb
    rw [hget]
    by_cases hbn : b = next
    · subst hbn; simp; exact Int.le_of_lt (hlow y hb)
    · simp [hbn, hb]
  refine ⟨⟨?_, ?_, ?_, ?_, ?_, ?_, ?_, ?_, ?_⟩, ?_⟩
  · intro x gx hx
    rw [hget] at hx
    by_cases hxn : x = next
    · simp [hxn] at hx
      subst hxn; subst hx
      exact WalkCost.snoc (C.real node gn hsc) harc
    · simp [hxn] at hx; exact C.real x gx hx
  · obtain ⟨g0, hg0, hle⟩ := C.src
    exact ⟨g0, by rw [hget]; simp [Ne.symm hns, hg0], hle⟩
  · intro e he
    rcases (hheap e).mp he with h1 | h1
    · obtain ⟨gx, hgx, hle⟩ := C.heapScored e h1
      obtain ⟨y', hy', hle'⟩ := hmono e.2 gx hgx
      exact ⟨y', hy', by omega⟩
    · subst h1
      exact ⟨gn + w, by simp [hget], Int.le_refl _⟩
  · intro x gx hx
    rw [hget] at hx
    by_cases hxn : x = next
    · simp [hxn] at hx
      subst hxn; subst hx
      exact Or.inl ((hheap _).mpr (Or.inr rfl))
    · simp [hxn] at hx
      rcases C.pending x gx hx with h1 | h1 | h1
      · exact Or.inl ((hheap _).mpr (Or.inl h1))
      · exact Or.inr (Or.inl (by rw [hest]; exact h1))
      · cases h1
  · intro x e' hxu hx
    rw [hest] at hx
    obtain ⟨g', hg', hcl⟩ := C.expanded x e' hxu hx
    refine ⟨g', hg', ?_⟩
    intro y w' harc'
    obtain ⟨gy, hgy, hle⟩ := hcl y w' harc'
    obtain ⟨y', hy', hle'⟩ := hmono y gy hgy
    exact ⟨y', hy', by omega⟩
  · intro t ht; rw [hest]; exact C.goalEst t ht
  · intro x p hxp
    rw [hcame] at hxp
    by_cases hxn : x = next
    · simp [hxn] at hxp
      subst hxn; subst hxp
      refine ⟨gn, gn + w, w, ?_, by simp [hget], harc, Int.le_refl _⟩
      rw [hget]; simp [Ne.symm hnn, hsc]
    · simp [hxn] at hxp
      obtain ⟨gp, gx, w', h1, h2, h3, h4⟩ := C.came x p hxp
      obtain ⟨gp', hgp', hle'⟩ := hmono p gp h1
      refine ⟨gp', gx, w', hgp', ?_, h3, by omega⟩
      rw [hget]; simp [hxn, h2]
  · rw [hcame]; simp [Ne.symm hns]; exact C.cameSrc
  · intro x gx hx
    rw [hget] at hx
    by_cases hxn : x = next
    · right; exact ⟨node, by rw [hcame]; simp [hxn]⟩
    · simp [hxn] at hx
      rcases C.scoredCame x gx hx with h1 | ⟨p, hp⟩
      · exact Or.inl h1
      · right; exact ⟨p, by rw [hcame]; simp [hxn, hp]⟩
  · rw [hget]; simp [Ne.symm hnn, hsc]

/-- the edge loop of astar -/
theorem arelax_spec {g : MGraph} (hw : NonNeg g) (v : View) {s : Nat} {isGoal : Nat → Bool} {h : Nat → Int}
    {node : Nat} {gn : Int} :
    ∀ (rows : List (Nat × Nat)) (st : AState), ACore g s isGoal h (some node) none st →
      amGet st.scores node = some gn →
      (∀ be, be ∈ rows → (node, be.1, v.weight be.2) ∈ g.arcs) →
      ACore g s isGoal h (some node) none (astarRelax v h node gn rows st) ∧
      amGet (astarRelax v h node gn rows st).scores node = some gn ∧
      (astarRelax v h node gn rows st).est = st.est ∧
      (∀ b y, amGet st.scores b = some y → ∃ y', amGet (astarRelax v h node gn rows st).scores b = some y' ∧ y' ≤ y) ∧
      (∀ be, be ∈ rows → ∃ y, amGet (astarRelax v h node gn rows st).scores be.1 = some y ∧ y ≤ gn + v.weight be.2) := by
  intro rows
  induction rows with
  | nil =>
    intro st C hsc _
    exact ⟨C, hsc, rfl, fun b y hb => ⟨y, hb, Int.le_refl _⟩, fun be hbe => by cases hbe⟩
  | cons hd rest ih =>
    intro st C hsc harcs
    obtain ⟨next, eid⟩ := hd
    have harc : (node, next, v.weight eid) ∈ g.arcs := harcs (next, eid) (List.mem_cons_self ..)
    have harcs' : ∀ be, be ∈ rest → (node, be.1, v.weight be.2) ∈ g.arcs :=
      fun be hbe => harcs be (List.mem_cons_of_mem _ hbe)
    have key : ∃ st1, astarRelax v h node gn ((next, eid) :: rest) st = astarRelax v h node gn rest st1 ∧
        ACore g s isGoal h (some node) none st1 ∧ amGet st1.scores node = some gn ∧ st1.est = st.est ∧
        (∀ b y, amGet st.scores b = some y → ∃ y', amGet st1.scores b = some y' ∧ y' ≤ y) ∧
        (∃ y, amGet st1.scores next = some y ∧ y ≤ gn + v.weight eid) := by
      cases hold : amGet st.scores next with
      | none =>
        obtain ⟨C1, hsc1⟩ := acore_upd hw C hsc harc (fun old ho => by rw [hold] at ho; cases ho)
        refine ⟨aupd st h node next (gn + v.weight eid), by simp [astarRelax, hold, aupd], C1, hsc1, rfl, ?_, ?_⟩
        · intro b y hb
          simp only [aupd, amGet_amSet]
          by_cases hbn : b = next
          · subst hbn; rw [hold] at hb; cases hb
          · simp [hbn, hb]
        · exact ⟨gn + v.weight eid, by simp [aupd, amGet_amSet], Int.le_refl _⟩
      | some old =>
        by_cases hle : old ≤ gn + v.weight eid
        · exact ⟨st, by simp [astarRelax, hold, hle], C, hsc, rfl, fun b y hb => ⟨y, hb, Int.le_refl _⟩,
            ⟨old, hold, hle⟩⟩
        · have hl : ∀ old', amGet st.scores next = some old' → gn + v.weight eid < old' := by
            intro old' ho; rw [hold] at ho; cases ho; omega
          obtain ⟨C1, hsc1⟩ := acore_upd hw C hsc harc hl
          refine ⟨aupd st h node next (gn + v.weight eid), by simp [astarRelax, hold, hle, aupd], C1, hsc1, rfl, ?_, ?_⟩
          · intro b y hb
            simp only [aupd, amGet_amSet]
            by_cases hbn : b = next
            · subst hbn; simp; exact Int.le_of_lt (hl y hb)
            · simp [hbn, hb]
          · exact ⟨gn + v.weight eid, by simp [aupd, amGet_amSet], Int.le_refl _⟩
    obtain ⟨st1, heq, C1, hsc1, hest1, hmono1, hhead⟩ := key
    obtain ⟨C2, hsc2, hest2, hmono2, hrows⟩ := ih st1 C1 hsc1 harcs'
    rw [heq]
    refine ⟨C2, hsc2, hest2.trans hest1, ?_, ?_⟩
    · intro b y hb
      obtain ⟨y1, h1, l1⟩ := hmono1 b y hb
      obtain ⟨y2, h2, l2⟩ := hmono2 b y1 h1
      exact ⟨y2, h2, by omega⟩
    · intro be hbe
      cases List.mem_cons.mp hbe with
      | inl e =>
        subst e
        obtain ⟨y, hy, hle⟩ := hhead
        obtain ⟨y2, h2, l2⟩ := hmono2 next y hy
        show ∃ y, amGet _ next = some y ∧ y ≤ gn + v.weight eid
        exact ⟨y2, h2, by omega⟩
      | inr e => exact hrows be e

/-! ### `reconstruct_path_to` -/

theorem reconstruct_spec {g : MGraph} {s : Nat} {isGoal : Nat → Bool} {h : Nat → Int} {st : AState}
    (hw : NonNeg g) (C : ACore g s isGoal h none none st) (t : Nat) (cost : Int) :
    ∀ (f cur : Nat) (acc p : List Nat) (gc ca : Int),
      amGet st.scores cur = some gc → acc.head? = some cur → acc.getLast? = some t →
      PathCost g acc ca → ca + gc ≤ cost →
      reconstruct st.came f cur acc = some p →
      p.head? = some s ∧ p.getLast? = some t ∧ ∃ c', PathCost g p c' ∧ c' ≤ cost := by
  intro f
  induction f with
  | zero => intro cur acc p gc ca _ _ _ _ _ hr; simp [reconstruct] at hr
  | succ f ih =>
    intro cur acc p gc ca hgc hhead hlast hpc hle hr
    simp only [reconstruct] at hr
    cases hcm : amGet st.came cur with
    | none =>
      rw [hcm] at hr
      simp at hr
      subst hr
      have hcs : cur = s := by
        rcases C.scoredCame cur gc hgc with e | ⟨p', hp'⟩
        · exact e
        · rw [hcm] at hp'; cases hp'
      subst hcs
      have : 0 ≤ gc := walk_nonneg hw (C.real cur gc hgc)
      exact ⟨hhead, hlast, ca, hpc, by omega⟩
    | some prev =>
      rw [hcm] at hr
      simp only at hr
      obtain ⟨gp, gx, w, h1, h2, h3, h4⟩ := C.came cur prev hcm
      rw [hgc] at h2; cases h2
      cases acc with
      | nil => simp at hhead
      | cons a rest =>
        have ha : a = cur := by simpa using hhead
        subst ha
        refine ih prev (prev :: a :: rest) p gp (w + ca) h1 rfl ?_ (PathCost.cons h3 hpc) (by omega) hr
        simpa [List.getLast?_cons_cons] using hlast

/-! ### the main loop -/

/-- `h` never overestimates the cost of a walk to a goal, and is non-negative -/
def Admissible (g : MGraph) (isGoal : Nat → Bool) (h : Nat → Int) : Prop :=
  (∀ x, 0 ≤ h x) ∧ ∀ x t c, isGoal t = true → WalkCost g x t c → h x ≤ c

/-- what each result of `astarLoop` guarantees -/
def APost (g : MGraph) (s : Nat) (isGoal : Nat → Bool) (h : Nat → Int) : AResult → Prop
  | .notFound => ∀ t, isGoal t = true → ¬ Reach g s t
  | .found cost p => ∃ t, isGoal t = true ∧ p.head? = some s ∧ p.getLast? = some t ∧ WalkCost g s t cost ∧
      (∃ c', PathCost g p c' ∧ c' ≤ cost) ∧
      (Admissible g isGoal h → ∀ t' c', isGoal t' = true → WalkCost g s t' c' → cost ≤ c')
  | .panic => False
  | .fuel => True

/-- walks, built from the front -/
inductive WalkC (g : MGraph) : Nat → Nat → Int → Prop
  | nil (a : Nat) : WalkC g a a 0
  | cons {a b x : Nat} {w c : Int} : (a, b, w) ∈ g.arcs → WalkC g b x c → WalkC g a x (w + c)

theorem walkC_snoc {g : MGraph} {a b x : Nat} {c w : Int} (h : WalkC g a b c) (harc : (b, x, w) ∈ g.arcs) :
    WalkC g a x (c + w) := by
  induction h with
  | nil =>
    have := WalkC.cons harc (WalkC.nil (g := g) x)
    simpa using this
  | cons ha _ ih =>
    have := WalkC.cons ha (ih harc)
    rw [Int.add_assoc]; exact this

theorem walkC_of_walkCost {g : MGraph} {a b : Nat} {c : Int} (h : WalkCost g a b c) : WalkC g a b c := by
  induction h with
  | nil => exact WalkC.nil _
  | snoc _ harc ih => exact walkC_snoc ih harc

theorem walkCost_of_walkC {g : MGraph} {a b : Nat} {c : Int} (h : WalkC g a b c) : WalkCost g a b c := by
  induction h with
  | nil => exact WalkCost.nil _
  | cons harc _ ih => exact walk_cons harc ih

/-- with an admissible heuristic, every walk to a goal is "guarded" by a heap entry whose estimate
does not exceed the cost of the walk -/
theorem guard_entry {g : MGraph} {s : Nat} {isGoal : Nat → Bool} {h : Nat → Int} {st : AState}
    (C : ACore g s isGoal h none none st) (hadm : Admissible g isGoal h) {t : Nat} (ht : isGoal t = true) :
    ∀ x r, WalkC g x t r → ∀ d gx, WalkCost g s x d → amGet st.scores x = some gx → gx ≤ d →
      ∃ e, e ∈ st.heap ∧ e.1 ≤ d + r := by
  intro x r hwalk
  induction hwalk with
  | nil a =>
    intro d gx _ hgx hle
    rcases C.pending a gx hgx with h1 | ⟨e', he', _⟩ | h1
    · refine ⟨_, h1, ?_⟩
      have := hadm.2 a a 0 ht (WalkCost.nil a)
      simp only; omega
    · rw [C.goalEst a ht] at he'; cases he'
    · cases h1
  | @cons a b x w c harc hrest ih =>
    intro d gx hd hgx hle
    rcases C.pending a gx hgx with h1 | ⟨e', he', hle'⟩ | h1
    · refine ⟨_, h1, ?_⟩
      have := hadm.2 a x (w + c) ht (walkCost_of_walkC (WalkC.cons harc hrest))
      simp only; omega
    · obtain ⟨g', hg', hcl⟩ := C.expanded a e' (by simp) he'
      obtain ⟨gy, hgy, hley⟩ := hcl b w harc
      obtain ⟨e, he, hee⟩ := ih ht (d + w) gy (WalkCost.snoc hd harc) hgy (by omega)
      exact ⟨e, he, by omega⟩
    · cases h1

theorem acore_pop {g : MGraph} {s : Nat} {isGoal : Nat → Bool} {h : Nat → Int} {st : AState}
    {pop : Pop} (hp : IsMinPop pop) (C : ACore g s isGoal h none none st) {e : Int × Nat} {h' : Heap}
    (hpop : pop st.heap = some (e, h')) : ACore g s isGoal h none (some e) { st with heap := h' } := by
  have hmem := hp.mem _ _ _ hpop
  refine ⟨C.real, C.src, fun x hx => C.heapScored x ((hmem x).mpr (Or.inr hx)), ?_, C.expanded, C.goalEst,
    C.came, C.cameSrc, C.scoredCame⟩
  intro x gx hx
  rcases C.pending x gx hx with h1 | h1 | h1
  · rcases (hmem _).mp h1 with h2 | h2
    · exact Or.inr (Or.inr (by rw [h2]))
    · exact Or.inl h2
  · exact Or.inr (Or.inl h1)
  · cases h1

theorem aloop_spec {pop : Pop} (hp : IsMinPop pop) {v : View} (hv : ViewArcs v) (hw : NonNeg v.g)
    (s : Nat) (isGoal : Nat → Bool) (h : Nat → Int) :
    ∀ (fuel : Nat) (st : AState), ACore v.g s isGoal h none none st →
      APost v.g s isGoal h (astarLoop pop v isGoal h fuel st) := by
  intro fuel
  induction fuel with
  | zero => intro st _; simp [astarLoop, APost]
  | succ f ih =>
    intro st C
    simp only [astarLoop]
    cases hpop : pop st.heap with
    | none =>
      -- heap empty: every scored node is closed, no goal is scored
      have hh : st.heap = [] := (hp.none_iff _).mp hpop
      simp only [APost]
      have hclosed : ∀ x gx, amGet st.scores x = some gx → ∀ y w, (x, y, w) ∈ v.g.arcs →
          ∃ gy, amGet st.scores y = some gy := by
        intro x gx hx y w harc
        rcases C.pending x gx hx with h1 | ⟨e', he', hle⟩ | h1
        · rw [hh] at h1; cases h1
        · obtain ⟨g', _, hcl⟩ := C.expanded x e' (by simp) he'
          obtain ⟨gy, hgy, _⟩ := hcl y w harc
          exact ⟨gy, hgy⟩
        · cases h1
      have hreach : ∀ x, Reach v.g s x → ∃ gx, amGet st.scores x = some gx := by
        intro x hr
        obtain ⟨c, hc⟩ := (DistProofs.walk_iff_reach v.g s x).mpr hr
        induction hc with
        | nil => obtain ⟨g0, hg0, _⟩ := C.src; exact ⟨g0, hg0⟩
        | snoc hwk harc ihw =>
          obtain ⟨gb, hgb⟩ := ihw ((DistProofs.walk_iff_reach v.g s _).mp ⟨_, hwk⟩)
          exact hclosed _ gb hgb _ _ harc
      intro t ht hr
      obtain ⟨gt, hgt⟩ := hreach t hr
      rcases C.pending t gt hgt with h1 | ⟨e', he', _⟩ | h1
      · rw [hh] at h1; cases h1
      · rw [C.goalEst t ht] at he'; cases he'
      · cases h1
    | some eh =>
      obtain ⟨⟨e, node⟩, h'⟩ := eh
      simp only
      have C' := acore_pop hp C hpop
      have hin : (e, node) ∈ st.heap := (hp.mem _ _ _ hpop _).mpr (Or.inl rfl)
      obtain ⟨gn, hgn, hge⟩ := C.heapScored (e, node) hin
      simp only at hgn hge
      by_cases hgoal : isGoal node = true
      · simp only [hgoal, if_true, hgn]
        cases hrec : reconstruct st.came (st.came.length + 1) node [node] with
        | none => simp [APost]
        | some p =>
          simp only [APost]
          obtain ⟨a, b, c', hc', hle⟩ := reconstruct_spec hw C node gn _ node [node] p gn 0 hgn rfl rfl
            (PathCost.single node) (by omega) hrec
          refine ⟨node, hgoal, a, b, C.real node gn hgn, ⟨c', hc', hle⟩, ?_⟩
          intro hadm t' c' ht' hwalk
          obtain ⟨g0, hg0, hg0le⟩ := C.src
          obtain ⟨en, hen, hle'⟩ := guard_entry C hadm ht' s c' (walkC_of_walkCost hwalk) 0 g0 (WalkCost.nil s) hg0 hg0le
          have hmin := hp.min _ _ _ hpop en hen
          have := hadm.1 node
          simp only at hmin
          omega
      · have hgoal' : isGoal node = false := by simpa using hgoal
        simp only [hgoal', hgn]
        -- the expansion of `node` from a state `st1` whose `est[node]` is the popped estimate
        have expand : ∀ (hskip : ∀ e0, amGet st.est node = some e0 → ¬ e0 ≤ e),
            APost v.g s isGoal h (astarLoop pop v isGoal h f
              (astarRelax v h node gn (v.outOf node)
                { scores := st.scores, est := amSet st.est node e, came := st.came, heap := h' })) := by
          intro hskip
          have C1 : ACore v.g s isGoal h (some node) none
              { scores := st.scores, est := amSet st.est node e, came := st.came, heap := h' } := by
            refine ⟨C'.real, C'.src, C'.heapScored, ?_, ?_, ?_, C'.came, C'.cameSrc, C'.scoredCame⟩
            · intro x gx hx
              rcases C'.pending x gx hx with h1 | ⟨e', he', hle⟩ | h1
              · exact Or.inl h1
              · right; left
                simp only [amGet_amSet]
                by_cases hxn : x = node
                · subst hxn
                  rw [hgn] at hx; cases hx
                  exact absurd (by omega : e' ≤ e) (hskip e' he')
                · simp [hxn, he', hle]
              · right; left
                simp at h1
                obtain ⟨h1a, h1b⟩ := h1
                subst h1b
                simp only [amGet_amSet, if_true]
                exact ⟨e, rfl, by omega⟩
            · intro x e' hxu hx
              have hxn : x ≠ node := fun e => hxu (by rw [e])
              simp only [amGet_amSet, hxn, if_false] at hx
              exact C'.expanded x e' (by simp) hx
            · intro t ht
              have : t ≠ node := by intro e; subst e; rw [ht] at hgoal'; cases hgoal'
              simp only [amGet_amSet, this, if_false]
              exact C'.goalEst t ht
          have harcs : ∀ be, be ∈ v.outOf node → (node, be.1, v.weight be.2) ∈ v.g.arcs :=
            fun be hbe => (hv node be.1 (v.weight be.2)).mp ⟨be.2, hbe, rfl⟩
          obtain ⟨C2, hsc2, hest2, _, hrows⟩ := arelax_spec hw v (v.outOf node) _ C1 hgn harcs
          apply ih
          refine ⟨C2.real, C2.src, C2.heapScored, C2.pending, ?_, C2.goalEst, C2.came, C2.cameSrc, C2.scoredCame⟩
          intro x e' _ hx
          by_cases hxn : x = node
          · subst hxn
            rw [hest2] at hx
            simp only [amGet_amSet, if_true] at hx
            cases hx
            refine ⟨gn, hge, ?_⟩
            intro y w harc
            obtain ⟨eid, hmemrow, hwe⟩ := (hv x y w).mpr harc
            obtain ⟨gy, hgy, hle⟩ := hrows (y, eid) hmemrow
            exact ⟨gy, hgy, by simp only at hle; rw [hwe] at hle; exact hle⟩
          · exact C2.expanded x e' (by simpa using hxn) hx
        cases hest : amGet st.est node with
        | none =>
          simp only
          exact expand (fun e0 he0 => by rw [hest] at he0; cases he0)
        | some e0 =>
          simp only
          by_cases hle : e0 ≤ e
          · simp only [hle, if_true]
            apply ih
            refine ⟨C'.real, C'.src, C'.heapScored, ?_, C'.expanded, C'.goalEst, C'.came, C'.cameSrc, C'.scoredCame⟩
            intro x gx hx
            rcases C'.pending x gx hx with h1 | h1 | h1
            · exact Or.inl h1
            · exact Or.inr (Or.inl h1)
            · simp at h1
              obtain ⟨h1a, h1b⟩ := h1
              subst h1b
              exact Or.inr (Or.inl ⟨e0, hest, by omega⟩)
          · simp only [hle, if_false]
            exact expand (fun e0' he0' => by rw [hest] at he0'; cases he0'; exact hle)

theorem acore_init (g : MGraph) (s : Nat) (isGoal : Nat → Bool) (h : Nat → Int) :
    ACore g s isGoal h none none { scores := [(s, 0)], heap := [(h s, s)] } := by
  have hget : ∀ x y, amGet [(s, (0 : Int))] x = some y → x = s ∧ y = 0 := by
    intro x y hx
    simp only [amGet, List.lookup] at hx
    split at hx
    · rename_i heq; cases hx; exact ⟨by simpa using heq, rfl⟩
    · cases hx
  have hs : amGet [(s, (0 : Int))] s = some 0 := by simp [amGet, List.lookup]
  refine ⟨?_, ⟨0, hs, Int.le_refl _⟩, ?_, ?_, ?_, ?_, ?_, rfl, ?_⟩
  · intro x gx hx
    obtain ⟨h1, h2⟩ := hget x gx hx
    subst h1; subst h2; exact WalkCost.nil _
  · intro e he
    simp at he; subst he
    exact ⟨0, hs, by simp⟩
  · intro x gx hx
    obtain ⟨h1, h2⟩ := hget x gx hx
    subst h1; subst h2
    left; simp
  · intro x e' _ hx; simp [amGet] at hx
  · intro t _; rfl
  · intro x p hx; simp [amGet] at hx
  · intro x gx hx
    exact Or.inl (hget x gx hx).1

/-- **astar mirror model, every heap discipline, any heuristic** -/
theorem astar_partial {pop : Pop} (hp : IsMinPop pop) {v : View} (hv : ViewArcs v) (hw : NonNeg v.g)
    (s : Nat) (isGoal : Nat → Bool) (h : Nat → Int) (fuel : Nat) :
    APost v.g s isGoal h (SP.astar pop v s isGoal h fuel) :=
  aloop_spec hp hv hw s isGoal h fuel _ (acore_init v.g s isGoal h)

end PetgraphModel.C10P
