import PetgraphModel.Model.Dot
import PetgraphModel.Spec.Dot
import Mathlib.Data.List.Induction
/-
Lemmas behind the Dot theorems of `Theorems/C18.lean`: the escaper against the quoted-string rule, the
lexer and the statement parser as state machines that compose over concatenation, the line structure of
`graph_fmt`, and the parse of the whole text.
-/
namespace PetgraphModel.DotP
open PetgraphModel.Dot PetgraphModel.Spec.Dot

theorem lexQuoted_plain (c : Char) (t : List Char) (h1 : c ≠ '"') (h2 : c ≠ '\\') :
    lexQuoted (c :: t) = (lexQuoted t).map fun (a, b) => (c :: a, b) := by
  rw [lexQuoted.eq_def]
  split <;> simp_all

theorem lexQuoted_escapeChar (c : Char) (t : List Char) :
    lexQuoted (escapeChar c ++ t) = (lexQuoted t).map fun (a, b) => (escapeChar c ++ a, b) := by
  unfold escapeChar
  by_cases h1 : c = '"'
  · subst h1; simp [lexQuoted]
  · by_cases h2 : c = '\\'
    · subst h2; simp [lexQuoted]
    · by_cases h3 : c = '\n'
      · subst h3
        simp only [h1, h2, or_self, if_false, if_true, List.cons_append, List.nil_append]
        rw [lexQuoted.eq_def]
        simp
        rw [lexQuoted_plain 'l' t (by decide) (by decide)]
        cases lexQuoted t <;> simp
      · simp only [h1, h2, h3, or_self, if_false, List.cons_append, List.nil_append]
        exact lexQuoted_plain c t h1 h2

/-- no weight can end its label early: the quoted-string rule, started after the opening quote, stops
exactly at the closing quote `Dot` writes -/
theorem escape_lex (s r : List Char) : lexQuoted (escape s ++ '"' :: r) = some (escape s, r) := by
  induction s with
  | nil => simp [escape, lexQuoted]
  | cons c s ih =>
    simp only [escape, List.flatMap_cons, List.append_assoc] at ih ⊢
    rw [lexQuoted_escapeChar, ih]
    simp

theorem unescape_escapeChar (c : Char) (t : List Char) :
    unescape (escapeChar c ++ t) = c :: unescape t := by
  unfold escapeChar
  by_cases h1 : c = '"'
  · subst h1; simp [unescape]
  · by_cases h2 : c = '\\'
    · subst h2; simp [unescape]
    · by_cases h3 : c = '\n'
      · subst h3; simp [unescape]
      · simp only [h1, h2, h3, or_self, if_false, List.cons_append, List.nil_append]
        rw [unescape.eq_def]
        split <;> simp_all

/-- the label shows what the weight printed: un-escaping undoes `Escaper` -/
theorem unescape_escape (s : List Char) : unescape (escape s) = s := by
  induction s with
  | nil => simp [escape, unescape]
  | cons c s ih =>
    simp only [escape, List.flatMap_cons] at ih ⊢
    rw [unescape_escapeChar, ih]

/-! ### the lexer as a state machine -/

theorem lexRun_append (s : LexSt) (a b : List Char) : lexRun s (a ++ b) = lexRun (lexRun s a) b := by
  simp [lexRun, List.foldl_append]

/-- content that stays inside a quoted string -/
def StrSafe (content : List Char) : Prop :=
  ∀ toks acc, lexRun ⟨toks, .str acc⟩ content = ⟨toks, .str (acc ++ content)⟩

theorem StrSafe.nil : StrSafe [] := by intro t a; simp [lexRun]

theorem StrSafe.append {a b : List Char} (ha : StrSafe a) (hb : StrSafe b) : StrSafe (a ++ b) := by
  intro t acc
  rw [lexRun_append, ha, hb, List.append_assoc]

theorem StrSafe.plain (c : Char) (h1 : c ≠ '"') (h2 : c ≠ '\\') : StrSafe [c] := by
  intro t acc
  simp [lexRun, lexStep, h1, h2]

theorem StrSafe.escapeChar (c : Char) : StrSafe (escapeChar c) := by
  intro t acc
  unfold Dot.escapeChar
  by_cases h1 : c = '"'
  · subst h1; simp [lexRun, lexStep]
  · by_cases h2 : c = '\\'
    · subst h2; simp [lexRun, lexStep]
    · by_cases h3 : c = '\n'
      · subst h3; simp [lexRun, lexStep]
      · simp [h1, h2, h3, lexRun, lexStep]

theorem StrSafe.escape (s : List Char) : StrSafe (escape s) := by
  induction s with
  | nil => exact StrSafe.nil
  | cons c s ih =>
    simp only [Dot.escape, List.flatMap_cons] at ih ⊢
    exact (StrSafe.escapeChar c).append ih

theorem StrSafe.of_forall (l : List Char) (h : ∀ c ∈ l, c ≠ '"' ∧ c ≠ '\\') : StrSafe l := by
  induction l with
  | nil => exact StrSafe.nil
  | cons c l ih =>
    have := (StrSafe.plain c (h c (by simp)).1 (h c (by simp)).2).append
      (ih fun d hd => h d (by simp [hd]))
    simpa using this

theorem digit_facts (c : Char) (h : c.isDigit = true) :
    c ≠ '"' ∧ c ≠ '\\' ∧ isIdChar c = true := by
  have h' : 48 ≤ c.val ∧ c.val ≤ 57 := by simpa [Char.isDigit] using h
  refine ⟨?_, ?_, ?_⟩
  · rintro rfl; revert h; decide
  · rintro rfl; revert h; decide
  · simp [isIdChar, Char.isAlphanum, h]

theorem decimal_digits (n : Nat) : ∀ c ∈ decimal n, c.isDigit = true :=
  fun _ hc => Nat.isDigit_of_mem_toDigits (by decide) (by decide) hc

theorem decimal_ne_nil (n : Nat) : decimal n ≠ [] := Nat.toDigits_ne_nil

theorem StrSafe.decimal (n : Nat) : StrSafe (decimal n) :=
  StrSafe.of_forall _ fun c hc => ⟨(digit_facts c (decimal_digits n c hc)).1, (digit_facts c (decimal_digits n c hc)).2.1⟩

/-- a piece of text that begins and ends between tokens and lexes to `toks` -/
def LexOK (text : List Char) (toks : List Tok) : Prop :=
  ∀ pre, lexRun ⟨pre, .top⟩ text = ⟨pre ++ toks, .top⟩

theorem LexOK.nil : LexOK [] [] := by intro p; simp [lexRun]

theorem LexOK.append {a b : List Char} {ta tb : List Tok} (ha : LexOK a ta) (hb : LexOK b tb) :
    LexOK (a ++ b) (ta ++ tb) := by
  intro pre
  rw [lexRun_append, ha, hb, List.append_assoc]

theorem LexOK.lex {text : List Char} {toks : List Tok} (h : LexOK text toks) : lex text = some toks := by
  have := h []
  simp only [Spec.Dot.lex]
  show lexEnd (lexRun ⟨[], .top⟩ text) = some toks
  rw [this]; rfl

theorem LexOK.flatMap {α : Type} (l : List α) (f : α → List Char) (g : α → List Tok)
    (h : ∀ a ∈ l, LexOK (f a) (g a)) : LexOK (l.flatMap f) (l.flatMap g) := by
  induction l with
  | nil => exact LexOK.nil
  | cons a l ih =>
    simp only [List.flatMap_cons]
    exact (h a (by simp)).append (ih fun b hb => h b (by simp [hb]))

theorem lexOK_quoted (content : List Char) (h : StrSafe content) :
    LexOK ('"' :: content ++ ['"']) [.str content] := by
  intro pre
  have h1 : lexRun ⟨pre, .top⟩ ('"' :: content ++ ['"']) =
      lexRun (lexRun ⟨pre, .str []⟩ content) ['"'] := by
    rw [List.cons_append, ← lexRun_append]
    simp [lexRun, lexStep, lexTop, isSpace]
  rw [h1, h]
  simp [lexRun, lexStep]

theorem digit_top (c : Char) (h : c.isDigit = true) (toks : List Tok) :
    lexTop toks c = ⟨toks, .ident [c]⟩ := by
  have h' : 48 ≤ c.val ∧ c.val ≤ 57 := by simpa [Char.isDigit] using h
  have hid := (digit_facts c h).2.2
  have ne : ∀ d : Char, ¬ (48 ≤ d.val ∧ d.val ≤ 57) → c ≠ d := by
    rintro d hd rfl; exact hd h'
  have n1 := ne ' ' (by decide)
  have n2 := ne '\n' (by decide)
  have n3 := ne '\t' (by decide)
  have n4 := ne '\r' (by decide)
  have n5 := ne '"' (by decide)
  have n6 := ne '-' (by decide)
  have n7 := ne '{' (by decide)
  have n8 := ne '}' (by decide)
  have n9 := ne '[' (by decide)
  have n10 := ne ']' (by decide)
  have n11 := ne '=' (by decide)
  have n12 := ne ';' (by decide)
  have n13 := ne ',' (by decide)
  simp [lexTop, isSpace, punct, n1, n2, n3, n4, n5, n6, n7, n8, n9, n10, n11, n12, n13, hid]

theorem ident_run (l : List Char) (h : ∀ c ∈ l, isIdChar c = true) (toks : List Tok) (acc : List Char) :
    lexRun ⟨toks, .ident acc⟩ l = ⟨toks, .ident (acc ++ l)⟩ := by
  induction l generalizing acc with
  | nil => simp [lexRun]
  | cons c l ih =>
    have hc := h c (by simp)
    have := ih (fun d hd => h d (by simp [hd])) (acc ++ [c])
    simp only [lexRun, List.foldl_cons] at this ⊢
    simp only [lexStep, hc, if_true]
    rw [this]; simp

/-- a number followed by a blank is one ID token -/
theorem lexOK_decimal (n : Nat) : LexOK (decimal n ++ [' ']) [.id (decimal n)] := by
  intro pre
  have hd := decimal_digits n
  match hm : decimal n, decimal_ne_nil n with
  | c :: l, _ =>
    rw [hm] at hd
    have hc := hd c (by simp)
    have hl : ∀ d ∈ l, isIdChar d = true := fun d hd' => (digit_facts d (hd d (by simp [hd']))).2.2
    rw [List.cons_append, lexRun, List.foldl_cons]
    show lexRun (lexStep ⟨pre, .top⟩ c) (l ++ [' ']) = _
    have : lexStep ⟨pre, .top⟩ c = ⟨pre, .ident [c]⟩ := by
      simp only [lexStep]; exact digit_top c hc pre
    rw [this, lexRun_append, ident_run l hl]
    simp [lexRun, lexStep, isIdChar, lexTop, isSpace, Char.isAlphanum, Char.isAlpha, Char.isDigit,
      Char.isUpper, Char.isLower]

theorem lexOK_indent : LexOK INDENT [] := by intro pre; simp [INDENT, lexRun, lexStep, lexTop, isSpace]
theorem lexOK_open : LexOK ['[', ' '] [.lbrack] := by
  intro pre; simp [lexRun, lexStep, lexTop, isSpace, punct]
theorem lexOK_close : LexOK [']', '\n'] [.rbrack] := by
  intro pre; simp [lexRun, lexStep, lexTop, isSpace, punct]
theorem lexOK_space : LexOK [' '] [] := by intro pre; simp [lexRun, lexStep, lexTop, isSpace]
theorem lexOK_footer : LexOK ['}', '\n'] [.rbrace] := by
  intro pre; simp [lexRun, lexStep, lexTop, isSpace, punct]
theorem lexOK_edge (d : Bool) : LexOK (EDGE d ++ [' ']) [.edgeop d] := by
  intro pre; cases d <;> simp [EDGE, lexRun, lexStep, lexTop, isSpace]

theorem lexOK_labelKey : LexOK ['l', 'a', 'b', 'e', 'l', ' ', '=', ' '] [.id kwLabel, .eq] := by
  intro pre
  simp [lexRun, lexStep, lexTop, isSpace, punct, isIdChar, kwLabel, Char.isAlphanum, Char.isAlpha,
    Char.isDigit, Char.isUpper, Char.isLower]

theorem lexOK_header (d : Bool) : LexOK (TYPE d ++ [' ', '{', '\n']) [.id (TYPE d), .lbrace] := by
  intro pre
  cases d <;>
  simp [TYPE, lexRun, lexStep, lexTop, isSpace, punct, isIdChar, Char.isAlphanum, Char.isAlpha,
    Char.isDigit, Char.isUpper, Char.isLower]

theorem lexOK_rankdir (r : RankDir) :
    LexOK (INDENT ++ ['r', 'a', 'n', 'k', 'd', 'i', 'r', '=', '"'] ++ r.value ++ ['"', '\n'])
      [.id kwRankdir, .eq, .str r.value] := by
  intro pre
  cases r <;>
  simp [INDENT, RankDir.value, kwRankdir, lexRun, lexStep, lexTop, isSpace, punct, isIdChar, Char.isAlphanum,
    Char.isAlpha, Char.isDigit, Char.isUpper, Char.isLower]

/-- `label = "<content>" ` -/
theorem lexOK_label (content : List Char) (h : StrSafe content) :
    LexOK (['l', 'a', 'b', 'e', 'l', ' ', '=', ' ', '"'] ++ content ++ ['"', ' '])
      [.id kwLabel, .eq, .str content] := by
  have := (lexOK_labelKey.append (lexOK_quoted content h)).append lexOK_space
  simpa using this

theorem StrSafe.escaped (f : Fmt) (w : Weight) : StrSafe (escaped f w) := by
  unfold Dot.escaped; split <;> exact StrSafe.escape _

/-! ### the statements `Dot` writes, as tokens and as parsed statements -/

def nodeLabel (c : Configs) (f : Fmt) (n : NodeRef) : Option (List Char) :=
  if c.NodeNoLabel then none else some (if c.NodeIndexLabel then decimal n.index else escaped f n.weight)

def edgeLabel (c : Configs) (f : Fmt) (i : Nat) (e : EdgeRef) : Option (List Char) :=
  if c.EdgeNoLabel then none else some (if c.EdgeIndexLabel then decimal i else escaped f e.weight)

def labelToks : Option (List Char) → List Tok
  | none => []
  | some l => [.id kwLabel, .eq, .str l]

def labelAttrs : Option (List Char) → Attrs
  | none => []
  | some l => [(kwLabel, .str l)]

def labelText : Option (List Char) → List Char
  | none => []
  | some l => ['l', 'a', 'b', 'e', 'l', ' ', '=', ' ', '"'] ++ l ++ ['"', ' ']

theorem lexOK_labelText (l : Option (List Char)) (h : ∀ x, l = some x → StrSafe x) :
    LexOK (labelText l) (labelToks l) := by
  cases l with
  | none => exact LexOK.nil
  | some x => exact lexOK_label x (h x rfl)

theorem nodeLabel_safe (c : Configs) (f : Fmt) (n : NodeRef) : ∀ x, nodeLabel c f n = some x → StrSafe x := by
  intro x hx
  unfold nodeLabel at hx
  split at hx
  · cases hx
  · cases hx; split
    · exact StrSafe.decimal _
    · exact StrSafe.escaped _ _

theorem edgeLabel_safe (c : Configs) (f : Fmt) (i : Nat) (e : EdgeRef) :
    ∀ x, edgeLabel c f i e = some x → StrSafe x := by
  intro x hx
  unfold edgeLabel at hx
  split at hx
  · cases hx
  · cases hx; split
    · exact StrSafe.decimal _
    · exact StrSafe.escaped _ _

/-- the text of one node line, in the shape the line grammar describes -/
theorem nodeStmt_eq (c : Configs) (f : Fmt) (n : NodeRef) :
    nodeStmt c f n =
      INDENT ++ (decimal n.index ++ [' ']) ++ ['[', ' '] ++ labelText (nodeLabel c f n) ++ n.attr ++ [']', '\n'] := by
  unfold nodeStmt nodeLabel labelText
  cases h1 : c.NodeNoLabel <;> cases h2 : c.NodeIndexLabel <;> simp

theorem edgeStmt_eq (c : Configs) (f : Fmt) (d : Bool) (i : Nat) (e : EdgeRef) :
    edgeStmt c f d i e =
      INDENT ++ (decimal e.source ++ [' ']) ++ (EDGE d ++ [' ']) ++ (decimal e.target ++ [' ']) ++ ['[', ' '] ++
        labelText (edgeLabel c f i e) ++ e.attr ++ [']', '\n'] := by
  unfold edgeStmt edgeLabel labelText
  cases h1 : c.EdgeNoLabel <;> cases h2 : c.EdgeIndexLabel <;> simp

def nodeToks (c : Configs) (f : Fmt) (n : NodeRef) : List Tok :=
  [.id (decimal n.index), .lbrack] ++ labelToks (nodeLabel c f n) ++ [.rbrack]

def edgeToks (c : Configs) (f : Fmt) (d : Bool) (i : Nat) (e : EdgeRef) : List Tok :=
  [.id (decimal e.source), .edgeop d, .id (decimal e.target), .lbrack] ++ labelToks (edgeLabel c f i e) ++ [.rbrack]

theorem lexOK_nodeStmt (c : Configs) (f : Fmt) (n : NodeRef) (ha : n.attr = []) :
    LexOK (nodeStmt c f n) (nodeToks c f n) := by
  rw [nodeStmt_eq, ha]
  have := ((((lexOK_indent.append (lexOK_decimal n.index)).append lexOK_open).append
    (lexOK_labelText _ (nodeLabel_safe c f n))).append LexOK.nil).append lexOK_close
  simpa [nodeToks] using this

theorem lexOK_edgeStmt (c : Configs) (f : Fmt) (d : Bool) (i : Nat) (e : EdgeRef) (ha : e.attr = []) :
    LexOK (edgeStmt c f d i e) (edgeToks c f d i e) := by
  rw [edgeStmt_eq, ha]
  have := ((((((lexOK_indent.append (lexOK_decimal e.source)).append (lexOK_edge d)).append
    (lexOK_decimal e.target)).append lexOK_open).append
    (lexOK_labelText _ (edgeLabel_safe c f i e))).append LexOK.nil).append lexOK_close
  simpa [edgeToks] using this

/-! ### line structure of `graph_fmt` -/

def headerText (c : Configs) (directed : Bool) : List Char :=
  if c.GraphContentOnly then [] else TYPE directed ++ [' ', '{', '\n']

def rankText (c : Configs) : List Char :=
  match c.RankDir with
  | some d => INDENT ++ ['r', 'a', 'n', 'k', 'd', 'i', 'r', '=', '"'] ++ d.value ++ ['"', '\n']
  | none => []

def footerText (c : Configs) : List Char :=
  if c.GraphContentOnly then [] else ['}', '\n']

/-- the edge references with their `enumerate()` counter -/
def enumFrom {α : Type} : Nat → List α → List (Nat × α)
  | _, [] => []
  | i, a :: l => (i, a) :: enumFrom (i + 1) l

theorem foldl_append_eq {α : Type} (l : List α) (f : α → List Char) (o : List Char) :
    l.foldl (fun o a => o ++ f a) o = o ++ l.flatMap f := by
  induction l generalizing o with
  | nil => simp
  | cons a l ih => simp [ih, List.append_assoc]

theorem edgeLoop_eq (c : Configs) (f : Fmt) (d : Bool) (i : Nat) (es : List EdgeRef) (o : List Char) :
    edgeLoop c f d i es o = o ++ (enumFrom i es).flatMap fun p => edgeStmt c f d p.1 p.2 := by
  induction es generalizing i o with
  | nil => simp [edgeLoop, enumFrom]
  | cons e es ih => simp [edgeLoop, enumFrom, ih, List.append_assoc]

/-- `graph_fmt` writes: header? · rankdir? · one line per node reference · one line per edge reference · footer? -/
theorem graphFmt_lines (c : Configs) (f : Fmt) (g : GraphView) :
    graphFmt c f g =
      headerText c g.directed ++ rankText c ++ g.nodes.flatMap (nodeStmt c f) ++
        (enumFrom 0 g.edges).flatMap (fun p => edgeStmt c f g.directed p.1 p.2) ++ footerText c := by
  unfold graphFmt headerText rankText footerText
  simp only [foldl_append_eq, edgeLoop_eq]
  cases c.GraphContentOnly <;> cases c.RankDir <;> simp

/-! ### the parser as a state machine -/

theorem pRun_append (s : PSt) (a b : List Tok) : pRun s (a ++ b) = pRun (pRun s a) b := by
  simp [pRun, List.foldl_append]

/-- tokens that form complete statements -/
def ParseOK (toks : List Tok) (stmts : List Stmt) : Prop :=
  ∀ kind pre, pRun ⟨kind, false, pre, .start⟩ toks = ⟨kind, false, pre ++ stmts, .start⟩

theorem ParseOK.nil : ParseOK [] [] := by intro k p; simp [pRun]

theorem ParseOK.append {a b : List Tok} {sa sb : List Stmt} (ha : ParseOK a sa) (hb : ParseOK b sb) :
    ParseOK (a ++ b) (sa ++ sb) := by
  intro k p
  rw [pRun_append, ha, hb, List.append_assoc]

theorem ParseOK.flatMap {α : Type} (l : List α) (f : α → List Tok) (g : α → Stmt)
    (h : ∀ a ∈ l, ParseOK (f a) [g a]) : ParseOK (l.flatMap f) (l.map g) := by
  induction l with
  | nil => exact ParseOK.nil
  | cons a l ih =>
    simp only [List.flatMap_cons, List.map_cons]
    have := (h a (by simp)).append (ih fun b hb => h b (by simp [hb]))
    simpa using this

def nodeStmtOf (c : Configs) (f : Fmt) (n : NodeRef) : Stmt :=
  .node (decimal n.index) (labelAttrs (nodeLabel c f n))

def edgeStmtOf (c : Configs) (f : Fmt) (d : Bool) (p : Nat × EdgeRef) : Stmt :=
  .edge (decimal p.2.source) d (decimal p.2.target) (labelAttrs (edgeLabel c f p.1 p.2))

theorem parseOK_node (c : Configs) (f : Fmt) (n : NodeRef) : ParseOK (nodeToks c f n) [nodeStmtOf c f n] := by
  intro k p
  unfold nodeToks nodeStmtOf
  cases nodeLabel c f n <;>
  simp [labelToks, labelAttrs, pRun, pStep, pStart, PSt.emit, Subj.close]

theorem parseOK_edge (c : Configs) (f : Fmt) (d : Bool) (i : Nat) (e : EdgeRef) :
    ParseOK (edgeToks c f d i e) [edgeStmtOf c f d (i, e)] := by
  intro k p
  unfold edgeToks edgeStmtOf
  cases edgeLabel c f i e <;>
  simp [labelToks, labelAttrs, pRun, pStep, pStart, PSt.emit, Subj.close]

def rankToks (c : Configs) : List Tok :=
  match c.RankDir with
  | some d => [.id kwRankdir, .eq, .str d.value]
  | none => []

def rankStmts (c : Configs) : List Stmt :=
  match c.RankDir with
  | some d => [.attr kwRankdir (.str d.value)]
  | none => []

theorem parseOK_rank (c : Configs) : ParseOK (rankToks c) (rankStmts c) := by
  intro k p
  unfold rankToks rankStmts
  cases c.RankDir <;> simp [pRun, pStep, pStart, PSt.emit]

theorem lexOK_rank (c : Configs) : LexOK (rankText c) (rankToks c) := by
  unfold rankText rankToks
  cases c.RankDir with
  | none => exact LexOK.nil
  | some d => exact lexOK_rankdir d

theorem mem_enumFrom {α : Type} (i : Nat) (l : List α) (p : Nat × α) (h : p ∈ enumFrom i l) : p.2 ∈ l := by
  induction l generalizing i with
  | nil => simp [enumFrom] at h
  | cons a l ih =>
    simp only [enumFrom, List.mem_cons] at h
    rcases h with rfl | h
    · simp
    · exact List.mem_cons_of_mem _ (ih _ h)

theorem enumFrom_map_snd {α : Type} (i : Nat) (l : List α) : (enumFrom i l).map (·.2) = l := by
  induction l generalizing i with
  | nil => rfl
  | cons a l ih => simp [enumFrom, ih]

def bodyToks (c : Configs) (f : Fmt) (g : GraphView) : List Tok :=
  rankToks c ++ g.nodes.flatMap (nodeToks c f) ++
    (enumFrom 0 g.edges).flatMap fun p => edgeToks c f g.directed p.1 p.2

/-- the statements the printed text must consist of -/
def bodyStmts (c : Configs) (f : Fmt) (g : GraphView) : List Stmt :=
  rankStmts c ++ g.nodes.map (nodeStmtOf c f) ++ (enumFrom 0 g.edges).map (edgeStmtOf c f g.directed)

def NoAttrs (g : GraphView) : Prop := (∀ n ∈ g.nodes, n.attr = []) ∧ (∀ e ∈ g.edges, e.attr = [])

theorem lexOK_body (c : Configs) (f : Fmt) (g : GraphView) (h : NoAttrs g) :
    LexOK (rankText c ++ g.nodes.flatMap (nodeStmt c f) ++
        (enumFrom 0 g.edges).flatMap (fun p => edgeStmt c f g.directed p.1 p.2)) (bodyToks c f g) := by
  unfold bodyToks
  refine ((lexOK_rank c).append ?_).append ?_
  · exact LexOK.flatMap _ _ _ fun n hn => lexOK_nodeStmt c f n (h.1 n hn)
  · exact LexOK.flatMap _ _ _ fun p hp => lexOK_edgeStmt c f g.directed p.1 p.2 (h.2 _ (mem_enumFrom _ _ _ hp))

theorem parseOK_body (c : Configs) (f : Fmt) (g : GraphView) : ParseOK (bodyToks c f g) (bodyStmts c f g) := by
  unfold bodyToks bodyStmts
  refine ((parseOK_rank c).append ?_).append ?_
  · exact ParseOK.flatMap _ _ _ fun n _ => parseOK_node c f n
  · exact ParseOK.flatMap _ _ _ fun p _ => parseOK_edge c f g.directed p.1 p.2

/-- the printed text is a well-formed DOT graph (or body) and consists of exactly the expected statements:
the optional `rankdir`, one node statement per node reference, one edge statement per edge reference —
whatever the weights print -/
theorem dot_parse (c : Configs) (f : Fmt) (g : GraphView) (h : NoAttrs g) :
    parse (graphFmt c f g) =
      some ⟨if c.GraphContentOnly then none else some g.directed, bodyStmts c f g⟩ := by
  rw [graphFmt_lines]
  have hb := lexOK_body c f g h
  have hp := parseOK_body c f g
  unfold headerText footerText
  cases hc : c.GraphContentOnly
  · -- header and footer present
    simp only [Bool.false_eq_true, if_false]
    have hl := ((lexOK_header g.directed).append hb).append lexOK_footer
    simp only [List.append_assoc] at hl ⊢
    rw [parse, hl.lex]
    simp only [Option.bind_some, parseToks, List.cons_append, List.nil_append]
    have h1 : pRun {} (Tok.id (TYPE g.directed) :: Tok.lbrace :: (bodyToks c f g ++ [Tok.rbrace])) =
        pRun ⟨some g.directed, false, [], .start⟩ (bodyToks c f g ++ [Tok.rbrace]) := by
      cases g.directed <;> simp [pRun, pStep, pStart, TYPE, kwDigraph, kwGraph]
    rw [h1, pRun_append, hp]
    simp [pRun, pStep, pStart, pEnd]
  · simp only [if_true, List.nil_append, List.append_nil]
    rw [parse, hb.lex]
    simp only [Option.bind_some, parseToks]
    have := hp none []
    rw [show ({} : PSt) = ⟨none, false, [], .start⟩ from rfl, this]
    simp [pEnd]

/-- a node or edge ID is read back as the index it was printed from -/
theorem numeral_decimal (n : Nat) : numeral (decimal n) = some n := by
  unfold numeral
  have h1 : (decimal n).isEmpty = false := by
    cases h : decimal n with
    | nil => exact absurd h (decimal_ne_nil n)
    | cons _ _ => rfl
  have h2 : (decimal n).all Char.isDigit = true := List.all_eq_true.2 (decimal_digits n)
  simp only [h1, h2, Bool.not_true, Bool.or_self, Bool.false_eq_true, if_false]
  congr 1
  exact Nat.ofDigitChars_ten_toDigits

/-- what a label shows is what the weight printed (followed by a line break under `#`) -/
theorem unescape_escaped (f : Fmt) (w : Weight) :
    unescape (escaped f w) =
      if f.alternate then w.render f.kind true ++ ['\n'] else w.render f.kind false := by
  unfold Dot.escaped; split <;> exact unescape_escape _

def rankOf : Config → Option RankDir
  | .RankDir d => some d
  | _ => none

theorem extract_snoc (cs : List Config) (c : Config) :
    Configs.extract (cs ++ [c]) = (Configs.extract cs).set c := by
  simp [Configs.extract, List.foldl_append]

/-- `Configs::extract`: a flag is set iff it is listed; the last listed `RankDir` wins -/
theorem extract_spec (cs : List Config) :
    (Configs.extract cs).NodeIndexLabel = cs.contains .NodeIndexLabel ∧
    (Configs.extract cs).EdgeIndexLabel = cs.contains .EdgeIndexLabel ∧
    (Configs.extract cs).EdgeNoLabel = cs.contains .EdgeNoLabel ∧
    (Configs.extract cs).NodeNoLabel = cs.contains .NodeNoLabel ∧
    (Configs.extract cs).GraphContentOnly = cs.contains .GraphContentOnly ∧
    (Configs.extract cs).RankDir = (cs.filterMap rankOf).getLast? := by
  induction cs using List.reverseRecOn with
  | nil => simp [Configs.extract]
  | append_singleton cs c ih =>
    obtain ⟨h1, h2, h3, h4, h5, h6⟩ := ih
    rw [extract_snoc]
    cases c <;> simp [Configs.set, h1, h2, h3, h4, h5, h6, rankOf, List.filterMap_append]

theorem lexQuoted_bs (d : Char) (r2 : List Char) (hd1 : d ≠ '"') (hd2 : d ≠ '\\') (hd3 : d ≠ '\n') :
    lexQuoted ('\\' :: d :: r2) = (lexQuoted (d :: r2)).map fun (a, b) => ('\\' :: a, b) := by
  rw [lexQuoted.eq_def]
  split
  · simp_all
  · simp_all
  · simp_all
  · simp_all
  · simp_all
  · rename_i c r _ _ _ _ heq
    simp only [List.cons.injEq] at heq
    obtain ⟨rfl, rfl⟩ := heq
    rfl

/-- the tokenizer's string mode is the quoted-string rule `lexQuoted` -/
theorem lexRun_str (cs : List Char) (toks : List Tok) (acc : List Char) :
    ∀ content rest, lexQuoted cs = some (content, rest) →
      lexRun ⟨toks, .str acc⟩ cs = lexRun ⟨toks ++ [.str (acc ++ content)], .top⟩ rest := by
  induction cs using lexQuoted.induct generalizing acc with
  | case1 => intro c r h; simp [lexQuoted] at h
  | case2 r =>
    intro c r' h
    simp only [lexQuoted, Option.some.injEq, Prod.mk.injEq] at h
    obtain ⟨rfl, rfl⟩ := h
    simp [lexRun, lexStep]
  | case3 r ih =>
    intro c r' h
    simp only [lexQuoted, Option.map_eq_some_iff] at h
    obtain ⟨⟨a, b⟩, hab, heq⟩ := h
    simp only [Prod.mk.injEq] at heq
    obtain ⟨rfl, rfl⟩ := heq
    have := ih (acc ++ ['\\', '"']) a b hab
    simp only [lexRun, List.foldl_cons] at this ⊢
    simp only [lexStep, Char.reduceEq, if_false, if_true]
    simpa using this
  | case4 r ih =>
    intro c r' h
    simp only [lexQuoted, Option.map_eq_some_iff] at h
    obtain ⟨⟨a, b⟩, hab, heq⟩ := h
    simp only [Prod.mk.injEq] at heq
    obtain ⟨rfl, rfl⟩ := heq
    have := ih (acc ++ ['\\', '\\']) a b hab
    simp only [lexRun, List.foldl_cons] at this ⊢
    simp only [lexStep, Char.reduceEq, if_false, if_true]
    simpa using this
  | case5 r ih =>
    intro c r' h
    simp only [lexQuoted, Option.map_eq_some_iff] at h
    obtain ⟨⟨a, b⟩, hab, heq⟩ := h
    simp only [Prod.mk.injEq] at heq
    obtain ⟨rfl, rfl⟩ := heq
    have := ih (acc ++ ['\\', '\n']) a b hab
    simp only [lexRun, List.foldl_cons] at this ⊢
    simp only [lexStep, Char.reduceEq, if_false, if_true]
    simpa using this
  | case6 c r h1 h2 h3 h4 ih =>
    intro cont r' h
    have hc1 : c ≠ '"' := fun e => h1 e
    by_cases hc2 : c = '\\'
    · subst hc2
      match r, h2, h3, h4, ih with
      | [], _, _, _, _ => simp [lexQuoted] at h
      | d :: r2, h2, h3, h4, ih =>
        have hd1 : d ≠ '"' := fun e => h2 r2 rfl (by rw [e])
        have hd2 : d ≠ '\\' := fun e => h3 r2 rfl (by rw [e])
        have hd3 : d ≠ '\n' := fun e => h4 r2 rfl (by rw [e])
        have hq := lexQuoted_bs d r2 hd1 hd2 hd3
        rw [hq, Option.map_eq_some_iff] at h
        obtain ⟨⟨a, b⟩, hab, heq⟩ := h
        simp only [Prod.mk.injEq] at heq
        obtain ⟨rfl, rfl⟩ := heq
        have := ih (acc ++ ['\\']) a b hab
        simp only [lexRun, List.foldl_cons] at this ⊢
        simp only [lexStep, Char.reduceEq, if_false, if_true, hd1, hd2] at this ⊢
        simpa using this
    · rw [lexQuoted_plain c r hc1 hc2, Option.map_eq_some_iff] at h
      obtain ⟨⟨a, b⟩, hab, heq⟩ := h
      simp only [Prod.mk.injEq] at heq
      obtain ⟨rfl, rfl⟩ := heq
      have := ih (acc ++ [c]) a b hab
      simp only [lexRun, List.foldl_cons] at this ⊢
      simp only [lexStep, hc1, hc2, if_false]
      simpa using this

end PetgraphModel.DotP
