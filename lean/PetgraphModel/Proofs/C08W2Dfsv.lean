import PetgraphModel.Proofs.C08W2Events
/-
C08 (wave 2): the clause theorems about `depth_first_search`, derived from the simulation
`dfsSearch_post` (every run is accepted by the reference machine) and the invariants `Inv` of
accepted histories.  `L` is always the forward event list `s'.evs.reverse`.
-/
namespace PetgraphModel.TravProofs
open PetgraphModel PetgraphModel.Trav

/-- how the returned `Res` constrains the final machine state -/
def ResMode (r : Res) (m : MS) : Prop :=
  match r with
  | .cont => m.mode = .run ∧ m.stack = []
  | .brk => m.mode = .dead
  | .panicPruneFinish => m.mode = .panic
  | .fuel => m.mode = .run ∨ ∃ w, m.mode = .expectDisc w

theorem dfsv_final {v : View} {script : List Ctl} {fuel : Nat} {starts : List Nat} {s' : VS} {r : Res}
    (h : dfsSearch v script fuel starts {} = (s', r)) :
    ∃ m, run v starts script MS.init 0 s'.evs.reverse = some m ∧
      m.disc = s'.disc ∧ m.fin = s'.fin ∧ m.time = s'.time ∧ ResMode r m := by
  have hp := dfsSearch_post v script fuel starts
  rw [h] at hp
  cases r with
  | cont =>
    exact ⟨⟨[], s'.disc, s'.fin, s'.time, .run⟩, by rw [← replay_eq_run]; exact hp, rfl, rfl, rfl, rfl, rfl⟩
  | brk =>
    obtain ⟨stk, hp⟩ := hp
    exact ⟨⟨stk, s'.disc, s'.fin, s'.time, .dead⟩, by rw [← replay_eq_run]; exact hp, rfl, rfl, rfl, rfl⟩
  | panicPruneFinish =>
    obtain ⟨stk, hp⟩ := hp
    exact ⟨⟨stk, s'.disc, s'.fin, s'.time, .panic⟩, by rw [← replay_eq_run]; exact hp, rfl, rfl, rfl, rfl⟩
  | fuel =>
    obtain ⟨stk, md, hp, hmd⟩ := hp
    exact ⟨⟨stk, s'.disc, s'.fin, s'.time, md⟩, by rw [← replay_eq_run]; exact hp, rfl, rfl, rfl, hmd⟩

/-- everything known at an event of the history: the state before, the step, the run after -/
theorem dfsv_at {v : View} {script : List Ctl} {fuel : Nat} {starts : List Nat} {s' : VS} {r : Res}
    (h : dfsSearch v script fuel starts {} = (s', r)) {pre post : List Ev} {e : Ev}
    (hL : s'.evs.reverse = pre ++ e :: post) :
    ∃ m1 m2 m, run v starts script MS.init 0 pre = some m1 ∧ Inv v m1 pre ∧
      step v starts (ctlAt script pre.length) m1 e = some m2 ∧
      run v starts script m2 (pre.length + 1) post = some m ∧ ResMode r m := by
  obtain ⟨m, hrun, _, _, _, hres⟩ := dfsv_final h
  rw [hL] at hrun
  obtain ⟨m1, m2, h1, h2, h3⟩ := run_split hrun
  exact ⟨m1, m2, m, h1, inv_of_run h1, h2, h3, hres⟩

/-! ### what may follow a given mode -/

theorem run_nil_eq {v : View} {starts : List Nat} {script : List Ctl} {m m' : MS} {k : Nat}
    (h : run v starts script m k [] = some m') : m' = m := by
  simp only [run, Option.some.injEq] at h; exact h.symm

theorem run_cons {v : View} {starts : List Nat} {script : List Ctl} {m m' : MS} {k : Nat} {e : Ev}
    {post : List Ev} (h : run v starts script m k (e :: post) = some m') :
    ∃ m2, step v starts (ctlAt script k) m e = some m2 ∧ run v starts script m2 (k + 1) post = some m' := by
  rw [run] at h
  cases h2 : step v starts (ctlAt script k) m e with
  | none => rw [h2] at h; cases h
  | some m2 => rw [h2] at h; exact ⟨m2, rfl, h⟩

theorem run_dead {v : View} {starts : List Nat} {script : List Ctl} {m m' : MS} {k : Nat}
    {post : List Ev} (hm : m.mode = .dead ∨ m.mode = .panic)
    (h : run v starts script m k post = some m') : post = [] := by
  cases post with
  | nil => rfl
  | cons e post =>
    obtain ⟨m2, h2, _⟩ := run_cons h
    have := step_alive h2
    rcases hm with hm | hm
    · exact absurd hm this.1
    · exact absurd hm this.2

theorem run_expectDisc {v : View} {starts : List Nat} {script : List Ctl} {m m' : MS} {k w : Nat}
    {post : List Ev} (hm : m.mode = .expectDisc w)
    (h : run v starts script m k post = some m') :
    post = [] ∨ ∃ post', post = .discover w m.time :: post' := by
  cases post with
  | nil => exact Or.inl rfl
  | cons e post =>
    refine Or.inr ?_
    obtain ⟨m2, h2, _⟩ := run_cons h
    cases e with
    | discover n t =>
      obtain ⟨ht, _, h3, _⟩ := step_discover h2
      rw [hm] at h3
      rcases h3 with h3 | ⟨h3, _⟩
      · simp only [Mode.expectDisc.injEq] at h3
        exact ⟨post, by rw [h3, ht]⟩
      · cases h3
    | finish n t =>
      obtain ⟨_, _, _, _, h3, _⟩ := step_finish h2
      rw [hm] at h3
      rcases h3 with ⟨h3, _⟩ | h3 <;> cases h3
    | tree a x => obtain ⟨_, _, _, h3, _⟩ := step_tree h2; rw [hm] at h3; cases h3
    | back a x => obtain ⟨_, _, _, h3, _⟩ := step_back h2; rw [hm] at h3; cases h3
    | cross a x => obtain ⟨_, _, _, h3, _⟩ := step_cross h2; rw [hm] at h3; cases h3

theorem run_expectFin {v : View} {starts : List Nat} {script : List Ctl} {m m' : MS} {k u : Nat}
    {ws : List Nat} {rest : List (Nat × List Nat)} {post : List Ev}
    (hm : m.mode = .expectFin) (hst : m.stack = (u, ws) :: rest)
    (h : run v starts script m k post = some m') :
    post = [] ∨ ∃ post', post = .finish u m.time :: post' := by
  cases post with
  | nil => exact Or.inl rfl
  | cons e post =>
    refine Or.inr ?_
    obtain ⟨m2, h2, _⟩ := run_cons h
    cases e with
    | discover n t =>
      obtain ⟨_, _, h3, _⟩ := step_discover h2
      rw [hm] at h3
      rcases h3 with h3 | ⟨h3, _⟩ <;> cases h3
    | finish n t =>
      obtain ⟨ws', rest', hst', ht, _, _⟩ := step_finish h2
      rw [hst] at hst'
      simp only [List.cons.injEq, Prod.mk.injEq] at hst'
      exact ⟨post, by rw [hst'.1.1, ht]⟩
    | tree a x => obtain ⟨_, _, _, h3, _⟩ := step_tree h2; rw [hm] at h3; cases h3
    | back a x => obtain ⟨_, _, _, h3, _⟩ := step_back h2; rw [hm] at h3; cases h3
    | cross a x => obtain ⟨_, _, _, h3, _⟩ := step_cross h2; rw [hm] at h3; cases h3

/-- `e` is an event of the call for `u` itself: an edge out of `u` or `Finish(u)` -/
def fromNode (u : Nat) : Ev → Prop
  | .tree a _ => a = u
  | .back a _ => a = u
  | .cross a _ => a = u
  | .finish n _ => n = u
  | .discover _ _ => False

theorem run_run {v : View} {starts : List Nat} {script : List Ctl} {m m' : MS} {k u : Nat}
    {ws : List Nat} {rest : List (Nat × List Nat)} {post : List Ev}
    (hm : m.mode = .run) (hst : m.stack = (u, ws) :: rest)
    (h : run v starts script m k post = some m') :
    post = [] ∨ ∃ e post', post = e :: post' ∧ fromNode u e := by
  cases post with
  | nil => exact Or.inl rfl
  | cons e post =>
    refine Or.inr ⟨e, post, rfl, ?_⟩
    obtain ⟨m2, h2, _⟩ := run_cons h
    cases e with
    | discover n t =>
      obtain ⟨_, _, h3, _⟩ := step_discover h2
      rw [hm, hst] at h3
      rcases h3 with h3 | ⟨_, h3, _⟩ <;> cases h3
    | finish n t =>
      obtain ⟨ws', rest', hst', _⟩ := step_finish h2
      rw [hst] at hst'
      simp only [List.cons.injEq, Prod.mk.injEq] at hst'
      exact hst'.1.1.symm
    | tree a x =>
      obtain ⟨_, _, hst', _⟩ := step_tree h2
      rw [hst] at hst'
      simp only [List.cons.injEq, Prod.mk.injEq] at hst'
      exact hst'.1.1.symm
    | back a x =>
      obtain ⟨_, _, hst', _⟩ := step_back h2
      rw [hst] at hst'
      simp only [List.cons.injEq, Prod.mk.injEq] at hst'
      exact hst'.1.1.symm
    | cross a x =>
      obtain ⟨_, _, hst', _⟩ := step_cross h2
      rw [hst] at hst'
      simp only [List.cons.injEq, Prod.mk.injEq] at hst'
      exact hst'.1.1.symm

theorem modeAfter_dead {c : Ctl} {e : Ev} : modeAfter c e = .dead ↔ c = .brk := by
  cases e <;> cases c <;> simp [modeAfter, afterDiscover, afterFinish, afterTree, afterEdge]

theorem modeAfter_panic {c : Ctl} {e : Ev} :
    modeAfter c e = .panic ↔ c = .prune ∧ ∃ n t, e = .finish n t := by
  cases e <;> cases c <;> simp [modeAfter, afterDiscover, afterFinish, afterTree, afterEdge]

theorem modeAfter_expectDisc {c : Ctl} {e : Ev} {n : Nat} :
    modeAfter c e = .expectDisc n ↔ c = .cont ∧ ∃ u, e = .tree u n := by
  cases e <;> cases c <;> simp [modeAfter, afterDiscover, afterFinish, afterTree, afterEdge]

theorem mem_rev_iff {l : List Nat} {x : Nat} {m : List Nat} (h : m = l.reverse) : x ∈ m ↔ x ∈ l := by
  rw [h, List.mem_reverse]

theorem nodup_of_reverse {l : List Nat} (h : l.reverse.Nodup) : l.Nodup := by
  rw [List.Nodup, List.pairwise_reverse] at h
  exact h.imp (fun hab => fun e => hab e.symm)

/-! ### the clause theorems -/

section
variable {v : View} {script : List Ctl} {fuel : Nat} {starts : List Nat} {s' : VS} {r : Res}

/-- no node is discovered twice or finished twice; only discovered nodes are finished; the final
visit maps are exactly the discovered / finished nodes -/
theorem dfsv_once (h : dfsSearch v script fuel starts {} = (s', r)) :
    (discOf s'.evs.reverse).Nodup ∧ (finOf s'.evs.reverse).Nodup ∧
    (∀ n, n ∈ finOf s'.evs.reverse → n ∈ discOf s'.evs.reverse) ∧
    s'.disc = (discOf s'.evs.reverse).reverse ∧ s'.fin = (finOf s'.evs.reverse).reverse := by
  obtain ⟨m, hrun, hd, hf, _, _⟩ := dfsv_final h
  have inv := inv_of_run hrun
  refine ⟨?_, ?_, ?_, ?_, ?_⟩
  · have := inv.discNodup; rw [inv.discEq] at this; exact nodup_of_reverse this
  · have := inv.finNodup; rw [inv.finEq] at this; exact nodup_of_reverse this
  · intro n hn
    exact (mem_rev_iff inv.discEq).mp (inv.finDisc n ((mem_rev_iff inv.finEq).mpr hn))
  · rw [← hd]; exact inv.discEq
  · rw [← hf]; exact inv.finEq

/-- well-nestedness: the Discover/Finish events match like brackets (every `Finish n` closes the
innermost open `Discover n`); on `Continue` nothing stays open, so every discovered node is finished -/
theorem dfsv_nested (h : dfsSearch v script fuel starts {} = (s', r)) :
    nestRun [] s'.evs.reverse = some (openOf s'.evs.reverse) ∧
    (r = .cont → openOf s'.evs.reverse = []) ∧
    (r = .cont → ∀ n, n ∈ discOf s'.evs.reverse → n ∈ finOf s'.evs.reverse) := by
  obtain ⟨m, hrun, _, _, _, hres⟩ := dfsv_final h
  have inv := inv_of_run hrun
  refine ⟨inv.nest, ?_, ?_⟩
  · intro hr; subst hr
    rw [← inv.openEq, hres.2]; rfl
  · intro hr n hn
    subst hr
    apply Classical.byContradiction
    intro hnf
    have : n ∈ m.stack.map Prod.fst :=
      (inv.stackOpen n).mpr ⟨(mem_rev_iff inv.discEq).mpr hn, fun hf => hnf ((mem_rev_iff inv.finEq).mp hf)⟩
    rw [hres.2] at this
    cases this

/-- `Discover(n)`: `n` was undiscovered; it is either a root (no call open, `n` a start node) or
immediately preceded by `TreeEdge(u, n)` answered `Continue`, `u` being the innermost open call -/
theorem dfsv_discover (h : dfsSearch v script fuel starts {} = (s', r)) {pre post : List Ev} {n t : Nat}
    (hL : s'.evs.reverse = pre ++ .discover n t :: post) :
    n ∉ discOf pre ∧
    ((openOf pre = [] ∧ n ∈ starts) ∨
     (∃ u pre', pre = pre' ++ [.tree u n] ∧ ctlAt script pre'.length = .cont)) := by
  obtain ⟨m1, m2, m, h1, inv, h2, _, _⟩ := dfsv_at h hL
  obtain ⟨_, hn, hmd, _⟩ := step_discover h2
  refine ⟨fun hd => hn ((mem_rev_iff inv.discEq).mpr hd), ?_⟩
  rcases hmd with hmd | ⟨_, hst, hs⟩
  · refine Or.inr ?_
    rcases List.eq_nil_or_concat pre with hp | ⟨pre', e', hp⟩
    · subst hp
      have := run_nil_eq h1
      subst this
      cases hmd
    · rw [List.concat_eq_append] at hp
      subst hp
      obtain ⟨m0, m1', h3, h4, h5⟩ := run_split h1
      have := run_nil_eq h5
      subst this
      have hm := step_mode h4
      rw [hmd] at hm
      obtain ⟨hc, u, he⟩ := modeAfter_expectDisc.mp hm.symm
      exact ⟨u, pre', by rw [he], hc⟩
  · refine Or.inl ⟨?_, hs⟩
    rw [← inv.openEq, hst]; rfl

/-- `Finish(n)` closes the innermost open call, which is `n` -/
theorem dfsv_finish (h : dfsSearch v script fuel starts {} = (s', r)) {pre post : List Ev} {n t : Nat}
    (hL : s'.evs.reverse = pre ++ .finish n t :: post) :
    (∃ rest, openOf pre = n :: rest) ∧ n ∈ discOf pre ∧ n ∉ finOf pre := by
  obtain ⟨m1, m2, m, _, inv, h2, _, _⟩ := dfsv_at h hL
  obtain ⟨ws, rest, hst, _⟩ := step_finish h2
  have hmap : m1.stack.map Prod.fst = n :: rest.map Prod.fst := by rw [hst]; rfl
  have hn := (inv.stackOpen n).mp (by rw [hmap]; exact List.mem_cons_self ..)
  exact ⟨⟨_, by rw [← inv.openEq, hmap]⟩, (mem_rev_iff inv.discEq).mp hn.1,
    fun hf => hn.2 ((mem_rev_iff inv.finEq).mpr hf)⟩

/-- `TreeEdge(u, w)`: `u` is the innermost open call, `w` a successor of `u` that is undiscovered at
that moment; if the visitor answers `Continue`, `Discover(w)` follows immediately (the stream can
only end there when the model ran out of fuel) -/
theorem dfsv_tree (h : dfsSearch v script fuel starts {} = (s', r)) {pre post : List Ev} {u w : Nat}
    (hL : s'.evs.reverse = pre ++ .tree u w :: post) :
    w ∉ discOf pre ∧ (∃ rest, openOf pre = u :: rest) ∧ w ∈ v.succ u ∧
    (ctlAt script pre.length = .cont →
      (∃ t post', post = .discover w t :: post') ∨ (post = [] ∧ r = .fuel)) := by
  obtain ⟨m1, m2, m, _, inv, h2, h3, hres⟩ := dfsv_at h hL
  obtain ⟨ws, rest, hst, _, hw, hm2⟩ := step_tree h2
  have hmap : m1.stack.map Prod.fst = u :: rest.map Prod.fst := by rw [hst]; rfl
  refine ⟨fun hd => hw ((mem_rev_iff inv.discEq).mpr hd), ⟨_, by rw [← inv.openEq, hmap]⟩, ?_, ?_⟩
  · obtain ⟨done, hdone⟩ := inv.succOk u (w :: ws) (by rw [hst]; exact List.mem_cons_self ..)
    rw [hdone]; simp
  · intro hc
    have hmode : m2.mode = .expectDisc w := by rw [hm2, hc]; rfl
    rcases run_expectDisc hmode h3 with hp | ⟨post', hp⟩
    · refine Or.inr ⟨hp, ?_⟩
      subst hp
      have := run_nil_eq h3
      subst this
      cases r with
      | fuel => rfl
      | cont => rw [ResMode, hmode] at hres; cases hres.1
      | brk => rw [ResMode, hmode] at hres; cases hres
      | panicPruneFinish => rw [ResMode, hmode] at hres; cases hres
    · exact Or.inl ⟨_, post', hp⟩

/-- `BackEdge(u, w)`: `w` is discovered and not finished — it is an open call at or around the
current one (`u` itself for a self-loop, else a proper ancestor on the recursion stack) -/
theorem dfsv_back (h : dfsSearch v script fuel starts {} = (s', r)) {pre post : List Ev} {u w : Nat}
    (hL : s'.evs.reverse = pre ++ .back u w :: post) :
    w ∈ discOf pre ∧ w ∉ finOf pre ∧ (∃ rest, openOf pre = u :: rest ∧ w ∈ u :: rest) ∧
    w ∈ v.succ u := by
  obtain ⟨m1, m2, m, _, inv, h2, _, _⟩ := dfsv_at h hL
  obtain ⟨ws, rest, hst, _, hwd, hwf, _⟩ := step_back h2
  have hmap : m1.stack.map Prod.fst = u :: rest.map Prod.fst := by rw [hst]; rfl
  refine ⟨(mem_rev_iff inv.discEq).mp hwd, fun hf => hwf ((mem_rev_iff inv.finEq).mpr hf),
    ⟨_, by rw [← inv.openEq, hmap], ?_⟩, ?_⟩
  · rw [← hmap]; exact (inv.stackOpen w).mpr ⟨hwd, hwf⟩
  · obtain ⟨done, hdone⟩ := inv.succOk u (w :: ws) (by rw [hst]; exact List.mem_cons_self ..)
    rw [hdone]; simp

/-- `CrossForwardEdge(u, w)`: `w` is finished (hence not open) -/
theorem dfsv_cross (h : dfsSearch v script fuel starts {} = (s', r)) {pre post : List Ev} {u w : Nat}
    (hL : s'.evs.reverse = pre ++ .cross u w :: post) :
    w ∈ finOf pre ∧ (∃ rest, openOf pre = u :: rest ∧ w ∉ u :: rest) ∧ w ∈ v.succ u := by
  obtain ⟨m1, m2, m, _, inv, h2, _, _⟩ := dfsv_at h hL
  obtain ⟨ws, rest, hst, _, hwd, hwf, _⟩ := step_cross h2
  have hmap : m1.stack.map Prod.fst = u :: rest.map Prod.fst := by rw [hst]; rfl
  refine ⟨(mem_rev_iff inv.finEq).mp hwf, ⟨_, by rw [← inv.openEq, hmap], ?_⟩, ?_⟩
  · rw [← hmap]; exact fun hm => ((inv.stackOpen w).mp hm).2 hwf
  · obtain ⟨done, hdone⟩ := inv.succOk u (w :: ws) (by rw [hst]; exact List.mem_cons_self ..)
    rw [hdone]; simp

/-- the class of every edge event is determined by the state of its target at that moment:
tree iff undiscovered, back iff discovered and unfinished, cross/forward iff finished -/
theorem dfsv_classify (h : dfsSearch v script fuel starts {} = (s', r)) {pre post : List Ev} {e : Ev}
    {u w : Nat} (hL : s'.evs.reverse = pre ++ e :: post) (he : edgeOf e = some (u, w)) :
    e = if w ∉ discOf pre then .tree u w else if w ∉ finOf pre then .back u w else .cross u w := by
  have hfd : ∀ x, x ∈ finOf pre → x ∈ discOf pre := by
    intro x hx
    obtain ⟨m1, m2, m, _, inv, _, _, _⟩ := dfsv_at h hL
    exact (mem_rev_iff inv.discEq).mp (inv.finDisc x ((mem_rev_iff inv.finEq).mpr hx))
  cases e with
  | discover n t => cases he
  | finish n t => cases he
  | tree a x =>
    simp only [edgeOf, Option.some.injEq, Prod.mk.injEq] at he
    obtain ⟨rfl, rfl⟩ := he
    rw [if_pos (dfsv_tree h hL).1]
  | back a x =>
    simp only [edgeOf, Option.some.injEq, Prod.mk.injEq] at he
    obtain ⟨rfl, rfl⟩ := he
    have := dfsv_back h hL
    rw [if_neg (fun hn => hn this.1), if_pos this.2.1]
  | cross a x =>
    simp only [edgeOf, Option.some.injEq, Prod.mk.injEq] at he
    obtain ⟨rfl, rfl⟩ := he
    have := dfsv_cross h hL
    rw [if_neg (fun hn => hn (hfd _ this.1)), if_neg (fun hn => hn this.1)]

/-- `Break` stops immediately: the event answered `Break` is the last one and the result is `Break` -/
theorem dfsv_break (h : dfsSearch v script fuel starts {} = (s', r)) {pre post : List Ev} {e : Ev}
    (hL : s'.evs.reverse = pre ++ e :: post) (hc : ctlAt script pre.length = .brk) :
    post = [] ∧ r = .brk := by
  obtain ⟨m1, m2, m, _, _, h2, h3, hres⟩ := dfsv_at h hL
  have hmode : m2.mode = .dead := by rw [step_mode h2]; exact modeAfter_dead.mpr hc
  have hp := run_dead (Or.inl hmode) h3
  subst hp
  have := run_nil_eq h3
  subst this
  refine ⟨rfl, ?_⟩
  cases r with
  | brk => rfl
  | cont => rw [ResMode, hmode] at hres; cases hres.1
  | panicPruneFinish => rw [ResMode, hmode] at hres; cases hres
  | fuel =>
    rw [ResMode, hmode] at hres
    rcases hres with h1 | ⟨_, h1⟩ <;> cases h1

/-- `Prune` on a `Finish` event is the documented panic: nothing follows -/
theorem dfsv_prune_finish (h : dfsSearch v script fuel starts {} = (s', r)) {pre post : List Ev}
    {n t : Nat} (hL : s'.evs.reverse = pre ++ .finish n t :: post)
    (hc : ctlAt script pre.length = .prune) : post = [] ∧ r = .panicPruneFinish := by
  obtain ⟨m1, m2, m, _, _, h2, h3, hres⟩ := dfsv_at h hL
  have hmode : m2.mode = .panic := by
    rw [step_mode h2]; exact modeAfter_panic.mpr ⟨hc, n, t, rfl⟩
  have hp := run_dead (Or.inr hmode) h3
  subst hp
  have := run_nil_eq h3
  subst this
  refine ⟨rfl, ?_⟩
  cases r with
  | panicPruneFinish => rfl
  | cont => rw [ResMode, hmode] at hres; cases hres.1
  | brk => rw [ResMode, hmode] at hres; cases hres
  | fuel =>
    rw [ResMode, hmode] at hres
    rcases hres with h1 | ⟨_, h1⟩ <;> cases h1

theorem last_step {m : MS} {L : List Ev}
    (hrun : run v starts script MS.init 0 L = some m) (hm : m.mode ≠ .run) :
    ∃ pre e, L = pre ++ [e] ∧ m.mode = modeAfter (ctlAt script pre.length) e := by
  rcases List.eq_nil_or_concat L with hp | ⟨pre, e, hp⟩
  · subst hp
    have := run_nil_eq hrun
    subst this
    exact absurd rfl hm
  · rw [List.concat_eq_append] at hp
    subst hp
    obtain ⟨m0, m1', _, h4, h5⟩ := run_split hrun
    have := run_nil_eq h5
    subst this
    exact ⟨pre, e, rfl, step_mode h4⟩

/-- the result is `Break` exactly when the visitor answered `Break` to the last event -/
theorem dfsv_result_brk (h : dfsSearch v script fuel starts {} = (s', r)) :
    r = .brk ↔ ∃ pre e, s'.evs.reverse = pre ++ [e] ∧ ctlAt script pre.length = .brk := by
  constructor
  · intro hr
    subst hr
    obtain ⟨m, hrun, _, _, _, hres⟩ := dfsv_final h
    have hres : m.mode = .dead := hres
    obtain ⟨pre, e, hL, hm⟩ := last_step hrun (by rw [hres]; simp)
    rw [hres] at hm
    exact ⟨pre, e, hL, modeAfter_dead.mp hm.symm⟩
  · rintro ⟨pre, e, hL, hc⟩
    exact (dfsv_break h hL hc).2

/-- the result is the panic exactly when the visitor answered `Prune` to a final `Finish` -/
theorem dfsv_result_panic (h : dfsSearch v script fuel starts {} = (s', r)) :
    r = .panicPruneFinish ↔
      ∃ pre n t, s'.evs.reverse = pre ++ [.finish n t] ∧ ctlAt script pre.length = .prune := by
  constructor
  · intro hr
    subst hr
    obtain ⟨m, hrun, _, _, _, hres⟩ := dfsv_final h
    have hres : m.mode = .panic := hres
    obtain ⟨pre, e, hL, hm⟩ := last_step hrun (by rw [hres]; simp)
    rw [hres] at hm
    obtain ⟨hc, n, t, he⟩ := modeAfter_panic.mp hm.symm
    exact ⟨pre, n, t, by rw [hL, he], hc⟩
  · rintro ⟨pre, n, t, hL, hc⟩
    exact (dfsv_prune_finish h hL hc).2

/-- `Prune` on `Discover(u)` goes straight to `Finish(u)` -/
theorem dfsv_prune_discover (h : dfsSearch v script fuel starts {} = (s', r)) {pre post : List Ev}
    {u t : Nat} (hL : s'.evs.reverse = pre ++ .discover u t :: post)
    (hc : ctlAt script pre.length = .prune) : ∃ post', post = .finish u (t + 1) :: post' := by
  obtain ⟨m1, m2, m, _, _, h2, h3, hres⟩ := dfsv_at h hL
  obtain ⟨ht, _, _, hm2⟩ := step_discover h2
  have hmode : m2.mode = .expectFin := by rw [hm2, hc]; rfl
  have hst : m2.stack = (u, v.succ u) :: m1.stack := by rw [hm2]
  have htime : m2.time = t + 1 := by rw [hm2, ht]
  rcases run_expectFin hmode hst h3 with hp | ⟨post', hp⟩
  · exfalso
    subst hp
    have := run_nil_eq h3
    subst this
    cases r with
    | cont => rw [ResMode, hmode] at hres; cases hres.1
    | brk => rw [ResMode, hmode] at hres; cases hres
    | panicPruneFinish => rw [ResMode, hmode] at hres; cases hres
    | fuel =>
      rw [ResMode, hmode] at hres
      rcases hres with h1 | ⟨_, h1⟩ <;> cases h1
  · exact ⟨post', by rw [hp, htime]⟩

/-- what follows an event after which the call for `u` simply goes on: the next event (if the model
did not run out of fuel) is again an edge out of `u` or `Finish(u)` — in particular not a `Discover` -/
theorem dfsv_goes_on {m2 m : MS} {k u : Nat} {ws : List Nat} {rest : List (Nat × List Nat)}
    {post : List Ev} (hmode : m2.mode = .run) (hst : m2.stack = (u, ws) :: rest)
    (h3 : run v starts script m2 k post = some m) (hres : ResMode r m) :
    (post = [] ∧ r = .fuel) ∨ ∃ e post', post = e :: post' ∧ fromNode u e := by
  rcases run_run hmode hst h3 with hp | hp
  · refine Or.inl ⟨hp, ?_⟩
    subst hp
    have := run_nil_eq h3
    subst this
    cases r with
    | fuel => rfl
    | cont => rw [ResMode, hst] at hres; cases hres.2
    | brk => rw [ResMode, hmode] at hres; cases hres
    | panicPruneFinish => rw [ResMode, hmode] at hres; cases hres
  · exact Or.inr hp

/-- `Prune` on `TreeEdge(u, w)` skips the subtree: `w` is not entered, the loop over `u`'s
neighbours goes on -/
theorem dfsv_prune_tree (h : dfsSearch v script fuel starts {} = (s', r)) {pre post : List Ev}
    {u w : Nat} (hL : s'.evs.reverse = pre ++ .tree u w :: post)
    (hc : ctlAt script pre.length = .prune) :
    (post = [] ∧ r = .fuel) ∨ ∃ e post', post = e :: post' ∧ fromNode u e := by
  obtain ⟨m1, m2, m, _, _, h2, h3, hres⟩ := dfsv_at h hL
  obtain ⟨ws, rest, _, _, _, hm2⟩ := step_tree h2
  exact dfsv_goes_on (u := u) (ws := ws) (rest := rest) (by rw [hm2, hc]; rfl) (by rw [hm2]) h3 hres

/-- `Continue` and `Prune` are the same on back and cross/forward edges: the loop over `u`'s
neighbours goes on -/
theorem dfsv_nontree_next (h : dfsSearch v script fuel starts {} = (s', r)) {pre post : List Ev}
    {e : Ev} {u w : Nat} (hL : s'.evs.reverse = pre ++ e :: post)
    (he : e = .back u w ∨ e = .cross u w) (hc : ctlAt script pre.length ≠ .brk) :
    (post = [] ∧ r = .fuel) ∨ ∃ e' post', post = e' :: post' ∧ fromNode u e' := by
  obtain ⟨m1, m2, m, _, _, h2, h3, hres⟩ := dfsv_at h hL
  have hae : afterEdge (ctlAt script pre.length) = .run := by
    cases hcc : ctlAt script pre.length <;> simp_all [afterEdge]
  rcases he with he | he <;> subst he
  · obtain ⟨ws, rest, _, _, _, _, hm2⟩ := step_back h2
    exact dfsv_goes_on (u := u) (ws := ws) (rest := rest) (by rw [hm2, hae]) (by rw [hm2]) h3 hres
  · obtain ⟨ws, rest, _, _, _, _, hm2⟩ := step_cross h2
    exact dfsv_goes_on (u := u) (ws := ws) (rest := rest) (by rw [hm2, hae]) (by rw [hm2]) h3 hres

end

end PetgraphModel.TravProofs
