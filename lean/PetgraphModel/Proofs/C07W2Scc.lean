import PetgraphModel.Proofs.C07W2Base
import PetgraphModel.Oracle.C09Judge
import PetgraphModel.Proofs.C09Judge
import PetgraphModel.Proofs.C09Models
/-
C07, wave 2 — the C09 specification notions (`SC`, `SccSpec`, `TopoOrder`, `CyclicD`, `IsWccCount`,
`TwoCol`, `CyclicU`) under a change of presentation and under an injective relabeling.
-/
namespace PetgraphModel.C07W2
open PetgraphModel PetgraphModel.MGraph PetgraphModel.C09J

/-! ### mutual reachability and the SCC partition -/

theorem sc_congr {g1 g2 : MGraph} (h : SameAdj g1 g2) {a b : Nat} : SC g1 a b ↔ SC g2 a b := by
  unfold SC; rw [reach_congr h, reach_congr h]

theorem sc_relabel_iff {φ : Nat → Nat} (hφ : Inj φ) (g : MGraph) {a b : Nat} :
    SC (relabel φ g) (φ a) (φ b) ↔ SC g a b := by
  unfold SC; rw [reach_relabel_iff g hφ, reach_relabel_iff g hφ]

theorem sccSpec_congr {g1 g2 : MGraph} (hn : SameNodes g1 g2) (h : SameAdj g1 g2) {comps : List (List Nat)}
    (hs : SccSpec g1 comps) : SccSpec g2 comps := by
  refine ⟨hs.nonempty, hs.nodup, fun x => (hs.cover x).trans (hn x), ?_, ?_⟩
  · intro c hc x hx y
    exact (hs.classes c hc x hx y).trans (sc_congr h)
  · exact hs.order.imp fun hij x hx y hy hr => hij x hx y hy ((reach_congr h).mpr hr)

/-- the SCC answer of `g`, renamed by `φ`, is an SCC answer of the renamed graph -/
theorem sccSpec_relabel {φ : Nat → Nat} (hφ : Inj φ) {g : MGraph} {comps : List (List Nat)}
    (hs : SccSpec g comps) : SccSpec (relabel φ g) (comps.map (List.map φ)) := by
  have hflat : (comps.map (List.map φ)).flatten = comps.flatten.map φ := by
    induction comps with
    | nil => rfl
    | cons c r ih => simp [List.flatten_cons]
  refine ⟨?_, ?_, ?_, ?_, ?_⟩
  · intro c' hc'
    obtain ⟨c, hc, rfl⟩ := List.mem_map.mp hc'
    have := hs.nonempty c hc
    intro h
    exact this (List.map_eq_nil_iff.mp h)
  · rw [hflat]; exact nodup_map_inj hφ hs.nodup
  · intro x'
    rw [hflat, relabel_nodes, List.mem_map, List.mem_map]
    constructor
    · rintro ⟨x, hx, rfl⟩; exact ⟨x, (hs.cover x).mp hx, rfl⟩
    · rintro ⟨x, hx, rfl⟩; exact ⟨x, (hs.cover x).mpr hx, rfl⟩
  · intro c' hc' x' hx' y'
    obtain ⟨c, hc, rfl⟩ := List.mem_map.mp hc'
    obtain ⟨x, hx, rfl⟩ := List.mem_map.mp hx'
    constructor
    · intro hy'
      obtain ⟨y, hy, rfl⟩ := List.mem_map.mp hy'
      exact (sc_relabel_iff hφ g).mpr ((hs.classes c hc x hx y).mp hy)
    · intro hsc
      obtain ⟨y, rfl, _⟩ := reach_relabel_inv g hφ hsc.1
      exact List.mem_map.mpr ⟨y, (hs.classes c hc x hx y).mpr ((sc_relabel_iff hφ g).mp hsc), rfl⟩
  · refine List.pairwise_map.mpr (hs.order.imp ?_)
    intro ci cj hij x' hx' y' hy' hr
    obtain ⟨x, hx, rfl⟩ := List.mem_map.mp hx'
    obtain ⟨y, hy, rfl⟩ := List.mem_map.mp hy'
    exact hij x hx y hy ((reach_relabel_iff g hφ).mp hr)

/-! ### topological orders and directed cycles -/

theorem topoOrder_congr {g1 g2 : MGraph} (hn : SameNodes g1 g2) (h : SameAdj g1 g2) {ord : List Nat}
    (ht : TopoOrder g1 ord) : TopoOrder g2 ord :=
  ⟨ht.nodup, fun x => (ht.cover x).trans (hn x), fun a b hab => ht.forward a b ((h a b).mpr hab)⟩

theorem topoOrder_relabel {φ : Nat → Nat} (hφ : Inj φ) {g : MGraph} {ord : List Nat}
    (ht : TopoOrder g ord) : TopoOrder (relabel φ g) (ord.map φ) := by
  refine ⟨nodup_map_inj hφ ht.nodup, ?_, ?_⟩
  · intro x'
    rw [relabel_nodes, List.mem_map, List.mem_map]
    constructor
    · rintro ⟨x, hx, rfl⟩; exact ⟨x, (ht.cover x).mp hx, rfl⟩
    · rintro ⟨x, hx, rfl⟩; exact ⟨x, (ht.cover x).mpr hx, rfl⟩
  · intro a' b' hab
    obtain ⟨a, b, rfl, rfl, h⟩ := (adj_relabel_iff φ g).mp hab
    rw [idxOf_map_inj hφ, idxOf_map_inj hφ]
    exact ht.forward a b h

theorem cyclicD_congr {g1 g2 : MGraph} (h : SameAdj g1 g2) : CyclicD g1 ↔ CyclicD g2 := by
  unfold CyclicD
  exact ⟨fun ⟨x, hx⟩ => ⟨x, (reach1_congr h).mp hx⟩, fun ⟨x, hx⟩ => ⟨x, (reach1_congr h).mpr hx⟩⟩

theorem cyclicD_relabel_iff {φ : Nat → Nat} (hφ : Inj φ) (g : MGraph) : CyclicD (relabel φ g) ↔ CyclicD g := by
  unfold CyclicD
  constructor
  · rintro ⟨x', hx'⟩
    obtain ⟨x, rfl⟩ := reach1_relabel_start φ g hx'
    exact ⟨x, (reach1_relabel_iff g hφ).mp hx'⟩
  · rintro ⟨x, hx⟩
    exact ⟨φ x, reach1_relabel φ g hx⟩

/-! ### number of weakly connected components -/

theorem isWccCount_congr {g1 g2 : MGraph} (hn : SameNodes g1 g2) (h : SameAdj g1 g2) {k : Nat}
    (hk : IsWccCount g1 k) : IsWccCount g2 k := by
  obtain ⟨reps, h1, h2, h3, h4⟩ := hk
  have hu := h.undirect
  refine ⟨reps, h1, fun r hr => (hn r).mp (h2 r hr), ?_, ?_⟩
  · intro x hx
    obtain ⟨r, hr, hrx⟩ := h3 x ((hn x).mpr hx)
    exact ⟨r, hr, (reach_congr hu).mp hrx⟩
  · exact h4.imp fun hab hr => hab ((reach_congr hu).mpr hr)

theorem isWccCount_relabel {φ : Nat → Nat} (hφ : Inj φ) {g : MGraph} {k : Nat} (hk : IsWccCount g k) :
    IsWccCount (relabel φ g) k := by
  obtain ⟨reps, h1, h2, h3, h4⟩ := hk
  refine ⟨reps.map φ, by simpa using h1, ?_, ?_, ?_⟩
  · intro r' hr'
    obtain ⟨r, hr, rfl⟩ := List.mem_map.mp hr'
    exact List.mem_map.mpr ⟨r, h2 r hr, rfl⟩
  · intro x' hx'
    obtain ⟨x, hx, rfl⟩ := List.mem_map.mp hx'
    obtain ⟨r, hr, hrx⟩ := h3 x hx
    refine ⟨φ r, List.mem_map.mpr ⟨r, hr, rfl⟩, ?_⟩
    rw [relabel_undirect]
    exact reach_relabel φ g.undirect hrx
  · refine List.pairwise_map.mpr (h4.imp ?_)
    intro a b hab hr
    rw [relabel_undirect] at hr
    exact hab ((reach_relabel_iff g.undirect hφ).mp hr)

theorem isWccCount_relabel_inv {φ : Nat → Nat} (hφ : Inj φ) {g : MGraph} {k : Nat}
    (hk : IsWccCount (relabel φ g) k) : IsWccCount g k := by
  obtain ⟨reps', h1, h2, h3, h4⟩ := hk
  obtain ⟨reps, hr, rfl⟩ := exists_preimage_list φ g.nodes reps' h2
  refine ⟨reps, by simpa using h1, hr, ?_, ?_⟩
  · intro x hx
    obtain ⟨r', hr', hrx⟩ := h3 (φ x) (List.mem_map.mpr ⟨x, hx, rfl⟩)
    obtain ⟨r, hrr, rfl⟩ := List.mem_map.mp hr'
    rw [relabel_undirect] at hrx
    exact ⟨r, hrr, (reach_relabel_iff g.undirect hφ).mp hrx⟩
  · refine (List.pairwise_map.mp h4).imp ?_
    intro a b hab hr
    apply hab
    rw [relabel_undirect]
    exact reach_relabel φ g.undirect hr

theorem isWccCount_relabel_iff {φ : Nat → Nat} (hφ : Inj φ) (g : MGraph) (k : Nat) :
    IsWccCount (relabel φ g) k ↔ IsWccCount g k :=
  ⟨isWccCount_relabel_inv hφ, isWccCount_relabel hφ⟩

/-! ### 2-colourability -/

theorem twoCol_congr {g1 g2 : MGraph} (h : SameAdj g1 g2) (s : Nat) : TwoCol g1 s ↔ TwoCol g2 s := by
  unfold TwoCol
  constructor
  · rintro ⟨col, hc⟩
    exact ⟨col, fun x y hr ha => hc x y ((reach_congr h).mpr hr) ((h x y).mpr ha)⟩
  · rintro ⟨col, hc⟩
    exact ⟨col, fun x y hr ha => hc x y ((reach_congr h).mp hr) ((h x y).mp ha)⟩

open Classical in
theorem twoCol_relabel_iff {φ : Nat → Nat} (hφ : Inj φ) (g : MGraph) (s : Nat) :
    TwoCol (relabel φ g) (φ s) ↔ TwoCol g s := by
  unfold TwoCol
  constructor
  · rintro ⟨col', hc⟩
    exact ⟨fun x => col' (φ x), fun x y hr ha => hc (φ x) (φ y) (reach_relabel φ g hr) (adj_relabel φ g ha)⟩
  · rintro ⟨col, hc⟩
    refine ⟨fun y => if h : ∃ x, φ x = y then col (Classical.choose h) else false, ?_⟩
    intro x' y' hr ha
    obtain ⟨x, rfl, hx⟩ := reach_relabel_inv g hφ hr
    obtain ⟨a, b, h1, rfl, hab⟩ := (adj_relabel_iff φ g).mp ha
    have hxa : x = a := hφ _ _ h1
    subst hxa
    have e1 : ∃ z, φ z = φ x := ⟨x, rfl⟩
    have e2 : ∃ z, φ z = φ b := ⟨b, rfl⟩
    have c1 : Classical.choose e1 = x := hφ _ _ (Classical.choose_spec e1)
    have c2 : Classical.choose e2 = b := hφ _ _ (Classical.choose_spec e2)
    simp only [dif_pos e1, dif_pos e2, c1, c2]
    exact hc x b hx hab

/-! ### undirected cycles (`CyclicU`: an edge occurrence whose endpoints stay connected without it) -/

/-- removing one occurrence on both sides of a permutation -/
theorem perm_eraseIdx {α : Type} {l1 l2 : List α} (hp : l1.Perm l2) :
    ∀ i e, l1[i]? = some e → ∃ j, l2[j]? = some e ∧ (l1.eraseIdx i).Perm (l2.eraseIdx j) := by
  induction hp with
  | nil => intro i e h; simp at h
  | cons x _ ih =>
    intro i e h
    cases i with
    | zero =>
      simp only [List.getElem?_cons_zero, Option.some.injEq] at h
      subst h
      exact ⟨0, by simp, by simpa using ‹List.Perm _ _›⟩
    | succ i =>
      simp only [List.getElem?_cons_succ] at h
      obtain ⟨j, hj, hpj⟩ := ih i e h
      exact ⟨j + 1, by simpa using hj, by simpa using hpj.cons x⟩
  | swap x y l =>
    intro i e h
    match i, h with
    | 0, h =>
      simp only [List.getElem?_cons_zero, Option.some.injEq] at h
      subst h
      exact ⟨1, by simp, by simp⟩
    | 1, h =>
      simp only [List.getElem?_cons_succ, List.getElem?_cons_zero, Option.some.injEq] at h
      subst h
      exact ⟨0, by simp, by simp⟩
    | i + 2, h =>
      simp only [List.getElem?_cons_succ] at h
      exact ⟨i + 2, by simpa using h, by simpa using List.Perm.swap x y _⟩
  | trans _ _ ih1 ih2 =>
    intro i e h
    obtain ⟨j, hj, hpj⟩ := ih1 i e h
    obtain ⟨k, hk, hpk⟩ := ih2 j e hj
    exact ⟨k, hk, hpj.trans hpk⟩

/-- adjacency of the undirected reading depends only on the edges as a set -/
theorem sameAdj_undirect_of_mem {g1 g2 : MGraph} (h : ∀ e, e ∈ g1.edges ↔ e ∈ g2.edges) :
    SameAdj g1.undirect g2.undirect := by
  intro a b
  unfold MGraph.Adj MGraph.undirect
  constructor
  · rintro ⟨e, he, hor⟩; exact ⟨e, (h e).mp he, hor⟩
  · rintro ⟨e, he, hor⟩; exact ⟨e, (h e).mpr he, hor⟩

/-- `CyclicU` does not depend on the order in which the edges are listed -/
theorem cyclicU_perm {g1 g2 : MGraph} (hp : g1.edges.Perm g2.edges) (h : CyclicU g1) : CyclicU g2 := by
  obtain ⟨i, e, hi, hr⟩ := h
  obtain ⟨j, hj, hpj⟩ := perm_eraseIdx hp i e hi
  refine ⟨j, e, hj, ?_⟩
  have hs : SameAdj (eraseEdge g1 i).undirect (eraseEdge g2 j).undirect :=
    sameAdj_undirect_of_mem (g1 := eraseEdge g1 i) (g2 := eraseEdge g2 j) fun e => hpj.mem_iff
  exact (reach_congr hs).mp hr

theorem cyclicU_perm_iff {g1 g2 : MGraph} (hp : g1.edges.Perm g2.edges) : CyclicU g1 ↔ CyclicU g2 :=
  ⟨cyclicU_perm hp, cyclicU_perm hp.symm⟩

theorem eraseIdx_map' {α β : Type} (f : α → β) : ∀ (l : List α) (i : Nat),
    (l.map f).eraseIdx i = (l.eraseIdx i).map f := by
  intro l
  induction l with
  | nil => intro i; rfl
  | cons x r ih =>
    intro i
    cases i with
    | zero => rfl
    | succ i => simp [ih]

theorem eraseEdge_relabel (φ : Nat → Nat) (g : MGraph) (i : Nat) :
    eraseEdge (relabel φ g) i = relabel φ (eraseEdge g i) := by
  unfold eraseEdge relabel C13.relabel
  simp [eraseIdx_map']

theorem cyclicU_relabel_iff {φ : Nat → Nat} (hφ : Inj φ) (g : MGraph) : CyclicU (relabel φ g) ↔ CyclicU g := by
  unfold CyclicU
  constructor
  · rintro ⟨i, e', hi, hr⟩
    rw [relabel_edges, List.getElem?_map] at hi
    cases he : g.edges[i]? with
    | none => rw [he] at hi; cases hi
    | some e =>
      rw [he] at hi
      simp only [Option.map_some, Option.some.injEq] at hi
      subst hi
      refine ⟨i, e, he, ?_⟩
      rw [eraseEdge_relabel, relabel_undirect] at hr
      exact (reach_relabel_iff _ hφ).mp hr
  · rintro ⟨i, e, hi, hr⟩
    refine ⟨i, { e with src := φ e.src, tgt := φ e.tgt }, ?_, ?_⟩
    · rw [relabel_edges, List.getElem?_map, hi]; rfl
    · rw [eraseEdge_relabel, relabel_undirect]
      exact reach_relabel φ _ hr

/-! ### "neither on nor downstream of a cycle" (what `Topo` emits) -/

/-- no cycle lies upstream of `x` -/
def NoCycleUpstream (g : MGraph) (x : Nat) : Prop := ∀ c, Reach1 g c c → ¬ Reach g c x

theorem noCycleUpstream_congr {g1 g2 : MGraph} (h : SameAdj g1 g2) (x : Nat) :
    NoCycleUpstream g1 x ↔ NoCycleUpstream g2 x := by
  unfold NoCycleUpstream
  constructor
  · intro hh c hc hr; exact hh c ((reach1_congr h).mpr hc) ((reach_congr h).mpr hr)
  · intro hh c hc hr; exact hh c ((reach1_congr h).mp hc) ((reach_congr h).mp hr)

theorem noCycleUpstream_relabel_iff {φ : Nat → Nat} (hφ : Inj φ) (g : MGraph) (x : Nat) :
    NoCycleUpstream (relabel φ g) (φ x) ↔ NoCycleUpstream g x := by
  unfold NoCycleUpstream
  constructor
  · intro hh c hc hr
    exact hh (φ c) (reach1_relabel φ g hc) (reach_relabel φ g hr)
  · intro hh c' hc' hr
    obtain ⟨c, rfl⟩ := reach1_relabel_start φ g hc'
    exact hh c ((reach1_relabel_iff g hφ).mp hc') ((reach_relabel_iff g hφ).mp hr)

end PetgraphModel.C07W2
