import PetgraphModel.Proofs.C10Dijkstra
/-
The k_shortest_path mirror model (`SP.kspLoop`), for every heap discipline and every consistent
view: the unchecked `counter[graph.to_index(node)]` never goes out of bounds when `to_index` of `s`
and of every arc target is below `node_bound` (the defect D9 was exactly a violation of this), and
every recorded score is the cost of a real walk from `s`.
-/
namespace PetgraphModel.C10P
open PetgraphModel PetgraphModel.MGraph PetgraphModel.SP

/-- `to_index` of every node a walk from `s` can reach is a valid position of the counter vector -/
def IxOk (v : View) (s : Nat) : Prop :=
  v.toIndex s < v.nb ∧ ∀ a x w, (a, x, w) ∈ v.g.arcs → v.toIndex x < v.nb

structure KInv (v : View) (s : Nat) (st : KState) : Prop where
  len : st.counter.length = v.nb
  heapReal : ∀ e, e ∈ st.heap → WalkCost v.g s e.2 e.1
  heapIx : ∀ e, e ∈ st.heap → v.toIndex e.2 < v.nb
  scoresReal : ∀ x c, amGet st.scores x = some c → WalkCost v.g s x c

def KPost (g : MGraph) (s : Nat) : KResult → Prop
  | .done m => ∀ x c, amGet m x = some c → WalkCost g s x c
  | .panic => False
  | .fuel => True

theorem ksp_loop_spec {pop : Pop} (hp : IsMinPop pop) {v : View} (hv : ViewArcs v) (s : Nat) (hix : IxOk v s)
    (goal : Option Nat) (k : Nat) :
    ∀ (fuel : Nat) (st : KState), KInv v s st → KPost v.g s (kspLoop pop v goal k fuel st) := by
  intro fuel
  induction fuel with
  | zero => intro st _; simp [kspLoop, KPost]
  | succ f ih =>
    intro st I
    simp only [kspLoop]
    cases hpop : pop st.heap with
    | none => exact I.scoresReal
    | some eh =>
      obtain ⟨⟨c, node⟩, h'⟩ := eh
      simp only
      have hmem := hp.mem _ _ _ hpop
      have hin : (c, node) ∈ st.heap := (hmem _).mpr (Or.inl rfl)
      have hreal := I.heapReal _ hin
      have hlt := I.heapIx _ hin
      simp only at hreal hlt
      have hsome : ∃ n, st.counter[v.toIndex node]? = some n :=
        ⟨st.counter[v.toIndex node]'(by rw [I.len]; exact hlt), List.getElem?_eq_getElem _⟩
      obtain ⟨n, hn⟩ := hsome
      simp only [hn]
      have hsubR : ∀ e, e ∈ h' → WalkCost v.g s e.2 e.1 := fun e he => I.heapReal e ((hmem e).mpr (Or.inr he))
      have hsubI : ∀ e, e ∈ h' → v.toIndex e.2 < v.nb := fun e he => I.heapIx e ((hmem e).mpr (Or.inr he))
      by_cases hgt : n + 1 > k
      · simp only [hgt, if_true]
        exact ih _ ⟨by simp [I.len], hsubR, hsubI, I.scoresReal⟩
      · simp only [hgt, if_false]
        -- the scores after the possible insertion
        have hsc : ∀ x c', amGet (if n + 1 = k then amSet st.scores node c else st.scores) x = some c' →
            WalkCost v.g s x c' := by
          intro x c' hx
          split at hx
          · rw [amGet_amSet] at hx
            by_cases hxn : x = node
            · simp [hxn] at hx; subst hxn; subst hx; exact hreal
            · simp [hxn] at hx; exact I.scoresReal x c' hx
          · exact I.scoresReal x c' hx
        by_cases hk : n + 1 = k
        · simp only [hk, if_true] at hsc ⊢
          split
          · exact hsc
          · apply ih
            refine ⟨by simp [I.len], ?_, ?_, hsc⟩
            · intro e he
              simp only [List.mem_append, List.mem_map] at he
              rcases he with he | ⟨te, hte, rfl⟩
              · exact hsubR e he
              · exact WalkCost.snoc hreal ((hv node te.1 (v.weight te.2)).mp ⟨te.2, hte, rfl⟩)
            · intro e he
              simp only [List.mem_append, List.mem_map] at he
              rcases he with he | ⟨te, hte, rfl⟩
              · exact hsubI e he
              · exact hix.2 _ _ _ ((hv node te.1 (v.weight te.2)).mp ⟨te.2, hte, rfl⟩)
        · simp only [hk, if_false] at hsc ⊢
          have : (goal == some node && n + 1 == k) = false := by
            have : (n + 1 == k) = false := by simpa using hk
            simp [this]
          simp only [this]
          apply ih
          refine ⟨by simp [I.len], ?_, ?_, hsc⟩
          · intro e he
            simp only [List.mem_append, List.mem_map] at he
            rcases he with he | ⟨te, hte, rfl⟩
            · exact hsubR e he
            · exact WalkCost.snoc hreal ((hv node te.1 (v.weight te.2)).mp ⟨te.2, hte, rfl⟩)
          · intro e he
            simp only [List.mem_append, List.mem_map] at he
            rcases he with he | ⟨te, hte, rfl⟩
            · exact hsubI e he
            · exact hix.2 _ _ _ ((hv node te.1 (v.weight te.2)).mp ⟨te.2, hte, rfl⟩)

/-- **k_shortest_path mirror model**: no out-of-bounds counter access, and only real walk costs -/
theorem ksp_partial {pop : Pop} (hp : IsMinPop pop) {v : View} (hv : ViewArcs v) (s : Nat) (hix : IxOk v s)
    (goal : Option Nat) (k : Nat) : KPost v.g s (kShortestPath pop v s goal k) := by
  apply ksp_loop_spec hp hv s hix goal k
  refine ⟨by simp, ?_, ?_, ?_⟩
  · intro e he; simp at he; subst he; exact WalkCost.nil _
  · intro e he; simp at he; subst he; exact hix.1
  · intro x c hx; simp [amGet] at hx

/-- the driver's per-case checks establish `IxOk` for every source among the nodes -/
theorem ixOkB_sound (v : View) (h1 : C10.viewOkB v = true) (h2 : C10.ixOkB v = true) (s : Nat)
    (hs : s ∈ v.g.nodes) : IxOk v s := by
  unfold C10.ixOkB at h2
  simp only [Bool.and_eq_true, List.all_eq_true, decide_eq_true_eq] at h2
  replace h2 := h2.1
  unfold C10.viewOkB at h1
  simp only [Bool.and_eq_true, List.all_eq_true] at h1
  obtain ⟨⟨_, hends⟩, _⟩ := h1
  refine ⟨h2 s hs, ?_⟩
  intro a x w harc
  have := hends (a, x, w) harc
  simp at this
  exact h2 x this.2

end PetgraphModel.C10P
