import PetgraphModel.Proofs.C10Astar
import Mathlib.Data.List.Nodup
/-
Termination of the astar mirror model: for every min-`pop`, every consistent view with non-negative
weights and ANY heuristic there is a fuel bound (explicit: `astarBound`) beyond which the loop never
reports `fuel` — neither the main loop (each push strictly lowers an integer score that is bounded
by `#nodes · total weight`) nor `reconstruct_path_to` (`came_from` is acyclic: along every link the
pair (score, time of last update) strictly decreases).
-/
namespace PetgraphModel.C10P
open PetgraphModel PetgraphModel.MGraph PetgraphModel.SP

/-! ### association lists: keys -/

def keys {β : Type} (m : List (Nat × β)) : List Nat := m.map (·.1)

theorem amGet_none_iff {β : Type} (m : List (Nat × β)) (k : Nat) : amGet m k = none ↔ k ∉ keys m := by
  induction m with
  | nil => simp [amGet, keys]
  | cons p r ih =>
    obtain ⟨a, b⟩ := p
    simp only [amGet, List.lookup, keys, List.map_cons, List.mem_cons, not_or]
    by_cases h : k = a
    · subst h; simp
    · have : (k == a) = false := by simpa using h
      simp only [this, h, not_false_eq_true, true_and]
      exact ih

theorem keys_amSet {β : Type} (m : List (Nat × β)) (k : Nat) (x : β) :
    keys (amSet m k x) = if k ∈ keys m then keys m else keys m ++ [k] := by
  induction m with
  | nil => simp [amSet, keys]
  | cons p r ih =>
    obtain ⟨a, b⟩ := p
    simp only [amSet]
    by_cases h : a = k
    · subst h; simp [keys]
    · have hne : ¬ k = a := fun e => h e.symm
      simp only [h, if_false, keys, List.map_cons, List.mem_cons, hne, false_or] at ih ⊢
      unfold keys at ih
      rw [ih]
      split <;> simp

theorem keys_amSet_nodup {β : Type} (m : List (Nat × β)) (k : Nat) (x : β) (h : (keys m).Nodup) :
    (keys (amSet m k x)).Nodup := by
  rw [keys_amSet]
  split
  · exact h
  · rename_i hk
    exact List.Nodup.append h (by simp) (by
      intro a ha hb
      simp at hb; subst hb; exact hk ha)

theorem length_amSet {β : Type} (m : List (Nat × β)) (k : Nat) (x : β) :
    (amSet m k x).length = if k ∈ keys m then m.length else m.length + 1 := by
  have := congrArg List.length (keys_amSet m k x)
  by_cases hk : k ∈ keys m
  · simp only [hk, if_true] at this ⊢
    simpa [keys] using this
  · simp only [hk, if_false] at this ⊢
    simpa [keys] using this

theorem mem_keys_of_get {β : Type} {m : List (Nat × β)} {k : Nat} {x : β} (h : amGet m k = some x) : k ∈ keys m := by
  by_cases hk : k ∈ keys m
  · exact hk
  · rw [(amGet_none_iff m k).mpr hk] at h; cases h

/-! ### the potential -/

theorem le_totalW {g : MGraph} (hw : NonNeg g) : ∀ a, a ∈ g.arcs → a.2.2 ≤ totalW g ∧ 0 ≤ totalW g := by
  unfold totalW
  have key : ∀ (l : List (Nat × Nat × Int)), (∀ a ∈ l, 0 ≤ a.2.2) →
      0 ≤ (l.map (·.2.2)).sum ∧ ∀ a ∈ l, a.2.2 ≤ (l.map (·.2.2)).sum := by
    intro l
    induction l with
    | nil => intro _; exact ⟨by simp, fun a h => by cases h⟩
    | cons b r ih =>
      intro hnn
      obtain ⟨h0, hle⟩ := ih (fun a ha => hnn a (List.mem_cons_of_mem _ ha))
      have hb := hnn b (List.mem_cons_self ..)
      simp only [List.map_cons, List.sum_cons]
      refine ⟨by omega, ?_⟩
      intro a ha
      cases List.mem_cons.mp ha with
      | inl e => subst e; omega
      | inr e => have := hle a e; omega
  intro a ha
  obtain ⟨h0, hle⟩ := key g.arcs (fun a ha => hw a.1 a.2.1 a.2.2 ha)
  exact ⟨hle a ha, h0⟩

def phi (B : Nat) (sc : List (Nat × Int)) (x : Nat) : Nat :=
  match amGet sc x with
  | some gx => gx.toNat
  | none => B + 1

def apot (g : MGraph) (s : Nat) (st : AState) : Nat :=
  st.heap.length + ((adom g s).map (phi (scoreBound g s) st.scores)).sum

theorem sum_map_le_nat {α : Type} (l : List α) (f g : α → Nat) (h : ∀ a, f a ≤ g a) :
    (l.map f).sum ≤ (l.map g).sum := by
  induction l with
  | nil => simp
  | cons a r ih =>
    simp only [List.map_cons, List.sum_cons]
    have := h a
    omega

theorem sum_map_lt {α : Type} (l : List α) (f f' : α → Nat) (x : α) (hx : x ∈ l)
    (hle : ∀ a, f' a ≤ f a) (hlt : f' x + 1 ≤ f x) : (l.map f').sum + 1 ≤ (l.map f).sum := by
  induction l with
  | nil => cases hx
  | cons a r ih =>
    simp only [List.map_cons, List.sum_cons]
    cases List.mem_cons.mp hx with
    | inl e =>
      subst e
      have := sum_map_le_nat r f' f hle
      omega
    | inr e =>
      have := ih e
      have := hle a
      omega


/-! ### the termination invariant -/

/-- `a` ranks below `b`: smaller score, or equal score and older last update -/
def RankLt (sc : List (Nat × Int)) (τ : Nat → Nat) (a b : Nat) : Prop :=
  ∃ ga gb, amGet sc a = some ga ∧ amGet sc b = some gb ∧ (ga < gb ∨ (ga = gb ∧ τ a < τ b))

theorem RankLt.trans {sc : List (Nat × Int)} {τ : Nat → Nat} {a b c : Nat} (h1 : RankLt sc τ a b)
    (h2 : RankLt sc τ b c) : RankLt sc τ a c := by
  obtain ⟨ga, gb, ha, hb, h⟩ := h1
  obtain ⟨gb', gc, hb', hc, h'⟩ := h2
  rw [hb] at hb'; cases hb'
  refine ⟨ga, gc, ha, hc, ?_⟩
  rcases h with h | ⟨h, ht⟩ <;> rcases h' with h' | ⟨h', ht'⟩
  · left; omega
  · left; omega
  · left; omega
  · right; exact ⟨by omega, by omega⟩

theorem RankLt.irrefl {sc : List (Nat × Int)} {τ : Nat → Nat} {a : Nat} (h : RankLt sc τ a a) : False := by
  obtain ⟨ga, gb, ha, hb, h⟩ := h
  rw [ha] at hb; cases hb
  rcases h with h | ⟨_, h⟩ <;> omega

structure TI (g : MGraph) (s : Nat) (st : AState) : Prop where
  nonneg : ∀ x gx, amGet st.scores x = some gx → 0 ≤ gx
  bound : ∀ x gx, amGet st.scores x = some gx → gx + totalW g ≤ st.scores.length * totalW g
  keysNodup : (keys st.scores).Nodup
  keysDom : ∀ x, x ∈ keys st.scores → x ∈ adom g s
  cameNodup : (keys st.came).Nodup
  rank : ∃ (τ : Nat → Nat) (clock : Nat), (∀ x, τ x < clock) ∧
    ∀ x p, amGet st.came x = some p → RankLt st.scores τ p x

theorem scores_len_le {g : MGraph} {s : Nat} {st : AState} (T : TI g s st) :
    st.scores.length ≤ (adom g s).length := by
  have := List.Nodup.length_le_of_subset T.keysNodup (fun x hx => T.keysDom x hx)
  simpa [keys] using this

theorem ti_upd {g : MGraph} (hw : NonNeg g) {s : Nat} {h : Nat → Int} {node : Nat} {gn : Int} {st : AState}
    (T : TI g s st) (hsc : amGet st.scores node = some gn) {next : Nat} {w : Int}
    (harc : (node, next, w) ∈ g.arcs) (hlow : ∀ old, amGet st.scores next = some old → gn + w < old) :
    TI g s (aupd st h node next (gn + w)) ∧ apot g s (aupd st h node next (gn + w)) ≤ apot g s st ∧
    amGet (aupd st h node next (gn + w)).scores node = some gn := by
  have hw0 : 0 ≤ w := hw _ _ _ harc
  obtain ⟨hwW, hW0⟩ := le_totalW hw _ harc
  simp only at hwW
  have hgn0 := T.nonneg node gn hsc
  have hnn : next ≠ node := by
    intro e; subst e; have := hlow gn hsc; omega
  have hdom : next ∈ adom g s := by
    unfold adom
    exact List.mem_cons_of_mem _ (List.mem_map.mpr ⟨_, harc, rfl⟩)
  have hget : ∀ b, amGet (aupd st h node next (gn + w)).scores b =
      if b = next then some (gn + w) else amGet st.scores b := by
    intro b; simp [aupd, amGet_amSet]
  have hcame : ∀ b, amGet (aupd st h node next (gn + w)).came b =
      if b = next then some node else amGet st.came b := by
    intro b; simp [aupd, amGet_amSet]
  have hlen : ((aupd st h node next (gn + w)).scores.length : Int) =
      if next ∈ keys st.scores then (st.scores.length : Int) else st.scores.length + 1 := by
    simp only [aupd, length_amSet]
    split <;> simp
  have hbnd_gn := T.bound node gn hsc
  have T' : TI g s (aupd st h node next (gn + w)) := by
    refine ⟨?_, ?_, ?_, ?_, ?_, ?_⟩
    · intro x gx hx
      rw [hget] at hx
      by_cases hxn : x = next
      · simp [hxn] at hx; omega
      · simp [hxn] at hx; exact T.nonneg x gx hx
    · intro x gx hx
      rw [hget] at hx
      rw [hlen]
      by_cases hk : next ∈ keys st.scores
      · simp only [hk, if_true]
        by_cases hxn : x = next
        · simp [hxn] at hx
          cases hold : amGet st.scores next with
          | none => exact absurd hk ((amGet_none_iff _ _).mp hold)
          | some old =>
            have := hlow old hold
            have := T.bound next old hold
            omega
        · simp [hxn] at hx; exact T.bound x gx hx
      · simp only [hk, if_false]
        have hexp : ((st.scores.length : Int) + 1) * totalW g = st.scores.length * totalW g + totalW g := by
          rw [Int.add_mul, Int.one_mul]
        rw [hexp]
        by_cases hxn : x = next
        · simp [hxn] at hx; omega
        · simp [hxn] at hx
          have := T.bound x gx hx
          omega
    · exact keys_amSet_nodup _ _ _ T.keysNodup
    · intro x hx
      simp only [aupd, keys_amSet] at hx
      split at hx
      · exact T.keysDom x hx
      · rcases List.mem_append.mp hx with h1 | h1
        · exact T.keysDom x h1
        · simp at h1; rw [h1]; exact hdom
    · exact keys_amSet_nodup _ _ _ T.cameNodup
    · obtain ⟨τ, clock, hτ, hr⟩ := T.rank
      refine ⟨fun x => if x = next then clock else τ x, clock + 1, ?_, ?_⟩
      · intro x
        have := hτ x
        simp only
        split <;> omega
      · intro x p hxp
        rw [hcame] at hxp
        by_cases hxn : x = next
        · simp [hxn] at hxp
          subst hxp
          refine ⟨gn, gn + w, ?_, ?_, ?_⟩
          · rw [hget]; simp [Ne.symm hnn, hsc]
          · rw [hget]; simp [hxn]
          · by_cases hw1 : 0 < w
            · left; omega
            · right
              refine ⟨by omega, ?_⟩
              have := hτ node
              simp [hxn, Ne.symm hnn]
              exact this
        · simp [hxn] at hxp
          obtain ⟨gp, gx, h1, h2, h3⟩ := hr x p hxp
          by_cases hpn : p = next
          · subst hpn
            have := hlow gp h1
            refine ⟨gn + w, gx, by rw [hget]; simp, by rw [hget]; simp [hxn, h2], ?_⟩
            left
            rcases h3 with h3 | ⟨h3, _⟩ <;> omega
          · refine ⟨gp, gx, by rw [hget]; simp [hpn, h1], by rw [hget]; simp [hxn, h2], ?_⟩
            simp only [hpn, hxn, if_false]
            exact h3
  refine ⟨T', ?_, by rw [hget]; simp [Ne.symm hnn, hsc]⟩
  -- the potential does not increase
  unfold apot
  have hheap : (aupd st h node next (gn + w)).heap.length = st.heap.length + 1 := by simp [aupd]
  rw [hheap]
  have hns_le : gn + w ≤ ((adom g s).length : Int) * totalW g := by
    have h1 := T'.bound next (gn + w) (by rw [hget]; simp)
    have h2 := scores_len_le T'
    have h3 : ((aupd st h node next (gn + w)).scores.length : Int) * totalW g ≤ ((adom g s).length : Int) * totalW g :=
      Int.mul_le_mul_of_nonneg_right (by exact_mod_cast h2) hW0
    omega
  have hB : (gn + w).toNat ≤ scoreBound g s := by
    unfold scoreBound
    omega
  have := sum_map_lt (adom g s) (phi (scoreBound g s) st.scores)
    (phi (scoreBound g s) (aupd st h node next (gn + w)).scores) next hdom ?_ ?_
  · omega
  · intro a
    unfold phi
    rw [hget]
    by_cases han : a = next
    · subst han
      simp only [if_true]
      cases hold : amGet st.scores a with
      | none => simp only; omega
      | some old => have := hlow old hold; simp only; omega
    · simp [han]
  · unfold phi
    rw [hget]
    simp only [if_true]
    cases hold : amGet st.scores next with
    | none => simp only; omega
    | some old => have := hlow old hold; simp only; omega


/-- the edge loop keeps the invariant and does not raise the potential -/
theorem trelax {g : MGraph} (hw : NonNeg g) (v : View) {s : Nat} {h : Nat → Int} {node : Nat} {gn : Int} :
    ∀ (rows : List (Nat × Nat)) (st : AState), TI g s st → amGet st.scores node = some gn →
      (∀ be, be ∈ rows → (node, be.1, v.weight be.2) ∈ g.arcs) →
      TI g s (astarRelax v h node gn rows st) ∧ apot g s (astarRelax v h node gn rows st) ≤ apot g s st := by
  intro rows
  induction rows with
  | nil => intro st T _ _; exact ⟨T, Nat.le_refl _⟩
  | cons hd rest ih =>
    intro st T hsc harcs
    obtain ⟨next, eid⟩ := hd
    have harc : (node, next, v.weight eid) ∈ g.arcs := harcs (next, eid) (List.mem_cons_self ..)
    have harcs' : ∀ be, be ∈ rest → (node, be.1, v.weight be.2) ∈ g.arcs :=
      fun be hbe => harcs be (List.mem_cons_of_mem _ hbe)
    cases hold : amGet st.scores next with
    | none =>
      obtain ⟨T1, hp1, hsc1⟩ := ti_upd (h := h) hw T hsc harc (fun old ho => by rw [hold] at ho; cases ho)
      have heq : astarRelax v h node gn ((next, eid) :: rest) st =
          astarRelax v h node gn rest (aupd st h node next (gn + v.weight eid)) := by
        simp [astarRelax, hold, aupd]
      rw [heq]
      obtain ⟨T2, hp2⟩ := ih _ T1 hsc1 harcs'
      exact ⟨T2, Nat.le_trans hp2 hp1⟩
    | some old =>
      by_cases hle : old ≤ gn + v.weight eid
      · have heq : astarRelax v h node gn ((next, eid) :: rest) st = astarRelax v h node gn rest st := by
          simp [astarRelax, hold, hle]
        rw [heq]
        exact ih st T hsc harcs'
      · have hl : ∀ old', amGet st.scores next = some old' → gn + v.weight eid < old' := by
          intro old' ho; rw [hold] at ho; cases ho; omega
        obtain ⟨T1, hp1, hsc1⟩ := ti_upd (h := h) hw T hsc harc hl
        have heq : astarRelax v h node gn ((next, eid) :: rest) st =
            astarRelax v h node gn rest (aupd st h node next (gn + v.weight eid)) := by
          simp [astarRelax, hold, hle, aupd]
        rw [heq]
        obtain ⟨T2, hp2⟩ := ih _ T1 hsc1 harcs'
        exact ⟨T2, Nat.le_trans hp2 hp1⟩

/-- `reconstruct_path_to` terminates: the chain of `came_from` links never revisits a node -/
theorem reconstruct_some {sc : List (Nat × Int)} {came : List (Nat × Nat)} {τ : Nat → Nat}
    (hnd : (keys came).Nodup) (hr : ∀ x p, amGet came x = some p → RankLt sc τ p x) :
    ∀ (f cur : Nat) (acc seen : List Nat), seen.Nodup → (∀ y, y ∈ seen → y ∈ keys came) →
      (∀ y, y ∈ seen → RankLt sc τ cur y) → came.length + 1 ≤ seen.length + f →
      ∃ p, reconstruct came f cur acc = some p := by
  intro f
  induction f with
  | zero =>
    intro cur acc seen hsn hsk _ hlen
    have := List.Nodup.length_le_of_subset hsn (fun y hy => hsk y hy)
    simp only [keys, List.length_map] at this
    omega
  | succ f ih =>
    intro cur acc seen hsn hsk hrk hlen
    simp only [reconstruct]
    cases hc : amGet came cur with
    | none => exact ⟨acc, rfl⟩
    | some prev =>
      simp only
      have hlt := hr cur prev hc
      have hcur : cur ∉ seen := fun hm => (hrk cur hm).irrefl
      apply ih prev (prev :: acc) (cur :: seen) (List.nodup_cons.mpr ⟨hcur, hsn⟩)
      · intro y hy
        cases List.mem_cons.mp hy with
        | inl e => rw [e]; exact mem_keys_of_get hc
        | inr e => exact hsk y e
      · intro y hy
        cases List.mem_cons.mp hy with
        | inl e => rw [e]; exact hlt
        | inr e => exact hlt.trans (hrk y e)
      · simp only [List.length_cons]; omega

theorem aloop_terminates {pop : Pop} (hp : IsMinPop pop) {v : View} (hv : ViewArcs v) (hw : NonNeg v.g)
    (s : Nat) (isGoal : Nat → Bool) (h : Nat → Int) :
    ∀ (fuel : Nat) (st : AState), TI v.g s st → apot v.g s st < fuel →
      astarLoop pop v isGoal h fuel st ≠ .fuel := by
  intro fuel
  induction fuel with
  | zero => intro st _ hlt; omega
  | succ f ih =>
    intro st T hlt
    simp only [astarLoop]
    cases hpop : pop st.heap with
    | none => simp
    | some eh =>
      obtain ⟨⟨e, node⟩, h'⟩ := eh
      have hlen := hp.len _ _ _ hpop
      simp only
      have Tpop : TI v.g s { st with heap := h' } := ⟨T.nonneg, T.bound, T.keysNodup, T.keysDom, T.cameNodup, T.rank⟩
      have hpot : apot v.g s { st with heap := h' } + 1 = apot v.g s st := by
        unfold apot; simp only; omega
      by_cases hgoal : isGoal node = true
      · simp only [hgoal, if_true]
        cases hsc : amGet st.scores node with
        | none => simp
        | some cost =>
          simp only
          obtain ⟨τ, clock, _, hr⟩ := T.rank
          obtain ⟨p, hp'⟩ := reconstruct_some T.cameNodup hr (st.came.length + 1) node [node] []
            List.nodup_nil (fun y hy => by cases hy) (fun y hy => by cases hy) (by simp)
          rw [hp']
          simp
      · have hgoal' : isGoal node = false := by simpa using hgoal
        simp only [hgoal']
        cases hsc : amGet st.scores node with
        | none => simp
        | some gn =>
          simp only
          have harcs : ∀ be, be ∈ v.outOf node → (node, be.1, v.weight be.2) ∈ v.g.arcs :=
            fun be hbe => (hv node be.1 (v.weight be.2)).mp ⟨be.2, hbe, rfl⟩
          have expand : astarLoop pop v isGoal h f (astarRelax v h node gn (v.outOf node)
              { scores := st.scores, est := amSet st.est node e, came := st.came, heap := h' }) ≠ .fuel := by
            have T1 : TI v.g s { scores := st.scores, est := amSet st.est node e, came := st.came, heap := h' } :=
              ⟨T.nonneg, T.bound, T.keysNodup, T.keysDom, T.cameNodup, T.rank⟩
            obtain ⟨T2, hp2⟩ := trelax (h := h) hw v (v.outOf node) _ T1 hsc harcs
            apply ih _ T2
            have : apot v.g s { scores := st.scores, est := amSet st.est node e, came := st.came, heap := h' } + 1 =
                apot v.g s st := by
              unfold apot; simp only; omega
            omega
          cases hest : amGet st.est node with
          | none => simp only; exact expand
          | some e0 =>
            simp only
            by_cases hle : e0 ≤ e
            · simp only [hle, if_true]
              exact ih _ Tpop (by omega)
            · simp only [hle, if_false]
              exact expand

theorem apot_init (g : MGraph) (s : Nat) (h : Nat → Int) :
    apot g s { scores := [(s, 0)], heap := [(h s, s)] } < astarBound g s := by
  unfold apot astarBound
  have hle : ∀ (l : List Nat), (l.map (phi (scoreBound g s) [(s, 0)])).sum ≤ l.length * (scoreBound g s + 1) := by
    intro l
    induction l with
    | nil => simp
    | cons a r ih =>
      simp only [List.map_cons, List.sum_cons, List.length_cons, Nat.add_mul, Nat.one_mul]
      have : phi (scoreBound g s) [(s, 0)] a ≤ scoreBound g s + 1 := by
        unfold phi
        cases hga : amGet [(s, (0 : Int))] a with
        | none => simp
        | some gx =>
          have : gx = 0 := by
            simp only [amGet, List.lookup] at hga
            split at hga
            · cases hga; rfl
            · cases hga
          subst this; simp
      omega
  have := hle (adom g s)
  simp only [List.length_cons, List.length_nil]
  omega

theorem ti_init (g : MGraph) (hw : NonNeg g) (s : Nat) (h : Nat → Int) :
    TI g s { scores := [(s, 0)], heap := [(h s, s)] } := by
  have hget : ∀ x gx, amGet [(s, (0 : Int))] x = some gx → x = s ∧ gx = 0 := by
    intro x gx hx
    simp only [amGet, List.lookup] at hx
    split at hx
    · rename_i heq; cases hx; exact ⟨by simpa using heq, rfl⟩
    · cases hx
  refine ⟨?_, ?_, by simp [keys], ?_, by simp [keys], ⟨fun _ => 0, 1, fun _ => Nat.zero_lt_one, ?_⟩⟩
  · intro x gx hx; have := (hget x gx hx).2; omega
  · intro x gx hx
    have := (hget x gx hx).2
    subst this
    simp
  · intro x hx
    simp [keys] at hx
    subst hx
    simp [adom]
  · intro x p hx; simp [amGet] at hx

/-- **astar terminates**: beyond the explicit bound `astarBound` the model never reports `fuel` -/
theorem astar_terminates {pop : Pop} (hp : IsMinPop pop) {v : View} (hv : ViewArcs v) (hw : NonNeg v.g)
    (s : Nat) (isGoal : Nat → Bool) (h : Nat → Int) (fuel : Nat) (hf : astarBound v.g s ≤ fuel) :
    SP.astar pop v s isGoal h fuel ≠ .fuel := by
  unfold SP.astar
  apply aloop_terminates hp hv hw s isGoal h fuel _ (ti_init v.g hw s h)
  exact Nat.lt_of_lt_of_le (apot_init v.g s h) hf

end PetgraphModel.C10P
