import PetgraphModel.Proofs.C15W2Chain
/-
C15 wave 2 — `find_join`, phase A: the alternating walk over the two chains of inner vertices finds
their first common element (the join) within its fuel and without a fault.
-/
namespace PetgraphModel.C15W2
open PetgraphModel PetgraphModel.C15 PetgraphModel.C15M PetgraphModel.C15P

/-- a chain of inner-vertex indices, closed by the dummy -/
structure ChainOK (c : Ctx) (lab : List Label) (fi : List Nat) (U : List Nat) : Prop where
  chained : Chained (Link c.v c.m0 lab fi) U
  nodup : U.Nodup
  le : ∀ i ∈ U, i ≤ c.v.nb
  inner : ∀ i ∈ U, (labI lab i).isOuter = false
  last : ∃ U0, U = U0 ++ [c.v.nb]

theorem ChainOK.length_le {c : Ctx} {lab : List Label} {fi : List Nat} {U : List Nat}
    (h : ChainOK c lab fi U) : U.length ≤ c.v.nb + 1 := by
  have h2 : U ⊆ List.range (c.v.nb + 1) := by
    intro i hi
    exact List.mem_range.mpr (by have := h.le i hi; omega)
  have := List.Nodup.length_le_of_subset h.nodup h2
  simpa using this

/-- an element of a chain other than the dummy has a successor -/
theorem ChainOK.succ {c : Ctx} {lab : List Label} {fi : List Nat} {U L R : List Nat} {x : Nat}
    (h : ChainOK c lab fi U) (hU : U = L ++ x :: R) (hx : x ≠ c.v.nb) :
    ∃ nx R', R = nx :: R' ∧ Link c.v c.m0 lab fi x nx := by
  cases R with
  | nil =>
    exfalso
    obtain ⟨U0, e⟩ := h.last
    rw [hU] at e
    have : L ++ [x] = U0 ++ [c.v.nb] := e
    have := List.append_inj_right' this rfl
    simp at this
    exact hx this
  | cons nx R' =>
    refine ⟨nx, R', rfl, ?_⟩
    have := h.chained
    rw [hU] at this
    exact (Chained.drop L _ this).1

theorem ite_or_comm {α : Type} (A B : Prop) [Decidable (A ∨ B)] [Decidable (B ∨ A)] (x y : α) :
    (if A ∨ B then x else y) = (if B ∨ A then x else y) := by
  by_cases h : A ∨ B
  · rw [if_pos h, if_pos h.symm]
  · rw [if_neg h, if_neg (fun h' => h h'.symm)]

theorem isFlagged_iff (l : Label) (k : Key) : l.isFlagged k = true ↔ l = .flag k := by
  cases l <;> simp [Label.isFlagged]

section
variable (c : Ctx) (k : Key) (lab0 : List Label) (fi0 : List Nat) (Ua Ub : List Nat)

/-- the loop invariant of the join search -/
structure JInv (i : Nat) (st : JSt) : Prop where
  found : st.2.2.2.2 = false
  mate : st.1.mate = c.m0
  fi : st.1.fi = fi0
  fault : st.1.fault = false
  labLen : st.1.label.length = c.v.nb + 1
  pos : ∃ U1 U2 L1 R1 L2 R2, ((U1 = Ua ∧ U2 = Ub) ∨ (U1 = Ub ∧ U2 = Ua)) ∧
    U1 = L1 ++ st.2.1 :: R1 ∧ U2 = L2 ++ st.2.2.1 :: R2 ∧ L1.length + L2.length = i ∧
    (∀ j, labI st.1.label j =
      if (j ∈ L1 ++ [st.2.1] ∨ j ∈ L2 ++ [st.2.2.1]) then Label.flag k else labI lab0 j) ∧
    (∀ j ∈ L1 ++ [st.2.1], j ∉ L2 ++ [st.2.2.1])

/-- what the join search has established when it stops with `found` -/
structure JPost (st : JSt) : Prop where
  found : st.2.2.2.2 = true
  mate : st.1.mate = c.m0
  fi : st.1.fi = fi0
  fault : st.1.fault = false
  labLen : st.1.label.length = c.v.nb + 1
  labOuter : ∀ j, (labI lab0 j).isOuter = true → labI st.1.label j = labI lab0 j
  labFlag : ∀ j, labI st.1.label j = labI lab0 j ∨
    (labI st.1.label j = Label.flag k ∧ (labI lab0 j).isOuter = false)
  joinFlag : labI st.1.label st.2.2.2.1 = Label.flag k
  split : ∃ LA LB R, Ua = LA ++ st.2.2.2.1 :: R ∧ Ub = LB ++ st.2.2.2.1 :: R ∧ ∀ j ∈ LA, j ∉ LB

variable {c k lab0 fi0 Ua Ub}

theorem joinAdvance_spec (hd : getM c.m0 c.v.nb = none) (hm0 : c.m0.length = c.v.nb + 1)
    (hfi0 : fi0.length = c.v.nb + 1)
    (hnoflag : ∀ j, labI lab0 j ≠ Label.flag k)
    (i : Nat) (s : GS) (join : Nat) (found : Bool) (left right : Nat) (U1 U2 L1 R1 L2 R2 : List Nat)
    (hor : (U1 = Ua ∧ U2 = Ub) ∨ (U1 = Ub ∧ U2 = Ua))
    (hU1 : ChainOK c lab0 fi0 U1) (hU2 : ChainOK c lab0 fi0 U2)
    (h1 : U1 = L1 ++ left :: R1) (h2 : U2 = L2 ++ right :: R2) (hsum : L1.length + L2.length = i)
    (hlab : ∀ j, labI s.label j =
      if (j ∈ L1 ++ [left] ∨ j ∈ L2 ++ [right]) then Label.flag k else labI lab0 j)
    (hdis : ∀ j ∈ L1 ++ [left], j ∉ L2 ++ [right])
    (hmate : s.mate = c.m0) (hfi : s.fi = fi0) (hfault : s.fault = false)
    (hlabLen : s.label.length = c.v.nb + 1) (hfound : found = false) (hleft : left ≠ c.v.nb) :
    stepPost (JInv c k lab0 fi0 Ua Ub (i + 1)) (JPost c k lab0 fi0 Ua Ub)
      (joinAdvance c.v k s join found left right) := by
  obtain ⟨nx, R1', hR1, p, y, hp, hpi, hpl, hyi, _, hnx⟩ := hU1.succ h1 hleft
  have hleftU : left ∈ U1 := by rw [h1]; simp
  have hnxU : nx ∈ U1 := by rw [h1, hR1]; simp
  have hleft_le := hU1.le left hleftU
  have hnx_le := hU1.le nx hnxU
  -- where the labels are untouched
  have hlab_outer : ∀ j, (labI lab0 j).isOuter = true → labI s.label j = labI lab0 j := by
    intro j hj
    rw [hlab j]
    have : ¬ (j ∈ L1 ++ [left] ∨ j ∈ L2 ++ [right]) := by
      rintro (h | h)
      · have := hU1.inner j (by rw [h1]; simp at h ⊢; rcases h with h | h; exact Or.inl h; exact Or.inr (Or.inl h))
        rw [this] at hj; cases hj
      · have := hU2.inner j (by rw [h2]; simp at h ⊢; rcases h with h | h; exact Or.inl h; exact Or.inr (Or.inl h))
        rw [this] at hj; cases hj
    rw [if_neg this]
  have hflagset : ∀ j, (j ∈ L1 ++ [left] ∨ j ∈ L2 ++ [right]) → (labI lab0 j).isOuter = false := by
    rintro j (h | h)
    · exact hU1.inner j (by rw [h1]; simp at h ⊢; rcases h with h | h; exact Or.inl h; exact Or.inr (Or.inl h))
    · exact hU2.inner j (by rw [h2]; simp at h ⊢; rcases h with h | h; exact Or.inl h; exact Or.inr (Or.inl h))
  have hlp : labI s.label (c.v.toIndex p) = Label.vertex y := by
    rw [hlab_outer _ (by rw [hpl]; rfl), hpl]
  -- evaluate the step
  unfold joinAdvance
  rw [getMate_eq s left (by rw [hmate, hm0]; omega), hmate, hp]
  simp only []
  rw [getLabel_eq s (c.v.toIndex p) (by rw [hlabLen]; omega), hlp]
  simp only [Bool.or_self, flt_false]
  rw [getFi_eq s (c.v.toIndex y) (by rw [hfi, hfi0]; omega), hfi, hnx]
  simp only [flt_false]
  simp only [getLabel_eq s nx (by rw [hlabLen]; omega), flt_false]
  have hnx_notin1 : nx ∉ L1 ++ [left] := by
    intro h
    have := hU1.nodup
    rw [h1, hR1] at this
    have e : L1 ++ left :: nx :: R1' = (L1 ++ [left]) ++ nx :: R1' := by simp
    rw [e] at this
    exact (List.nodup_append.mp this).2.2 nx h nx (by simp) rfl
  by_cases hfl : nx ∈ L2 ++ [right]
  · -- the join
    have hflag : (labI s.label nx).isFlagged k = true := by
      rw [hlab nx, if_pos (Or.inr hfl)]; simp [Label.isFlagged]
    simp only [hflag, Bool.not_true, Bool.false_eq_true, if_false]
    obtain ⟨LB, rest2, hsplit2⟩ := mem_split hfl
    have hU1' : U1 = (L1 ++ [left]) ++ nx :: R1' := by rw [h1, hR1]; simp
    have hU2' : U2 = LB ++ nx :: (rest2 ++ R2) := by
      rw [h2]
      have : L2 ++ right :: R2 = (L2 ++ [right]) ++ R2 := by simp
      rw [this, hsplit2]; simp
    have hR : R1' = rest2 ++ R2 := by
      obtain ⟨U0, e0⟩ := hU1.last
      obtain ⟨U0', e0'⟩ := hU2.last
      apply chained_det hd R1' (rest2 ++ R2) nx
      · have := hU1.chained; rw [hU1'] at this; exact Chained.drop _ _ this
      · have := hU2.chained; rw [hU2'] at this; exact Chained.drop _ _ this
      · exact suffix_snoc c.v.nb (L1 ++ [left]) (nx :: R1') U0 (by rw [← hU1', e0]) (by simp)
      · exact suffix_snoc c.v.nb LB (nx :: (rest2 ++ R2)) U0' (by rw [← hU2', e0']) (by simp)
    have hLBsub : ∀ j ∈ LB, j ∈ L2 ++ [right] := by
      intro j hj; rw [hsplit2]; exact List.mem_append_left _ hj
    refine ⟨rfl, hmate, hfi, hfault, hlabLen, hlab_outer, ?_, ?_, ?_⟩
    · intro j
      rw [hlab j]
      by_cases hj : (j ∈ L1 ++ [left] ∨ j ∈ L2 ++ [right])
      · right; rw [if_pos hj]; exact ⟨rfl, hflagset j hj⟩
      · left; rw [if_neg hj]
    · show labI s.label nx = Label.flag k
      rw [hlab nx, if_pos (Or.inr hfl)]
    · show ∃ LA LB R, Ua = LA ++ nx :: R ∧ Ub = LB ++ nx :: R ∧ ∀ j ∈ LA, j ∉ LB
      rcases hor with ⟨e1, e2⟩ | ⟨e1, e2⟩
      · exact ⟨L1 ++ [left], LB, R1', by rw [← e1, hU1'], by rw [← e2, hU2', hR],
          fun j hj hjb => hdis j hj (hLBsub j hjb)⟩
      · exact ⟨LB, L1 ++ [left], R1', by rw [← e2, hU2', hR], by rw [← e1, hU1'],
          fun j hjb hj => hdis j hj (hLBsub j hjb)⟩
  · -- one more flagged vertex
    have hnflag : (labI s.label nx).isFlagged k = false := by
      rw [hlab nx, if_neg (by rintro (h | h); exact hnx_notin1 h; exact hfl h)]
      cases hh : (labI lab0 nx).isFlagged k with
      | false => rfl
      | true => exact absurd ((isFlagged_iff _ _).mp hh) (hnoflag nx)
    simp only [hnflag, Bool.not_false, if_true]
    have hset : s.setLabel nx (Label.flag k) = { s with label := s.label.set nx (Label.flag k) } := by
      unfold GS.setLabel; rw [if_pos (by rw [hlabLen]; omega)]
    rw [hset]
    refine ⟨hfound, hmate, hfi, hfault, by simp [hlabLen], ?_⟩
    refine ⟨U1, U2, L1 ++ [left], R1', L2, R2, hor, by rw [h1, hR1]; simp, h2, by simp; omega, ?_, ?_⟩
    · intro j
      show labI (s.label.set nx (Label.flag k)) j = _
      rw [labI_set _ _ _ _ (by rw [hlabLen]; omega), hlab j]
      by_cases hj : nx = j
      · subst hj; simp
      · have hj' : j ≠ nx := fun e => hj e.symm
        simp only [hj, if_false, List.mem_append, List.mem_singleton, hj', or_false]
    · intro j hj hj2
      simp only [List.mem_append, List.mem_singleton] at hj
      rcases hj with hj | hj
      · exact hdis j (by simpa using hj) hj2
      · subst hj; exact hfl hj2

theorem joinStep_spec (hd : getM c.m0 c.v.nb = none) (hm0 : c.m0.length = c.v.nb + 1)
    (hfi0 : fi0.length = c.v.nb + 1) (hnoflag : ∀ j, labI lab0 j ≠ Label.flag k)
    (hUa : ChainOK c lab0 fi0 Ua) (hUb : ChainOK c lab0 fi0 Ub)
    (i : Nat) (st : JSt) (hI : JInv c k lab0 fi0 Ua Ub i st) :
    stepPost (JInv c k lab0 fi0 Ua Ub (i + 1)) (JPost c k lab0 fi0 Ua Ub) (joinStep c.v k st) := by
  obtain ⟨U1, U2, L1, R1, L2, R2, hor, h1, h2, hsum, hlab, hdis⟩ := hI.pos
  have hU1 : ChainOK c lab0 fi0 U1 := by rcases hor with ⟨e, _⟩ | ⟨e, _⟩ <;> rw [e] <;> assumption
  have hU2 : ChainOK c lab0 fi0 U2 := by rcases hor with ⟨_, e⟩ | ⟨_, e⟩ <;> rw [e] <;> assumption
  unfold joinStep
  rw [if_neg (by rw [hI.fault]; simp)]
  by_cases hr : (st.2.2.1 != c.v.nb) = true
  · rw [if_pos hr]
    have hr' : st.2.2.1 ≠ c.v.nb := by simpa using hr
    exact joinAdvance_spec hd hm0 hfi0 hnoflag i st.1 st.2.2.2.1 st.2.2.2.2 st.2.2.1 st.2.1 U2 U1 L2 R2 L1 R1
      (by rcases hor with ⟨e1, e2⟩ | ⟨e1, e2⟩
          · exact Or.inr ⟨e2, e1⟩
          · exact Or.inl ⟨e2, e1⟩)
      hU2 hU1 h2 h1 (by omega)
      (fun j => by rw [hlab j]; exact ite_or_comm _ _ _ _)
      (fun j hj hj' => hdis j hj' hj) hI.mate hI.fi hI.fault hI.labLen hI.found hr'
  · rw [if_neg hr]
    have hr' : st.2.2.1 = c.v.nb := by simpa using hr
    have hl : st.2.1 ≠ c.v.nb := by
      intro e
      apply hdis st.2.1 (by simp)
      rw [e, hr']; simp
    exact joinAdvance_spec hd hm0 hfi0 hnoflag i st.1 st.2.2.2.1 st.2.2.2.2 st.2.1 st.2.2.1 U1 U2 L1 R1 L2 R2
      hor hU1 hU2 h1 h2 hsum hlab hdis hI.mate hI.fi hI.fault hI.labLen hI.found hl

/-- **phase A of `find_join`**: the join is found within the fuel -/
theorem joinLoop_spec (hd : getM c.m0 c.v.nb = none) (hm0 : c.m0.length = c.v.nb + 1)
    (hfi0 : fi0.length = c.v.nb + 1) (hnoflag : ∀ j, labI lab0 j ≠ Label.flag k)
    (hUa : ChainOK c lab0 fi0 Ua) (hUb : ChainOK c lab0 fi0 Ub)
    (init : JSt) (h0 : JInv c k lab0 fi0 Ua Ub 0 init) :
    JPost c k lab0 fi0 Ua Ub
      (forIn (m := Id) [:4 * (c.v.nb + 2)] init (fun _ st => pure (joinStep c.v k st))).run := by
  have := forIn_range_pure (JInv c k lab0 fi0 Ua Ub) (JPost c k lab0 fi0 Ua Ub) (4 * (c.v.nb + 2))
    (fun _ st => joinStep c.v k st) init h0
    (fun i st _ hI => joinStep_spec hd hm0 hfi0 hnoflag hUa hUb i st hI)
  rcases this with h | h
  · exact h
  · exfalso
    obtain ⟨U1, U2, L1, R1, L2, R2, hor, h1, h2, hsum, _, _⟩ := h.pos
    have hU1 : ChainOK c lab0 fi0 U1 := by rcases hor with ⟨e, _⟩ | ⟨e, _⟩ <;> rw [e] <;> assumption
    have hU2 : ChainOK c lab0 fi0 U2 := by rcases hor with ⟨_, e⟩ | ⟨_, e⟩ <;> rw [e] <;> assumption
    have l1 := hU1.length_le
    have l2 := hU2.length_le
    rw [h1] at l1
    rw [h2] at l2
    simp only [List.length_append, List.length_cons] at l1 l2
    omega

end

end PetgraphModel.C15W2
