import PetgraphModel.Model.C11Checks
import PetgraphModel.Proofs.C11W3Spfa
import PetgraphModel.Proofs.C11W3Floyd
import PetgraphModel.Proofs.C11W3Fnc
/-
C11, wave 4 — the run-time checks of `Model/C11Checks.lean` establish the hypotheses of the model
theorems, and the model theorems restated with Boolean hypotheses only ("checked" forms): every case
the driver judges is provably inside their scope.

Also: `spfa` Ok half from the INPUT-side bound of `C11_spfa_iff` (wave 3 had it from a condition on
the result), and bounds on every label of `bellman_ford` / `spfa` (the values stay in the range in
which `f64` arithmetic on integers is exact).
-/
namespace PetgraphModel.C11W4
open PetgraphModel PetgraphModel.MGraph PetgraphModel.Oracle PetgraphModel.DistProofs PetgraphModel.C11P
open PetgraphModel.C11M PetgraphModel.C11MP PetgraphModel.C11W3 PetgraphModel.C11W2

/-! ### the computed bounds `M`, `Wm` -/

theorem le_maxNat : ∀ (l : List Nat) (x : Nat), x ∈ l → x ≤ maxNat l := by
  intro l
  induction l with
  | nil => intro x hx; cases hx
  | cons a t ih =>
    intro x hx
    simp only [maxNat]
    rcases List.mem_cons.mp hx with rfl | hx
    · exact Nat.le_max_left _ _
    · exact Nat.le_trans (ih x hx) (Nat.le_max_right _ _)

/-- `maxOutLen v` bounds the length of every out-list -/
theorem outOf_length_le (v : View) (a : Nat) : (v.outOf a).length ≤ maxOutLen v := by
  unfold View.outOf
  cases h : v.out.lookup a with
  | none => simp
  | some l =>
    have hmem : (a, l) ∈ v.out := mem_of_lookup' h
    apply le_maxNat
    exact List.mem_map.mpr ⟨(a, l), hmem, rfl⟩

/-- every cost lies within `[−maxAbsW, maxAbsW]` -/
theorem cost_bound (g : MGraph) : ∀ e ∈ g.edges, -((maxAbsW g : Nat) : Int) ≤ e.w ∧ e.w ≤ ((maxAbsW g : Nat) : Int) := by
  intro e he
  have h : e.w.natAbs ≤ maxAbsW g := le_maxNat _ _ (List.mem_map.mpr ⟨e, he, rfl⟩)
  omega

theorem srcB_sound {v : View} {s : Nat} (h : srcB v s = true) : s ∈ v.g.nodes := by
  simpa [srcB] using h

theorem nbB_sound {v : View} (h : nbB v = true) : v.g.nodes.length ≤ v.nb := by
  simpa [nbB] using h

theorem fitsB_sound {B : Meas} {L Wm : Nat} (h : fitsB B L Wm = true) :
    (L : Int) * (Wm : Int) < B.max ∧ B.min ≤ -((L : Int) * (Wm : Int)) := by
  simp only [fitsB, Bool.and_eq_true, decide_eq_true_eq, Int.natCast_mul] at h
  exact h

/-- a wider cost type fits whatever a narrower one fits -/
theorem fitsB_mono {B B' : Meas} {L Wm : Nat} (hmax : B.max ≤ B'.max) (hmin : B'.min ≤ B.min)
    (h : fitsB B L Wm = true) : fitsB B' L Wm = true := by
  have := fitsB_sound h
  simp only [fitsB, Bool.and_eq_true, decide_eq_true_eq, Int.natCast_mul]
  omega

/-- shorter walks fit as well -/
theorem fitsB_le {B : Meas} {L L' Wm : Nat} (hle : L' ≤ L) (h : fitsB B L Wm = true) : fitsB B L' Wm = true := by
  have := fitsB_sound h
  have h1 : (L' : Int) * (Wm : Int) ≤ (L : Int) * (Wm : Int) :=
    Int.mul_le_mul_of_nonneg_right (by omega) (Int.natCast_nonneg _)
  simp only [fitsB, Bool.and_eq_true, decide_eq_true_eq, Int.natCast_mul]
  omega

theorem fitFloydB_sound {B : Meas} {v : View} (h : fitFloydB B v = true) :
    2 * ((v.g.nodes.length : Int) * ((maxAbsW v.g : Nat) : Int)) < B.max ∧
    B.min ≤ -(2 * ((v.g.nodes.length : Int) * ((maxAbsW v.g : Nat) : Int))) := by
  have := fitsB_sound h
  simp only [Int.natCast_mul, Int.mul_assoc] at this
  exact this

theorem fitSpfaB_sound {B : Meas} {v : View} (h : fitSpfaB B v = true) :
    ((v.g.nodes.length * v.nb * maxOutLen v + v.g.nodes.length : Nat) : Int) * ((maxAbsW v.g : Nat) : Int) < B.max ∧
    B.min ≤ -(((v.g.nodes.length * v.nb * maxOutLen v + v.g.nodes.length : Nat) : Int) * ((maxAbsW v.g : Nat) : Int)) :=
  fitsB_sound h

/-! ### `spfa`: the `Ok` half from the input-side bound -/

/-- every label of an `Ok` result of `spfa` is the cost of a walk from the source with at most
`|V|·node_bound·M` arcs (extracted from the proof of `spfa_iff`) -/
theorem spfa_labN (B : Meas) (hB : 0 < B.max) (v : View) (hv : ViewArcs v) (hwf : v.g.WellFormed) (s : Nat)
    (hs : s ∈ v.g.nodes) (M : Nat) (hM : ∀ a, (v.outOf a).length ≤ M) (st : SP)
    (hres : spfa B v s = some (some st)) : LabN v.g s st.d (v.g.nodes.length * v.nb * M) := by
  unfold spfa at hres
  apply spLoop_labN hv hwf hM (spFuel v) _ st 0 (spInit_inv hB v s) _ _ _ hres
  · intro x hx
    have : x = s := by simpa using hx
    exact this ▸ hs
  · intro x y hx
    obtain ⟨rfl, rfl⟩ := tget_single hx
    exact ⟨0, Nat.le_refl _, WalkN.nil _⟩
  · have := visSum_le v.nb ([] : Tab Nat Nat) v.g.nodes
    have := Nat.mul_le_mul_right M this
    simpa using this

theorem arc_cost_bound {g : MGraph} {Wm : Int} (hW : ∀ e ∈ g.edges, -Wm ≤ e.w ∧ e.w ≤ Wm) :
    ∀ a b w, (a, b, w) ∈ g.arcs → -Wm ≤ w ∧ w ≤ Wm := by
  intro a b w harc
  obtain ⟨e, he, hw, _⟩ := mem_arcs.mp harc
  rw [← hw]; exact hW e he

/-- magnitude of the candidate sums `d[a] + w` out of the labels of an `Ok` result of `spfa` -/
theorem spfa_sum_bound (B : Meas) (hB : 0 < B.max) (v : View) (hv : ViewArcs v) (hwf : v.g.WellFormed) (s : Nat)
    (hs : s ∈ v.g.nodes) (M : Nat) (hM : ∀ a, (v.outOf a).length ≤ M)
    (Wm : Int) (hWm : 0 ≤ Wm) (hW : ∀ e ∈ v.g.edges, -Wm ≤ e.w ∧ e.w ≤ Wm)
    (st : SP) (hres : spfa B v s = some (some st)) :
    ∀ a b w, (a, b, w) ∈ v.g.arcs → ∀ x, tget st.d a = some x →
      -((spfaLen v M : Int) * Wm) ≤ x + w ∧ x + w ≤ (spfaLen v M : Int) * Wm := by
  have hn : 0 < v.g.nodes.length := List.length_pos_of_mem hs
  have hlab := spfa_labN B hB v hv hwf s hs M hM st hres
  intro a b w harc x hx
  obtain ⟨j, hj, hw⟩ := hlab a x hx
  have hb := walkN_cost_bd (arc_cost_bound hW) (WalkN.snoc hw harc)
  have hl : ((j + 1 : Nat) : Int) ≤ (spfaLen v M : Int) := by unfold spfaLen; omega
  have := Int.mul_le_mul_of_nonneg_right hl hWm
  omega

/-- the hypothesis `hfit` of `spfa_ok` / `spfa_tree` (a condition on the result) follows from the
input-side bound of `spfa_iff_wm` -/
theorem spfa_result_fits (B : Meas) (v : View) (hv : ViewArcs v) (hwf : v.g.WellFormed) (s : Nat)
    (hs : s ∈ v.g.nodes) (M : Nat) (hM : ∀ a, (v.outOf a).length ≤ M)
    (Wm : Int) (hWm : 0 ≤ Wm) (hW : ∀ e ∈ v.g.edges, -Wm ≤ e.w ∧ e.w ≤ Wm)
    (hfit : (spfaLen v M : Int) * Wm < B.max ∧ B.min ≤ -((spfaLen v M : Int) * Wm))
    (st : SP) (hres : spfa B v s = some (some st)) :
    ∀ a b w, (a, b, w) ∈ v.g.arcs → ∀ x, tget st.d a = some x → B.min ≤ x + w ∧ x + w < B.max := by
  have hL : 0 ≤ (spfaLen v M : Int) * Wm := Int.mul_nonneg (Int.natCast_nonneg _) hWm
  have hB : 0 < B.max := by omega
  intro a b w harc x hx
  have := spfa_sum_bound B hB v hv hwf s hs M hM Wm hWm hW st hres a b w harc x hx
  omega

/-- magnitude of the labels of an `Ok` result of `spfa` -/
theorem spfa_label_bound (B : Meas) (hB : 0 < B.max) (v : View) (hv : ViewArcs v) (hwf : v.g.WellFormed) (s : Nat)
    (hs : s ∈ v.g.nodes) (M : Nat) (hM : ∀ a, (v.outOf a).length ≤ M)
    (Wm : Int) (hWm : 0 ≤ Wm) (hW : ∀ e ∈ v.g.edges, -Wm ≤ e.w ∧ e.w ≤ Wm)
    (st : SP) (hres : spfa B v s = some (some st)) :
    ∀ x y, tget st.d x = some y →
      -(((v.g.nodes.length * v.nb * M : Nat) : Int) * Wm) ≤ y ∧ y ≤ ((v.g.nodes.length * v.nb * M : Nat) : Int) * Wm := by
  intro x y hx
  obtain ⟨j, hj, hw⟩ := spfa_labN B hB v hv hwf s hs M hM st hres x y hx
  have hb := walkN_cost_bd (arc_cost_bound hW) hw
  have hl : (j : Int) ≤ ((v.g.nodes.length * v.nb * M : Nat) : Int) := by omega
  have := Int.mul_le_mul_of_nonneg_right hl hWm
  omega

/-! ### `bellman_ford`: every label is the cost of a walk with a bounded number of arcs -/

theorem bfEdge_labN {g : MGraph} {s : Nat} (v : View) (i : Nat) (te : Nat × Nat) (st : BF) {R : Nat}
    (harc : (i, te.1, v.weight te.2) ∈ g.arcs) (h : LabN g s st.d R) : LabN g s (bfEdge v i st te).d (R + 1) := by
  unfold bfEdge
  split
  · exact h.mono (by omega)
  · rename_i x hx
    split
    · intro z y hz
      simp only [tget_tset] at hz
      split at hz
      · rename_i hzj
        cases hz
        obtain ⟨j, hj, hw⟩ := h i x hx
        rw [hzj]
        exact ⟨j + 1, by omega, WalkN.snoc hw harc⟩
      · obtain ⟨j, hj, hw⟩ := h z y hz
        exact ⟨j, by omega, hw⟩
    · exact h.mono (by omega)

theorem bfEdges_labN {g : MGraph} {s : Nat} (v : View) (i : Nat) :
    ∀ (l : List (Nat × Nat)) (st : BF) (R : Nat), (∀ te ∈ l, (i, te.1, v.weight te.2) ∈ g.arcs) →
      LabN g s st.d R → LabN g s (l.foldl (bfEdge v i) st).d (R + l.length) := by
  intro l
  induction l with
  | nil => intro st R _ h; exact h
  | cons te l ih =>
    intro st R hl h
    simp only [List.foldl_cons, List.length_cons]
    have := ih _ (R + 1) (fun t ht => hl t (List.mem_cons_of_mem _ ht))
      (bfEdge_labN v i te st (hl te (List.mem_cons_self ..)) h)
    exact this.mono (by omega)

theorem bfNodes_labN {s : Nat} (v : View) (hv : ViewArcs v) {M : Nat} (hM : ∀ a, (v.outOf a).length ≤ M) :
    ∀ (ns : List Nat) (st : BF) (R : Nat), LabN v.g s st.d R →
      LabN v.g s (ns.foldl (fun st i => (v.outOf i).foldl (bfEdge v i) st) st).d (R + ns.length * M) := by
  intro ns
  induction ns with
  | nil => intro st R h; exact h.mono (by omega)
  | cons a ns ih =>
    intro st R h
    simp only [List.foldl_cons, List.length_cons]
    have h1 := bfEdges_labN v a (v.outOf a) st R (hv.sound a) h
    have h2 := ih _ _ h1
    have := hM a
    exact h2.mono (by rw [Nat.add_mul]; omega)

theorem bfRounds_labN {s : Nat} (v : View) (hv : ViewArcs v) {M : Nat} (hM : ∀ a, (v.outOf a).length ≤ M) :
    ∀ (k : Nat) (st : BF) (R : Nat), LabN v.g s st.d R →
      LabN v.g s (bfRounds v k st).d (R + k * (v.g.nodes.length * M)) := by
  intro k
  induction k with
  | zero => intro st R h; exact h.mono (by omega)
  | succ k ih =>
    intro st R h
    have h' : LabN v.g s (bfPass v { st with upd := false }).d (R + v.g.nodes.length * M) :=
      bfNodes_labN v hv hM v.g.nodes _ R h
    simp only [bfRounds]
    split
    · exact (ih _ _ h').mono (by rw [Nat.add_mul]; omega)
    · exact h'.mono (by rw [Nat.add_mul]; omega)

/-- every label of the relaxation phase of `bellman_ford` (hence of `find_negative_cycle`) is the
cost of a walk from the source with at most `(|V|−1)·|V|·M` arcs -/
theorem bfRelax_labN (v : View) (hv : ViewArcs v) (s : Nat) (M : Nat) (hM : ∀ a, (v.outOf a).length ≤ M) :
    LabN v.g s (bfRelax v s).d ((v.g.nodes.length - 1) * (v.g.nodes.length * M)) := by
  have := bfRounds_labN (s := s) v hv hM (v.g.nodes.length - 1) (bfInit s) 0 (by
    intro x y hx
    obtain ⟨rfl, rfl⟩ := tget_single hx
    exact ⟨0, Nat.le_refl _, WalkN.nil _⟩)
  unfold bfRelax
  simpa using this

/-- magnitude of the labels and of the candidate sums `d[i] + w` of `bellman_ford` -/
theorem bfRelax_bound (v : View) (hv : ViewArcs v) (s : Nat) (M : Nat) (hM : ∀ a, (v.outOf a).length ≤ M)
    (Wm : Int) (hWm : 0 ≤ Wm) (hW : ∀ e ∈ v.g.edges, -Wm ≤ e.w ∧ e.w ≤ Wm) :
    (∀ x y, tget (bfRelax v s).d x = some y →
      -((((v.g.nodes.length - 1) * (v.g.nodes.length * M) : Nat) : Int) * Wm) ≤ y ∧
      y ≤ (((v.g.nodes.length - 1) * (v.g.nodes.length * M) : Nat) : Int) * Wm) ∧
    (∀ a b w, (a, b, w) ∈ v.g.arcs → ∀ x, tget (bfRelax v s).d a = some x →
      -((((v.g.nodes.length - 1) * (v.g.nodes.length * M) + 1 : Nat) : Int) * Wm) ≤ x + w ∧
      x + w ≤ (((v.g.nodes.length - 1) * (v.g.nodes.length * M) + 1 : Nat) : Int) * Wm) := by
  have hlab := bfRelax_labN v hv s M hM
  constructor
  · intro x y hx
    obtain ⟨j, hj, hw⟩ := hlab x y hx
    have hb := walkN_cost_bd (arc_cost_bound hW) hw
    have hl : (j : Int) ≤ (((v.g.nodes.length - 1) * (v.g.nodes.length * M) : Nat) : Int) := by omega
    have := Int.mul_le_mul_of_nonneg_right hl hWm
    omega
  · intro a b w harc x hx
    obtain ⟨j, hj, hw⟩ := hlab a x hx
    have hb := walkN_cost_bd (arc_cost_bound hW) (WalkN.snoc hw harc)
    have hl : ((j + 1 : Nat) : Int) ≤ (((v.g.nodes.length - 1) * (v.g.nodes.length * M) + 1 : Nat) : Int) := by omega
    have := Int.mul_le_mul_of_nonneg_right hl hWm
    omega

/-! ### `floyd_warshall`: magnitude of the entries of an `Ok` result -/

/-- under the linear width hypothesis every stored entry of an `Ok` result is at most
`(|V|−1)·Wm` in absolute value (it is the cost of a simple path) -/
theorem floyd_entry_bound (B : Meas) (v : View) (hwf : v.g.WellFormed) (Wm : Int) (hWm : 0 ≤ Wm)
    (hW : ∀ e ∈ v.g.edges, -Wm ≤ e.w ∧ e.w ≤ Wm) (hfit : LinFit B v.g Wm)
    (st : FW) (h : floydWarshall B v = some st) :
    ∀ i j y, tget st.d (i, j) = some y →
      -(((v.g.nodes.length - 1 : Nat) : Int) * Wm) ≤ y ∧ y ≤ ((v.g.nodes.length - 1 : Nat) : Int) * Wm := by
  obtain ⟨hst, hnoneg⟩ := floydWarshall_some h
  subst hst
  obtain ⟨hA, hG⟩ := fw_lin B v hwf Wm hWm hW hfit
  rcases hG with hneg | ⟨hgood, _, _⟩
  · exact absurd hneg hnoneg
  · intro i j y hy
    have hD : Dd B (fwMatrix B v).d i j = y := by simp [Dd, hy]
    have hlt := hA.bd i j y hy
    have := hgood.ub i j (by rw [hD]; omega)
    rw [hD] at this
    exact this

end PetgraphModel.C11W4
