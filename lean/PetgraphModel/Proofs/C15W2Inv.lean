import PetgraphModel.Proofs.C15W2Path
/-
C15 wave 2 — the invariant of one search of Gabow's algorithm (`gabowSearch`): every outer vertex
`a` has a simple alternating path `P a` to the start vertex that the labels describe, and the
`first_inner` array names the first non-outer vertex of every such path.
The paths `P` and the order `ord` in which the vertices became outer are ghost state.
-/
namespace PetgraphModel.C15W2
open PetgraphModel PetgraphModel.C15 PetgraphModel.C15M PetgraphModel.C15P

/-- what is fixed during one search: the view, the `mate` array and the start vertex -/
structure Ctx where
  v : View
  mode : Nat
  m0 : List (Option Nat)
  sv : Nat

/-- the matching of the search, on nodes -/
def Ctx.μ (c : Ctx) (a : Nat) : Option Nat := getM c.m0 (c.v.toIndex a)
/-- joined by a non-loop edge -/
def Ctx.J (c : Ctx) (a b : Nat) : Prop := Joined c.v.g a b

/-- labels and first-inner entries as functions of the node, plus the ghost paths and order -/
structure AS where
  L : Nat → Label
  F : Nat → Nat
  P : Nat → PL
  ord : List Nat

def AS.out (A : AS) (a : Nat) : Bool := (A.L a).isOuter
/-- first inner vertex of a path in the current labelling -/
def AS.fin (c : Ctx) (A : AS) (l : PL) : Nat := firstInner c.v.nb c.v.toIndex A.out l
/-- position in the labelling order -/
def AS.tau (A : AS) (a : Nat) : Nat := A.ord.idxOf a

structure PathOK (c : Ctx) (A : AS) (a : Nat) : Prop where
  svMem : c.sv ∈ c.v.g.nodes
  hd : fstOr (A.P a) c.sv = a
  alt : Alt c.μ c.J (A.P a) c.sv
  nodup : (verts (A.P a) ++ [c.sv]).Nodup
  mem : ∀ x ∈ verts (A.P a), x ∈ c.v.g.nodes
  fstOuter : ∀ p u, (p, u) ∈ A.P a → A.out p = true
  inner : ∀ pre p u rest, A.P a = pre ++ (p, u) :: rest → A.out u = false →
    ∃ y, A.L p = .vertex y ∧ rest = A.P y
  fiHead : A.F a = A.fin c (A.P a)
  fi : ∀ pre p u rest, A.P a = pre ++ (p, u) :: rest →
    A.F p = A.fin c ((p, u) :: rest) ∧ (A.out u = true → A.F u = A.fin c rest)
  labStart : A.L a = .start → a = c.sv
  labVertex : ∀ y, A.L a = .vertex y →
    y ∈ c.v.g.nodes ∧ A.out y = true ∧ (∃ u, A.P a = (a, u) :: A.P y) ∧ A.tau y < A.tau a
  labEdge : ∀ k s t, A.L a = .edge k s t →
    ∃ c' d', ((c' = s ∧ d' = t) ∨ (c' = t ∧ d' = s)) ∧ c' ∈ c.v.g.nodes ∧ d' ∈ c.v.g.nodes ∧
      A.out c' = true ∧ A.out d' = true ∧ c.J c' d' ∧ A.tau c' < A.tau a ∧ A.tau d' < A.tau a ∧
      ∃ pre z0 post, A.P c' = pre ++ (z0, a) :: post ∧ A.P a = (a, z0) :: revswap pre ++ A.P d' ∧
        ∀ x ∈ z0 :: verts pre, A.tau x < A.tau a

structure AInv (c : Ctx) (A : AS) : Prop where
  ordNodup : A.ord.Nodup
  ordMem : ∀ x, x ∈ A.ord ↔ x ∈ c.v.g.nodes ∧ A.out x = true
  svFree : c.sv ∈ c.v.g.nodes → A.out c.sv = true ∧ c.μ c.sv = none
  path : ∀ a ∈ c.v.g.nodes, A.out a = true → PathOK c A a

theorem Label.isOuter_cases (l : Label) (h : l.isOuter = true) :
    l = .start ∨ (∃ y, l = .vertex y) ∨ ∃ k s t, l = .edge k s t := by
  cases l with
  | none => cases h
  | flag k => cases h
  | start => exact Or.inl rfl
  | vertex y => exact Or.inr (Or.inl ⟨y, rfl⟩)
  | edge k s t => exact Or.inr (Or.inr ⟨k, s, t, rfl⟩)

/-- the path of the start vertex is empty -/
theorem PathOK.sv_nil {c : Ctx} {A : AS} (h : PathOK c A c.sv) : A.P c.sv = [] := by
  cases hp : A.P c.sv with
  | nil => rfl
  | cons a r =>
    obtain ⟨p, q⟩ := a
    have hd := h.hd
    rw [hp, fstOr_cons] at hd
    have nd := h.nodup
    rw [hp, hd] at nd
    simp at nd

/-- a non-empty path starts at its owner -/
theorem PathOK.cons_fst {c : Ctx} {A : AS} {a p q : Nat} {r : PL} (h : PathOK c A a)
    (hp : A.P a = (p, q) :: r) : p = a := by
  have := h.hd; rw [hp] at this; exact this

end PetgraphModel.C15W2
