import PetgraphModel.Model.C13Vf2Link
import PetgraphModel.Proofs.C13W4Relabel
/-
C13, wave 4 — the abstract problem `P` the oracle is asked and the concrete instance `I` the mirror model is
run on pose THE SAME problem whenever the executable link check (`Model/C13Vf2Link.lean`) passes:

* `Embeds P f`  →  `Final I` of the re-indexed `f` (`Link.forward`);
* `Final I mp`  →  `Embeds P` of the re-indexed `mp` (`Link.backward`);
* hence `SubIso P ↔ ∃ mp, Final I mp`, `Iso P ↔ ∃ mp, Final I mp ∧ n0 = n1`, and the oracle's list `subIsoAll P`
  is exactly the set of vectors `toAbstract I mp` the model reports for the valid complete mappings.
-/
namespace PetgraphModel.C13.Vf2
open PetgraphModel PetgraphModel.C13

/-- the concrete graph `g` (index labeling `abs`) encodes the abstract graph `m` with node weights `nw` -/
structure LinkG (g : CG) (m : MGraph) (nw : Nat → Int) : Prop where
  nodes : m.nodes = List.range g.n
  dir : g.directed = m.directed
  adj : ∀ a b, a < g.n → b < g.n → (g.adj (g.ixOf a) (g.ixOf b) = true ↔ m.Adj a b)
  ew : ∀ e ∈ m.edges, g.ew (g.ixOf e.src) (g.ixOf e.tgt) = some e.w
  nw : ∀ a, a < g.n → (g.nw[g.ixOf a]?).getD 0 = nw a

theorem linkGraphB_sound {g : CG} {m : MGraph} {nw : Nat → Int} (h : linkGraphB g m nw = true) : LinkG g m nw := by
  simp only [linkGraphB, Bool.and_eq_true] at h
  obtain ⟨⟨⟨⟨h1, h2⟩, h3⟩, h4⟩, h5⟩ := h
  refine ⟨by simpa [linkNodesB] using h1, by simpa [linkDirB] using h2, ?_, ?_, ?_⟩
  · intro a b ha hb
    simp only [linkAdjB, List.all_eq_true, List.mem_range, beq_iff_eq] at h3
    rw [h3 a ha b hb]
    simp [adjB]
  · intro e he
    simp only [linkEwB, List.all_eq_true, beq_iff_eq] at h4
    exact h4 e he
  · intro a ha
    simp only [linkNwB, List.all_eq_true, List.mem_range, beq_iff_eq] at h5
    exact h5 a ha

theorem linkGraphFail_none {g : CG} {m : MGraph} {nw : Nat → Int} (h : linkGraphFail g m nw = none) :
    linkGraphB g m nw = true := by
  unfold linkGraphFail at h
  unfold linkGraphB
  cases h1 : linkNodesB g m <;> cases h2 : linkDirB g m <;> cases h3 : linkAdjB g m <;>
    cases h4 : linkEwB g m <;> cases h5 : linkNwB g nw <;> simp_all

theorem linkFail_none {I : Inst} {P : Problem} (h : linkFail I P = none) : linkOkB I P = true := by
  unfold linkFail at h
  unfold linkOkB
  cases h0 : linkGraphFail I.g0 P.g0 P.nw0 with
  | some w => rw [h0] at h; cases h
  | none =>
    rw [h0] at h
    cases h1 : linkGraphFail I.g1 P.g1 P.nw1 with
    | some w => rw [h1] at h; cases h
    | none => rw [linkGraphFail_none h0, linkGraphFail_none h1]; rfl

/-! ### the index labeling is a bijection -/

theorem ixOf_spec {g : CG} (p : g.abs.Perm (List.range g.n)) {a : Nat} (ha : a < g.n) :
    g.ixOf a < g.n ∧ g.absOf (g.ixOf a) = a := by
  obtain ⟨h1, h2⟩ := idxOf_perm_range p ha
  refine ⟨h1, ?_⟩
  unfold CG.absOf CG.ixOf
  rw [h2]; rfl

theorem absOf_spec {g : CG} (p : g.abs.Perm (List.range g.n)) {i : Nat} (hi : i < g.n) :
    g.absOf i < g.n ∧ g.ixOf (g.absOf i) = i := by
  have hl : g.abs.length = g.n := by simpa using p.length_eq
  have hi' : i < g.abs.length := by omega
  have hget : g.abs[i]? = some g.abs[i] := List.getElem?_eq_getElem hi'
  have hmem : g.abs[i] ∈ List.range g.n := p.subset (List.getElem_mem hi')
  have habs : g.absOf i = g.abs[i] := by unfold CG.absOf; rw [hget]; rfl
  refine ⟨by rw [habs]; exact List.mem_range.mp hmem, ?_⟩
  rw [habs]
  unfold CG.ixOf
  exact idxOf_of_getElem? (p.nodup_iff.mpr List.nodup_range) hget

/-- the weight the model finds between the images of the endpoints of an abstract edge -/
theorem LinkG.ew_of_connects {g : CG} {m : MGraph} {nw : Nat → Int} (ok : CGOk g) (l : LinkG g m nw)
    {e : Edge} (he : e ∈ m.edges) {a b : Nat} (hc : Connects m e a b) :
    g.ew (g.ixOf a) (g.ixOf b) = some e.w := by
  rcases hc with ⟨h1, h2⟩ | ⟨hd, h1, h2⟩
  · rw [← h1, ← h2]; exact l.ew e he
  · have := l.ew e he
    rw [h1, h2] at this
    rw [ok.undirEw (by rw [l.dir]; exact hd)]
    exact this

/-- everything the link theorems need -/
structure Link (I : Inst) (P : Problem) : Prop where
  ok0 : CGOk I.g0
  ok1 : CGOk I.g1
  hd : I.g0.directed = I.g1.directed
  p0 : I.g0.abs.Perm (List.range I.g0.n)
  p1 : I.g1.abs.Perm (List.range I.g1.n)
  l0 : LinkG I.g0 P.g0 P.nw0
  l1 : LinkG I.g1 P.g1 P.nw1
  wf0 : P.g0.WellFormed
  wf1 : P.g1.WellFormed
  hnm : ∀ x y, (!I.semantic || I.nm x y) = P.nm x y
  hem : ∀ x y, (!I.semantic || I.em x y) = P.em x y

namespace Link
variable {I : Inst} {P : Problem}

theorem nodes0 (L : Link I P) (a : Nat) : a ∈ P.g0.nodes ↔ a < I.g0.n := by
  rw [L.l0.nodes, List.mem_range]

theorem nodes1 (L : Link I P) (a : Nat) : a ∈ P.g1.nodes ↔ a < I.g1.n := by
  rw [L.l1.nodes, List.mem_range]

theorem dirP (L : Link I P) : P.g0.directed = P.g1.directed := by
  rw [← L.l0.dir, ← L.l1.dir]; exact L.hd

/-- the re-indexed function of an abstract embedding -/
def fwd (I : Inst) (f : Nat → Nat) : Nat → Nat := fun i => I.g1.ixOf (f (I.g0.absOf i))
/-- the abstract function of a concrete mapping -/
def bwd (I : Inst) (mp : List (Option Nat)) : Nat → Nat := fun a => I.g1.absOf (fval mp (I.g0.ixOf a))

/-- an embedding of the abstract problem, re-indexed, is a valid complete mapping of the instance -/
theorem forward (L : Link I P) {f : Nat → Nat} (e : Embeds P f) : Final I (vecOf I (fwd I f)) := by
  have key : ∀ i, i < I.g0.n → I.g0.absOf i < I.g0.n ∧ I.g0.ixOf (I.g0.absOf i) = i ∧
      f (I.g0.absOf i) < I.g1.n ∧ fwd I f i < I.g1.n ∧ I.g1.absOf (fwd I f i) = f (I.g0.absOf i) := by
    intro i hi
    obtain ⟨h1, h2⟩ := absOf_spec L.p0 hi
    have h3 : f (I.g0.absOf i) < I.g1.n := (L.nodes1 _).mp (e.mapsTo _ ((L.nodes0 _).mpr h1))
    obtain ⟨h4, h5⟩ := ixOf_spec L.p1 h3
    exact ⟨h1, h2, h3, h4, h5⟩
  have hadjP : ∀ i i', i < I.g0.n → i' < I.g0.n →
      (I.g0.adj i i' = true ↔ P.g0.Adj (I.g0.absOf i) (I.g0.absOf i')) := by
    intro i i' hi hi'
    obtain ⟨ha, hia, _, _, _⟩ := key i hi
    obtain ⟨ha', hia', _, _, _⟩ := key i' hi'
    have h0 := L.l0.adj _ _ ha ha'
    rw [hia, hia'] at h0
    exact h0
  have hadj1 : ∀ i i', i < I.g0.n → i' < I.g0.n →
      (I.g1.adj (fwd I f i) (fwd I f i') = true ↔ P.g1.Adj (f (I.g0.absOf i)) (f (I.g0.absOf i'))) := by
    intro i i' hi hi'
    obtain ⟨_, _, hfa, _, _⟩ := key i hi
    obtain ⟨_, _, hfa', _, _⟩ := key i' hi'
    exact L.l1.adj _ _ hfa hfa'
  have hadj : ∀ i i', i < I.g0.n → i' < I.g0.n → I.g0.adj i i' = I.g1.adj (fwd I f i) (fwd I f i') := by
    intro i i' hi hi'
    apply Bool.eq_of_iff'
    rw [hadjP i i' hi hi', hadj1 i i' hi hi']
    exact e.adj _ ((L.nodes0 _).mpr (key i hi).1) _ ((L.nodes0 _).mpr (key i' hi').1)
  refine ⟨by simp [vecOf], ?_, ?_, ⟨?_, ?_, ?_⟩⟩
  · intro i hi
    exact ⟨fwd I f i, vecOf_get hi, (key i hi).2.2.2.1⟩
  · intro i i' j h h'
    have a := vecOf_getD (I := I) (f := fwd I f) (i := i) (j := j) (by rw [h]; rfl)
    have b := vecOf_getD (I := I) (f := fwd I f) (i := i') (j := j) (by rw [h']; rfl)
    obtain ⟨ha, hia, _, _, h5⟩ := key i a.1
    obtain ⟨ha', hia', _, _, h5'⟩ := key i' b.1
    have hf : f (I.g0.absOf i) = f (I.g0.absOf i') := by rw [← h5, ← h5', a.2, b.2]
    have := e.inj _ ((L.nodes0 _).mpr ha) _ ((L.nodes0 _).mpr ha') hf
    rw [← hia, ← hia', this]
  · intro i j i' j' h h'
    obtain ⟨hi, rfl⟩ := vecOf_getD h
    obtain ⟨hi', rfl⟩ := vecOf_getD h'
    exact hadj i i' hi hi'
  · intro hs i j h
    obtain ⟨hi, rfl⟩ := vecOf_getD h
    obtain ⟨ha, hia, hfa, _, _⟩ := key i hi
    have w0 := L.l0.nw _ ha
    rw [hia] at w0
    have w1 := L.l1.nw _ hfa
    have hn := e.nodeOk _ ((L.nodes0 _).mpr ha)
    rw [← L.hnm, hs] at hn
    show I.nm ((I.g0.nw[i]?).getD 0) ((I.g1.nw[I.g1.ixOf (f (I.g0.absOf i))]?).getD 0) = true
    rw [w0, w1]
    simpa using hn
  · intro hs i j i' j' h h' ha0
    obtain ⟨hi, rfl⟩ := vecOf_getD h
    obtain ⟨hi', rfl⟩ := vecOf_getD h'
    obtain ⟨ha, hia, hfa, _, _⟩ := key i hi
    obtain ⟨ha', hia', hfa', _, _⟩ := key i' hi'
    obtain ⟨e0, he0, hc0⟩ := (hadjP i i' hi hi').mp ha0
    have hA1 : P.g1.Adj (f (I.g0.absOf i)) (f (I.g0.absOf i')) :=
      (e.adj _ ((L.nodes0 _).mpr ha) _ ((L.nodes0 _).mpr ha')).mp ⟨e0, he0, hc0⟩
    obtain ⟨e1, he1, hc1⟩ := hA1
    have ew0 := L.l0.ew_of_connects L.ok0 he0 (a := I.g0.absOf i) (b := I.g0.absOf i') hc0
    rw [hia, hia'] at ew0
    have ew1 := L.l1.ew_of_connects L.ok1 he1 (a := f (I.g0.absOf i)) (b := f (I.g0.absOf i')) hc1
    have hem : P.em e0.w e1.w = true := by
      apply e.edgeOk e0 he0 e1 he1
      rcases hc0 with ⟨c1, c2⟩ | ⟨d, c1, c2⟩
      · rw [c1, c2]; exact hc1
      · rw [c1, c2]
        exact Connects.symm_undirected (by rw [← L.dirP]; exact d) hc1
    rw [← L.hem, hs] at hem
    unfold edgeEq
    show (match I.g0.ew i i', I.g1.ew (I.g1.ixOf (f (I.g0.absOf i))) (I.g1.ixOf (f (I.g0.absOf i'))) with
      | some x, some y => I.em x y
      | _, _ => false) = true
    rw [ew0, ew1]
    simpa using hem

/-- a valid complete mapping of the instance, read in abstract ids, is an embedding of the abstract problem -/
theorem backward (L : Link I P) {mp : List (Option Nat)} (hf : Final I mp) : Embeds P (bwd I mp) := by
  have key : ∀ a, a < I.g0.n → I.g0.ixOf a < I.g0.n ∧ I.g0.absOf (I.g0.ixOf a) = a ∧
      (mp[I.g0.ixOf a]?).getD none = some (fval mp (I.g0.ixOf a)) ∧ fval mp (I.g0.ixOf a) < I.g1.n ∧
      bwd I mp a < I.g1.n ∧ I.g1.ixOf (bwd I mp a) = fval mp (I.g0.ixOf a) := by
    intro a ha
    obtain ⟨h1, h2⟩ := ixOf_spec L.p0 ha
    obtain ⟨h3, h4⟩ := hf.get h1
    obtain ⟨h5, h6⟩ := absOf_spec L.p1 h4
    exact ⟨h1, h2, by rw [h3]; rfl, h4, h5, h6⟩
  have hadj : ∀ a b, a < I.g0.n → b < I.g0.n → (P.g0.Adj a b ↔ P.g1.Adj (bwd I mp a) (bwd I mp b)) := by
    intro a b ha hb
    obtain ⟨hi, _, hm, _, hj, hjx⟩ := key a ha
    obtain ⟨hi', _, hm', _, hj', hjx'⟩ := key b hb
    rw [← L.l0.adj a b ha hb, ← L.l1.adj _ _ hj hj', hjx, hjx', hf.ok.adj _ _ _ _ hm hm']
  refine ⟨?_, ?_, ?_, ?_, ?_⟩
  · intro a ha
    exact (L.nodes1 _).mpr (key a ((L.nodes0 a).mp ha)).2.2.2.2.1
  · intro a ha b hb hab
    obtain ⟨hi, hia, _, _, _, hjx⟩ := key a ((L.nodes0 a).mp ha)
    obtain ⟨hi', hia', _, _, _, hjx'⟩ := key b ((L.nodes0 b).mp hb)
    have hv : fval mp (I.g0.ixOf a) = fval mp (I.g0.ixOf b) := by rw [← hjx, ← hjx', hab]
    have := hf.inj _ _ _ (hf.get hi).1 (by rw [hv]; exact (hf.get hi').1)
    rw [← hia, ← hia', this]
  · intro a ha b hb
    exact hadj a b ((L.nodes0 a).mp ha) ((L.nodes0 b).mp hb)
  · intro a ha
    have ha := (L.nodes0 a).mp ha
    obtain ⟨hi, _, hm, _, hj, hjx⟩ := key a ha
    rw [← L.hnm]
    cases hs : I.semantic with
    | false => rfl
    | true =>
      have := hf.ok.node hs _ _ hm
      rw [L.l0.nw a ha, ← hjx, L.l1.nw _ hj] at this
      simpa using this
  · intro e0 he0 e1 he1 hc
    rw [← L.hem]
    cases hs : I.semantic with
    | false => rfl
    | true =>
      have hsrc := (L.nodes0 _).mp (L.wf0.2 e0 he0).1
      have htgt := (L.nodes0 _).mp (L.wf0.2 e0 he0).2
      obtain ⟨hi, _, hm, _, hj, hjx⟩ := key _ hsrc
      obtain ⟨hi', _, hm', _, hj', hjx'⟩ := key _ htgt
      have hA : P.g0.Adj e0.src e0.tgt := ⟨e0, he0, Or.inl ⟨rfl, rfl⟩⟩
      have ha0 : I.g0.adj (I.g0.ixOf e0.src) (I.g0.ixOf e0.tgt) = true := (L.l0.adj _ _ hsrc htgt).mpr hA
      have hee := hf.ok.edge hs _ _ _ _ hm hm' ha0
      have ew0 := L.l0.ew e0 he0
      have ew1 := L.l1.ew_of_connects L.ok1 he1 hc
      rw [hjx, hjx'] at ew1
      unfold edgeEq at hee
      rw [ew0, ew1] at hee
      simpa using hee

theorem subIso_iff (L : Link I P) : SubIso P ↔ ∃ mp, Final I mp :=
  ⟨fun ⟨_, e⟩ => ⟨_, L.forward e⟩, fun ⟨_, hf⟩ => ⟨_, L.backward hf⟩⟩

theorem lengths (L : Link I P) : P.g0.nodes.length = I.g0.n ∧ P.g1.nodes.length = I.g1.n := by
  rw [L.l0.nodes, L.l1.nodes]; simp

theorem iso_iff (L : Link I P) : Iso P ↔ ∃ mp, Final I mp ∧ I.g0.n = I.g1.n := by
  constructor
  · intro h
    have hl := h.node_count_eq L.wf0.1 L.wf1.1
    rw [L.lengths.1, L.lengths.2] at hl
    obtain ⟨f, e, _⟩ := h
    exact ⟨_, L.forward e, hl⟩
  · rintro ⟨mp, hf, hn⟩
    have e := L.backward hf
    exact ⟨_, e, e.onto_of_length_eq L.wf0.1 (by rw [L.lengths.1, L.lengths.2, hn])⟩

/-! ### the reported vectors -/

/-- the vector the model reports for a valid complete mapping is the vector of its abstract function -/
theorem toAbstract_final (L : Link I P) {mp : List (Option Nat)} (hf : Final I mp) :
    toAbstract I mp = P.g0.nodes.map (bwd I mp) := by
  rw [toAbstract_eq_map, L.l0.nodes]
  apply List.map_congr_left
  intro a ha
  have ha := List.mem_range.mp ha
  obtain ⟨hi, _⟩ := ixOf_spec L.p0 ha
  rw [absEntry_final hf hi]
  rfl

/-- the vector the model reports for the re-indexed embedding `f` is the vector of `f` -/
theorem toAbstract_forward (L : Link I P) {f : Nat → Nat} (e : Embeds P f) :
    toAbstract I (vecOf I (fwd I f)) = P.g0.nodes.map f := by
  rw [L.toAbstract_final (L.forward e)]
  apply List.map_congr_left
  intro a ha
  have ha' := (L.nodes0 a).mp ha
  obtain ⟨hi, hia⟩ := ixOf_spec L.p0 ha'
  have hfa : f a < I.g1.n := (L.nodes1 _).mp (e.mapsTo a ha)
  show I.g1.absOf (fval (vecOf I (fwd I f)) (I.g0.ixOf a)) = f a
  rw [fval_vecOf hi]
  show I.g1.absOf (I.g1.ixOf (f (I.g0.absOf (I.g0.ixOf a)))) = f a
  rw [hia]
  exact (ixOf_spec L.p1 hfa).2

/-- the oracle's list is exactly the set of vectors the model reports for the valid complete mappings -/
theorem mem_subIsoAll (L : Link I P) (v : List Nat) :
    v ∈ subIsoAll P ↔ ∃ mp, Final I mp ∧ v = toAbstract I mp := by
  constructor
  · intro hv
    obtain ⟨hl, e⟩ := (C13.mem_subIsoAll P L.wf0.1 L.wf1.1 v).mp hv
    refine ⟨_, L.forward e, ?_⟩
    rw [L.toAbstract_forward e, map_mapOf L.wf0.1 hl]
  · rintro ⟨mp, hf, rfl⟩
    rw [L.toAbstract_final hf]
    exact subIsoAll_complete P L.wf0 L.wf1.1 (L.backward hf)

end Link

end PetgraphModel.C13.Vf2
